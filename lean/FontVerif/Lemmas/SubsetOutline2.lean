/-
Lemmas for C17 drawn-outline preservation, part 2: `SimpleGlyph::read` on a record given by its parts, the input and the
rewritten record of `subset_simple_glyph` by parts, the two point readers on `flag runs ++ coordinates ++ anything`,
and the OVERLAP_SIMPLE bit.
-/
import FontVerif.Lemmas.SubsetOutline
set_option linter.unusedVariables false
set_option linter.unusedSimpArgs false
namespace FontVerif.SubsetOutline
open FontVerif FontVerif.Subset

/-! ### `SimpleGlyph::read` on a record given by its parts -/

theorem gU16At_append_left (a b : List Nat) (p : Nat) (h : p + 2 ≤ a.length) :
    Glyf.u16At (a ++ b) p = Glyf.u16At a p := by
  unfold Glyf.u16At
  have h1 : p + 2 ≤ (a ++ b).length := by simp; omega
  simp only [h, h1, if_true, List.getD_eq_getElem?_getD]
  rw [List.getElem?_append_left (by omega), List.getElem?_append_left (by omega)]

theorem gI16At_append_left (a b : List Nat) (p : Nat) (h : p + 2 ≤ a.length) :
    Glyf.i16At (a ++ b) p = Glyf.i16At a p := by
  unfold Glyf.i16At; rw [gU16At_append_left a b p h]

theorem gU16At_at_end (a : List Nat) (x y : Nat) (r : List Nat) :
    Glyf.u16At (a ++ x :: y :: r) a.length = some (x * 256 + y) := by
  unfold Glyf.u16At
  have h1 : a.length + 2 ≤ (a ++ x :: y :: r).length := by simp
  simp only [h1, if_true, List.getD_eq_getElem?_getD]
  rw [List.getElem?_append_right (Nat.le_refl _), List.getElem?_append_right (by omega)]
  simp

theorem wrapI16_small (n : Nat) (h : n < 32768) : wrapI16 (n : Int) = (n : Int) := by
  unfold wrapI16
  simp only []
  split <;> omega

/-- the view `SimpleGlyph::read` produces for header ++ instructionLength ++ instructions ++ glyph data -/
def viewOf (hdr instr gd : Bytes) (n : Nat) : Glyf.SimpleView :=
  { nContours := n
    xMin := (Glyf.i16At hdr 2).getD 0
    yMin := (Glyf.i16At hdr 4).getD 0
    xMax := (Glyf.i16At hdr 6).getD 0
    yMax := (Glyf.i16At hdr 8).getD 0
    endPts := (List.range n).map (fun i => (Glyf.u16At hdr (10 + 2 * i)).getD 0)
    instructions := instr
    glyphData := gd }

theorem readSimple_parts (hdr instr gd : Bytes) (n x y : Nat) (hn : hdr.length = 10 + 2 * n)
    (h0 : Glyf.u16At hdr 0 = some n) (hlt : n < 32768) (hil : instr.length = x * 256 + y) :
    Glyf.readSimple (hdr ++ x :: y :: (instr ++ gd)) = some (viewOf hdr instr gd n) := by
  unfold Glyf.readSimple
  have e0 : Glyf.i16At (hdr ++ x :: y :: (instr ++ gd)) 0 = some (n : Int) := by
    rw [gI16At_append_left _ _ _ (by omega)]
    unfold Glyf.i16At
    rw [h0]
    simp [wrapI16_small n hlt]
  rw [e0]
  simp only
  have hneg : ¬ ((n : Int) < 0) := by omega
  simp only [hneg, if_false, Int.toNat_natCast]
  have ei : Glyf.u16At (hdr ++ x :: y :: (instr ++ gd)) (10 + 2 * n) = some (x * 256 + y) := by
    rw [← hn]; exact gU16At_at_end _ _ _ _
  rw [ei]
  simp only
  have hlen : 10 + 2 * n + 2 + (x * 256 + y) ≤ (hdr ++ x :: y :: (instr ++ gd)).length := by
    simp; omega
  simp only [hlen, if_true, viewOf]
  congr 1
  have b2 := gI16At_append_left hdr (x :: y :: (instr ++ gd)) 2 (by omega)
  have b4 := gI16At_append_left hdr (x :: y :: (instr ++ gd)) 4 (by omega)
  have b6 := gI16At_append_left hdr (x :: y :: (instr ++ gd)) 6 (by omega)
  have b8 := gI16At_append_left hdr (x :: y :: (instr ++ gd)) 8 (by omega)
  rw [b2, b4, b6, b8]
  have hend : (List.range n).map (fun i => (Glyf.u16At (hdr ++ x :: y :: (instr ++ gd)) (10 + 2 * i)).getD 0) =
      (List.range n).map (fun i => (Glyf.u16At hdr (10 + 2 * i)).getD 0) := by
    apply List.map_congr_left
    intro i hi
    rw [gU16At_append_left _ _ _ (by have := List.mem_range.mp hi; omega)]
  rw [hend]
  have hdrop1 : (hdr ++ x :: y :: (instr ++ gd)).drop (10 + 2 * n + 2) = instr ++ gd := by
    rw [← hn]
    simp [List.drop_append]
  have hdrop2 : (hdr ++ x :: y :: (instr ++ gd)).drop (10 + 2 * n + 2 + (x * 256 + y)) = gd := by
    rw [← List.drop_drop, hdrop1, ← hil]
    simp
  rw [hdrop1, hdrop2, ← hil]
  simp

/-! ### the input record and the rewritten record, by parts -/

theorem drop_two (d : Bytes) (a : Nat) (h : a + 2 ≤ d.length) :
    d.drop a = d.getD a 0 :: d.getD (a + 1) 0 :: d.drop (a + 2) := by
  rw [List.drop_eq_getElem_cons (by omega : a < d.length), List.drop_eq_getElem_cons (by omega : a + 1 < d.length)]
  simp [List.getD_eq_getElem?_getD, List.getElem?_eq_getElem (by omega : a < d.length),
    List.getElem?_eq_getElem (by omega : a + 1 < d.length)]

theorem take_two (d : Bytes) (a : Nat) (h : a + 2 ≤ d.length) :
    d.take (a + 2) = d.take a ++ [d.getD a 0, d.getD (a + 1) 0] := by
  rw [List.take_add, drop_two d a h]
  simp

/-- the simple glyph record, by parts -/
theorem record_parts (d : Bytes) (nc il : Nat) (hil : il = u16At d (10 + 2 * nc)) (hlen : 12 + 2 * nc + il ≤ d.length) :
    d = d.take (10 + 2 * nc) ++ d.getD (10 + 2 * nc) 0 :: d.getD (11 + 2 * nc) 0 ::
        ((d.drop (12 + 2 * nc)).take il ++ d.drop (12 + 2 * nc + il)) := by
  have h1 : d = d.take (10 + 2 * nc) ++ d.drop (10 + 2 * nc) := (List.take_append_drop _ _).symm
  have h2 := drop_two d (10 + 2 * nc) (by omega)
  have e : 10 + 2 * nc + 1 = 11 + 2 * nc := by omega
  have e2 : 10 + 2 * nc + 2 = 12 + 2 * nc := by omega
  rw [e, e2] at h2
  have h3 : d.drop (12 + 2 * nc) = (d.drop (12 + 2 * nc)).take il ++ d.drop (12 + 2 * nc + il) := by
    have : d.drop (12 + 2 * nc + il) = (d.drop (12 + 2 * nc)).drop il := by rw [List.drop_drop]
    rw [this]; exact (List.take_append_drop _ _).symm
  rw [← h3, ← h2]
  exact h1

theorem set_at_append (A B : Bytes) (n : Nat) (hn : n = A.length) :
    (A ++ B).set n ((A ++ B).getD n 0 ||| 0x40) = A ++ B.set 0 (B.getD 0 0 ||| 0x40) := by
  subst hn
  rw [List.set_append_right _ _ (Nat.le_refl _)]
  simp [List.getD_eq_getElem?_getD, List.getElem?_append_right]

/-- `out[first] |= OVERLAP_SIMPLE` -/
def ovl (flags : Nat) (t : Bytes) : Bytes :=
  if hasFlag flags F_SET_OVERLAPS then t.set 0 (t.getD 0 0 ||| 0x40) else t

theorem subsetSimple_parts (flags : Nat) (d : Bytes) (nc il : Nat) (out : Bytes)
    (hil : il = u16At d (10 + 2 * nc)) (hlen : 12 + 2 * nc + il ≤ d.length)
    (h : subsetSimple flags d nc = .bytes out) (hne : out ≠ []) :
    nc ≠ 0 ∧ ∃ k, k = trimSimpleGlyphPadding (d.drop (12 + 2 * nc + il)) (u16At d (10 + 2 * (nc - 1)) + 1) ∧
      k ≠ 0 ∧ k ≤ (d.drop (12 + 2 * nc + il)).length ∧
      out = d.take (10 + 2 * nc) ++
        (if hasFlag flags F_NO_HINTING then 0 :: 0 :: ([] ++ ovl flags ((d.drop (12 + 2 * nc + il)).take k))
         else d.getD (10 + 2 * nc) 0 :: d.getD (11 + 2 * nc) 0 ::
           ((d.drop (12 + 2 * nc)).take il ++ ovl flags ((d.drop (12 + 2 * nc + il)).take k))) := by
  subst hil
  unfold subsetSimple at h
  split at h
  · simp at h; exact absurd h hne
  · rename_i hnc
    refine ⟨hnc, ?_⟩
    have e1 : 10 + 2 * nc + 2 = 12 + 2 * nc := by omega
    have e3 : 12 + 2 * nc - 2 = 10 + 2 * nc := by omega
    have e4 : 12 + 2 * nc - 1 = 11 + 2 * nc := by omega
    simp only [e1, e3, e4] at h
    split at h
    · simp at h; exact absurd h hne
    · rename_i hk0
      split at h
      · simp at h; exact absurd h hne
      · rename_i t ht
        obtain ⟨ht1, ht2⟩ := sliceGet_zero _ _ _ ht
        refine ⟨_, rfl, hk0, ht2, ?_⟩
        simp only [GlyphRes.bytes.injEq] at h
        rw [← h, ht1]
        have htk := take_two d (10 + 2 * nc) (by omega)
        have e5 : 10 + 2 * nc + 2 = 12 + 2 * nc := by omega
        have e6 : 10 + 2 * nc + 1 = 11 + 2 * nc := by omega
        rw [e5, e6] at htk
        have hl10 : (d.take (10 + 2 * nc)).length = 10 + 2 * nc := by simp; omega
        by_cases hnh : hasFlag flags F_NO_HINTING = true
        · simp only [hnh, if_true]
          have hset : ((d.take (12 + 2 * nc)).set (10 + 2 * nc) 0).set (11 + 2 * nc) 0 = d.take (10 + 2 * nc) ++ [0, 0] := by
            rw [htk]
            rw [List.set_append_right _ _ (by omega), List.set_append_right _ _ (by simp; omega)]
            simp [hl10]
            have : 11 + 2 * nc - (10 + 2 * nc) = 1 := by omega
            simp [this]
          rw [hset]
          by_cases hov : hasFlag flags F_SET_OVERLAPS = true
          · simp only [hov, if_true, ovl]
            rw [set_at_append _ _ _ rfl]
            simp
          · simp only [hov, ovl]
            simp
        · simp only [hnh]
          by_cases hov : hasFlag flags F_SET_OVERLAPS = true
          · simp only [hov, if_true, ovl]
            rw [set_at_append _ _ _ rfl, htk]
            simp
          · simp only [hov, ovl, htk]
            simp

/-! ### the two point readers on `flag runs ++ coordinates ++ anything` -/

theorem expand_length : ∀ (R : List (Nat × Nat)), (expand R).length = counts R
  | [] => rfl
  | (f, n) :: rs => by
    rw [expand_cons]; simp [counts, expand_length rs]

theorem sum_replicate_nat (n a : Nat) : (List.replicate n a).sum = n * a := by
  induction n with
  | zero => simp
  | succ k ih => simp [List.replicate_succ, ih, Nat.succ_mul]; omega

theorem expand_ySz : ∀ (R : List (Nat × Nat)), ((expand R).map ySz).sum = yTot R
  | [] => rfl
  | (f, n) :: rs => by
    rw [expand_cons]
    have := expand_ySz rs
    simp only [yTot, List.map_append, List.map_replicate, List.sum_append, sum_replicate_nat, List.map_cons,
      List.sum_cons] at *
    rw [this, Nat.mul_comm]

theorem expand_fastNeed_x : ∀ (R : List (Nat × Nat)), fastNeed Glyf.X_SHORT Glyf.X_SAME (expand R) = xTot R
  | [] => rfl
  | (f, n) :: rs => by
    rw [expand_cons]
    have := expand_fastNeed_x rs
    simp only [fastNeed, xTot, List.map_append, List.map_replicate, List.sum_append, sum_replicate_nat, List.map_cons,
      List.sum_cons, ← xSz_need] at *
    rw [this, Nat.mul_comm]

theorem expand_fastNeed_y : ∀ (R : List (Nat × Nat)), fastNeed Glyf.Y_SHORT Glyf.Y_SAME (expand R) = yTot R
  | [] => rfl
  | (f, n) :: rs => by
    rw [expand_cons]
    have := expand_fastNeed_y rs
    simp only [fastNeed, yTot, List.map_append, List.map_replicate, List.sum_append, sum_replicate_nat, List.map_cons,
      List.sum_cons, ← ySz_need] at *
    rw [this, Nat.mul_comm]

theorem counts_le_fuel : ∀ (R : List (Nat × Nat)), (∀ r ∈ R, runOk r) → (∀ r ∈ R, r.2 ≤ 256) →
    counts R ≤ 256 * (encRuns R).length
  | [], _, _ => by simp [counts]
  | (f, n) :: rs, hok, hc => by
    have ih := counts_le_fuel rs (fun r hr => hok r (List.mem_cons_of_mem _ hr)) (fun r hr => hc r (List.mem_cons_of_mem _ hr))
    have hn : n ≤ 256 := hc (f, n) (List.mem_cons_self ..)
    rw [encRuns_cons]
    simp only [counts, List.map_cons, List.sum_cons, List.length_append] at ih ⊢
    have : 1 ≤ (encRun (f, n)).length := by
      unfold encRun; split <;> simp
    omega

/-- the decoded points of `flag runs R ++ coordinate bytes C` -/
def ptsOfRuns (R : List (Nat × Nat)) (C : Bytes) : List Glyf.Point :=
  pointsOf (expand R) (C.take (xTot R)) (C.drop (xTot R)) 0 0

theorem points_of_runs (v : Glyf.SimpleView) (last : Nat) (R : List (Nat × Nat)) (C extra : Bytes)
    (hlast : v.endPts.getLast? = some last) (hgd : v.glyphData = encRuns R ++ (C ++ extra))
    (hok : ∀ r ∈ R, runOk r) (hcnt : counts R = last + 1) (h256 : ∀ r ∈ R, r.2 ≤ 256)
    (hC : C.length = xTot R + yTot R) :
    v.points = if last + 1 > 65535 then [] else ptsOfRuns R C := by
  unfold Glyf.SimpleView.points
  rw [hlast]
  simp only
  split
  · rfl
  · rw [hgd, ← hcnt, resolve_runs R (C ++ extra) 0 0 0 hok]
    simp only [Nat.zero_add]
    have hlen : ¬ ((encRuns R ++ (C ++ extra)).length < (encRuns R).length + xTot R + yTot R) := by
      simp; omega
    simp only [hlen, if_false]
    have ht : (encRuns R ++ (C ++ extra)).take (encRuns R).length = encRuns R := by simp
    have hd : (encRuns R ++ (C ++ extra)).drop (encRuns R).length = C ++ extra := by simp
    rw [ht, hd]
    unfold Glyf.PointIter.new
    have hc := collect_runs (256 * (encRuns R).length) 0 R 0 ((C ++ extra).take (xTot R)) ((C ++ extra).drop (xTot R)) 0 0 hok
      (by have := counts_le_fuel R hok h256; omega)
    simp only [List.replicate_zero, List.nil_append] at hc
    rw [hc]
    unfold ptsOfRuns
    have e1 : (C ++ extra).take (xTot R) = C.take (xTot R) := by
      rw [List.take_append_of_le_length (by omega)]
    have e2 : (C ++ extra).drop (xTot R) = C.drop (xTot R) ++ extra := by
      rw [List.drop_append_of_le_length (by omega)]
    rw [e1, e2]
    exact pointsOf_ys_extend _ _ _ _ _ _ (by rw [expand_ySz]; simp; omega)

/-- what `read_points_fast` answers for `flag runs R ++ coordinate bytes C` -/
def fastOfRuns (R : List (Nat × Nat)) (C : Bytes) : Option (List (Int × Int × Nat)) :=
  match Glyf.fastCoords Glyf.X_SHORT Glyf.X_SAME (expand R) C 0 with
  | none => none
  | some (xs, cur) =>
    match Glyf.fastCoords Glyf.Y_SHORT Glyf.Y_SAME (expand R) cur 0 with
    | none => none
    | some (ys, _) => some ((xs.zip (ys.zip (expand R))).map (fun t => (t.1, t.2.1, t.2.2 &&& 1)))

theorem encRuns_le_twice : ∀ (R : List (Nat × Nat)), (∀ r ∈ R, runOk r) → (encRuns R).length ≤ 2 * counts R
  | [], _ => by simp [encRuns, counts]
  | (f, n) :: rs, hok => by
    have ih := encRuns_le_twice rs (fun r hr => hok r (List.mem_cons_of_mem _ hr))
    have hr := hok (f, n) (List.mem_cons_self ..)
    rw [encRuns_cons]
    simp only [counts, List.map_cons, List.sum_cons, List.length_append] at ih ⊢
    unfold runOk at hr
    unfold encRun
    simp only at hr ⊢
    split at hr <;> simp_all <;> omega

/-- (read-fonts after `fix:` d12a1b2: the flag window is `2 * num_points` bytes, which always holds the flag runs) -/
theorem fast_of_runs (v : Glyf.SimpleView) (last : Nat) (R : List (Nat × Nat)) (C extra : Bytes)
    (hlast : v.endPts.getLast? = some last) (hgd : v.glyphData = encRuns R ++ (C ++ extra))
    (hok : ∀ r ∈ R, runOk r) (hcnt : counts R = last + 1)
    (hC : C.length = xTot R + yTot R) :
    v.readPointsFast = fastOfRuns R C := by
  have hfl : (encRuns R).length ≤ 2 * (last + 1) := by rw [← hcnt]; exact encRuns_le_twice R hok
  unfold Glyf.SimpleView.readPointsFast Glyf.SimpleView.numPoints
  rw [hlast]
  simp only
  have hne : R ≠ [] := by
    intro h; subst h; simp [counts] at hcnt
  have hn0 : ¬ (last + 1 = 0) := by omega
  simp only [hn0, if_false]
  have hwin : v.glyphData.take (min (2 * (last + 1)) v.glyphData.length) =
      encRuns R ++ (C ++ extra).take (min (2 * (last + 1)) v.glyphData.length - (encRuns R).length) := by
    rw [hgd, List.take_append]
    have : (encRuns R).take (min (2 * (last + 1)) (encRuns R ++ (C ++ extra)).length) = encRuns R := by
      apply List.take_of_length_le
      simp; omega
    rw [this]
  rw [hwin, ← hcnt, fastFlags_runs R _ hok hne]
  simp only [expand_length, ne_eq, not_true_eq_false, if_false]
  have hd : v.glyphData.drop (encRuns R).length = C ++ extra := by rw [hgd]; simp
  rw [hd]
  obtain ⟨lx, hx1, hx2⟩ := fastCoords_enough Glyf.X_SHORT Glyf.X_SAME (expand R) C extra 0
    (by rw [expand_fastNeed_x]; omega)
  obtain ⟨ly, hy1, hy2⟩ := fastCoords_enough Glyf.Y_SHORT Glyf.Y_SAME (expand R)
    (C.drop (fastNeed Glyf.X_SHORT Glyf.X_SAME (expand R))) extra 0
    (by rw [expand_fastNeed_x, expand_fastNeed_y]; simp; omega)
  unfold fastOfRuns
  rw [hx2, hx1]
  simp only
  rw [hy2, hy1]

/-! ### the overlap bit -/

def ovlRuns (flags : Nat) : List (Nat × Nat) → List (Nat × Nat)
  | [] => []
  | (f, n) :: rs => if hasFlag flags F_SET_OVERLAPS then (f ||| 0x40, n) :: rs else (f, n) :: rs

theorem or40_and (f m : Nat) (hm : 0x40 &&& m = 0) : (f ||| 0x40) &&& m = f &&& m := by
  rw [Nat.and_or_distrib_right, hm, Nat.or_zero]

theorem xSz_or40 (f : Nat) : xSz (f ||| 0x40) = xSz f := by
  unfold xSz; rw [or40_and f 0x02 rfl, or40_and f 0x10 rfl]

theorem ySz_or40 (f : Nat) : ySz (f ||| 0x40) = ySz f := by
  unfold ySz; rw [or40_and f 0x04 rfl, or40_and f 0x20 rfl]

theorem encRun_or40 (f n : Nat) : encRun (f ||| 0x40, n) = (encRun (f, n)).set 0 (f ||| 0x40) := by
  unfold encRun
  simp only [or40_and f 0x08 rfl]
  split <;> simp

theorem encRun_head (f n : Nat) : (encRun (f, n)).getD 0 0 = f := by
  unfold encRun; split <;> simp

theorem encRun_ne_nil (r : Nat × Nat) : encRun r ≠ [] := by
  unfold encRun; split <;> simp

theorem ovl_runs (flags : Nat) (R : List (Nat × Nat)) (c : Bytes) (hne : R ≠ []) :
    ovl flags (encRuns R ++ c) = encRuns (ovlRuns flags R) ++ c := by
  cases R with
  | nil => exact absurd rfl hne
  | cons r rs =>
    obtain ⟨f, n⟩ := r
    simp only [ovl, ovlRuns]
    split
    · rw [encRuns_cons, encRuns_cons, encRun_or40]
      have hl : 0 < (encRun (f, n)).length := List.length_pos_iff.mpr (encRun_ne_nil _)
      rw [List.append_assoc, List.set_append_left _ _ hl, List.append_assoc]
      congr 2
      rw [List.getD_eq_getElem?_getD, List.getElem?_append_left hl, ← List.getD_eq_getElem?_getD, encRun_head]
    · rfl

theorem ovlRuns_ok (flags : Nat) (R : List (Nat × Nat)) (hok : ∀ r ∈ R, runOk r) : ∀ r ∈ ovlRuns flags R, runOk r := by
  cases R with
  | nil => simp [ovlRuns]
  | cons r rs =>
    obtain ⟨f, n⟩ := r
    simp only [ovlRuns]
    split
    · intro r hr
      rcases List.mem_cons.mp hr with h | h
      · subst h
        have := hok (f, n) (List.mem_cons_self ..)
        unfold runOk at this ⊢
        simp only [or40_and f 0x08 rfl]
        exact this
      · exact hok r (List.mem_cons_of_mem _ h)
    · exact hok

theorem ovlRuns_counts (flags : Nat) (R : List (Nat × Nat)) : counts (ovlRuns flags R) = counts R := by
  cases R with
  | nil => rfl
  | cons r rs => obtain ⟨f, n⟩ := r; simp only [ovlRuns]; split <;> simp [counts]

theorem ovlRuns_xTot (flags : Nat) (R : List (Nat × Nat)) : xTot (ovlRuns flags R) = xTot R := by
  cases R with
  | nil => rfl
  | cons r rs => obtain ⟨f, n⟩ := r; simp only [ovlRuns]; split <;> simp [xTot, xSz_or40]

theorem ovlRuns_yTot (flags : Nat) (R : List (Nat × Nat)) : yTot (ovlRuns flags R) = yTot R := by
  cases R with
  | nil => rfl
  | cons r rs => obtain ⟨f, n⟩ := r; simp only [ovlRuns]; split <;> simp [yTot, ySz_or40]

theorem ovlRuns_256 (flags : Nat) (R : List (Nat × Nat)) (h : ∀ r ∈ R, r.2 ≤ 256) : ∀ r ∈ ovlRuns flags R, r.2 ≤ 256 := by
  cases R with
  | nil => simp [ovlRuns]
  | cons r rs =>
    obtain ⟨f, n⟩ := r
    simp only [ovlRuns]
    split
    · intro r hr
      rcases List.mem_cons.mp hr with h' | h'
      · subst h'; exact h (f, n) (List.mem_cons_self ..)
      · exact h r (List.mem_cons_of_mem _ h')
    · exact h

theorem ovlRuns_encLen (flags : Nat) (R : List (Nat × Nat)) : (encRuns (ovlRuns flags R)).length = (encRuns R).length := by
  cases R with
  | nil => rfl
  | cons r rs =>
    obtain ⟨f, n⟩ := r
    simp only [ovlRuns]
    split
    · rw [encRuns_cons, encRuns_cons, encRun_or40]; simp
    · rfl

theorem ovlRuns_expand (flags : Nat) (R : List (Nat × Nat)) :
    (expand (ovlRuns flags R)).map (· &&& 0x3F) = (expand R).map (· &&& 0x3F) := by
  cases R with
  | nil => rfl
  | cons r rs =>
    obtain ⟨f, n⟩ := r
    simp only [ovlRuns]
    split
    · rw [expand_cons, expand_cons]
      simp only [List.map_append, List.map_replicate, or40_and f 0x3F rfl]
    · rfl

theorem ptsOfRuns_ovl (flags : Nat) (R : List (Nat × Nat)) (C : Bytes) :
    ptsOfRuns (ovlRuns flags R) C = ptsOfRuns R C := by
  unfold ptsOfRuns
  rw [ovlRuns_xTot]
  exact pointsOf_congr _ _ _ _ _ _ (ovlRuns_expand flags R)

theorem zip3_congr : ∀ (xs ys : List Int) (F G : List Nat), F.map (· &&& 0x3F) = G.map (· &&& 0x3F) →
    (xs.zip (ys.zip F)).map (fun t => (t.1, t.2.1, t.2.2 &&& 1)) =
    (xs.zip (ys.zip G)).map (fun t => (t.1, t.2.1, t.2.2 &&& 1))
  | _, _, [], [], _ => rfl
  | _, _, [], _ :: _, h => by simp at h
  | _, _, _ :: _, [], h => by simp at h
  | [], _, _ :: _, _ :: _, _ => by simp
  | _ :: _, [], _ :: _, _ :: _, _ => by simp
  | x :: xs, y :: ys, f :: F, g :: G, h => by
    simp only [List.map_cons, List.cons.injEq] at h
    have e : f &&& 1 = g &&& 1 := by
      have h1 : (f &&& 0x3F) &&& 1 = (g &&& 0x3F) &&& 1 := by rw [h.1]
      rw [Nat.and_assoc, Nat.and_assoc] at h1
      exact h1
    simp only [List.zip_cons_cons, List.map_cons, e, zip3_congr xs ys F G h.2]

theorem fastOfRuns_ovl (flags : Nat) (R : List (Nat × Nat)) (C : Bytes) :
    fastOfRuns (ovlRuns flags R) C = fastOfRuns R C := by
  unfold fastOfRuns
  rw [fastCoords_congr Glyf.X_SHORT Glyf.X_SAME rfl rfl _ _ C 0 (ovlRuns_expand flags R)]
  split
  · rfl
  · rename_i xs cur _
    rw [fastCoords_congr Glyf.Y_SHORT Glyf.Y_SAME rfl rfl _ _ cur 0 (ovlRuns_expand flags R)]
    split
    · rfl
    · rw [zip3_congr _ _ _ _ (ovlRuns_expand flags R)]

end FontVerif.SubsetOutline
