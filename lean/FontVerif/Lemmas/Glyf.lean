/-
Helper lemmas for C09 (Props/C09.lean): bit facts about glyph flags, single-coordinate
encode/decode, the run-length coder, the `PointIter` state machine and `read_points_fast`.
-/
import FontVerif.Model.Glyf
set_option linter.unusedVariables false
namespace FontVerif.Glyf
open FontVerif

/-! ## bit facts -/

/-- a flag byte without the repeat bit -/
def FlagOk (f : Nat) : Prop := f < 256 ∧ f &&& 8 = 0

instance (f : Nat) : Decidable (FlagOk f) := by unfold FlagOk; infer_instance

theorem clearRepeat_or8 : ∀ g, g < 256 → g &&& 8 = 0 → clearRepeat (g ||| 8) = g := by
  decide +kernel

theorem clearRepeat_ok : ∀ g, g < 256 → g &&& 8 = 0 → clearRepeat g = g := by
  decide +kernel

theorem or8_or8 : ∀ g, g < 256 → (g ||| 8) ||| 8 = g ||| 8 := by decide +kernel

theorem or8_lt : ∀ g, g < 256 → g ||| 8 < 256 := by decide +kernel

theorem hasBit_or8_repeat : ∀ g, g < 256 → hasBit (g ||| 8) 8 = true := by decide +kernel

theorem hasBit_ok_repeat : ∀ g, g < 256 → g &&& 8 = 0 → hasBit g 8 = false := by decide +kernel

/-- the bits the point decoders look at are untouched by clearing the repeat bit -/
theorem hasBit_clearRepeat (f m : Nat) (hm : 0xF7 &&& m = m) :
    hasBit (clearRepeat f) m = hasBit f m := by
  unfold hasBit clearRepeat
  rw [Nat.and_assoc, hm]

theorem hasBit_or (a b m : Nat) : hasBit (a ||| b) m = (hasBit a m || hasBit b m) := by
  unfold hasBit
  rw [Nat.and_or_distrib_right]
  generalize a &&& m = x
  generalize b &&& m = y
  rw [Bool.eq_iff_iff]
  simp [Nat.or_eq_zero_iff]
  omega

/-! ## one coordinate -/

theorem be16_eq (v : Int) : be16 v = [(v % 65536).toNat / 256, (v % 65536).toNat % 256] := rfl

theorem i16_of_be (v : Int) (h : inI16 v) :
    wrapI16 (((((v % 65536).toNat / 256 : Nat) : Int)) * 256
      + (((v % 65536).toNat % 256 : Nat) : Int)) = v := by
  unfold wrapI16 inI16 at *
  simp only []
  split <;> omega

theorem readI16_be16 (v : Int) (h : inI16 v) (rest : List Nat) :
    readI16 (be16 v ++ rest) = (some v, rest) := by
  simp only [be16_eq, List.cons_append, List.nil_append, readI16]
  rw [i16_of_be v h]

/-- decoding what `flag_and_delta` wrote, for any flag byte that agrees with the computed
flag on the short and same/positive bits. -/
theorem readDelta_flagAndDelta (v : Int) (hv : inI16 v) (S P : Nat) (f : Nat) (rest : List Nat)
    (hS : hasBit S S = true) (hP : hasBit P P = true) (hSP : hasBit S P = false)
    (hPS : hasBit P S = false)
    (h1 : hasBit f S = hasBit (flagAndDelta v S P).1 S)
    (h2 : hasBit f P = hasBit (flagAndDelta v S P).1 P) :
    readDelta (hasBit f S) (hasBit f P) ((flagAndDelta v S P).2.bytes ++ rest) = (v, rest) := by
  have h0S : hasBit 0 S = false := by simp [hasBit]
  have h0P : hasBit 0 P = false := by simp [hasBit]
  unfold flagAndDelta at *
  split at h1
  · -- zero
    rename_i hz
    simp only [hz, ↓reduceIte] at h2 ⊢
    rw [h1, h2, hPS, hP]
    simp [readDelta, CoordDelta.bytes]
  · split at h1
    · rename_i hz hn
      simp only [hz, hn, ↓reduceIte] at h2 ⊢
      simp only [and_self, ↓reduceIte] at h2 ⊢
      rw [h1, h2, hS, hSP]
      simp only [readDelta, CoordDelta.bytes, List.cons_append, List.nil_append, readU8,
        Option.getD_some]
      congr 1
      omega
    · split at h1
      · rename_i hz hn hp
        simp only [hz, hn, hp, ↓reduceIte] at h2 ⊢
        simp only [and_self, ↓reduceIte] at h2 ⊢
        rw [h1, h2, hasBit_or, hasBit_or, hS, hP]
        simp only [Bool.true_or, Bool.or_true, readDelta, CoordDelta.bytes, List.cons_append,
          List.nil_append, readU8, Option.getD_some]
        congr 1
        omega
      · rename_i hz hn hp
        simp only [hz, hn, hp, ↓reduceIte] at h2 ⊢
        rw [h1, h2, h0S, h0P]
        simp only [readDelta, CoordDelta.bytes, readI16_be16 v hv rest, Option.getD_some]

/-! ## run-length coding of flags -/

/-- number of points a flag item stands for, as every reader computes it:
`repeat byte + 1` when the repeat bit is set, otherwise 1. -/
def RepeatableFlag.count (r : RepeatableFlag) : Nat :=
  if hasBit r.flag REPEAT then r.rep + 1 else 1

/-- flags per point as the readers see them (the repeat bit stays set on repeated flags) -/
def expandRaw (items : List RepeatableFlag) : List Nat :=
  items.flatMap (fun r => List.replicate r.count r.flag)

theorem expandRaw_nil : expandRaw [] = [] := rfl

theorem expandRaw_cons (a : RepeatableFlag) (l : List RepeatableFlag) :
    expandRaw (a :: l) = List.replicate a.count a.flag ++ expandRaw l := by
  simp [expandRaw, List.flatMap_cons]

theorem count_plain (g : Nat) (h : FlagOk g) : (RepeatableFlag.mk g 0).count = 1 := by
  simp [RepeatableFlag.count]

theorem count_rep (g r : Nat) (h : g < 256) : (RepeatableFlag.mk (g ||| 8) r).count = r + 1 := by
  simp [RepeatableFlag.count, REPEAT, hasBit_or8_repeat g h]

/-- state invariant of `iter_from_flags`: `prev = (g', r)` stands for `r + 1` copies of `g` -/
def PrevOk (g' g r : Nat) : Prop := (r = 0 ∧ g' = g) ∨ (0 < r ∧ g' = g ||| 8)

theorem map_clear_replicate (n g' g : Nat) (h : clearRepeat g' = g) :
    (List.replicate n g').map clearRepeat = List.replicate n g := by
  simp [List.map_replicate, h]

/-- what the final/flushed `prev` expands to -/
theorem flush_expand (g' g r : Nat) (hg : FlagOk g) (hp : PrevOk g' g r) :
    (expandRaw (if r = 1 then [⟨clearRepeat g', 0⟩, ⟨clearRepeat g', 0⟩] else [⟨g', r⟩])).map
      clearRepeat = List.replicate (r + 1) g := by
  obtain ⟨hlt, h8⟩ := hg
  have hc : clearRepeat g' = g := by
    rcases hp with ⟨_, e⟩ | ⟨_, e⟩
    · rw [e]; exact clearRepeat_ok g hlt h8
    · rw [e]; exact clearRepeat_or8 g hlt h8
  split
  · rename_i h1
    subst h1
    rw [hc]
    simp only [expandRaw_cons, expandRaw_nil, count_plain g ⟨hlt, h8⟩, List.append_nil]
    simp [List.replicate, clearRepeat_ok g hlt h8]
  · rename_i h1
    rcases hp with ⟨r0, e⟩ | ⟨rpos, e⟩
    · subst r0; subst e
      simp only [expandRaw_cons, expandRaw_nil, count_plain g' ⟨hlt, h8⟩, List.append_nil]
      simp [List.replicate, hc]
    · subst e
      simp only [expandRaw_cons, expandRaw_nil, count_rep g r hlt, List.append_nil]
      exact map_clear_replicate _ _ _ hc

theorem iterFromFlags_some_expand (fs : List Nat) :
    ∀ (g' g r : Nat), FlagOk g → (∀ f ∈ fs, FlagOk f) → PrevOk g' g r → r ≤ 255 →
      (expandRaw (iterFromFlags (some ⟨g', r⟩) fs)).map clearRepeat
        = List.replicate (r + 1) g ++ fs := by
  induction fs with
  | nil =>
    intro g' g r hg _ hp hr
    simp only [iterFromFlags, List.append_nil]
    exact flush_expand g' g r hg hp
  | cons f fs ih =>
    intro g' g r hg hfs hp hr
    have hf : FlagOk f := hfs f (by simp)
    have hfs' : ∀ x ∈ fs, FlagOk x := fun x hx => hfs x (by simp [hx])
    obtain ⟨hlt, h8⟩ := hg
    have hc : clearRepeat g' = g := by
      rcases hp with ⟨_, e⟩ | ⟨_, e⟩
      · rw [e]; exact clearRepeat_ok g hlt h8
      · rw [e]; exact clearRepeat_or8 g hlt h8
    have hor : g' ||| REPEAT = g ||| 8 := by
      rcases hp with ⟨_, e⟩ | ⟨_, e⟩
      · rw [e]; rfl
      · rw [e]; exact or8_or8 g hlt
    simp only [iterFromFlags]
    split
    · rename_i hcond
      have hfg : f = g := by rw [← hc]; exact hcond.1.symm
      rw [hor]
      rw [ih (g ||| 8) g (r + 1) ⟨hlt, h8⟩ hfs' (Or.inr ⟨by omega, rfl⟩) (by omega)]
      subst hfg
      simp [List.replicate_succ', List.append_assoc]
    · rename_i hcond
      have key : (expandRaw (if r = 1 then [⟨clearRepeat g', 0⟩, ⟨clearRepeat g', 0⟩]
            else [⟨g', r⟩] : List RepeatableFlag)).map clearRepeat = List.replicate (r + 1) g :=
        flush_expand g' g r ⟨hlt, h8⟩ hp
      have ih' := ih f f 0 hf hfs' (Or.inl ⟨rfl, rfl⟩) (by omega)
      split
      · rename_i h1
        simp only [h1, ↓reduceIte] at key
        simp only [expandRaw_cons] at key ih' ⊢
        simp only [expandRaw_nil, List.append_nil] at key
        simp only [List.map_append] at key ih' ⊢
        rw [ih']
        rw [← List.append_assoc, key]
        simp [h1, List.replicate]
      · rename_i h1
        simp only [h1, ↓reduceIte] at key
        simp only [expandRaw_cons] at key ih' ⊢
        simp only [expandRaw_nil, List.append_nil] at key
        simp only [List.map_append] at key ih' ⊢
        rw [ih', key]
        simp

/-- the run-length coder loses nothing: expanding its output gives back the flags. -/
theorem iterFromFlags_expand (fs : List Nat) (h : ∀ f ∈ fs, FlagOk f) :
    (expandRaw (iterFromFlags none fs)).map clearRepeat = fs := by
  cases fs with
  | nil => simp [iterFromFlags, expandRaw]
  | cons f fs =>
    simp only [iterFromFlags]
    have := iterFromFlags_some_expand fs f f 0 (h f (by simp))
      (fun x hx => h x (by simp [hx])) (Or.inl ⟨rfl, rfl⟩) (by omega)
    simpa using this

/-! ### well-formedness of the coder's output (the writer's `debug_assert_eq!` and the u8
repeat counter never fail) -/

def ItemWf (i : RepeatableFlag) : Prop :=
  i.rep ≤ 255 ∧ i.flag < 256 ∧ hasBit i.flag REPEAT = decide (0 < i.rep)

theorem flush_wf (g' g r : Nat) (hg : FlagOk g) (hp : PrevOk g' g r) (hr : r ≤ 255) :
    ∀ i ∈ (if r = 1 then [⟨clearRepeat g', 0⟩, ⟨clearRepeat g', 0⟩] else [⟨g', r⟩] :
      List RepeatableFlag), ItemWf i := by
  obtain ⟨hlt, h8⟩ := hg
  have hc : clearRepeat g' = g := by
    rcases hp with ⟨_, e⟩ | ⟨_, e⟩
    · rw [e]; exact clearRepeat_ok g hlt h8
    · rw [e]; exact clearRepeat_or8 g hlt h8
  have plain : ItemWf ⟨g, 0⟩ := ⟨by simp, hlt, by simp [REPEAT, hasBit_ok_repeat g hlt h8]⟩
  intro i hi
  split at hi
  · rw [hc] at hi
    simp only [List.mem_cons, List.not_mem_nil, or_false, or_self] at hi
    rw [hi]; exact plain
  · simp only [List.mem_cons, List.not_mem_nil, or_false] at hi
    rw [hi]
    rcases hp with ⟨r0, e⟩ | ⟨rpos, e⟩
    · subst r0; subst e; exact plain
    · subst e
      exact ⟨hr, or8_lt g hlt, by simp [REPEAT, hasBit_or8_repeat g hlt, rpos]⟩

theorem iterFromFlags_some_wf (fs : List Nat) :
    ∀ (g' g r : Nat), FlagOk g → (∀ f ∈ fs, FlagOk f) → PrevOk g' g r → r ≤ 255 →
      ∀ i ∈ iterFromFlags (some ⟨g', r⟩) fs, ItemWf i := by
  induction fs with
  | nil =>
    intro g' g r hg _ hp hr
    simp only [iterFromFlags]
    exact flush_wf g' g r hg hp hr
  | cons f fs ih =>
    intro g' g r hg hfs hp hr
    have hf : FlagOk f := hfs f (by simp)
    have hfs' : ∀ x ∈ fs, FlagOk x := fun x hx => hfs x (by simp [hx])
    have hlt := hg.1
    have hor : g' ||| REPEAT = g ||| 8 := by
      rcases hp with ⟨_, e⟩ | ⟨_, e⟩
      · rw [e]; rfl
      · rw [e]; exact or8_or8 g hlt
    simp only [iterFromFlags]
    split
    · rename_i hcond
      rw [hor]
      exact ih (g ||| 8) g (r + 1) hg hfs' (Or.inr ⟨by omega, rfl⟩) (by omega)
    · have key := flush_wf g' g r hg hp hr
      have ih' := ih f f 0 hf hfs' (Or.inl ⟨rfl, rfl⟩) (by omega)
      split
      · rename_i h1
        simp only [h1, ↓reduceIte] at key
        intro i hi
        simp only [List.mem_cons] at hi
        rcases hi with hi | hi | hi
        · exact key i (by simp [hi])
        · exact key i (by simp [hi])
        · exact ih' i hi
      · rename_i h1
        simp only [h1, ↓reduceIte] at key
        intro i hi
        simp only [List.mem_cons] at hi
        rcases hi with hi | hi
        · exact key i (by simp [hi])
        · exact ih' i hi

theorem iterFromFlags_wf (fs : List Nat) (h : ∀ f ∈ fs, FlagOk f) :
    ∀ i ∈ iterFromFlags none fs, ItemWf i := by
  cases fs with
  | nil => simp [iterFromFlags]
  | cons f fs =>
    simp only [iterFromFlags]
    exact iterFromFlags_some_wf fs f f 0 (h f (by simp)) (fun x hx => h x (by simp [hx]))
      (Or.inl ⟨rfl, rfl⟩) (by omega)

/-! ### length optimality -/

/-- bytes an item occupies -/
def RepeatableFlag.cost (r : RepeatableFlag) : Nat := if hasBit r.flag REPEAT then 2 else 1

def rleCost (items : List RepeatableFlag) : Nat := (items.map RepeatableFlag.cost).sum

theorem bytes_length (r : RepeatableFlag) : r.bytes.length = r.cost := by
  unfold RepeatableFlag.bytes RepeatableFlag.cost; split <;> rfl

theorem flatMap_bytes_length (items : List RepeatableFlag) :
    (items.flatMap RepeatableFlag.bytes).length = rleCost items := by
  induction items with
  | nil => rfl
  | cons a l ih => simp [List.flatMap_cons, rleCost, bytes_length] at ih ⊢; try omega

/-- the fewest bytes that can stand for a run of `n` identical flags: a two-byte item covers up
to 256 of them, a one-byte item one. -/
def runCost (n : Nat) : Nat :=
  2 * (n / 256) + (if n % 256 = 0 then 0 else if n % 256 = 1 then 1 else 2)

theorem runCost_subadd (a b : Nat) : runCost (a + b) ≤ runCost a + runCost b := by
  unfold runCost
  repeat' split
  all_goals omega

/-- sum of `runCost` over the maximal runs of a flag list; `optAux g n` has a run of `n`
copies of `g` pending. -/
def optAux (g : Nat) (n : Nat) : List Nat → Nat
  | [] => runCost n
  | f :: fs => if f = g then optAux g (n + 1) fs else runCost n + optAux f 1 fs

def optCost : List Nat → Nat
  | [] => 0
  | f :: fs => optAux f 1 fs

theorem optAux_split (g : Nat) (rest : List Nat) :
    ∀ n m, optAux g (n + m) rest ≤ runCost n + optAux g m rest := by
  induction rest generalizing g with
  | nil => intro n m; simp only [optAux]; exact runCost_subadd n m
  | cons f fs ih =>
    intro n m
    simp only [optAux]
    split
    · have := ih g n (m + 1)
      rw [← Nat.add_assoc] at this
      exact this
    · have := runCost_subadd n m
      omega

theorem optAux_replicate (g : Nat) (rest : List Nat) :
    ∀ k n, optAux g n (List.replicate k g ++ rest) = optAux g (n + k) rest := by
  intro k
  induction k with
  | zero => intro n; simp
  | succ k ih =>
    intro n
    simp only [List.replicate_succ, List.cons_append, optAux, ↓reduceIte]
    rw [ih (n + 1)]
    congr 1
    omega

theorem optCost_replicate_append (g k : Nat) (hk : 0 < k) (rest : List Nat) :
    optCost (List.replicate k g ++ rest) ≤ runCost k + optCost rest := by
  obtain ⟨j, rfl⟩ : ∃ j, k = j + 1 := ⟨k - 1, by omega⟩
  simp only [List.replicate_succ, List.cons_append, optCost]
  rw [optAux_replicate g rest j 1]
  have e : 1 + j = j + 1 := by omega
  rw [e]
  cases rest with
  | nil => simp [optAux]
  | cons f fs =>
    simp only [optAux]
    split
    · rename_i hfg
      subst hfg
      exact optAux_split f fs (j + 1) 1
    · omega

theorem item_cost_ge (i : RepeatableFlag) (h : i.rep ≤ 255) : runCost i.count ≤ i.cost := by
  unfold RepeatableFlag.count RepeatableFlag.cost runCost
  split
  · repeat' split
    all_goals omega
  · simp

/-- the flags an encoding stands for -/
def expandItems (items : List RepeatableFlag) : List Nat := (expandRaw items).map clearRepeat

theorem count_pos (i : RepeatableFlag) : 0 < i.count := by
  unfold RepeatableFlag.count; split <;> omega

/-- no run-length encoding of a flag list is shorter than the sum of `runCost` over its runs -/
theorem optCost_le_any (items : List RepeatableFlag) (h : ∀ i ∈ items, i.rep ≤ 255) :
    optCost (expandItems items) ≤ rleCost items := by
  induction items with
  | nil => simp [expandItems, expandRaw, optCost, rleCost]
  | cons a l ih =>
    have ih' := ih (fun i hi => h i (by simp [hi]))
    have ha := item_cost_ge a (h a (by simp))
    have : expandItems (a :: l) = List.replicate a.count (clearRepeat a.flag) ++ expandItems l := by
      simp [expandItems, expandRaw_cons, List.map_append, List.map_replicate]
    rw [this]
    have := optCost_replicate_append (clearRepeat a.flag) a.count (count_pos a) (expandItems l)
    simp only [rleCost, List.map_cons, List.sum_cons] at ih' ⊢
    omega

theorem flush_cost (g' g r k : Nat) (hg : FlagOk g) (hp : PrevOk g' g r) (hr : r ≤ 255) :
    2 * k + rleCost (if r = 1 then [⟨clearRepeat g', 0⟩, ⟨clearRepeat g', 0⟩] else [⟨g', r⟩])
      = runCost (256 * k + r + 1) := by
  obtain ⟨hlt, h8⟩ := hg
  have hc : clearRepeat g' = g := by
    rcases hp with ⟨_, e⟩ | ⟨_, e⟩
    · rw [e]; exact clearRepeat_ok g hlt h8
    · rw [e]; exact clearRepeat_or8 g hlt h8
  have c1 : (RepeatableFlag.mk g 0).cost = 1 := by
    simp [RepeatableFlag.cost, REPEAT, hasBit_ok_repeat g hlt h8]
  have c2 : ∀ r, (RepeatableFlag.mk (g ||| 8) r).cost = 2 := by
    intro r; simp [RepeatableFlag.cost, REPEAT, hasBit_or8_repeat g hlt]
  split
  · rename_i h1
    subst h1
    rw [hc]
    simp only [rleCost, List.map_cons, List.map_nil, List.sum_cons, List.sum_nil, c1]
    unfold runCost
    repeat' split
    all_goals omega
  · rename_i h1
    rcases hp with ⟨r0, e⟩ | ⟨rpos, e⟩
    · subst r0; subst e
      simp only [rleCost, List.map_cons, List.map_nil, List.sum_cons, List.sum_nil, c1]
      unfold runCost
      repeat' split
      all_goals omega
    · subst e
      simp only [rleCost, List.map_cons, List.map_nil, List.sum_cons, List.sum_nil, c2]
      unfold runCost
      repeat' split
      all_goals omega

theorem rleCost_append (a b : List RepeatableFlag) : rleCost (a ++ b) = rleCost a + rleCost b := by
  simp [rleCost, List.map_append, List.sum_append]

theorem iterFromFlags_some_cost (fs : List Nat) :
    ∀ (g' g r k : Nat), FlagOk g → (∀ f ∈ fs, FlagOk f) → PrevOk g' g r → r ≤ 255 →
      2 * k + rleCost (iterFromFlags (some ⟨g', r⟩) fs) = optAux g (256 * k + r + 1) fs := by
  induction fs with
  | nil =>
    intro g' g r k hg _ hp hr
    simp only [iterFromFlags, optAux]
    exact flush_cost g' g r k hg hp hr
  | cons f fs ih =>
    intro g' g r k hg hfs hp hr
    have hf : FlagOk f := hfs f (by simp)
    have hfs' : ∀ x ∈ fs, FlagOk x := fun x hx => hfs x (by simp [hx])
    obtain ⟨hlt, h8⟩ := hg
    have hc : clearRepeat g' = g := by
      rcases hp with ⟨_, e⟩ | ⟨_, e⟩
      · rw [e]; exact clearRepeat_ok g hlt h8
      · rw [e]; exact clearRepeat_or8 g hlt h8
    have hor : g' ||| REPEAT = g ||| 8 := by
      rcases hp with ⟨_, e⟩ | ⟨_, e⟩
      · rw [e]; rfl
      · rw [e]; exact or8_or8 g hlt
    have key := flush_cost g' g r k ⟨hlt, h8⟩ hp hr
    simp only [iterFromFlags, optAux]
    rw [hc] at key ⊢
    by_cases hfg : g = f
    · subst hfg
      simp only [true_and, ↓reduceIte]
      by_cases hr2 : r < 255
      · simp only [hr2, ↓reduceIte]
        rw [hor]
        have := ih (g ||| 8) g (r + 1) k ⟨hlt, h8⟩ hfs' (Or.inr ⟨by omega, rfl⟩) (by omega)
        have e : 256 * k + (r + 1) + 1 = 256 * k + r + 1 + 1 := by omega
        rw [e] at this
        exact this
      · have hr3 : r = 255 := by omega
        subst hr3
        simp only [Nat.lt_irrefl, ↓reduceIte] at key ⊢
        have hne : ¬ (255 = 1) := by omega
        simp only [hne, ↓reduceIte] at key ⊢
        have := ih g g 0 (k + 1) ⟨hlt, h8⟩ hfs' (Or.inl ⟨rfl, rfl⟩) (by omega)
        have e : 256 * (k + 1) + 0 + 1 = 256 * k + 255 + 1 + 1 := by omega
        rw [e] at this
        rw [← this]
        simp only [rleCost, List.map_cons, List.sum_cons, List.map_nil, List.sum_nil] at key ⊢
        have rc : runCost (256 * k + 255 + 1) = 2 * k + 2 := by
          unfold runCost
          repeat' split
          all_goals omega
        omega
    · have hfg' : ¬ (f = g) := fun e => hfg e.symm
      simp only [hfg, false_and, ↓reduceIte, hfg']
      have ih' := ih f f 0 0 hf hfs' (Or.inl ⟨rfl, rfl⟩) (by omega)
      simp only [Nat.mul_zero, Nat.zero_add] at ih'
      rw [← ih', ← key]
      split
      · simp only [rleCost, List.map_cons, List.sum_cons, List.map_nil, List.sum_nil]
        omega
      · simp only [rleCost, List.map_cons, List.sum_cons, List.map_nil, List.sum_nil]
        omega

/-- the writer's flag bytes are exactly the sum of `runCost` over the maximal runs -/
theorem iterFromFlags_cost (fs : List Nat) (h : ∀ f ∈ fs, FlagOk f) :
    rleCost (iterFromFlags none fs) = optCost fs := by
  cases fs with
  | nil => simp [iterFromFlags, rleCost, optCost]
  | cons f fs =>
    simp only [iterFromFlags, optCost]
    have := iterFromFlags_some_cost fs f f 0 0 (h f (by simp)) (fun x hx => h x (by simp [hx]))
      (Or.inl ⟨rfl, rfl⟩) (by omega)
    simpa using this

/-! ## the `PointIter` state machine is a per-flag fold over the expanded flags -/

/-- coordinate part of the iterator state -/
structure CS where
  xs : List Nat
  ys : List Nat
  cx : Int
  cy : Int

/-- `advance_points` + the emitted point, for current flags `f` -/
def stepCS (f : Nat) (c : CS) : Point × CS :=
  let dx := readDelta (hasBit f X_SHORT) (hasBit f X_SAME) c.xs
  let dy := readDelta (hasBit f Y_SHORT) (hasBit f Y_SAME) c.ys
  (⟨wrapI16 (c.cx + dx.1), wrapI16 (c.cy + dy.1), hasBit f ON_CURVE⟩,
   ⟨dx.2, dy.2, wrapI16 (c.cx + dx.1), wrapI16 (c.cy + dy.1)⟩)

def decodeRun : List Nat → CS → List Point × CS
  | [], c => ([], c)
  | f :: fs, c =>
    let r := decodeRun fs (stepCS f c).2
    ((stepCS f c).1 :: r.1, r.2)

theorem decodeRun_append (a b : List Nat) : ∀ c,
    decodeRun (a ++ b) c =
      ((decodeRun a c).1 ++ (decodeRun b (decodeRun a c).2).1, (decodeRun b (decodeRun a c).2).2) := by
  induction a with
  | nil => intro c; simp [decodeRun]
  | cons f fs ih => intro c; simp [decodeRun, ih]

theorem decodeRun_length (fs : List Nat) : ∀ c, (decodeRun fs c).1.length = fs.length := by
  induction fs with
  | nil => intro c; rfl
  | cons f fs ih => intro c; simp [decodeRun, ih]

/-- `next` in the middle of a run -/
theorem next_mid (flags xs ys : List Nat) (k f : Nat) (cx cy : Int) :
    (PointIter.mk flags xs ys (k + 1) f cx cy).next =
      some ((stepCS f ⟨xs, ys, cx, cy⟩).1,
        PointIter.mk flags (stepCS f ⟨xs, ys, cx, cy⟩).2.xs (stepCS f ⟨xs, ys, cx, cy⟩).2.ys k f
          (stepCS f ⟨xs, ys, cx, cy⟩).2.cx (stepCS f ⟨xs, ys, cx, cy⟩).2.cy) := by
  simp [PointIter.next, PointIter.advanceFlags, PointIter.advancePoints, stepCS]

/-- `next` at an item boundary -/
theorem next_start (i : RepeatableFlag) (rest xs ys : List Nat) (f0 : Nat) (cx cy : Int) :
    (PointIter.mk (i.bytes ++ rest) xs ys 0 f0 cx cy).next =
      some ((stepCS i.flag ⟨xs, ys, cx, cy⟩).1,
        PointIter.mk rest (stepCS i.flag ⟨xs, ys, cx, cy⟩).2.xs (stepCS i.flag ⟨xs, ys, cx, cy⟩).2.ys
          (i.count - 1) i.flag
          (stepCS i.flag ⟨xs, ys, cx, cy⟩).2.cx (stepCS i.flag ⟨xs, ys, cx, cy⟩).2.cy) := by
  unfold RepeatableFlag.bytes RepeatableFlag.count
  by_cases h : hasBit i.flag REPEAT = true
  · simp [h, PointIter.next, PointIter.advanceFlags, PointIter.advancePoints, stepCS]
  · simp [h, PointIter.next, PointIter.advanceFlags, PointIter.advancePoints, stepCS]

theorem collect_mid (k : Nat) : ∀ (fuel : Nat) (flags xs ys : List Nat) (f : Nat) (cx cy : Int),
    k ≤ fuel →
    PointIter.collect fuel (PointIter.mk flags xs ys k f cx cy) =
      (decodeRun (List.replicate k f) ⟨xs, ys, cx, cy⟩).1 ++
        PointIter.collect (fuel - k)
          (PointIter.mk flags (decodeRun (List.replicate k f) ⟨xs, ys, cx, cy⟩).2.xs
            (decodeRun (List.replicate k f) ⟨xs, ys, cx, cy⟩).2.ys 0 f
            (decodeRun (List.replicate k f) ⟨xs, ys, cx, cy⟩).2.cx
            (decodeRun (List.replicate k f) ⟨xs, ys, cx, cy⟩).2.cy) := by
  induction k with
  | zero => intro fuel flags xs ys f cx cy _; simp [decodeRun]
  | succ k ih =>
    intro fuel flags xs ys f cx cy hk
    obtain ⟨fuel', rfl⟩ : ∃ m, fuel = m + 1 := ⟨fuel - 1, by omega⟩
    simp only [PointIter.collect, next_mid]
    rw [ih fuel' flags _ _ f _ _ (by omega)]
    simp [List.replicate_succ, decodeRun]

theorem collect_items (items : List RepeatableFlag) :
    ∀ (fuel : Nat) (xs ys : List Nat) (f0 : Nat) (cx cy : Int),
    (expandRaw items).length ≤ fuel →
    PointIter.collect fuel (PointIter.mk (items.flatMap RepeatableFlag.bytes) xs ys 0 f0 cx cy) =
      (decodeRun (expandRaw items) ⟨xs, ys, cx, cy⟩).1 := by
  induction items with
  | nil =>
    intro fuel xs ys f0 cx cy _
    cases fuel <;> simp [PointIter.collect, PointIter.next, PointIter.advanceFlags, expandRaw, decodeRun]
  | cons i rest ih =>
    intro fuel xs ys f0 cx cy hk
    have hc := count_pos i
    rw [expandRaw_cons] at hk ⊢
    simp only [List.length_append, List.length_replicate] at hk
    obtain ⟨fuel', rfl⟩ : ∃ m, fuel = m + 1 := ⟨fuel - 1, by omega⟩
    obtain ⟨j, hj⟩ : ∃ j, i.count = j + 1 := ⟨i.count - 1, by omega⟩
    simp only [List.flatMap_cons, PointIter.collect, next_start]
    rw [collect_mid (i.count - 1) fuel' _ _ _ _ _ _ (by omega)]
    rw [ih (fuel' - (i.count - 1)) _ _ _ _ _ (by omega)]
    rw [decodeRun_append]
    rw [hj]
    simp [List.replicate_succ, decodeRun]

/-! ## decoding the coordinates the writer produced -/

def PointsInRange (pts : List Point) : Prop := ∀ p ∈ pts, inI16 p.x ∧ inI16 p.y

theorem X_bits : hasBit X_SHORT X_SHORT = true ∧ hasBit X_SAME X_SAME = true
    ∧ hasBit X_SHORT X_SAME = false ∧ hasBit X_SAME X_SHORT = false := by decide
theorem Y_bits : hasBit Y_SHORT Y_SHORT = true ∧ hasBit Y_SAME Y_SAME = true
    ∧ hasBit Y_SHORT Y_SAME = false ∧ hasBit Y_SAME Y_SHORT = false := by decide

/-- the per-point flag of `compute_point_deltas` -/
def pointFlag (on : Bool) (dX dY : Int) : Nat :=
  (if on then ON_CURVE else 0) ||| ((flagAndDelta dX X_SHORT X_SAME).1 ||| (flagAndDelta dY Y_SHORT Y_SAME).1)

theorem fad_x_cases (v : Int) : (flagAndDelta v X_SHORT X_SAME).1 = 16 ∨
    (flagAndDelta v X_SHORT X_SAME).1 = 2 ∨ (flagAndDelta v X_SHORT X_SAME).1 = 18 ∨
    (flagAndDelta v X_SHORT X_SAME).1 = 0 := by
  unfold flagAndDelta
  repeat' split
  all_goals simp [X_SHORT, X_SAME]

theorem fad_y_cases (v : Int) : (flagAndDelta v Y_SHORT Y_SAME).1 = 32 ∨
    (flagAndDelta v Y_SHORT Y_SAME).1 = 4 ∨ (flagAndDelta v Y_SHORT Y_SAME).1 = 36 ∨
    (flagAndDelta v Y_SHORT Y_SAME).1 = 0 := by
  unfold flagAndDelta
  repeat' split
  all_goals simp [Y_SHORT, Y_SAME]

/-- facts about the 32 possible point flags -/
theorem pointFlag_facts (on : Bool) (dX dY : Int) :
    FlagOk (pointFlag on dX dY)
    ∧ hasBit (pointFlag on dX dY) ON_CURVE = on
    ∧ hasBit (pointFlag on dX dY) X_SHORT = hasBit (flagAndDelta dX X_SHORT X_SAME).1 X_SHORT
    ∧ hasBit (pointFlag on dX dY) X_SAME = hasBit (flagAndDelta dX X_SHORT X_SAME).1 X_SAME
    ∧ hasBit (pointFlag on dX dY) Y_SHORT = hasBit (flagAndDelta dY Y_SHORT Y_SAME).1 Y_SHORT
    ∧ hasBit (pointFlag on dX dY) Y_SAME = hasBit (flagAndDelta dY Y_SHORT Y_SAME).1 Y_SAME := by
  unfold pointFlag
  rcases fad_x_cases dX with h | h | h | h <;> rcases fad_y_cases dY with h' | h' | h' | h' <;>
    rw [h, h'] <;> cases on <;> decide

theorem computePointDeltas_flags (pts : List Point) : ∀ (lx ly : Int) (ds : List PointDelta),
    computePointDeltas lx ly pts = some ds → ∀ f ∈ ds.map (·.flag), FlagOk f := by
  induction pts with
  | nil => intro lx ly ds h; simp [computePointDeltas] at h; subst h; simp
  | cons p ps ih =>
    intro lx ly ds h
    simp only [computePointDeltas] at h
    split at h
    · cases hrec : computePointDeltas p.x p.y ps with
      | none => simp [hrec] at h
      | some rest =>
        simp only [hrec, Option.map_some, Option.some.injEq] at h
        subst h
        intro f hf
        simp only [List.map_cons, List.mem_cons] at hf
        rcases hf with hf | hf
        · rw [hf]; exact (pointFlag_facts p.on (p.x - lx) (p.y - ly)).1
        · exact ih p.x p.y rest hrec f hf
    · simp at h

theorem computePointDeltas_length (pts : List Point) : ∀ (lx ly : Int) (ds : List PointDelta),
    computePointDeltas lx ly pts = some ds → ds.length = pts.length := by
  induction pts with
  | nil => intro lx ly ds h; simp [computePointDeltas] at h; subst h; rfl
  | cons p ps ih =>
    intro lx ly ds h
    simp only [computePointDeltas] at h
    split at h
    · cases hrec : computePointDeltas p.x p.y ps with
      | none => simp [hrec] at h
      | some rest =>
        simp only [hrec, Option.map_some, Option.some.injEq] at h
        subst h
        simp [ih p.x p.y rest hrec]
    · simp at h

/-- decoding, flag by flag, the coordinate bytes the writer produced gives back the points
(for any per-point flag bytes that agree with the computed flags up to the repeat bit). -/
theorem decodeRun_deltas (pts : List Point) :
    ∀ (lx ly : Int) (ds : List PointDelta) (efs : List Nat) (xr yr : List Nat),
    PointsInRange pts →
    computePointDeltas lx ly pts = some ds →
    efs.map clearRepeat = ds.map (·.flag) →
    (decodeRun efs ⟨xBytes ds ++ xr, yBytes ds ++ yr, lx, ly⟩).1 = pts := by
  induction pts with
  | nil =>
    intro lx ly ds efs xr yr _ h he
    simp [computePointDeltas] at h; subst h
    simp at he; subst he
    simp [decodeRun]
  | cons p ps ih =>
    intro lx ly ds efs xr yr hr h he
    have hp := hr p (by simp)
    have hr' : PointsInRange ps := fun q hq => hr q (by simp [hq])
    simp only [computePointDeltas] at h
    split at h
    · rename_i hin
      cases hrec : computePointDeltas p.x p.y ps with
      | none => simp [hrec] at h
      | some rest =>
        simp only [hrec, Option.map_some, Option.some.injEq] at h
        subst h
        cases efs with
        | nil => simp at he
        | cons ef efs' =>
          simp only [List.map_cons, List.cons.injEq] at he
          obtain ⟨he1, he2⟩ := he
          have facts := pointFlag_facts p.on (p.x - lx) (p.y - ly)
          unfold pointFlag at facts
          obtain ⟨_, fon, fxs, fxp, fys, fyp⟩ := facts
          have b1 : hasBit ef ON_CURVE = p.on := by
            rw [← hasBit_clearRepeat ef ON_CURVE (by decide), he1]; exact fon
          have b2 : hasBit ef X_SHORT = hasBit (flagAndDelta (p.x - lx) X_SHORT X_SAME).1 X_SHORT := by
            rw [← hasBit_clearRepeat ef X_SHORT (by decide), he1]; exact fxs
          have b3 : hasBit ef X_SAME = hasBit (flagAndDelta (p.x - lx) X_SHORT X_SAME).1 X_SAME := by
            rw [← hasBit_clearRepeat ef X_SAME (by decide), he1]; exact fxp
          have b4 : hasBit ef Y_SHORT = hasBit (flagAndDelta (p.y - ly) Y_SHORT Y_SAME).1 Y_SHORT := by
            rw [← hasBit_clearRepeat ef Y_SHORT (by decide), he1]; exact fys
          have b5 : hasBit ef Y_SAME = hasBit (flagAndDelta (p.y - ly) Y_SHORT Y_SAME).1 Y_SAME := by
            rw [← hasBit_clearRepeat ef Y_SAME (by decide), he1]; exact fyp
          have rx := readDelta_flagAndDelta (p.x - lx) hin.1 X_SHORT X_SAME ef (xBytes rest ++ xr)
            X_bits.1 X_bits.2.1 X_bits.2.2.1 X_bits.2.2.2 b2 b3
          have ry := readDelta_flagAndDelta (p.y - ly) hin.2 Y_SHORT Y_SAME ef (yBytes rest ++ yr)
            Y_bits.1 Y_bits.2.1 Y_bits.2.2.1 Y_bits.2.2.2 b4 b5
          have wx : wrapI16 (lx + (p.x - lx)) = p.x := by
            have := hp.1; unfold inI16 at this; unfold wrapI16; simp only []; split <;> omega
          have wy : wrapI16 (ly + (p.y - ly)) = p.y := by
            have := hp.2; unfold inI16 at this; unfold wrapI16; simp only []; split <;> omega
          simp only [decodeRun, stepCS, xBytes, yBytes, List.flatMap_cons, List.append_assoc]
          simp only [xBytes, yBytes] at rx ry
          rw [rx, ry]
          simp only [wx, wy, b1]
          have := ih p.x p.y rest efs' xr yr hr' hrec he2
          simp only [xBytes, yBytes] at this
          rw [this]
    · simp at h

/-! ## read_points_fast -/

theorem fastDelta_flagAndDelta (v : Int) (hv : inI16 v) (S P : Nat) (f : Nat) (rest : List Nat)
    (hS : hasBit S S = true) (hP : hasBit P P = true) (hSP : hasBit S P = false)
    (hPS : hasBit P S = false)
    (h1 : hasBit f S = hasBit (flagAndDelta v S P).1 S)
    (h2 : hasBit f P = hasBit (flagAndDelta v S P).1 P) :
    fastDelta (hasBit f S) (hasBit f P) ((flagAndDelta v S P).2.bytes ++ rest) = some (v, rest) := by
  have h0S : hasBit 0 S = false := by simp [hasBit]
  have h0P : hasBit 0 P = false := by simp [hasBit]
  unfold flagAndDelta at *
  split at h1
  · rename_i hz
    simp only [hz, ↓reduceIte] at h2 ⊢
    rw [h1, h2, hPS, hP]
    simp [fastDelta, CoordDelta.bytes]
  · split at h1
    · rename_i hz hn
      simp only [hz, hn, ↓reduceIte] at h2 ⊢
      simp only [and_self, ↓reduceIte] at h2 ⊢
      rw [h1, h2, hS, hSP]
      simp only [fastDelta, CoordDelta.bytes, List.cons_append, List.nil_append, ↓reduceIte,
        Bool.false_eq_true, Option.some.injEq, Prod.mk.injEq, and_true]
      omega
    · split at h1
      · rename_i hz hn hp
        simp only [hz, hn, hp, ↓reduceIte] at h2 ⊢
        simp only [and_self, ↓reduceIte] at h2 ⊢
        rw [h1, h2, hasBit_or, hasBit_or, hS, hP]
        simp only [Bool.true_or, Bool.or_true, fastDelta, CoordDelta.bytes, List.cons_append,
          List.nil_append, ↓reduceIte, Option.some.injEq, Prod.mk.injEq, and_true]
        omega
      · rename_i hz hn hp
        simp only [hz, hn, hp, ↓reduceIte] at h2 ⊢
        rw [h1, h2, h0S, h0P]
        simp only [fastDelta, CoordDelta.bytes, be16_eq, List.cons_append, List.nil_append,
          Bool.false_eq_true, ↓reduceIte, not_false_eq_true]
        rw [i16_of_be v hv]

theorem expandRaw_length_pos (items : List RepeatableFlag) (h : items ≠ []) :
    0 < (expandRaw items).length := by
  cases items with
  | nil => exact absurd rfl h
  | cons a l =>
    rw [expandRaw_cons]
    have := count_pos a
    simp only [List.length_append, List.length_replicate]
    omega

theorem expandRaw_length_zero (items : List RepeatableFlag) (h : (expandRaw items).length = 0) :
    items = [] := by
  cases items with
  | nil => rfl
  | cons a l => have := expandRaw_length_pos (a :: l) (by simp); omega

/-- the flag-expansion loop of `read_points_fast` on well-formed items stops exactly after the
flag bytes, whatever follows them -/
theorem fastFlags_items (items : List RepeatableFlag) :
    ∀ (more : List Nat), items ≠ [] → (∀ i ∈ items, ItemWf i) →
      fastFlags (items.flatMap RepeatableFlag.bytes ++ more) (expandRaw items).length
        = some (expandRaw items, rleCost items) := by
  induction items with
  | nil => intro more h; exact absurd rfl h
  | cons i rest ih =>
    intro more _ hwf
    have hi := hwf i (by simp)
    have hrest : ∀ j ∈ rest, ItemWf j := fun j hj => hwf j (by simp [hj])
    rw [expandRaw_cons]
    simp only [List.flatMap_cons, List.length_append, List.length_replicate, List.append_assoc]
    by_cases hb : hasBit i.flag REPEAT = true
    · have hc : i.count = i.rep + 1 := by simp [RepeatableFlag.count, hb]
      have hcost : i.cost = 2 := by simp [RepeatableFlag.cost, hb]
      simp only [RepeatableFlag.bytes, hb, ↓reduceIte, List.cons_append, List.nil_append, fastFlags]
      have hmin : min (i.rep + 1) (i.count + (expandRaw rest).length) = i.count := by omega
      rw [hmin]
      by_cases hz : (expandRaw rest).length = 0
      · have := expandRaw_length_zero rest hz
        subst this
        simp [hz, expandRaw, rleCost, hcost]
      · have hne : rest ≠ [] := by intro e; subst e; simp [expandRaw] at hz
        have e1 : i.count + (expandRaw rest).length - i.count = (expandRaw rest).length := by omega
        simp only [e1, hz, ↓reduceIte]
        rw [ih more hne hrest]
        simp [rleCost, hcost]; omega
    · have hb' : hasBit i.flag REPEAT = false := by simpa using hb
      have hc : i.count = 1 := by simp [RepeatableFlag.count, hb']
      have hcost : i.cost = 1 := by simp [RepeatableFlag.cost, hb']
      simp only [RepeatableFlag.bytes, hb', Bool.false_eq_true, ↓reduceIte, List.cons_append,
        List.nil_append, hc]
      unfold fastFlags
      simp only [hb', Bool.false_eq_true, ↓reduceIte]
      by_cases hz : (expandRaw rest).length = 0
      · have := expandRaw_length_zero rest hz
        subst this
        simp [expandRaw, rleCost, hcost]
      · have hne : rest ≠ [] := by intro e; subst e; simp [expandRaw] at hz
        have e1 : 1 + (expandRaw rest).length - 1 = (expandRaw rest).length := by omega
        simp only [e1, hz, ↓reduceIte]
        rw [ih more hne hrest]
        simp [rleCost, hcost, List.replicate]; omega

theorem wf_cost_le (items : List RepeatableFlag) (h : ∀ i ∈ items, ItemWf i) :
    rleCost items ≤ (expandRaw items).length := by
  induction items with
  | nil => simp [rleCost, expandRaw]
  | cons a l ih =>
    have := ih (fun i hi => h i (by simp [hi]))
    obtain ⟨_, _, hb⟩ := h a (by simp)
    rw [expandRaw_cons]
    simp only [rleCost, List.map_cons, List.sum_cons, List.length_append, List.length_replicate] at this ⊢
    have : a.cost ≤ a.count := by
      unfold RepeatableFlag.cost RepeatableFlag.count
      by_cases hh : hasBit a.flag REPEAT = true
      · rw [hh] at hb
        have : 0 < a.rep := by simpa using hb.symm
        simp [hh]; omega
      · simp [hh]
    omega

theorem wf_length_le (items : List RepeatableFlag) (h : ∀ i ∈ items, ItemWf i) :
    (expandRaw items).length ≤ 256 * rleCost items := by
  induction items with
  | nil => simp [rleCost, expandRaw]
  | cons a l ih =>
    have := ih (fun i hi => h i (by simp [hi]))
    obtain ⟨hr, _, hb⟩ := h a (by simp)
    rw [expandRaw_cons]
    simp only [rleCost, List.map_cons, List.sum_cons, List.length_append, List.length_replicate] at this ⊢
    have : a.count ≤ 256 * a.cost := by
      unfold RepeatableFlag.cost RepeatableFlag.count
      split <;> omega
    omega

/-- one coordinate pass of `read_points_fast` over the writer's bytes -/
theorem fastCoords_x (pts : List Point) :
    ∀ (lx ly : Int) (ds : List PointDelta) (efs : List Nat) (xr : List Nat),
    PointsInRange pts → computePointDeltas lx ly pts = some ds →
    efs.map clearRepeat = ds.map (·.flag) →
    fastCoords X_SHORT X_SAME efs (xBytes ds ++ xr) lx = some (pts.map (·.x), xr) := by
  induction pts with
  | nil =>
    intro lx ly ds efs xr _ h he
    simp [computePointDeltas] at h; subst h
    simp at he; subst he
    simp [fastCoords, xBytes]
  | cons p ps ih =>
    intro lx ly ds efs xr hr h he
    have hp := hr p (by simp)
    have hr' : PointsInRange ps := fun q hq => hr q (by simp [hq])
    simp only [computePointDeltas] at h
    split at h
    · rename_i hin
      cases hrec : computePointDeltas p.x p.y ps with
      | none => simp [hrec] at h
      | some rest =>
        simp only [hrec, Option.map_some, Option.some.injEq] at h
        subst h
        cases efs with
        | nil => simp at he
        | cons ef efs' =>
          simp only [List.map_cons, List.cons.injEq] at he
          obtain ⟨he1, he2⟩ := he
          have facts := pointFlag_facts p.on (p.x - lx) (p.y - ly)
          unfold pointFlag at facts
          obtain ⟨_, fon, fxs, fxp, fys, fyp⟩ := facts
          have b2 : hasBit ef X_SHORT = hasBit (flagAndDelta (p.x - lx) X_SHORT X_SAME).1 X_SHORT := by
            rw [← hasBit_clearRepeat ef X_SHORT (by decide), he1]; exact fxs
          have b3 : hasBit ef X_SAME = hasBit (flagAndDelta (p.x - lx) X_SHORT X_SAME).1 X_SAME := by
            rw [← hasBit_clearRepeat ef X_SAME (by decide), he1]; exact fxp
          have rx := fastDelta_flagAndDelta (p.x - lx) hin.1 X_SHORT X_SAME ef (xBytes rest ++ xr)
            X_bits.1 X_bits.2.1 X_bits.2.2.1 X_bits.2.2.2 b2 b3
          have wx : wrapI32 (lx + (p.x - lx)) = p.x := by
            have := hp.1; unfold inI16 at this; unfold wrapI32; simp only []; split <;> omega
          simp only [fastCoords, xBytes, List.flatMap_cons, List.append_assoc]
          simp only [xBytes] at rx
          rw [rx]
          simp only [wx]
          have := ih p.x p.y rest efs' xr hr' hrec he2
          simp only [xBytes] at this
          rw [this]
          simp
    · simp at h

theorem fastCoords_y (pts : List Point) :
    ∀ (lx ly : Int) (ds : List PointDelta) (efs : List Nat) (yr : List Nat),
    PointsInRange pts → computePointDeltas lx ly pts = some ds →
    efs.map clearRepeat = ds.map (·.flag) →
    fastCoords Y_SHORT Y_SAME efs (yBytes ds ++ yr) ly = some (pts.map (·.y), yr) := by
  induction pts with
  | nil =>
    intro lx ly ds efs yr _ h he
    simp [computePointDeltas] at h; subst h
    simp at he; subst he
    simp [fastCoords, yBytes]
  | cons p ps ih =>
    intro lx ly ds efs yr hr h he
    have hp := hr p (by simp)
    have hr' : PointsInRange ps := fun q hq => hr q (by simp [hq])
    simp only [computePointDeltas] at h
    split at h
    · rename_i hin
      cases hrec : computePointDeltas p.x p.y ps with
      | none => simp [hrec] at h
      | some rest =>
        simp only [hrec, Option.map_some, Option.some.injEq] at h
        subst h
        cases efs with
        | nil => simp at he
        | cons ef efs' =>
          simp only [List.map_cons, List.cons.injEq] at he
          obtain ⟨he1, he2⟩ := he
          have facts := pointFlag_facts p.on (p.x - lx) (p.y - ly)
          unfold pointFlag at facts
          obtain ⟨_, fon, fxs, fxp, fys, fyp⟩ := facts
          have b4 : hasBit ef Y_SHORT = hasBit (flagAndDelta (p.y - ly) Y_SHORT Y_SAME).1 Y_SHORT := by
            rw [← hasBit_clearRepeat ef Y_SHORT (by decide), he1]; exact fys
          have b5 : hasBit ef Y_SAME = hasBit (flagAndDelta (p.y - ly) Y_SHORT Y_SAME).1 Y_SAME := by
            rw [← hasBit_clearRepeat ef Y_SAME (by decide), he1]; exact fyp
          have ry := fastDelta_flagAndDelta (p.y - ly) hin.2 Y_SHORT Y_SAME ef (yBytes rest ++ yr)
            Y_bits.1 Y_bits.2.1 Y_bits.2.2.1 Y_bits.2.2.2 b4 b5
          have wy : wrapI32 (ly + (p.y - ly)) = p.y := by
            have := hp.2; unfold inI16 at this; unfold wrapI32; simp only []; split <;> omega
          simp only [fastCoords, yBytes, List.flatMap_cons, List.append_assoc]
          simp only [yBytes] at ry
          rw [ry]
          simp only [wy]
          have := ih p.x p.y rest efs' yr hr' hrec he2
          simp only [yBytes] at this
          rw [this]
          simp
    · simp at h

/-- the on-curve bits of per-point flag bytes that agree with the computed flags -/
theorem on_bits (pts : List Point) :
    ∀ (lx ly : Int) (ds : List PointDelta) (efs : List Nat),
    computePointDeltas lx ly pts = some ds → efs.map clearRepeat = ds.map (·.flag) →
    efs.map (fun f => f &&& 1) = pts.map (fun p => if p.on then 1 else 0) := by
  induction pts with
  | nil =>
    intro lx ly ds efs h he
    simp [computePointDeltas] at h; subst h
    simp at he; subst he; rfl
  | cons p ps ih =>
    intro lx ly ds efs h he
    simp only [computePointDeltas] at h
    split at h
    · cases hrec : computePointDeltas p.x p.y ps with
      | none => simp [hrec] at h
      | some rest =>
        simp only [hrec, Option.map_some, Option.some.injEq] at h
        subst h
        cases efs with
        | nil => simp at he
        | cons ef efs' =>
          simp only [List.map_cons, List.cons.injEq] at he
          obtain ⟨he1, he2⟩ := he
          have facts := pointFlag_facts p.on (p.x - lx) (p.y - ly)
          unfold pointFlag at facts
          have b1 : hasBit ef ON_CURVE = p.on := by
            rw [← hasBit_clearRepeat ef ON_CURVE (by decide), he1]; exact facts.2.1
          simp only [List.map_cons, List.cons.injEq]
          refine ⟨?_, ih p.x p.y rest efs' hrec he2⟩
          have hb : ef &&& 1 = 0 ∨ ef &&& 1 = 1 := by
            have : ef &&& 1 = ef % 2 := Nat.and_one_is_mod ef
            omega
          unfold hasBit ON_CURVE at b1
          rcases hb with hb | hb <;> rw [hb] at b1 ⊢ <;> cases hon : p.on <;> simp [hon] at b1 ⊢
    · simp at h

end FontVerif.Glyf
