/-
Helper lemmas for C16: the size loop of `split_pair_pos_format_2` with device tables — the
estimate of every piece is the piece's true size (each device object once).
-/
import FontVerif.Model.LayoutLookup
set_option linter.unusedVariables false
set_option linter.unusedSimpArgs false
namespace FontVerif.Layout

def csStep (acc : Nat × List Nat) (d : Nat × Nat) : Nat × List Nat :=
  if acc.2.contains d.1 then acc else (acc.1 + d.2, d.1 :: acc.2)

theorem childrenSize_def (devs : List (Nat × Nat)) (visited : List Nat) :
    childrenSize devs visited = devs.foldl csStep (0, visited) := rfl

/-- the fold counts every object not yet seen exactly once -/
theorem csFold_eq : ∀ (devs : List (Nat × Nat)) (s : Nat) (v : List Nat),
    devs.foldl csStep (s, v) =
      (s + ((dedupDevs devs v).map (·.2)).sum, ((dedupDevs devs v).map (·.1)).reverse ++ v) := by
  intro devs
  induction devs with
  | nil => intro s v; simp [dedupDevs]
  | cons d rest ih =>
    intro s v
    simp only [List.foldl_cons, csStep, dedupDevs]
    by_cases hc : v.contains d.1 = true
    · simp only [hc, ↓reduceIte]
      exact ih s v
    · simp only [hc, Bool.false_eq_true, ↓reduceIte]
      rw [ih]
      simp only [List.map_cons, List.sum_cons, List.reverse_cons, List.append_assoc,
        List.singleton_append]
      congr 1
      omega

theorem childrenSize_eq (devs : List (Nat × Nat)) (v : List Nat) :
    childrenSize devs v =
      (((dedupDevs devs v).map (·.2)).sum, ((dedupDevs devs v).map (·.1)).reverse ++ v) := by
  rw [childrenSize_def, csFold_eq]; simp

/-- counting `a ++ b` = counting `a`, then `b` against what `a` left in the set -/
theorem childrenSize_append (a b : List (Nat × Nat)) (v : List Nat) :
    childrenSize (a ++ b) v =
      ((childrenSize a v).1 + (childrenSize b (childrenSize a v).2).1,
       (childrenSize b (childrenSize a v).2).2) := by
  rw [childrenSize_def, List.foldl_append, ← childrenSize_def]
  generalize childrenSize a v = r
  obtain ⟨s, w⟩ := r
  rw [csFold_eq, childrenSize_eq]

/-- device offsets of class1 records `s..e` in writing order -/
def flatRows (rows : List (List (Nat × Nat))) (s e : Nat) : List (Nat × Nat) :=
  ((rows.drop s).take (e - s)).flatten

theorem flatRows_self (rows : List (List (Nat × Nat))) (s : Nat) : flatRows rows s s = [] := by
  simp [flatRows]

theorem flatRows_step (rows : List (List (Nat × Nat))) (s idx : Nat) (hs : s ≤ idx)
    (row : List (Nat × Nat)) (hrow : rows[idx]? = some row) :
    flatRows rows s (idx + 1) = flatRows rows s idx ++ row := by
  unfold flatRows
  have : idx + 1 - s = (idx - s) + 1 := by omega
  rw [this, List.take_succ, List.flatten_append]
  have : (rows.drop s)[idx - s]? = some row := by
    rw [List.getElem?_drop]
    rw [show s + (idx - s) = idx by omega]; exact hrow
  rw [this]
  simp

/-- the state describes the piece `start..idx` exactly -/
def Ppf2DGood (recSize : Nat) (rows : List (List (Nat × Nat))) (st : Ppf2DAcc) (idx : Nat) : Prop :=
  st.start ≤ idx ∧
  st.accumulated = 16 + (idx - st.start) * recSize + (childrenSize (flatRows rows st.start idx) []).1 ∧
  st.visited = (childrenSize (flatRows rows st.start idx) []).2

def Ppf2DPieceOK (recSize : Nat) (rows : List (List (Nat × Nat))) (p : Nat × Nat × Nat) : Prop :=
  p.1 ≤ p.2.1 ∧ p.2.2 = 16 + (p.2.1 - p.1) * recSize + (childrenSize (flatRows rows p.1 p.2.1) []).1

theorem ppf2DStep_good (e : Ppf2Est) (recSize cd2Size : Nat) (rows : List (List (Nat × Nat)))
    (st : Ppf2DAcc) (idx : Nat) (row : List (Nat × Nat)) (hrow : rows[idx]? = some row)
    (hg : Ppf2DGood recSize rows st idx) (hp : ∀ p ∈ st.pieces, Ppf2DPieceOK recSize rows p) :
    Ppf2DGood recSize rows (ppf2DStep true e recSize cd2Size st idx row) (idx + 1) ∧
    ∀ p ∈ (ppf2DStep true e recSize cd2Size st idx row).pieces, Ppf2DPieceOK recSize rows p := by
  obtain ⟨h1, h2, h3⟩ := hg
  unfold ppf2DStep
  simp only
  split
  · -- a split: the finished piece is recorded, the new piece starts with this record re-counted
    refine ⟨⟨Nat.le_succ _, ?_, ?_⟩, ?_⟩
    · simp only [↓reduceIte]
      have hf : flatRows rows idx (idx + 1) = row := by
        rw [flatRows_step rows idx idx (Nat.le_refl _) row hrow, flatRows_self]; rfl
      rw [hf]; simp; omega
    · simp only [↓reduceIte]
      have hf : flatRows rows idx (idx + 1) = row := by
        rw [flatRows_step rows idx idx (Nat.le_refl _) row hrow, flatRows_self]; rfl
      rw [hf]
    · intro p hp'
      rcases List.mem_cons.mp hp' with rfl | hp''
      · exact ⟨h1, h2⟩
      · exact hp p hp''
  · refine ⟨⟨Nat.le_succ_of_le h1, ?_, ?_⟩, hp⟩
    · simp only
      rw [flatRows_step rows st.start idx h1 row hrow, childrenSize_append, h2, ← h3]
      simp only
      have : idx + 1 - st.start = (idx - st.start) + 1 := by omega
      rw [this, Nat.add_mul]
      omega
    · simp only
      rw [flatRows_step rows st.start idx h1 row hrow, childrenSize_append, ← h3]

theorem ppf2DLoop_good (e : Ppf2Est) (recSize cd2Size : Nat) (rows : List (List (Nat × Nat))) :
    ∀ (rest : List (List (Nat × Nat))) (st : Ppf2DAcc) (idx : Nat), rows.drop idx = rest →
      Ppf2DGood recSize rows st idx → (∀ p ∈ st.pieces, Ppf2DPieceOK recSize rows p) →
      Ppf2DGood recSize rows (ppf2DLoop true e recSize cd2Size st idx rest) (idx + rest.length) ∧
      ∀ p ∈ (ppf2DLoop true e recSize cd2Size st idx rest).pieces, Ppf2DPieceOK recSize rows p := by
  intro rest
  induction rest with
  | nil => intro st idx _ hg hp; exact ⟨hg, hp⟩
  | cons row rest ih =>
    intro st idx hd hg hp
    have hrow : rows[idx]? = some row := by
      have : (rows.drop idx)[0]? = some row := by rw [hd]; rfl
      rw [List.getElem?_drop] at this
      simpa using this
    have hd' : rows.drop (idx + 1) = rest := by
      have : rows.drop (idx + 1) = (rows.drop idx).drop 1 := by rw [List.drop_drop]
      rw [this, hd]; rfl
    obtain ⟨g', p'⟩ := ppf2DStep_good e recSize cd2Size rows st idx row hrow hg hp
    have := ih _ (idx + 1) hd' g' p'
    simp only [ppf2DLoop, List.length_cons]
    rw [show idx + (rest.length + 1) = idx + 1 + rest.length by omega]
    exact this

end FontVerif.Layout
