/-
C04 ⇄ C05 bridge, part 4: positions.  `dump_placed` strengthens C05's end-to-end theorem from "reads back as the
unfolding" to "every object the reader reaches is a byte-for-byte copy (with its length inside the output) and every
stored offset leads to such a copy of its target"; `ReadsAs` is the same statement on value trees.
-/
import FontVerif.Lemmas.TableWriter3
import FontVerif.Props.C05
set_option linter.unusedVariables false
set_option linter.unusedSimpArgs false
namespace FontVerif.TableWriter
open FontVerif FontVerif.Graph

theorem exists_of_map_eq {α β : Type} (f g : α → β) (L' L : List α) (h : L'.map f = L.map g) (l : α) (hl : l ∈ L) :
    ∃ l' ∈ L', f l' = g l := by
  have hm : g l ∈ L.map g := List.mem_map.mpr ⟨l, hl, rfl⟩
  rw [← h] at hm
  obtain ⟨l', hl', he⟩ := List.mem_map.mp hm
  exact ⟨l', hl', he⟩

/-- `C05.serialize_sound` with one more conclusion kept from its proof: every offset field holds exactly the big-endian
encoding (in the field's width) of the value a reader finds there (so every byte of the field is a byte).  The proof is
that of `serialize_sound` (Props/C05.lean). -/
theorem serialize_sound_fields (g : Graph) (out : List Nat)
    (hwf : ∀ id o, g.objects.find? id = some o → ObjWF o)
    (h : serialize g = some out) :
    out.length = (Graph.flat g g.order).length ∧
    ∀ id hd, (id, hd) ∈ placements g g.order 0 →
      ∃ o, g.objects.find? id = some o ∧ CopyAt out hd o ∧
        ∀ l ∈ o.links, ∃ tpos t, (l.target, tpos) ∈ placements g g.order 0 ∧
          g.objects.find? l.target = some t ∧ CopyAt out tpos t ∧
          readOffset out hd l ≤ maxValue l.width ∧
          hd + l.adj + readOffset out hd l = tpos ∧
          (out.drop (hd + l.pos)).take l.width = beBytes l.width (readOffset out hd l) := by
  unfold serialize at h
  split at h
  · simp at h
  · split at h
    · simp at h
    · rename_i offs out0 hlay
      obtain ⟨hout0, hfound, hoffs⟩ := layout_spec g g.order [] [] 0 offs out0 hlay
      simp only [List.nil_append] at hout0
      have hwf' : ∀ id ∈ g.order, (g.obj id).links.Pairwise Disjoint ∧
          ∀ l ∈ (g.obj id).links, l.pos + l.width ≤ (g.obj id).bytes.length := by
        intro id hid
        obtain ⟨o, ho⟩ := hfound id hid
        rw [obj_of_find ho]
        exact ⟨(hwf id o ho).2, fun l hl => ((hwf id o ho).1 l hl).2⟩
      obtain ⟨hlen, hframe, hres⟩ := patchAll_spec g offs g.order 0 out0 out h hwf'
      have hlen' : out.length = (Graph.flat g g.order).length := by rw [hlen, hout0]
      -- copies
      have hcopy : ∀ id hd, (id, hd) ∈ placements g g.order 0 → ∀ o, g.objects.find? id = some o →
          CopyAt out hd o := by
        intro id hd hm o ho
        have hobj := obj_of_find ho
        have hge := placements_ge g g.order 0 id hd hm
        rw [hobj] at hge
        refine ⟨by omega, ?_⟩
        intro k hk hplain
        rw [hframe (hd + k)]
        · rw [hout0]
          have := flat_getElem? g g.order 0 id hd k hm (by rw [hobj]; exact hk)
          rw [hobj] at this
          simpa using this
        · intro id2 hd2 hm2 l2 hl2
          obtain ⟨o2, ho2⟩ := hfound id2 (placements_mem_order g g.order 0 id2 hd2 hm2)
          have hobj2 := obj_of_find ho2
          rw [hobj2] at hl2
          have hin := ((hwf id2 o2 ho2).1 l2 hl2).2
          unfold inField
          rcases placements_disjoint g g.order 0 (id, hd) (id2, hd2) hm hm2 with heq | hd1 | hd1
          · simp only [Prod.mk.injEq] at heq
            obtain ⟨rfl, rfl⟩ := heq
            rw [ho] at ho2
            simp only [Option.some.injEq] at ho2
            subst ho2
            have := hplain l2 hl2
            omega
          · simp only [hobj] at hd1; omega
          · simp only [hobj2] at hd1; omega
      refine ⟨hlen', ?_⟩
      intro id hd hm
      obtain ⟨o, ho⟩ := hfound id (placements_mem_order g g.order 0 id hd hm)
      have hobj := obj_of_find ho
      refine ⟨o, ho, hcopy id hd hm o ho, ?_⟩
      intro l hl
      obtain ⟨abs, ha1, ha2, ha3, ha4⟩ := hres id hd hm l (by rw [hobj]; exact hl)
      have hplace : (l.target, abs) ∈ placements g g.order 0 := by
        rcases hoffs l.target abs ha1 with hc | hc
        · simp [Map.find?] at hc
        · exact hc
      obtain ⟨t, ht⟩ := hfound l.target (placements_mem_order g g.order 0 _ _ hplace)
      have hw := ((hwf id o ho).1 l hl).1
      have hfield : (out.drop (hd + l.pos)).take l.width = beBytes l.width (abs - (hd + l.adj)) :=
        field_eq out (hd + l.pos) l.width _ (beBytes_length _ _) ha4
      have hval : readOffset out hd l = abs - (hd + l.adj) := by
        unfold readOffset
        rw [hfield, beValue_beBytes _ _ hw ha3]
      refine ⟨abs, t, hplace, ht, hcopy _ _ hplace t ht, ?_, ?_, ?_⟩
      · rw [hval]; exact ha3
      · rw [hval]; omega
      · rw [hval]; exact hfield

/-- **Positions of the input graph in the output of `dump`.**  If `dump` returns bytes `out` for the input graph `g`
(objects as `TableData` builds them, `fresh` unused), there is a placement relation `P id hd` ("a copy of input object
`id` starts at `hd`") with: the root is at 0; wherever an object is placed, `out` holds there a byte-for-byte copy of it
(outside its offset fields; in particular the whole object lies inside `out`), every stored offset fits its width, and
`hd + adjustment + stored offset` is a placement of the offset's target. -/
theorem dump_placed (g : Graph) (fresh : List Nat) (out : List Nat) (hn : 1 < g.nodes.length)
    (hf : FreshFor g fresh) (hwf : ∀ id o, g.objects.find? id = some o → ObjWF o)
    (h : dump g fresh = some (some out)) :
    ∃ P : Nat → Nat → Prop, P g.root 0 ∧ ∀ id hd, P id hd →
      CopyAt out hd (g.obj id) ∧
      ∀ l ∈ (g.obj id).links, readOffset out hd l ≤ maxValue l.width ∧
        (out.drop (hd + l.pos)).take l.width = beBytes l.width (readOffset out hd l) ∧
        P l.target (hd + l.adj + readOffset out hd l) := by
  obtain ⟨g', fresh', hp, _, hs⟩ := C05.dump_bytes_only_if_gate g fresh out h
  obtain ⟨φ, hsim, hr⟩ := packObjects_simulates g fresh true g' fresh' hf hp
  obtain ⟨⟨tail, ht⟩, _⟩ := packObjects_sortedOut g g' fresh fresh' hn hp
  have hshape : ∀ x', (g'.obj x').bytes = (g.obj (φ x')).bytes ∧ fieldsOf (g'.obj x') = fieldsOf (g.obj (φ x')) :=
    fun x' => ⟨(hsim x').1, fields_of_shape _ _ φ (hsim x').2⟩
  have hwf' : ∀ id o, g'.objects.find? id = some o → ObjWF o := by
    intro id o ho
    rw [← obj_of_find ho]
    exact objWF_shape _ _ (hshape id).1 (hshape id).2 (objWF_obj g hwf _)
  have hsound := (serialize_sound_fields g' out hwf' hs).2
  refine ⟨fun id hd => ∃ x', (x', hd) ∈ placements g' g'.order 0 ∧ φ x' = id, ?_, ?_⟩
  · exact ⟨g'.root, by rw [ht]; simp [placements], hr⟩
  · intro id hd ⟨x', hm, hφ⟩
    subst hφ
    obtain ⟨o, ho, hcopy, hlinks⟩ := hsound x' hd hm
    have hobj := obj_of_find ho
    rw [← hobj] at hcopy hlinks
    refine ⟨copyAt_shape out hd _ _ (hshape x').1 (hshape x').2 hcopy, ?_⟩
    intro l hl
    obtain ⟨l', hl', he⟩ := exists_of_map_eq (linkShape φ) (linkShape id) _ _ (hsim x').2 l hl
    simp only [linkShape, id, Prod.mk.injEq] at he
    obtain ⟨e1, e2, e3, e4⟩ := he
    obtain ⟨tpos, t, hpl, _, _, hfit, heq, henc⟩ := hlinks l' hl'
    have hro : readOffset out hd l = readOffset out hd l' := by unfold readOffset; rw [e1, e2]
    rw [hro, ← e1, ← e2, ← e3]
    refine ⟨hfit, henc, l'.target, ?_, e4⟩
    rw [heq]
    exact hpl

/-! ### the same on value trees -/

/-- **`out` holds, from `hd` on, the offset slots of `fs` (from byte `len` of the table, adjustment `a`) and everything
behind them**: for every non-null slot the stored big-endian value `v` fits the recorded width, and at
`hd + adjustment + v` the output holds a byte-for-byte copy of the child (outside the child's own non-null slots; the
whole child lies inside the output) whose slots, recursively, read the same way. -/
def ReadsAs (out : List Nat) : Nat → Fields → Nat → Nat → Prop
  | _, .nil, _, _ => True
  | hd, .bytes bs rest, len, a => ReadsAs out hd rest (len + bs.length) a
  | hd, .null w rest, len, a => ReadsAs out hd rest (len + w) a
  | hd, .link w _ child rest, len, a =>
    beValue ((out.drop (hd + len % U32)).take (lenOf w)) ≤ maxValue (lenOf w) ∧
    (out.drop (hd + len % U32)).take (lenOf w) =
      beBytes (lenOf w) (beValue ((out.drop (hd + len % U32)).take (lenOf w))) ∧
    CopyAt out (hd + adjAfter child a + beValue ((out.drop (hd + len % U32)).take (lenOf w))) (skel child a) ∧
    ReadsAs out (hd + adjAfter child a + beValue ((out.drop (hd + len % U32)).take (lenOf w))) child 0 a ∧
    ReadsAs out hd rest (len + min w 4) (adjAfter child a)
  | hd, .adjust n body rest, len, _ =>
    ReadsAs out hd body len n ∧ ReadsAs out hd rest (len + (flat body len).length) 0
  | hd, .pad2 rest, len, a => ReadsAs out hd rest (len + (if len % 2 ≠ 0 then 1 else 0)) a

/-- a whole table at `hd` -/
def TableAt (out : List Nat) (hd : Nat) (fs : Fields) (a : Nat) : Prop :=
  CopyAt out hd (skel fs a) ∧ ReadsAs out hd fs 0 a

theorem copyAt_skel (out : List Nat) (s : Store) (hd : Nat) (d : TData) (fs : Fields) (a : Nat)
    (hb : d.bytes = flat fs 0) (hc : RepLinks s fs 0 a d.offsets) (h : CopyAt out hd (toObj d)) :
    CopyAt out hd (skel fs a) := by
  apply copyAt_shape out hd (toObj d) (skel fs a) (by simp [toObj, skel, hb]) ?_ h
  unfold fieldsOf
  simpa [toObj, skel] using repLinks_skel s fs 0 a d.offsets hc

theorem readsAs_rep (out : List Nat) (s : Store) (g : Graph) (hg : ∀ d id, (d, id) ∈ s → g.obj id = toObj d)
    (P : Nat → Nat → Prop)
    (hP : ∀ id hd, P id hd → CopyAt out hd (g.obj id) ∧
      ∀ l ∈ (g.obj id).links, readOffset out hd l ≤ maxValue l.width ∧
        (out.drop (hd + l.pos)).take l.width = beBytes l.width (readOffset out hd l) ∧
        P l.target (hd + l.adj + readOffset out hd l))
    (fs : Fields) :
    ∀ hd len a ls, RepLinks s fs len a ls →
      (∀ l ∈ ls, readOffset out hd l ≤ maxValue l.width ∧
        (out.drop (hd + l.pos)).take l.width = beBytes l.width (readOffset out hd l) ∧
        P l.target (hd + l.adj + readOffset out hd l)) →
      ReadsAs out hd fs len a := by
  induction fs with
  | nil => intro hd len a ls _ _; trivial
  | bytes bs rest ih => intro hd len a ls h hl; exact ih _ _ _ _ h hl
  | null w rest ih => intro hd len a ls h hl; exact ih _ _ _ _ h hl
  | pad2 rest ih => intro hd len a ls h hl; exact ih _ _ _ _ h hl
  | adjust n body rest ihb ihr =>
    intro hd len a ls h hl
    obtain ⟨l1, l2, h1, hb, hr⟩ := h
    subst h1
    exact ⟨ihb _ _ _ _ hb (fun l hm => hl l (List.mem_append_left _ hm)),
      ihr _ _ _ _ hr (fun l hm => hl l (List.mem_append_right _ hm))⟩
  | link w ty child rest ihc ihr =>
    intro hd len a ls h hl
    obtain ⟨l, ls', h1, h2, h3, h4, ⟨d, hm, hb, hc⟩, hr⟩ := h
    subst h1
    obtain ⟨hfit, henc, hp⟩ := hl l List.mem_cons_self
    have hoff : readOffset out hd l = beValue ((out.drop (hd + len % U32)).take (lenOf w)) := by
      unfold readOffset; rw [h2, h3]
    rw [hoff, h3] at hfit
    rw [hoff, h2, h3] at henc
    rw [hoff, h4] at hp
    obtain ⟨hcopy, hkids⟩ := hP _ _ hp
    rw [hg d l.target hm] at hcopy hkids
    exact ⟨hfit, henc, copyAt_skel out s _ d child a hb hc hcopy, ihc _ _ _ _ hc hkids,
      ihr _ _ _ _ hr (fun l' hm' => hl l' (List.mem_cons_of_mem _ hm'))⟩

theorem readsAs_nolinks (out : List Nat) (fs : Fields) : ∀ hd len a, topLinks fs = 0 → ReadsAs out hd fs len a := by
  induction fs with
  | nil => intro hd len a _; trivial
  | bytes bs rest ih => intro hd len a h; exact ih _ _ _ h
  | null w rest ih => intro hd len a h; exact ih _ _ _ h
  | pad2 rest ih => intro hd len a h; exact ih _ _ _ h
  | adjust n body rest ihb ihr =>
    intro hd len a h
    simp only [topLinks] at h
    exact ⟨ihb _ _ _ (by omega), ihr _ _ _ (by omega)⟩
  | link w ty child rest ihc ihr =>
    intro hd len a h
    simp only [topLinks] at h
    omega

/-- the Tree view follows from the positional one is NOT needed; both are proved from C05 separately.  The positional
statement for the whole pipeline: -/
theorem dumpTable_tableAt (ids : Nat → Nat) (hinj : Function.Injective ids) (t : Table) (hok : t.Ok)
    (fresh : List Nat) (hnd : fresh.Nodup) (hfr : ∀ j, ids j ∉ fresh) (out : List Nat)
    (h : dumpTable ids t fresh = some (some out)) : TableAt out 0 t.fields 0 := by
  by_cases hl : topLinks t.fields = 0
  · rw [dump_leaf ids t fresh hl] at h
    simp only [Option.some.injEq] at h
    subst h
    refine ⟨⟨by simp [skel], ?_⟩, readsAs_nolinks _ _ _ _ _ hl⟩
    intro k hk _
    simp [skel]
  · obtain ⟨hinv, _, ⟨j, _, hj⟩, hrep⟩ := addTable_spec ids hinj (Writer.init 0) (inv_init ids 0) t hok
    obtain ⟨d, hm, hb, hc⟩ := hrep
    have hlen := repLinks_length _ _ _ _ _ hc
    obtain ⟨l, hlm⟩ : ∃ l, l ∈ d.offsets := by
      cases hd : d.offsets with
      | nil => rw [hd] at hlen; simp at hlen; omega
      | cons l _ => exact ⟨l, List.mem_cons_self⟩
    have hn := graph_two_nodes ids hinj _ hinv (addTable ids t (Writer.init 0)).1 d _ hm l hlm
    have hfresh := graph_freshFor ids _ hinv (addTable ids t (Writer.init 0)).1 fresh hnd hfr (by rw [hj]; exact hfr j)
    have hwf := graph_objWF ids _ hinv (addTable ids t (Writer.init 0)).1
    have hg := fun d id h => graph_obj ids _ hinv (addTable ids t (Writer.init 0)).1 d id h
    obtain ⟨P, hroot, hP⟩ := dump_placed (makeGraph ids t) fresh out hn hfresh hwf h
    obtain ⟨hcopy, hkids⟩ := hP _ _ hroot
    have hobj : (makeGraph ids t).obj (makeGraph ids t).root = toObj d := hg d _ hm
    rw [hobj] at hcopy hkids
    exact ⟨copyAt_skel out _ 0 d t.fields 0 hb hc hcopy, readsAs_rep out _ _ hg P hP t.fields 0 0 0 d.offsets hc hkids⟩

end FontVerif.TableWriter
