/-
Lemmas for C17 COLR ClipList subsetting (klippa/src/colr.rs `ClipList::subset`, `serialize_clips`; model
`SubsetColr.clipMap` / `clipRuns`): the (new gid → box offset) map is 'last write wins' over the program-order writes,
its keys ascend, the merged runs are sorted / disjoint and answer every glyph id exactly as the map does.
-/
import FontVerif.Model.SubsetColr
set_option linter.unusedVariables false
set_option linter.unusedSimpArgs false
namespace FontVerif.SubsetColr

/-! ### ClipList: association map and runs -/

/-- lookup in an association list -/
def amLookup (k : Nat) : List (Nat × Nat) → Option Nat
  | [] => none
  | (k', v) :: rest => if k = k' then some v else amLookup k rest

/-- keys strictly ascending and all above `lb` (exclusive lower bound `lb`, i.e. `lb < key`) -/
def AscAbove : Nat → List (Nat × Nat) → Prop
  | _, [] => True
  | lb, (k, _) :: rest => lb < k ∧ AscAbove k rest

/-- read-fonts / skrifa `ClipList` lookup of a glyph id in the written Clip records (start, end, box): the record whose
range contains the id (the records are sorted and disjoint, `clipRuns_sorted`, so the binary search finds the
first = only match) -/
def clipLookup (g : Nat) : List (Nat × Nat × Nat) → Option Nat
  | [] => none
  | (s, e, o) :: rest => if s ≤ g ∧ g ≤ e then some o else clipLookup g rest

theorem amLookup_none_of_above : ∀ (m : List (Nat × Nat)) (lb g : Nat), AscAbove lb m → g ≤ lb → amLookup g m = none
  | [], _, _, _, _ => rfl
  | (k, v) :: rest, lb, g, h, hg => by
    obtain ⟨h1, h2⟩ := h
    have : g ≠ k := by omega
    simp only [amLookup, this, if_false]
    exact amLookup_none_of_above rest k g h2 (by omega)

/-- **runs = map**: looking a glyph id up in the merged runs gives what the (new gid → box) map says; the open run
`[start, prev]` carries `off` -/
theorem clipRuns_lookup : ∀ (rest : List (Nat × Nat)) (start prev off g : Nat), start ≤ prev → AscAbove prev rest →
    clipLookup g (clipRuns rest start prev off) =
      if start ≤ g ∧ g ≤ prev then some off else amLookup g rest
  | [], start, prev, off, g, _, _ => by simp [clipRuns, clipLookup, amLookup]
  | (k, o) :: rest, start, prev, off, g, hsp, hasc => by
    obtain ⟨h1, h2⟩ := hasc
    unfold clipRuns
    by_cases hm : k = prev + 1 ∧ o = off
    · obtain ⟨hk, ho⟩ := hm
      subst hk; subst ho
      simp only [and_self, if_true]
      rw [clipRuns_lookup rest start (prev + 1) o g (by omega) h2]
      by_cases hin : start ≤ g ∧ g ≤ prev
      · have : start ≤ g ∧ g ≤ prev + 1 := by omega
        simp [hin, this]
      · by_cases hg : g = prev + 1
        · subst hg
          have : start ≤ prev + 1 ∧ prev + 1 ≤ prev + 1 := by omega
          simp [this, hin, amLookup]
        · have h3 : ¬ (start ≤ g ∧ g ≤ prev + 1) := by omega
          simp only [h3, hin, if_false, amLookup, hg]
    · simp only [hm, if_false, clipLookup]
      by_cases hin : start ≤ g ∧ g ≤ prev
      · simp [hin]
      · simp only [hin, if_false]
        rw [clipRuns_lookup rest k k o g (Nat.le_refl _) h2]
        by_cases hg : g = k
        · subst hg; simp [amLookup]
        · have : ¬ (k ≤ g ∧ g ≤ k) := by omega
          simp only [this, if_false, amLookup, hg]

/-- the written Clip records are well formed: start ≤ end, ascending, disjoint (what the binary search needs) -/
def RunsSorted : Nat → List (Nat × Nat × Nat) → Prop
  | _, [] => True
  | lb, (s, e, _) :: rest => lb ≤ s ∧ s ≤ e ∧ RunsSorted (e + 1) rest

theorem clipRuns_sorted : ∀ (rest : List (Nat × Nat)) (start prev off : Nat), start ≤ prev → AscAbove prev rest →
    RunsSorted start (clipRuns rest start prev off)
  | [], start, prev, off, h, _ => by simp [clipRuns, RunsSorted, h]
  | (k, o) :: rest, start, prev, off, hsp, hasc => by
    obtain ⟨h1, h2⟩ := hasc
    unfold clipRuns
    split
    · rename_i hm
      exact clipRuns_sorted rest start k off (by omega) h2
    · refine ⟨Nat.le_refl _, hsp, ?_⟩
      have := clipRuns_sorted rest k k o (Nat.le_refl _) h2
      -- weaken the lower bound
      cases hr : clipRuns rest k k o with
      | nil => trivial
      | cons r rs =>
        rw [hr] at this
        obtain ⟨s, e, o'⟩ := r
        exact ⟨by have := this.1; omega, this.2.1, this.2.2⟩

/-- adjacent runs never share a box AND touch: merging is maximal -/
def RunsMaximal : List (Nat × Nat × Nat) → Prop
  | [] => True
  | [_] => True
  | (_, e, o) :: (s', e', o') :: rest => ¬ (s' = e + 1 ∧ o' = o) ∧ RunsMaximal ((s', e', o') :: rest)

theorem clipRuns_head : ∀ (rest : List (Nat × Nat)) (start prev off : Nat),
    ∃ e tl, clipRuns rest start prev off = (start, e, off) :: tl ∧ prev ≤ e
  | [], start, prev, off => ⟨prev, [], rfl, Nat.le_refl _⟩
  | (k, o) :: rest, start, prev, off => by
    unfold clipRuns
    split
    · rename_i hm
      obtain ⟨e, tl, h1, h2⟩ := clipRuns_head rest start k off
      exact ⟨e, tl, h1, by omega⟩
    · exact ⟨prev, _, rfl, Nat.le_refl _⟩


/-! ### the (new gid → box offset) map -/

def KeysAsc (m : List (Nat × Nat)) : Prop := (m.map (·.1)).Pairwise (· < ·)

theorem amInsert_keys (k v : Nat) : ∀ (m : List (Nat × Nat)) (x : Nat), x ∈ (amInsert k v m).map (·.1) →
    x = k ∨ x ∈ m.map (·.1)
  | [], x, h => by simp [amInsert] at h; exact Or.inl h
  | (k', v') :: rest, x, h => by
    unfold amInsert at h
    split at h
    · simp at h ⊢; omega
    · split at h
      · simp at h ⊢; rcases h with h | h
        · exact Or.inl h
        · exact Or.inr (Or.inr h)
      · simp only [List.map_cons, List.mem_cons] at h ⊢
        rcases h with h | h
        · exact Or.inr (Or.inl h)
        · rcases amInsert_keys k v rest x h with h' | h'
          · exact Or.inl h'
          · exact Or.inr (Or.inr h')

theorem amInsert_asc (k v : Nat) : ∀ (m : List (Nat × Nat)), KeysAsc m → KeysAsc (amInsert k v m)
  | [], _ => by simp [amInsert, KeysAsc]
  | (k', v') :: rest, h => by
    unfold KeysAsc at h ⊢
    simp only [List.map_cons, List.pairwise_cons] at h
    obtain ⟨h1, h2⟩ := h
    unfold amInsert
    split
    · rename_i hlt
      simp only [List.map_cons, List.pairwise_cons, List.mem_cons]
      refine ⟨?_, ⟨h1, h2⟩⟩
      intro a ha
      rcases ha with ha | ha
      · omega
      · have := h1 a ha; omega
    · split
      · rename_i heq
        subst heq
        simp only [List.map_cons, List.pairwise_cons]
        exact ⟨h1, h2⟩
      · rename_i hnlt hne
        simp only [List.map_cons, List.pairwise_cons]
        refine ⟨?_, amInsert_asc k v rest h2⟩
        intro a ha
        rcases amInsert_keys k v rest a ha with h' | h'
        · omega
        · exact h1 a h'

theorem amLookup_amInsert (k v x : Nat) : ∀ (m : List (Nat × Nat)), KeysAsc m →
    amLookup x (amInsert k v m) = if x = k then some v else amLookup x m
  | [], _ => by simp [amInsert, amLookup]
  | (k', v') :: rest, h => by
    unfold KeysAsc at h
    simp only [List.map_cons, List.pairwise_cons] at h
    obtain ⟨h1, h2⟩ := h
    unfold amInsert
    split
    · simp [amLookup]
    · split
      · rename_i heq
        subst heq
        by_cases hx : x = k <;> simp [amLookup, hx]
      · rename_i hnlt hne
        simp only [amLookup]
        rw [amLookup_amInsert k v x rest h2]
        by_cases hx : x = k
        · subst hx
          have : x ≠ k' := hne
          simp [this]
        · simp [hx]

/-- the writes of the first loop of `ClipList::subset`, in program order: (new gid as u16, box offset) -/
def clipWrites (p : PlanIn) (clips : List (Nat × Nat × Nat)) : List (Nat × Nat) :=
  match p.colred.head?, p.colred.getLast? with
  | some first, some last =>
    clips.flatMap (fun (c : Nat × Nat × Nat) =>
      if c.2.1 < first ∨ c.1 > last then []
      else (p.colred.filter fun g => c.1 ≤ g ∧ g ≤ c.2.1).filterMap (fun g =>
        (p.glyphMap.lookup g).map (fun ng => (ng % 65536, c.2.2))))
  | _, _ => []

def applyWrites (ws : List (Nat × Nat)) (m : List (Nat × Nat)) : List (Nat × Nat) :=
  ws.foldl (fun m w => amInsert w.1 w.2 m) m

theorem applyWrites_append (a b : List (Nat × Nat)) (m : List (Nat × Nat)) :
    applyWrites (a ++ b) m = applyWrites b (applyWrites a m) := by
  simp [applyWrites, List.foldl_append]

theorem inner_fold_eq (p : PlanIn) (o : Nat) : ∀ (gs : List Nat) (m : List (Nat × Nat)),
    gs.foldl (fun m g => match p.glyphMap.lookup g with | none => m | some ng => amInsert (ng % 65536) o m) m =
    applyWrites (gs.filterMap (fun g => (p.glyphMap.lookup g).map (fun ng => (ng % 65536, o)))) m
  | [], m => rfl
  | g :: gs, m => by
    simp only [List.foldl_cons, List.filterMap_cons]
    cases hl : p.glyphMap.lookup g with
    | none => simp only [Option.map_none]; exact inner_fold_eq p o gs m
    | some ng =>
      simp only [Option.map_some, applyWrites, List.foldl_cons]
      exact inner_fold_eq p o gs _

theorem outer_fold_eq (p : PlanIn) (first last : Nat) : ∀ (clips : List (Nat × Nat × Nat)) (m0 : List (Nat × Nat)),
    clips.foldl (fun m (c : Nat × Nat × Nat) =>
      if c.2.1 < first ∨ c.1 > last then m
      else (p.colred.filter fun g => c.1 ≤ g ∧ g ≤ c.2.1).foldl (fun m g =>
        match p.glyphMap.lookup g with
        | none => m
        | some ng => amInsert (ng % 65536) c.2.2 m) m) m0 =
    applyWrites (clips.flatMap (fun (c : Nat × Nat × Nat) =>
      if c.2.1 < first ∨ c.1 > last then []
      else (p.colred.filter fun g => c.1 ≤ g ∧ g ≤ c.2.1).filterMap (fun g =>
        (p.glyphMap.lookup g).map (fun ng => (ng % 65536, c.2.2))))) m0
  | [], m0 => rfl
  | c :: cs, m0 => by
    simp only [List.foldl_cons, List.flatMap_cons, applyWrites_append]
    rw [outer_fold_eq p first last cs]
    congr 1
    split
    · rfl
    · exact inner_fold_eq p c.2.2 _ m0

theorem clipMap_eq_writes (p : PlanIn) (clips : List (Nat × Nat × Nat)) :
    clipMap p clips = applyWrites (clipWrites p clips) [] := by
  unfold clipMap clipWrites
  cases hh : p.colred.head? with
  | none => rfl
  | some first =>
    cases hl : p.colred.getLast? with
    | none => rfl
    | some last => exact outer_fold_eq p first last clips []

theorem applyWrites_asc : ∀ (ws m : List (Nat × Nat)), KeysAsc m → KeysAsc (applyWrites ws m)
  | [], m, h => h
  | w :: ws, m, h => by
    simp only [applyWrites, List.foldl_cons]
    exact applyWrites_asc ws _ (amInsert_asc w.1 w.2 m h)

/-- last write wins -/
theorem applyWrites_lookup (x : Nat) : ∀ (ws m : List (Nat × Nat)), KeysAsc m →
    amLookup x (applyWrites ws m) = (match amLookup x ws.reverse with | some v => some v | none => amLookup x m)
  | [], m, _ => by simp [applyWrites, amLookup]
  | w :: ws, m, h => by
    simp only [applyWrites, List.foldl_cons]
    have ih := applyWrites_lookup x ws (amInsert w.1 w.2 m) (amInsert_asc w.1 w.2 m h)
    simp only [applyWrites] at ih
    rw [ih, amLookup_amInsert w.1 w.2 x m h]
    have hrev : ∀ (l : List (Nat × Nat)) (y : Nat × Nat),
        amLookup x (l ++ [y]) = (match amLookup x l with | some v => some v | none => if x = y.1 then some y.2 else none) := by
      intro l y
      induction l with
      | nil => simp [amLookup]
      | cons a l ihl =>
        simp only [List.cons_append, amLookup]
        split
        · rfl
        · exact ihl
    rw [List.reverse_cons, hrev]
    cases amLookup x ws.reverse with
    | some v => simp
    | none => by_cases hx : x = w.1 <;> simp [hx]

theorem ascAbove_of_keysAsc : ∀ (m : List (Nat × Nat)) (k v : Nat), KeysAsc ((k, v) :: m) → AscAbove k m
  | [], _, _, _ => trivial
  | (k', v') :: rest, k, v, h => by
    unfold KeysAsc at h
    simp only [List.map_cons, List.pairwise_cons, List.mem_cons] at h
    refine ⟨h.1 k' (Or.inl rfl), ascAbove_of_keysAsc rest k' v' ?_⟩
    unfold KeysAsc
    simp only [List.map_cons, List.pairwise_cons]
    exact h.2


theorem amLookup_mem : ∀ (l : List (Nat × Nat)) (x v : Nat), amLookup x l = some v → (x, v) ∈ l
  | [], _, _, h => by simp [amLookup] at h
  | (k, w) :: rest, x, v, h => by
    unfold amLookup at h
    split at h
    · rename_i hx; subst hx; simp at h; subst h; exact List.mem_cons_self ..
    · exact List.mem_cons_of_mem _ (amLookup_mem rest x v h)

theorem amLookup_of_mem_unique : ∀ (l : List (Nat × Nat)) (x v : Nat), (x, v) ∈ l →
    (∀ v', (x, v') ∈ l → v' = v) → amLookup x l = some v
  | [], _, _, h, _ => by simp at h
  | (k, w) :: rest, x, v, h, hu => by
    unfold amLookup
    split
    · rename_i hx
      subst hx
      rw [hu w (List.mem_cons_self ..)]
    · rename_i hx
      rcases List.mem_cons.mp h with h' | h'
      · simp only [Prod.mk.injEq] at h'; exact absurd h'.1 hx
      · exact amLookup_of_mem_unique rest x v h' (fun v' hv' => hu v' (List.mem_cons_of_mem _ hv'))

theorem head_le_of_sorted : ∀ (l : List Nat) (a g : Nat), l.Pairwise (· < ·) → l.head? = some a → g ∈ l → a ≤ g
  | [], _, _, _, h, _ => by simp at h
  | x :: xs, a, g, hs, hh, hg => by
    simp at hh; subst hh
    rcases List.mem_cons.mp hg with h | h
    · omega
    · have := (List.pairwise_cons.mp hs).1 g h; omega

theorem le_last_of_sorted : ∀ (l : List Nat) (b g : Nat), l.Pairwise (· < ·) → l.getLast? = some b → g ∈ l → g ≤ b
  | [], _, _, _, h, _ => by simp at h
  | [x], b, g, _, hl, hg => by simp at hl hg; omega
  | x :: y :: xs, b, g, hs, hl, hg => by
    rw [List.getLast?_cons_cons] at hl
    have hs' := List.pairwise_cons.mp hs
    rcases List.mem_cons.mp hg with h | h
    · subst h
      have hb : b ∈ y :: xs := List.mem_of_getLast? hl
      have := hs'.1 b hb; omega
    · exact le_last_of_sorted (y :: xs) b g hs'.2 hl h

/-- new gid `ng` (as u16) is the image of a kept colour glyph that lies in a source Clip record with box offset `o` -/
def ClipOf (p : PlanIn) (clips : List (Nat × Nat × Nat)) (ng o : Nat) : Prop :=
  ∃ g ∈ p.colred, ∃ n, p.glyphMap.lookup g = some n ∧ n % 65536 = ng ∧
    ∃ c ∈ clips, c.1 ≤ g ∧ g ≤ c.2.1 ∧ c.2.2 = o

theorem mem_clipWrites (p : PlanIn) (clips : List (Nat × Nat × Nat)) (hs : p.colred.Pairwise (· < ·)) (ng o : Nat) :
    (ng, o) ∈ clipWrites p clips ↔ ClipOf p clips ng o := by
  unfold clipWrites ClipOf
  cases hh : p.colred.head? with
  | none =>
    have : p.colred = [] := by cases hc : p.colred with | nil => rfl | cons a l => rw [hc] at hh; simp at hh
    simp [this]
  | some first =>
    cases hl : p.colred.getLast? with
    | none =>
      have : p.colred = [] := by
        cases hc : p.colred with
        | nil => rfl
        | cons a l => rw [hc] at hl; simp at hl
      rw [this] at hh; simp at hh
    | some last =>
      simp only [List.mem_flatMap]
      constructor
      · rintro ⟨c, hc, hmem⟩
        split at hmem
        · simp at hmem
        · simp only [List.mem_filterMap, List.mem_filter, decide_eq_true_eq, Option.map_eq_some_iff, Prod.mk.injEq] at hmem
          obtain ⟨g, ⟨hg, hr1, hr2⟩, n, hn, hng, ho⟩ := hmem
          exact ⟨g, hg, n, hn, hng, c, hc, hr1, hr2, ho⟩
      · rintro ⟨g, hg, n, hn, hng, c, hc, hr1, hr2, ho⟩
        refine ⟨c, hc, ?_⟩
        have h1 := head_le_of_sorted _ _ g hs hh hg
        have h2 := le_last_of_sorted _ _ g hs hl hg
        have hskip : ¬ (c.2.1 < first ∨ c.1 > last) := by omega
        simp only [hskip, if_false, List.mem_filterMap, List.mem_filter, decide_eq_true_eq, Option.map_eq_some_iff, Prod.mk.injEq]
        exact ⟨g, ⟨hg, hr1, hr2⟩, n, hn, hng, ho⟩

/-- **ClipList, end to end on the structured level.** -/
theorem clipList_lookup (p : PlanIn) (clips : List (Nat × Nat × Nat)) (g0 o0 : Nat) (rest : List (Nat × Nat))
    (hm : clipMap p clips = (g0, o0) :: rest) :
    RunsSorted g0 (clipRuns rest g0 g0 o0) ∧
    ∀ ng, clipLookup ng (clipRuns rest g0 g0 o0) = amLookup ng (clipWrites p clips).reverse := by
  have hasc : KeysAsc (clipMap p clips) := by
    rw [clipMap_eq_writes]; exact applyWrites_asc _ [] (by simp [KeysAsc])
  rw [hm] at hasc
  have ha := ascAbove_of_keysAsc rest g0 o0 hasc
  refine ⟨clipRuns_sorted rest g0 g0 o0 (Nat.le_refl _) ha, fun ng => ?_⟩
  rw [clipRuns_lookup rest g0 g0 o0 ng (Nat.le_refl _) ha]
  have hl := applyWrites_lookup ng (clipWrites p clips) [] (by simp [KeysAsc])
  rw [← clipMap_eq_writes, hm] at hl
  have this : amLookup ng ((g0, o0) :: rest) = if g0 ≤ ng ∧ ng ≤ g0 then some o0 else amLookup ng rest := by
    simp only [amLookup]
    by_cases h : ng = g0
    · subst h; simp
    · have : ¬ (g0 ≤ ng ∧ ng ≤ g0) := by omega
      simp [h, this]
  rw [← this, hl]
  cases amLookup ng (clipWrites p clips).reverse <;> rfl

theorem clipMap_nil_iff (p : PlanIn) (clips : List (Nat × Nat × Nat)) :
    clipMap p clips = [] ↔ clipWrites p clips = [] := by
  rw [clipMap_eq_writes]
  constructor
  · intro h
    cases hw : clipWrites p clips with
    | nil => rfl
    | cons w ws =>
      exfalso
      have hl := applyWrites_lookup w.1 (clipWrites p clips) [] (by simp [KeysAsc])
      rw [h] at hl
      have hmem : (w.1, w.2) ∈ (clipWrites p clips).reverse := by rw [hw]; simp
      -- some write with key w.1 exists, so the reversed lookup is `some`
      cases hr : amLookup w.1 (clipWrites p clips).reverse with
      | some v => rw [hr] at hl; simp [amLookup] at hl
      | none =>
        have : ∀ (l : List (Nat × Nat)) (x v : Nat), (x, v) ∈ l → amLookup x l ≠ none := by
          intro l
          induction l with
          | nil => intro x v h; simp at h
          | cons a l ih =>
            intro x v h
            unfold amLookup
            split
            · simp
            · rename_i hx
              rcases List.mem_cons.mp h with h' | h'
              · rw [← h'] at hx; simp at hx
              · exact ih x v h'
        exact this _ _ _ hmem hr
  · intro h; rw [h]; rfl

end FontVerif.SubsetColr
