/-
Helper lemmas for C08: skrifa `MappingSelection::new` picks, among the supported candidate records,
one of the greatest `MappingKind` (symbol > full repertoire > BMP), the last such record in the table.
-/
import FontVerif.Model.Cmap
set_option linter.unusedVariables false
namespace FontVerif.Cmap
open FontVerif

/-- the `MappingKind` a record is a candidate for (0 = not a candidate: unsupported subtable format,
the variation-selector record, or a platform/encoding pair the selection ignores) -/
def recKind (r : Record) : Nat :=
  if r.2.2.supported then
    match r.1, r.2.1 with
    | 0, 5 => 0
    | 3, 0 => 3
    | 3, 10 => 2
    | 0, 4 => 2
    | 2, _ => 1
    | 0, _ => 1
    | 3, 1 => 1
    | _, _ => 0
  else 0

theorem selectStep_cp (sel : Selection) (i : Nat) (r : Record) :
    (recKind r > sel.kind →
      (selectStep sel i r).kind = recKind r ∧ (selectStep sel i r).codepointIx = some i ∧
      (selectStep sel i r).isSymbol = (recKind r == 3)) ∧
    (¬ recKind r > sel.kind →
      (selectStep sel i r).kind = sel.kind ∧ (selectStep sel i r).codepointIx = sel.codepointIx ∧
      (selectStep sel i r).isSymbol = sel.isSymbol) := by
  obtain ⟨p, e, k⟩ := r
  unfold selectStep recKind
  simp only [kindSymbol, kindFull, kindBmp]
  by_cases hs : k.supported = true
  · simp only [hs, if_true, true_and]
    split <;> grind
  · have hs' : k.supported = false := by simpa using hs
    simp only [hs', Bool.false_eq_true, if_false, false_and]
    split <;> grind

/-- what the reverse loop over the encoding records has selected -/
structure SelSpec (recs : List Record) (base : Nat) (sel : Selection) : Prop where
  maxKind : ∀ j (hj : j < recs.length), recKind recs[j] ≤ sel.kind
  noneIff : sel.codepointIx = none ↔ sel.kind = 0
  chosen : ∀ i, sel.codepointIx = some i → ∃ k, ∃ hk : k < recs.length, i = base + k ∧
    recKind recs[k] = sel.kind ∧ ∀ j (hj : j < recs.length), k < j → recKind recs[j] < sel.kind
  symbol : sel.isSymbol = (sel.kind == 3)

theorem selectGo_spec : ∀ (recs : List Record) (base : Nat), SelSpec recs base (selectGo recs base) := by
  intro recs
  induction recs with
  | nil =>
    intro base
    exact ⟨fun j hj => by simp at hj, by simp [selectGo], fun i h => by simp [selectGo] at h, by simp [selectGo]⟩
  | cons r rest ih =>
    intro base
    have ih' := ih (base + 1)
    obtain ⟨s1, s2⟩ := selectStep_cp (selectGo rest (base + 1)) base r
    unfold selectGo
    by_cases hgt : recKind r > (selectGo rest (base + 1)).kind
    · obtain ⟨e1, e2, e3⟩ := s1 hgt
      refine ⟨?_, ?_, ?_, ?_⟩
      · intro j hj
        rw [e1]
        cases j with
        | zero => exact Nat.le_refl _
        | succ j' =>
          have := ih'.maxKind j' (by simpa using hj)
          simp only [List.getElem_cons_succ]
          omega
      · rw [e1, e2]
        constructor
        · intro h; cases h
        · intro h; omega
      · intro i hi
        rw [e2] at hi
        injection hi with hi
        refine ⟨0, by simp, by omega, by simp [e1], ?_⟩
        intro j hj hj0
        cases j with
        | zero => omega
        | succ j' =>
          have := ih'.maxKind j' (by simpa using hj)
          simp only [List.getElem_cons_succ, e1]
          omega
      · rw [e3, e1]
    · obtain ⟨e1, e2, e3⟩ := s2 hgt
      refine ⟨?_, ?_, ?_, ?_⟩
      · intro j hj
        rw [e1]
        cases j with
        | zero => simp only [List.getElem_cons_zero]; omega
        | succ j' => exact ih'.maxKind j' (by simpa using hj)
      · rw [e1, e2]; exact ih'.noneIff
      · intro i hi
        rw [e2] at hi
        obtain ⟨k, hk, h1, h2, h3⟩ := ih'.chosen i hi
        refine ⟨k + 1, by simpa using hk, by omega, by simpa [e1] using h2, ?_⟩
        intro j hj hkj
        cases j with
        | zero => omega
        | succ j' =>
          rw [e1]
          simpa using h3 j' (by simpa using hj) (by omega)
      · rw [e3, e1]; exact ih'.symbol

end FontVerif.Cmap
