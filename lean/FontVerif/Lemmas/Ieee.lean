/-
Helper lemmas about the exact IEEE model (Model/Ieee.lean): bit length, exactness of `roundNE`
on representable values, sign of a rounded value.
-/
import FontVerif.Model.Ieee
set_option linter.unusedVariables false
namespace FontVerif.Ieee

theorem two_pow_pos (n : Nat) : 0 < 2 ^ n := Nat.two_pow_pos n

theorem bitLenAux_zero (fuel : Nat) : bitLenAux fuel 0 = 0 := by
  cases fuel <;> simp [bitLenAux]

theorem bitLenAux_spec : ∀ (fuel n : Nat), n ≤ fuel →
    n < 2 ^ bitLenAux fuel n ∧ (n ≠ 0 → 2 ^ (bitLenAux fuel n - 1) ≤ n) := by
  intro fuel
  induction fuel with
  | zero =>
    intro n h
    have : n = 0 := by omega
    subst this; simp [bitLenAux]
  | succ fuel ih =>
    intro n h
    unfold bitLenAux
    by_cases hn : n = 0
    · subst hn; simp
    · simp only [hn, if_false]
      have hle : n / 2 ≤ fuel := by omega
      have ⟨h1, h2⟩ := ih (n / 2) hle
      generalize hb : bitLenAux fuel (n / 2) = b at *
      have hp : 2 ^ (b + 1) = 2 * 2 ^ b := by rw [Nat.pow_succ]; omega
      refine ⟨by omega, fun _ => ?_⟩
      simp only [Nat.add_sub_cancel]
      by_cases hz : n / 2 = 0
      · have : b = 0 := by rw [← hb, hz]; exact bitLenAux_zero fuel
        subst this; simp; omega
      · have h3 := h2 hz
        have hb1 : b ≥ 1 := by
          rcases b with _ | b
          · simp at h1; omega
          · omega
        have hp2 : 2 ^ b = 2 * 2 ^ (b - 1) := by
          have : b = (b - 1) + 1 := by omega
          rw [this, Nat.pow_succ]; simp; omega
        omega

theorem lt_pow_bitLen (n : Nat) : n < 2 ^ bitLen n := (bitLenAux_spec n n (Nat.le_refl n)).1

theorem pow_bitLen_le {n : Nat} (h : n ≠ 0) : 2 ^ (bitLen n - 1) ≤ n :=
  (bitLenAux_spec n n (Nat.le_refl n)).2 h

theorem bitLen_zero : bitLen 0 = 0 := by simp [bitLen, bitLenAux]

theorem bitLen_pos {n : Nat} (h : n ≠ 0) : 1 ≤ bitLen n := by
  have := lt_pow_bitLen n
  rcases hb : bitLen n with _ | b
  · rw [hb] at this; simp at this; omega
  · omega

/-- `n < 2^p → bitLen n ≤ p`. -/
theorem bitLen_le_of_lt {n p : Nat} (h : n < 2 ^ p) : bitLen n ≤ p := by
  by_cases hn : n = 0
  · subst hn; rw [bitLen_zero]; omega
  · have h1 := pow_bitLen_le hn
    have h2 : 2 ^ (bitLen n - 1) < 2 ^ p := Nat.lt_of_le_of_lt h1 h
    have h3 : bitLen n - 1 < p := (Nat.pow_lt_pow_iff_right (by decide)).mp h2
    omega

/-- `bitLen n ≤ p → n < 2^p`. -/
theorem lt_of_bitLen_le {n p : Nat} (h : bitLen n ≤ p) : n < 2 ^ p :=
  Nat.lt_of_lt_of_le (lt_pow_bitLen n) (Nat.pow_le_pow_right (by decide) h)

/-- `roundNE` is the identity on representable magnitudes: at most `p` significant bits, exponent
not below `emin`, no overflow. -/
theorem roundNE_exact (f : Fmt) (neg : Bool) (a : Nat) (e : Int)
    (ha : a < 2 ^ f.p) (he : f.emin ≤ e) (ht : e + (bitLen a : Int) ≤ f.etop) :
    roundNE f neg a e = if a = 0 then .fin neg 0 0 else .fin neg a e := by
  unfold roundNE
  by_cases h0 : a = 0
  · simp [h0]
  · simp only [h0, if_false]
    have hL : bitLen a ≤ f.p := bitLen_le_of_lt ha
    have hq : (if e + (bitLen a : Int) - (f.p : Int) < f.emin then f.emin
        else e + (bitLen a : Int) - (f.p : Int)) ≤ e := by
      split <;> omega
    simp only [hq, if_true]
    have : ¬ (e + (bitLen a : Int) > f.etop) := by omega
    simp [this]

/-- a rounded value is never NaN and keeps the sign it was given. -/
theorem roundNE_shape (f : Fmt) (neg : Bool) (a : Nat) (e : Int) :
    roundNE f neg a e = .inf neg ∨ ∃ m e', roundNE f neg a e = .fin neg m e' := by
  unfold roundNE
  by_cases h0 : a = 0
  · simp [h0]
  · simp only [h0, if_false]
    repeat' split
    all_goals first | exact Or.inl rfl | exact Or.inr ⟨_, _, rfl⟩

/-- integer → float conversion is exact below `2^p`. -/
theorem ofInt_exact (f : Fmt) (i : Int) (hp : (f.p : Int) ≤ f.etop) (hemin : f.emin ≤ 0)
    (hi : i.natAbs < 2 ^ f.p) : ofInt f i = .fin (decide (i < 0)) i.natAbs 0 := by
  unfold ofInt
  have hL : bitLen i.natAbs ≤ f.p := bitLen_le_of_lt hi
  rw [roundNE_exact f _ _ 0 hi hemin (by omega)]
  by_cases h0 : i.natAbs = 0
  · have : i = 0 := by omega
    subst this; simp
  · simp [h0]

end FontVerif.Ieee
