/- helper lemmas for the RangeSet theorems of C14 -/
import FontVerif.Model.RangeSet
set_option linter.unusedVariables false
set_option linter.unusedSimpArgs false
namespace FontVerif.RangeSet

/-- relation between consecutive (and hence all ordered pairs of) ranges -/
abbrev Gap (p q : Int × Int) : Prop := p.2 + 1 < q.1

theorem rinv_nil : RInv [] := by simp [RInv]

theorem rinv_cons {p : Int × Int} {rs : Ranges} :
    RInv (p :: rs) ↔ (∀ q ∈ rs, p.2 + 1 < q.1) ∧ p.1 ≤ p.2 ∧ RInv rs := by
  simp [RInv, List.pairwise_cons]
  grind

theorem mem_cons_iff {p : Int × Int} {rs : Ranges} {x : Int} :
    Mem (p :: rs) x ↔ (p.1 ≤ x ∧ x ≤ p.2) ∨ Mem rs x := by
  simp [Mem]

theorem mem_nil {x : Int} : ¬ Mem [] x := by simp [Mem]

/-! ### nextRange / prevRange -/

theorem nextRange_none {rs : Ranges} {s : Int} (h : nextRange rs s = none) :
    ∀ p ∈ rs, p.1 < s := by
  induction rs with
  | nil => simp
  | cons p rest ih =>
    obtain ⟨a, b⟩ := p
    simp only [nextRange] at h
    split at h
    · simp at h
    · intro q hq
      simp at hq
      rcases hq with rfl | hq
      · simp; omega
      · exact ih h q hq

theorem nextRange_some {rs : Ranges} {s : Int} {n : Int × Int} (hinv : RInv rs)
    (h : nextRange rs s = some n) :
    n ∈ rs ∧ s ≤ n.1 ∧ ∀ p ∈ rs, p = n ∨ p.2 + 1 < s ∨ n.2 + 1 < p.1 ∨ (p.1 < s) := by
  induction rs with
  | nil => simp [nextRange] at h
  | cons p rest ih =>
    obtain ⟨a, b⟩ := p
    rw [rinv_cons] at hinv
    simp only [nextRange] at h
    split at h
    · simp at h; subst h
      refine ⟨by simp, by simpa, ?_⟩
      intro q hq
      simp at hq
      rcases hq with rfl | hq
      · left; rfl
      · right; right; left; exact hinv.1 q hq
    · have := ih hinv.2.2 h
      refine ⟨by simp [this.1], this.2.1, ?_⟩
      intro q hq
      simp at hq
      rcases hq with rfl | hq
      · right; right; right; simp; omega
      · exact this.2.2 q hq

theorem prevRange_none {rs : Ranges} {s : Int} (hinv : RInv rs) (h : prevRange rs s = none) :
    ∀ p ∈ rs, s ≤ p.1 := by
  induction rs with
  | nil => simp
  | cons p rest ih =>
    obtain ⟨a, b⟩ := p
    rw [rinv_cons] at hinv
    simp only [prevRange] at h
    split at h
    · split at h <;> simp at h
    · intro q hq
      simp at hq
      rcases hq with rfl | hq
      · simp; omega
      · have := hinv.1 q hq
        simp at this
        have := hinv.2.1
        simp at this
        omega

theorem prevRange_some {rs : Ranges} {s : Int} {n : Int × Int} (hinv : RInv rs)
    (h : prevRange rs s = some n) :
    n ∈ rs ∧ n.1 < s ∧ ∀ p ∈ rs, p = n ∨ p.2 + 1 < n.1 ∨ s ≤ p.1 := by
  induction rs with
  | nil => simp [prevRange] at h
  | cons p rest ih =>
    obtain ⟨a, b⟩ := p
    rw [rinv_cons] at hinv
    simp only [prevRange] at h
    split at h
    · rename_i hlt
      split at h
      · rename_i r hr
        simp at h; subst h
        have := ih hinv.2.2 hr
        refine ⟨by simp [this.1], this.2.1, ?_⟩
        intro q hq
        simp at hq
        rcases hq with rfl | hq
        · right; left; exact hinv.1 r this.1
        · exact this.2.2 q hq
      · rename_i hr
        simp at h; subst h
        refine ⟨by simp, by simpa using hlt, ?_⟩
        intro q hq
        simp at hq
        rcases hq with rfl | hq
        · left; rfl
        · right; right; exact prevRange_none hinv.2.2 hr q hq
    · simp at h

/-! ### mapRemove -/

theorem mem_mapRemove {rs : Ranges} {k : Int} {p : Int × Int} :
    p ∈ mapRemove rs k ↔ p ∈ rs ∧ p.1 ≠ k := by
  simp [mapRemove]

theorem rinv_mapRemove {rs : Ranges} {k : Int} (h : RInv rs) : RInv (mapRemove rs k) := by
  unfold RInv at *
  refine ⟨h.1.sublist (List.filter_sublist), ?_⟩
  intro p hp
  exact h.2 p (mem_mapRemove.mp hp).1

theorem length_mapRemove_lt {rs : Ranges} {n : Int × Int} (h : n ∈ rs) :
    (mapRemove rs n.1).length < rs.length := by
  unfold mapRemove
  apply List.length_filter_lt_length_iff_exists.mpr
  exact ⟨n, h, by simp⟩

/-! ### mapInsert -/

theorem mem_mapInsert {rs : Ranges} {k v : Int} {p : Int × Int} (hk : ∀ q ∈ rs, q.1 ≠ k) :
    p ∈ mapInsert rs k v ↔ p ∈ rs ∨ p = (k, v) := by
  induction rs with
  | nil => simp [mapInsert]
  | cons q rest ih =>
    obtain ⟨a, b⟩ := q
    have hne : a ≠ k := by simpa using hk (a, b) (by simp)
    have ih' := ih (fun q hq => hk q (by simp [hq]))
    simp only [mapInsert]
    split
    · simp; grind
    · split
      · omega
      · simp [ih']; grind

theorem rinv_mapInsert {rs : Ranges} {s e : Int} (hinv : RInv rs) (hse : s ≤ e)
    (h : ∀ p ∈ rs, p.2 + 1 < s ∨ e + 1 < p.1) : RInv (mapInsert rs s e) := by
  induction rs with
  | nil => simp [mapInsert, RInv, hse]
  | cons q rest ih =>
    obtain ⟨a, b⟩ := q
    rw [rinv_cons] at hinv
    have hab : a ≤ b := hinv.2.1
    have hq := h (a, b) (by simp)
    simp at hq
    have hk : ∀ q ∈ rest, q.1 ≠ s := by
      intro q hq'
      have h1 := h q (by simp [hq'])
      have h2 := hinv.2.2.2 q hq'
      omega
    simp only [mapInsert]
    split
    · rename_i hlt
      rw [rinv_cons]
      refine ⟨?_, hse, ?_⟩
      · intro p hp
        simp at hp
        rcases hp with rfl | hp
        · simp; omega
        · have h1 := hinv.1 p hp
          simp at h1 ⊢
          omega
      · rw [rinv_cons]; exact hinv
    · split
      · omega
      · rw [rinv_cons]
        refine ⟨?_, hab, ih hinv.2.2 (fun p hp => h p (by simp [hp]))⟩
        intro p hp
        rw [mem_mapInsert hk] at hp
        rcases hp with hp | rfl
        · exact hinv.1 p hp
        · simp; omega

theorem Mem_mapInsert {rs : Ranges} {s e x : Int} (hk : ∀ q ∈ rs, q.1 ≠ s) :
    Mem (mapInsert rs s e) x ↔ Mem rs x ∨ (s ≤ x ∧ x ≤ e) := by
  unfold Mem
  constructor
  · rintro ⟨p, hp, hx⟩
    rw [mem_mapInsert hk] at hp
    rcases hp with hp | rfl
    · left; exact ⟨p, hp, hx⟩
    · right; exact hx
  · rintro (⟨p, hp, hx⟩ | hx)
    · exact ⟨p, (mem_mapInsert hk).mpr (Or.inl hp), hx⟩
    · exact ⟨(s, e), (mem_mapInsert hk).mpr (Or.inr rfl), hx⟩

/-! ### the insertion loop -/

/-- loop precondition: everything that starts before `s` ends well before `s` -/
def Pre (rs : Ranges) (s e : Int) : Prop :=
  RInv rs ∧ s ≤ e ∧ ∀ p ∈ rs, p.1 < s → p.2 + 1 < s

theorem overlapOrAdjacent_iff {s e ns ne : Int} (h1 : s ≤ e) (h2 : ns ≤ ne) :
    overlapOrAdjacent s e ns ne = true ↔ (s ≤ ne + 1 ∧ ns ≤ e + 1) := by
  simp [overlapOrAdjacent, areAdjacent]
  omega

theorem insertLoop_spec (fuel : Nat) (rs : Ranges) (s e : Int) (hfuel : rs.length < fuel)
    (hpre : Pre rs s e) :
    RInv (insertLoop fuel rs s e) ∧
      ∀ x, Mem (insertLoop fuel rs s e) x ↔ Mem rs x ∨ (s ≤ x ∧ x ≤ e) := by
  induction fuel generalizing rs s e with
  | zero => omega
  | succ fuel ih =>
    obtain ⟨hinv, hse, hbefore⟩ := hpre
    simp only [insertLoop]
    split
    · -- no range starts at or after `s`
      rename_i hnone
      have hall := nextRange_none hnone
      have hgap : ∀ p ∈ rs, p.2 + 1 < s ∨ e + 1 < p.1 :=
        fun p hp => Or.inl (hbefore p hp (hall p hp))
      have hk : ∀ q ∈ rs, q.1 ≠ s := fun q hq => by have := hall q hq; omega
      exact ⟨rinv_mapInsert hinv hse hgap, fun x => Mem_mapInsert hk⟩
    · rename_i ns ne hsome
      obtain ⟨hmem, hge, hothers⟩ := nextRange_some hinv hsome
      simp at hge
      have hnle : ns ≤ ne := hinv.2 (ns, ne) hmem
      split
      · -- subset: nothing to do
        rename_i hsub
        simp [isSubset] at hsub
        refine ⟨hinv, fun x => ⟨Or.inl, ?_⟩⟩
        rintro (h | h)
        · exact h
        · exact ⟨(ns, ne), hmem, by simp; omega⟩
      · rename_i hnsub
        split
        · -- merge with the next range and continue
          rename_i hov
          rw [overlapOrAdjacent_iff hse hnle] at hov
          have hmin : min s ns = s := by omega
          rw [hmin]
          have hlen : (mapRemove rs ns).length < fuel := by
            have := length_mapRemove_lt hmem
            simp at this
            omega
          have hpre' : Pre (mapRemove rs ns) s (max e ne) := by
            refine ⟨rinv_mapRemove hinv, by omega, ?_⟩
            intro p hp hlt
            exact hbefore p (mem_mapRemove.mp hp).1 hlt
          obtain ⟨hi, hm⟩ := ih (mapRemove rs ns) s (max e ne) hlen hpre'
          refine ⟨hi, fun x => ?_⟩
          rw [hm x]
          unfold Mem
          constructor
          · rintro (⟨p, hp, hx⟩ | hx)
            · exact Or.inl ⟨p, (mem_mapRemove.mp hp).1, hx⟩
            · by_cases hxe : x ≤ e
              · exact Or.inr ⟨hx.1, hxe⟩
              · exact Or.inl ⟨(ns, ne), hmem, by simp; omega⟩
          · rintro (⟨p, hp, hx⟩ | hx)
            · by_cases hpk : p.1 = ns
              · -- p is the removed range (keys are unique)
                have := hothers p hp
                rcases this with rfl | h | h | h
                · simp at hx; right; omega
                · omega
                · simp at h; have := hinv.2 p hp; omega
                · omega
              · exact Or.inl ⟨p, mem_mapRemove.mpr ⟨hp, hpk⟩, hx⟩
            · right; omega
        · -- strictly before the next range: insert here
          rename_i hov
          have hov' : ¬ (s ≤ ne + 1 ∧ ns ≤ e + 1) := by
            rw [← overlapOrAdjacent_iff hse hnle]; simpa using hov
          have hgap : ∀ p ∈ rs, p.2 + 1 < s ∨ e + 1 < p.1 := by
            intro p hp
            rcases hothers p hp with rfl | h | h | h
            · simp; omega
            · exact Or.inl h
            · simp at h; right; omega
            · exact Or.inl (hbefore p hp h)
          have hk : ∀ q ∈ rs, q.1 ≠ s := by
            intro q hq
            have := hgap q hq
            have := hinv.2 q hq
            omega
          exact ⟨rinv_mapInsert hinv hse hgap, fun x => Mem_mapInsert hk⟩

theorem insert_spec (rs : Ranges) (s e : Int) (hinv : RInv rs) :
    RInv (insert rs s e) ∧ ∀ x, Mem (insert rs s e) x ↔ Mem rs x ∨ (s ≤ x ∧ x ≤ e) := by
  unfold insert
  split
  · exact ⟨hinv, fun x => ⟨Or.inl, fun h => h.elim id (fun h => by omega)⟩⟩
  · rename_i hse
    have hse : s ≤ e := by omega
    split
    · rename_i ps pe hprev
      obtain ⟨hmem, hlt, hothers⟩ := prevRange_some hinv hprev
      simp at hlt
      have hple : ps ≤ pe := hinv.2 (ps, pe) hmem
      split
      · rename_i hsub
        simp [isSubset] at hsub
        refine ⟨hinv, fun x => ⟨Or.inl, ?_⟩⟩
        rintro (h | h)
        · exact h
        · exact ⟨(ps, pe), hmem, by simp; omega⟩
      · split
        · rename_i hnsub hov
          rw [overlapOrAdjacent_iff hse hple] at hov
          have hmin : min s ps = ps := by omega
          simp only [hmin]
          have hpre' : Pre (mapRemove rs ps) ps (max e pe) := by
            refine ⟨rinv_mapRemove hinv, by omega, ?_⟩
            intro p hp hlt'
            have hp' := mem_mapRemove.mp hp
            rcases hothers p hp'.1 with rfl | h | h
            · exact absurd rfl hp'.2
            · simpa using h
            · omega
          obtain ⟨hi, hm⟩ :=
            insertLoop_spec ((mapRemove rs ps).length + 1) (mapRemove rs ps) ps (max e pe)
              (by omega) hpre'
          refine ⟨hi, fun x => ?_⟩
          rw [hm x]
          unfold Mem
          constructor
          · rintro (⟨p, hp, hx⟩ | hx)
            · exact Or.inl ⟨p, (mem_mapRemove.mp hp).1, hx⟩
            · by_cases hxs : s ≤ x ∧ x ≤ e
              · exact Or.inr hxs
              · exact Or.inl ⟨(ps, pe), hmem, by simp; omega⟩
          · rintro (⟨p, hp, hx⟩ | hx)
            · by_cases hpk : p.1 = ps
              · rcases hothers p hp with rfl | h | h
                · simp at hx; right; omega
                · simp at h; have := hinv.2 p hp; omega
                · omega
              · exact Or.inl ⟨p, mem_mapRemove.mpr ⟨hp, hpk⟩, hx⟩
            · right; omega
        · rename_i hnsub hov
          have hov' : ¬ (s ≤ pe + 1 ∧ ps ≤ e + 1) := by
            rw [← overlapOrAdjacent_iff hse hple]; simpa using hov
          have hpre' : Pre rs s e := by
            refine ⟨hinv, hse, ?_⟩
            intro p hp hlt'
            rcases hothers p hp with rfl | h | h
            · simp; omega
            · simp at h; omega
            · omega
          exact insertLoop_spec (rs.length + 1) rs s e (by omega) hpre'
    · rename_i hprev
      have hall := prevRange_none hinv hprev
      have hpre' : Pre rs s e := ⟨hinv, hse, fun p hp hlt => by have := hall p hp; omega⟩
      exact insertLoop_spec (rs.length + 1) rs s e (by omega) hpre'

/-! ### intersection -/

theorem rangeIntersection_some {a b r : Int × Int} (h : rangeIntersection a b = some r) :
    a.1 ≤ b.2 ∧ b.1 ≤ a.2 ∧ r = (max a.1 b.1, min a.2 b.2) := by
  unfold rangeIntersection at h
  split at h
  · simp at h; grind
  · simp at h

theorem rangeIntersection_none {a b : Int × Int} (h : rangeIntersection a b = none) :
    ¬ (a.1 ≤ b.2 ∧ b.1 ≤ a.2) := by
  unfold rangeIntersection at h
  split at h
  · simp at h
  · assumption

/-- every output range lies inside some range of each input -/
theorem intersection_within (as bs : Ranges) :
    ∀ r ∈ intersection as bs,
      (∃ p ∈ as, p.1 ≤ r.1 ∧ r.2 ≤ p.2) ∧ (∃ q ∈ bs, q.1 ≤ r.1 ∧ r.2 ≤ q.2) := by
  fun_induction intersection as bs with
  | case1 => simp
  | case2 => simp
  | case3 a as b bs out rest r hout ih1 ih2 ih3 =>
    intro x hx
    simp at hx
    rcases hx with rfl | hx
    · obtain ⟨h1, h2, rfl⟩ := rangeIntersection_some hout
      refine ⟨⟨a, by simp, by dsimp only; omega⟩, ⟨b, by simp, by dsimp only; omega⟩⟩
    · simp only [rest] at hx
      split at hx
      · obtain ⟨⟨p, hp, hp'⟩, hq⟩ := ih1 x hx
        exact ⟨⟨p, by simp [hp], hp'⟩, hq⟩
      · split at hx
        · obtain ⟨⟨p, hp, hp'⟩, ⟨q, hq, hq'⟩⟩ := ih2 x hx
          exact ⟨⟨p, by simp [hp], hp'⟩, ⟨q, by simp [hq], hq'⟩⟩
        · obtain ⟨hp, ⟨q, hq, hq'⟩⟩ := ih3 x hx
          exact ⟨hp, ⟨q, by simp [hq], hq'⟩⟩
  | case4 a as b bs out rest hout ih1 ih2 ih3 =>
    intro x hx
    simp only [rest] at hx
    split at hx
    · obtain ⟨⟨p, hp, hp'⟩, hq⟩ := ih1 x hx
      exact ⟨⟨p, by simp [hp], hp'⟩, hq⟩
    · split at hx
      · obtain ⟨⟨p, hp, hp'⟩, ⟨q, hq, hq'⟩⟩ := ih2 x hx
        exact ⟨⟨p, by simp [hp], hp'⟩, ⟨q, by simp [hq], hq'⟩⟩
      · obtain ⟨hp, ⟨q, hq, hq'⟩⟩ := ih3 x hx
        exact ⟨hp, ⟨q, by simp [hq], hq'⟩⟩

theorem Mem_tail_gt {a : Int × Int} {as : Ranges} {x : Int} (h : RInv (a :: as)) (hx : Mem as x) :
    a.2 + 1 < x := by
  obtain ⟨p, hp, hx⟩ := hx
  have := (rinv_cons.mp h).1 p hp
  omega

theorem intersection_spec (as bs : Ranges) (ha : RInv as) (hb : RInv bs) :
    RInv (intersection as bs) ∧ ∀ x, Mem (intersection as bs) x ↔ Mem as x ∧ Mem bs x := by
  fun_induction intersection as bs with
  | case1 bs => exact ⟨rinv_nil, fun x => by simp [Mem]⟩
  | case2 a as => exact ⟨rinv_nil, fun x => by simp [Mem]⟩
  | case3 a as b bs out rest r hout ih1 ih2 ih3 =>
    obtain ⟨h1, h2, hr⟩ := rangeIntersection_some hout
    have hr1 : a.1 ≤ r.1 ∧ b.1 ≤ r.1 ∧ (r.1 = a.1 ∨ r.1 = b.1) := by rw [hr]; dsimp only; omega
    have hr2 : r.2 ≤ a.2 ∧ r.2 ≤ b.2 ∧ (r.2 = a.2 ∨ r.2 = b.2) := by rw [hr]; dsimp only; omega
    clear hr hout
    have ha' := rinv_cons.mp ha
    have hb' := rinv_cons.mp hb
    have hA : ∀ x, Mem as x → a.2 + 1 < x := fun x => Mem_tail_gt ha
    have hB : ∀ x, Mem bs x → b.2 + 1 < x := fun x => Mem_tail_gt hb
    simp only [rest]
    split
    · rename_i hlt
      obtain ⟨hi, hm⟩ := ih1 ha'.2.2 hb
      refine ⟨rinv_cons.mpr ⟨?_, by omega, hi⟩, fun x => ?_⟩
      · intro q hq
        obtain ⟨⟨p, hp, hp'⟩, _⟩ := intersection_within _ _ q hq
        have := ha'.1 p hp
        omega
      · simp only [mem_cons_iff, hm x]
        by_cases hMa : Mem as x <;> by_cases hMb : Mem bs x <;>
          simp only [hMa, hMb, true_and, and_true, or_true, true_or, false_or, or_false, false_and,
            and_false, iff_true, true_iff, false_iff, iff_false] <;>
          (first | (have := hA x hMa; have := hB x hMb; omega) | (have := hA x hMa; omega) |
            (have := hB x hMb; omega) | omega)
    · split
      · rename_i hnlt heq
        obtain ⟨hi, hm⟩ := ih2 ha'.2.2 hb'.2.2
        refine ⟨rinv_cons.mpr ⟨?_, by omega, hi⟩, fun x => ?_⟩
        · intro q hq
          obtain ⟨⟨p, hp, hp'⟩, _⟩ := intersection_within _ _ q hq
          have := ha'.1 p hp
          omega
        · simp only [mem_cons_iff, hm x]
          by_cases hMa : Mem as x <;> by_cases hMb : Mem bs x <;>
            simp only [hMa, hMb, true_and, and_true, or_true, true_or, false_or, or_false, false_and,
              and_false, iff_true, true_iff, false_iff, iff_false] <;>
            (first | (have := hA x hMa; have := hB x hMb; omega) | (have := hA x hMa; omega) |
              (have := hB x hMb; omega) | omega)
      · rename_i hnlt hne
        obtain ⟨hi, hm⟩ := ih3 ha hb'.2.2
        refine ⟨rinv_cons.mpr ⟨?_, by omega, hi⟩, fun x => ?_⟩
        · intro q hq
          obtain ⟨_, ⟨p, hp, hp'⟩⟩ := intersection_within _ _ q hq
          have := hb'.1 p hp
          omega
        · simp only [mem_cons_iff, hm x]
          by_cases hMa : Mem as x <;> by_cases hMb : Mem bs x <;>
            simp only [hMa, hMb, true_and, and_true, or_true, true_or, false_or, or_false, false_and,
              and_false, iff_true, true_iff, false_iff, iff_false] <;>
            (first | (have := hA x hMa; have := hB x hMb; omega) | (have := hA x hMa; omega) |
              (have := hB x hMb; omega) | omega)
  | case4 a as b bs out rest hout ih1 ih2 ih3 =>
    have hno := rangeIntersection_none hout
    have ha' := rinv_cons.mp ha
    have hb' := rinv_cons.mp hb
    have hA : ∀ x, Mem as x → a.2 + 1 < x := fun x => Mem_tail_gt ha
    have hB : ∀ x, Mem bs x → b.2 + 1 < x := fun x => Mem_tail_gt hb
    simp only [rest]
    split
    · obtain ⟨hi, hm⟩ := ih1 ha'.2.2 hb
      refine ⟨hi, fun x => ?_⟩
      simp only [mem_cons_iff, hm x]
      by_cases hMa : Mem as x <;> by_cases hMb : Mem bs x <;>
        simp only [hMa, hMb, true_and, and_true, or_true, true_or, false_or, or_false, false_and,
          and_false, iff_true, true_iff, false_iff, iff_false] <;>
        (first | (have := hA x hMa; have := hB x hMb; omega) | (have := hA x hMa; omega) |
          (have := hB x hMb; omega) | omega)
    · split
      · obtain ⟨hi, hm⟩ := ih2 ha'.2.2 hb'.2.2
        refine ⟨hi, fun x => ?_⟩
        simp only [mem_cons_iff, hm x]
        by_cases hMa : Mem as x <;> by_cases hMb : Mem bs x <;>
          simp only [hMa, hMb, true_and, and_true, or_true, true_or, false_or, or_false, false_and,
            and_false, iff_true, true_iff, false_iff, iff_false] <;>
          (first | (have := hA x hMa; have := hB x hMb; omega) | (have := hA x hMa; omega) |
            (have := hB x hMb; omega) | omega)
      · obtain ⟨hi, hm⟩ := ih3 ha hb'.2.2
        refine ⟨hi, fun x => ?_⟩
        simp only [mem_cons_iff, hm x]
        by_cases hMa : Mem as x <;> by_cases hMb : Mem bs x <;>
          simp only [hMa, hMb, true_and, and_true, or_true, true_or, false_or, or_false, false_and,
            and_false, iff_true, true_iff, false_iff, iff_false] <;>
          (first | (have := hA x hMa; have := hB x hMb; omega) | (have := hA x hMa; omega) |
            (have := hB x hMb; omega) | omega)

end FontVerif.RangeSet
