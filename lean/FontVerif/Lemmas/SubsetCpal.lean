/-
Lemmas about the CPAL subsetter model (`Model/SubsetCpal.lean`).
-/
import FontVerif.Lemmas.SubsetColrSer
import FontVerif.Model.SubsetCpal
namespace FontVerif.SubsetCpal
open FontVerif FontVerif.ColrSer
open FontVerif.SubsetHvar (Err R)

/-! ## the colour record loop -/

theorem recordsOf_spec (records : List Nat) (first : Nat) :
    ∀ (es : List Nat) (bs : List Nat), recordsOf records first es = .ok bs →
      bs.length = 4 * es.length ∧
      ∀ j (hj : j < es.length), slice bs (4 * j) 4 = slice records (4 * (first + es[j])) 4
  | [], bs, h => by
    simp only [recordsOf, pure, Except.pure] at h
    cases h
    exact ⟨rfl, fun j hj => absurd hj (by simp)⟩
  | e :: es, bs, h => by
    simp only [recordsOf] at h
    cases hs : slice records (4 * (first + e)) 4 with
    | none => rw [hs] at h; cases h
    | some r =>
      rw [hs] at h
      cases hr : recordsOf records first es with
      | error err => rw [hr] at h; cases h
      | ok rest =>
        rw [hr] at h
        simp only [bind, Except.bind, pure, Except.pure] at h
        cases h
        obtain ⟨hl, hrest⟩ := recordsOf_spec records first es rest hr
        have hrl : r.length = 4 := slice_length hs
        refine ⟨by simp [hl, hrl]; omega, ?_⟩
        intro j hj
        cases j with
        | zero =>
          simp only [Nat.mul_zero, List.getElem_cons_zero]
          rw [hs, ← hrl]
          exact slice_prefix
        | succ j =>
          simp only [List.getElem_cons_succ]
          have := hrest j (by simpa using hj)
          rw [← this, show 4 * (j + 1) = 4 + 4 * j by omega]
          exact slice_append_right' hrl

/-- what the loop has established so far: every mapped first index owns a block of `n` records in the
output that are the source records `first + e` -/
structure RecInv (records retained : List Nat) (map : List (Nat × Nat)) (newIdx : Nat) (out : List Nat) : Prop where
  idx : newIdx = map.length * retained.length
  len : out.length = 4 * newIdx
  blocks : ∀ f nf, map.lookup f = some nf → ∃ k, k < map.length ∧ nf = (k * retained.length) % 65536 ∧
    ∀ j (hj : j < retained.length),
      slice out (4 * (k * retained.length + j)) 4 = slice records (4 * (f + retained[j])) 4

theorem lookup_append_of_none {β} (m : List (Nat × β)) (k k' : Nat) (v : β)
    (h : m.lookup k' = none) :
    (m ++ [(k', v)]).lookup k = if k = k' then some v else m.lookup k := by
  induction m with
  | nil =>
    by_cases hk : k = k'
    · subst hk; simp [List.lookup]
    · have : (k == k') = false := by simpa using hk
      simp [List.lookup, this, hk]
  | cons hd tl ih =>
    obtain ⟨a, b⟩ := hd
    simp only [List.cons_append, List.lookup_cons] at h ⊢
    by_cases hka : k' == a
    · rw [hka] at h; cases h
    · have hka' : (k' == a) = false := by simpa using hka
      rw [hka'] at h
      by_cases hk : k == a
      · rw [hk]
        have : k ≠ k' := by
          intro e; subst e; rw [hk] at hka'; cases hka'
        simp [this]
      · have hk' : (k == a) = false := by simpa using hk
        rw [hk', ih h]

theorem recordsGo_spec (records retained : List Nat) (hN : retained.length < 65536) :
    ∀ (inds : List Nat) (map : List (Nat × Nat)) (newIdx : Nat) (out : List Nat)
      (map' : List (Nat × Nat)) (out' : List Nat),
      RecInv records retained map newIdx out →
      recordsGo records retained inds map newIdx out = .ok (map', out') →
      RecInv records retained map' (map'.length * retained.length) out' ∧
      (∀ f ∈ inds, (map'.lookup f).isSome) ∧
      (∀ f nf, map.lookup f = some nf → map'.lookup f = some nf)
  | [], map, newIdx, out, map', out', inv, h => by
    simp only [recordsGo, pure, Except.pure] at h
    cases h
    refine ⟨?_, by simp, fun _ _ h => h⟩
    rw [← inv.idx]; exact inv
  | first :: rest, map, newIdx, out, map', out', inv, h => by
    simp only [recordsGo] at h
    by_cases hl : (map.lookup first).isSome
    · rw [if_pos hl] at h
      obtain ⟨i1, i2, i3⟩ := recordsGo_spec records retained hN rest map newIdx out map' out' inv h
      refine ⟨i1, ?_, i3⟩
      intro f hf
      cases hf with
      | head =>
        obtain ⟨nf, hnf⟩ := Option.isSome_iff_exists.mp hl
        rw [i3 _ _ hnf]; rfl
      | tail _ hf => exact i2 f hf
    · rw [if_neg hl] at h
      have hnone : map.lookup first = none := by
        cases hm : map.lookup first with
        | none => rfl
        | some v => rw [hm] at hl; simp at hl
      cases hr : recordsOf records first retained with
      | error e => rw [hr] at h; cases h
      | ok recs =>
        rw [hr] at h
        simp only [bind, Except.bind] at h
        obtain ⟨hrl, hrecs⟩ := recordsOf_spec records first retained recs hr
        have hmod : retained.length % 65536 = retained.length := Nat.mod_eq_of_lt hN
        rw [hmod] at h
        have inv' : RecInv records retained (map ++ [(first, newIdx % 65536)]) (newIdx + retained.length)
            (out ++ recs) := by
          refine ⟨?_, ?_, ?_⟩
          · rw [inv.idx]; simp [Nat.succ_mul]
          · simp [inv.len, hrl]; omega
          · intro f nf hf
            rw [lookup_append_of_none map f first _ hnone] at hf
            by_cases hff : f = first
            · rw [if_pos hff] at hf
              cases hf
              refine ⟨map.length, by simp, by rw [inv.idx], ?_⟩
              intro j hj
              have hol : out.length = 4 * (map.length * retained.length) := by rw [inv.len, inv.idx]
              rw [show 4 * (map.length * retained.length + j) = out.length + 4 * j by omega]
              rw [slice_append_right, hrecs j hj, hff]
            · rw [if_neg hff] at hf
              obtain ⟨k, hk, hnf, hb⟩ := inv.blocks f nf hf
              refine ⟨k, by simp; omega, hnf, ?_⟩
              intro j hj
              rw [← hb j hj]
              apply slice_append_left
              rw [inv.len, inv.idx]
              have : (k + 1) * retained.length ≤ map.length * retained.length :=
                Nat.mul_le_mul_right _ hk
              rw [Nat.succ_mul] at this
              omega
        obtain ⟨i1, i2, i3⟩ := recordsGo_spec records retained hN rest _ _ _ map' out' inv' h
        refine ⟨i1, ?_, ?_⟩
        · intro f hf
          cases hf with
          | head =>
            have : (map ++ [(first, newIdx % 65536)]).lookup first = some (newIdx % 65536) := by
              rw [lookup_append_of_none map first first _ hnone]; simp
            rw [i3 _ _ this]; rfl
          | tail _ hf => exact i2 f hf
        · intro f nf hf
          apply i3
          rw [lookup_append_of_none map f first _ hnone]
          have : f ≠ first := by
            intro e; subst e; rw [hnone] at hf; cases hf
          rw [if_neg this]; exact hf

theorem recInv_init (records retained : List Nat) : RecInv records retained [] 0 [] :=
  ⟨by simp, by simp, fun f nf h => by simp at h⟩

/-! ## packing -/

/-- `packLeaf` appends one link; the packed list only grows by link-free objects and the target of the
new link holds exactly the bytes handed in -/
theorem packLeaf_spec (packed : List Obj) (bytes : List Nat) (pos : Nat) (links : List Link)
    (pk : List Obj) (ls : List Link) (h : packLeaf packed bytes pos links = .ok (pk, ls)) :
    ∃ i extra, ls = links ++ [⟨pos, 4, i⟩] ∧ pk = packed ++ extra ∧ (∀ o ∈ extra, o.links = []) ∧
      pk[i]? = some ⟨bytes, []⟩ ∧ bytes ≠ [] := by
  unfold packLeaf at h
  rcases popPack_spec packed ⟨bytes, []⟩ with ⟨_, hp⟩ | ⟨hne, i, hi, hget, hp⟩ | ⟨hne, hp⟩
  · rw [hp] at h; cases h
  · rw [hp] at h
    simp only [pure, Except.pure] at h
    cases h
    exact ⟨i, [], rfl, by simp, by simp, hget, hne⟩
  · rw [hp] at h
    simp only [pure, Except.pure] at h
    cases h
    refine ⟨packed.length, [⟨bytes, []⟩], rfl, rfl, by simp, by simp, hne⟩

/-- property of the links `subset_v1` adds -/
def V1Links (typesPos : Nat) (pk : List Obj) (ls : List Link) : Prop :=
  ∀ l ∈ ls, typesPos ≤ l.pos ∧ l.pos + 4 ≤ typesPos + 12 ∧ l.width = 4 ∧ l.target < pk.length

theorem bind_ok {α β} {x : R α} {f : α → R β} {r : β} (h : (x >>= f) = .ok r) :
    ∃ a, x = .ok a ∧ f a = .ok r := by
  cases x with
  | error e => cases h
  | ok a => exact ⟨a, rfl, h⟩

theorem optLeaf_spec (present : Bool) (src : Option (List Nat)) (f : List Nat → List Nat) (pos : Nat)
    (packed : List Obj) (links : List Link) (pk : List Obj) (ls : List Link)
    (h : optLeaf present src f pos packed links = .ok (pk, ls)) :
    ∃ extra ls', pk = packed ++ extra ∧ (∀ o ∈ extra, o.links = []) ∧ ls = links ++ ls' ∧
      ∀ l ∈ ls', l.pos = pos ∧ l.width = 4 ∧ l.target < pk.length := by
  unfold optLeaf at h
  cases present with
  | true =>
    simp only [if_true] at h
    cases src with
    | none => cases h
    | some s =>
      obtain ⟨i, extra, hls, hpk, hnl, hget, _⟩ := packLeaf_spec _ _ _ _ _ _ h
      refine ⟨extra, [⟨pos, 4, i⟩], hpk, hnl, hls, ?_⟩
      intro l hl
      simp only [List.mem_singleton] at hl
      subst hl
      refine ⟨rfl, rfl, ?_⟩
      by_cases hi : i < pk.length
      · exact hi
      · rw [List.getElem?_eq_none (by omega)] at hget; cases hget
  | false =>
    simp only [Bool.false_eq_true, if_false, pure, Except.pure] at h
    cases h
    exact ⟨[], [], by simp, by simp, by simp, by simp⟩

theorem subsetV1_spec (b : List Nat) (h : Header) (palettes : List (Nat × Nat)) (typesPos : Nat)
    (packed : List Obj) (links : List Link) (pk : List Obj) (ls : List Link)
    (hok : subsetV1 b h palettes typesPos packed links = .ok (pk, ls)) :
    ∃ extra ls', pk = packed ++ extra ∧ (∀ o ∈ extra, o.links = []) ∧ ls = links ++ ls' ∧
      V1Links typesPos pk ls' := by
  unfold subsetV1 at hok
  cases hp : h.v1Pos with
  | none => rw [hp] at hok; cases hok
  | some p =>
  rw [hp] at hok
  simp only [] at hok
  cases h1 : rd32 b p with
  | none => rw [h1] at hok; cases hok
  | some typesOff =>
  cases h2 : rd32 b (p + 4) with
  | none => rw [h1, h2] at hok; cases hok
  | some labelsOff =>
  cases h3 : rd32 b (p + 8) with
  | none => rw [h1, h2, h3] at hok; cases hok
  | some entryLabelsOff =>
  rw [h1, h2, h3] at hok
  simp only [] at hok
  obtain ⟨⟨pk1, ls1⟩, hs1, hok⟩ := bind_ok hok
  obtain ⟨⟨pk2, ls2⟩, hs2, hok⟩ := bind_ok hok
  obtain ⟨e1, l1, hpk1, hn1, hls1, hl1⟩ := optLeaf_spec _ _ _ _ _ _ _ _ hs1
  obtain ⟨e2, l2, hpk2, hn2, hls2, hl2⟩ := optLeaf_spec _ _ _ _ _ _ _ _ hs2
  obtain ⟨e3, l3, hpk3, hn3, hls3, hl3⟩ := optLeaf_spec _ _ _ _ _ _ _ _ hok
  simp only [] at hpk2 hls2 hpk3 hls3
  refine ⟨e1 ++ e2 ++ e3, l1 ++ l2 ++ l3, ?_, ?_, ?_, ?_⟩
  · rw [hpk3, hpk2, hpk1]; simp
  · intro o ho
    simp only [List.mem_append] at ho
    rcases ho with (ho | ho) | ho
    · exact hn1 o ho
    · exact hn2 o ho
    · exact hn3 o ho
  · rw [hls3, hls2, hls1]; simp
  · intro l hl
    have len1 : pk1.length ≤ pk.length := by rw [hpk3, hpk2]; simp
    have len2 : pk2.length ≤ pk.length := by rw [hpk3]; simp
    simp only [List.mem_append] at hl
    rcases hl with (hl | hl) | hl
    · obtain ⟨a, b', c⟩ := hl1 l hl
      exact ⟨by omega, by omega, b', by omega⟩
    · obtain ⟨a, b', c⟩ := hl2 l hl
      exact ⟨by omega, by omega, b', by omega⟩
    · obtain ⟨a, b', c⟩ := hl3 l hl
      exact ⟨by omega, by omega, b', c⟩

end FontVerif.SubsetCpal
