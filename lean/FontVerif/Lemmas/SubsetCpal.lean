/-
Lemmas about the CPAL subsetter model (`Model/SubsetCpal.lean`).
-/
import FontVerif.Lemmas.SubsetColrSer
import FontVerif.Model.SubsetCpal
namespace FontVerif.SubsetCpal
open FontVerif FontVerif.ColrSer
open FontVerif.SubsetHvar (Err R)

/-! ## the colour record loop -/

theorem recordsOf_spec (records : List Nat) (first : Nat) :
    ∀ (es : List Nat) (bs : List Nat), recordsOf records first es = .ok bs →
      bs.length = 4 * es.length ∧
      ∀ j (hj : j < es.length), slice bs (4 * j) 4 = slice records (4 * (first + es[j])) 4
  | [], bs, h => by
    simp only [recordsOf, pure, Except.pure] at h
    cases h
    exact ⟨rfl, fun j hj => absurd hj (by simp)⟩
  | e :: es, bs, h => by
    simp only [recordsOf] at h
    cases hs : slice records (4 * (first + e)) 4 with
    | none => rw [hs] at h; cases h
    | some r =>
      rw [hs] at h
      cases hr : recordsOf records first es with
      | error err => rw [hr] at h; cases h
      | ok rest =>
        rw [hr] at h
        simp only [bind, Except.bind, pure, Except.pure] at h
        cases h
        obtain ⟨hl, hrest⟩ := recordsOf_spec records first es rest hr
        have hrl : r.length = 4 := slice_length hs
        refine ⟨by simp [hl, hrl]; omega, ?_⟩
        intro j hj
        cases j with
        | zero =>
          simp only [Nat.mul_zero, List.getElem_cons_zero]
          rw [hs, ← hrl]
          exact slice_prefix
        | succ j =>
          simp only [List.getElem_cons_succ]
          have := hrest j (by simpa using hj)
          rw [← this, show 4 * (j + 1) = 4 + 4 * j by omega]
          exact slice_append_right' hrl

/-- what the loop has established so far: every mapped first index owns a block of `n` records in the
output that are the source records `first + e` -/
structure RecInv (records retained : List Nat) (map : List (Nat × Nat)) (newIdx : Nat) (out : List Nat) : Prop where
  idx : newIdx = map.length * retained.length
  len : out.length = 4 * newIdx
  blocks : ∀ f nf, map.lookup f = some nf → ∃ k, k < map.length ∧ nf = (k * retained.length) % 65536 ∧
    ∀ j (hj : j < retained.length),
      slice out (4 * (k * retained.length + j)) 4 = slice records (4 * (f + retained[j])) 4

theorem lookup_append_of_none {β} (m : List (Nat × β)) (k k' : Nat) (v : β)
    (h : m.lookup k' = none) :
    (m ++ [(k', v)]).lookup k = if k = k' then some v else m.lookup k := by
  induction m with
  | nil =>
    by_cases hk : k = k'
    · subst hk; simp [List.lookup]
    · have : (k == k') = false := by simpa using hk
      simp [List.lookup, this, hk]
  | cons hd tl ih =>
    obtain ⟨a, b⟩ := hd
    simp only [List.cons_append, List.lookup_cons] at h ⊢
    by_cases hka : k' == a
    · rw [hka] at h; cases h
    · have hka' : (k' == a) = false := by simpa using hka
      rw [hka'] at h
      by_cases hk : k == a
      · rw [hk]
        have : k ≠ k' := by
          intro e; subst e; rw [hk] at hka'; cases hka'
        simp [this]
      · have hk' : (k == a) = false := by simpa using hk
        rw [hk', ih h]

theorem recordsGo_spec (records retained : List Nat) (hN : retained.length < 65536) :
    ∀ (inds : List Nat) (map : List (Nat × Nat)) (newIdx : Nat) (out : List Nat)
      (map' : List (Nat × Nat)) (out' : List Nat),
      RecInv records retained map newIdx out →
      recordsGo records retained inds map newIdx out = .ok (map', out') →
      RecInv records retained map' (map'.length * retained.length) out' ∧
      (∀ f ∈ inds, (map'.lookup f).isSome) ∧
      (∀ f nf, map.lookup f = some nf → map'.lookup f = some nf)
  | [], map, newIdx, out, map', out', inv, h => by
    simp only [recordsGo, pure, Except.pure] at h
    cases h
    refine ⟨?_, by simp, fun _ _ h => h⟩
    rw [← inv.idx]; exact inv
  | first :: rest, map, newIdx, out, map', out', inv, h => by
    simp only [recordsGo] at h
    by_cases hl : (map.lookup first).isSome
    · rw [if_pos hl] at h
      obtain ⟨i1, i2, i3⟩ := recordsGo_spec records retained hN rest map newIdx out map' out' inv h
      refine ⟨i1, ?_, i3⟩
      intro f hf
      cases hf with
      | head =>
        obtain ⟨nf, hnf⟩ := Option.isSome_iff_exists.mp hl
        rw [i3 _ _ hnf]; rfl
      | tail _ hf => exact i2 f hf
    · rw [if_neg hl] at h
      have hnone : map.lookup first = none := by
        cases hm : map.lookup first with
        | none => rfl
        | some v => rw [hm] at hl; simp at hl
      cases hr : recordsOf records first retained with
      | error e => rw [hr] at h; cases h
      | ok recs =>
        rw [hr] at h
        simp only [bind, Except.bind] at h
        obtain ⟨hrl, hrecs⟩ := recordsOf_spec records first retained recs hr
        have hmod : retained.length % 65536 = retained.length := Nat.mod_eq_of_lt hN
        rw [hmod] at h
        have inv' : RecInv records retained (map ++ [(first, newIdx % 65536)]) (newIdx + retained.length)
            (out ++ recs) := by
          refine ⟨?_, ?_, ?_⟩
          · rw [inv.idx]; simp [Nat.succ_mul]
          · simp [inv.len, hrl]; omega
          · intro f nf hf
            rw [lookup_append_of_none map f first _ hnone] at hf
            by_cases hff : f = first
            · rw [if_pos hff] at hf
              cases hf
              refine ⟨map.length, by simp, by rw [inv.idx], ?_⟩
              intro j hj
              have hol : out.length = 4 * (map.length * retained.length) := by rw [inv.len, inv.idx]
              rw [show 4 * (map.length * retained.length + j) = out.length + 4 * j by omega]
              rw [slice_append_right, hrecs j hj, hff]
            · rw [if_neg hff] at hf
              obtain ⟨k, hk, hnf, hb⟩ := inv.blocks f nf hf
              refine ⟨k, by simp; omega, hnf, ?_⟩
              intro j hj
              rw [← hb j hj]
              apply slice_append_left
              rw [inv.len, inv.idx]
              have : (k + 1) * retained.length ≤ map.length * retained.length :=
                Nat.mul_le_mul_right _ hk
              rw [Nat.succ_mul] at this
              omega
        obtain ⟨i1, i2, i3⟩ := recordsGo_spec records retained hN rest _ _ _ map' out' inv' h
        refine ⟨i1, ?_, ?_⟩
        · intro f hf
          cases hf with
          | head =>
            have : (map ++ [(first, newIdx % 65536)]).lookup first = some (newIdx % 65536) := by
              rw [lookup_append_of_none map first first _ hnone]; simp
            rw [i3 _ _ this]; rfl
          | tail _ hf => exact i2 f hf
        · intro f nf hf
          apply i3
          rw [lookup_append_of_none map f first _ hnone]
          have : f ≠ first := by
            intro e; subst e; rw [hnone] at hf; cases hf
          rw [if_neg this]; exact hf

theorem recInv_init (records retained : List Nat) : RecInv records retained [] 0 [] :=
  ⟨by simp, by simp, fun f nf h => by simp at h⟩

/-! ## packing -/

/-- `packLeaf` appends one link; the packed list only grows by link-free objects and the target of the
new link holds exactly the bytes handed in -/
theorem packLeaf_spec (packed : List Obj) (bytes : List Nat) (pos : Nat) (links : List Link)
    (pk : List Obj) (ls : List Link) (h : packLeaf packed bytes pos links = .ok (pk, ls)) :
    ∃ i extra, ls = links ++ [⟨pos, 4, i⟩] ∧ pk = packed ++ extra ∧ (∀ o ∈ extra, o.links = []) ∧
      pk[i]? = some ⟨bytes, []⟩ ∧ bytes ≠ [] := by
  unfold packLeaf at h
  rcases popPack_spec packed ⟨bytes, []⟩ with ⟨_, hp⟩ | ⟨hne, i, hi, hget, hp⟩ | ⟨hne, hp⟩
  · rw [hp] at h; cases h
  · rw [hp] at h
    simp only [pure, Except.pure] at h
    cases h
    exact ⟨i, [], rfl, by simp, by simp, hget, hne⟩
  · rw [hp] at h
    simp only [pure, Except.pure] at h
    cases h
    refine ⟨packed.length, [⟨bytes, []⟩], rfl, rfl, by simp, by simp, hne⟩

/-- property of the links `subset_v1` adds -/
def V1Links (typesPos : Nat) (pk : List Obj) (ls : List Link) : Prop :=
  ∀ l ∈ ls, typesPos ≤ l.pos ∧ l.pos + 4 ≤ typesPos + 12 ∧ l.width = 4 ∧ l.target < pk.length

theorem bind_ok {α β} {x : R α} {f : α → R β} {r : β} (h : (x >>= f) = .ok r) :
    ∃ a, x = .ok a ∧ f a = .ok r := by
  cases x with
  | error e => cases h
  | ok a => exact ⟨a, rfl, h⟩

theorem optLeaf_spec (present : Bool) (src : Option (List Nat)) (f : List Nat → List Nat) (pos : Nat)
    (packed : List Obj) (links : List Link) (pk : List Obj) (ls : List Link)
    (h : optLeaf present src f pos packed links = .ok (pk, ls)) :
    ∃ extra ls', pk = packed ++ extra ∧ (∀ o ∈ extra, o.links = []) ∧ ls = links ++ ls' ∧
      ∀ l ∈ ls', l.pos = pos ∧ l.width = 4 ∧ l.target < pk.length := by
  unfold optLeaf at h
  cases present with
  | true =>
    simp only [if_true] at h
    cases src with
    | none => cases h
    | some s =>
      obtain ⟨i, extra, hls, hpk, hnl, hget, _⟩ := packLeaf_spec _ _ _ _ _ _ h
      refine ⟨extra, [⟨pos, 4, i⟩], hpk, hnl, hls, ?_⟩
      intro l hl
      simp only [List.mem_singleton] at hl
      subst hl
      refine ⟨rfl, rfl, ?_⟩
      by_cases hi : i < pk.length
      · exact hi
      · rw [List.getElem?_eq_none (by omega)] at hget; cases hget
  | false =>
    simp only [Bool.false_eq_true, if_false, pure, Except.pure] at h
    cases h
    exact ⟨[], [], by simp, by simp, by simp, by simp⟩

theorem subsetV1_spec (b : List Nat) (h : Header) (palettes : List (Nat × Nat)) (typesPos : Nat)
    (packed : List Obj) (links : List Link) (pk : List Obj) (ls : List Link)
    (hok : subsetV1 b h palettes typesPos packed links = .ok (pk, ls)) :
    ∃ extra ls', pk = packed ++ extra ∧ (∀ o ∈ extra, o.links = []) ∧ ls = links ++ ls' ∧
      V1Links typesPos pk ls' := by
  unfold subsetV1 at hok
  cases hp : h.v1Pos with
  | none => rw [hp] at hok; cases hok
  | some p =>
  rw [hp] at hok
  simp only [] at hok
  cases h1 : rd32 b p with
  | none => rw [h1] at hok; cases hok
  | some typesOff =>
  cases h2 : rd32 b (p + 4) with
  | none => rw [h1, h2] at hok; cases hok
  | some labelsOff =>
  cases h3 : rd32 b (p + 8) with
  | none => rw [h1, h2, h3] at hok; cases hok
  | some entryLabelsOff =>
  rw [h1, h2, h3] at hok
  simp only [] at hok
  obtain ⟨⟨pk1, ls1⟩, hs1, hok⟩ := bind_ok hok
  obtain ⟨⟨pk2, ls2⟩, hs2, hok⟩ := bind_ok hok
  obtain ⟨e1, l1, hpk1, hn1, hls1, hl1⟩ := optLeaf_spec _ _ _ _ _ _ _ _ hs1
  obtain ⟨e2, l2, hpk2, hn2, hls2, hl2⟩ := optLeaf_spec _ _ _ _ _ _ _ _ hs2
  obtain ⟨e3, l3, hpk3, hn3, hls3, hl3⟩ := optLeaf_spec _ _ _ _ _ _ _ _ hok
  simp only [] at hpk2 hls2 hpk3 hls3
  refine ⟨e1 ++ e2 ++ e3, l1 ++ l2 ++ l3, ?_, ?_, ?_, ?_⟩
  · rw [hpk3, hpk2, hpk1]; simp
  · intro o ho
    simp only [List.mem_append] at ho
    rcases ho with (ho | ho) | ho
    · exact hn1 o ho
    · exact hn2 o ho
    · exact hn3 o ho
  · rw [hls3, hls2, hls1]; simp
  · intro l hl
    have len1 : pk1.length ≤ pk.length := by rw [hpk3, hpk2]; simp
    have len2 : pk2.length ≤ pk.length := by rw [hpk3]; simp
    simp only [List.mem_append] at hl
    rcases hl with (hl | hl) | hl
    · obtain ⟨a, b', c⟩ := hl1 l hl
      exact ⟨by omega, by omega, b', by omega⟩
    · obtain ⟨a, b', c⟩ := hl2 l hl
      exact ⟨by omega, by omega, b', by omega⟩
    · obtain ⟨a, b', c⟩ := hl3 l hl
      exact ⟨by omega, by omega, b', c⟩

/-! ## the objects `Cpal::subset` builds -/

/-- everything the theorems need to know about a successful run of `cpalObjects` -/
structure Shape (b : List Nat) (palettes : List (Nat × Nat)) (packed : List Obj) (root : Obj) where
  hd : Header
  records : List Nat
  map : List (Nat × Nat)
  recBytes : List Nat
  more : List Obj
  ext : List Nat
  ls : List Link
  hhd : readHeader b = some hd
  hoff : hd.recordsOffset ≠ 0
  hrec : slice b hd.recordsOffset (4 * hd.numColorRecords) = some records
  hgo : recordsGo records (retainedOf palettes) hd.indices [] 0 [] = .ok (map, recBytes)
  hfit : map.length * ((retainedOf palettes).length % 65536) < 65536
  hret : retainedOf palettes ≠ []
  hpal : hd.numPalettes ≠ 0
  hne : recBytes ≠ []
  hpacked : packed = ⟨recBytes, []⟩ :: more
  hmore : ∀ o ∈ more, o.links = []
  hbytes : root.bytes = v0Bytes hd.version ((retainedOf palettes).length % 65536) hd.numPalettes
      (map.length * ((retainedOf palettes).length % 65536))
      (hd.indices.map fun f => (map.lookup f).getD 0) ++ ext
  hext1 : hd.version = 1 → ext = List.replicate 12 0
  hext0 : hd.version ≠ 1 → ext = [] ∧ ls = []
  hlinks : root.links = ⟨8, 4, 0⟩ :: ls
  hls : V1Links (v0Bytes hd.version ((retainedOf palettes).length % 65536) hd.numPalettes
      (map.length * ((retainedOf palettes).length % 65536))
      (hd.indices.map fun f => (map.lookup f).getD 0)).length packed ls

theorem cpalObjects_shape (b : List Nat) (palettes : List (Nat × Nat)) (packed : List Obj) (root : Obj)
    (h : cpalObjects b palettes = .ok (packed, root)) : Nonempty (Shape b palettes packed root) := by
  unfold cpalObjects at h
  split at h
  · cases h
  rename_i hd hhd
  simp only [] at h
  split at h
  · cases h
  rename_i hne
  split at h
  · cases h
  rename_i hoff
  split at h
  · cases h
  rename_i records hrec
  obtain ⟨⟨map, recBytes⟩, hgo, h⟩ := bind_ok h
  obtain ⟨⟨pk0, ls0⟩, hpl, h⟩ := bind_ok h
  simp only [] at h hpl
  split at h
  · cases h
  rename_i hfit
  obtain ⟨i, extra, hls0, hpk0, hnl0, hget0, hne0⟩ := packLeaf_spec _ _ _ _ _ _ hpl
  -- the first pack goes into the empty list
  have hpk0' : pk0 = [⟨recBytes, []⟩] ∧ i = 0 := by
    unfold packLeaf at hpl
    rcases popPack_spec [] ⟨recBytes, []⟩ with ⟨_, hp⟩ | ⟨_, j, hj, _, _⟩ | ⟨_, hp⟩
    · rw [hp] at hpl; cases hpl
    · simp at hj
    · rw [hp] at hpl
      simp only [pure, Except.pure, List.nil_append, List.length_nil] at hpl
      cases hpl
      simp only [List.nil_append, List.append_cancel_left_eq] at hls0
      injection hls0 with h1 h2
      injection h1 with _ _ h3
      exact ⟨rfl, h3.symm⟩
  obtain ⟨hpk0', hi0⟩ := hpk0'
  subst hi0
  simp only [List.nil_append] at hls0
  have hret : retainedOf palettes ≠ [] := by
    intro e; apply hne; right; right; simp [e]
  have hpal : hd.numPalettes ≠ 0 := by
    intro e; apply hne; right; left; exact e
  split at h
  · -- version ≠ 1: no extension
    rename_i hv
    simp only [pure, Except.pure] at h
    cases h
    exact ⟨{ hd, records, map, recBytes, more := [], ext := [], ls := [], hhd, hoff, hrec, hgo,
             hfit := by omega, hret, hpal, hne := hne0, hpacked := hpk0', hmore := by simp,
             hbytes := by simp, hext1 := fun e => absurd e hv, hext0 := fun _ => ⟨rfl, rfl⟩,
             hlinks := by rw [hls0], hls := by intro l hl; simp at hl }⟩
  · rename_i hv
    have hv1 : hd.version = 1 := by
      by_cases e : hd.version = 1
      · exact e
      · exact absurd e hv
    obtain ⟨⟨pk1, ls1⟩, hs, h⟩ := bind_ok h
    simp only [pure, Except.pure] at h
    cases h
    obtain ⟨extra1, ls', hpk1, hnl1, hls1, hv1l⟩ := subsetV1_spec _ _ _ _ _ _ _ _ hs
    exact ⟨{ hd, records, map, recBytes, more := extra1, ext := List.replicate 12 0, ls := ls', hhd, hoff,
             hrec, hgo, hfit := by omega, hret, hpal, hne := hne0,
             hpacked := by rw [hpk1, hpk0']; rfl, hmore := hnl1,
             hbytes := rfl, hext1 := fun _ => rfl, hext0 := fun e => absurd hv1 e,
             hlinks := by rw [hls1, hls0]; rfl, hls := hv1l }⟩

/-! ## reading the header back -/

theorem rdList16_length (b : List Nat) : ∀ (n p : Nat) (xs : List Nat), rdList16 b p n = some xs → xs.length = n
  | 0, p, xs, h => by simp only [rdList16] at h; cases h; rfl
  | n + 1, p, xs, h => by
    simp only [rdList16] at h
    cases h1 : rd16 b p with
    | none => rw [h1] at h; cases h
    | some v =>
      cases h2 : rdList16 b (p + 2) n with
      | none => rw [h1, h2] at h; cases h
      | some rest =>
        rw [h1, h2] at h
        simp only [Option.bind_eq_bind, Option.bind_some, pure] at h
        cases h
        simp [rdList16_length b n (p + 2) rest h2]

theorem rdList16_congr (X Y : List Nat) : ∀ (n p : Nat),
    (∀ i, i < n → rd16 X (p + 2 * i) = rd16 Y (p + 2 * i)) → rdList16 X p n = rdList16 Y p n
  | 0, p, _ => by simp [rdList16]
  | n + 1, p, h => by
    simp only [rdList16]
    have h0 := h 0 (by omega)
    simp only [Nat.mul_zero, Nat.add_zero] at h0
    rw [h0, rdList16_congr X Y n (p + 2) (fun i hi => by
      have := h (i + 1) (by omega)
      rw [show p + 2 * (i + 1) = p + 2 + 2 * i by omega] at this
      exact this)]

theorem rdList16_flatMap : ∀ (xs pre post : List Nat), (∀ x ∈ xs, x < 65536) →
    rdList16 (pre ++ (xs.flatMap (beBytes 2) ++ post)) pre.length xs.length = some xs
  | [], pre, post, _ => by simp [rdList16]
  | x :: xs, pre, post, h => by
    simp only [List.flatMap_cons, List.length_cons, rdList16, List.append_assoc]
    have h1 : rd16 (pre ++ (beBytes 2 x ++ (xs.flatMap (beBytes 2) ++ post))) pre.length = some x := by
      have := @rdN_append_right 2 pre (beBytes 2 x ++ (xs.flatMap (beBytes 2) ++ post)) 0
      simp only [Nat.add_zero] at this
      unfold rd16
      rw [this]
      exact rdN_beBytes (by have := h x (by simp); omega)
    rw [h1]
    have h2 := rdList16_flatMap xs (pre ++ beBytes 2 x) post (fun y hy => h y (by simp [hy]))
    simp only [List.length_append, beBytes_length, List.append_assoc] at h2
    rw [h2]
    rfl

/-- the values stored in `first_record_idx_map` are u16 -/
theorem map_values_lt (records retained : List Nat) (map : List (Nat × Nat)) (newIdx : Nat) (out : List Nat)
    (inv : RecInv records retained map newIdx out) (f : Nat) : (map.lookup f).getD 0 < 65536 := by
  cases h : map.lookup f with
  | none => simp
  | some nf =>
    obtain ⟨k, _, hnf, _⟩ := inv.blocks f nf h
    simp only [Option.getD_some]
    rw [hnf]
    exact Nat.mod_lt _ (by omega)

/-! ## the laid-out table -/

theorem flatMap_bytes_length (os : List Obj) : (os.flatMap (·.bytes)).length = (os.map Obj.size).sum := by
  induction os with
  | nil => simp
  | cons o os ih => simp [List.flatMap_cons, ih, Obj.size]

theorem sum_map_reverse (os : List Obj) : (os.reverse.map Obj.size).sum = (os.map Obj.size).sum := by
  induction os with
  | nil => simp
  | cons o os ih => simp [List.sum_append, ih]; omega

theorem v0Bytes_length (ver n p c : Nat) (idx : List Nat) :
    (v0Bytes ver n p c idx).length = 12 + 2 * idx.length := by
  unfold v0Bytes
  simp only [List.length_append, beBytes_length, List.length_cons, List.length_nil]
  have : (idx.flatMap (beBytes 2)).length = 2 * idx.length := by
    induction idx with
    | nil => simp
    | cons x xs ih => simp [List.flatMap_cons, beBytes_length, ih]; omega
  omega

/-- the root object after link resolution and what follows it -/
theorem layout_shape (b : List Nat) (palettes : List (Nat × Nat)) (packed : List Obj) (root : Obj)
    (out : List Nat) (sh : Shape b palettes packed root) (hout : layout packed root = .ok out) :
    ∃ B mid, out = B ++ (mid ++ sh.recBytes) ∧ B.length = root.bytes.length ∧
      (∀ w p, p + w ≤ 8 → rdN w B p = rdN w root.bytes p) ∧
      rdN 4 B 8 = some (B.length + mid.length) ∧
      (∀ w p, 12 ≤ p → p + w ≤ 12 + 2 * sh.hd.indices.length → rdN w B p = rdN w root.bytes p) := by
  obtain ⟨hd, records, map, recBytes, more, ext, ls, hhd, hoff, hrec, hgo, hfit, hret, hpal, hne, hpacked,
    hmore, hbytes, hext1, hext0, hlinks, hls'⟩ := sh
  simp only []
  unfold layout at hout
  split at hout
  · cases hout
  rename_i hov
  simp only [pure, Except.pure] at hout
  cases hout
  have hnl : ∀ o ∈ packed, o.links = [] := by
    intro o ho
    rw [hpacked] at ho
    cases ho with
    | head => rfl
    | tail _ ho => exact hmore o ho
  have hbody : bodyUpTo packed packed.length = more.reverse.flatMap (·.bytes) ++ recBytes := by
    rw [bodyUpTo_nolinks _ hnl _ (Nat.le_refl _), List.take_length, hpacked]
    simp [List.flatMap_append]
  refine ⟨patchRoot packed root, more.reverse.flatMap (·.bytes), by rw [hbody], ?_⟩
  -- the offset of the record array
  have hoff0 : rootOff root.bytes.length packed 0 = root.bytes.length + (more.reverse.flatMap (·.bytes)).length := by
    unfold rootOff
    rw [hpacked, flatMap_bytes_length, sum_map_reverse]
    simp
  have hsmall : rootOff root.bytes.length packed 0 < 256 ^ 4 := by
    simp only [linkOverflow, Bool.or_eq_true, not_or] at hov
    have h1 := hov.1
    rw [hlinks] at h1
    simp only [List.any_cons, Bool.or_eq_true, not_or, decide_eq_true_eq] at h1
    omega
  -- the length of the root object
  have hv0 := v0Bytes_length hd.version ((retainedOf palettes).length % 65536) hd.numPalettes
    (map.length * ((retainedOf palettes).length % 65536))
    (hd.indices.map fun f => (map.lookup f).getD 0)
  simp only [List.length_map] at hv0
  have hrl : root.bytes.length = 12 + 2 * hd.indices.length + ext.length := by
    rw [hbytes, List.length_append, hv0]
  -- the links behind the first one
  have hls : ∀ l ∈ ls, 12 + 2 * hd.indices.length ≤ l.pos ∧
      l.pos + l.width ≤ (writeBE root.bytes 8 4 (rootOff root.bytes.length packed 0)).length := by
    intro l hl
    rw [writeBE_length (by omega)]
    by_cases hv : hd.version = 1
    · have he := hext1 hv
      obtain ⟨a, b', c, _⟩ := hls' l hl
      rw [hv0] at a b'
      rw [hrl, he, c]
      simp only [List.length_replicate]
      omega
    · have := (hext0 hv).2
      rw [this] at hl
      cases hl
  have hpatch : patchRoot packed root =
      ls.foldl (fun b l => writeBE b l.pos l.width (rootOff root.bytes.length packed l.target))
        (writeBE root.bytes 8 4 (rootOff root.bytes.length packed 0)) := by
    unfold patchRoot
    rw [hlinks]
    rfl
  obtain ⟨hlen, hrd⟩ := foldl_writeBE_before (fun l => rootOff root.bytes.length packed l.target)
    (12 + 2 * hd.indices.length) ls _ hls
  rw [← hpatch] at hlen hrd
  have hlen' : (patchRoot packed root).length = root.bytes.length := by
    rw [hlen, writeBE_length (by omega)]
  refine ⟨hlen', ?_, ?_, ?_⟩
  · intro w p hp
    rw [hrd w p (by omega)]
    exact rdN_writeBE_before (by omega) (by omega)
  · rw [hrd 4 8 (by omega), hlen', ← hoff0]
    exact rdN_writeBE_same (by omega) hsmall
  · intro w p hp1 hp2
    rw [hrd w p hp2]
    exact rdN_writeBE_after (by omega) (by omega)

/-! ## the header of the subset -/

theorem readHeader_fields (b : List Nat) (hd : Header) (h : readHeader b = some hd) :
    rd16 b 0 = some hd.version ∧ rd16 b 2 = some hd.numEntries ∧ rd16 b 4 = some hd.numPalettes ∧
    rd16 b 6 = some hd.numColorRecords ∧ rd32 b 8 = some hd.recordsOffset ∧
    rdList16 b 12 hd.numPalettes = some hd.indices := by
  unfold readHeader at h
  split at h
  · rename_i version numEntries numPalettes numColorRecords recordsOffset h0 h2 h4 h6 h8
    split at h
    · rename_i indices hl
      simp only [] at h
      split at h
      · split at h
        · simp only [Option.some.injEq] at h
          subst h
          exact ⟨h0, h2, h4, h6, h8, hl⟩
        · cases h
      · simp only [Option.some.injEq] at h
        subst h
        exact ⟨h0, h2, h4, h6, h8, hl⟩
    · cases h
  · cases h

/-- reading a 16-bit field at an even position among the first four fields of `v0Bytes … ++ ext` -/
theorem v0Bytes_fields (ver n p c : Nat) (idx ext : List Nat)
    (hv : ver < 65536) (hn : n < 65536) (hp : p < 65536) (hc : c < 65536) (hi : ∀ x ∈ idx, x < 65536) :
    let X := v0Bytes ver n p c idx ++ ext
    rd16 X 0 = some ver ∧ rd16 X 2 = some n ∧ rd16 X 4 = some p ∧ rd16 X 6 = some c ∧
    rdList16 X 12 idx.length = some idx := by
  simp only [v0Bytes, List.append_assoc]
  have e2 : ∀ v, (beBytes 2 v).length = 2 := fun v => beBytes_length 2 v
  refine ⟨?_, ?_, ?_, ?_, ?_⟩
  · exact rdN_beBytes (by omega)
  · unfold rd16
    rw [show (2 : Nat) = 2 + 0 by rfl, rdN_append_right' (e2 ver)]
    exact rdN_beBytes (by omega)
  · unfold rd16
    rw [show (4 : Nat) = 2 + (2 + 0) by rfl, rdN_append_right' (e2 ver), rdN_append_right' (e2 n)]
    exact rdN_beBytes (by omega)
  · unfold rd16
    rw [show (6 : Nat) = 2 + (2 + (2 + 0)) by rfl, rdN_append_right' (e2 ver), rdN_append_right' (e2 n),
      rdN_append_right' (e2 p)]
    exact rdN_beBytes (by omega)
  · have := rdList16_flatMap idx (beBytes 2 ver ++ (beBytes 2 n ++ (beBytes 2 p ++ (beBytes 2 c ++ [0, 0, 0, 0]))))
      ext hi
    simp only [List.length_append, beBytes_length, List.length_cons, List.length_nil, List.append_assoc] at this
    exact this

/-! ## colours are preserved -/

/-- the header of the subset table and where its colour records are -/
theorem subset_header (b : List Nat) (palettes : List (Nat × Nat)) (packed : List Obj) (root : Obj)
    (out : List Nat) (hb : ∀ x ∈ b, x < 256) (hN : (retainedOf palettes).length < 65536)
    (sh : Shape b palettes packed root) (hv : sh.hd.version ≤ 1)
    (hout : layout packed root = .ok out) :
    ∃ hd' pre, readHeader out = some hd' ∧ hd'.version = sh.hd.version ∧
      hd'.numEntries = (retainedOf palettes).length ∧ hd'.numPalettes = sh.hd.numPalettes ∧
      hd'.numColorRecords = sh.map.length * (retainedOf palettes).length ∧
      hd'.indices = sh.hd.indices.map (fun f => (sh.map.lookup f).getD 0) ∧
      hd'.recordsOffset = pre.length ∧ 12 ≤ pre.length ∧ out = pre ++ sh.recBytes := by
  obtain ⟨B, mid, hout', hBl, hlow, hoff, hmidr⟩ := layout_shape b palettes packed root out sh hout
  obtain ⟨hd, records, map, recBytes, more, ext, ls, hhd, hoffne, hrec, hgo, hfit, hret, hpal, hne, hpacked,
    hmore, hbytes, hext1, hext0, hlinks, hls'⟩ := sh
  simp only [] at hv hlow hoff hmidr hout' ⊢
  have hmod : (retainedOf palettes).length % 65536 = (retainedOf palettes).length := Nat.mod_eq_of_lt hN
  rw [hmod] at hbytes hfit
  obtain ⟨f0, f2, f4, f6, f8, fl⟩ := readHeader_fields b hd hhd
  have hil : hd.indices.length = hd.numPalettes := rdList16_length b _ _ _ fl
  obtain ⟨inv, hall, _⟩ := recordsGo_spec records (retainedOf palettes) hN hd.indices [] 0 [] map recBytes
    (recInv_init _ _) hgo
  -- the fields of the root object before patching
  have hX := v0Bytes_fields hd.version (retainedOf palettes).length hd.numPalettes
    (map.length * (retainedOf palettes).length) (hd.indices.map fun f => (map.lookup f).getD 0) ext
    (by have := rdN_lt hb f0; omega) hN (by have := rdN_lt hb f4; omega) hfit
    (by
      intro x hx
      obtain ⟨f, _, rfl⟩ := List.mem_map.mp hx
      exact map_values_lt _ _ _ _ _ inv f)
  simp only [List.length_map] at hX
  rw [← hbytes] at hX
  obtain ⟨x0, x2, x4, x6, xl⟩ := hX
  have hrl : root.bytes.length = 12 + 2 * hd.indices.length + ext.length := by
    rw [hbytes, List.length_append, v0Bytes_length]; simp
  -- reads of the whole table go into the root object
  have rdB : ∀ w p, p + w ≤ B.length → rdN w out p = rdN w B p := by
    intro w p hp; rw [hout']; exact rdN_append_left hp
  have o0 : rd16 out 0 = some hd.version := by
    unfold rd16; rw [rdB 2 0 (by omega), hlow 2 0 (by omega)]; exact x0
  have o2 : rd16 out 2 = some (retainedOf palettes).length := by
    unfold rd16; rw [rdB 2 2 (by omega), hlow 2 2 (by omega)]; exact x2
  have o4 : rd16 out 4 = some hd.numPalettes := by
    unfold rd16; rw [rdB 2 4 (by omega), hlow 2 4 (by omega)]; exact x4
  have o6 : rd16 out 6 = some (map.length * (retainedOf palettes).length) := by
    unfold rd16; rw [rdB 2 6 (by omega), hlow 2 6 (by omega)]; exact x6
  have o8 : rd32 out 8 = some (B.length + mid.length) := by
    unfold rd32; rw [rdB 4 8 (by omega)]; exact hoff
  have ol : rdList16 out 12 hd.numPalettes = some (hd.indices.map fun f => (map.lookup f).getD 0) := by
    rw [← hil, ← xl]
    apply rdList16_congr
    intro i hi
    unfold rd16
    rw [rdB 2 _ (by omega), hmidr 2 _ (by omega) (by omega)]
  have hpre : 12 ≤ (B ++ mid).length := by rw [List.length_append, hBl, hrl]; omega
  by_cases hge : hd.version ≥ 1
  · have hv1 : hd.version = 1 := by omega
    have he := hext1 hv1
    have hlen12 : 12 + 2 * hd.numPalettes + 12 ≤ out.length := by
      rw [hout', List.length_append, hBl, hrl, he, List.length_replicate, hil]; omega
    refine ⟨{ version := hd.version, numEntries := (retainedOf palettes).length, numPalettes := hd.numPalettes,
              numColorRecords := map.length * (retainedOf palettes).length,
              recordsOffset := B.length + mid.length,
              indices := hd.indices.map fun f => (map.lookup f).getD 0,
              v1Pos := some (12 + 2 * hd.numPalettes) }, B ++ mid, ?_, rfl, rfl, rfl, rfl, rfl,
            by simp, hpre, by rw [hout']; simp⟩
    unfold readHeader
    rw [o0, o2, o4, o6, o8]
    simp only [ol]
    rw [if_pos hge, if_pos hlen12]
  · refine ⟨{ version := hd.version, numEntries := (retainedOf palettes).length, numPalettes := hd.numPalettes,
              numColorRecords := map.length * (retainedOf palettes).length,
              recordsOffset := B.length + mid.length,
              indices := hd.indices.map fun f => (map.lookup f).getD 0,
              v1Pos := none }, B ++ mid, ?_, rfl, rfl, rfl, rfl, rfl,
            by simp, hpre, by rw [hout']; simp⟩
    unfold readHeader
    rw [o0, o2, o4, o6, o8]
    simp only [ol]
    rw [if_neg hge]

theorem subsetCpal_objects (b : List Nat) (palettes : List (Nat × Nat)) (out : List Nat)
    (hok : subsetCpal b palettes = .ok out) :
    ∃ packed root, cpalObjects b palettes = .ok (packed, root) ∧ layout packed root = .ok out := by
  unfold subsetCpal at hok
  obtain ⟨⟨packed, root⟩, h1, h2⟩ := bind_ok hok
  exact ⟨packed, root, h1, h2⟩

/-- entry `j` of the subset (the j-th retained entry `e`) has the colour of entry `e` of the source, in
every palette -/
theorem subset_color (b out : List Nat) (palettes : List (Nat × Nat)) (hb : ∀ x ∈ b, x < 256)
    (hN : (retainedOf palettes).length < 65536)
    (hok : subsetCpal b palettes = .ok out) (hd : Header) (hhd : readHeader b = some hd) (hv : hd.version ≤ 1)
    (p j e : Nat) (hp : p < hd.numPalettes) (hj : (retainedOf palettes)[j]? = some e) (he : e < hd.numEntries) :
    color out p j = color b p e := by
  obtain ⟨packed, root, hobj, hlay⟩ := subsetCpal_objects b palettes out hok
  obtain ⟨sh⟩ := cpalObjects_shape b palettes packed root hobj
  have hsame : sh.hd = hd := by
    have := sh.hhd; rw [hhd] at this; cases this; rfl
  obtain ⟨hd', pre, hrd, _, hne', hnp', hnc', hidx', hoff', hpre, hout⟩ :=
    subset_header b palettes packed root out hb hN sh (by rw [hsame]; exact hv) hlay
  obtain ⟨hd0, records, map, recBytes, more, ext, ls, hhd0, hoffne, hrec, hgo, hfit, hret, hpal, hne, hpacked,
    hmore, hbytes, hext1, hext0, hlinks, hls'⟩ := sh
  simp only [] at hsame hne' hnp' hnc' hidx' hoff' hout
  subst hsame
  obtain ⟨f0, f2, f4, f6, f8, fl⟩ := readHeader_fields b hd0 hhd0
  have hil : hd0.indices.length = hd0.numPalettes := rdList16_length b _ _ _ fl
  obtain ⟨inv, hall, _⟩ := recordsGo_spec records (retainedOf palettes) hN hd0.indices [] 0 [] map recBytes
    (recInv_init _ _) hgo
  have hjlt : j < (retainedOf palettes).length := by
    by_cases h : j < (retainedOf palettes).length
    · exact h
    · rw [List.getElem?_eq_none (by omega)] at hj; cases hj
  have hje : (retainedOf palettes)[j] = e := by
    rw [List.getElem?_eq_getElem hjlt] at hj; cases hj; rfl
  -- the palette's first index and its image
  have hplt : p < hd0.indices.length := by omega
  obtain ⟨nf, hnf⟩ := Option.isSome_iff_exists.mp (hall _ (List.getElem_mem hplt))
  obtain ⟨k, hk, hnfk, hblock⟩ := inv.blocks _ _ hnf
  have hmod : (retainedOf palettes).length % 65536 = (retainedOf palettes).length := Nat.mod_eq_of_lt hN
  rw [hmod] at hfit
  have hkN : k * (retainedOf palettes).length < 65536 := by
    have : (k + 1) * (retainedOf palettes).length ≤ map.length * (retainedOf palettes).length :=
      Nat.mul_le_mul_right _ hk
    rw [Nat.succ_mul] at this
    omega
  rw [Nat.mod_eq_of_lt hkN] at hnfk
  -- the source side
  have hsrc : color b p e = slice records (4 * (hd0.indices[p] + e)) 4 := by
    unfold color
    rw [hhd0]
    simp only []
    rw [if_neg (by omega), List.getElem?_eq_getElem hplt]
    simp only []
    rw [if_neg hoffne, hrec]
  -- the subset side
  have hdst : color out p j = slice recBytes (4 * (nf + j)) 4 := by
    unfold color
    rw [hrd]
    simp only []
    rw [if_neg (by omega), hidx']
    rw [List.getElem?_map, List.getElem?_eq_getElem hplt]
    simp only [Option.map_some]
    rw [hnf]
    simp only [Option.getD_some]
    rw [if_neg (by omega), hoff', hnc']
    have hlen : recBytes.length = 4 * (map.length * (retainedOf palettes).length) := inv.len
    have : slice out pre.length (4 * (map.length * (retainedOf palettes).length)) = some recBytes := by
      rw [hout, ← hlen]
      have := @slice_append_right pre recBytes 0 recBytes.length
      simp only [Nat.add_zero] at this
      rw [this]
      exact slice_all _
    rw [this]
  rw [hsrc, hdst, hnfk, hblock j hjlt, hje]

/-! ## `remap_palette_indices` -/

/-- the pairs `remap_palette_indices` produces for the keys from position `k0` on -/
def remapFrom (k0 : Nat) (keys : List Nat) : List (Nat × Nat) :=
  (keys.zipIdx k0).map fun (x, i) => if x = 0xFFFF then (0xFFFF, 0xFFFF) else (x, i % 65536)

theorem remapPaletteIndices_eq (keys : List Nat) : remapPaletteIndices keys = remapFrom 0 keys := rfl

theorem remapFrom_cons (k0 x : Nat) (xs : List Nat) :
    remapFrom k0 (x :: xs) =
      (if x = 0xFFFF then (0xFFFF, 0xFFFF) else (x, k0 % 65536)) :: remapFrom (k0 + 1) xs := by
  simp [remapFrom, List.zipIdx_cons]

theorem remapFrom_keys (k0 : Nat) (keys : List Nat) : (remapFrom k0 keys).map (·.1) = keys := by
  induction keys generalizing k0 with
  | nil => simp [remapFrom]
  | cons x xs ih =>
    rw [remapFrom_cons, List.map_cons, ih]
    by_cases hx : x = 0xFFFF
    · simp [hx]
    · simp [hx]

theorem retainedOf_remap (keys : List Nat) :
    retainedOf (remapPaletteIndices keys) = keys.filter (· ≠ 0xFFFF) := by
  unfold retainedOf
  rw [remapPaletteIndices_eq, remapFrom_keys]

/-- a strictly ascending list of numbers between `k0` and `m` has at most `m - k0` elements -/
theorem ascending_length (m : Nat) : ∀ (l : List Nat) (k0 : Nat), l.Pairwise (· < ·) →
    (∀ x ∈ l, k0 ≤ x ∧ x < m) → l.length ≤ m - k0
  | [], k0, _, _ => by simp
  | x :: l, k0, hp, h => by
    have hx := h x (by simp)
    have hxy : ∀ z ∈ l, x < z := (List.pairwise_cons.mp hp).1
    have := ascending_length m l (k0 + 1) (List.pairwise_cons.mp hp).2
      (fun z hz => ⟨by have := hxy z hz; omega, (h z (by simp [hz])).2⟩)
    simp only [List.length_cons]
    omega

theorem retained_length_lt (keys : List Nat) (hs : keys.Pairwise (· < ·)) (hk : ∀ k ∈ keys, k < 65536) :
    (keys.filter (· ≠ 0xFFFF)).length < 65536 := by
  have h1 : (keys.filter (· ≠ 0xFFFF)).Pairwise (· < ·) := hs.sublist List.filter_sublist
  have h2 : ∀ x ∈ keys.filter (· ≠ 0xFFFF), 0 ≤ x ∧ x < 65535 := by
    intro x hx
    obtain ⟨hm, hne⟩ := List.mem_filter.mp hx
    have := hk x hm
    have hne' : x ≠ 65535 := by simpa using hne
    omega
  have := ascending_length 65535 _ 0 h1 h2
  omega

/-- the new index the plan assigns to a retained entry is its position among the retained entries -/
theorem remap_lookup (e e' : Nat) (hne : e ≠ 0xFFFF) : ∀ (keys : List Nat) (k0 : Nat),
    keys.Pairwise (· < ·) → (∀ k ∈ keys, k0 ≤ k ∧ k < 65536) →
    (remapFrom k0 keys).lookup e = some e' →
    ∃ i, e' = k0 + i ∧ (keys.filter (· ≠ 0xFFFF))[i]? = some e
  | [], k0, _, _, h => by simp [remapFrom] at h
  | x :: xs, k0, hp, hk, h => by
    rw [remapFrom_cons] at h
    have hx := hk x (by simp)
    have hgt : ∀ z ∈ xs, x < z := (List.pairwise_cons.mp hp).1
    by_cases hxf : x = 0xFFFF
    · -- 0xFFFF can only be the last key
      have hxs : xs = [] := by
        cases xs with
        | nil => rfl
        | cons y ys =>
          have h1 := hgt y (by simp)
          have h2 := (hk y (by simp)).2
          omega
      subst hxs
      rw [if_pos hxf] at h
      simp only [remapFrom, List.zipIdx_nil, List.map_nil, List.lookup_cons, List.lookup_nil] at h
      have : (e == 65535) = false := by simpa using hne
      rw [this] at h
      cases h
    · rw [if_neg hxf] at h
      simp only [List.lookup_cons] at h
      by_cases hex : e = x
      · subst hex
        simp only [BEq.rfl] at h
        cases h
        refine ⟨0, by rw [Nat.mod_eq_of_lt (by omega)]; rfl, ?_⟩
        have hf : List.filter (· ≠ 0xFFFF) (e :: xs) = e :: List.filter (· ≠ 0xFFFF) xs := by
          simp [hxf]
        rw [hf]
        rfl
      · have : (e == x) = false := by simpa using hex
        rw [this] at h
        obtain ⟨i, hi, hget⟩ := remap_lookup e e' hne xs (k0 + 1) (List.pairwise_cons.mp hp).2
          (fun z hz => ⟨by have := hgt z hz; omega, (hk z (by simp [hz])).2⟩) h
        refine ⟨i + 1, by omega, ?_⟩
        have hf : List.filter (· ≠ 0xFFFF) (x :: xs) = x :: List.filter (· ≠ 0xFFFF) xs := by
          simp [hxf]
        rw [hf, List.getElem?_cons_succ]
        exact hget

end FontVerif.SubsetCpal
