/-
Helper lemmas for C19, part 2: the `BTreeMap<String, _>` model (`mapInsert` keeps keys strictly
sorted, hence unique), the `IntersectionInfo` order (a strict total order: `Ord` is lawful), and
`max_by_key`.
-/
import FontVerif.Lemmas.PatchMap
set_option linter.unusedVariables false
set_option linter.unusedSimpArgs false
namespace FontVerif.PatchGroup
open FontVerif FontVerif.PatchMap FontVerif.UriTemplate

/-! ## byte-wise string order -/

theorem uriLt_irrefl : ∀ a : Uri, uriLt a a = false
  | [] => rfl
  | x :: xs => by simp [uriLt, uriLt_irrefl xs]

theorem uriLt_trans : ∀ a b c : Uri, uriLt a b = true → uriLt b c = true → uriLt a c = true
  | [], [], _, h, _ => by simp [uriLt] at h
  | [], _ :: _, [], _, h => by simp [uriLt] at h
  | [], _ :: _, _ :: _, _, _ => by simp [uriLt]
  | _ :: _, [], _, h, _ => by simp [uriLt] at h
  | _ :: _, _ :: _, [], _, h => by simp [uriLt] at h
  | x :: xs, y :: ys, z :: zs, h1, h2 => by
    simp only [uriLt] at h1 h2 ⊢
    by_cases hxy : x < y
    · by_cases hyz : y < z
      · simp [show x < z by omega]
      · simp only [hyz, ↓reduceIte] at h2
        by_cases hzy : z < y
        · simp [hzy] at h2
        · simp [show x < z by omega]
    · simp only [hxy, ↓reduceIte] at h1
      by_cases hyx : y < x
      · simp [hyx] at h1
      · simp only [hyx, ↓reduceIte] at h1
        have hxy' : x = y := by omega
        subst hxy'
        by_cases hyz : x < z
        · simp [hyz]
        · simp only [hyz, ↓reduceIte] at h2 ⊢
          by_cases hzy : z < x
          · simp [hzy] at h2
          · simp only [hzy, ↓reduceIte] at h2 ⊢
            exact uriLt_trans xs ys zs h1 h2

theorem uriLt_total : ∀ a b : Uri, uriLt a b = true ∨ a = b ∨ uriLt b a = true
  | [], [] => Or.inr (Or.inl rfl)
  | [], _ :: _ => Or.inl (by simp [uriLt])
  | _ :: _, [] => Or.inr (Or.inr (by simp [uriLt]))
  | x :: xs, y :: ys => by
    simp only [uriLt]
    by_cases hxy : x < y
    · simp [hxy]
    · by_cases hyx : y < x
      · simp [hxy, hyx]
      · have : x = y := by omega
        subst this
        simp only [Nat.lt_irrefl, ↓reduceIte, List.cons.injEq, true_and]
        exact uriLt_total xs ys

/-! ## the map model -/

/-- keys strictly ascending -/
def Sorted (m : UriMap) : Prop := m.Pairwise (fun p q => uriLt p.1 q.1 = true)

/-- every value is stored under its own uri -/
def KeyIsUri (m : UriMap) : Prop := ∀ q, q ∈ m → q.2.uri = q.1

theorem mem_mapInsert {k : Uri} {v : PatchInfo} : ∀ {m : UriMap} {p : Uri × PatchInfo},
    p ∈ mapInsert k v m → p = (k, v) ∨ p ∈ m
  | [], p, h => by simp [mapInsert] at h; exact Or.inl h
  | (k', v') :: rest, p, h => by
    simp only [mapInsert] at h
    split at h
    · next hk =>
      subst hk
      rcases List.mem_cons.1 h with h | h
      · exact Or.inl h
      · exact Or.inr (List.mem_cons_of_mem _ h)
    · split at h
      · rcases List.mem_cons.1 h with h | h
        · exact Or.inl h
        · exact Or.inr h
      · rcases List.mem_cons.1 h with h | h
        · exact Or.inr (h ▸ List.mem_cons_self)
        · rcases mem_mapInsert h with h | h
          · exact Or.inl h
          · exact Or.inr (List.mem_cons_of_mem _ h)

theorem mapInsert_sorted {k : Uri} {v : PatchInfo} : ∀ {m : UriMap}, Sorted m → Sorted (mapInsert k v m)
  | [], _ => by simp [mapInsert, Sorted]
  | (k', v') :: rest, h => by
    unfold Sorted at h ⊢
    rw [List.pairwise_cons] at h
    simp only [mapInsert]
    split
    · next hk =>
      subst hk
      rw [List.pairwise_cons]
      exact ⟨fun q hq => h.1 q hq, h.2⟩
    · next hk =>
      split
      · next hlt =>
        rw [List.pairwise_cons]
        refine ⟨?_, List.pairwise_cons.2 h⟩
        intro q hq
        rcases List.mem_cons.1 hq with rfl | hq
        · exact hlt
        · exact uriLt_trans _ _ _ hlt (h.1 q hq)
      · next hlt =>
        have hgt : uriLt k' k = true := by
          rcases uriLt_total k k' with h1 | h1 | h1
          · exact absurd h1 hlt
          · exact absurd h1 hk
          · exact h1
        rw [List.pairwise_cons]
        refine ⟨?_, mapInsert_sorted h.2⟩
        intro q hq
        rcases mem_mapInsert hq with rfl | hq
        · exact hgt
        · exact h.1 q hq

theorem mapInsert_keyIsUri {p : PatchInfo} {m : UriMap} (h : KeyIsUri m) :
    KeyIsUri (mapInsert p.uri p m) := by
  intro q hq
  rcases mem_mapInsert hq with rfl | hq
  · rfl
  · exact h q hq

theorem mapInsert_ne_nil (k : Uri) (v : PatchInfo) (m : UriMap) : mapInsert k v m ≠ [] := by
  cases m with
  | nil => simp [mapInsert]
  | cons a rest =>
    obtain ⟨k', v'⟩ := a
    simp only [mapInsert]
    split
    · simp
    · split <;> simp

theorem sorted_filter {m : UriMap} (f : Uri × PatchInfo → Bool) (h : Sorted m) : Sorted (m.filter f) :=
  List.Pairwise.sublist List.filter_sublist h

theorem sorted_keys_nodup {m : UriMap} (h : Sorted m) : (m.map (·.1)).Nodup := by
  unfold List.Nodup
  rw [List.pairwise_map]
  exact List.Pairwise.imp (fun {a b} hab heq => by rw [heq, uriLt_irrefl] at hab; cases hab) h

theorem values_uri_eq_keys {m : UriMap} (h : KeyIsUri m) :
    (m.map (·.2)).map (·.uri) = m.map (·.1) := by
  rw [List.map_map]
  apply List.map_congr_left
  intro q hq
  exact h q hq

/-! ## the `IntersectionInfo` order -/

theorem dsCmp_refl : ∀ a : List (Nat × Int), dsCmp a a = .eq
  | [] => rfl
  | x :: xs => by simp [dsCmp, dsCmp_refl xs]

theorem dsCmp_eq : ∀ a b : List (Nat × Int), dsCmp a b = .eq → a = b
  | [], [], _ => rfl
  | [], _ :: _, h => by simp [dsCmp] at h
  | _ :: _, [], h => by simp [dsCmp] at h
  | x :: xs, y :: ys, h => by
    simp only [dsCmp] at h
    repeat' split at h
    all_goals first | (cases h; done) | skip
    have := dsCmp_eq xs ys h
    subst this
    have h1 : x.1 = y.1 := by omega
    have h2 : x.2 = y.2 := by omega
    rw [show x = y from Prod.ext h1 h2]

theorem dsCmp_swap : ∀ a b : List (Nat × Int), dsCmp a b = .gt ↔ dsCmp b a = .lt
  | [], [] => by simp [dsCmp]
  | [], _ :: _ => by simp [dsCmp]
  | _ :: _, [] => by simp [dsCmp]
  | x :: xs, y :: ys => by
    simp only [dsCmp]
    by_cases h1 : x.1 < y.1
    · simp [h1, show ¬ y.1 < x.1 by omega]
    · by_cases h2 : y.1 < x.1
      · simp [h1, h2]
      · by_cases h3 : x.2 < y.2
        · simp [h1, h2, h3, show ¬ y.2 < x.2 by omega]
        · by_cases h4 : y.2 < x.2
          · simp [h1, h2, h3, h4]
          · simp only [h1, h2, h3, h4, ↓reduceIte]
            exact dsCmp_swap xs ys

theorem dsCmp_lt_trans : ∀ a b c : List (Nat × Int),
    dsCmp a b = .lt → dsCmp b c = .lt → dsCmp a c = .lt
  | [], [], _, h, _ => by simp [dsCmp] at h
  | [], _ :: _, [], _, h => by simp [dsCmp] at h
  | [], _ :: _, _ :: _, _, _ => by simp [dsCmp]
  | _ :: _, [], _, h, _ => by simp [dsCmp] at h
  | _ :: _, _ :: _, [], _, h => by simp [dsCmp] at h
  | x :: xs, y :: ys, z :: zs, h1, h2 => by
    simp only [dsCmp] at h1 h2 ⊢
    repeat' split at h1
    all_goals first | (cases h1; done) | skip
    all_goals repeat' split at h2
    all_goals first | (cases h2; done) | skip
    all_goals repeat' split
    all_goals first | rfl | omega | skip
    exact dsCmp_lt_trans xs ys zs h1 h2

/-- `a` is strictly below `b` in the selection order: strictly smaller intersection (codepoints,
then layout tags, then design space), or the same intersection and a **later** entry -/
def infoLt (a b : IntersectionInfo) : Prop :=
  a.cps < b.cps ∨ (a.cps = b.cps ∧ (a.tags < b.tags ∨ (a.tags = b.tags ∧
    (dsCmp a.ds b.ds = .lt ∨ (a.ds = b.ds ∧ b.order < a.order)))))

theorem cmp_lt_iff (a b : IntersectionInfo) : a.cmp b = .lt ↔ infoLt a b := by
  unfold IntersectionInfo.cmp infoLt
  by_cases h1 : a.cps < b.cps
  · simp [h1]
  · by_cases h2 : b.cps < a.cps
    · simp [h1, h2]; omega
    · have e1 : a.cps = b.cps := by omega
      by_cases h3 : a.tags < b.tags
      · simp [h1, h2, h3, e1]
      · by_cases h4 : b.tags < a.tags
        · simp [h1, h2, h3, h4, e1]; omega
        · have e2 : a.tags = b.tags := by omega
          simp only [h1, h2, h3, h4, ↓reduceIte, e1, e2, true_and, false_or, Nat.lt_irrefl]
          cases hd : dsCmp a.ds b.ds with
          | lt => simp
          | gt => simp; intro he; rw [he, dsCmp_refl] at hd; cases hd
          | eq =>
            have := dsCmp_eq _ _ hd
            simp only [this, true_and, reduceCtorEq, false_or]
            by_cases h5 : b.order < a.order
            · simp [h5]
            · by_cases h6 : a.order < b.order <;> simp [h5, h6]

theorem cmp_gt_iff (a b : IntersectionInfo) : a.cmp b = .gt ↔ infoLt b a := by
  unfold IntersectionInfo.cmp infoLt
  by_cases h1 : a.cps < b.cps
  · simp [h1]; omega
  · by_cases h2 : b.cps < a.cps
    · simp [h1, h2]
    · have e1 : a.cps = b.cps := by omega
      by_cases h3 : a.tags < b.tags
      · simp [h1, h2, h3, e1]; omega
      · by_cases h4 : b.tags < a.tags
        · simp [h1, h2, h3, h4, e1]
        · have e2 : a.tags = b.tags := by omega
          simp only [h1, h2, h3, h4, ↓reduceIte, e1, e2, true_and, false_or, Nat.lt_irrefl]
          cases hd : dsCmp a.ds b.ds with
          | lt =>
            have h' : dsCmp b.ds a.ds = .gt := (dsCmp_swap _ _).2 hd
            simp [h']
            intro he; rw [he, dsCmp_refl] at hd; cases hd
          | gt => simp [(dsCmp_swap _ _).1 hd]
          | eq =>
            have := dsCmp_eq _ _ hd
            simp only [this, dsCmp_refl, true_and, reduceCtorEq, false_or]
            by_cases h5 : b.order < a.order
            · simp [h5]; omega
            · by_cases h6 : a.order < b.order <;> simp [h5, h6]

theorem infoLt_irrefl (a : IntersectionInfo) : ¬ infoLt a a := by
  unfold infoLt
  simp [dsCmp_refl]

theorem infoLt_trans {a b c : IntersectionInfo} (h1 : infoLt a b) (h2 : infoLt b c) : infoLt a c := by
  unfold infoLt at *
  rcases h1 with h1 | ⟨e1, h1⟩
  · rcases h2 with h2 | ⟨e2, _⟩
    · exact Or.inl (by omega)
    · exact Or.inl (by omega)
  · rcases h2 with h2 | ⟨e2, h2⟩
    · exact Or.inl (by omega)
    · refine Or.inr ⟨by omega, ?_⟩
      rcases h1 with h1 | ⟨f1, h1⟩
      · rcases h2 with h2 | ⟨f2, _⟩
        · exact Or.inl (by omega)
        · exact Or.inl (by omega)
      · rcases h2 with h2 | ⟨f2, h2⟩
        · exact Or.inl (by omega)
        · refine Or.inr ⟨by omega, ?_⟩
          rcases h1 with h1 | ⟨g1, h1⟩
          · rcases h2 with h2 | ⟨g2, _⟩
            · exact Or.inl (dsCmp_lt_trans _ _ _ h1 h2)
            · exact Or.inl (g2 ▸ h1)
          · rcases h2 with h2 | ⟨g2, h2⟩
            · exact Or.inl (g1 ▸ h2)
            · exact Or.inr ⟨g1.trans g2, by omega⟩

/-- the order is total: two infos are comparable or equal -/
theorem infoLt_total (a b : IntersectionInfo) : infoLt a b ∨ a = b ∨ infoLt b a := by
  cases hc : a.cmp b with
  | lt => exact Or.inl ((cmp_lt_iff a b).1 hc)
  | gt => exact Or.inr (Or.inr ((cmp_gt_iff a b).1 hc))
  | eq =>
    refine Or.inr (Or.inl ?_)
    unfold IntersectionInfo.cmp at hc
    repeat' split at hc
    all_goals first | (cases hc; done) | skip
    next hd _ _ =>
      have := dsCmp_eq _ _ hd
      cases a; cases b
      simp_all
      omega

/-- `a ≤ b` in the selection order -/
def infoLe (a b : IntersectionInfo) : Prop := ¬ infoLt b a

theorem infoLe_refl (a : IntersectionInfo) : infoLe a a := infoLt_irrefl a

theorem infoLe_trans {a b c : IntersectionInfo} (h1 : infoLe a b) (h2 : infoLe b c) : infoLe a c := by
  intro hca
  rcases infoLt_total a b with h | h | h
  · exact h2 (infoLt_trans hca h)
  · exact h2 (h ▸ hca)
  · exact h1 h

/-! ## `max_by_key` -/

theorem maxByInfo_some : ∀ (cs : List Candidate) (b r : Candidate),
    maxByInfo (some b) cs = some r →
      infoLe b.info r.info ∧ (∀ c, c ∈ cs → infoLe c.info r.info) ∧ (r = b ∨ r ∈ cs)
  | [], b, r, h => by
    simp only [maxByInfo, Option.some.injEq] at h
    subst h
    exact ⟨infoLe_refl _, fun c hc => by simp at hc, Or.inl rfl⟩
  | c :: cs, b, r, h => by
    simp only [maxByInfo] at h
    split at h
    · next hgt =>
      obtain ⟨h1, h2, h3⟩ := maxByInfo_some cs b r h
      have hcb : infoLe c.info b.info := by
        intro hlt
        have := (cmp_gt_iff _ _).1 hgt
        exact infoLt_irrefl _ (infoLt_trans hlt this)
      refine ⟨h1, ?_, h3.imp id (List.mem_cons_of_mem _)⟩
      intro x hx
      rcases List.mem_cons.1 hx with rfl | hx
      · exact infoLe_trans hcb h1
      · exact h2 x hx
    · next hgt =>
      obtain ⟨h1, h2, h3⟩ := maxByInfo_some cs c r h
      have hbc : infoLe b.info c.info := by
        intro hlt
        exact hgt ((cmp_gt_iff _ _).2 hlt)
      refine ⟨infoLe_trans hbc h1, ?_, ?_⟩
      · intro x hx
        rcases List.mem_cons.1 hx with rfl | hx
        · exact h1
        · exact h2 x hx
      · rcases h3 with rfl | h3
        · exact Or.inr List.mem_cons_self
        · exact Or.inr (List.mem_cons_of_mem _ h3)

/-- `select_invalidating_candidate` returns a member that no other candidate beats -/
theorem selectInvalidating_max {cs : List Candidate} {r : Candidate}
    (h : selectInvalidating cs = some r) : r ∈ cs ∧ ∀ c, c ∈ cs → ¬ infoLt r.info c.info := by
  cases cs with
  | nil => simp [selectInvalidating, maxByInfo] at h
  | cons b cs =>
    simp only [selectInvalidating, maxByInfo] at h
    obtain ⟨h1, h2, h3⟩ := maxByInfo_some cs b r h
    refine ⟨?_, ?_⟩
    · rcases h3 with rfl | h3
      · exact List.mem_cons_self
      · exact List.mem_cons_of_mem _ h3
    · intro c hc
      rcases List.mem_cons.1 hc with rfl | hc
      · exact h1
      · exact h2 c hc

theorem selectInvalidating_none {cs : List Candidate} (h : selectInvalidating cs = none) : cs = [] := by
  cases cs with
  | nil => rfl
  | cons b cs =>
    simp only [selectInvalidating, maxByInfo] at h
    exfalso
    have : ∀ (cs : List Candidate) (b : Candidate), maxByInfo (some b) cs ≠ none := by
      intro cs
      induction cs with
      | nil => intro b; simp [maxByInfo]
      | cons c cs ih =>
        intro b
        simp only [maxByInfo]
        split
        · exact ih b
        · exact ih c
    exact this cs b h

/-- what `group_patches` has established after consuming the candidates `cands` -/
structure GInv (iftId iftxId : Option Nat) (cands : List PatchUri) (g : Grouping) : Prop where
  sortedA : Sorted g.noInvIft
  sortedB : Sorted g.noInvIftx
  keyA : KeyIsUri g.noInvIft
  keyB : KeyIsUri g.noInvIftx
  full : g.full = (cands.filter (fun u => decide (u.enc = .tkFull))).filterMap toCandidate
  partA : g.partialIft =
    (cands.filter (fun u => decide (u.enc = .tkPartial ∧ some u.compat = iftId))).filterMap toCandidate
  partB : g.partialIftx =
    (cands.filter (fun u => decide (u.enc = .tkPartial ∧ some u.compat ≠ iftId ∧ some u.compat = iftxId))).filterMap toCandidate
  fromA : ∀ q, q ∈ g.noInvIft → ∃ u, u ∈ cands ∧ u.enc = .glyphKeyed ∧ some u.compat = iftId ∧
    toPatchInfo u = some q.2
  fromB : ∀ q, q ∈ g.noInvIftx → ∃ u, u ∈ cands ∧ u.enc = .glyphKeyed ∧ some u.compat ≠ iftId ∧
    some u.compat = iftxId ∧ toPatchInfo u = some q.2
  neA : (∃ u, u ∈ cands ∧ u.enc = .glyphKeyed ∧ some u.compat = iftId) → g.noInvIft ≠ []
  neB : (∃ u, u ∈ cands ∧ u.enc = .glyphKeyed ∧ some u.compat ≠ iftId ∧ some u.compat = iftxId) →
    g.noInvIftx ≠ []
  allOk : ∀ u, u ∈ cands → (u.enc = .tkFull ∨ some u.compat = iftId ∨ some u.compat = iftxId) →
    (toPatchInfo u).isSome

theorem GInv_empty (iftId iftxId : Option Nat) : GInv iftId iftxId [] Grouping.empty := by
  constructor <;> simp [Grouping.empty, Sorted, KeyIsUri]

theorem toCandidate_some {u : PatchUri} {c : Candidate} (h : toCandidate u = some c) :
    toPatchInfo u = some c.patch ∧ c.info = u.info := by
  unfold toCandidate at h
  split at h
  · cases h
  · next p hp => cases h; exact ⟨hp, rfl⟩

theorem groupStep_inv {iftId iftxId : Option Nat} {pre : List PatchUri} {g g' : Grouping}
    {u : PatchUri} (hs : groupStep iftId iftxId g u = some g') (h : GInv iftId iftxId pre g) :
    GInv iftId iftxId (pre ++ [u]) g' := by
  unfold groupStep at hs
  cases henc : u.enc <;> simp only [henc] at hs
  · -- full
    split at hs
    · cases hs
    · next c hc =>
      cases hs
      obtain ⟨hp, _⟩ := toCandidate_some hc
      constructor <;> try simp only [List.filter_append, List.filterMap_append, List.mem_append,
        List.mem_singleton]
      · exact h.sortedA
      · exact h.sortedB
      · exact h.keyA
      · exact h.keyB
      · simp [h.full, henc, hc]
      · simp [h.partA, henc]
      · simp [h.partB, henc]
      · intro q hq; obtain ⟨v, hv, r⟩ := h.fromA q hq; exact ⟨v, Or.inl hv, r⟩
      · intro q hq; obtain ⟨v, hv, r⟩ := h.fromB q hq; exact ⟨v, Or.inl hv, r⟩
      · rintro ⟨v, hv | rfl, r⟩
        · exact h.neA ⟨v, hv, r⟩
        · simp [henc] at r
      · rintro ⟨v, hv | rfl, r⟩
        · exact h.neB ⟨v, hv, r⟩
        · simp [henc] at r
      · rintro v (hv | rfl) hc'
        · exact h.allOk v hv hc'
        · simp [hp]
  · -- partial
    split at hs
    · next hA =>
      split at hs
      · cases hs
      · next c hc =>
        cases hs
        obtain ⟨hp, _⟩ := toCandidate_some hc
        constructor <;> try simp only [List.filter_append, List.filterMap_append, List.mem_append,
          List.mem_singleton]
        · exact h.sortedA
        · exact h.sortedB
        · exact h.keyA
        · exact h.keyB
        · simp [h.full, henc]
        · simp [h.partA, henc, hA, hc]
        · simp [h.partB, henc, hA]
        · intro q hq; obtain ⟨v, hv, r⟩ := h.fromA q hq; exact ⟨v, Or.inl hv, r⟩
        · intro q hq; obtain ⟨v, hv, r⟩ := h.fromB q hq; exact ⟨v, Or.inl hv, r⟩
        · rintro ⟨v, hv | rfl, r⟩
          · exact h.neA ⟨v, hv, r⟩
          · simp [henc] at r
        · rintro ⟨v, hv | rfl, r⟩
          · exact h.neB ⟨v, hv, r⟩
          · simp [henc] at r
        · rintro v (hv | rfl) hc'
          · exact h.allOk v hv hc'
          · simp [hp]
    · next hA =>
      split at hs
      · next hB =>
        split at hs
        · cases hs
        · next c hc =>
          cases hs
          obtain ⟨hp, _⟩ := toCandidate_some hc
          constructor <;> try simp only [List.filter_append, List.filterMap_append, List.mem_append,
            List.mem_singleton]
          · exact h.sortedA
          · exact h.sortedB
          · exact h.keyA
          · exact h.keyB
          · simp [h.full, henc]
          · simp [h.partA, henc, hA]
          · have hA' : ¬ iftxId = iftId := hB ▸ hA
            simp [h.partB, henc, hA, hB, hA', hc]
          · intro q hq; obtain ⟨v, hv, r⟩ := h.fromA q hq; exact ⟨v, Or.inl hv, r⟩
          · intro q hq; obtain ⟨v, hv, r⟩ := h.fromB q hq; exact ⟨v, Or.inl hv, r⟩
          · rintro ⟨v, hv | rfl, r⟩
            · exact h.neA ⟨v, hv, r⟩
            · simp [henc] at r
          · rintro ⟨v, hv | rfl, r⟩
            · exact h.neB ⟨v, hv, r⟩
            · simp [henc] at r
          · rintro v (hv | rfl) hc'
            · exact h.allOk v hv hc'
            · simp [hp]
      · next hB =>
        cases hs
        constructor <;> try simp only [List.filter_append, List.filterMap_append, List.mem_append,
          List.mem_singleton]
        · exact h.sortedA
        · exact h.sortedB
        · exact h.keyA
        · exact h.keyB
        · simp [h.full, henc]
        · simp [h.partA, henc, hA]
        · simp [h.partB, henc, hA, hB]
        · intro q hq; obtain ⟨v, hv, r⟩ := h.fromA q hq; exact ⟨v, Or.inl hv, r⟩
        · intro q hq; obtain ⟨v, hv, r⟩ := h.fromB q hq; exact ⟨v, Or.inl hv, r⟩
        · rintro ⟨v, hv | rfl, r⟩
          · exact h.neA ⟨v, hv, r⟩
          · simp [henc] at r
        · rintro ⟨v, hv | rfl, r⟩
          · exact h.neB ⟨v, hv, r⟩
          · simp [henc] at r
        · rintro v (hv | rfl) hc'
          · exact h.allOk v hv hc'
          · rcases hc' with h1 | h1 | h1 <;>
              first | (rw [henc] at h1; cases h1) | exact absurd h1 hA | exact absurd h1 hB
  · -- glyph keyed
    split at hs
    · next hA =>
      split at hs
      · cases hs
      · next p hp =>
        cases hs
        constructor <;> try simp only [List.filter_append, List.filterMap_append, List.mem_append,
          List.mem_singleton]
        · exact mapInsert_sorted h.sortedA
        · exact h.sortedB
        · exact mapInsert_keyIsUri h.keyA
        · exact h.keyB
        · simp [h.full, henc]
        · simp [h.partA, henc]
        · simp [h.partB, henc]
        · intro q hq
          rcases mem_mapInsert hq with rfl | hq
          · exact ⟨u, Or.inr rfl, henc, hA, hp⟩
          · obtain ⟨v, hv, r⟩ := h.fromA q hq; exact ⟨v, Or.inl hv, r⟩
        · intro q hq; obtain ⟨v, hv, r⟩ := h.fromB q hq; exact ⟨v, Or.inl hv, r⟩
        · intro _; exact mapInsert_ne_nil _ _ _
        · rintro ⟨v, hv | rfl, r⟩
          · exact h.neB ⟨v, hv, r⟩
          · exact absurd hA r.2.1
        · rintro v (hv | rfl) hc'
          · exact h.allOk v hv hc'
          · simp [hp]
    · next hA =>
      split at hs
      · next hB =>
        split at hs
        · cases hs
        · next p hp =>
          cases hs
          constructor <;> try simp only [List.filter_append, List.filterMap_append, List.mem_append,
            List.mem_singleton]
          · exact h.sortedA
          · exact mapInsert_sorted h.sortedB
          · exact h.keyA
          · exact mapInsert_keyIsUri h.keyB
          · simp [h.full, henc]
          · simp [h.partA, henc]
          · simp [h.partB, henc]
          · intro q hq; obtain ⟨v, hv, r⟩ := h.fromA q hq; exact ⟨v, Or.inl hv, r⟩
          · intro q hq
            rcases mem_mapInsert hq with rfl | hq
            · exact ⟨u, Or.inr rfl, henc, hA, hB, hp⟩
            · obtain ⟨v, hv, r⟩ := h.fromB q hq; exact ⟨v, Or.inl hv, r⟩
          · rintro ⟨v, hv | rfl, r⟩
            · exact h.neA ⟨v, hv, r⟩
            · exact absurd r.2 hA
          · intro _; exact mapInsert_ne_nil _ _ _
          · rintro v (hv | rfl) hc'
            · exact h.allOk v hv hc'
            · simp [hp]
      · next hB =>
        cases hs
        constructor <;> try simp only [List.filter_append, List.filterMap_append, List.mem_append,
          List.mem_singleton]
        · exact h.sortedA
        · exact h.sortedB
        · exact h.keyA
        · exact h.keyB
        · simp [h.full, henc]
        · simp [h.partA, henc]
        · simp [h.partB, henc]
        · intro q hq; obtain ⟨v, hv, r⟩ := h.fromA q hq; exact ⟨v, Or.inl hv, r⟩
        · intro q hq; obtain ⟨v, hv, r⟩ := h.fromB q hq; exact ⟨v, Or.inl hv, r⟩
        · rintro ⟨v, hv | rfl, r⟩
          · exact h.neA ⟨v, hv, r⟩
          · exact absurd r.2 hA
        · rintro ⟨v, hv | rfl, r⟩
          · exact h.neB ⟨v, hv, r⟩
          · exact absurd r.2.2 hB
        · rintro v (hv | rfl) hc'
          · exact h.allOk v hv hc'
          · rcases hc' with h1 | h1 | h1 <;>
              first | (rw [henc] at h1; cases h1) | exact absurd h1 hA | exact absurd h1 hB

theorem groupPatches_inv {iftId iftxId : Option Nat} : ∀ (cands pre : List PatchUri) (g g' : Grouping),
    groupPatches iftId iftxId g cands = some g' → GInv iftId iftxId pre g →
    GInv iftId iftxId (pre ++ cands) g' := by
  intro cands
  induction cands with
  | nil => intro pre g g' h hi; simp only [groupPatches, Option.some.injEq] at h; subst h; simpa using hi
  | cons u us ih =>
    intro pre g g' h hi
    simp only [groupPatches] at h
    split at h
    · cases h
    · next g1 h1 =>
      have := ih (pre ++ [u]) g1 g' h (groupStep_inv h1 hi)
      simpa using this

/-- the grouping computed by `group_patches` from scratch -/
theorem groupPatches_spec {iftId iftxId : Option Nat} {cands : List PatchUri} {g : Grouping}
    (h : groupPatches iftId iftxId Grouping.empty cands = some g) : GInv iftId iftxId cands g := by
  simpa using groupPatches_inv cands [] _ _ h (GInv_empty iftId iftxId)

theorem keyIsUri_filter {m : UriMap} (f : Uri × PatchInfo → Bool) (h : KeyIsUri m) :
    KeyIsUri (m.filter f) := fun q hq => h q (List.mem_filter.1 hq).1

/-- uris of a no-invalidation scope = its keys -/
theorem noInv_uris {m : UriMap} (h : KeyIsUri m) : (m.map (·.2)).map (·.uri) = m.map (·.1) :=
  values_uri_eq_keys h

theorem mem_filterMap_toCandidate {l : List PatchUri} {c : Candidate}
    (h : c ∈ l.filterMap toCandidate) :
    ∃ u, u ∈ l ∧ toPatchInfo u = some c.patch ∧ c.info = u.info := by
  obtain ⟨u, hu, hc⟩ := List.mem_filterMap.1 h
  exact ⟨u, hu, toCandidate_some hc⟩

/-- the five ways `select_next_patches_from_candidates` builds its group -/
theorem selectFromCandidates_cases {cands : List PatchUri} {iftId iftxId : Option Nat} {g : Group}
    (h : selectFromCandidates cands iftId iftxId = .ok g) :
    ∃ G, groupPatches iftId iftxId Grouping.empty cands = some G ∧
      ((∃ c, selectInvalidating G.full = some c ∧ g = .full c.patch) ∨
       (G.full = [] ∧ ∃ a b, selectInvalidating G.partialIft = some a ∧
          selectInvalidating (G.partialIftx.filter fun c => a.patch.uri ≠ c.patch.uri) = some b ∧
          g = .mixed (.partialInv a.patch) (.partialInv b.patch)) ∨
       (G.full = [] ∧ ∃ a, selectInvalidating G.partialIft = some a ∧
          (G.partialIftx.filter fun c => a.patch.uri ≠ c.patch.uri) = [] ∧
          g = .mixed (.partialInv a.patch) (.noInv (mapRemove a.patch.uri G.noInvIftx))) ∨
       (G.full = [] ∧ G.partialIft = [] ∧ ∃ b, selectInvalidating G.partialIftx = some b ∧
          g = .mixed (.noInv (mapRemove b.patch.uri G.noInvIft)) (.partialInv b.patch)) ∨
       (G.full = [] ∧ G.partialIft = [] ∧ G.partialIftx = [] ∧
          g = .mixed (.noInv G.noInvIft)
            (.noInv (G.noInvIftx.filter fun p => !(G.noInvIft.any fun q => q.1 = p.1))))) := by
  unfold selectFromCandidates at h
  split at h
  · cases h
  · next G hG =>
    refine ⟨G, hG, ?_⟩
    split at h
    · next c hc => cases h; exact Or.inl ⟨c, hc, rfl⟩
    · next hfull =>
      have hf := selectInvalidating_none hfull
      simp only [] at h
      cases ha : selectInvalidating G.partialIft with
      | some a =>
        simp only [ha] at h
        cases hb : selectInvalidating (G.partialIftx.filter fun c => a.patch.uri ≠ c.patch.uri) with
        | some b =>
          simp only [hb] at h
          cases h
          exact Or.inr (Or.inl ⟨hf, a, b, rfl, hb, rfl⟩)
        | none =>
          simp only [hb] at h
          cases h
          exact Or.inr (Or.inr (Or.inl ⟨hf, a, rfl, selectInvalidating_none hb, rfl⟩))
      | none =>
        simp only [ha] at h
        have hft : (G.partialIftx.filter fun c => true) = G.partialIftx := by simp
        rw [hft] at h
        have hpa := selectInvalidating_none ha
        cases hb : selectInvalidating G.partialIftx with
        | some b =>
          simp only [hb] at h
          cases h
          exact Or.inr (Or.inr (Or.inr (Or.inl ⟨hf, hpa, b, rfl, rfl⟩)))
        | none =>
          simp only [hb] at h
          cases h
          exact Or.inr (Or.inr (Or.inr (Or.inr ⟨hf, hpa, selectInvalidating_none hb, rfl⟩)))

theorem keys_mapRemove (k : Uri) (m : UriMap) (hs : Sorted m) (hk : KeyIsUri m) :
    k ∉ ((mapRemove k m).map (·.2)).map (·.uri) ∧ (((mapRemove k m).map (·.2)).map (·.uri)).Nodup := by
  have hk' : KeyIsUri (mapRemove k m) := keyIsUri_filter _ hk
  rw [noInv_uris hk']
  refine ⟨?_, sorted_keys_nodup (sorted_filter _ hs)⟩
  intro hmem
  obtain ⟨q, hq, hqk⟩ := List.mem_map.1 hmem
  have := (List.mem_filter.1 hq).2
  simp [hqk] at this

theorem group_no_duplicate_uri' {cands : List PatchUri} {iftId iftxId : Option Nat} {g : Group}
    (h : selectFromCandidates cands iftId iftxId = .ok g) : g.uris.Nodup := by
  obtain ⟨G, hG, hc⟩ := selectFromCandidates_cases h
  have GI := groupPatches_spec hG
  rcases hc with ⟨c, _, rfl⟩ | ⟨_, a, b, _, hb, rfl⟩ | ⟨_, a, _, _, rfl⟩ | ⟨_, _, b, _, rfl⟩ | ⟨_, _, _, rfl⟩
  · simp [Group.uris, Group.invalidating, Group.nonInvalidating]
  · have hmem := (selectInvalidating_max hb).1
    have hne := (List.mem_filter.1 hmem).2
    simp only [Group.uris, Group.invalidating, Group.nonInvalidating, List.append_nil,
      List.cons_append, List.nil_append, List.map_cons, List.map_nil]
    simpa using hne
  · obtain ⟨h1, h2⟩ := keys_mapRemove a.patch.uri G.noInvIftx GI.sortedB GI.keyB
    simp only [Group.uris, Group.invalidating, Group.nonInvalidating, List.append_nil,
      List.cons_append, List.nil_append, List.map_cons, List.map_nil, List.map_append]
    exact List.nodup_cons.2 ⟨h1, h2⟩
  · obtain ⟨h1, h2⟩ := keys_mapRemove b.patch.uri G.noInvIft GI.sortedA GI.keyA
    simp only [Group.uris, Group.invalidating, Group.nonInvalidating, List.append_nil,
      List.cons_append, List.nil_append, List.map_cons, List.map_nil, List.map_append]
    exact List.nodup_cons.2 ⟨h1, h2⟩
  · simp only [Group.uris, Group.invalidating, Group.nonInvalidating, List.append_nil,
      List.nil_append, List.map_append]
    have hkB := keyIsUri_filter (fun p => !(G.noInvIft.any fun q => q.1 = p.1)) GI.keyB
    rw [noInv_uris GI.keyA, noInv_uris hkB]
    refine List.nodup_append.2 ⟨sorted_keys_nodup GI.sortedA, sorted_keys_nodup (sorted_filter _ GI.sortedB), ?_⟩
    intro x hx y hy hxy
    subst hxy
    obtain ⟨q, hq, rfl⟩ := List.mem_map.1 hx
    obtain ⟨p, hp, hpq⟩ := List.mem_map.1 hy
    have := (List.mem_filter.1 hp).2
    simp only [Bool.not_eq_true', List.any_eq_false, decide_eq_true_eq] at this
    exact this q hq hpq.symm

theorem toPatchInfo_fields {u : PatchUri} {p : PatchInfo} (h : toPatchInfo u = some p) :
    uriString u = some p.uri ∧ p.table = u.table ∧ p.compat = u.compat ∧ p.bit = u.bit := by
  unfold toPatchInfo at h
  split at h
  · cases h
  · next s hs => cases h; exact ⟨hs, rfl, rfl, rfl⟩

theorem toCandidate_of_patchInfo {u : PatchUri} (h : (toPatchInfo u).isSome = true) :
    ∃ c, toCandidate u = some c ∧ toPatchInfo u = some c.patch ∧ c.info = u.info := by
  cases hp : toPatchInfo u with
  | none => simp [hp] at h
  | some p => exact ⟨⟨u.info, p⟩, by simp [toCandidate, hp], rfl, rfl⟩

theorem mem_filterMap_of {l : List PatchUri} {f : PatchUri → Bool} {u : PatchUri} {c : Candidate}
    (hu : u ∈ l) (hf : f u = true) (hc : toCandidate u = some c) :
    c ∈ (l.filter f).filterMap toCandidate :=
  List.mem_filterMap.2 ⟨u, List.mem_filter.2 ⟨hu, hf⟩, hc⟩

section Selection
variable {cands : List PatchUri} {iftId iftxId : Option Nat} {g : Group}

theorem sel_full_iff (h : selectFromCandidates cands iftId iftxId = .ok g) :
    (∃ u, u ∈ cands ∧ u.enc = .tkFull) ↔ ∃ p, g = .full p := by
  obtain ⟨G, hG, hc⟩ := selectFromCandidates_cases h
  have GI := groupPatches_spec hG
  constructor
  · rintro ⟨u, hu, he⟩
    obtain ⟨c, hc1, _, _⟩ := toCandidate_of_patchInfo (GI.allOk u hu (Or.inl he))
    have hmem : c ∈ G.full := by
      rw [GI.full]; exact mem_filterMap_of hu (by simp [he]) hc1
    rcases hc with ⟨c', _, rfl⟩ | ⟨hf, _⟩ | ⟨hf, _⟩ | ⟨hf, _⟩ | ⟨hf, _⟩
    · exact ⟨_, rfl⟩
    all_goals (rw [hf] at hmem; cases hmem)
  · rintro ⟨p, rfl⟩
    rcases hc with ⟨c, hc, hg⟩ | ⟨_, _, _, _, _, hg⟩ | ⟨_, _, _, _, hg⟩ | ⟨_, _, _, _, hg⟩ | ⟨_, _, _, hg⟩
    · have hmem := (selectInvalidating_max hc).1
      rw [GI.full] at hmem
      obtain ⟨u, hu, _⟩ := List.mem_filterMap.1 hmem
      obtain ⟨hu1, hu2⟩ := List.mem_filter.1 hu
      exact ⟨u, hu1, by simpa using hu2⟩
    all_goals cases hg

/-- the full-invalidation choice -/
theorem sel_full_max (h : selectFromCandidates cands iftId iftxId = .ok g) (p : PatchInfo)
    (hg : g = .full p) :
    ∃ u, u ∈ cands ∧ u.enc = .tkFull ∧ toPatchInfo u = some p ∧
      ∀ v, v ∈ cands → v.enc = .tkFull → ¬ infoLt u.info v.info := by
  obtain ⟨G, hG, hc⟩ := selectFromCandidates_cases h
  have GI := groupPatches_spec hG
  subst hg
  rcases hc with ⟨c, hc, hg⟩ | ⟨_, _, _, _, _, hg⟩ | ⟨_, _, _, _, hg⟩ | ⟨_, _, _, _, hg⟩ | ⟨_, _, _, hg⟩
  · cases hg
    obtain ⟨hmem, hmax⟩ := selectInvalidating_max hc
    rw [GI.full] at hmem
    obtain ⟨u, hu, hcu⟩ := List.mem_filterMap.1 hmem
    obtain ⟨hu1, hu2⟩ := List.mem_filter.1 hu
    obtain ⟨hpi, hinfo⟩ := toCandidate_some hcu
    refine ⟨u, hu1, by simpa using hu2, hpi, ?_⟩
    intro v hv hve
    obtain ⟨cv, hcv, _, hvi⟩ := toCandidate_of_patchInfo (GI.allOk v hv (Or.inl hve))
    have := hmax cv (by rw [GI.full]; exact mem_filterMap_of hv (by simp [hve]) hcv)
    rwa [hinfo, hvi] at this
  all_goals cases hg

/-- the partial-invalidation choice for the first table -/
theorem sel_partial_ift_max (h : selectFromCandidates cands iftId iftxId = .ok g) (p : PatchInfo)
    (B : Scoped) (hg : g = .mixed (.partialInv p) B) :
    ∃ u, u ∈ cands ∧ u.enc = .tkPartial ∧ some u.compat = iftId ∧ toPatchInfo u = some p ∧
      ∀ v, v ∈ cands → v.enc = .tkPartial → some v.compat = iftId → ¬ infoLt u.info v.info := by
  obtain ⟨G, hG, hc⟩ := selectFromCandidates_cases h
  have GI := groupPatches_spec hG
  subst hg
  have key : ∀ a : Candidate, selectInvalidating G.partialIft = some a →
      ∃ u, u ∈ cands ∧ u.enc = .tkPartial ∧ some u.compat = iftId ∧ toPatchInfo u = some a.patch ∧
      ∀ v, v ∈ cands → v.enc = .tkPartial → some v.compat = iftId → ¬ infoLt u.info v.info := by
    intro a ha
    obtain ⟨hmem, hmax⟩ := selectInvalidating_max ha
    rw [GI.partA] at hmem
    obtain ⟨u, hu, hcu⟩ := List.mem_filterMap.1 hmem
    obtain ⟨hu1, hu2⟩ := List.mem_filter.1 hu
    simp only [decide_eq_true_eq] at hu2
    obtain ⟨hpi, hinfo⟩ := toCandidate_some hcu
    refine ⟨u, hu1, hu2.1, hu2.2, hpi, ?_⟩
    intro v hv hve hvc
    obtain ⟨cv, hcv, _, hvi⟩ := toCandidate_of_patchInfo (GI.allOk v hv (Or.inr (Or.inl hvc)))
    have := hmax cv (by rw [GI.partA]; exact mem_filterMap_of hv (by simp [hve, hvc]) hcv)
    rwa [hinfo, hvi] at this
  rcases hc with ⟨c, hc, hg⟩ | ⟨_, a, b, ha, _, hg⟩ | ⟨_, a, ha, _, hg⟩ | ⟨_, _, _, _, hg⟩ | ⟨_, _, _, hg⟩
  · cases hg
  · cases hg; exact key a ha
  · cases hg; exact key a ha
  · cases hg
  · cases hg

/-- the partial-invalidation choice for the second table: a maximum among the candidates of that
table whose uri differs from the one already picked for the first table -/
theorem sel_partial_iftx_max (h : selectFromCandidates cands iftId iftxId = .ok g) (q : PatchInfo)
    (A : Scoped) (hg : g = .mixed A (.partialInv q)) :
    ∃ u, u ∈ cands ∧ u.enc = .tkPartial ∧ some u.compat ≠ iftId ∧ some u.compat = iftxId ∧
      toPatchInfo u = some q ∧
      ∀ v, v ∈ cands → v.enc = .tkPartial → some v.compat ≠ iftId → some v.compat = iftxId →
        (∀ p, A = .partialInv p → uriString v ≠ some p.uri) → ¬ infoLt u.info v.info := by
  obtain ⟨G, hG, hc⟩ := selectFromCandidates_cases h
  have GI := groupPatches_spec hG
  subst hg
  rcases hc with ⟨c, hc, hg⟩ | ⟨_, a, b, ha, hb, hg⟩ | ⟨_, a, ha, _, hg⟩ | ⟨_, _, b, hb, hg⟩ | ⟨_, _, _, hg⟩
  · cases hg
  · cases hg
    obtain ⟨hmem, hmax⟩ := selectInvalidating_max hb
    have hmem' := (List.mem_filter.1 hmem).1
    rw [GI.partB] at hmem'
    obtain ⟨u, hu, hcu⟩ := List.mem_filterMap.1 hmem'
    obtain ⟨hu1, hu2⟩ := List.mem_filter.1 hu
    simp only [decide_eq_true_eq] at hu2
    obtain ⟨hpi, hinfo⟩ := toCandidate_some hcu
    refine ⟨u, hu1, hu2.1, hu2.2.1, hu2.2.2, hpi, ?_⟩
    intro v hv hve hvA hvB hne
    obtain ⟨cv, hcv, hcp, hvi⟩ := toCandidate_of_patchInfo (GI.allOk v hv (Or.inr (Or.inr hvB)))
    have hne' : a.patch.uri ≠ cv.patch.uri := by
      intro heq
      have := (toPatchInfo_fields hcp).1
      exact hne a.patch rfl (by rw [this, heq])
    have := hmax cv (List.mem_filter.2
      ⟨by rw [GI.partB]; exact mem_filterMap_of hv (by simp only [decide_eq_true_eq]; exact ⟨hve, hvA, hvB⟩) hcv, by simpa using hne'⟩)
    rwa [hinfo, hvi] at this
  · cases hg
  · cases hg
    obtain ⟨hmem, hmax⟩ := selectInvalidating_max hb
    rw [GI.partB] at hmem
    obtain ⟨u, hu, hcu⟩ := List.mem_filterMap.1 hmem
    obtain ⟨hu1, hu2⟩ := List.mem_filter.1 hu
    simp only [decide_eq_true_eq] at hu2
    obtain ⟨hpi, hinfo⟩ := toCandidate_some hcu
    refine ⟨u, hu1, hu2.1, hu2.2.1, hu2.2.2, hpi, ?_⟩
    intro v hv hve hvA hvB _
    obtain ⟨cv, hcv, _, hvi⟩ := toCandidate_of_patchInfo (GI.allOk v hv (Or.inr (Or.inr hvB)))
    have := hmax cv (by rw [GI.partB]; exact mem_filterMap_of hv (by simp only [decide_eq_true_eq]; exact ⟨hve, hvA, hvB⟩) hcv)
    rwa [hinfo, hvi] at this
  · cases hg


/-- every selected patch is one of the candidates -/
theorem sel_subset (h : selectFromCandidates cands iftId iftxId = .ok g) (p : PatchInfo)
    (hp : p ∈ g.invalidating ++ g.nonInvalidating) : ∃ u, u ∈ cands ∧ toPatchInfo u = some p := by
  obtain ⟨G, hG, hc⟩ := selectFromCandidates_cases h
  have GI := groupPatches_spec hG
  have hfull : ∀ c, c ∈ G.full → ∃ u, u ∈ cands ∧ toPatchInfo u = some c.patch := by
    intro c hc; rw [GI.full] at hc
    obtain ⟨u, hu, h1, _⟩ := mem_filterMap_toCandidate hc
    exact ⟨u, (List.mem_filter.1 hu).1, h1⟩
  have hpa : ∀ c, c ∈ G.partialIft → ∃ u, u ∈ cands ∧ toPatchInfo u = some c.patch := by
    intro c hc; rw [GI.partA] at hc
    obtain ⟨u, hu, h1, _⟩ := mem_filterMap_toCandidate hc
    exact ⟨u, (List.mem_filter.1 hu).1, h1⟩
  have hpb : ∀ c, c ∈ G.partialIftx → ∃ u, u ∈ cands ∧ toPatchInfo u = some c.patch := by
    intro c hc; rw [GI.partB] at hc
    obtain ⟨u, hu, h1, _⟩ := mem_filterMap_toCandidate hc
    exact ⟨u, (List.mem_filter.1 hu).1, h1⟩
  have hna : ∀ x, x ∈ G.noInvIft → ∃ u, u ∈ cands ∧ toPatchInfo u = some x.2 := by
    intro x hx; obtain ⟨u, hu, _, _, h1⟩ := GI.fromA x hx; exact ⟨u, hu, h1⟩
  have hnb : ∀ x, x ∈ G.noInvIftx → ∃ u, u ∈ cands ∧ toPatchInfo u = some x.2 := by
    intro x hx; obtain ⟨u, hu, _, _, _, h1⟩ := GI.fromB x hx; exact ⟨u, hu, h1⟩
  rcases hc with ⟨c, hc, rfl⟩ | ⟨_, a, b, ha, hb, rfl⟩ | ⟨_, a, ha, _, rfl⟩ | ⟨_, _, b, hb, rfl⟩ | ⟨_, _, _, rfl⟩
  · simp only [Group.invalidating, Group.nonInvalidating, List.append_nil, List.mem_singleton] at hp
    subst hp; exact hfull c (selectInvalidating_max hc).1
  · simp only [Group.invalidating, Group.nonInvalidating, List.append_nil, List.cons_append,
      List.nil_append, List.mem_cons, List.not_mem_nil, or_false] at hp
    rcases hp with rfl | rfl
    · exact hpa a (selectInvalidating_max ha).1
    · exact hpb b (List.mem_filter.1 (selectInvalidating_max hb).1).1
  · simp only [Group.invalidating, Group.nonInvalidating, List.append_nil, List.cons_append,
      List.nil_append, List.mem_cons, List.mem_map] at hp
    rcases hp with rfl | ⟨x, hx, rfl⟩
    · exact hpa a (selectInvalidating_max ha).1
    · exact hnb x (List.mem_filter.1 hx).1
  · simp only [Group.invalidating, Group.nonInvalidating, List.append_nil, List.cons_append,
      List.nil_append, List.mem_cons, List.mem_map] at hp
    rcases hp with rfl | ⟨x, hx, rfl⟩
    · exact hpb b (selectInvalidating_max hb).1
    · exact hna x (List.mem_filter.1 hx).1
  · simp only [Group.invalidating, Group.nonInvalidating, List.append_nil,
      List.nil_append, List.mem_append, List.mem_map] at hp
    rcases hp with ⟨x, hx, rfl⟩ | ⟨x, hx, rfl⟩
    · exact hna x hx
    · exact hnb x (List.mem_filter.1 hx).1

/-- each slot of a mixed group only holds patches of its own mapping table (by compat id) -/
theorem sel_slots (h : selectFromCandidates cands iftId iftxId = .ok g) (A B : Scoped)
    (hg : g = .mixed A B) :
    (∀ p, A = .partialInv p → some p.compat = iftId) ∧
    (∀ m, A = .noInv m → ∀ x, x ∈ m → some x.2.compat = iftId) ∧
    (∀ q, B = .partialInv q → some q.compat = iftxId ∧ some q.compat ≠ iftId) ∧
    (∀ m, B = .noInv m → ∀ x, x ∈ m → some x.2.compat = iftxId ∧ some x.2.compat ≠ iftId) := by
  obtain ⟨G, hG, hc⟩ := selectFromCandidates_cases h
  have GI := groupPatches_spec hG
  have hna : ∀ x, x ∈ G.noInvIft → some x.2.compat = iftId := by
    intro x hx; obtain ⟨u, _, _, hcA, h1⟩ := GI.fromA x hx
    rw [(toPatchInfo_fields h1).2.2.1]; exact hcA
  have hnb : ∀ x, x ∈ G.noInvIftx → some x.2.compat = iftxId ∧ some x.2.compat ≠ iftId := by
    intro x hx; obtain ⟨u, _, _, hcA, hcB, h1⟩ := GI.fromB x hx
    rw [(toPatchInfo_fields h1).2.2.1]; exact ⟨hcB, hcA⟩
  refine ⟨?_, ?_, ?_, ?_⟩
  · intro p hA; subst hA
    obtain ⟨u, _, _, hcA, h1, _⟩ := sel_partial_ift_max h p B hg
    rw [(toPatchInfo_fields h1).2.2.1]; exact hcA
  · intro m hA x hx; subst hA; subst hg
    rcases hc with ⟨c, hc, hg⟩ | ⟨_, a, b, ha, hb, hg⟩ | ⟨_, a, ha, _, hg⟩ | ⟨_, _, b, hb, hg⟩ | ⟨_, _, _, hg⟩
    · cases hg
    · cases hg
    · cases hg
    · cases hg; exact hna x (List.mem_filter.1 hx).1
    · cases hg; exact hna x hx
  · intro q hB; subst hB
    obtain ⟨u, _, _, hcA, hcB, h1, _⟩ := sel_partial_iftx_max h q A hg
    rw [(toPatchInfo_fields h1).2.2.1]; exact ⟨hcB, hcA⟩
  · intro m hB x hx; subst hB; subst hg
    rcases hc with ⟨c, hc, hg⟩ | ⟨_, a, b, ha, hb, hg⟩ | ⟨_, a, ha, _, hg⟩ | ⟨_, _, b, hb, hg⟩ | ⟨_, _, _, hg⟩
    · cases hg
    · cases hg
    · cases hg; exact hnb x (List.mem_filter.1 hx).1
    · cases hg
    · cases hg; exact hnb x (List.mem_filter.1 hx).1

/-- **progress of selection**: candidates that all belong to one of the font's two mapping tables
and are not all unusable give a group with at least one uri -/
theorem sel_progress (h : selectFromCandidates cands iftId iftxId = .ok g) (hne : cands ≠ [])
    (hfrom : ∀ u, u ∈ cands → some u.compat = iftId ∨ some u.compat = iftxId) :
    hasUris (some g) = true := by
  obtain ⟨G, hG, hc⟩ := selectFromCandidates_cases h
  have GI := groupPatches_spec hG
  rcases hc with ⟨c, hc, rfl⟩ | ⟨_, a, b, ha, hb, rfl⟩ | ⟨_, a, ha, _, rfl⟩ | ⟨_, _, b, hb, rfl⟩ | ⟨hf, hpa, hpb, rfl⟩
  · rfl
  · rfl
  · rfl
  · simp [hasUris]
  · obtain ⟨u, us, rfl⟩ := List.exists_cons_of_ne_nil hne
    have hu : u ∈ u :: us := List.mem_cons_self
    have hok : (toPatchInfo u).isSome = true :=
      GI.allOk u hu (Or.inr (hfrom u hu))
    obtain ⟨c, hc1, _, _⟩ := toCandidate_of_patchInfo hok
    cases henc : u.enc with
    | tkFull =>
      have : c ∈ G.full := by rw [GI.full]; exact mem_filterMap_of hu (by simp [henc]) hc1
      rw [hf] at this; cases this
    | tkPartial =>
      by_cases hA : some u.compat = iftId
      · have : c ∈ G.partialIft := by
          rw [GI.partA]; exact mem_filterMap_of hu (by simp only [decide_eq_true_eq]; exact ⟨henc, hA⟩) hc1
        rw [hpa] at this; cases this
      · have hB : some u.compat = iftxId := (hfrom u hu).resolve_left hA
        have : c ∈ G.partialIftx := by
          rw [GI.partB]
          exact mem_filterMap_of hu (by simp only [decide_eq_true_eq]; exact ⟨henc, hA, hB⟩) hc1
        rw [hpb] at this; cases this
    | glyphKeyed =>
      by_cases hA : some u.compat = iftId
      · have := GI.neA ⟨u, hu, henc, hA⟩
        cases hm : G.noInvIft with
        | nil => exact absurd hm this
        | cons _ _ => simp [hasUris, hm]
      · have hB : some u.compat = iftxId := (hfrom u hu).resolve_left hA
        have := GI.neB ⟨u, hu, henc, hA, hB⟩
        cases hm : G.noInvIft with
        | cons _ _ => simp [hasUris, hm]
        | nil =>
          cases hm2 : G.noInvIftx with
          | nil => exact absurd hm2 this
          | cons _ _ => simp [hasUris, hm, hm2]

end Selection
/-! ## the status map -/

theorem pdGet_setApplied (pd : PatchData) (u k : Uri) :
    pdGet (pdSetApplied pd u) k =
      if k = u then (pdGet pd k).map (fun _ => UriStatus.applied) else pdGet pd k := by
  induction pd with
  | nil => simp [pdSetApplied, pdGet]
  | cons x xs ih =>
    obtain ⟨k', v'⟩ := x
    simp only [pdSetApplied, List.map_cons, pdGet] at ih ⊢
    by_cases h1 : k' = u
    · subst h1
      by_cases h2 : k' = k
      · subst h2; simp [pdGet]
      · have h3 : ¬ k = k' := fun h => h2 h.symm
        simp only [↓reduceIte, pdGet, h2, h3]
        rw [ih]; simp [h3]
    · by_cases h2 : k' = k
      · subst h2; simp [pdGet, h1]
      · simp only [h1, ↓reduceIte, pdGet, h2]
        exact ih

theorem applied_stays (pd : PatchData) (u k : Uri) (h : pdGet pd k = some .applied) :
    pdGet (pdSetApplied pd u) k = some .applied := by
  rw [pdGet_setApplied]; split <;> simp [h]

theorem count_setApplied_ge (pd : PatchData) (u : Uri) :
    appliedCount pd ≤ appliedCount (pdSetApplied pd u) := by
  induction pd with
  | nil => simp [pdSetApplied, appliedCount]
  | cons x xs ih =>
    obtain ⟨k', v'⟩ := x
    simp only [appliedCount, pdSetApplied, List.map_cons, List.filter_cons] at ih ⊢
    by_cases h1 : k' = u
    · simp only [h1, ↓reduceIte, decide_true, List.length_cons]
      split <;> (try simp) <;> omega
    · simp only [h1, ↓reduceIte]
      split <;> (try simp) <;> omega

theorem count_setApplied_gt (pd : PatchData) (u : Uri) (data : List Nat)
    (h : pdGet pd u = some (.pending data)) :
    appliedCount pd < appliedCount (pdSetApplied pd u) := by
  induction pd with
  | nil => simp [pdGet] at h
  | cons x xs ih =>
    obtain ⟨k', v'⟩ := x
    simp only [pdGet] at h
    by_cases h1 : k' = u
    · simp only [h1, ↓reduceIte, Option.some.injEq] at h
      subst h
      have := count_setApplied_ge xs u
      simp only [appliedCount, pdSetApplied, List.map_cons, List.filter_cons, h1, ↓reduceIte,
        decide_true, List.length_cons] at this ⊢
      simp
      omega
    · simp only [h1, ↓reduceIte] at h
      have := ih h
      simp only [appliedCount, pdSetApplied, List.map_cons, List.filter_cons, h1, ↓reduceIte] at this ⊢
      split <;> simp <;> omega

theorem fold_applied_stays (ps : List PatchInfo) : ∀ (pd : PatchData) (k : Uri),
    pdGet pd k = some .applied →
    pdGet (ps.foldl (fun pd p => pdSetApplied pd p.uri) pd) k = some .applied := by
  induction ps with
  | nil => intro pd k h; exact h
  | cons p ps ih => intro pd k h; exact ih _ k (applied_stays pd p.uri k h)

theorem fold_count_ge (ps : List PatchInfo) : ∀ (pd : PatchData),
    appliedCount pd ≤ appliedCount (ps.foldl (fun pd p => pdSetApplied pd p.uri) pd) := by
  induction ps with
  | nil => intro pd; exact Nat.le_refl _
  | cons p ps ih => intro pd; exact Nat.le_trans (count_setApplied_ge pd p.uri) (ih _)

theorem fold_sets (ps : List PatchInfo) : ∀ (pd : PatchData) (p : PatchInfo), p ∈ ps →
    (pdGet pd p.uri).isSome = true →
    pdGet (ps.foldl (fun pd p => pdSetApplied pd p.uri) pd) p.uri = some .applied := by
  induction ps with
  | nil => intro pd p hp; cases hp
  | cons q qs ih =>
    intro pd p hp hs
    simp only [List.foldl_cons]
    by_cases hq : p.uri = q.uri
    · apply fold_applied_stays
      rw [pdGet_setApplied, if_pos hq]
      cases hg : pdGet pd p.uri with
      | none => simp [hg] at hs
      | some _ => rfl
    · rcases List.mem_cons.1 hp with rfl | hp
      · exact absurd rfl hq
      · apply ih _ p hp
        rw [pdGet_setApplied, if_neg hq]; exact hs

theorem fold_count_gt (ps : List PatchInfo) : ∀ (pd : PatchData) (p : PatchInfo) (data : List Nat),
    p ∈ ps → pdGet pd p.uri = some (.pending data) →
    appliedCount pd < appliedCount (ps.foldl (fun pd p => pdSetApplied pd p.uri) pd) := by
  induction ps with
  | nil => intro pd p data hp; cases hp
  | cons q qs ih =>
    intro pd p data hp hs
    simp only [List.foldl_cons]
    by_cases hq : p.uri = q.uri
    · exact Nat.lt_of_lt_of_le (count_setApplied_gt pd q.uri data (hq ▸ hs)) (fold_count_ge qs _)
    · rcases List.mem_cons.1 hp with rfl | hp
      · exact absurd rfl hq
      · have : pdGet (pdSetApplied pd q.uri) p.uri = some (.pending data) := by
          rw [pdGet_setApplied, if_neg hq]; exact hs
        exact Nat.lt_of_le_of_lt (count_setApplied_ge pd q.uri) (ih _ p data hp this)

theorem accumulate_mem (pd : PatchData) : ∀ (ps : List PatchInfo) (acc : List (PatchInfo × List Nat)),
    accumulate pd ps = some acc → ∀ x, x ∈ acc → x.1 ∈ ps ∧ pdGet pd x.1.uri = some (.pending x.2) := by
  intro ps
  induction ps with
  | nil => intro acc h x hx; simp only [accumulate, Option.some.injEq] at h; subst h; cases hx
  | cons p ps ih =>
    intro acc h x hx
    simp only [accumulate] at h
    split at h
    · cases h
    · obtain ⟨h1, h2⟩ := ih acc h x hx
      exact ⟨List.mem_cons_of_mem _ h1, h2⟩
    · next data hd =>
      split at h
      · cases h
      · next acc' hacc =>
        cases h
        rcases List.mem_cons.1 hx with rfl | hx
        · exact ⟨List.mem_cons_self, hd⟩
        · obtain ⟨h1, h2⟩ := ih acc' hacc x hx
          exact ⟨List.mem_cons_of_mem _ h1, h2⟩

/-- **one apply round makes progress**: a successful `apply_next_patches` turns at least one uri of
the group from `Pending` to `Applied`, never un-applies anything, and strictly increases the number
of applied uris — for arbitrary patch-application functions -/
theorem applyNext_progress {F : Type} (g : Option Group)
    (applyTk : PatchInfo → List Nat → Except String F)
    (applyGk : List (PatchInfo × List Nat) → Except String F)
    (pd pd' : PatchData) (f : F) (h : applyNext g applyTk applyGk pd = .ok (f, pd')) :
    (∃ u data, u ∈ optUris g ∧ pdGet pd u = some (.pending data) ∧ pdGet pd' u = some .applied) ∧
    (∀ k, pdGet pd k = some .applied → pdGet pd' k = some .applied) ∧
    appliedCount pd < appliedCount pd' := by
  have hrest : ∀ (nonInv : List PatchInfo),
      (match accumulate pd nonInv with
        | none => (Except.error "err:MissingPatches" : Except String (F × PatchData))
        | some acc =>
          if acc.isEmpty then .error "err:EmptyPatchList" else
          match applyGk acc with
          | .error e => .error e
          | .ok f => .ok (f, nonInv.foldl (fun (pd : PatchData) (p : PatchInfo) => pdSetApplied pd p.uri) pd)) = .ok (f, pd') →
      (∃ (p : PatchInfo) (data : List Nat), p ∈ nonInv ∧ pdGet pd p.uri = some (.pending data) ∧ pdGet pd' p.uri = some .applied) ∧
      (∀ k, pdGet pd k = some .applied → pdGet pd' k = some .applied) ∧
      appliedCount pd < appliedCount pd' := by
    intro nonInv h
    split at h
    · cases h
    · next acc hacc =>
      split at h
      · cases h
      · next hne =>
        split at h
        · cases h
        · next f' _ =>
          cases h
          cases acc with
          | nil => simp at hne
          | cons x xs =>
            obtain ⟨h1, h2⟩ := accumulate_mem pd nonInv _ hacc x List.mem_cons_self
            exact ⟨⟨x.1, x.2, h1, h2, fold_sets nonInv pd x.1 h1 (by simp [h2])⟩,
              fun k hk => fold_applied_stays nonInv pd k hk, fold_count_gt nonInv pd x.1 x.2 h1 h2⟩
  have huris : ∀ p, (p ∈ (match g with | none => [] | some g => g.invalidating) ∨
      p ∈ (match g with | none => [] | some g => g.nonInvalidating)) → p.uri ∈ optUris g := by
    intro p hp
    cases g with
    | none => simp at hp
    | some G =>
      simp only [optUris, Group.uris, List.mem_map]
      exact ⟨p, List.mem_append.2 hp, rfl⟩
  unfold applyNext at h
  simp only [] at h
  split at h
  · next p hp =>
    split at h
    · cases h
    · next data hd =>
      split at h
      · cases h
      · next f' _ =>
        cases h
        have hmem : p ∈ (match g with | none => [] | some g => g.invalidating) :=
          List.mem_of_mem_head? hp
        refine ⟨⟨p.uri, data, huris p (Or.inl hmem), hd, ?_⟩, fun k hk => applied_stays pd p.uri k hk,
          count_setApplied_gt pd p.uri data hd⟩
        rw [pdGet_setApplied, if_pos rfl, hd]; rfl
    · obtain ⟨⟨p', data, h1, h2, h3⟩, h4, h5⟩ := hrest _ h
      exact ⟨⟨p'.uri, data, huris p' (Or.inr h1), h2, h3⟩, h4, h5⟩
  · obtain ⟨⟨p', data, h1, h2, h3⟩, h4, h5⟩ := hrest _ h
    exact ⟨⟨p'.uri, data, huris p' (Or.inr h1), h2, h3⟩, h4, h5⟩


theorem count_append_pending (pd : PatchData) (u : Uri) (data : List Nat) :
    appliedCount (pd ++ [(u, .pending data)]) = appliedCount pd := by
  simp [appliedCount, List.filter_append]

theorem fetchMissing_count (fetch : Uri → List Nat) (uris : List Uri) : ∀ pd : PatchData,
    appliedCount (fetchMissing fetch pd uris) = appliedCount pd := by
  induction uris with
  | nil => intro pd; rfl
  | cons u us ih =>
    intro pd
    simp only [fetchMissing, List.foldl_cons] at ih ⊢
    split
    · exact ih pd
    · rw [ih, count_append_pending]

/-- **the extension loop makes one uri of progress per round**: `rounds` only advances together
with the number of applied uris, whatever the fonts, patches and server do -/
theorem extend_progress {F : Type} (select : F → Except String (Option Group))
    (applyTk : F → PatchInfo → List Nat → Except String F)
    (applyGk : F → List (PatchInfo × List Nat) → Except String F)
    (fetch : Uri → List Nat) : ∀ (fuel rounds : Nat) (font : F) (pd : PatchData),
    match extend select applyTk applyGk fetch fuel rounds font pd with
    | .done _ pd' r' => r' + appliedCount pd ≤ rounds + appliedCount pd'
    | .failed _ r' => rounds ≤ r'
    | .outOfFuel _ pd' => fuel + appliedCount pd ≤ appliedCount pd' := by
  intro fuel
  induction fuel with
  | zero => intro rounds font pd; simp [extend]
  | succ n ih =>
    intro rounds font pd
    simp only [extend]
    cases hs : select font with
    | error e => simp
    | ok g =>
      simp only []
      by_cases hh : (!hasUris g) = true
      · simp [hh]
      · simp only [hh, Bool.false_eq_true, ↓reduceIte]
        cases happ : applyNext g (applyTk font) (applyGk font) (fetchMissing fetch pd (optUris g)) with
        | error e => simp
        | ok r =>
          obtain ⟨font', pd'⟩ := r
          simp only []
          have hp := (applyNext_progress g (applyTk font) (applyGk font) _ pd' font' happ).2.2
          rw [fetchMissing_count] at hp
          have := ih (rounds + 1) font' pd'
          cases hr : extend select applyTk applyGk fetch n (rounds + 1) font' pd' with
          | done f2 pd2 r2 => simp only [hr] at this ⊢; omega
          | failed e r2 => simp only [hr] at this ⊢; omega
          | outOfFuel f2 pd2 => simp only [hr] at this ⊢; omega


/-! ## provenance of candidates -/

theorem intersectF1_from {tag : TableTag} {t : F1Table} {d : SubsetDef} {us : List PatchUri}
    (h : intersectF1 tag t d = .ok us) : ∀ u, u ∈ us → u.table = tag ∧ u.compat = t.compat := by
  unfold intersectF1 at h
  repeat' split at h
  all_goals first | (cases h; done) | skip
  simp only [] at h
  repeat' split at h
  all_goals first | (cases h; done) | skip
  all_goals (
    cases h
    intro u hu
    obtain ⟨p, _, rfl⟩ := List.mem_map.1 hu
    exact ⟨rfl, rfl⟩)

theorem intersectF2_from {tag : TableTag} {t : F2Table} {d : SubsetDef} {us : List PatchUri}
    (h : intersectF2 tag t d = .ok us) : ∀ u, u ∈ us → u.table = tag ∧ u.compat = t.compat := by
  unfold intersectF2 at h
  split at h
  · cases h
  · next es hes =>
    cases h
    intro u hu
    simp only [offeredF2, List.mem_map] at hu
    obtain ⟨i, hi, rfl⟩ := hu
    have hlt := ((mem_offeredIdx es d i).1 hi).1
    have hmem : es.getD i default ∈ es := by
      rw [List.getD_eq_getElem?_getD, List.getElem?_eq_getElem hlt]; exact List.getElem_mem hlt
    have := (decodeF2_inv hes).2 _ hmem
    unfold offeredUri
    split <;> exact this

theorem intersectTable_from {tag : TableTag} {d : SubsetDef} {m : MapTable} {us : List PatchUri}
    (h : intersectTable tag d m = .ok us) :
    ∀ u, u ∈ us → u.table = tag ∧ some u.compat = MapTable.compatId m := by
  cases m with
  | none => simp only [intersectTable] at h; cases h; intro u hu; cases hu
  | f1 t => intro u hu; have := intersectF1_from h u hu; exact ⟨this.1, by simp [MapTable.compatId, this.2]⟩
  | f2 t => intro u hu; have := intersectF2_from h u hu; exact ⟨this.1, by simp [MapTable.compatId, this.2]⟩

theorem intersectingPatches_from {ift iftx : MapTable} {d : SubsetDef} {us : List PatchUri}
    (h : intersectingPatches ift iftx d = .ok us) :
    ∀ u, u ∈ us → (u.table = .ift ∧ some u.compat = MapTable.compatId ift) ∨
                  (u.table = .iftx ∧ some u.compat = MapTable.compatId iftx) := by
  unfold intersectingPatches at h
  split at h
  · cases h
  · next a ha =>
    split at h
    · cases h
    · next b hb =>
      cases h
      intro u hu
      rcases List.mem_append.1 hu with hu | hu
      · exact Or.inl (intersectTable_from ha u hu)
      · exact Or.inr (intersectTable_from hb u hu)

/-- the three outcomes of `select_next_patches` -/
theorem selectNext_cases {ift iftx : MapTable} {d : SubsetDef} {g : Option Group}
    (h : selectNext ift iftx d = .ok g) :
    ∃ cands, intersectingPatches ift iftx d = .ok cands ∧
      ((cands = [] ∧ g = none) ∨
       (cands ≠ [] ∧ MapTable.compatId ift ≠ MapTable.compatId iftx ∧ ∃ G, g = some G ∧
          selectFromCandidates cands (MapTable.compatId ift) (MapTable.compatId iftx) = .ok G)) := by
  unfold selectNext at h
  split at h
  · cases h
  · next cands hc =>
    refine ⟨cands, hc, ?_⟩
    split at h
    · next he => cases h; exact Or.inl ⟨by simpa using he, rfl⟩
    · next he =>
      split at h
      · cases h
      · next hne =>
        split at h
        · cases h
        · next G hG => cases h; exact Or.inr ⟨by simpa using he, hne, G, rfl, hG⟩

end FontVerif.PatchGroup
