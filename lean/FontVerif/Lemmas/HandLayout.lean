/-
Helper lemmas for Props/C01HandLayout.lean: the unconditional index bound of the transcribed
`binary_search_by`, list facts about the range expansions, and the decoding loop of `Device::iter`.
-/
import FontVerif.Model.HandLayout
set_option linter.unusedVariables false
set_option linter.unusedSimpArgs false
namespace FontVerif.HandLayout
open FontVerif FontVerif.HandRead FontVerif.Layout

/-! ## `binary_search_by` on arbitrary (unsorted) data -/

/-- the loop keeps `base` inside the window it started with — for every comparison function -/
theorem bsLoop_bounds (cmp : Nat → Ordering) : ∀ size base, 1 ≤ size →
    base ≤ bsLoop cmp size base ∧ bsLoop cmp size base < base + size := by
  intro size
  induction size using Nat.strongRecOn with
  | _ size ih =>
    intro base h1
    unfold bsLoop
    by_cases h : size > 1
    · simp only [h, dif_pos]
      have hlt : size - size / 2 < size := by omega
      have hge : 1 ≤ size - size / 2 := by omega
      by_cases hc : (cmp (base + size / 2) == .gt) = true
      · rw [if_pos hc]
        have := ih (size - size / 2) hlt base hge
        omega
      · rw [if_neg hc]
        have := ih (size - size / 2) hlt (base + size / 2) hge
        omega
    · simp only [h, dif_neg, not_false_eq_true]
      omega

/-- `Ok(i)` is an index of the slice at which the comparison said `Equal` -/
theorem bs_ok {n : Nat} {cmp : Nat → Ordering} {i : Nat} (h : binarySearchBy n cmp = .ok i) :
    i < n ∧ cmp i = .eq := by
  unfold binarySearchBy at h
  by_cases hn : n = 0
  · simp [hn] at h
  · simp only [hn, if_false] at h
    have hb := bsLoop_bounds cmp n 0 (by omega)
    generalize bsLoop cmp n 0 = b at h hb
    cases hc : cmp b with
    | eq => simp only [hc] at h; injection h with h; subst h; exact ⟨by omega, hc⟩
    | lt => simp [hc] at h
    | gt => simp [hc] at h

/-- `Err(i)` is an insertion point: at most the length -/
theorem bs_err {n : Nat} {cmp : Nat → Ordering} {i : Nat} (h : binarySearchBy n cmp = .err i) : i ≤ n := by
  unfold binarySearchBy at h
  by_cases hn : n = 0
  · simp [hn] at h; omega
  · simp only [hn, if_false] at h
    have hb := bsLoop_bounds cmp n 0 (by omega)
    generalize bsLoop cmp n 0 = b at h hb
    cases hc : cmp b with
    | eq => simp [hc] at h
    | lt => simp only [hc] at h; injection h with h; omega
    | gt => simp only [hc] at h; injection h with h; omega

theorem natCmp_eq {a b : Nat} (h : natCmp a b = .eq) : a = b := by
  unfold natCmp at h
  split at h
  · cases h
  · split at h
    · assumption
    · cases h

theorem rangeCmp_eq {r : RangeRec} {g : Nat} (h : rangeCmp r g = .eq) : r.start ≤ g ∧ g ≤ r.end_ := by
  unfold rangeCmp at h
  split at h
  · cases h
  · split at h
    · cases h
    · omega

theorem getD_of_lt {α : Type} (xs : List α) (i : Nat) (d : α) (h : i < xs.length) :
    xs[i]? = some (xs.getD i d) := by
  simp [List.getD, List.getElem?_eq_getElem h]

/-! ## Coverage -/

theorem cov1Get_ne_trap (xs : List Nat) (g : Nat) : cov1Get xs g ≠ .trap := by
  unfold cov1Get
  split
  · simp
  · split <;> simp

theorem cov1Get_some {xs : List Nat} {g i : Nat} (hlen : xs.length ≤ 65536)
    (h : cov1Get xs g = .val (some i)) : g < 65536 ∧ i < xs.length ∧ xs[i]? = some g := by
  unfold cov1Get at h
  by_cases hg : g ≥ 65536
  · simp [hg] at h
  · simp only [hg, if_false] at h
    cases hb : binarySearchBy xs.length (fun i => natCmp (xs.getD i 0) g) with
    | err j => rw [hb] at h; simp at h
    | ok j =>
      rw [hb] at h
      have ⟨hj, he⟩ := bs_ok hb
      have he' := natCmp_eq he
      injection h with h
      injection h with h
      have : j % 65536 = j := Nat.mod_eq_of_lt (by omega)
      rw [this] at h
      subst h
      refine ⟨by omega, hj, ?_⟩
      rw [getD_of_lt xs j 0 hj, he']

/-- the transcription with representable panics computes `Layout.Coverage.get` (C06's model) -/
theorem cov2Get_val (rs : List RangeRec) (g : Nat) : cov2Get rs g = .val ((Coverage.fmt2 rs).get g) := by
  unfold cov2Get Coverage.get
  by_cases hg : g ≥ 65536
  · simp [hg]
  · simp only [hg, if_false]
    cases hb : binarySearchBy rs.length (fun i => rangeCmp (rs.getD i default) g) with
    | err j => rfl
    | ok j =>
      have ⟨hj, he⟩ := bs_ok hb
      have hr := rangeCmp_eq he
      simp only []
      rw [getD_of_lt rs j default hj]
      simp only [subTrap, hr.1, if_true, Res.bind]

theorem cov2Get_some {rs : List RangeRec} {g i : Nat} (h : cov2Get rs g = .val (some i)) :
    g < 65536 ∧ i < 65536 ∧ ∃ r ∈ rs, r.start ≤ g ∧ g ≤ r.end_ ∧ i = r.startCov + (g - r.start) := by
  rw [cov2Get_val] at h
  injection h with h
  unfold Coverage.get at h
  by_cases hg : g ≥ 65536
  · simp [hg] at h
  · simp only [hg, if_false] at h
    cases hb : binarySearchBy rs.length (fun i => rangeCmp (rs.getD i default) g) with
    | err j => rw [hb] at h; simp at h
    | ok j =>
      rw [hb] at h
      simp only [] at h
      have ⟨hj, he⟩ := bs_ok hb
      have hr := rangeCmp_eq he
      by_cases hc : (rs.getD j default).startCov + (g - (rs.getD j default).start) < 65536
      · rw [if_pos hc] at h
        injection h with h
        refine ⟨by omega, by omega, rs.getD j default, ?_, hr.1, hr.2, h.symm⟩
        exact List.mem_of_getElem? (getD_of_lt rs j default hj)
      · rw [if_neg hc] at h; cases h

/-- Σ max(0, end − start + 1) -/
def popSum (ps : List (Nat × Nat)) : Nat := (ps.map (fun p => p.2 + 1 - p.1)).sum

theorem popSum_le (ps : List (Nat × Nat)) (h : ∀ p ∈ ps, p.2 < 65536) : popSum ps ≤ 65536 * ps.length := by
  induction ps with
  | nil => simp [popSum]
  | cons p rest ih =>
    have h1 := h p (by simp)
    have h2 := ih (fun q hq => h q (by simp [hq]))
    simp only [popSum, List.map_cons, List.sum_cons, List.length_cons] at *
    omega

theorem expandRanges_length (rs : List RangeRec) :
    (expandRanges rs).length = popSum (rs.map (fun r => (r.start, r.end_))) := by
  induction rs with
  | nil => simp [expandRanges, popSum]
  | cons r rest ih =>
    simp only [expandRanges, List.length_append, ih, RangeRec.glyphs, List.length_range', popSum,
      List.map_cons, List.sum_cons]

theorem mem_expandRanges {rs : List RangeRec} {g : Nat} (h : g ∈ expandRanges rs) :
    ∃ r ∈ rs, r.start ≤ g ∧ g ≤ r.end_ := by
  induction rs with
  | nil => simp [expandRanges] at h
  | cons r rest ih =>
    simp only [expandRanges, List.mem_append] at h
    rcases h with h | h
    · simp only [RangeRec.glyphs, List.mem_range'_1] at h
      exact ⟨r, by simp, by omega, by omega⟩
    · obtain ⟨r', hr', h1, h2⟩ := ih h
      exact ⟨r', by simp [hr'], h1, h2⟩

theorem rangePop_val (s e : Nat) (h : e + 1 - s ≤ MAXU) : rangePop s e = .val (e + 1 - s) := by
  unfold rangePop
  by_cases hse : s > e
  · simp only [hse, if_true]
    congr 1; omega
  · simp only [hse, if_false, subTrap, Res.bind, addTrapU]
    have : s ≤ e := by omega
    simp only [this, if_true]
    have h2 : e - s + 1 ≤ MAXU := by omega
    simp only [h2, if_true]
    congr 1; omega

theorem popFold_val (ps : List (Nat × Nat)) : ∀ acc, acc + popSum ps ≤ MAXU →
    popFold acc ps = .val (acc + popSum ps) := by
  induction ps with
  | nil => intro acc _; simp [popFold, popSum]
  | cons p rest ih =>
    intro acc h
    obtain ⟨s, e⟩ := p
    simp only [popSum, List.map_cons, List.sum_cons] at h
    have h1 : e + 1 - s ≤ MAXU := by omega
    simp only [popFold, rangePop_val s e h1, Res.bind, addTrapU]
    have h2 : acc + (e + 1 - s) ≤ MAXU := by omega
    simp only [h2, if_true]
    have := ih (acc + (e + 1 - s)) (by simp only [popSum]; omega)
    rw [this]
    simp only [popSum, List.map_cons, List.sum_cons]
    congr 1; omega

theorem anyR_val {α : Type} (f : α → Res Bool) (xs : List α) (h : ∀ x ∈ xs, f x ≠ .trap) :
    ∃ b, anyR f xs = .val b ∧ (b = true → ∃ x ∈ xs, f x = .val true) := by
  induction xs with
  | nil => exact ⟨false, rfl, by simp⟩
  | cons x rest ih =>
    have hx := h x (by simp)
    obtain ⟨b, hb, hb2⟩ := ih (fun y hy => h y (by simp [hy]))
    unfold anyR
    cases hf : f x with
    | trap => exact absurd hf hx
    | val v =>
      cases v with
      | true => exact ⟨true, rfl, fun _ => ⟨x, by simp, hf⟩⟩
      | false =>
        refine ⟨b, hb, fun hbt => ?_⟩
        obtain ⟨y, hy, hfy⟩ := hb2 hbt
        exact ⟨y, by simp [hy], hfy⟩

/-! ## ClassDef -/

theorem cls2Iter_length (rs : List ClassRangeRec) :
    (cls2Iter rs).length = popSum (rs.map (fun r => (r.start, r.end_))) := by
  induction rs with
  | nil => simp [cls2Iter, popSum]
  | cons r rest ih =>
    simp only [cls2Iter, List.length_append, List.length_map, List.length_range', ih, popSum,
      List.map_cons, List.sum_cons]

theorem mem_cls2Iter {rs : List ClassRangeRec} {p : Nat × Nat} (h : p ∈ cls2Iter rs) :
    ∃ r ∈ rs, r.start ≤ p.1 ∧ p.1 ≤ r.end_ ∧ p.2 = r.cls := by
  induction rs with
  | nil => simp [cls2Iter] at h
  | cons r rest ih =>
    simp only [cls2Iter, List.mem_append, List.mem_map, List.mem_range'_1] at h
    rcases h with ⟨g, hg, rfl⟩ | h
    · exact ⟨r, by simp, by simp; omega, by simp; omega, rfl⟩
    · obtain ⟨r', hr', h1⟩ := ih h
      exact ⟨r', by simp [hr'], h1⟩

/-! ## Device -/

theorem valueCount_eq (fmt s e : Nat) : valueCount fmt s e =
    (if fmt = 1 then (e + 1 - s) / 8 + min ((e + 1 - s) % 8) 1
     else if fmt = 2 then (e + 1 - s) / 4 + min ((e + 1 - s) % 4) 1
     else if fmt = 3 then (e + 1 - s) / 2 + min ((e + 1 - s) % 2) 1
     else 0) := by
  simp only [valueCount, Shape.customByName]
  by_cases h1 : fmt = 1
  · simp [h1]
  · by_cases h2 : fmt = 2
    · simp [h2]
    · by_cases h3 : fmt = 3
      · simp [h3]
      · simp [h1, h2, h3]

/-- `x as i8` is an `i8` -/
theorem toI8_range (x : Int) : -128 ≤ toI8 x ∧ toI8 x ≤ 127 := by
  unfold toI8; omega

/-- the decoding loop over slot indices below `16 / bits` never panics, yields one value per slot -/
theorem packedLoop_val (raw mask signMask bits : Nat) (hb : bits = 2 ∨ bits = 4 ∨ bits = 8) :
    ∀ is : List Nat, (∀ i ∈ is, i < 16 / bits) →
      ∃ vs, packedLoop raw mask signMask bits is = .val vs ∧ vs.length = is.length ∧
        ∀ v ∈ vs, -128 ≤ v ∧ v ≤ 127 := by
  intro is
  induction is with
  | nil => intro _; exact ⟨[], rfl, rfl, by simp⟩
  | cons i rest ih =>
    intro h
    have hi := h i (by simp)
    obtain ⟨vs, hvs, hl, hr⟩ := ih (fun j hj => h j (by simp [hj]))
    have hib : i * bits ≤ 16 - bits ∧ 16 - bits - i * bits < 16 ∧ i < 8 ∧ bits ≤ 16 := by
      rcases hb with rfl | rfl | rfl <;> simp at hi <;> omega
    unfold packedLoop
    simp only [subTrap, hib.2.2.2, if_true, Res.bind, hib.1]
    have h1 : ¬ (16 - bits - i * bits ≥ 16) := by omega
    have h2 : ¬ (i ≥ 8) := by omega
    simp only [h1, h2, if_false, hvs]
    refine ⟨_, rfl, by simp [hl], ?_⟩
    intro v hv
    simp only [List.mem_cons] at hv
    rcases hv with rfl | hv
    · split <;> exact toI8_range _
    · exact hr v hv

theorem iterPackedValues_val (raw fmt n : Nat) (hf : fmt = 1 ∨ fmt = 2 ∨ fmt = 3) :
    ∃ vs, iterPackedValues raw fmt n = .val vs ∧
      vs.length = min n (if fmt = 1 then 8 else if fmt = 2 then 4 else 2) ∧
      ∀ v ∈ vs, -128 ≤ v ∧ v ≤ 127 := by
  unfold iterPackedValues packParams
  rcases hf with rfl | rfl | rfl
  · simp only [if_true]
    obtain ⟨vs, h1, h2, h3⟩ := packedLoop_val raw 3 2 2 (by simp) (List.range (min n (16 / 2)))
      (by intro i hi; simp at hi ⊢; omega)
    exact ⟨vs, by simpa using h1, by simp [h2], h3⟩
  · simp only [show (2 : Nat) ≠ 1 by decide, if_false, if_true]
    obtain ⟨vs, h1, h2, h3⟩ := packedLoop_val raw 15 8 4 (by simp) (List.range (min n (16 / 4)))
      (by intro i hi; simp at hi ⊢; omega)
    exact ⟨vs, by simpa using h1, by simp [h2], h3⟩
  · simp only [show (3 : Nat) ≠ 1 by decide, show (3 : Nat) ≠ 2 by decide, if_false, if_true]
    obtain ⟨vs, h1, h2, h3⟩ := packedLoop_val raw 255 128 8 (by simp) (List.range (min n (16 / 8)))
      (by intro i hi; simp at hi ⊢; omega)
    exact ⟨vs, by simpa using h1, by simp [h2], h3⟩

/-- for a format without deltas the very first word panics (`16 / bits` with `bits = 0`) -/
theorem iterPackedValues_trap (raw fmt n : Nat) (hf : ¬ (fmt = 1 ∨ fmt = 2 ∨ fmt = 3)) :
    iterPackedValues raw fmt n = .trap := by
  unfold iterPackedValues packParams
  have h1 : fmt ≠ 1 := fun h => hf (Or.inl h)
  have h2 : fmt ≠ 2 := fun h => hf (Or.inr (Or.inl h))
  have h3 : fmt ≠ 3 := fun h => hf (Or.inr (Or.inr h))
  simp [h1, h2, h3]

theorem devWords_val (fmt : Nat) (hf : fmt = 1 ∨ fmt = 2 ∨ fmt = 3) (pw : Nat)
    (hpw : pw = if fmt = 1 then 8 else if fmt = 2 then 4 else 2) :
    ∀ (ws : List Nat) (n : Nat), ∃ vs, devWords fmt pw n ws = .val vs ∧ vs.length = min n (pw * ws.length) ∧
      ∀ v ∈ vs, -128 ≤ v ∧ v ≤ 127 := by
  intro ws
  induction ws with
  | nil => intro n; exact ⟨[], rfl, by simp, by simp⟩
  | cons w rest ih =>
    intro n
    obtain ⟨vs, h1, h2, h3⟩ := iterPackedValues_val w fmt n hf
    obtain ⟨tl, t1, t2, t3⟩ := ih (n - pw)
    refine ⟨vs ++ tl, by simp [devWords, h1, t1, Res.bind], ?_, ?_⟩
    · rw [← hpw] at h2
      simp only [List.length_append, h2, t2, List.length_cons]
      have hpos : 0 < pw := by rw [hpw]; split <;> (try split) <;> omega
      rw [Nat.mul_succ]
      omega
    · intro v hv
      simp only [List.mem_append] at hv
      rcases hv with hv | hv
      · exact h3 v hv
      · exact t3 v hv

/-! ## the generated readers hand out `u16` fields -/

theorem beAt2_lt (d : List Nat) (hb : ∀ b ∈ d, b < 256) (p : Nat) : beAt d p 2 < 65536 := by
  unfold beAt
  have hm : ∀ b ∈ (d.drop p).take 2, b < 256 := fun b h => hb b (List.mem_of_mem_drop (List.mem_of_mem_take h))
  have hl : ((d.drop p).take 2).length ≤ 2 := by simp [List.length_take]; omega
  generalize (d.drop p).take 2 = l at hm hl
  rcases l with _ | ⟨a, _ | ⟨b, _ | ⟨c, t⟩⟩⟩
  · simp [beValue]
  · have := hm a (by simp); simp [beValue]; omega
  · have := hm a (by simp); have := hm b (by simp); simp [beValue]; omega
  · simp at hl

theorem readAt2_lt (d : List Nat) (hb : ∀ b ∈ d, b < 256) (p v : Nat) (h : readAt d p 2 = some v) : v < 65536 := by
  unfold readAt at h
  split at h
  · cases h
  · split at h
    · injection h with h; rw [← h]; exact beAt2_lt d hb p
    · cases h

/-- all fields of a parsed coverage table are `u16`s, the record count included -/
def U16Cov : Coverage → Prop
  | .fmt1 xs => xs.length < 65536 ∧ ∀ g ∈ xs, g < 65536
  | .fmt2 rs => rs.length < 65536 ∧ ∀ r ∈ rs, r.start < 65536 ∧ r.end_ < 65536 ∧ r.startCov < 65536

def U16Cls : ClassDef → Prop
  | .fmt1 s cs => s < 65536 ∧ cs.length < 65536 ∧ ∀ c ∈ cs, c < 65536
  | .fmt2 rs => rs.length < 65536 ∧ ∀ r ∈ rs, r.start < 65536 ∧ r.end_ < 65536 ∧ r.cls < 65536

theorem covRead_u16 (d : List Nat) (hb : ∀ b ∈ d, b < 256) (c : Coverage) (h : covRead d = .ok c) : U16Cov c := by
  unfold covRead at h
  cases hf : readAt d 0 2 with
  | none => simp [hf] at h
  | some fmt =>
    simp only [hf] at h
    by_cases h1 : fmt = 1
    · simp only [h1, if_true] at h
      cases hn : readAt d 2 2 with
      | none => simp [hn] at h
      | some n =>
        have hn' := readAt2_lt d hb 2 n hn
        simp only [hn] at h
        split at h
        · injection h with h; subst h
          refine ⟨by simp [u16sAt]; exact hn', ?_⟩
          intro g hg
          simp only [u16sAt, List.mem_map] at hg
          obtain ⟨i, _, rfl⟩ := hg
          exact beAt2_lt d hb _
        · cases h
    · simp only [h1, if_false] at h
      by_cases h2 : fmt = 2
      · simp only [h2, if_true] at h
        cases hn : readAt d 2 2 with
        | none => simp [hn] at h
        | some n =>
          have hn' := readAt2_lt d hb 2 n hn
          simp only [hn] at h
          split at h
          · injection h with h; subst h
            refine ⟨by simp [triplesAt]; exact hn', ?_⟩
            intro r hr
            simp only [triplesAt, List.mem_map] at hr
            obtain ⟨t, ⟨i, _, rfl⟩, rfl⟩ := hr
            exact ⟨beAt2_lt d hb _, beAt2_lt d hb _, beAt2_lt d hb _⟩
          · cases h
      · simp [h2] at h

theorem clsRead_u16 (d : List Nat) (hb : ∀ b ∈ d, b < 256) (c : ClassDef) (h : clsRead d = .ok c) : U16Cls c := by
  unfold clsRead at h
  cases hf : readAt d 0 2 with
  | none => simp [hf] at h
  | some fmt =>
    simp only [hf] at h
    by_cases h1 : fmt = 1
    · simp only [h1, if_true] at h
      cases hs : readAt d 2 2 with
      | none => simp [hs] at h
      | some s =>
        cases hn : readAt d 4 2 with
        | none => simp [hs, hn] at h
        | some n =>
          have hs' := readAt2_lt d hb 2 s hs
          have hn' := readAt2_lt d hb 4 n hn
          simp only [hs, hn] at h
          split at h
          · injection h with h; subst h
            refine ⟨hs', by simp [u16sAt]; exact hn', ?_⟩
            intro g hg
            simp only [u16sAt, List.mem_map] at hg
            obtain ⟨i, _, rfl⟩ := hg
            exact beAt2_lt d hb _
          · cases h
    · simp only [h1, if_false] at h
      by_cases h2 : fmt = 2
      · simp only [h2, if_true] at h
        cases hn : readAt d 2 2 with
        | none => simp [hn] at h
        | some n =>
          have hn' := readAt2_lt d hb 2 n hn
          simp only [hn] at h
          split at h
          · injection h with h; subst h
            refine ⟨by simp [triplesAt]; exact hn', ?_⟩
            intro r hr
            simp only [triplesAt, List.mem_map] at hr
            obtain ⟨t, ⟨i, _, rfl⟩, rfl⟩ := hr
            exact ⟨beAt2_lt d hb _, beAt2_lt d hb _, beAt2_lt d hb _⟩
          · cases h
      · simp [h2] at h

end FontVerif.HandLayout
