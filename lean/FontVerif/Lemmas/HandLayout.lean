/-
Helper lemmas for Props/C01HandLayout.lean: the unconditional index bound of the transcribed
`binary_search_by`, list facts about the range expansions, and the decoding loop of `Device::iter`.
-/
import FontVerif.Model.HandLayout
set_option linter.unusedVariables false
set_option linter.unusedSimpArgs false
namespace FontVerif.HandLayout
open FontVerif FontVerif.HandRead FontVerif.Layout

/-! ## `binary_search_by` on arbitrary (unsorted) data -/

/-- the loop keeps `base` inside the window it started with — for every comparison function -/
theorem bsLoop_bounds (cmp : Nat → Ordering) : ∀ size base, 1 ≤ size →
    base ≤ bsLoop cmp size base ∧ bsLoop cmp size base < base + size := by
  intro size
  induction size using Nat.strongRecOn with
  | _ size ih =>
    intro base h1
    unfold bsLoop
    by_cases h : size > 1
    · simp only [h, dif_pos]
      have hlt : size - size / 2 < size := by omega
      have hge : 1 ≤ size - size / 2 := by omega
      by_cases hc : (cmp (base + size / 2) == .gt) = true
      · rw [if_pos hc]
        have := ih (size - size / 2) hlt base hge
        omega
      · rw [if_neg hc]
        have := ih (size - size / 2) hlt (base + size / 2) hge
        omega
    · simp only [h, dif_neg, not_false_eq_true]
      omega

/-- `Ok(i)` is an index of the slice at which the comparison said `Equal` -/
theorem bs_ok {n : Nat} {cmp : Nat → Ordering} {i : Nat} (h : binarySearchBy n cmp = .ok i) :
    i < n ∧ cmp i = .eq := by
  unfold binarySearchBy at h
  by_cases hn : n = 0
  · simp [hn] at h
  · simp only [hn, if_false] at h
    have hb := bsLoop_bounds cmp n 0 (by omega)
    generalize bsLoop cmp n 0 = b at h hb
    cases hc : cmp b with
    | eq => simp only [hc] at h; injection h with h; subst h; exact ⟨by omega, hc⟩
    | lt => simp [hc] at h
    | gt => simp [hc] at h

/-- `Err(i)` is an insertion point: at most the length -/
theorem bs_err {n : Nat} {cmp : Nat → Ordering} {i : Nat} (h : binarySearchBy n cmp = .err i) : i ≤ n := by
  unfold binarySearchBy at h
  by_cases hn : n = 0
  · simp [hn] at h; omega
  · simp only [hn, if_false] at h
    have hb := bsLoop_bounds cmp n 0 (by omega)
    generalize bsLoop cmp n 0 = b at h hb
    cases hc : cmp b with
    | eq => simp [hc] at h
    | lt => simp only [hc] at h; injection h with h; omega
    | gt => simp only [hc] at h; injection h with h; omega

theorem natCmp_eq {a b : Nat} (h : natCmp a b = .eq) : a = b := by
  unfold natCmp at h
  split at h
  · cases h
  · split at h
    · assumption
    · cases h

theorem rangeCmp_eq {r : RangeRec} {g : Nat} (h : rangeCmp r g = .eq) : r.start ≤ g ∧ g ≤ r.end_ := by
  unfold rangeCmp at h
  split at h
  · cases h
  · split at h
    · cases h
    · omega

theorem getD_of_lt {α : Type} (xs : List α) (i : Nat) (d : α) (h : i < xs.length) :
    xs[i]? = some (xs.getD i d) := by
  simp [List.getD, List.getElem?_eq_getElem h]

/-! ## Coverage -/

theorem cov1Get_ne_trap (xs : List Nat) (g : Nat) : cov1Get xs g ≠ .trap := by
  unfold cov1Get
  split
  · simp
  · split <;> simp

theorem cov1Get_some {xs : List Nat} {g i : Nat} (hlen : xs.length ≤ 65536)
    (h : cov1Get xs g = .val (some i)) : g < 65536 ∧ i < xs.length ∧ xs[i]? = some g := by
  unfold cov1Get at h
  by_cases hg : g ≥ 65536
  · simp [hg] at h
  · simp only [hg, if_false] at h
    cases hb : binarySearchBy xs.length (fun i => natCmp (xs.getD i 0) g) with
    | err j => rw [hb] at h; simp at h
    | ok j =>
      rw [hb] at h
      have ⟨hj, he⟩ := bs_ok hb
      have he' := natCmp_eq he
      injection h with h
      injection h with h
      have : j % 65536 = j := Nat.mod_eq_of_lt (by omega)
      rw [this] at h
      subst h
      refine ⟨by omega, hj, ?_⟩
      rw [getD_of_lt xs j 0 hj, he']

/-- the transcription with representable panics computes `Layout.Coverage.get` (C06's model) -/
theorem cov2Get_val (rs : List RangeRec) (g : Nat) : cov2Get rs g = .val ((Coverage.fmt2 rs).get g) := by
  unfold cov2Get Coverage.get
  by_cases hg : g ≥ 65536
  · simp [hg]
  · simp only [hg, if_false]
    cases hb : binarySearchBy rs.length (fun i => rangeCmp (rs.getD i default) g) with
    | err j => rfl
    | ok j =>
      have ⟨hj, he⟩ := bs_ok hb
      have hr := rangeCmp_eq he
      simp only []
      rw [getD_of_lt rs j default hj]
      simp only [subTrap, hr.1, if_true, Res.bind]

theorem cov2Get_some {rs : List RangeRec} {g i : Nat} (h : cov2Get rs g = .val (some i)) :
    g < 65536 ∧ i < 65536 ∧ ∃ r ∈ rs, r.start ≤ g ∧ g ≤ r.end_ ∧ i = r.startCov + (g - r.start) := by
  rw [cov2Get_val] at h
  injection h with h
  unfold Coverage.get at h
  by_cases hg : g ≥ 65536
  · simp [hg] at h
  · simp only [hg, if_false] at h
    cases hb : binarySearchBy rs.length (fun i => rangeCmp (rs.getD i default) g) with
    | err j => rw [hb] at h; simp at h
    | ok j =>
      rw [hb] at h
      simp only [] at h
      have ⟨hj, he⟩ := bs_ok hb
      have hr := rangeCmp_eq he
      by_cases hc : (rs.getD j default).startCov + (g - (rs.getD j default).start) < 65536
      · rw [if_pos hc] at h
        injection h with h
        refine ⟨by omega, by omega, rs.getD j default, ?_, hr.1, hr.2, h.symm⟩
        exact List.mem_of_getElem? (getD_of_lt rs j default hj)
      · rw [if_neg hc] at h; cases h

/-- Σ max(0, end − start + 1) -/
def popSum (ps : List (Nat × Nat)) : Nat := (ps.map (fun p => p.2 + 1 - p.1)).sum

theorem popSum_le (ps : List (Nat × Nat)) (h : ∀ p ∈ ps, p.2 < 65536) : popSum ps ≤ 65536 * ps.length := by
  induction ps with
  | nil => simp [popSum]
  | cons p rest ih =>
    have h1 := h p (by simp)
    have h2 := ih (fun q hq => h q (by simp [hq]))
    simp only [popSum, List.map_cons, List.sum_cons, List.length_cons] at *
    omega

theorem expandRanges_length (rs : List RangeRec) :
    (expandRanges rs).length = popSum (rs.map (fun r => (r.start, r.end_))) := by
  induction rs with
  | nil => simp [expandRanges, popSum]
  | cons r rest ih =>
    simp only [expandRanges, List.length_append, ih, RangeRec.glyphs, List.length_range', popSum,
      List.map_cons, List.sum_cons]

theorem mem_expandRanges {rs : List RangeRec} {g : Nat} (h : g ∈ expandRanges rs) :
    ∃ r ∈ rs, r.start ≤ g ∧ g ≤ r.end_ := by
  induction rs with
  | nil => simp [expandRanges] at h
  | cons r rest ih =>
    simp only [expandRanges, List.mem_append] at h
    rcases h with h | h
    · simp only [RangeRec.glyphs, List.mem_range'_1] at h
      exact ⟨r, by simp, by omega, by omega⟩
    · obtain ⟨r', hr', h1, h2⟩ := ih h
      exact ⟨r', by simp [hr'], h1, h2⟩

theorem rangePop_val (s e : Nat) (h : e + 1 - s ≤ MAXU) : rangePop s e = .val (e + 1 - s) := by
  unfold rangePop
  by_cases hse : s > e
  · simp only [hse, if_true]
    congr 1; omega
  · simp only [hse, if_false, subTrap, Res.bind, addTrapU]
    have : s ≤ e := by omega
    simp only [this, if_true]
    have h2 : e - s + 1 ≤ MAXU := by omega
    simp only [h2, if_true]
    congr 1; omega

theorem popFold_val (ps : List (Nat × Nat)) : ∀ acc, acc + popSum ps ≤ MAXU →
    popFold acc ps = .val (acc + popSum ps) := by
  induction ps with
  | nil => intro acc _; simp [popFold, popSum]
  | cons p rest ih =>
    intro acc h
    obtain ⟨s, e⟩ := p
    simp only [popSum, List.map_cons, List.sum_cons] at h
    have h1 : e + 1 - s ≤ MAXU := by omega
    simp only [popFold, rangePop_val s e h1, Res.bind, addTrapU]
    have h2 : acc + (e + 1 - s) ≤ MAXU := by omega
    simp only [h2, if_true]
    have := ih (acc + (e + 1 - s)) (by simp only [popSum]; omega)
    rw [this]
    simp only [popSum, List.map_cons, List.sum_cons]
    congr 1; omega

theorem anyR_val {α : Type} (f : α → Res Bool) (xs : List α) (h : ∀ x ∈ xs, f x ≠ .trap) :
    ∃ b, anyR f xs = .val b ∧ (b = true → ∃ x ∈ xs, f x = .val true) := by
  induction xs with
  | nil => exact ⟨false, rfl, by simp⟩
  | cons x rest ih =>
    have hx := h x (by simp)
    obtain ⟨b, hb, hb2⟩ := ih (fun y hy => h y (by simp [hy]))
    unfold anyR
    cases hf : f x with
    | trap => exact absurd hf hx
    | val v =>
      cases v with
      | true => exact ⟨true, rfl, fun _ => ⟨x, by simp, hf⟩⟩
      | false =>
        refine ⟨b, hb, fun hbt => ?_⟩
        obtain ⟨y, hy, hfy⟩ := hb2 hbt
        exact ⟨y, by simp [hy], hfy⟩

/-! ## ClassDef -/

theorem cls2Iter_length (rs : List ClassRangeRec) :
    (cls2Iter rs).length = popSum (rs.map (fun r => (r.start, r.end_))) := by
  induction rs with
  | nil => simp [cls2Iter, popSum]
  | cons r rest ih =>
    simp only [cls2Iter, List.length_append, List.length_map, List.length_range', ih, popSum,
      List.map_cons, List.sum_cons]

theorem mem_cls2Iter {rs : List ClassRangeRec} {p : Nat × Nat} (h : p ∈ cls2Iter rs) :
    ∃ r ∈ rs, r.start ≤ p.1 ∧ p.1 ≤ r.end_ ∧ p.2 = r.cls := by
  induction rs with
  | nil => simp [cls2Iter] at h
  | cons r rest ih =>
    simp only [cls2Iter, List.mem_append, List.mem_map, List.mem_range'_1] at h
    rcases h with ⟨g, hg, rfl⟩ | h
    · exact ⟨r, by simp, by simp; omega, by simp; omega, rfl⟩
    · obtain ⟨r', hr', h1⟩ := ih h
      exact ⟨r', by simp [hr'], h1⟩

/-! ## Device -/

theorem valueCount_eq (fmt s e : Nat) : valueCount fmt s e =
    (if fmt = 1 then (e + 1 - s) / 8 + min ((e + 1 - s) % 8) 1
     else if fmt = 2 then (e + 1 - s) / 4 + min ((e + 1 - s) % 4) 1
     else if fmt = 3 then (e + 1 - s) / 2 + min ((e + 1 - s) % 2) 1
     else 0) := by
  simp only [valueCount, Shape.customByName]
  by_cases h1 : fmt = 1
  · simp [h1]
  · by_cases h2 : fmt = 2
    · simp [h2]
    · by_cases h3 : fmt = 3
      · simp [h3]
      · simp [h1, h2, h3]

/-- `x as i8` is an `i8` -/
theorem toI8_range (x : Int) : -128 ≤ toI8 x ∧ toI8 x ≤ 127 := by
  unfold toI8; omega

/-- the decoding loop over slot indices below `16 / bits` never panics, yields one value per slot -/
theorem packedLoop_val (raw mask signMask bits : Nat) (hb : bits = 2 ∨ bits = 4 ∨ bits = 8) :
    ∀ is : List Nat, (∀ i ∈ is, i < 16 / bits) →
      ∃ vs, packedLoop raw mask signMask bits is = .val vs ∧ vs.length = is.length ∧
        ∀ v ∈ vs, -128 ≤ v ∧ v ≤ 127 := by
  intro is
  induction is with
  | nil => intro _; exact ⟨[], rfl, rfl, by simp⟩
  | cons i rest ih =>
    intro h
    have hi := h i (by simp)
    obtain ⟨vs, hvs, hl, hr⟩ := ih (fun j hj => h j (by simp [hj]))
    have hib : i * bits ≤ 16 - bits ∧ 16 - bits - i * bits < 16 ∧ i < 8 ∧ bits ≤ 16 := by
      rcases hb with rfl | rfl | rfl <;> simp at hi <;> omega
    unfold packedLoop
    simp only [subTrap, hib.2.2.2, if_true, Res.bind, hib.1]
    have h1 : ¬ (16 - bits - i * bits ≥ 16) := by omega
    have h2 : ¬ (i ≥ 8) := by omega
    simp only [h1, h2, if_false, hvs]
    refine ⟨_, rfl, by simp [hl], ?_⟩
    intro v hv
    simp only [List.mem_cons] at hv
    rcases hv with rfl | hv
    · split <;> exact toI8_range _
    · exact hr v hv

theorem iterPackedValues_val (raw fmt n : Nat) (hf : fmt = 1 ∨ fmt = 2 ∨ fmt = 3) :
    ∃ vs, iterPackedValues raw fmt n = .val vs ∧
      vs.length = min n (if fmt = 1 then 8 else if fmt = 2 then 4 else 2) ∧
      ∀ v ∈ vs, -128 ≤ v ∧ v ≤ 127 := by
  unfold iterPackedValues packParams
  rcases hf with rfl | rfl | rfl
  · simp only [if_true]
    obtain ⟨vs, h1, h2, h3⟩ := packedLoop_val raw 3 2 2 (by simp) (List.range (min n (16 / 2)))
      (by intro i hi; simp at hi ⊢; omega)
    exact ⟨vs, by simpa using h1, by simp [h2], h3⟩
  · simp only [show (2 : Nat) ≠ 1 by decide, if_false, if_true]
    obtain ⟨vs, h1, h2, h3⟩ := packedLoop_val raw 15 8 4 (by simp) (List.range (min n (16 / 4)))
      (by intro i hi; simp at hi ⊢; omega)
    exact ⟨vs, by simpa using h1, by simp [h2], h3⟩
  · simp only [show (3 : Nat) ≠ 1 by decide, show (3 : Nat) ≠ 2 by decide, if_false, if_true]
    obtain ⟨vs, h1, h2, h3⟩ := packedLoop_val raw 255 128 8 (by simp) (List.range (min n (16 / 8)))
      (by intro i hi; simp at hi ⊢; omega)
    exact ⟨vs, by simpa using h1, by simp [h2], h3⟩

/-- for a format without deltas the very first word panics (`16 / bits` with `bits = 0`) -/
theorem iterPackedValues_trap (raw fmt n : Nat) (hf : ¬ (fmt = 1 ∨ fmt = 2 ∨ fmt = 3)) :
    iterPackedValues raw fmt n = .trap := by
  unfold iterPackedValues packParams
  have h1 : fmt ≠ 1 := fun h => hf (Or.inl h)
  have h2 : fmt ≠ 2 := fun h => hf (Or.inr (Or.inl h))
  have h3 : fmt ≠ 3 := fun h => hf (Or.inr (Or.inr h))
  simp [h1, h2, h3]

theorem devWords_val (fmt : Nat) (hf : fmt = 1 ∨ fmt = 2 ∨ fmt = 3) (pw : Nat)
    (hpw : pw = if fmt = 1 then 8 else if fmt = 2 then 4 else 2) :
    ∀ (ws : List Nat) (n : Nat), ∃ vs, devWords fmt pw n ws = .val vs ∧ vs.length = min n (pw * ws.length) ∧
      ∀ v ∈ vs, -128 ≤ v ∧ v ≤ 127 := by
  intro ws
  induction ws with
  | nil => intro n; exact ⟨[], rfl, by simp, by simp⟩
  | cons w rest ih =>
    intro n
    obtain ⟨vs, h1, h2, h3⟩ := iterPackedValues_val w fmt n hf
    obtain ⟨tl, t1, t2, t3⟩ := ih (n - pw)
    refine ⟨vs ++ tl, by simp [devWords, h1, t1, Res.bind], ?_, ?_⟩
    · rw [← hpw] at h2
      simp only [List.length_append, h2, t2, List.length_cons]
      have hpos : 0 < pw := by rw [hpw]; split <;> (try split) <;> omega
      rw [Nat.mul_succ]
      omega
    · intro v hv
      simp only [List.mem_append] at hv
      rcases hv with hv | hv
      · exact h3 v hv
      · exact t3 v hv

/-! ## the generated readers hand out `u16` fields -/

theorem beAt2_lt (d : List Nat) (hb : ∀ b ∈ d, b < 256) (p : Nat) : beAt d p 2 < 65536 := by
  unfold beAt
  have hm : ∀ b ∈ (d.drop p).take 2, b < 256 := fun b h => hb b (List.mem_of_mem_drop (List.mem_of_mem_take h))
  have hl : ((d.drop p).take 2).length ≤ 2 := by simp [List.length_take]; omega
  generalize (d.drop p).take 2 = l at hm hl
  rcases l with _ | ⟨a, _ | ⟨b, _ | ⟨c, t⟩⟩⟩
  · simp [beValue]
  · have := hm a (by simp); simp [beValue]; omega
  · have := hm a (by simp); have := hm b (by simp); simp [beValue]; omega
  · simp at hl

theorem readAt2_lt (d : List Nat) (hb : ∀ b ∈ d, b < 256) (p v : Nat) (h : readAt d p 2 = some v) : v < 65536 := by
  unfold readAt at h
  split at h
  · cases h
  · split at h
    · injection h with h; rw [← h]; exact beAt2_lt d hb p
    · cases h

/-- all fields of a parsed coverage table are `u16`s, the record count included -/
def U16Cov : Coverage → Prop
  | .fmt1 xs => xs.length < 65536 ∧ ∀ g ∈ xs, g < 65536
  | .fmt2 rs => rs.length < 65536 ∧ ∀ r ∈ rs, r.start < 65536 ∧ r.end_ < 65536 ∧ r.startCov < 65536

def U16Cls : ClassDef → Prop
  | .fmt1 s cs => s < 65536 ∧ cs.length < 65536 ∧ ∀ c ∈ cs, c < 65536
  | .fmt2 rs => rs.length < 65536 ∧ ∀ r ∈ rs, r.start < 65536 ∧ r.end_ < 65536 ∧ r.cls < 65536

theorem covRead_u16 (d : List Nat) (hb : ∀ b ∈ d, b < 256) (c : Coverage) (h : covRead d = .ok c) : U16Cov c := by
  unfold covRead at h
  cases hf : readAt d 0 2 with
  | none => simp [hf] at h
  | some fmt =>
    simp only [hf] at h
    by_cases h1 : fmt = 1
    · simp only [h1, if_true] at h
      cases hn : readAt d 2 2 with
      | none => simp [hn] at h
      | some n =>
        have hn' := readAt2_lt d hb 2 n hn
        simp only [hn] at h
        split at h
        · injection h with h; subst h
          refine ⟨by simp [u16sAt]; exact hn', ?_⟩
          intro g hg
          simp only [u16sAt, List.mem_map] at hg
          obtain ⟨i, _, rfl⟩ := hg
          exact beAt2_lt d hb _
        · cases h
    · simp only [h1, if_false] at h
      by_cases h2 : fmt = 2
      · simp only [h2, if_true] at h
        cases hn : readAt d 2 2 with
        | none => simp [hn] at h
        | some n =>
          have hn' := readAt2_lt d hb 2 n hn
          simp only [hn] at h
          split at h
          · injection h with h; subst h
            refine ⟨by simp [triplesAt]; exact hn', ?_⟩
            intro r hr
            simp only [triplesAt, List.mem_map] at hr
            obtain ⟨t, ⟨i, _, rfl⟩, rfl⟩ := hr
            exact ⟨beAt2_lt d hb _, beAt2_lt d hb _, beAt2_lt d hb _⟩
          · cases h
      · simp [h2] at h

theorem clsRead_u16 (d : List Nat) (hb : ∀ b ∈ d, b < 256) (c : ClassDef) (h : clsRead d = .ok c) : U16Cls c := by
  unfold clsRead at h
  cases hf : readAt d 0 2 with
  | none => simp [hf] at h
  | some fmt =>
    simp only [hf] at h
    by_cases h1 : fmt = 1
    · simp only [h1, if_true] at h
      cases hs : readAt d 2 2 with
      | none => simp [hs] at h
      | some s =>
        cases hn : readAt d 4 2 with
        | none => simp [hs, hn] at h
        | some n =>
          have hs' := readAt2_lt d hb 2 s hs
          have hn' := readAt2_lt d hb 4 n hn
          simp only [hs, hn] at h
          split at h
          · injection h with h; subst h
            refine ⟨hs', by simp [u16sAt]; exact hn', ?_⟩
            intro g hg
            simp only [u16sAt, List.mem_map] at hg
            obtain ⟨i, _, rfl⟩ := hg
            exact beAt2_lt d hb _
          · cases h
    · simp only [h1, if_false] at h
      by_cases h2 : fmt = 2
      · simp only [h2, if_true] at h
        cases hn : readAt d 2 2 with
        | none => simp [hn] at h
        | some n =>
          have hn' := readAt2_lt d hb 2 n hn
          simp only [hn] at h
          split at h
          · injection h with h; subst h
            refine ⟨by simp [triplesAt]; exact hn', ?_⟩
            intro r hr
            simp only [triplesAt, List.mem_map] at hr
            obtain ⟨t, ⟨i, _, rfl⟩, rfl⟩ := hr
            exact ⟨beAt2_lt d hb _, beAt2_lt d hb _, beAt2_lt d hb _⟩
          · cases h
      · simp [h2] at h

/-! ## glyph sets -/

theorem mem_insertUniq (g y : Nat) : ∀ xs : List Nat, y ∈ insertUniq g xs ↔ y = g ∨ y ∈ xs := by
  intro xs
  induction xs with
  | nil => simp [insertUniq]
  | cons x rest ih =>
    unfold insertUniq
    by_cases h1 : g < x
    · simp [h1]
    · by_cases h2 : g = x
      · subst h2; simp
      · simp only [h1, h2, if_false, List.mem_cons, ih]
        constructor
        · rintro (h | h | h) <;> simp [h]
        · rintro (h | h | h) <;> simp [h]

theorem length_insertUniq_ge (g : Nat) : ∀ xs : List Nat, xs.length ≤ (insertUniq g xs).length := by
  intro xs
  induction xs with
  | nil => simp [insertUniq]
  | cons x rest ih =>
    unfold insertUniq
    split
    · simp
    · split
      · simp
      · simp only [List.length_cons]; omega

theorem length_insertUniq_new (g : Nat) : ∀ xs : List Nat, g ∉ xs → (insertUniq g xs).length = xs.length + 1 := by
  intro xs
  induction xs with
  | nil => simp [insertUniq]
  | cons x rest ih =>
    intro h
    simp only [List.mem_cons, not_or] at h
    unfold insertUniq
    split
    · simp
    · split
      · exact absurd ‹g = x› h.1
      · simp only [List.length_cons, ih h.2]

theorem pairwise_insertUniq (g : Nat) : ∀ xs : List Nat, xs.Pairwise (· < ·) → (insertUniq g xs).Pairwise (· < ·) := by
  intro xs
  induction xs with
  | nil => intro _; simp [insertUniq]
  | cons x rest ih =>
    intro h
    have ⟨h1, h2⟩ := List.pairwise_cons.mp h
    unfold insertUniq
    by_cases hg : g < x
    · simp only [hg, if_true]
      refine List.pairwise_cons.mpr ⟨?_, h⟩
      intro y hy
      simp only [List.mem_cons] at hy
      rcases hy with rfl | hy
      · exact hg
      · have := h1 y hy; omega
    · by_cases he : g = x
      · simp [hg, he, h]
      · simp only [hg, he, if_false]
        refine List.pairwise_cons.mpr ⟨?_, ih h2⟩
        intro y hy
        rcases (mem_insertUniq g y rest).mp hy with rfl | hy
        · omega
        · exact h1 y hy

/-- an `IntSet<GlyphId16>`: strictly increasing `u16` values -/
def Inc16 (xs : List Nat) : Prop := xs.Pairwise (· < ·) ∧ ∀ x ∈ xs, x < 65536

theorem inc16_nil : Inc16 [] := ⟨List.Pairwise.nil, by simp⟩

theorem length_le_of_inc (N : Nat) : ∀ (xs : List Nat) (lo : Nat), xs.Pairwise (· < ·) →
    (∀ x ∈ xs, lo ≤ x ∧ x < N) → xs.length ≤ N - lo := by
  intro xs
  induction xs with
  | nil => intro lo _ _; simp
  | cons x rest ih =>
    intro lo hp hb
    have ⟨h1, h2⟩ := List.pairwise_cons.mp hp
    have hx := hb x (by simp)
    have := ih (x + 1) h2 (by
      intro y hy
      have := h1 y hy
      have := hb y (by simp [hy])
      omega)
    simp only [List.length_cons]
    omega

/-- at most 65536 glyphs -/
theorem Inc16.length_le {xs : List Nat} (h : Inc16 xs) : xs.length ≤ 65536 := by
  have := length_le_of_inc 65536 xs 0 h.1 (fun x hx => ⟨Nat.zero_le _, h.2 x hx⟩)
  omega

theorem Inc16.ins {s : G16} (h : Inc16 s) (g : Nat) : Inc16 (s.ins g) := by
  unfold G16.ins
  split
  · refine ⟨pairwise_insertUniq g s h.1, ?_⟩
    intro x hx
    rcases (mem_insertUniq g x s).mp hx with rfl | hx
    · assumption
    · exact h.2 x hx
  · exact h

theorem length_ins_ge (s : G16) (g : Nat) : s.length ≤ (s.ins g).length := by
  unfold G16.ins
  split
  · exact length_insertUniq_ge g s
  · exact Nat.le_refl _

theorem mem_ins_of_mem {s : G16} {g y : Nat} (h : y ∈ s) : y ∈ s.ins g := by
  unfold G16.ins
  split
  · exact (mem_insertUniq g y s).mpr (Or.inr h)
  · exact h

theorem Inc16.ext {s : G16} (h : Inc16 s) : ∀ xs : List Nat, Inc16 (s.ext xs) := by
  intro xs
  unfold G16.ext
  induction xs generalizing s with
  | nil => exact h
  | cons x rest ih => exact ih (h.ins x)

theorem length_ext_ge : ∀ (xs : List Nat) (s : G16), s.length ≤ (s.ext xs).length := by
  intro xs
  unfold G16.ext
  induction xs with
  | nil => intro s; exact Nat.le_refl _
  | cons x rest ih =>
    intro s
    exact Nat.le_trans (length_ins_ge s x) (ih (s.ins x))

theorem mem_ext_of_mem : ∀ (xs : List Nat) (s : G16) {y : Nat}, y ∈ s → y ∈ s.ext xs := by
  intro xs
  unfold G16.ext
  induction xs with
  | nil => intro s y h; exact h
  | cons x rest ih => intro s y h; exact ih (s.ins x) (mem_ins_of_mem h)

theorem inc16_ofList (xs : List Nat) : Inc16 (G16.ofList xs) := inc16_nil.ext xs

/-- adding glyphs of which one is new makes the set strictly larger -/
theorem length_ext_gt : ∀ (xs : List Nat) (s : G16), (∃ g ∈ xs, g ∉ s ∧ g < 65536) →
    s.length < (s.ext xs).length := by
  intro xs
  induction xs with
  | nil => intro s h; obtain ⟨g, hg, _⟩ := h; simp at hg
  | cons x rest ih =>
    intro s h
    obtain ⟨g, hg, hns, hlt⟩ := h
    show s.length < ((s.ins x).ext rest).length
    by_cases hx : x ∉ s ∧ x < 65536
    · have : (s.ins x).length = s.length + 1 := by
        unfold G16.ins; simp only [hx.2, if_true]; exact length_insertUniq_new x s hx.1
      have := length_ext_ge rest (s.ins x)
      omega
    · have hgx : g ≠ x := by
        intro he; subst he; exact hx ⟨hns, hlt⟩
      have hgr : g ∈ rest := by
        simp only [List.mem_cons] at hg
        rcases hg with h | h
        · exact absurd h hgx
        · exact h
      have hn : g ∉ s.ins x := by
        unfold G16.ins
        split
        · intro hm
          rcases (mem_insertUniq x g s).mp hm with h | h
          · exact hgx h
          · exact hns h
        · exact hns
      have := ih (s.ins x) ⟨g, hgr, hn, hlt⟩
      have := length_ins_ge s x
      omega


/-! ## the effect of one closure step on the context -/

/-- the active glyphs of a todo are a glyph set -/
def TodoOk (t : Todo) : Prop := ∀ a, t.2 = some a → Inc16 a

/-- invariant of `ClosureCtx` -/
def Good (c : Cx) : Prop := Inc16 c.glyphs ∧ ∀ t ∈ c.todos, TodoOk t

/-- what a (sub)table's `add_reachable_glyphs` may do: glyphs only grow (and stay a `u16` set), at most
`k` todos are pushed, `finished_lookups` and `cur_glyphs` are not touched -/
structure Eff (c c' : Cx) (k : Nat) : Prop where
  inc : Inc16 c'.glyphs
  mono : c.glyphs.length ≤ c'.glyphs.length
  sub : ∀ g ∈ c.glyphs, g ∈ c'.glyphs
  fin : c'.finished = c.finished
  cur : c'.cur = c.cur
  tlen : c'.todos.length ≤ c.todos.length + k
  tok : ∀ t ∈ c'.todos, TodoOk t

theorem Eff.refl {c : Cx} (h : Good c) : Eff c c 0 :=
  ⟨h.1, Nat.le_refl _, fun g hg => hg, rfl, rfl, by omega, h.2⟩

theorem Eff.good {c c' : Cx} {k : Nat} (h : Eff c c' k) : Good c' := ⟨h.inc, h.tok⟩

theorem Eff.trans {c c1 c2 : Cx} {k1 k2 : Nat} (h1 : Eff c c1 k1) (h2 : Eff c1 c2 k2) : Eff c c2 (k1 + k2) :=
  ⟨h2.inc, Nat.le_trans h1.mono h2.mono, fun g hg => h2.sub g (h1.sub g hg), by rw [h2.fin, h1.fin], by rw [h2.cur, h1.cur],
   by have := h1.tlen; have := h2.tlen; omega, h2.tok⟩

theorem Eff.weaken {c c' : Cx} {k k' : Nat} (h : Eff c c' k) (hk : k ≤ k') : Eff c c' k' :=
  ⟨h.inc, h.mono, h.sub, h.fin, h.cur, by have := h.tlen; omega, h.tok⟩

/-- a step's result: `Ok` with a bounded effect, or an error — never a panic -/
def Safe (r : CR Cx) (c : Cx) (k : Nat) : Prop :=
  match r with
  | .ok c' => Eff c c' k
  | .err _ => True
  | .trap => False

theorem Safe.ok {c c' : Cx} {k : Nat} (h : Eff c c' k) : Safe (.ok c') c k := h

theorem Safe.pre {c c1 : Cx} {k1 k2 : Nat} {r : CR Cx} (h1 : Eff c c1 k1) (h2 : Safe r c1 k2) : Safe r c (k1 + k2) := by
  cases r with
  | ok c' => exact h1.trans h2
  | err e => trivial
  | trap => exact h2

theorem Safe.weaken {c : Cx} {k k' : Nat} {r : CR Cx} (h : Safe r c k) (hk : k ≤ k') : Safe r c k' := by
  cases r with
  | ok c' => exact Eff.weaken h hk
  | err e => trivial
  | trap => exact h

theorem Safe.bind {c : Cx} {k1 k2 : Nat} {r : CR Cx} {f : Cx → CR Cx} (h1 : Safe r c k1)
    (h2 : ∀ c1, Eff c c1 k1 → Safe (f c1) c1 k2) : Safe (r.bind f) c (k1 + k2) := by
  cases r with
  | ok c1 => exact Safe.pre h1 (h2 c1 h1)
  | err e => trivial
  | trap => exact h1

theorem eff_addGlyph {c : Cx} (h : Good c) (g : Nat) : Eff c (c.addGlyph g) 0 :=
  ⟨h.1.ins g, length_ins_ge _ _, fun y hy => mem_ins_of_mem hy, rfl, rfl, by simp [Cx.addGlyph], h.2⟩

theorem eff_extend {c : Cx} (h : Good c) (gs : List Nat) : Eff c (c.extendGlyphs gs) 0 :=
  ⟨h.1.ext gs, length_ext_ge _ _, fun y hy => mem_ext_of_mem gs _ hy, rfl, rfl, by simp [Cx.extendGlyphs], h.2⟩

theorem eff_addTodo {c : Cx} (h : Good c) (id : Nat) (a : Option G16) (ha : ∀ s, a = some s → Inc16 s) :
    Eff c (c.addTodo id a) 1 := by
  refine ⟨h.1, Nat.le_refl _, fun g hg => hg, rfl, rfl, by simp [Cx.addTodo], ?_⟩
  intro t ht
  simp only [Cx.addTodo, List.mem_cons] at ht
  rcases ht with rfl | ht
  · exact ha
  · exact h.2 t ht

/-! ## the subtable loops -/

theorem addPairs_eff : ∀ (ps : List (Nat × Nat)) (c : Cx), Good c → Eff c (addPairs c ps) 0 := by
  intro ps
  induction ps with
  | nil => intro c h; exact Eff.refl h
  | cons p rest ih =>
    intro c h
    obtain ⟨t, r⟩ := p
    unfold addPairs
    split
    · exact (eff_addGlyph h r).trans (ih _ (eff_addGlyph h r).good)
    · exact ih c h

theorem addSeqs_safe : ∀ (ps : List (Nat × PR (List Nat))) (c : Cx), Good c → Safe (addSeqs c ps) c 0 := by
  intro ps
  induction ps with
  | nil => intro c h; exact Eff.refl h
  | cons p rest ih =>
    intro c h
    obtain ⟨g, r⟩ := p
    cases r with
    | error e => simp [addSeqs, Safe]
    | ok reps =>
      simp only [addSeqs]
      split
      · exact Safe.pre (eff_extend h reps) (ih _ (eff_extend h reps).good)
      · exact ih c h

theorem addLigs_safe : ∀ (ls : List (PR (Nat × List Nat))) (c : Cx), Good c → Safe (addLigs c ls) c 0 := by
  intro ls
  induction ls with
  | nil => intro c h; exact Eff.refl h
  | cons l rest ih =>
    intro c h
    cases l with
    | error e => simp [addLigs, Safe]
    | ok p =>
      obtain ⟨lig, comps⟩ := p
      simp only [addLigs]
      split
      · exact Safe.pre (eff_addGlyph h lig) (ih _ (eff_addGlyph h lig).good)
      · exact ih c h

theorem addLigSets_safe : ∀ (ps : List (Nat × PR (List (PR (Nat × List Nat))))) (c : Cx), Good c →
    Safe (addLigSets c ps) c 0 := by
  intro ps
  induction ps with
  | nil => intro c h; exact Eff.refl h
  | cons p rest ih =>
    intro c h
    obtain ⟨g, r⟩ := p
    cases r with
    | error e => simp [addLigSets, Safe]
    | ok ligs =>
      simp only [addLigSets]
      split
      · exact Safe.bind (addLigs_safe ligs c h) (fun c1 h1 => ih c1 h1.good)
      · exact ih c h

theorem reverseGate_ne_trap : ∀ (cs : List (PR Coverage)) (c : Cx), reverseGate c cs ≠ .trap := by
  intro cs
  induction cs with
  | nil => intro c; simp [reverseGate]
  | cons r rest ih =>
    intro c
    cases r with
    | error e => simp [reverseGate]
    | ok cov =>
      simp only [reverseGate]
      split
      · exact ih c
      · simp

/-- the lookup record loop of `ContextFormat1`: no panic for a rule set index inside the coverage, at
most one todo per record -/
theorem ruleTodos1_safe (covGlyphs : List Nat) (i : Nat) (input : List Nat) (hi : i < covGlyphs.length) :
    ∀ (recs : List SeqRec) (c : Cx) (seen : List Nat), Good c →
      Safe (ruleTodos1 covGlyphs i input c seen recs) c recs.length := by
  intro recs
  induction recs with
  | nil => intro c seen h; exact Eff.refl h
  | cons r rest ih =>
    intro c seen h
    have hnone : ∀ s, (none : Option G16) = some s → Inc16 s := by intro s hs; cases hs
    have hsome : ∀ g s, some (G16.ofList [g]) = some s → Inc16 s := by
      intro g s hs; injection hs with hs; rw [← hs]; exact inc16_ofList _
    have e : (r :: rest).length = 1 + rest.length := by simp; omega
    rw [e]
    unfold ruleTodos1
    by_cases hs : seen.contains r.seqIdx = true
    · simp only [hs, if_true]
      exact Safe.pre (eff_addTodo h r.lookup none hnone) (ih _ _ (eff_addTodo h r.lookup none hnone).good)
    · simp only [hs, Bool.false_eq_true, if_false]
      by_cases hz : r.seqIdx = 0
      · simp only [hz, if_true]
        rw [List.getElem?_eq_getElem hi]
        simp only []
        exact Safe.pre (eff_addTodo h r.lookup _ (hsome _)) (ih _ _ (eff_addTodo h r.lookup _ (hsome _)).good)
      · simp only [hz, if_false, subTrap]
        have h1 : 1 ≤ r.seqIdx := by omega
        simp only [h1, if_true]
        cases hin : input[r.seqIdx - 1]? with
        | some g =>
          simp only []
          exact Safe.pre (eff_addTodo h r.lookup _ (hsome _)) (ih _ _ (eff_addTodo h r.lookup _ (hsome _)).good)
        | none =>
          simp only []
          exact Safe.weaken (ih c _ h) (by omega)

theorem rulesLoop1_safe (covGlyphs : List Nat) (i : Nat) (hi : i < covGlyphs.length) :
    ∀ (rules : List (PR Rule)) (c : Cx), Good c → Safe (rulesLoop1 covGlyphs i c rules) c (rulesCost rules) := by
  intro rules
  induction rules with
  | nil => intro c h; exact Eff.refl h
  | cons r rest ih =>
    intro c h
    cases r with
    | error e => simp [rulesLoop1, Safe]
    | ok rule =>
      simp only [rulesLoop1, rulesCost]
      split
      · exact Safe.bind (ruleTodos1_safe covGlyphs i rule.input hi rule.recs c [] h) (fun c1 h1 => ih c1 h1.good)
      · exact Safe.weaken (ih c h) (by omega)

theorem setsLoop1_safe (covGlyphs : List Nat) (cur : G16) :
    ∀ (sets : List (Nat × Option (PR (List (PR Rule))))) (c : Cx) (i : Nat), Good c →
      i + sets.length ≤ covGlyphs.length → Safe (setsLoop1 covGlyphs cur c i sets) c (setsCost1 sets) := by
  intro sets
  induction sets with
  | nil => intro c i h _; exact Eff.refl h
  | cons p rest ih =>
    intro c i h hi
    obtain ⟨g, s⟩ := p
    simp only [List.length_cons] at hi
    cases s with
    | none =>
      simp only [setsLoop1, setsCost1, setCost]
      exact Safe.weaken (ih c (i + 1) h (by omega)) (by omega)
    | some s =>
      simp only [setsLoop1, setsCost1]
      split
      · cases s with
        | error e => simp [Safe]
        | ok rules =>
          simp only [setCost]
          exact Safe.bind (rulesLoop1_safe covGlyphs i (by omega) rules c h) (fun c1 h1 => ih c1 (i + 1) h1.good (by omega))
      · exact Safe.weaken (ih c (i + 1) h (by omega)) (by omega)

/-! ### class based contexts -/

theorem clsGet_val (cd : ClassDef) (g : Nat) : ∃ v, clsGet cd g = .val v := by
  cases cd with
  | fmt1 s cs =>
    simp only [clsGet, cls1Get]
    by_cases h : g < s
    · exact ⟨0, by simp [h]⟩
    · have : s ≤ g := by omega
      simp [h, subTrap, this, Res.bind]
  | fmt2 rs => exact ⟨_, rfl⟩

theorem makeClassSet_ok (cd : ClassDef) : ∀ gs : List Nat, ∃ ks, makeClassSet cd gs = .ok ks := by
  intro gs
  induction gs with
  | nil => exact ⟨[], rfl⟩
  | cons g rest ih =>
    obtain ⟨v, hv⟩ := clsGet_val cd g
    obtain ⟨ks, hks⟩ := ih
    exact ⟨v :: ks, by simp [makeClassSet, hv, hks, CR.ofRes, CR.bind]⟩

theorem intersectClass_ok (cd : ClassDef) (cl : Nat) : ∀ gs : List Nat, ∃ a, intersectClass cd cl gs = .ok a ∧ Inc16 a := by
  intro gs
  induction gs with
  | nil => exact ⟨[], rfl, inc16_nil⟩
  | cons g rest ih =>
    obtain ⟨v, hv⟩ := clsGet_val cd g
    obtain ⟨a, ha, hinc⟩ := ih
    refine ⟨if v = cl then G16.ofList (g :: a) else a, by simp [intersectClass, hv, ha, CR.ofRes, CR.bind], ?_⟩
    split
    · exact inc16_ofList _
    · exact hinc

theorem ruleTodos2_safe (cd : ClassDef) (cur : G16) (hcur : Inc16 cur) (classI : Nat) (input : List Nat) :
    ∀ (recs : List SeqRec) (c : Cx) (seen : List Nat), Good c →
      Safe (ruleTodos2 cd cur classI input c seen recs) c recs.length := by
  intro recs
  induction recs with
  | nil => intro c seen h; exact Eff.refl h
  | cons r rest ih =>
    intro c seen h
    have hnone : ∀ s, (none : Option G16) = some s → Inc16 s := by intro s hs; cases hs
    have e : (r :: rest).length = 1 + rest.length := by simp; omega
    rw [e]
    unfold ruleTodos2
    by_cases hs : seen.contains r.seqIdx = true
    · simp only [hs, if_true]
      exact Safe.pre (eff_addTodo h r.lookup none hnone) (ih _ _ (eff_addTodo h r.lookup none hnone).good)
    · simp only [hs, Bool.false_eq_true, if_false]
      by_cases hz : r.seqIdx = 0
      · simp only [hz, if_true]
        obtain ⟨a, ha, hinc⟩ := intersectClass_ok cd classI cur
        rw [ha]
        simp only [CR.bind]
        have hsome : ∀ s, some a = some s → Inc16 s := by intro s hs; injection hs with hs; rw [← hs]; exact hinc
        exact Safe.pre (eff_addTodo h r.lookup _ hsome) (ih _ _ (eff_addTodo h r.lookup _ hsome).good)
      · simp only [hz, if_false, subTrap]
        have h1 : 1 ≤ r.seqIdx := by omega
        simp only [h1, if_true]
        cases hin : input[r.seqIdx - 1]? with
        | some cl =>
          simp only []
          obtain ⟨a, ha, hinc⟩ := intersectClass_ok cd cl c.glyphs
          rw [ha]
          simp only [CR.bind]
          have hsome : ∀ s, some a = some s → Inc16 s := by intro s hs; injection hs with hs; rw [← hs]; exact hinc
          exact Safe.pre (eff_addTodo h r.lookup _ hsome) (ih _ _ (eff_addTodo h r.lookup _ hsome).good)
        | none =>
          simp only []
          exact Safe.weaken (ih c _ h) (by omega)

theorem rulesLoop2_safe (cd : ClassDef) (cur : G16) (hcur : Inc16 cur) (ours : List Nat) (classI : Nat) :
    ∀ (rules : List (PR Rule)) (c : Cx), Good c →
      Safe (rulesLoop2 cd cur ours classI c rules) c (rulesCost rules) := by
  intro rules
  induction rules with
  | nil => intro c h; exact Eff.refl h
  | cons r rest ih =>
    intro c h
    cases r with
    | error e => simp [rulesLoop2, Safe]
    | ok rule =>
      simp only [rulesLoop2, rulesCost]
      split
      · exact Safe.bind (ruleTodos2_safe cd cur hcur classI rule.input rule.recs c [] h) (fun c1 h1 => ih c1 h1.good)
      · exact Safe.weaken (ih c h) (by omega)

theorem setsLoop2_safe (cd : ClassDef) (cur : G16) (hcur : Inc16 cur) (ours : List Nat) :
    ∀ (sets : List (Option (PR (List (PR Rule))))) (c : Cx) (i : Nat), Good c →
      Safe (setsLoop2 cd cur ours c i sets) c (setsCost2 sets) := by
  intro sets
  induction sets with
  | nil => intro c i h; exact Eff.refl h
  | cons s rest ih =>
    intro c i h
    cases s with
    | none =>
      simp only [setsLoop2, setsCost2, setCost]
      exact Safe.weaken (ih c (i + 1) h) (by omega)
    | some s =>
      simp only [setsLoop2, setsCost2]
      split
      · cases s with
        | error e => simp [Safe]
        | ok rules =>
          simp only [setCost]
          exact Safe.bind (rulesLoop2_safe cd cur hcur ours _ rules c h) (fun c1 h1 => ih c1 (i + 1) h1.good)
      · exact Safe.weaken (ih c (i + 1) h) (by omega)

theorem ctx3Todos_safe (covs : List (PR Coverage)) (cur : G16) (hcur : Inc16 cur) :
    ∀ (recs : List SeqRec) (c : Cx), Good c → Safe (ctx3Todos covs cur c recs) c recs.length := by
  intro recs
  induction recs with
  | nil => intro c h; exact Eff.refl h
  | cons r rest ih =>
    intro c h
    have e : (r :: rest).length = 1 + rest.length := by simp; omega
    rw [e]
    unfold ctx3Todos
    split
    · have hsome : ∀ s, some cur = some s → Inc16 s := by intro s hs; injection hs with hs; rw [← hs]; exact hcur
      exact Safe.pre (eff_addTodo h r.lookup _ hsome) (ih _ (eff_addTodo h r.lookup _ hsome).good)
    · cases hg : arrGet covs r.seqIdx with
      | error e => simp [Safe]
      | ok cov =>
        simp only []
        have hsome : ∀ s, some (G16.ofList ((covIter cov).filter (fun g => c.glyphs.contains g))) = some s → Inc16 s := by
          intro s hs; injection hs with hs; rw [← hs]; exact inc16_ofList _
        exact Safe.pre (eff_addTodo h r.lookup _ hsome) (ih _ (eff_addTodo h r.lookup _ hsome).good)

theorem intersectCoverage_inc {cov : Coverage} {glyphs cur : G16} (h : intersectCoverage cov glyphs = some cur) : Inc16 cur := by
  unfold intersectCoverage at h
  simp only [] at h
  split at h
  · cases h
  · injection h with h; rw [← h]; exact inc16_ofList _

/-- **every subtable's `add_reachable_glyphs` is safe**: no panic, glyphs only grow, bounded todos -/
theorem subAdd_safe (s : Sub) (c : Cx) (h : Good c) : Safe (subAdd c s) c (subCost s) := by
  cases s with
  | single1 cov delta =>
    cases cov with
    | error e => simp [subAdd, liftPR, Safe]
    | ok cv => exact addPairs_eff _ c h
  | single2 cov subs =>
    cases cov with
    | error e => simp [subAdd, liftPR, Safe]
    | ok cv => exact addPairs_eff _ c h
  | multiple cov seqs =>
    cases cov with
    | error e => simp [subAdd, liftPR, Safe]
    | ok cv => exact addSeqs_safe _ c h
  | ligature cov sets =>
    cases cov with
    | error e => simp [subAdd, liftPR, Safe]
    | ok cv => exact addLigSets_safe _ c h
  | reverse others cov subs =>
    simp only [subAdd, subCost]
    cases hg : reverseGate c others with
    | trap => exact absurd hg (reverseGate_ne_trap others c)
    | err e => simp [CR.bind, Safe]
    | ok pass =>
      simp only [CR.bind]
      cases pass with
      | false => exact Eff.refl h
      | true =>
        cases cov with
        | error e => simp [liftPR, Safe]
        | ok cv => exact addPairs_eff _ c h
  | ctx1 cov sets =>
    cases cov with
    | error e => simp [subAdd, liftPR, Safe]
    | ok cv =>
      simp only [subAdd, liftPR, subCost]
      cases hi : intersectCoverage cv c.current with
      | none => exact Safe.weaken (Eff.refl h : Safe (.ok c) c 0) (by omega)
      | some cur =>
        exact setsLoop1_safe (covIter cv) cur _ c 0 h (by simp [List.length_zip]; omega)
  | ctx2 cov cls sets =>
    cases cov with
    | error e => simp [subAdd, liftPR, Safe]
    | ok cv =>
      simp only [subAdd, liftPR, subCost]
      cases hi : intersectCoverage cv c.current with
      | none => exact Safe.weaken (Eff.refl h : Safe (.ok c) c 0) (by omega)
      | some cur =>
        cases cls with
        | error e => simp [Safe]
        | ok cd =>
          obtain ⟨ours, ho⟩ := makeClassSet_ok cd c.glyphs
          simp only [ho, CR.bind]
          exact setsLoop2_safe cd cur (intersectCoverage_inc hi) ours sets c 0 h
  | ctx3 covs others recs =>
    simp only [subAdd, subCost]
    cases hg : arrGet covs 0 with
    | error e => simp [liftPR, Safe]
    | ok cov0 =>
      simp only [liftPR]
      cases hi : intersectCoverage cov0 c.current with
      | none => exact Safe.weaken (Eff.refl h : Safe (.ok c) c 0) (by omega)
      | some cur =>
        simp only []
        split
        · exact ctx3Todos_safe covs cur (intersectCoverage_inc hi) recs c h
        · exact Safe.weaken (Eff.refl h : Safe (.ok c) c 0) (by omega)

theorem subsLoop_safe : ∀ (subs : List (PR Sub)) (c : Cx), Good c → Safe (subsLoop c subs) c (subsCost subs) := by
  intro subs
  induction subs with
  | nil => intro c h; exact Eff.refl h
  | cons s rest ih =>
    intro c h
    cases s with
    | error e => simp [subsLoop, Safe]
    | ok s =>
      simp only [subsLoop, subsCost]
      exact Safe.bind (subAdd_safe s c h) (fun c1 h1 => ih c1 h1.good)


/-! ## `finished_lookups` and the termination measure of the todo loop -/

theorem find?_filter_ne (m : List (Nat × Nat × Option G16)) (id id' : Nat) (h : id' ≠ id) :
    (m.filter (fun e => e.1 != id)).find? (fun e => e.1 == id') = m.find? (fun e => e.1 == id') := by
  induction m with
  | nil => rfl
  | cons e rest ih =>
    by_cases he : e.1 = id
    · have h1 : (e.1 != id) = false := by simp [he]
      have h2 : (e.1 == id') = false := by
        simp only [beq_eq_false_iff_ne, ne_eq, he]; exact fun e => h e.symm
      simp only [List.filter_cons, h1, Bool.false_eq_true, if_false, List.find?_cons, h2, ih]
    · have h1 : (e.1 != id) = true := by simp [he]
      simp only [List.filter_cons, h1, if_true, List.find?_cons, ih]

theorem finishedGet_set (m : List (Nat × Nat × Option G16)) (id id' : Nat) (v : Nat × Option G16) :
    finishedGet (finishedSet m id v) id' = if id' = id then some v else finishedGet m id' := by
  unfold finishedGet finishedSet
  by_cases h : id' = id
  · subst h; simp
  · have h2 : (id == id') = false := by
      simp only [beq_eq_false_iff_ne, ne_eq]; exact fun e => h e.symm
    simp only [h, if_false, List.find?_cons, h2, find?_filter_ne m id id' h]

/-- all `covered` sets are glyph sets -/
def FinOk (c : Cx) : Prop := ∀ e ∈ c.finished, ∀ cov, e.2.2 = some cov → Inc16 cov

/-- what is left of a lookup's budget in the current epoch (`g` = number of closure glyphs): it was
(re)run for this glyph count and has covered `cov` → `65536 − |cov|`; otherwise a fresh epoch -/
def remOf (v : Option (Nat × Option G16)) (g : Nat) : Nat :=
  match v with
  | some (cnt, some cov) => if cnt = g then 65536 - cov.length else 65537
  | _ => 65537

def rem (c : Cx) (id : Nat) : Nat := remOf (finishedGet c.finished id) c.glyphs.length

theorem remOf_le (v : Option (Nat × Option G16)) (g : Nat) : remOf v g ≤ 65537 := by
  unfold remOf
  split
  · split <;> omega
  · omega

theorem remOf_getD (o : Option (Nat × Option G16)) (g : Nat) : remOf (some (o.getD (0, none))) g = remOf o g := by
  cases o with
  | none => simp [remOf]
  | some v => simp

def remSum (c : Cx) (L : Nat) : Nat := ((List.range L).map (rem c)).sum

theorem sum_map_le (f : Nat → Nat) (B : Nat) (hf : ∀ i, f i ≤ B) : ∀ xs : List Nat, (xs.map f).sum ≤ xs.length * B := by
  intro xs
  induction xs with
  | nil => simp
  | cons x rest ih =>
    simp only [List.map_cons, List.sum_cons, List.length_cons, Nat.succ_mul]
    have := hf x
    omega

theorem remSum_le (c : Cx) (L : Nat) : remSum c L ≤ L * 65537 := by
  have := sum_map_le (rem c) 65537 (fun i => remOf_le _ _) (List.range L)
  simpa [remSum] using this

/-- pointwise `≤` with a drop of `δ` at one index of the range -/
theorem sum_range_dec (f f' : Nat → Nat) (id δ : Nat) (hne : ∀ i, i ≠ id → f' i = f i) (hid : f' id + δ ≤ f id) :
    ∀ L, id < L → ((List.range L).map f').sum + δ ≤ ((List.range L).map f).sum := by
  intro L
  induction L with
  | zero => intro h; omega
  | succ L ih =>
    intro h
    simp only [List.range_succ, List.map_append, List.sum_append, List.map_cons, List.map_nil, List.sum_cons,
      List.sum_nil, Nat.add_zero]
    by_cases hL : id = L
    · subst hL
      have : ((List.range id).map f').sum = ((List.range id).map f).sum := by
        congr 1
        apply List.map_congr_left
        intro i hi
        simp only [List.mem_range] at hi
        exact hne i (by omega)
      omega
    · have h1 := ih (by omega)
      have h2 := hne L (fun e => hL e.symm)
      omega

theorem sum_range_congr (f f' : Nat → Nat) (h : ∀ i, f' i = f i) (L : Nat) :
    ((List.range L).map f').sum = ((List.range L).map f).sum := by
  congr 1
  apply List.map_congr_left
  intro i _
  exact h i

/-- the lexicographic measure "(glyphs still to be found, Σ budgets left in this epoch)" as one number -/
def work (c : Cx) (L : Nat) : Nat := (65536 - c.glyphs.length) * (L * 65537 + 1) + remSum c L

theorem work_dec_arith (N g g' W S S' : Nat) (h1 : g + 1 ≤ g') (h2 : g' ≤ N) (h3 : S' + 1 ≤ W) :
    (N - g') * W + S' + 1 ≤ (N - g) * W + S := by
  have : (N - g' + 1) * W ≤ (N - g) * W := Nat.mul_le_mul_right W (by omega)
  rw [Nat.add_mul, Nat.one_mul] at this
  omega

theorem phi_dec_arith (A A' K t t' : Nat) (hA : A' + 1 ≤ A) (ht : t' ≤ t + K) :
    A' * (K + 1) + t' < A * (K + 1) + t + 1 := by
  have : (A' + 1) * (K + 1) ≤ A * (K + 1) := Nat.mul_le_mul_right _ hA
  rw [Nat.add_mul, Nat.one_mul] at this
  omega

/-! ## `needs_to_do_lookup` -/

structure NeedsSpec (c : Cx) (id : Nat) (b : Bool) (c1 : Cx) : Prop where
  glyphs : c1.glyphs = c.glyphs
  todos : c1.todos = c.todos
  cur : c1.cur = c.cur
  finOk : FinOk c1
  other : ∀ i, i ≠ id → rem c1 i = rem c i
  skip : b = false → rem c1 id ≤ rem c id
  exec : b = true → rem c1 id + 1 ≤ rem c id

theorem all_false_witness (cur : List Nat) (p : Nat → Bool) (h : ¬ cur.all p = true) : ∃ g ∈ cur, p g = false := by
  induction cur with
  | nil => simp at h
  | cons x rest ih =>
    simp only [List.all_cons, Bool.and_eq_true, not_and] at h
    by_cases hx : p x = true
    · obtain ⟨g, hg, hp⟩ := ih (h hx)
      exact ⟨g, by simp [hg], hp⟩
    · exact ⟨x, by simp, by simpa using hx⟩

theorem finOk_set {c : Cx} (h : FinOk c) (id : Nat) (v : Nat × Option G16) (hv : ∀ cov, v.2 = some cov → Inc16 cov) :
    FinOk { c with finished := finishedSet c.finished id v } := by
  intro e he cov hc
  simp only [finishedSet, List.mem_cons, List.mem_filter] at he
  rcases he with rfl | he
  · exact hv cov hc
  · exact h e he.1 cov hc

theorem rem_set_self (c : Cx) (id : Nat) (v : Nat × Option G16) :
    rem { c with finished := finishedSet c.finished id v } id = remOf (some v) c.glyphs.length := by
  simp [rem, finishedGet_set]

theorem rem_set_other (c : Cx) (id i : Nat) (v : Nat × Option G16) (hi : i ≠ id) :
    rem { c with finished := finishedSet c.finished id v } i = rem c i := by
  simp [rem, finishedGet_set, hi]

theorem needsToDo_eq (c : Cx) (id : Nat) (current : Option G16) :
    needsToDo c id current =
      (let e0 := (finishedGet c.finished id).getD (0, none)
       let e1 : Nat × Option G16 := if e0.1 ≠ c.glyphs.length then (c.glyphs.length, some []) else e0
       let cur := current.getD c.glyphs
       if cur.all (coveredHas e1.2) = true then
         (false, { c with finished := finishedSet c.finished id e1 })
       else (true, { c with finished := finishedSet c.finished id (e1.1, some ((e1.2.getD []).ext cur)) })) := rfl

theorem needsToDo_spec (c : Cx) (id : Nat) (current : Option G16) (hg : Inc16 c.glyphs) (hf : FinOk c)
    (hcur : ∀ s, current = some s → Inc16 s) :
    NeedsSpec c id (needsToDo c id current).1 (needsToDo c id current).2 := by
  have hcurLt : ∀ g ∈ current.getD c.glyphs, g < 65536 := by
    intro g hgm
    cases current with
    | none => exact hg.2 g hgm
    | some s => exact (hcur s rfl).2 g hgm
  -- the entry read and its invariant
  have he0 : ∀ cov, ((finishedGet c.finished id).getD (0, none)).2 = some cov → Inc16 cov := by
    intro cov hc
    cases hfg : finishedGet c.finished id with
    | none => simp [hfg] at hc
    | some v =>
      simp only [hfg, Option.getD_some] at hc
      unfold finishedGet at hfg
      cases hfi : c.finished.find? (fun e => e.1 == id) with
      | none => simp [hfi] at hfg
      | some e =>
        simp only [hfi, Option.map_some, Option.some.injEq] at hfg
        have hm := List.mem_of_find?_eq_some hfi
        exact hf e hm cov (by rw [hfg]; exact hc)
  have hrem0 : rem c id = remOf (some ((finishedGet c.finished id).getD (0, none))) c.glyphs.length := by
    rw [remOf_getD]; rfl
  rw [needsToDo_eq]
  simp only []
  generalize (finishedGet c.finished id).getD (0, none) = e0 at he0 hrem0
  -- facts about e1
  have hE1 : ∀ e1 : Nat × Option G16, e1 = (if e0.1 ≠ c.glyphs.length then (c.glyphs.length, some []) else e0) →
      e1.1 = c.glyphs.length ∧ (∀ cov, e1.2 = some cov → Inc16 cov) ∧ remOf (some e1) c.glyphs.length ≤ rem c id := by
    intro e1 he1
    obtain ⟨cnt0, cov0⟩ := e0
    by_cases hcnt : cnt0 ≠ c.glyphs.length
    · simp only [hcnt, if_true, ne_eq, not_false_eq_true] at he1
      subst he1
      refine ⟨rfl, by intro cov hc; injection hc with hc; rw [← hc]; exact inc16_nil, ?_⟩
      rw [hrem0]
      cases cov0 with
      | none => simp [remOf]
      | some cv => simp [remOf, hcnt]
    · have hcnt' : cnt0 = c.glyphs.length := by omega
      simp only [hcnt', ne_eq, not_true_eq_false, if_false] at he1
      subst he1
      exact ⟨rfl, he0, by rw [hrem0, hcnt']; exact Nat.le_refl _⟩
  generalize he1 : (if e0.1 ≠ c.glyphs.length then (c.glyphs.length, some []) else e0) = e1
  obtain ⟨h1a, h1b, h1c⟩ := hE1 e1 he1.symm
  by_cases hall : (current.getD c.glyphs).all (coveredHas e1.2) = true
  · rw [if_pos hall]
    refine ⟨rfl, rfl, rfl, finOk_set hf id e1 h1b, fun i hi => rem_set_other c id i e1 hi, ?_, ?_⟩
    · intro _; rw [rem_set_self]; exact h1c
    · intro hb; cases hb
  · rw [if_neg hall]
    have hinc : Inc16 (G16.ext (e1.2.getD []) (current.getD c.glyphs)) := by
      cases he : e1.2 with
      | none => exact inc16_nil.ext _
      | some cv => exact (h1b cv he).ext _
    refine ⟨rfl, rfl, rfl, finOk_set hf id _ (by intro cov hc; injection hc with hc; rw [← hc]; exact hinc),
      fun i hi => rem_set_other c id i _ hi, ?_, ?_⟩
    · intro hb; cases hb
    · intro _
      rw [rem_set_self]
      refine Nat.le_trans ?_ h1c
      obtain ⟨cnt1, cov1⟩ := e1
      simp only [] at h1a
      subst h1a
      cases cov1 with
      | none => simp [remOf]
      | some cv =>
        simp only [remOf, Option.getD_some, if_true, ite_true]
        obtain ⟨g, hgm, hgp⟩ := all_false_witness _ _ hall
        have hgn : g ∉ cv := by
          simp only [coveredHas] at hgp
          intro hm
          have : cv.contains g = true := by simpa using hm
          rw [this] at hgp; cases hgp
        have h1 := length_ext_gt (current.getD c.glyphs) cv ⟨g, hgm, hgn, hcurLt g hgm⟩
        have h2 := hinc.length_le
        simp only [Option.getD_some] at h2
        omega


/-! ## one lookup, the todo loop, one pass, the fixpoint loop -/

theorem arrGet_ok {α : Type} {xs : List (PR α)} {i : Nat} {a : α} (h : arrGet xs i = .ok a) :
    i < xs.length ∧ xs[i]? = some (.ok a) := by
  unfold arrGet at h
  cases hx : xs[i]? with
  | none => simp [hx] at h
  | some r =>
    simp only [hx] at h
    subst h
    have := List.getElem?_eq_some_iff.mp hx
    exact ⟨this.1, rfl⟩

theorem cost_le_max : ∀ (lookups : List (PR Lookup)) (lk : Lookup), (.ok lk : PR Lookup) ∈ lookups →
    lookupCost lk ≤ maxCost lookups := by
  intro lookups
  induction lookups with
  | nil => intro lk h; simp at h
  | cons x rest ih =>
    intro lk h
    simp only [List.mem_cons] at h
    cases x with
    | error e =>
      simp only [maxCost]
      rcases h with h | h
      · cases h
      · exact ih lk h
    | ok l =>
      simp only [maxCost]
      rcases h with h | h
      · injection h with h; subst h; exact Nat.le_max_left _ _
      · exact Nat.le_trans (ih lk h) (Nat.le_max_right _ _)

theorem sum_range_le (f f' : Nat → Nat) (h : ∀ i, f' i ≤ f i) (L : Nat) :
    ((List.range L).map f').sum ≤ ((List.range L).map f).sum := by
  induction L with
  | zero => simp
  | succ L ih =>
    simp only [List.range_succ, List.map_append, List.sum_append, List.map_cons, List.map_nil, List.sum_cons,
      List.sum_nil, Nat.add_zero]
    have := h L
    omega

/-- result of `ClosureCtx::closure_glyphs` for one lookup: either skipped (nothing pushed, the measure
does not grow) or executed (at most `K` todos pushed, the measure drops) -/
def LookupPost (L K : Nat) (c : Cx) : CR Cx → Prop
  | .trap => False
  | .err _ => True
  | .ok c' => Good c' ∧ FinOk c' ∧ (∀ g ∈ c.glyphs, g ∈ c'.glyphs) ∧ c.glyphs.length ≤ c'.glyphs.length ∧
      ((c'.todos.length ≤ c.todos.length ∧ work c' L ≤ work c L) ∨
       (c'.todos.length ≤ c.todos.length + K ∧ work c' L + 1 ≤ work c L))

theorem closureLookup_step (L K : Nat) (c : Cx) (lk : Lookup) (id : Nat) (current : Option G16)
    (hG : Good c) (hF : FinOk c) (hcur : ∀ s, current = some s → Inc16 s) (hid : id < L)
    (hK : lookupCost lk ≤ K) : LookupPost L K c (closureLookup c lk id current) := by
  have sp := needsToDo_spec c id current hG.1 hF hcur
  unfold closureLookup
  generalize needsToDo c id current = r at sp
  obtain ⟨b, c1⟩ := r
  simp only [] at sp ⊢
  have hG1 : Good c1 := ⟨by rw [sp.glyphs]; exact hG.1, by rw [sp.todos]; exact hG.2⟩
  cases b with
  | false =>
    simp only [Bool.false_eq_true, if_false]
    refine ⟨hG1, sp.finOk, by rw [sp.glyphs]; exact fun g h => h, by rw [sp.glyphs]; exact Nat.le_refl _, Or.inl ⟨by rw [sp.todos]; exact Nat.le_refl _, ?_⟩⟩
    unfold work
    rw [sp.glyphs]
    have : remSum c1 L ≤ remSum c L := by
      unfold remSum
      apply sum_range_le
      intro i
      by_cases hi : i = id
      · subst hi; exact sp.skip rfl
      · rw [sp.other i hi]; exact Nat.le_refl _
    omega
  | true =>
    simp only [if_true]
    cases lk with
    | error e => simp [liftPR, LookupPost]
    | ok subs =>
      simp only [liftPR]
      have hG1' : Good { c1 with cur := current } := hG1
      have hs := subsLoop_safe subs { c1 with cur := current } hG1'
      cases hr : subsLoop { c1 with cur := current } subs with
      | trap => rw [hr] at hs; exact hs
      | err e => simp [CR.bind, LookupPost]
      | ok c2 =>
        rw [hr] at hs
        have he : Eff { c1 with cur := current } c2 (subsCost subs) := hs
        simp only [CR.bind, LookupPost]
        have hfin : c2.finished = c1.finished := he.fin
        have hglen : c.glyphs.length ≤ c2.glyphs.length := by
          have := he.mono; simp only [] at this; rw [sp.glyphs] at this; exact this
        refine ⟨⟨he.inc, he.tok⟩, ?_, ?_, hglen, Or.inr ⟨?_, ?_⟩⟩
        · intro e hm cov hc
          simp only [] at hm
          rw [hfin] at hm
          exact sp.finOk e hm cov hc
        · intro g hg
          have := he.sub g (by simp only []; rw [sp.glyphs]; exact hg)
          exact this
        · have := he.tlen
          simp only [] at this
          rw [sp.todos] at this
          simp only [lookupCost] at hK
          omega
        · -- the measure drops
          have hrem3 : ∀ i, rem { c2 with cur := none } i = remOf (finishedGet c1.finished i) c2.glyphs.length := by
            intro i; simp only [rem, hfin]
          by_cases hsame : c2.glyphs.length = c.glyphs.length
          · unfold work
            simp only [hsame]
            have : remSum { c2 with cur := none } L + 1 ≤ remSum c L := by
              unfold remSum
              apply sum_range_dec (rem c) (rem { c2 with cur := none }) id 1
              · intro i hi
                rw [hrem3, hsame, ← sp.other i hi]
                simp only [rem, sp.glyphs]
              · rw [hrem3, hsame]
                have := sp.exec rfl
                simp only [rem, sp.glyphs] at this
                exact this
              · exact hid
            omega
          · unfold work
            simp only []
            have hlt : c.glyphs.length + 1 ≤ c2.glyphs.length := by omega
            have hle : c2.glyphs.length ≤ 65536 := he.inc.length_le
            have hS : remSum { c2 with cur := none } L + 1 ≤ L * 65537 + 1 := by
              have := remSum_le { c2 with cur := none } L; omega
            exact work_dec_arith 65536 _ _ (L * 65537 + 1) (remSum c L) _ hlt hle hS

def phi (c : Cx) (L K : Nat) : Nat := work c L * (K + 1) + c.todos.length

/-- **the todo loop terminates**: `phi + 1` units of fuel suffice, and it never panics -/
theorem todoLoop_terminates (lookups : List (PR Lookup)) :
    ∀ (fuel : Nat) (c : Cx), Good c → FinOk c → phi c lookups.length (maxCost lookups) < fuel →
      ∃ r, todoLoop lookups fuel c = some r ∧ r ≠ .trap ∧
        ∀ c', r = .ok c' → Good c' ∧ FinOk c' ∧ (∀ g ∈ c.glyphs, g ∈ c'.glyphs) ∧
          c.glyphs.length ≤ c'.glyphs.length ∧ c'.todos = [] := by
  intro fuel
  induction fuel with
  | zero => intro c _ _ h; omega
  | succ fuel ih =>
    intro c hG hF hphi
    unfold todoLoop
    cases ht : c.todos with
    | nil =>
      exact ⟨.ok c, rfl, by simp, fun c' h => by
        injection h with h; subst h
        exact ⟨hG, hF, fun g h => h, Nat.le_refl _, ht⟩⟩
    | cons t rest =>
      obtain ⟨id, active⟩ := t
      simp only []
      cases hl : arrGet lookups id with
      | error e => exact ⟨.err e, rfl, by simp, fun c' h => by cases h⟩
      | ok lk =>
        simp only []
        have ⟨hid, hmem⟩ := arrGet_ok hl
        have hK := cost_le_max lookups lk (List.mem_of_getElem? hmem)
        have hG0 : Good { c with todos := rest } :=
          ⟨hG.1, fun t' ht' => hG.2 t' (by rw [ht]; simp [ht'])⟩
        have hact : ∀ s, active = some s → Inc16 s := hG.2 (id, active) (by rw [ht]; simp)
        have st := closureLookup_step lookups.length (maxCost lookups) { c with todos := rest } lk id active hG0 hF hact hid hK
        cases hr : closureLookup { c with todos := rest } lk id active with
        | trap => rw [hr] at st; exact absurd st (by simp [LookupPost])
        | err e => exact ⟨.err e, rfl, by simp, fun c' h => by cases h⟩
        | ok c1 =>
          rw [hr] at st
          simp only [LookupPost] at st
          obtain ⟨hG1, hF1, hsub1, hmono1, hmeas⟩ := st
          have hphi1 : phi c1 lookups.length (maxCost lookups) < fuel := by
            have hw : work { c with todos := rest } lookups.length = work c lookups.length := rfl
            unfold phi at hphi ⊢
            rw [ht] at hphi
            simp only [List.length_cons] at hphi
            rcases hmeas with ⟨h1, h2⟩ | ⟨h1, h2⟩
            · rw [hw] at h2
              have h3 := Nat.mul_le_mul_right (maxCost lookups + 1) h2
              have h1' : c1.todos.length ≤ rest.length := h1
              generalize work c1 lookups.length * (maxCost lookups + 1) = p at h3 ⊢
              generalize work c lookups.length * (maxCost lookups + 1) = q at h3 hphi
              omega
            · rw [hw] at h2
              have h1 : c1.todos.length ≤ rest.length + maxCost lookups := h1
              have := phi_dec_arith (work c lookups.length) (work c1 lookups.length) (maxCost lookups) rest.length c1.todos.length h2 h1
              omega
          obtain ⟨r, hr2, hnt, hpost⟩ := ih c1 hG1 hF1 hphi1
          refine ⟨r, hr2, hnt, fun c' hc' => ?_⟩
          obtain ⟨a, b, c3, d, e⟩ := hpost c' hc'
          exact ⟨a, b, fun g hg => c3 g (hsub1 g hg), Nat.le_trans hmono1 d, e⟩

/-- the first loop of `closure_glyphs_once`: every reachable lookup with all glyphs active -/
theorem onceLookups_safe (lookups : List (PR Lookup)) :
    ∀ (ids : List Nat) (c : Cx), Good c → FinOk c →
      match onceLookups lookups c ids with
      | .trap => False
      | .err _ => True
      | .ok c' => Good c' ∧ FinOk c' ∧ (∀ g ∈ c.glyphs, g ∈ c'.glyphs) ∧ c.glyphs.length ≤ c'.glyphs.length ∧
          c'.todos.length ≤ c.todos.length + ids.length * maxCost lookups := by
  intro ids
  induction ids with
  | nil => intro c hG hF; exact ⟨hG, hF, fun g h => h, Nat.le_refl _, by simp⟩
  | cons id rest ih =>
    intro c hG hF
    unfold onceLookups
    cases hl : arrGet lookups id with
    | error e => simp [liftPR]
    | ok lk =>
      simp only [liftPR]
      have ⟨hid, hmem⟩ := arrGet_ok hl
      have hK := cost_le_max lookups lk (List.mem_of_getElem? hmem)
      have st := closureLookup_step lookups.length (maxCost lookups) c lk id none hG hF (by intro s h; cases h) hid hK
      cases hr : closureLookup c lk id none with
      | trap => rw [hr] at st; exact st
      | err e => simp [CR.bind]
      | ok c1 =>
        rw [hr] at st
        simp only [LookupPost] at st
        obtain ⟨hG1, hF1, hsub1, hmono1, hmeas⟩ := st
        simp only [CR.bind]
        have := ih c1 hG1 hF1
        cases hr2 : onceLookups lookups c1 rest with
        | trap => rw [hr2] at this; exact this
        | err e => trivial
        | ok c2 =>
          rw [hr2] at this
          obtain ⟨a, b, c3, d, e⟩ := this
          refine ⟨a, b, fun g hg => c3 g (hsub1 g hg), Nat.le_trans hmono1 d, ?_⟩
          simp only [List.length_cons, Nat.succ_mul]
          rcases hmeas with ⟨h1, _⟩ | ⟨h1, _⟩ <;> omega

/-- an upper bound of `work` over all contexts -/
theorem work_le (c : Cx) (L : Nat) : work c L ≤ 65536 * (L * 65537 + 1) + L * 65537 := by
  unfold work
  have h1 := remSum_le c L
  have h2 : (65536 - c.glyphs.length) * (L * 65537 + 1) ≤ 65536 * (L * 65537 + 1) :=
    Nat.mul_le_mul_right _ (by omega)
  generalize (65536 - c.glyphs.length) * (L * 65537 + 1) = a at h2 ⊢
  generalize 65536 * (L * 65537 + 1) = b at h2 ⊢
  omega

def PassPost (c : Cx) : CR Cx → Prop
  | .trap => False
  | .err _ => True
  | .ok c' => Good c' ∧ FinOk c' ∧ (∀ g ∈ c.glyphs, g ∈ c'.glyphs) ∧ c.glyphs.length ≤ c'.glyphs.length ∧ c'.todos = []

/-- **one pass (`closure_glyphs_once`) terminates** within `onceFuel` todo-loop trips and never panics -/
theorem closureOnce_terminates (g : GsubT) (reachable : List Nat) (c : Cx) (hG : Good c) (hF : FinOk c)
    (ht : c.todos = []) (fuel : Nat)
    (hfuel : ∀ ls, g.lookups = .ok ls → onceFuel ls.length (maxCost ls) reachable.length ≤ fuel) :
    ∃ r, closureOnce g reachable fuel c = some r ∧ PassPost c r := by
  unfold closureOnce
  cases hl : g.lookups with
  | error e => exact ⟨.err e, rfl, trivial⟩
  | ok ls =>
    simp only []
    have h1 := onceLookups_safe ls reachable c hG hF
    cases hr : onceLookups ls c reachable with
    | trap => rw [hr] at h1; exact absurd h1 (by simp)
    | err e => exact ⟨.err e, rfl, trivial⟩
    | ok c1 =>
      rw [hr] at h1
      simp only [] at h1
      obtain ⟨hG1, hF1, hsub1, hmono1, htl⟩ := h1
      have hphi : phi c1 ls.length (maxCost ls) < fuel := by
        have := hfuel ls hl
        unfold onceFuel at this
        unfold phi
        have hw := work_le c1 ls.length
        have := Nat.mul_le_mul_right (maxCost ls + 1) hw
        rw [ht] at htl
        simp only [List.length_nil, Nat.zero_add] at htl
        omega
      obtain ⟨r, hr2, hnt, hpost⟩ := todoLoop_terminates ls fuel c1 hG1 hF1 hphi
      refine ⟨r, hr2, ?_⟩
      cases r with
      | trap => exact absurd rfl hnt
      | err e => trivial
      | ok c2 =>
        obtain ⟨a, b, c3, d, e⟩ := hpost c2 rfl
        exact ⟨a, b, fun g hg => c3 g (hsub1 g hg), Nat.le_trans hmono1 d, e⟩

/-- **the fixpoint loop of `closure_glyphs` makes at most `65536 − |glyphs| + 2` passes**: every pass but
the last one finds a new glyph, and there are only 65536 glyph ids -/
theorem closureLoop_terminates (g : GsubT) (reachable : List Nat) (fuelI : Nat)
    (hfuel : ∀ ls, g.lookups = .ok ls → onceFuel ls.length (maxCost ls) reachable.length ≤ fuelI) :
    ∀ (fuelO : Nat) (prev : Nat × Nat) (c : Cx), Good c → FinOk c → c.todos = [] →
      65536 - c.glyphs.length + 2 ≤ fuelO →
      ∃ r, closureLoop g reachable fuelI fuelO prev c = some r ∧ PassPost c r := by
  intro fuelO
  induction fuelO with
  | zero => intro prev c _ _ _ h; omega
  | succ fuelO ih =>
    intro prev c hG hF ht hfo
    unfold closureLoop
    simp only []
    by_cases hp : prev = (c.glyphs.length, reachable.length)
    · simp only [hp, if_true]
      exact ⟨.ok c, rfl, hG, hF, fun g h => h, Nat.le_refl _, ht⟩
    · simp only [hp, if_false]
      obtain ⟨r, hr, hpost⟩ := closureOnce_terminates g reachable c hG hF ht fuelI hfuel
      rw [hr]
      cases r with
      | trap => exact absurd hpost (by simp [PassPost])
      | err e => exact ⟨.err e, rfl, trivial⟩
      | ok c1 =>
        simp only []
        obtain ⟨hG1, hF1, hsub1, hmono1, ht1⟩ := hpost
        by_cases hsame : c1.glyphs.length = c.glyphs.length
        · -- no new glyph: the next test ends the loop
          cases fuelO with
          | zero => omega
          | succ k =>
            unfold closureLoop
            simp only [hsame, if_true]
            exact ⟨.ok c1, rfl, hG1, hF1, hsub1, hmono1, ht1⟩
        · have hle : c1.glyphs.length ≤ 65536 := hG1.1.length_le
          obtain ⟨r2, hr2, hpost2⟩ := ih (c.glyphs.length, reachable.length) c1 hG1 hF1 ht1 (by omega)
          refine ⟨r2, hr2, ?_⟩
          cases r2 with
          | trap => exact hpost2
          | err e => trivial
          | ok c2 =>
            obtain ⟨a, b, c3, d, e⟩ := hpost2
            exact ⟨a, b, fun g hg => c3 g (hsub1 g hg), Nat.le_trans hmono1 d, e⟩


/-! ## readers -/

theorem rd16_ok {d : List Nat} {p v : Nat} (h : rd16 d p = .ok v) : v = beAt d p 2 ∧ p + 2 ≤ d.length := by
  unfold rd16 readAt checkedAdd at h
  by_cases h1 : p + 2 ≤ MAXU
  · simp only [h1, if_true] at h
    by_cases h2 : p + 2 ≤ d.length
    · simp only [h2, if_true] at h
      injection h with h
      exact ⟨h.symm, h2⟩
    · simp [h2] at h
  · simp [h1] at h

theorem need_ok {d : List Nat} {p n : Nat} {u : Unit} (h : need d p n = .ok u) : p + n ≤ d.length := by
  unfold need at h
  by_cases h1 : p + n ≤ d.length
  · exact h1
  · simp [h1] at h


/-! ## `collect_features` -/

theorem indexForTag_lt {tags : List Nat} {t i : Nat} (h : indexForTag tags t = some i) : i < tags.length := by
  unfold indexForTag at h
  cases hb : binarySearchBy tags.length (fun i => natCmp (tags.getD i 0) t) with
  | err j => rw [hb] at h; cases h
  | ok j =>
    rw [hb] at h
    injection h with h
    have := (bs_ok hb).1
    have := Nat.mod_le j 65536
    omega

/-- invariant of `CollectFeaturesContext`: the counters stay below their limits + 1 (so the `u16`
increments cannot overflow), results and filter are indices of wanted features -/
def CFInv (F0 : List Nat) (c : CF) : Prop :=
  c.scriptCount ≤ 501 ∧ c.langsysCount ≤ 2001 ∧ (∀ i ∈ c.out, i ∈ F0) ∧ (∀ i ∈ c.filter, i ∈ F0)

theorem visitedStep_val (count : Nat) (visited : List Nat) (max head pos : Nat) (hc : count ≤ max + 1) (hm : max + 2 ≤ 65536) :
    ∃ b n v, visitedStep count visited max head (head + pos) = .val (b, n, v) ∧ n ≤ max + 1 := by
  unfold visitedStep
  by_cases h : count > max
  · exact ⟨true, count, visited, by simp [h], hc⟩
  · simp only [h, if_false, inc16, subTrap]
    have h1 : count + 1 < 65536 := by omega
    have h2 : head ≤ head + pos := by omega
    simp only [h1, h2, if_true, Res.bind]
    exact ⟨_, _, _, rfl, by omega⟩

theorem limitExceeded_inv (F0 : List Nat) (c : CF) (n : Nat) (h : CFInv F0 c) : CFInv F0 (limitExceeded c n).2 := by
  unfold limitExceeded
  simp only []
  split <;> exact h

theorem limitExceeded_fields (c : CF) (n : Nat) :
    (limitExceeded c n).2.out = c.out ∧ (limitExceeded c n).2.filter = c.filter := by
  unfold limitExceeded
  simp only []
  split <;> exact ⟨rfl, rfl⟩

theorem langFeatures_inv (F0 : List Nat) : ∀ (idxs : List Nat) (c : CF), CFInv F0 c → CFInv F0 (langFeatures c idxs) := by
  intro idxs
  induction idxs with
  | nil => intro c h; exact h
  | cons idx rest ih =>
    intro c h
    unfold langFeatures
    split
    · rename_i hc
      apply ih
      refine ⟨h.1, h.2.1, ?_, ?_⟩
      · intro i hi
        simp only [] at hi
        rcases (mem_insertUniq idx i c.out).mp hi with rfl | hi
        · exact h.2.2.2 _ (by simpa using hc)
        · exact h.2.2.1 i hi
      · intro i hi
        simp only [List.mem_filter] at hi
        exact h.2.2.2 i hi.1
    · exact ih c h

theorem requiredStep_inv (F0 : List Nat) (c : CF) (req : Nat) (h : CFInv F0 c) : CFInv F0 (requiredStep c req) := by
  unfold requiredStep
  by_cases hr : req ≠ 65535
  · rw [if_pos hr]
    have hl := limitExceeded_inv F0 c 1 h
    simp only []
    by_cases hcond : (!(limitExceeded c 1).1 && (limitExceeded c 1).2.filter.contains req) = true
    · rw [if_pos hcond]
      simp only [Bool.and_eq_true] at hcond
      refine ⟨hl.1, hl.2.1, ?_, hl.2.2.2⟩
      intro i hi
      simp only [] at hi
      rcases (mem_insertUniq _ i _).mp hi with rfl | hi
      · exact hl.2.2.2 _ (by simpa using hcond.2)
      · exact hl.2.2.1 i hi
    · rw [if_neg hcond]; exact hl
  · rw [if_neg hr]; exact h

theorem langSysBody_inv (F0 : List Nat) (c : CF) (ls : LangSysT) (h : CFInv F0 c) : CFInv F0 (langSysBody c ls) := by
  unfold langSysBody
  simp only []
  have h2 := limitExceeded_inv F0 _ ls.features.length (requiredStep_inv F0 c ls.required h)
  split
  · exact h2
  · exact langFeatures_inv F0 _ _ h2

theorem langSysCollect_val (F0 : List Nat) (head : Nat) (c : CF) (ls : LangSysT) (h : CFInv F0 c) :
    ∃ c', langSysCollect head c ls = .val c' ∧ CFInv F0 c' := by
  unfold langSysCollect
  obtain ⟨b, n, v, hv, hn⟩ := visitedStep_val c.langsysCount c.visitedLangsys 2000 head ls.pos h.2.1 (by omega)
  rw [hv]
  simp only [Res.bind]
  have h1 : CFInv F0 { c with langsysCount := n, visitedLangsys := v } := ⟨h.1, hn, h.2.2.1, h.2.2.2⟩
  split
  · exact ⟨_, rfl, h1⟩
  · split
    · exact ⟨_, rfl, h1⟩
    · exact ⟨_, rfl, langSysBody_inv F0 _ ls h1⟩

/-- a `Result` step is safe: no panic; `Ok` keeps the invariant -/
def RSafe (F0 : List Nat) : RR CF → Prop
  | .trap => False
  | .val (.error _) => True
  | .val (.ok c) => CFInv F0 c

theorem scriptLangsInv_safe (F0 : List Nat) (head : Nat) (languages : TagSet) :
    ∀ (recs : List (Nat × PR LangSysT)) (c : CF), CFInv F0 c → RSafe F0 (scriptLangsInv head languages c recs) := by
  intro recs
  induction recs with
  | nil => intro c h; exact h
  | cons p rest ih =>
    intro c h
    obtain ⟨tag, r⟩ := p
    unfold scriptLangsInv
    split
    · exact ih c h
    · cases r with
      | error e => trivial
      | ok ls =>
        obtain ⟨c', hc', hi⟩ := langSysCollect_val F0 head c ls h
        simp only [hc', Res.bind]
        exact ih c' hi

theorem scriptLangsSel_safe (F0 : List Nat) (head : Nat) (recs : List (Nat × PR LangSysT)) :
    ∀ (tags : List Nat) (c : CF), CFInv F0 c → RSafe F0 (scriptLangsSel head recs c tags) := by
  intro tags
  induction tags with
  | nil => intro c h; exact h
  | cons tag rest ih =>
    intro c h
    unfold scriptLangsSel
    cases hx : indexForTag (recs.map (·.1)) tag with
    | none => exact ih c h
    | some idx =>
      simp only []
      have hlt := indexForTag_lt hx
      simp only [List.length_map] at hlt
      rw [List.getElem?_eq_getElem hlt]
      generalize recs[idx] = e
      obtain ⟨t, r⟩ := e
      cases r with
      | error e => trivial
      | ok ls =>
        obtain ⟨c', hc', hi⟩ := langSysCollect_val F0 head c ls h
        simp only [hc', Res.bind]
        exact ih c' hi

theorem scriptCollect_safe (F0 : List Nat) (head : Nat) (languages : TagSet) (c : CF) (s : ScriptT) (h : CFInv F0 c) :
    RSafe F0 (scriptCollect head languages c s) := by
  unfold scriptCollect
  obtain ⟨b, n, v, hv, hn⟩ := visitedStep_val c.scriptCount c.visitedScript 500 head s.pos h.1 (by omega)
  rw [hv]
  simp only [Res.bind]
  have h1 : CFInv F0 { c with scriptCount := n, visitedScript := v } := ⟨hn, h.2.1, h.2.2.1, h.2.2.2⟩
  split
  · exact h1
  · cases hd : s.dflt with
    | none =>
      simp only []
      split
      · exact scriptLangsInv_safe F0 head languages _ _ h1
      · exact scriptLangsSel_safe F0 head _ _ _ h1
    | some r =>
      cases r with
      | error e => trivial
      | ok ls =>
        obtain ⟨c', hc', hi⟩ := langSysCollect_val F0 head _ ls h1
        simp only [hc', Res.bind]
        split
        · exact scriptLangsInv_safe F0 head languages _ _ hi
        · exact scriptLangsSel_safe F0 head _ _ _ hi

theorem scriptsInv_safe (F0 : List Nat) (head : Nat) (scripts languages : TagSet) :
    ∀ (recs : List (Nat × PR ScriptT)) (c : CF), CFInv F0 c → RSafe F0 (scriptsInv head scripts languages c recs) := by
  intro recs
  induction recs with
  | nil => intro c h; exact h
  | cons p rest ih =>
    intro c h
    obtain ⟨tag, r⟩ := p
    unfold scriptsInv
    split
    · exact ih c h
    · cases r with
      | error e => trivial
      | ok s =>
        have hs := scriptCollect_safe F0 head languages c s h
        simp only []
        cases hr : scriptCollect head languages c s with
        | trap => rw [hr] at hs; exact hs
        | val x =>
          rw [hr] at hs
          simp only [Res.bind]
          cases x with
          | error e => trivial
          | ok c' => exact ih c' hs

theorem scriptsSel_safe (F0 : List Nat) (head : Nat) (languages : TagSet) (recs : List (Nat × PR ScriptT)) :
    ∀ (tags : List Nat) (c : CF), CFInv F0 c → RSafe F0 (scriptsSel head languages recs c tags) := by
  intro tags
  induction tags with
  | nil => intro c h; exact h
  | cons tag rest ih =>
    intro c h
    unfold scriptsSel
    cases hx : indexForTag (recs.map (·.1)) tag with
    | none => exact ih c h
    | some idx =>
      simp only []
      have hlt := indexForTag_lt hx
      simp only [List.length_map] at hlt
      rw [List.getElem?_eq_getElem hlt]
      generalize recs[idx] = e
      obtain ⟨t, r⟩ := e
      cases r with
      | error e => trivial
      | ok s =>
        have hs := scriptCollect_safe F0 head languages c s h
        simp only []
        cases hr : scriptCollect head languages c s with
        | trap => rw [hr] at hs; exact hs
        | val x =>
          rw [hr] at hs
          simp only [Res.bind]
          cases x with
          | error e => trivial
          | ok c' => exact ih c' hs

/-- the initial filter of `CollectFeaturesContext::new` -/
def filter0 (featureTags : List Nat) (features : TagSet) : List Nat :=
  (((List.range featureTags.length).zip featureTags).filterMap (fun p =>
    if features.contains p.2 then some (p.1 % 65536) else none)).foldl (fun s x => insertUniq x s) []

theorem mem_foldl_insertUniq : ∀ (xs s : List Nat) (y : Nat), y ∈ xs.foldl (fun s x => insertUniq x s) s → y ∈ xs ∨ y ∈ s := by
  intro xs
  induction xs with
  | nil => intro s y h; exact Or.inr h
  | cons x rest ih =>
    intro s y h
    simp only [List.foldl_cons] at h
    rcases ih _ y h with h | h
    · exact Or.inl (by simp [h])
    · rcases (mem_insertUniq x y s).mp h with rfl | h
      · exact Or.inl (by simp)
      · exact Or.inr h

theorem filter0_lt (featureTags : List Nat) (features : TagSet) (i : Nat) (h : i ∈ filter0 featureTags features) :
    ∃ j, j < featureTags.length ∧ i = j % 65536 ∧ features.contains (featureTags.getD j 0) = true := by
  unfold filter0 at h
  rcases mem_foldl_insertUniq _ _ _ h with h | h
  · simp only [List.mem_filterMap] at h
    obtain ⟨p, hp, hi⟩ := h
    by_cases hc : features.contains p.2 = true
    · simp only [hc, if_true, Option.some.injEq] at hi
      have hz := List.of_mem_zip hp
      have hlt : p.1 < featureTags.length := by simpa using hz.1
      obtain ⟨k, hk, hke⟩ := List.getElem_of_mem hp
      simp only [List.getElem_zip, List.getElem_range] at hke
      refine ⟨p.1, hlt, hi.symm, ?_⟩
      have : featureTags.getD p.1 0 = p.2 := by
        rw [← hke]
        simp only [List.length_zip, List.length_range, Nat.min_self] at hk
        simp [List.getD, List.getElem?_eq_getElem hk]
      rw [this]; exact hc
    · simp [hc] at hi
  · simp at h


end FontVerif.HandLayout
