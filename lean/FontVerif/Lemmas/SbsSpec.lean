/-
Sparse-bit-set codec: the breadth-first queue decoder (`decodeLoop`) reads the same stream
positions as the layer-by-layer specification decoder (`specLayers`), and inserts the same
members after bias / maximum.  The early `break 'outer` is sound because node starts within a
layer are ascending and separated by the node size (`SepFrom`).
-/
import FontVerif.Lemmas.SbsStream
import FontVerif.Lemmas.SbsTotal
set_option linter.unusedVariables false
namespace FontVerif.SparseBitSet

/-- membership in a list of inclusive ranges -/
def InsMem (ins : List (Nat × Nat)) (x : Nat) : Prop := ∃ r ∈ ins, r.1 ≤ x ∧ x ≤ r.2

theorem insMem_nil (x : Nat) : InsMem [] x ↔ False := by simp [InsMem]

theorem insMem_append (a b : List (Nat × Nat)) (x : Nat) :
    InsMem (a ++ b) x ↔ InsMem a x ∨ InsMem b x := by
  simp only [InsMem, List.mem_append]
  constructor
  · rintro ⟨r, h | h, hx⟩
    · exact Or.inl ⟨r, h, hx⟩
    · exact Or.inr ⟨r, h, hx⟩
  · rintro (⟨r, h, hx⟩ | ⟨r, h, hx⟩)
    · exact ⟨r, Or.inl h, hx⟩
    · exact ⟨r, Or.inr h, hx⟩

theorem specMem_nil (bias m x : Nat) : SpecMem [] bias m x ↔ False := by simp [SpecMem]

theorem specMem_append (a b : List (Nat × Nat)) (bias m x : Nat) :
    SpecMem (a ++ b) bias m x ↔ SpecMem a bias m x ∨ SpecMem b bias m x := by
  simp only [SpecMem, List.mem_append]
  constructor
  · rintro ⟨h1, h2, p, h | h, hx⟩
    · exact Or.inl ⟨h1, h2, p, h, hx⟩
    · exact Or.inr ⟨h1, h2, p, h, hx⟩
  · rintro (⟨h1, h2, p, h, hx⟩ | ⟨h1, h2, p, h, hx⟩)
    · exact ⟨h1, h2, p, Or.inl h, hx⟩
    · exact ⟨h1, h2, p, Or.inr h, hx⟩

theorem specMem_cons (p : Nat × Nat) (a : List (Nat × Nat)) (bias m x : Nat) :
    SpecMem (p :: a) bias m x ↔
      (x ≤ m ∧ x ≤ U32_MAX ∧ p.1 + bias ≤ x ∧ x ≤ p.2 + bias) ∨ SpecMem a bias m x := by
  have := specMem_append [p] a bias m x
  simp only [List.singleton_append] at this
  rw [this]
  simp [SpecMem]

/-! ### what the decoder inserts for one layer -/

/-- the `bits == 0` branch -/
def filledIns (bf height depth bias maxValue start : Nat) : List (Nat × Nat) :=
  if start ≤ U32_MAX ∧ start + bias ≤ U32_MAX ∧ start + bias ≤ maxValue then
    [(start + bias,
      min (min (min (start + bf ^ (height - depth + 1) - 1) U32_MAX + bias) U32_MAX) maxValue)]
  else []

/-- insertions of a non-leaf layer: only filled nodes -/
def upperIns (bf height depth bias maxValue : Nat) : List Nat → List Nat → List (Nat × Nat)
  | s :: ss, b :: bs =>
    (if b = 0 then filledIns bf height depth bias maxValue s else []) ++
      upperIns bf height depth bias maxValue ss bs
  | _, _ => []

/-- insertions of the leaf layer, and whether `break 'outer` was taken -/
def leafRun (bf height bias maxValue : Nat) : List Nat → List Nat → List (Nat × Nat) × Bool
  | s :: ss, b :: bs =>
    if b = 0 then
      let r := leafRun bf height bias maxValue ss bs
      (filledIns bf height height bias maxValue s ++ r.1, r.2)
    else
      let l := leafValues s bias maxValue (setBits b)
      if l.2 then (l.1, true)
      else
        let r := leafRun bf height bias maxValue ss bs
        (l.1 ++ r.1, r.2)
  | _, _ => ([], false)

/-! ### queue ≙ layers : stream positions -/

/-- a non-leaf layer: the queue `rest of this layer ++ children so far` becomes
`children so far ++ this layer's children`, reading exactly this layer's nodes. -/
theorem decodeLoop_upper (bf height depth bias maxValue : Nat) (data : List Nat)
    (hd : depth ≠ height) :
    ∀ (starts : List Nat) (st st' : BitIn) (bitss : List Nat) (fuel : Nat)
      (nxt acc : List (Nat × Nat)),
      readNodes bf data starts.length st = some (bitss, st') →
      decodeLoop bf height bias maxValue data (fuel + starts.length) st
          (starts.map (fun s => (s, depth)) ++ nxt) acc
        = decodeLoop bf height bias maxValue data fuel st'
            (nxt ++ (specLayer bf height depth starts bitss).2.map (fun s => (s, depth + 1)))
            (acc ++ upperIns bf height depth bias maxValue starts bitss)
  | [], st, st', bitss, fuel, nxt, acc, h => by
    simp [readNodes] at h
    obtain ⟨rfl, rfl⟩ := h
    simp [specLayer, upperIns]
  | s :: ss, st, st', bitss, fuel, nxt, acc, h => by
    simp only [List.length_cons, readNodes] at h
    split at h
    · simp at h
    · rename_i b st1 h1
      split at h
      · simp at h
      · rename_i bs st2 h2
        simp at h
        obtain ⟨rfl, rfl⟩ := h
        simp only [List.length_cons, List.map_cons, List.cons_append, ← Nat.add_assoc]
        rw [decodeLoop.eq_3]
        simp only [h1]
        by_cases hb : b = 0
        · subst hb
          simp only [if_true]
          have ih := decodeLoop_upper bf height depth bias maxValue data hd ss st1 st2 bs fuel nxt
          simp only [specLayer, upperIns, if_true, filledIns]
          split
          · rw [ih _ h2, List.append_assoc]
          · rw [ih _ h2]; simp
        · simp only [hb, if_false, hd]
          have ih := decodeLoop_upper bf height depth bias maxValue data hd ss st1 st2 bs fuel
            (nxt ++ (setBits b).map (fun i => (s + i * bf ^ (height - depth), depth + 1))) acc h2
          rw [List.append_assoc, ih]
          simp [specLayer, upperIns, hb, hd, List.append_assoc]
          rfl

theorem decodeLoop_upper_none (bf height depth bias maxValue : Nat) (data : List Nat)
    (hd : depth ≠ height) :
    ∀ (starts : List Nat) (st : BitIn) (fuel : Nat) (nxt acc : List (Nat × Nat)),
      readNodes bf data starts.length st = none →
      decodeLoop bf height bias maxValue data (fuel + starts.length) st
          (starts.map (fun s => (s, depth)) ++ nxt) acc = .error
  | [], st, fuel, nxt, acc, h => by simp [readNodes] at h
  | s :: ss, st, fuel, nxt, acc, h => by
    simp only [List.length_cons, List.map_cons, List.cons_append, ← Nat.add_assoc]
    rw [decodeLoop.eq_3]
    simp only [List.length_cons, readNodes] at h
    split at h
    · rfl
    · rename_i b st1 h1
      simp only []
      split at h
      · rename_i h2
        by_cases hb : b = 0
        · subst hb
          simp only [if_true]
          split <;> exact decodeLoop_upper_none bf height depth bias maxValue data hd ss st1 fuel _ _ h2
        · simp only [hb, if_false, hd]
          rw [List.append_assoc]
          exact decodeLoop_upper_none bf height depth bias maxValue data hd ss st1 fuel _ _ h2
      · simp at h

/-- the leaf layer, including the early `break 'outer` followed by `skip_nodes` -/
theorem decodeLoop_leaf {bf : Nat} (hbf : BfOk bf) (height bias maxValue : Nat) (data : List Nat) :
    ∀ (starts : List Nat) (st st' : BitIn) (bitss : List Nat) (fuel : Nat)
      (acc : List (Nat × Nat)), StOk bf st → pos st ≤ 8 * data.length →
      readNodes bf data starts.length st = some (bitss, st') →
      decodeLoop bf height bias maxValue data (fuel + starts.length + 1) st
          (starts.map (fun s => (s, height))) acc
        = .ok (acc ++ (leafRun bf height bias maxValue starts bitss).1)
            (data.drop (bytesConsumed st'))
  | [], st, st', bitss, fuel, acc, hst, hle, h => by
    have hs := skipNodes_of_readNodes hbf hst hle h
    simp [readNodes] at h
    obtain ⟨rfl, rfl⟩ := h
    simp at hs
    simp [decodeLoop, finish, leafRun, hs]
  | s :: ss, st, st', bitss, fuel, acc, hst, hle, h => by
    simp only [List.length_cons, readNodes] at h
    split at h
    · simp at h
    · rename_i b st1 h1
      split at h
      · simp at h
      · rename_i bs st2 h2
        simp at h
        obtain ⟨rfl, rfl⟩ := h
        have a := nextNode_some hbf hst h1
        have hle1 : pos st1 ≤ 8 * data.length := by omega
        have ih := decodeLoop_leaf hbf height bias maxValue data ss st1 st2 bs fuel
        have e : fuel + (ss.length + 1) + 1 = (fuel + ss.length + 1) + 1 := by omega
        simp only [List.length_cons, List.map_cons, e]
        rw [decodeLoop.eq_3]
        simp only [h1]
        by_cases hb : b = 0
        · subst hb
          simp only [if_true, leafRun, filledIns]
          split
          · rw [ih _ a.1 hle1 h2, List.append_assoc]
          · rw [ih _ a.1 hle1 h2]; simp
        · simp only [hb, if_false, if_true, leafRun]
          split
          · rename_i hbrk
            have hs := skipNodes_of_readNodes hbf a.1 hle1 h2
            simp [finish, hs]
          · rename_i hbrk
            rw [ih _ a.1 hle1 h2]
            simp [List.append_assoc]

theorem decodeLoop_leaf_none {bf : Nat} (hbf : BfOk bf) (height bias maxValue : Nat)
    (data : List Nat) :
    ∀ (starts : List Nat) (st : BitIn) (fuel : Nat) (acc : List (Nat × Nat)),
      StOk bf st → pos st ≤ 8 * data.length →
      readNodes bf data starts.length st = none →
      decodeLoop bf height bias maxValue data (fuel + starts.length + 1) st
          (starts.map (fun s => (s, height))) acc = .error
  | [], st, fuel, acc, hst, hle, h => by simp [readNodes] at h
  | s :: ss, st, fuel, acc, hst, hle, h => by
    have e : fuel + (ss.length + 1) + 1 = (fuel + ss.length + 1) + 1 := by omega
    simp only [List.length_cons, List.map_cons, e]
    rw [decodeLoop.eq_3]
    simp only [List.length_cons, readNodes] at h
    split at h
    · rfl
    · rename_i b st1 h1
      simp only []
      have a := nextNode_some hbf hst h1
      have hle1 : pos st1 ≤ 8 * data.length := by omega
      split at h
      · rename_i h2
        have ih := decodeLoop_leaf_none hbf height bias maxValue data ss st1 fuel
        by_cases hb : b = 0
        · subst hb
          simp only [if_true]
          split <;> exact ih _ a.1 hle1 h2
        · simp only [hb, if_false, if_true]
          split
          · have hs := skipNodes_of_readNodes_none hbf a.1 hle1 h2
            simp [finish, hs]
          · exact ih _ a.1 hle1 h2
      · simp at h

end FontVerif.SparseBitSet
