/-
Helper lemmas for C08 (Model/Cmap.lean): format 4 — what a valid segmentation is, what
`create_format_4` writes for it, and what `Cmap4::map_codepoint` / `Cmap4Iter` read back.
-/
import FontVerif.Model.Cmap
import FontVerif.Lemmas.Cmap
set_option linter.unusedVariables false
namespace FontVerif.Cmap
open FontVerif

/-! ## valid segmentations -/

/-- one segment: a run of consecutive code points; a delta segment has constant `gid − cp` -/
structure SegOk (cp gid : Nat → Nat) (s : Seg) : Prop where
  le : s.startIx ≤ s.endIx
  run : ∀ k, s.startIx ≤ k → k ≤ s.endIx → cp k = cp s.startIx + (k - s.startIx)
  delta : ∀ d, s.idDelta = some d → ∀ k, s.startIx ≤ k → k ≤ s.endIx → (gid k : Int) - (cp k : Int) = d

/-- the segments tile the index range `[lo, n)` of the (BMP part of the) mapping -/
def SegsTile (cp gid : Nat → Nat) : Nat → Nat → List Seg → Prop
  | lo, n, [] => lo = n
  | lo, n, s :: rest => s.startIx = lo ∧ SegOk cp gid s ∧ SegsTile cp gid (s.endIx + 1) n rest

theorem SegsTile.le {cp gid : Nat → Nat} : ∀ {segs : List Seg} {lo n : Nat}, SegsTile cp gid lo n segs → lo ≤ n := by
  intro segs
  induction segs with
  | nil => intro lo n h; exact Nat.le_of_eq h
  | cons s rest ih =>
    intro lo n h
    obtain ⟨h1, h2, h3⟩ := h
    have := ih h3
    have := h2.le
    omega

theorem SegsTile.append {cp gid : Nat → Nat} : ∀ {xs ys : List Seg} {lo mid n : Nat},
    SegsTile cp gid lo mid xs → SegsTile cp gid mid n ys → SegsTile cp gid lo n (xs ++ ys) := by
  intro xs
  induction xs with
  | nil => intro ys lo mid n h1 h2; cases h1; exact h2
  | cons s rest ih =>
    intro ys lo mid n h1 h2
    obtain ⟨a, b, c⟩ := h1
    exact ⟨a, b, ih c h2⟩

/-- pointwise view of a tiling -/
theorem SegsTile.pointwise {cp gid : Nat → Nat} : ∀ {segs : List Seg} {lo n : Nat}, SegsTile cp gid lo n segs →
    (∀ j (h : j < segs.length), lo ≤ segs[j].startIx ∧ SegOk cp gid segs[j] ∧ segs[j].endIx < n) ∧
    (∀ i j (hi : i < j) (hj : j < segs.length), segs[i].endIx < segs[j].startIx) ∧
    (∀ k, lo ≤ k → k < n → ∃ j, ∃ h : j < segs.length, segs[j].startIx ≤ k ∧ k ≤ segs[j].endIx) := by
  intro segs
  induction segs with
  | nil =>
    intro lo n h
    cases h
    exact ⟨fun j h => by simp at h, fun i j _ h => by simp at h, fun k h1 h2 => by omega⟩
  | cons s rest ih =>
    intro lo n h
    obtain ⟨h1, h2, h3⟩ := h
    obtain ⟨ih1, ih2, ih3⟩ := ih h3
    have hle := h3.le
    refine ⟨?_, ?_, ?_⟩
    · intro j hj
      cases j with
      | zero => exact ⟨by simp [h1], by simpa using h2, by simp; omega⟩
      | succ j' =>
        have hh := ih1 j' (by simpa using hj)
        have := h2.le
        simp only [List.getElem_cons_succ]
        exact ⟨by omega, hh.2.1, hh.2.2⟩
    · intro i j hij hj
      cases j with
      | zero => omega
      | succ j' =>
        cases i with
        | zero =>
          have := ih1 j' (by simpa using hj)
          simp only [List.getElem_cons_succ, List.getElem_cons_zero]
          omega
        | succ i' =>
          simpa using ih2 i' j' (by omega) (by simpa using hj)
    · intro k hk1 hk2
      by_cases hk : k ≤ s.endIx
      · exact ⟨0, by simp, by simp [h1]; exact hk1, by simpa using hk⟩
      · obtain ⟨j, hj, hj1, hj2⟩ := ih3 k (by omega) hk2
        exact ⟨j + 1, by simpa using hj, by simpa using hj1, by simpa using hj2⟩

/-! ## the reader's final phase, `Cmap4::lookup_glyph_id` -/

theorem lookupGlyphId_delta (t : Cmap4) (c ix sc : Nat) (δ : Int)
    (h1 : t.idDelta[ix]? = some δ) (h2 : t.idRangeOffsets[ix]? = some 0) :
    lookupGlyphId t c ix sc = some (wrapU16 ((c : Int) + δ)).toNat := by
  simp [lookupGlyphId, h1, h2]

theorem lookupGlyphId_offset (t : Cmap4) (c ix sc p gv : Nat) (δ : Int)
    (h1 : t.idDelta[ix]? = some δ)
    (h2 : t.idRangeOffsets[ix]? = some ((t.idRangeOffsets.size - ix + p) * 2))
    (hix : ix < t.idRangeOffsets.size)
    (h3 : t.glyphIdArray[p + (c - sc)]? = some gv) (h4 : gv ≠ 0) :
    lookupGlyphId t c ix sc = some (wrapU16 ((gv : Int) + δ)).toNat := by
  have hne : (t.idRangeOffsets.size - ix + p) * 2 ≠ 0 := by omega
  have hoff : t.idRangeOffsets.size - ix + p + (c - sc) - (t.idRangeOffsets.size - ix) = p + (c - sc) := by
    omega
  simp [lookupGlyphId, h1, h2, hne, hoff, h3, h4]

/-! ## the writer: what `create_format_4` emits for a list of segments -/

/-- what must have been written for segment `s`, emitted as row `j` of `nSeg` (sentinel included),
`g` being the whole `glyph_ids` array -/
def RowSpec (cp gid : Nat → Nat) (nSeg j : Nat) (s : Seg) (row : Row) (g : List Nat) : Prop :=
  row.start = cp s.startIx % 65536 ∧ row.end_ = cp s.endIx % 65536 ∧
  match s.idDelta with
  | some d => row.delta = wrapI16 d ∧ row.off = 0
  | none => row.delta = 0 ∧ ∃ p, row.off = (nSeg - j + p) * 2 ∧ (nSeg - j + p) * 2 ≤ 65535 ∧
      ∀ t, t < s.endIx + 1 - s.startIx → g[p + t]? = some (gid (s.startIx + t))

theorem encRows_spec (a : Array (Nat × Nat)) (nSeg : Nat) :
    ∀ (segs : List Seg) (i nIds : Nat) (rows : List Row) (g : List Nat),
    encRows a nSeg i nIds segs = some (rows, g) →
    rows.length = segs.length ∧
    ∀ (pg : List Nat), pg.length = nIds → ∀ j (h : j < segs.length), ∃ row, rows[j]? = some row ∧
      RowSpec (cpAt a) (gidAt a) nSeg (i + j) segs[j] row (pg ++ g) := by
  intro segs
  induction segs with
  | nil =>
    intro i nIds rows g h
    simp only [encRows, Option.some.injEq, Prod.mk.injEq] at h
    obtain ⟨rfl, rfl⟩ := h
    exact ⟨rfl, fun pg _ j hj => by simp at hj⟩
  | cons s rest ih =>
    intro i nIds rows g h
    unfold encRows at h
    cases hd : s.idDelta with
    | some d =>
      simp only [hd] at h
      cases hr : encRows a nSeg (i + 1) nIds rest with
      | none => simp [hr] at h
      | some rg =>
        obtain ⟨rows', g'⟩ := rg
        simp only [hr, Option.some.injEq, Prod.mk.injEq] at h
        obtain ⟨rfl, rfl⟩ := h
        obtain ⟨ihl, ihs⟩ := ih (i + 1) nIds rows' g' hr
        refine ⟨by simp [ihl], fun pg hpg j hj => ?_⟩
        cases j with
        | zero =>
          refine ⟨_, List.getElem?_cons_zero, ?_⟩
          simp [RowSpec, hd, Row.start, Row.end_, Row.delta, Row.off]
        | succ j' =>
          obtain ⟨row, hrow, hspec⟩ := ihs pg hpg j' (by simpa using hj)
          refine ⟨row, by simpa using hrow, ?_⟩
          have : i + (j' + 1) = i + 1 + j' := by omega
          simpa [this] using hspec
    | none =>
      simp only [hd] at h
      by_cases hoff : (nSeg - i + nIds) * 2 > 65535
      · simp [hoff] at h
      · simp only [hoff, if_false] at h
        generalize hchunk : (List.range (s.endIx + 1 - s.startIx)).map (fun k => gidAt a (s.startIx + k)) = chunk at h
        cases hr : encRows a nSeg (i + 1) (nIds + chunk.length) rest with
        | none => simp [hr] at h
        | some rg =>
          obtain ⟨rows', g'⟩ := rg
          simp only [hr, Option.some.injEq, Prod.mk.injEq] at h
          obtain ⟨rfl, rfl⟩ := h
          obtain ⟨ihl, ihs⟩ := ih (i + 1) (nIds + chunk.length) rows' g' hr
          refine ⟨by simp [ihl], fun pg hpg j hj => ?_⟩
          cases j with
          | zero =>
            refine ⟨_, List.getElem?_cons_zero, ?_⟩
            simp only [RowSpec, hd, Row.start, Row.end_, Row.delta, Row.off, List.getElem_cons_zero,
              Nat.add_zero, true_and]
            refine ⟨nIds, rfl, by omega, fun t ht => ?_⟩
            have hlen : chunk.length = s.endIx + 1 - s.startIx := by simp [← hchunk]
            rw [List.getElem?_append_right (by omega)]
            rw [List.getElem?_append_left (by omega)]
            have : nIds + t - pg.length = t := by omega
            rw [this, ← hchunk]
            rw [List.getElem?_map, List.getElem?_range ht]
            rfl
          | succ j' =>
            obtain ⟨row, hrow, hspec⟩ := ihs (pg ++ chunk) (by simp [hpg]) j' (by simpa using hj)
            refine ⟨row, by simpa using hrow, ?_⟩
            have : i + (j' + 1) = i + 1 + j' := by omega
            simpa [this, List.append_assoc] using hspec

/-! ## the compiled table: accessors -/

theorem ofRows_size (rows : List Row) (g : List Nat) :
    (Cmap4.ofRows rows g).endCode.size = rows.length + 1 ∧
    (Cmap4.ofRows rows g).startCode.size = rows.length + 1 ∧
    (Cmap4.ofRows rows g).idRangeOffsets.size = rows.length + 1 := by
  simp [Cmap4.ofRows]

theorem ofRows_row (rows : List Row) (g : List Nat) (j : Nat) (row : Row) (h : rows[j]? = some row) :
    (Cmap4.ofRows rows g).startCode[j]? = some row.start ∧
    (Cmap4.ofRows rows g).endCode[j]? = some row.end_ ∧
    (Cmap4.ofRows rows g).idDelta[j]? = some row.delta ∧
    (Cmap4.ofRows rows g).idRangeOffsets[j]? = some row.off := by
  have hj : j < rows.length := by
    rcases Nat.lt_or_ge j rows.length with h' | h'
    · exact h'
    · rw [List.getElem?_eq_none h'] at h; cases h
  have hrow : rows[j] = row := by
    rw [List.getElem?_eq_getElem hj] at h; exact Option.some.inj h
  simp [Cmap4.ofRows, List.getElem?_append_left, hj, hrow]

theorem ofRows_last (rows : List Row) (g : List Nat) :
    (Cmap4.ofRows rows g).startCode[rows.length]? = some 0xFFFF ∧
    (Cmap4.ofRows rows g).endCode[rows.length]? = some 0xFFFF ∧
    (Cmap4.ofRows rows g).idDelta[rows.length]? = some 1 ∧
    (Cmap4.ofRows rows g).idRangeOffsets[rows.length]? = some 0 := by
  simp [Cmap4.ofRows]

/-! ## format 4 round trip for any valid segmentation -/

/-- the (BMP part of the) mapping, by index: strictly ascending code points below U+FFFF,
non-zero 16-bit glyph ids -/
structure MapOk (cp gid : Nat → Nat) (n : Nat) : Prop where
  mono : ∀ i j, i < j → j < n → cp i < cp j
  cpLt : ∀ k, k < n → cp k < 0xFFFF
  gidOk : ∀ k, k < n → 1 ≤ gid k ∧ gid k ≤ 0xFFFF

/-- the compiled rows match the segmentation row by row -/
def RowsMatch (cp gid : Nat → Nat) (segs : List Seg) (rows : List Row) (g : List Nat) : Prop :=
  rows.length = segs.length ∧ ∀ j (h : j < segs.length), ∃ row, rows[j]? = some row ∧
    RowSpec cp gid (segs.length + 1) j segs[j] row g

/-- start / end code of row `i` of the compiled table (the sentinel row included) -/
def sRow (cp : Nat → Nat) (segs : List Seg) (i : Nat) : Nat :=
  if h : i < segs.length then cp segs[i].startIx else 0xFFFF
def eRow (cp : Nat → Nat) (segs : List Seg) (i : Nat) : Nat :=
  if h : i < segs.length then cp segs[i].endIx else 0xFFFF

theorem rows_sorted {cp gid : Nat → Nat} {n : Nat} {segs : List Seg} (hm : MapOk cp gid n)
    (ht : SegsTile cp gid 0 n segs) : RangesSorted (sRow cp segs) (eRow cp segs) (segs.length + 1) := by
  obtain ⟨p1, p2, p3⟩ := ht.pointwise
  constructor
  · intro i hi
    unfold sRow eRow
    by_cases h : i < segs.length
    · simp only [h, dite_true]
      obtain ⟨_, hok, _⟩ := p1 i h
      have := hok.run segs[i].endIx hok.le (Nat.le_refl _)
      omega
    · simp [h]
  · intro i j hij hj
    unfold sRow eRow
    have hi : i < segs.length := by omega
    obtain ⟨_, hoki, hni⟩ := p1 i hi
    simp only [hi, dite_true]
    by_cases h : j < segs.length
    · simp only [h, dite_true]
      obtain ⟨_, hokj, hnj⟩ := p1 j h
      have := p2 i j hij h
      exact hm.mono _ _ this (by have := hokj.le; omega)
    · simp only [h, dite_false]
      exact hm.cpLt _ hni

theorem rows_codes {cp gid : Nat → Nat} {n : Nat} {segs : List Seg} {rows : List Row} {g : List Nat}
    (hm : MapOk cp gid n) (ht : SegsTile cp gid 0 n segs) (hr : RowsMatch cp gid segs rows g) :
    (∀ i, i < segs.length + 1 → (Cmap4.ofRows rows g).startCode[i]? = some (sRow cp segs i)) ∧
    (∀ i, i < segs.length + 1 → (Cmap4.ofRows rows g).endCode[i]? = some (eRow cp segs i)) := by
  obtain ⟨p1, p2, p3⟩ := ht.pointwise
  obtain ⟨hlen, hrows⟩ := hr
  constructor
  · intro i hi
    unfold sRow
    by_cases h : i < segs.length
    · simp only [h, dite_true]
      obtain ⟨row, hrow, hs, _⟩ := hrows i h
      obtain ⟨_, hok, hn⟩ := p1 i h
      have := hm.cpLt segs[i].startIx (by have := hok.le; omega)
      rw [(ofRows_row rows g i row hrow).1, hs]
      congr 1
      omega
    · have : i = rows.length := by omega
      subst this
      simp only [h, dite_false]
      exact (ofRows_last rows g).1
  · intro i hi
    unfold eRow
    by_cases h : i < segs.length
    · simp only [h, dite_true]
      obtain ⟨row, hrow, _, he, _⟩ := hrows i h
      obtain ⟨_, hok, hn⟩ := p1 i h
      have := hm.cpLt segs[i].endIx hn
      rw [(ofRows_row rows g i row hrow).2.1, he]
      congr 1
      omega
    · have : i = rows.length := by omega
      subst this
      simp only [h, dite_false]
      exact (ofRows_last rows g).2.1

/-- the table answers a mapped character (index `k` of the mapping) with its glyph -/
theorem map4_mapped {cp gid : Nat → Nat} {n : Nat} {segs : List Seg} {rows : List Row} {g : List Nat}
    (hm : MapOk cp gid n) (ht : SegsTile cp gid 0 n segs) (hr : RowsMatch cp gid segs rows g)
    (k : Nat) (hk : k < n) : map4 (Cmap4.ofRows rows g) (cp k) = some (gid k) := by
  obtain ⟨p1, p2, p3⟩ := ht.pointwise
  obtain ⟨hsc, hec⟩ := rows_codes hm ht hr
  have hsorted := rows_sorted hm ht
  obtain ⟨hlen, hrows⟩ := hr
  obtain ⟨j, hj, hj1, hj2⟩ := p3 k (Nat.zero_le _) hk
  obtain ⟨_, hok, hn⟩ := p1 j hj
  have hcpk := hok.run k hj1 hj2
  have hcpe := hok.run segs[j].endIx hok.le (Nat.le_refl _)
  have hs1 : sRow cp segs j ≤ cp k := by simp only [sRow, hj, dite_true]; omega
  have hs2 : cp k ≤ eRow cp segs j := by simp only [eRow, hj, dite_true]; omega
  have hfound := segSearch_found (fun i => (Cmap4.ofRows rows g).startCode[i]?)
    (fun i => (Cmap4.ofRows rows g).endCode[i]?) _ _ (segs.length + 1) (cp k) j hsc hec hsorted
    (by omega) hs1 hs2
  have hck := hm.cpLt k hk
  have hgk := hm.gidOk k hk
  unfold map4 map4With
  have hnot : ¬ (cp k > 0xFFFF) := by omega
  simp only [hnot, if_false, (ofRows_size rows g).1, hlen, hfound, hsc j (by omega)]
  simp only [sRow, hj, dite_true]
  obtain ⟨row, hrow, _, _, hspec⟩ := hrows j hj
  obtain ⟨_, _, hδ, hoffs⟩ := ofRows_row rows g j row hrow
  cases hd : segs[j].idDelta with
  | some d =>
    simp only [hd] at hspec
    rw [lookupGlyphId_delta _ _ _ _ _ (hspec.1 ▸ hδ) (hspec.2 ▸ hoffs)]
    have hdk := hok.delta d hd k hj1 hj2
    congr 1
    subst hdk
    unfold wrapU16 wrapI16
    simp only []
    split <;> omega
  | none =>
    simp only [hd] at hspec
    obtain ⟨h0, p, hp, _, hg⟩ := hspec
    have hsz := (ofRows_size rows g).2.2
    have hgv := hg (k - segs[j].startIx) (by omega)
    have hidx : p + (cp k - cp segs[j].startIx) = p + (k - segs[j].startIx) := by omega
    have hkk : segs[j].startIx + (k - segs[j].startIx) = k := by omega
    rw [lookupGlyphId_offset _ _ _ _ p (gid k) _ (h0 ▸ hδ)
      (by rw [hoffs, hp, hsz, hlen]) (by omega)
      (by simp only [Cmap4.ofRows, List.getElem?_toArray]; rw [hidx, hgv, hkk]) (by omega)]
    congr 1
    unfold wrapU16
    omega

/-- U+FFFF is answered by the final segment: glyph 0 -/
theorem map4_sentinel {cp gid : Nat → Nat} {n : Nat} {segs : List Seg} {rows : List Row} {g : List Nat}
    (hm : MapOk cp gid n) (ht : SegsTile cp gid 0 n segs) (hr : RowsMatch cp gid segs rows g) :
    map4 (Cmap4.ofRows rows g) 0xFFFF = some 0 := by
  obtain ⟨hsc, hec⟩ := rows_codes hm ht hr
  have hsorted := rows_sorted hm ht
  obtain ⟨hlen, hrows⟩ := hr
  have hfound := segSearch_found (fun i => (Cmap4.ofRows rows g).startCode[i]?)
    (fun i => (Cmap4.ofRows rows g).endCode[i]?) _ _ (segs.length + 1) 0xFFFF segs.length hsc hec hsorted
    (by omega) (by simp [sRow]) (by simp [eRow])
  unfold map4 map4With
  simp only [Nat.lt_irrefl, gt_iff_lt, if_false, (ofRows_size rows g).1, hlen, hfound, hsc segs.length (by omega)]
  obtain ⟨_, _, hδ, hoffs⟩ := ofRows_last rows g
  rw [hlen] at hδ hoffs
  rw [lookupGlyphId_delta _ _ _ _ _ hδ hoffs]
  decide

/-- every other character gets no glyph -/
theorem map4_unmapped {cp gid : Nat → Nat} {n : Nat} {segs : List Seg} {rows : List Row} {g : List Nat}
    (hm : MapOk cp gid n) (ht : SegsTile cp gid 0 n segs) (hr : RowsMatch cp gid segs rows g)
    (c : Nat) (hc : c ≠ 0xFFFF) (hno : ∀ k, k < n → cp k ≠ c) :
    map4 (Cmap4.ofRows rows g) c = none := by
  obtain ⟨p1, p2, p3⟩ := ht.pointwise
  obtain ⟨hsc, hec⟩ := rows_codes hm ht hr
  have hsorted := rows_sorted hm ht
  obtain ⟨hlen, hrows⟩ := hr
  unfold map4 map4With
  by_cases hbig : c > 0xFFFF
  · simp [hbig]
  · simp only [hbig, if_false, (ofRows_size rows g).1, hlen]
    have hnone := segSearch_none (fun i => (Cmap4.ofRows rows g).startCode[i]?)
      (fun i => (Cmap4.ofRows rows g).endCode[i]?) _ _ (segs.length + 1) c hsc hec hsorted (by
        intro i hi ⟨h1, h2⟩
        by_cases h : i < segs.length
        · simp only [sRow, eRow, h, dite_true] at h1 h2
          obtain ⟨_, hok, hn⟩ := p1 i h
          have hle := hok.le
          have hcpe := hok.run segs[i].endIx hok.le (Nat.le_refl _)
          have hrun := hok.run (segs[i].startIx + (c - cp segs[i].startIx)) (by omega) (by omega)
          exact hno (segs[i].startIx + (c - cp segs[i].startIx)) (by omega) (by omega)
        · simp only [sRow, eRow, h, dite_false] at h1 h2
          omega)
    simp [hnone]

end FontVerif.Cmap
