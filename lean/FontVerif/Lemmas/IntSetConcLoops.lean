/- C14 / concrete BitSet::process: the loops of Steps 3 and 4 keep `S3Inv`; what the invariant
says when they are done. -/
import FontVerif.Lemmas.IntSetConcStep3
set_option linter.unusedVariables false
set_option linter.unusedSimpArgs false
namespace FontVerif.IntSet

section loops
variable {cop : CPage → CPage → CPage} {ptl ptr : Bool} {o : CBitSet} {L : PMap}
  {pg0 : List CPage} {N : Nat}

theorem take_all_lt_of_last {l : PMap} (hs : (l.map (·.1)).Pairwise (· < ·)) (i : Nat) (h : 0 < i)
    (h2 : i ≤ l.length) (k : Nat) (hk : (l.getD (i - 1) (0, 0)).1 < k) : ∀ y ∈ l.take i, y.1 < k := by
  intro y hy
  rw [snoc_take l i (0, 0) h h2, List.mem_append, List.mem_singleton] at hy
  rcases hy with hy | rfl
  · have := (sorted_split l hs i h h2).1 y hy; omega
  · exact hk

/-- Step 3 -/
theorem step3_inv (hf : S3Fix o L) : ∀ (n : Nat) (st : Step3), st.idxA + st.idxB ≤ n →
    S3Inv cop ptl ptr o L pg0 N st →
    S3Inv cop ptl ptr o L pg0 N (processStep3 cop ptl ptr o st) ∧
      ((processStep3 cop ptl ptr o st).idxA = 0 ∨ (processStep3 cop ptl ptr o st).idxB = 0) := by
  intro n
  induction n with
  | zero =>
    intro st hn h
    rw [processStep3]
    have : ¬ (st.idxA > 0 ∧ st.idxB > 0) := by omega
    simp only [this, if_false]
    exact ⟨h, by omega⟩
  | succ n ih =>
    intro st hn h
    rw [processStep3]
    by_cases hc : st.idxA > 0 ∧ st.idxB > 0
    · simp only [hc, and_self, if_true]
      rw [h.left_entry hc.1]
      by_cases heq : (L.getD (st.idxA - 1) (0, 0)).1 = (o.pageMap.getD (st.idxB - 1) (0, 0)).1
      · simp only [heq, if_true]
        exact ih _ (by simp only [emitBoth]; omega) (h.emitBoth hf hc.1 hc.2 heq)
      · simp only [heq, if_false]
        by_cases hgt : (L.getD (st.idxA - 1) (0, 0)).1 > (o.pageMap.getD (st.idxB - 1) (0, 0)).1
        · simp only [hgt, if_true]
          have hlt := take_all_lt_of_last hf.sB st.idxB hc.2 h.ib _ hgt
          have hp := h.left_only_ptl hc.1 hlt
          rw [if_pos hp]
          exact ih _ (by simp only [emitLeft]; omega) (h.emitLeft hf hc.1 hlt)
        · simp only [hgt, if_false]
          have hlt := take_all_lt_of_last hf.sL st.idxA hc.1 h.ia
            (o.pageMap.getD (st.idxB - 1) (0, 0)).1 (by omega)
          by_cases hp : ptr = true
          · rw [if_pos hp]
            exact ih _ (by simp only [emitRight]; omega) (h.emitRight hf hc.2 hp hlt)
          · rw [if_neg hp]
            exact ih _ (by simp only [skipRight]; omega) (h.skipRight hf hc.2 (by simpa using hp) hlt)
    · simp only [hc, if_false]
      exact ⟨h, by omega⟩

/-- Step 4, left -/
theorem step4Left_inv (hf : S3Fix o L) : ∀ (n : Nat) (st : Step3), st.idxA ≤ n →
    S3Inv cop ptl ptr o L pg0 N st → (st.idxA = 0 ∨ st.idxB = 0) →
    S3Inv cop ptl ptr o L pg0 N (processStep4Left st) ∧ (processStep4Left st).idxA = 0 := by
  intro n
  induction n with
  | zero =>
    intro st hn h h0
    rw [processStep4Left]
    have : ¬ st.idxA > 0 := by omega
    simp only [this, if_false]
    exact ⟨h, by omega⟩
  | succ n ih =>
    intro st hn h h0
    rw [processStep4Left]
    by_cases hc : st.idxA > 0
    · simp only [hc, if_true]
      have hb0 : st.idxB = 0 := by omega
      have hlt : ∀ y ∈ o.pageMap.take st.idxB, y.1 < (L.getD (st.idxA - 1) (0, 0)).1 := by
        rw [hb0]; simp
      exact ih _ (by simp only [emitLeft]; omega) (h.emitLeft hf hc hlt)
        (by simp only [emitLeft]; omega)
    · simp only [hc, if_false]
      exact ⟨h, by omega⟩

/-- Step 4, right -/
theorem step4Right_inv (hf : S3Fix o L) (hptr : ptr = true) : ∀ (n : Nat) (st : Step3), st.idxB ≤ n →
    S3Inv cop ptl ptr o L pg0 N st → st.idxA = 0 →
    S3Inv cop ptl ptr o L pg0 N (processStep4Right o st) ∧ (processStep4Right o st).idxA = 0 ∧
      (processStep4Right o st).idxB = 0 := by
  intro n
  induction n with
  | zero =>
    intro st hn h h0
    rw [processStep4Right]
    have : ¬ st.idxB > 0 := by omega
    simp only [this, if_false]
    exact ⟨h, h0, by omega⟩
  | succ n ih =>
    intro st hn h h0
    rw [processStep4Right]
    by_cases hc : st.idxB > 0
    · simp only [hc, if_true]
      have hlt : ∀ x ∈ L.take st.idxA, x.1 < (o.pageMap.getD (st.idxB - 1) (0, 0)).1 := by
        rw [h0]; simp
      exact ih _ (by simp only [emitRight]; omega) (h.emitRight hf hc hptr hlt)
        (by simp only [emitRight]; omega)
    · simp only [hc, if_false]
      exact ⟨h, h0, by omega⟩

/-- with the left side not passed through, Step 3 always consumes the whole left map -/
theorem S3Inv.idxA_zero_of_nptl {st : Step3} (h : S3Inv cop ptl ptr o L pg0 N st) (hp : ptl = false)
    (h0 : st.idxA = 0 ∨ st.idxB = 0) : st.idxA = 0 := by
  rcases h0 with h0 | h0
  · exact h0
  · by_cases hA : st.idxA = 0
    · exact hA
    · exfalso
      obtain ⟨y, hy, _⟩ := h.mt hp _ (mem_getD_take L st.idxA (0, 0) (by omega) h.ia)
      rw [h0] at hy; simp at hy

/-- what the invariant says at the end -/
theorem S3Inv.final (hf : S3Fix o L) {st : Step3} (h : S3Inv cop ptl ptr o L pg0 N st) (hA : st.idxA = 0)
    (hB : ptr = true → st.idxB = 0) :
    st.count = 0 ∧ st.pm.length = N ∧ st.pages.length = N ∧
    cview st.pm st.pages = cmerge cop ptl ptr (cview L pg0) (cview o.pageMap o.pages) ∧
    (st.pm.map (·.2)).Nodup ∧ ∀ e ∈ st.pm, e.2 < N := by
  have hcnt : st.count = 0 := by
    rw [h.cnt, hA, List.take_zero]
    simp only [cview, List.map_nil]
    rw [cmerge_nil_left]
    cases hp : ptr with
    | true => simp [hB hp]
    | false => simp
  have hout := h.out
  have hond := h.ond
  have hoidx := h.oidx
  have hnp := h.np
  rw [hcnt, List.drop_zero] at hout hond hoidx
  rw [hA, List.drop_zero] at hout hoidx
  refine ⟨hcnt, h.pmLen, h.pgLen, ?_, hond, ?_⟩
  · rw [hout]
    have hx := h.crossA
    rw [hA, List.drop_zero] at hx
    have := cmerge_right_prefix cop ptl ptr (cview L pg0) (cview (o.pageMap.take st.idxB) o.pages)
      (cview (o.pageMap.drop st.idxB) o.pages) (klt_cview hx _ _)
    rw [← cview_append, List.take_append_drop] at this
    rw [this]
    cases hp : ptr with
    | true => simp [hB hp, cview]
    | false => simp
  · intro e he
    rcases hoidx e he with h1 | h1
    · simp only [List.mem_map] at h1
      obtain ⟨x, hx, hxe⟩ := h1
      have := h.npge
      have := hf.ltL x hx
      omega
    · omega

end loops

end FontVerif.IntSet
