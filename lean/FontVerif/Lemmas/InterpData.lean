/-
C02 core 1d — lemmas about Model/InterpData.lean: the invariant of the data state, what `F.apply` / `Cow.write` /
`deltaCLoop` / the stack plumbing keep, and which errors the loop skeletons of Model/InterpLoops.lean can raise
(never the panic marker).
-/
import FontVerif.Model.InterpData
import FontVerif.Lemmas.InterpLoops
import FontVerif.Lemmas.InterpRun
namespace FontVerif.InterpDataLemmas
open FontVerif FontVerif.Interp FontVerif.InterpLoops FontVerif.InterpData FontVerif.InterpLoopsLemmas
set_option linter.unusedVariables false

/-! ### the invariant -/

/-- invariant of the data state: the loop state is well formed, both copy-on-write slices were created with equal
    lengths (`CowSlice::new` succeeded) or are already mutable, `delta_shift ≤ 6` (`Default` = 3, `op_sds` checks), and
    a glyph zone that has a contour has a point (the loader always appends four phantom points) -/
def FInv (f : F) : Prop :=
  Wf f.g ∧ f.storage.Ok ∧ f.cvt.Ok ∧ f.deltaShift ≤ 6 ∧ (f.g.glyphContours ≠ [] → 1 ≤ f.g.glyphPts)

/-- what no data opcode changes besides the zone sizes (`Step`): the lengths of the storage area and of the cvt, the
    program being run, the axis count -/
def Keep (f f' : F) : Prop :=
  f'.storage.len = f.storage.len ∧ f'.cvt.len = f.cvt.len ∧ f'.prog = f.prog ∧ f'.axes = f.axes

theorem Keep.refl (f : F) : Keep f f := ⟨rfl, rfl, rfl, rfl⟩

/-! ### CowSlice -/

theorem cow_write_len (c : Cow) (i : Nat) (v : Int) : (c.write i v).len = c.len := by
  unfold Cow.write Cow.len
  cases hu : c.useMut <;> simp <;> split <;> simp

theorem cow_write_ok (c : Cow) (i : Nat) (v : Int) : (c.write i v).Ok := by
  unfold Cow.write Cow.Ok; simp

theorem cow_okb_iff (c : Cow) : c.okb = true ↔ c.Ok := by
  unfold Cow.okb Cow.Ok; simp

/-- whenever `CowSlice::set` returns, the slice afterwards is `Cow.write` -/
theorem cow_set_eq {c c1 : Cow} {i : Nat} {v : Int} {b : Bool} (h : c.set i v = .ok (c1, b)) : c1 = c.write i v := by
  unfold Cow.set at h
  unfold Cow.write
  split at h
  · cases h
  · simp only [] at h ⊢
    cases hu : c.useMut
    · simp only [hu, Bool.false_eq_true, if_false] at h ⊢
      by_cases hi : i < c.data.length
      · rw [if_pos hi] at h ⊢; exact (Prod.mk.inj (Except.ok.inj h)).1.symm
      · rw [if_neg hi] at h ⊢; exact (Prod.mk.inj (Except.ok.inj h)).1.symm
    · simp only [hu, if_true] at h ⊢
      by_cases hi : i < c.dataMut.length
      · rw [if_pos hi] at h ⊢; exact (Prod.mk.inj (Except.ok.inj h)).1.symm
      · rw [if_neg hi] at h ⊢; exact (Prod.mk.inj (Except.ok.inj h)).1.symm

/-- with equal lengths `CowSlice::set` does not panic -/
theorem cow_set_np (c : Cow) (i : Nat) (v : Int) (h : c.Ok) : ∃ c' b, c.set i v = .ok (c', b) := by
  unfold Cow.set
  have : (!c.useMut && c.data.length != c.dataMut.length) = false := by
    unfold Cow.Ok at h
    rcases h with h | h
    · simp [h]
    · simp [h]
  rw [this]
  simp only [Bool.false_eq_true, if_false]
  by_cases hi : i < (if c.useMut then c.dataMut else c.data).length
  · exact ⟨_, _, if_pos hi⟩
  · exact ⟨_, _, if_neg hi⟩

theorem cow_set_ne_err (c : Cow) (i : Nat) (v : Int) (h : c.Ok) (e : Err) : c.set i v ≠ .error e := by
  obtain ⟨c', b, hs⟩ := cow_set_np c i v h
  rw [hs]; intro h2; cases h2

/-- with equal lengths `CowSlice::set` does not panic, keeps the length and stays `Ok` -/
theorem cow_set_ok (c : Cow) (i : Nat) (v : Int) (h : c.Ok) :
    ∃ c' b, c.set i v = .ok (c', b) ∧ c'.len = c.len ∧ c'.Ok := by
  obtain ⟨c', b, hs⟩ := cow_set_np c i v h
  have := cow_set_eq hs
  subst this
  exact ⟨_, _, hs, cow_write_len _ _ _, cow_write_ok _ _ _⟩

/-! ### `F.apply` -/

theorem apply_g (f : F) (u : Upd) :
    (f.apply u).g.glyphPts = f.g.glyphPts ∧ (f.apply u).g.twiPts = f.g.twiPts ∧
    (f.apply u).g.glyphContours = f.g.glyphContours ∧ (f.apply u).g.cap = f.g.cap ∧
    (f.apply u).g.iters = f.g.iters ∧ (f.apply u).g.loop = f.g.loop := by
  unfold F.apply
  simp only []
  refine ⟨?_, ?_, ?_, ?_, ?_, ?_⟩ <;> (repeat' split) <;> rfl

theorem apply_keep (f : F) (u : Upd) : Keep f (f.apply u) := by
  unfold F.apply Keep
  simp only []
  refine ⟨?_, ?_, ?_, ?_⟩
  · split
    · exact cow_write_len _ _ _
    · rfl
  · split
    · exact cow_write_len _ _ _
    · rfl
  · first | rfl | trivial
  · first | rfl | trivial

theorem apply_inv (f : F) (u : Upd) (h : FInv f) : FInv (f.apply u) := by
  obtain ⟨⟨h1, h1b⟩, h2, h3, h4, h5⟩ := h
  have hg := apply_g f u
  refine ⟨⟨by rw [hg.2.2.2.2.2]; exact h1, by rw [hg.2.2.1]; exact h1b⟩, ?_, ?_, ?_, ?_⟩
  · unfold F.apply; simp only []; split
    · exact cow_write_ok _ _ _
    · exact h2
  · unfold F.apply; simp only []; split
    · exact cow_write_ok _ _ _
    · exact h3
  · unfold F.apply; simp only []; split
    · split <;> omega
    · exact h4
  · rw [hg.2.2.1, hg.1]; exact h5

/-! ### stack plumbing -/

theorem popN_len (ped : Bool) : ∀ (n : Nat) (vs args vs1 : List Int), popN ped n vs = .ok (args, vs1) →
    vs1.length ≤ vs.length := by
  intro n
  induction n with
  | zero => intro vs args vs1 h; simp [popN] at h; rw [h.2]; exact Nat.le_refl _
  | succ n ih =>
    intro vs args vs1 h
    unfold popN at h
    split at h
    · cases h
    · rename_i v vs2 hp
      split at h
      · cases h
      · rename_i as vs3 hr
        have h0 := Prod.mk.inj (Except.ok.inj h)
        rw [← h0.2]
        exact Nat.le_trans (ih _ _ _ hr) (pop_length_le' hp)

theorem pop_err {ped : Bool} {vs : List Int} {e : Err} (h : pop ped vs = .error e) : e = .vsUnderflow := by
  unfold pop at h
  split at h
  · cases h
  · split at h
    · exact (Except.error.inj h).symm
    · cases h

theorem popN_err (ped : Bool) : ∀ (n : Nat) (vs : List Int) (e : Err), popN ped n vs = .error e → e = .vsUnderflow := by
  intro n
  induction n with
  | zero => intro vs e h; simp [popN] at h
  | succ n ih =>
    intro vs e h
    unfold popN at h
    split at h
    · rename_i e1 hp; rw [← Except.error.inj h]; exact pop_err hp
    · split at h
      · rename_i e1 hr; rw [← Except.error.inj h]; exact ih _ _ hr
      · cases h

theorem pushAll_len {cap : Nat} {vs outs vs' : List Int} (h : pushAll cap vs outs = .ok vs') :
    vs'.length ≤ cap ∧ vs.length + outs.length ≤ cap := by
  unfold pushAll at h
  split at h
  · have := Except.ok.inj h; subst this; simp; omega
  · cases h

theorem pushAll_err {cap : Nat} {vs outs : List Int} {e : Err} (h : pushAll cap vs outs = .error e) : e = .vsOverflow := by
  unfold pushAll at h
  split at h
  · cases h
  · exact (Except.error.inj h).symm

/-! ### DELTAC -/

theorem deltaCLoop_ok (ped : Bool) (ppem bias shift : Nat) :
    ∀ (n : Nat) (vs vs' : List Int) (c c' : Cow) (k k' : Nat),
      deltaCLoop ped ppem bias shift n vs c k = .ok (vs', c', k') →
      k' = k + n ∧ vs'.length ≤ vs.length ∧ c'.len = c.len ∧ (c.Ok → c'.Ok) := by
  intro n
  induction n with
  | zero =>
    intro vs vs' c c' k k' h
    simp [deltaCLoop] at h
    obtain ⟨h1, h2, h3⟩ := h
    subst h1; subst h2; subst h3
    exact ⟨rfl, Nat.le_refl _, rfl, id⟩
  | succ n ih =>
    intro vs vs' c c' k k' h
    unfold deltaCLoop at h
    split at h
    · cases h
    · rename_i ix vs1 hp1
      split at h
      · cases h
      · rename_i b vs2 hp2
        have l1 := pop_length_le' hp1
        have l2 := pop_length_le' hp2
        split at h
        · split at h
          · cases h
          · rename_i v hv
            simp only [] at h
            split at h
            · cases h
            · rename_i c1 ok hs
              split at h
              · have ⟨e1, e2, e3, e4⟩ := ih _ _ _ _ _ _ h
                -- the write keeps the length
                have hw := cow_set_eq hs
                have hlen : c1.len = c.len ∧ (c.Ok → c1.Ok) := by
                  subst hw
                  exact ⟨cow_write_len _ _ _, fun _ => cow_write_ok _ _ _⟩
                exact ⟨by omega, by omega, by rw [e3, hlen.1], fun hc => e4 (hlen.2 hc)⟩
              · cases h
        · have ⟨e1, e2, e3, e4⟩ := ih _ _ _ _ _ _ h
          exact ⟨by omega, by omega, e3, e4⟩

/-- with `Ok` slices the DELTAC loop never panics -/
theorem deltaCLoop_np (ped : Bool) (ppem bias shift : Nat) :
    ∀ (n : Nat) (vs : List Int) (c : Cow) (k : Nat), c.Ok →
      deltaCLoop ped ppem bias shift n vs c k ≠ .error E_PANIC := by
  intro n
  induction n with
  | zero => intro vs c k hc h; simp [deltaCLoop] at h
  | succ n ih =>
    intro vs c k hc h
    unfold deltaCLoop at h
    split at h
    · rename_i e hp; exact absurd ((Except.error.inj h) ▸ pop_err hp) (by decide)
    · split at h
      · rename_i e hp; exact absurd ((Except.error.inj h) ▸ pop_err hp) (by decide)
      · split at h
        · split at h
          · cases Except.error.inj h
          · simp only [] at h
            split at h
            · rename_i e hse; exact absurd hse (cow_set_ne_err c _ _ hc e)
            · rename_i c1 ok hs1
              have hw := cow_set_eq hs1
              split at h
              · exact ih _ _ _ (hw ▸ cow_write_ok _ _ _) h
              · cases Except.error.inj h
        · exact ih _ _ _ hc h

/-! ### the loop skeletons never raise the panic marker -/

/-- an error that is one of the `HintErrorKind` values of the loop opcodes (in particular not `E_PANIC`) -/
def Kind (e : Err) : Prop := e ≠ E_PANIC

theorem kind_point : Kind E_POINT := by unfold Kind; decide
theorem kind_underflow : Kind Err.vsUnderflow := by unfold Kind; decide

def EP {α} (r : Except Err α) : Prop := ∀ e, r = .error e → Kind e

theorem EP_ok {α} (a : α) : EP (Except.ok a : Except Err α) := by intro e h; cases h
theorem EP_err {α} {e : Err} (h : Kind e) : EP (Except.error e : Except Err α) := by
  intro e' h'; rw [← Except.error.inj h']; exact h

theorem EP_checkPoint (g : G) (z i : Nat) : EP (checkPoint g z i) := by
  unfold checkPoint; split
  · exact EP_ok _
  · exact EP_err kind_point

theorem EP_popThen {ped : Bool} {vs : List Int} {f : Int → List Int → OpR} (hf : ∀ v vs1, EP (f v vs1)) :
    EP (popThen ped vs f) := by
  unfold popThen
  split
  · rename_i e hp; rw [pop_err hp]; exact EP_err kind_underflow
  · exact hf _ _

theorem EP_popLoop (ped : Bool) (body : Nat → Except Err Unit) (hb : ∀ i, EP (body i)) :
    ∀ (n : Nat) (vs : List Int) (k : Nat), EP (popLoop ped body n vs k) := by
  intro n
  induction n with
  | zero => intro vs k; unfold popLoop; exact EP_ok _
  | succ n ih =>
    intro vs k
    unfold popLoop
    split
    · rename_i e hp; rw [pop_err hp]; exact EP_err kind_underflow
    · split
      · rename_i e hbe; intro e' h'; rw [← Except.error.inj h']; exact hb _ _ hbe
      · exact ih _ _

theorem EP_rangeLoop (body : Nat → Except Err Unit) (skip : Option Nat) (hb : ∀ i, EP (body i)) :
    ∀ (n i k : Nat), EP (rangeLoop body skip n i k) := by
  intro n
  induction n with
  | zero => intro i k; unfold rangeLoop; exact EP_ok _
  | succ n ih =>
    intro i k
    unfold rangeLoop
    split
    · rename_i e hbe
      intro e' h'; rw [← Except.error.inj h']
      split at hbe
      · cases hbe
      · exact hb _ _ hbe
    · exact ih _ _

theorem EP_deltaLoop (ped : Bool) (body : Int → Nat → Except Err Unit) (hb : ∀ b i, EP (body b i)) :
    ∀ (n : Nat) (vs : List Int) (k : Nat), EP (deltaLoop ped body n vs k) := by
  intro n
  induction n with
  | zero => intro vs k; unfold deltaLoop; exact EP_ok _
  | succ n ih =>
    intro vs k
    unfold deltaLoop
    split
    · rename_i e hp; rw [pop_err hp]; exact EP_err kind_underflow
    · split
      · rename_i e hp; rw [pop_err hp]; exact EP_err kind_underflow
      · split
        · rename_i e hbe; intro e' h'; rw [← Except.error.inj h']; exact hb _ _ _ hbe
        · exact ih _ _

theorem EP_counted {ped : Bool} {vs : List Int} {g : G} {body : Nat → Except Err Unit} (hb : ∀ i, EP (body i)) :
    EP (counted ped vs g body) := by
  unfold counted
  split
  · rename_i e he; intro e' h'; rw [← Except.error.inj h']; exact EP_popLoop ped body hb _ _ _ _ he
  · exact EP_ok _

theorem EP_checkMoveZp2 (g : G) (i : Nat) (t : Bool) : EP (checkMoveZp2 g i t) := by
  unfold checkMoveZp2; split
  · exact EP_checkPoint _ _ _
  · exact EP_ok _

theorem EP_pointDisplacement (g : G) (op : Nat) : EP (pointDisplacement g op) := by
  unfold pointDisplacement
  simp only []
  split
  · rename_i e he; intro e' h'; rw [← Except.error.inj h']; exact EP_checkPoint _ _ _ _ he
  · exact EP_ok _

theorem EP_zoneOf (v : Int) : EP (zoneOf v) := by
  unfold zoneOf
  repeat' split
  · exact EP_ok _
  · exact EP_ok _
  · exact EP_err (by unfold Kind; decide)

theorem kind_lit {e : Err} (h : e ≠ E_PANIC := by decide) : Kind e := h

/-- closes `EP (match x with | .error e => .error e | .ok a => k a)` style goals leaf by leaf -/
theorem EP_bind {α β} {x : Except Err α} {k : α → Except Err β} (hx : EP x) (hk : ∀ a, EP (k a)) :
    EP (match x with | .error e => .error e | .ok a => k a) := by
  cases x with
  | error e => exact EP_err (hx e rfl)
  | ok a => exact hk a

theorem EP_opSloop (ped : Bool) (vs : List Int) (g : G) : EP (opSloop ped vs g) := by
  unfold opSloop
  refine EP_popThen ?_
  intro n vs1; split
  · exact EP_err (by unfold Kind; decide)
  · exact EP_ok _

theorem EP_opSrp (ped : Bool) (w : Nat) (vs : List Int) (g : G) : EP (opSrp ped w vs g) := by
  unfold opSrp
  exact EP_popThen (fun _ _ => EP_ok _)

theorem EP_opSzp (ped : Bool) (w : Nat) (vs : List Int) (g : G) : EP (opSzp ped w vs g) := by
  unfold opSzp
  refine EP_popThen ?_
  intro n vs1
  split
  · rename_i e he; exact EP_err (EP_zoneOf _ _ he)
  · exact EP_ok _

theorem EP_opFlipRange (ped : Bool) (vs : List Int) (g : G) : EP (opFlipRange ped vs g) := by
  unfold opFlipRange
  refine EP_popThen ?_
  intro hi vs1
  refine EP_popThen ?_
  intro lo vs2
  simp only []
  repeat' split
  all_goals first | exact EP_ok _ | exact EP_err (by unfold Kind; decide)

theorem EP_opShp (ped : Bool) (op : Nat) (vs : List Int) (g : G) : EP (opShp ped op vs g) := by
  unfold opShp
  split
  · rename_i e he; exact EP_err (EP_pointDisplacement _ _ _ he)
  · exact EP_counted (fun _ => EP_checkMoveZp2 _ _ _)

theorem EP_opShc (ped : Bool) (op : Nat) (vs : List Int) (g : G) : EP (opShc ped op vs g) := by
  unfold opShc
  refine EP_popThen ?_
  intro c vs1
  simp only []
  split
  · exact EP_ok _
  · split
    · rename_i e he; exact EP_err (EP_pointDisplacement _ _ _ he)
    · split
      · rename_i e he
        refine EP_err ?_
        split at he
        · split at he
          · cases he
          · rw [← Except.error.inj he]; unfold Kind; decide
        · cases he
      · split
        · rename_i e he
          refine EP_err ?_
          split at he
          · cases he
          · split at he
            · cases he
            · rw [← Except.error.inj he]; unfold Kind; decide
        · split
          · rename_i e he; exact EP_err (EP_rangeLoop _ _ (fun _ => EP_checkMoveZp2 _ _ _) _ _ _ _ he)
          · exact EP_ok _

theorem EP_opShz (ped : Bool) (op : Nat) (vs : List Int) (g : G) : EP (opShz ped op vs g) := by
  unfold opShz
  refine EP_popThen ?_
  intro c vs1
  split
  · rename_i e he; exact EP_err (EP_zoneOf _ _ he)
  · split
    · rename_i e he; exact EP_err (EP_pointDisplacement _ _ _ he)
    · split
      · rename_i e he; exact EP_err (EP_rangeLoop _ _ (fun _ => EP_checkMoveZp2 _ _ _) _ _ _ _ he)
      · exact EP_ok _

theorem EP_opIp (ped : Bool) (vs : List Int) (g : G) : EP (opIp ped vs g) := by
  unfold opIp
  simp only []
  split
  · exact EP_ok _
  · split
    · rename_i e he; exact EP_err (EP_checkPoint _ _ _ _ he)
    · split
      · rename_i e he; exact EP_err (EP_checkPoint _ _ _ _ he)
      · split
        · rename_i e he
          refine EP_err (EP_popLoop ped _ ?_ _ _ _ _ he)
          intro i; split
          · exact EP_ok _
          · exact EP_checkPoint _ _ _
        · exact EP_ok _

theorem EP_opDelta (ped : Bool) (op : Nat) (vs : List Int) (g : G) : EP (opDelta ped op vs g) := by
  unfold opDelta
  refine EP_popThen ?_
  intro n vs1
  simp only []
  split
  · exact EP_err (by unfold Kind; decide)
  · split
    · rename_i e he
      refine EP_err (EP_deltaLoop ped _ ?_ _ _ _ _ he)
      intro b i
      repeat' split
      all_goals first | exact EP_ok _ | exact EP_err (by unfold Kind; decide)
    · exact EP_ok _

theorem EP_opCindex (vs : List Int) (g : G) : EP (opCindex vs g) := by
  unfold opCindex
  repeat' split
  all_goals first | exact EP_ok _ | exact EP_err (by unfold Kind; decide)

theorem EP_opMindex (vs : List Int) (g : G) : EP (opMindex vs g) := by
  unfold opMindex
  split
  · exact EP_err (by unfold Kind; decide)
  · simp only []
    split
    · exact EP_err (by unfold Kind; decide)
    · split
      · exact EP_err (by unfold Kind; decide)
      · exact EP_ok _

/-- **no loop-carrying opcode raises the panic marker** -/
theorem semLoopOp_kind (ped : Bool) (op : Nat) (vs : List Int) (g : G) (r : OpR)
    (h : semLoopOp ped op vs g = some r) : EP r := by
  unfold semLoopOp at h
  by_cases hc0 : op = 0x17
  · rw [if_pos hc0] at h; rw [← Option.some.inj h]; exact EP_opSloop _ _ _
  rw [if_neg hc0] at h
  by_cases hc1 : op = 0x10
  · rw [if_pos hc1] at h; rw [← Option.some.inj h]; exact EP_opSrp _ _ _ _
  rw [if_neg hc1] at h
  by_cases hc2 : op = 0x11
  · rw [if_pos hc2] at h; rw [← Option.some.inj h]; exact EP_opSrp _ _ _ _
  rw [if_neg hc2] at h
  by_cases hc3 : op = 0x12
  · rw [if_pos hc3] at h; rw [← Option.some.inj h]; exact EP_opSrp _ _ _ _
  rw [if_neg hc3] at h
  by_cases hc4 : op = 0x13
  · rw [if_pos hc4] at h; rw [← Option.some.inj h]; exact EP_opSzp _ _ _ _
  rw [if_neg hc4] at h
  by_cases hc5 : op = 0x14
  · rw [if_pos hc5] at h; rw [← Option.some.inj h]; exact EP_opSzp _ _ _ _
  rw [if_neg hc5] at h
  by_cases hc6 : op = 0x15
  · rw [if_pos hc6] at h; rw [← Option.some.inj h]; exact EP_opSzp _ _ _ _
  rw [if_neg hc6] at h
  by_cases hc7 : op = 0x16
  · rw [if_pos hc7] at h; rw [← Option.some.inj h]; exact EP_opSzp _ _ _ _
  rw [if_neg hc7] at h
  by_cases hc8 : op = 0x80
  · rw [if_pos hc8] at h
    split at h
    · rw [← Option.some.inj h]; exact EP_ok _
    · rw [← Option.some.inj h]
      exact EP_counted (fun i => EP_checkPoint _ _ _)
  rw [if_neg hc8] at h
  by_cases hc9 : op = 0x81 ∨ op = 0x82
  · rw [if_pos hc9] at h; rw [← Option.some.inj h]; exact EP_opFlipRange _ _ _
  rw [if_neg hc9] at h
  by_cases hc10 : op = 0x32 ∨ op = 0x33
  · rw [if_pos hc10] at h; rw [← Option.some.inj h]; exact EP_opShp _ _ _ _
  rw [if_neg hc10] at h
  by_cases hc11 : op = 0x34 ∨ op = 0x35
  · rw [if_pos hc11] at h; rw [← Option.some.inj h]; exact EP_opShc _ _ _ _
  rw [if_neg hc11] at h
  by_cases hc12 : op = 0x36 ∨ op = 0x37
  · rw [if_pos hc12] at h; rw [← Option.some.inj h]; exact EP_opShz _ _ _ _
  rw [if_neg hc12] at h
  by_cases hc13 : op = 0x38
  · rw [if_pos hc13] at h; rw [← Option.some.inj h]
    refine EP_popThen ?_
    intro _ vs1
    refine EP_counted ?_
    intro i; split
    · exact EP_ok _
    · exact EP_checkPoint _ _ _
  rw [if_neg hc13] at h
  by_cases hc14 : op = 0x39
  · rw [if_pos hc14] at h; rw [← Option.some.inj h]; exact EP_opIp _ _ _
  rw [if_neg hc14] at h
  by_cases hc15 : op = 0x3C
  · rw [if_pos hc15] at h; rw [← Option.some.inj h]
    refine EP_counted ?_
    intro i; split
    · rename_i e he; exact EP_err (EP_checkPoint _ _ _ _ he)
    · exact EP_checkPoint _ _ _
  rw [if_neg hc15] at h
  by_cases hc16 : op = 0x5D ∨ op = 0x71 ∨ op = 0x72 ∨ op = 0x73 ∨ op = 0x74 ∨ op = 0x75
  · rw [if_pos hc16] at h; rw [← Option.some.inj h]; exact EP_opDelta _ _ _ _
  rw [if_neg hc16] at h
  by_cases hc17 : op = 0x25
  · rw [if_pos hc17] at h; rw [← Option.some.inj h]; exact EP_opCindex _ _
  rw [if_neg hc17] at h
  by_cases hc18 : op = 0x26
  · rw [if_pos hc18] at h; rw [← Option.some.inj h]; exact EP_opMindex _ _
  rw [if_neg hc18] at h
  by_cases hc19 : op = 0x30 ∨ op = 0x31
  · rw [if_pos hc19] at h; rw [← Option.some.inj h]; exact EP_ok _
  rw [if_neg hc19] at h
  by_cases hc20 : op = 0x00 ∨ op = 0x04
  · rw [if_pos hc20] at h; rw [← Option.some.inj h]; exact EP_ok _
  rw [if_neg hc20] at h
  by_cases hc21 : op = 0x01 ∨ op = 0x05
  · rw [if_pos hc21] at h; rw [← Option.some.inj h]; exact EP_ok _
  rw [if_neg hc21] at h
  cases h

/-! ### error kinds of the stack subset -/

theorem EP_push (cap : Nat) (vs : List Int) (v : Int) : EP (push cap vs v) := by
  unfold push; split
  · exact EP_ok _
  · exact EP_err (by unfold Kind; decide)

theorem EP_pop (ped : Bool) (vs : List Int) : EP (pop ped vs) := by
  intro e h; rw [pop_err h]; unfold Kind; decide

theorem EP_applyBinary (ped : Bool) (cap : Nat) (vs : List Int) (f : Int → Int → Int) : EP (applyBinary ped cap vs f) := by
  unfold applyBinary
  split
  · rename_i e he; exact EP_err (EP_pop _ _ _ he)
  · split
    · rename_i e he; exact EP_err (EP_pop _ _ _ he)
    · exact EP_push _ _ _

theorem EP_applyUnary (ped : Bool) (cap : Nat) (vs : List Int) (f : Int → Int) : EP (applyUnary ped cap vs f) := by
  unfold applyUnary
  split
  · rename_i e he; exact EP_err (EP_pop _ _ _ he)
  · exact EP_push _ _ _

theorem EP_ret {cap : Nat} {r : Except Err (List Int)} (h : EP r) :
    EP (match r with | .ok vs => (Except.ok (vs, cap) : Except Err (List Int × Nat)) | .error e => .error e) := by
  cases r with
  | error e => exact EP_err (h e rfl)
  | ok v => exact EP_ok _

theorem EP_map {α β} {r : Except Err α} (f : α → β) (h : EP r) : EP (r.map f) := by
  cases r with
  | error e => exact EP_err (h e rfl)
  | ok v => exact EP_ok _

/-- the stack / push / arithmetic subset raises ValueStackOverflow / ValueStackUnderflow only (an opcode outside the
    subset is `Err.data op`, which is not the panic marker for an opcode BYTE) -/
theorem semSubset_kind (ped : Bool) (op : Nat) (hop : op < 256) (bytes : List Nat) (vs : List Int) (cap : Nat) :
    EP (semSubset ped op bytes (vs, cap)) := by
  unfold semSubset
  simp only []
  by_cases c0 : op = 0x40 ∨ op = 0x41 ∨ (0xB0 ≤ op ∧ op ≤ 0xBF)
  · rw [if_pos c0]
    split
    · exact EP_ok _
    · exact EP_err (by unfold Kind; decide)
  rw [if_neg c0]
  by_cases c1 : op = 0x20
  · rw [if_pos c1]
    split
    · exact EP_ret (EP_push _ _ _)
    · split
      · exact EP_err (by unfold Kind; decide)
      · exact EP_ret (EP_push _ _ _)
  rw [if_neg c1]
  by_cases c2 : op = 0x21
  · rw [if_pos c2]
    exact EP_ret (EP_map _ (EP_pop _ _))
  rw [if_neg c2]
  by_cases c3 : op = 0x22
  · rw [if_pos c3]
    exact EP_ok _
  rw [if_neg c3]
  by_cases c4 : op = 0x23
  · rw [if_pos c4]
    split
    · rename_i e he; exact EP_err (EP_pop _ _ _ he)
    · split
      · rename_i e he; exact EP_err (EP_pop _ _ _ he)
      · split
        · rename_i e he; exact EP_err (EP_push _ _ _ _ he)
        · exact EP_ret (EP_push _ _ _)
  rw [if_neg c4]
  by_cases c5 : op = 0x24
  · rw [if_pos c5]
    exact EP_ret (EP_push _ _ _)
  rw [if_neg c5]
  by_cases c6 : op = 0x60
  · rw [if_pos c6]
    exact EP_ret (EP_applyBinary _ _ _ _)
  rw [if_neg c6]
  by_cases c7 : op = 0x61
  · rw [if_pos c7]
    exact EP_ret (EP_applyBinary _ _ _ _)
  rw [if_neg c7]
  by_cases c8 : op = 0x65
  · rw [if_pos c8]
    exact EP_ret (EP_applyUnary _ _ _ _)
  rw [if_neg c8]
  by_cases c9 : op = 0x50
  · rw [if_pos c9]
    exact EP_ret (EP_applyBinary _ _ _ _)
  rw [if_neg c9]
  by_cases c10 : op = 0x53
  · rw [if_pos c10]
    exact EP_ret (EP_applyBinary _ _ _ _)
  rw [if_neg c10]
  by_cases c11 : op = 0x54
  · rw [if_pos c11]
    exact EP_ret (EP_applyBinary _ _ _ _)
  rw [if_neg c11]
  by_cases c12 : op = 0x5A
  · rw [if_pos c12]
    exact EP_ret (EP_applyBinary _ _ _ _)
  rw [if_neg c12]
  by_cases c13 : op = 0x5B
  · rw [if_pos c13]
    exact EP_ret (EP_applyBinary _ _ _ _)
  rw [if_neg c13]
  by_cases c14 : op = 0x5C
  · rw [if_pos c14]
    exact EP_ret (EP_applyUnary _ _ _ _)
  rw [if_neg c14]
  by_cases c15 : op = 0x4F ∨ op = 0x7F
  · rw [if_pos c15]
    exact EP_ret (EP_map _ (EP_pop _ _))
  rw [if_neg c15]
  split
  · exact EP_ok _
  · refine EP_err ?_
    unfold Kind E_PANIC
    intro h
    have := Err.data.inj h
    omega

/-- pushes grow the stack by their operand count -/
theorem semSubset_push_len (ped : Bool) (op : Nat) (bytes : List Nat) (vs vs' : List Int) (cap cap' : Nat)
    (hop : op = 0x40 ∨ op = 0x41 ∨ (0xB0 ≤ op ∧ op ≤ 0xBF))
    (h : semSubset ped op bytes (vs, cap) = .ok (vs', cap')) :
    vs'.length = vs.length + (operandValues op bytes).length := by
  unfold semSubset at h
  simp only [] at h
  rw [if_pos hop] at h
  split at h
  · have h0 := Prod.mk.inj (Except.ok.inj h)
    rw [← h0.1]; simp; omega
  · cases h

/-- IUP leaves the loop state alone except for the two `did_iup` flags -/
theorem semLoopOp_iup (ped : Bool) (op : Nat) (hop : op = 0x30 ∨ op = 0x31) (vs : List Int) (g : G) :
    ∃ g', semLoopOp ped op vs g = some (.ok (vs, g')) ∧ g'.iters = g.iters ∧ g'.loop = g.loop ∧
      g'.glyphPts = g.glyphPts ∧ g'.twiPts = g.twiPts ∧ g'.glyphContours = g.glyphContours ∧ g'.cap = g.cap := by
  rcases hop with hop | hop <;> subst hop <;> simp [semLoopOp] <;> split <;> simp

theorem popN_args_len (ped : Bool) : ∀ (n : Nat) (vs args vs1 : List Int), popN ped n vs = .ok (args, vs1) →
    args.length = n := by
  intro n
  induction n with
  | zero => intro vs args vs1 h; simp [popN] at h; rw [h.1]; rfl
  | succ n ih =>
    intro vs args vs1 h
    unfold popN at h
    split at h
    · cases h
    · split at h
      · cases h
      · rename_i as vs3 hr
        have h0 := Prod.mk.inj (Except.ok.inj h)
        rw [← h0.1]; simp; exact ih _ _ _ hr

theorem EP_popN (ped : Bool) (n : Nat) (vs : List Int) : EP (popN ped n vs) := by
  intro e h; rw [popN_err ped n vs e h]; unfold Kind; decide

theorem EP_pushAll (cap : Nat) (vs outs : List Int) : EP (pushAll cap vs outs) := by
  intro e h; rw [pushAll_err h]; unfold Kind; decide

theorem derr_kind (e : DErr) : Kind e.toErr := by
  cases e <;> (unfold Kind DErr.toErr; decide)

/-- a loop opcode wrapped into the full state -/
theorem EP_loop_wrap (ped : Bool) (op : Nat) (hop : op < 256) (vs : List Int) (f : F) :
    EP (match semLoopOp ped op vs f.g with
        | some (.ok (vs', g')) => (Except.ok (vs', { f with g := g' }) : ER)
        | some (.error e) => .error e
        | none => .error (.data op)) := by
  split
  · exact EP_ok _
  · rename_i e he; exact EP_err (semLoopOp_kind ped op vs f.g _ he e rfl)
  · refine EP_err ?_
    unfold Kind E_PANIC
    intro h
    have := Err.data.inj h
    omega

/-- the loop opcodes are defined (`some`) on their own opcode bytes -/
theorem semLoopOp_some (ped : Bool) (op : Nat)
    (hop : op = 0x25 ∨ op = 0x26 ∨ op = 0x5D ∨ op = 0x71 ∨ op = 0x72 ∨ op = 0x30 ∨ op = 0x31) (vs : List Int) (g : G) :
    ∃ r, semLoopOp ped op vs g = some r := by
  rcases hop with h | h | h | h | h | h | h <;> subst h <;> simp [semLoopOp]

end FontVerif.InterpDataLemmas
