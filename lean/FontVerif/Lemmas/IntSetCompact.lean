/-
`BitSet::compact` / `compact_pages` (read-fonts/src/collections/int_set/bitset.rs) on the concrete
model of `Model/BitSetConc.lean`: the compaction re-points the kept map entries to `0..w` without
ever reading a page after overwriting it.
-/
import FontVerif.Model.BitSetConc
namespace FontVerif.IntSet

/-! ## list helpers -/

theorem getD_set' {α : Type} (l : List α) (i j : Nat) (a d : α) :
    (l.set i a).getD j d = if i = j ∧ i < l.length then a else l.getD j d := by
  simp only [List.getD_eq_getElem?_getD, List.getElem?_set]
  by_cases h : i = j
  · subst h
    by_cases h2 : i < l.length
    · simp [h2]
    · simp [h2]
  · simp [h]

theorem getElem?_eq_of_getD_eq {α : Type} (l₁ l₂ : List α) (d : α) (k : Nat)
    (hlen : l₁.length = l₂.length) (h : l₁.getD k d = l₂.getD k d) : l₁[k]? = l₂[k]? := by
  by_cases hk : k < l₁.length
  · have hk2 : k < l₂.length := by omega
    simp only [List.getD_eq_getElem?_getD, List.getElem?_eq_getElem hk,
      List.getElem?_eq_getElem hk2, Option.getD_some] at h
    simp [List.getElem?_eq_getElem hk, List.getElem?_eq_getElem hk2, h]
  · have hk2 : ¬ k < l₂.length := by omega
    simp [List.getElem?_eq_none_iff.2 (Nat.le_of_not_lt hk),
      List.getElem?_eq_none_iff.2 (Nat.le_of_not_lt hk2)]

theorem getD_eq_getElem' {α : Type} (l : List α) (d : α) (k : Nat) (hk : k < l.length) :
    l.getD k d = l[k] := by
  simp [List.getD_eq_getElem?_getD, List.getElem?_eq_getElem hk]

/-- the conditional copy of `compact_pages`, as a function on positions -/
theorem getD_copy (P : List CPage) (wi i j : Nat) (hle : wi ≤ i) (hi : i < P.length) :
    (if wi < i then P.set wi (P.getD i CPage.zero) else P).getD j CPage.zero
      = if j = wi then P.getD i CPage.zero else P.getD j CPage.zero := by
  by_cases h : wi < i
  · rw [if_pos h, getD_set']
    by_cases hj : j = wi
    · subst hj
      have : j < P.length := by omega
      simp [this]
    · have : ¬ wi = j := fun e => hj e.symm
      simp [this, hj]
  · have : wi = i := by omega
    subst this
    rw [if_neg h]
    by_cases hj : j = wi
    · subst hj; simp
    · simp [hj]

/-! ## the table `old_index_to_page_map_index` -/

theorem compactTable_succ (pm : PMap) (n w : Nat) :
    compactTable pm n (w + 1) = (compactTable pm n w).set (pm.getD w (0, 0)).2 w := by
  simp [compactTable, List.range_succ, List.foldl_append]

/-- what `compact` computes before calling `compact_pages` -/
structure TableSpec (pm : PMap) (n w : Nat) (T : List Nat) : Prop where
  len : T.length = n
  fwd : ∀ k, k < w → T[(pm.getD k (0, 0)).2]? = some k
  bwd : ∀ j v, T[j]? = some v → v = USIZE_MAX ∨ (v < w ∧ (pm.getD v (0, 0)).2 = j)
  cnt : T.countP (· != USIZE_MAX) = w

theorem compactTable_spec (pm : PMap) (n : Nat) : ∀ w, w ≤ USIZE_MAX →
    (∀ k k', k < k' → k' < w → (pm.getD k (0, 0)).2 ≠ (pm.getD k' (0, 0)).2) →
    (∀ k, k < w → (pm.getD k (0, 0)).2 < n) → TableSpec pm n w (compactTable pm n w) := by
  intro w
  induction w with
  | zero =>
    intro _ _ _
    have h0 : compactTable pm n 0 = List.replicate n USIZE_MAX := by simp [compactTable]
    rw [h0]
    refine ⟨by simp, fun k hk => absurd hk (Nat.not_lt_zero k), ?_, by simp⟩
    intro j v hv
    rw [List.getElem?_replicate] at hv
    split at hv
    · left; exact (Option.some.inj hv).symm
    · cases hv
  | succ w ih =>
    intro hmax hinj hlt
    have IH := ih (by omega) (fun k k' h1 h2 => hinj k k' h1 (by omega)) (fun k hk => hlt k (by omega))
    rw [compactTable_succ]
    generalize compactTable pm n w = T at IH
    have hiw : (pm.getD w (0, 0)).2 < T.length := by rw [IH.len]; exact hlt w (by omega)
    refine ⟨by rw [List.length_set]; exact IH.len, ?_, ?_, ?_⟩
    · intro k hk
      rw [List.getElem?_set]
      by_cases hkw : k = w
      · subst hkw; rw [if_pos rfl, if_pos hiw]
      · have hk' : k < w := by omega
        have hne := hinj k w hk' (by omega)
        rw [if_neg (fun e => hne e.symm)]
        exact IH.fwd k hk'
    · intro j v hv
      rw [List.getElem?_set] at hv
      split at hv
      · rename_i hj
        right
        have : w = v := Option.some.inj hv
        subst this
        exact ⟨by omega, hj⟩
      · rcases IH.bwd j v hv with h | ⟨h1, h2⟩
        · left; exact h
        · right; exact ⟨by omega, h2⟩
    · rw [List.countP_set hiw]
      have hold : T[(pm.getD w (0, 0)).2] = USIZE_MAX := by
        rcases IH.bwd _ _ (List.getElem?_eq_getElem hiw) with h | ⟨h1, h2⟩
        · exact h
        · exact absurd h2 (hinj _ w h1 (by omega))
      have hwne : w ≠ USIZE_MAX := by omega
      rw [hold, IH.cnt]
      simp [hwne]

/-! ## the loop of `compact_pages` -/

/-- loop invariant of `compact_pages` at table position `i` with running `write_index = wi`,
relative to the state `(pages, pm)` at loop entry -/
structure LoopInv (pm : PMap) (pages : List CPage) (w : Nat) (T : List Nat)
    (i wi : Nat) (P : List CPage) (M : PMap) : Prop where
  le : wi ≤ i
  plen : P.length = pages.length
  mlen : M.length = pm.length
  untouched : ∀ j, i ≤ j → P.getD j CPage.zero = pages.getD j CPage.zero
  done : ∀ k, k < w → (pm.getD k (0, 0)).2 < i →
    (M.getD k (0, 0)).1 = (pm.getD k (0, 0)).1 ∧ (M.getD k (0, 0)).2 < wi ∧
    P.getD (M.getD k (0, 0)).2 CPage.zero = pages.getD (pm.getD k (0, 0)).2 CPage.zero
  todo : ∀ k, k < w → i ≤ (pm.getD k (0, 0)).2 → M.getD k (0, 0) = pm.getD k (0, 0)
  rest : ∀ k, w ≤ k → M.getD k (0, 0) = pm.getD k (0, 0)
  inj : ∀ k k', k < w → k' < w → (pm.getD k (0, 0)).2 < i → (pm.getD k' (0, 0)).2 < i →
    (M.getD k (0, 0)).2 = (M.getD k' (0, 0)).2 → k = k'
  cnt : wi = (T.take i).countP (· != USIZE_MAX)

theorem LoopInv.init (pm : PMap) (pages : List CPage) (w : Nat) (T : List Nat) :
    LoopInv pm pages w T 0 0 pages pm :=
  ⟨Nat.le_refl 0, rfl, rfl, fun _ _ => rfl, fun _ _ h => absurd h (Nat.not_lt_zero _),
    fun _ _ _ => rfl, fun _ _ => rfl, fun _ _ _ _ h => absurd h (Nat.not_lt_zero _), by simp⟩

section step
variable {pm : PMap} {pages : List CPage} {w : Nat} {T : List Nat} {i wi : Nat}
  {P : List CPage} {M : PMap}

/-- `if *page_map_index == usize::MAX { continue; }` -/
theorem LoopInv.step_skip (hT : TableSpec pm pages.length w T) (hmax : w ≤ USIZE_MAX)
    (h : LoopInv pm pages w T i wi P M) (hv : T[i]? = some USIZE_MAX) :
    LoopInv pm pages w T (i + 1) wi P M := by
  have hne : ∀ k, k < w → (pm.getD k (0, 0)).2 ≠ i := by
    intro k hk e
    have := hT.fwd k hk
    rw [e, hv] at this
    have : USIZE_MAX = k := Option.some.inj this
    omega
  refine ⟨by have := h.le; omega, h.plen, h.mlen, fun j hj => h.untouched j (by omega), ?_,
    fun k hk hi => h.todo k hk (by omega), h.rest, ?_, ?_⟩
  · intro k hk hi
    have := hne k hk
    exact h.done k hk (by omega)
  · intro k k' hk hk' hi hi'
    have := hne k hk
    have := hne k' hk'
    exact h.inj k k' hk hk' (by omega) (by omega)
  · rw [List.take_add_one, hv, List.countP_append]
    simp [h.cnt]

/-- the copy step: `pages[write_index] = pages[i].clone()` (if `write_index < i`),
`page_map[*page_map_index].index = write_index`, `write_index += 1` -/
theorem LoopInv.step_copy (hT : TableSpec pm pages.length w T) (hw : w ≤ pm.length)
    (h : LoopInv pm pages w T i wi P M) (v : Nat) (hv : T[i]? = some v) (hvne : v ≠ USIZE_MAX) :
    LoopInv pm pages w T (i + 1) (wi + 1)
      (if wi < i then P.set wi (P.getD i CPage.zero) else P)
      (M.set v ((M.getD v (0, 0)).1, wi)) := by
  obtain ⟨hvw, hvi⟩ : v < w ∧ (pm.getD v (0, 0)).2 = i := by
    rcases hT.bwd i v hv with e | e
    · exact absurd e hvne
    · exact e
  have hiT : i < T.length := by
    rcases Nat.lt_or_ge i T.length with h1 | h1
    · exact h1
    · rw [List.getElem?_eq_none_iff.2 h1] at hv; cases hv
  have hiP : i < P.length := by rw [h.plen, ← hT.len]; exact hiT
  have hle := h.le
  have hvM : v < M.length := by rw [h.mlen]; omega
  have hMv : M.getD v (0, 0) = pm.getD v (0, 0) := h.todo v hvw (by omega)
  -- every other kept entry has a different old index
  have hne : ∀ k, k < w → k ≠ v → (pm.getD k (0, 0)).2 ≠ i := by
    intro k hk hkv e
    have := hT.fwd k hk
    rw [e, hv] at this
    exact hkv (Option.some.inj this).symm
  have hP : ∀ j, (if wi < i then P.set wi (P.getD i CPage.zero) else P).getD j CPage.zero
      = if j = wi then P.getD i CPage.zero else P.getD j CPage.zero :=
    fun j => getD_copy P wi i j hle hiP
  have hM : ∀ k, (M.set v ((M.getD v (0, 0)).1, wi)).getD k (0, 0)
      = if v = k then ((pm.getD v (0, 0)).1, wi) else M.getD k (0, 0) := by
    intro k
    rw [getD_set', hMv]
    by_cases e : v = k
    · subst e; rw [if_pos ⟨rfl, hvM⟩, if_pos rfl]
    · rw [if_neg (fun h => e h.1), if_neg e]
  refine ⟨by omega, ?_, ?_, ?_, ?_, ?_, ?_, ?_, ?_⟩
  · split
    · rw [List.length_set]; exact h.plen
    · exact h.plen
  · rw [List.length_set]; exact h.mlen
  · intro j hj
    rw [hP, if_neg (by omega)]
    exact h.untouched j (by omega)
  · intro k hk hi
    rw [hM]
    by_cases e : v = k
    · subst e
      rw [if_pos rfl]
      refine ⟨rfl, by simp, ?_⟩
      simp only []
      rw [hP, if_pos rfl, hvi]
      exact h.untouched i (Nat.le_refl i)
    · rw [if_neg e]
      have := hne k hk (fun e' => e e'.symm)
      obtain ⟨d1, d2, d3⟩ := h.done k hk (by omega)
      refine ⟨d1, by omega, ?_⟩
      rw [hP, if_neg (by omega)]
      exact d3
  · intro k hk hi
    rw [hM, if_neg (by intro e; subst e; omega)]
    exact h.todo k hk (by omega)
  · intro k hk
    rw [hM, if_neg (by intro e; subst e; omega)]
    exact h.rest k hk
  · intro k k' hk hk' hi hi'
    rw [hM, hM]
    by_cases e : v = k <;> by_cases e' : v = k'
    · intro _; rw [← e, ← e']
    · rw [if_pos e, if_neg e']
      have := hne k' hk' (fun x => e' x.symm)
      have := (h.done k' hk' (by omega)).2.1
      intro heq
      simp only [] at heq
      omega
    · rw [if_neg e, if_pos e']
      have := hne k hk (fun x => e x.symm)
      have := (h.done k hk (by omega)).2.1
      intro heq
      simp only [] at heq
      omega
    · rw [if_neg e, if_neg e']
      have := hne k hk (fun x => e x.symm)
      have := hne k' hk' (fun x => e' x.symm)
      exact h.inj k k' hk hk' (by omega) (by omega)
  · rw [List.take_add_one, hv, List.countP_append]
    simp [h.cnt, hvne]

end step

/-- running `compact_pages` over a prefix `pre` of the remaining table keeps the invariant -/
theorem compactPagesLoop_prefix {pm : PMap} {pages : List CPage} {w : Nat} {T : List Nat}
    (hT : TableSpec pm pages.length w T) (hw : w ≤ pm.length) (hmax : w ≤ USIZE_MAX) :
    ∀ (pre rest : List Nat) (i wi : Nat) (P : List CPage) (M : PMap),
      T.drop i = pre ++ rest → LoopInv pm pages w T i wi P M →
      ∃ wi' P' M', compactPagesLoop (pre ++ rest) i wi P M
          = compactPagesLoop rest (i + pre.length) wi' P' M' ∧
        LoopInv pm pages w T (i + pre.length) wi' P' M' := by
  intro pre
  induction pre with
  | nil => intro rest i wi P M _ h; exact ⟨wi, P, M, rfl, h⟩
  | cons v pre ih =>
    intro rest i wi P M hd h
    have hv : T[i]? = some v := by
      have := congrArg List.head? hd
      simpa [List.head?_drop] using this
    have hd' : T.drop (i + 1) = pre ++ rest := by
      have := congrArg List.tail hd
      simpa [List.tail_drop] using this
    have hlen : i + (v :: pre).length = (i + 1) + pre.length := by simp; omega
    rw [hlen]
    by_cases e : v = USIZE_MAX
    · have h' := h.step_skip hT hmax (e ▸ hv)
      obtain ⟨wi', P', M', h1, h2⟩ := ih rest (i + 1) wi P M hd' h'
      refine ⟨wi', P', M', ?_, h2⟩
      rw [← h1]
      simp [compactPagesLoop, e]
    · have h' := h.step_copy hT hw v hv e
      obtain ⟨wi', P', M', h1, h2⟩ := ih rest (i + 1) (wi + 1) _ _ hd' h'
      refine ⟨wi', P', M', ?_, h2⟩
      rw [← h1]
      simp [compactPagesLoop, e]

/-! ## from the hypotheses of `compact_spec` to index form -/

theorem idx_inj_of_nodup (pm : PMap) (w : Nat) (hw : w ≤ pm.length)
    (hnd : ((pm.take w).map (·.2)).Nodup) :
    ∀ k k', k < k' → k' < w → (pm.getD k (0, 0)).2 ≠ (pm.getD k' (0, 0)).2 := by
  intro k k' hkk hk'
  have hlen : ((pm.take w).map (·.2)).length = w := by simp; omega
  have := (List.pairwise_iff_getElem.1 hnd) k k' (by omega) (by omega) hkk
  rw [getD_eq_getElem' pm _ k (by omega), getD_eq_getElem' pm _ k' (by omega)]
  simpa using this

theorem idx_lt_of_mem (pm : PMap) (n w : Nat) (hw : w ≤ pm.length)
    (hlt : ∀ e ∈ pm.take w, e.2 < n) : ∀ k, k < w → (pm.getD k (0, 0)).2 < n := by
  intro k hk
  have hk' : k < (pm.take w).length := by simp; omega
  have := hlt _ (List.getElem_mem hk')
  rw [getD_eq_getElem' pm _ k (by omega)]
  simpa using this

/-- the final state of `compact(w)` satisfies the loop invariant at `i = pages.len()`,
`write_index = w` -/
theorem compact_inv (pm : PMap) (pages : List CPage) (w : Nat) (hw : w ≤ pm.length)
    (hmax : w ≤ USIZE_MAX)
    (hnd : ((pm.take w).map (·.2)).Nodup) (hlt : ∀ e ∈ pm.take w, e.2 < pages.length) :
    LoopInv pm pages w (compactTable pm pages.length w) pages.length w
      (compact pm pages w).1 (compact pm pages w).2 := by
  have hT := compactTable_spec pm pages.length w hmax (idx_inj_of_nodup pm w hw hnd)
    (idx_lt_of_mem pm pages.length w hw hlt)
  obtain ⟨wi', P', M', h1, h2⟩ := compactPagesLoop_prefix hT hw hmax
    (compactTable pm pages.length w) [] 0 0 pages pm (by simp) (LoopInv.init pm pages w _)
  simp only [List.append_nil, compactPagesLoop] at h1
  have hwi : wi' = w := by
    have := h2.cnt
    rw [Nat.zero_add, List.take_length, hT.cnt] at this
    exact this
  subst hwi
  rw [Nat.zero_add, hT.len] at h2
  unfold compact
  rw [h1]
  exact h2

/-- `compact_spec` under the weaker size hypothesis `w ≤ usize::MAX` -/
theorem compact_spec' (pm : PMap) (pages : List CPage) (w : Nat) (hw : w ≤ pm.length)
    (hmax : w ≤ USIZE_MAX)
    (hnd : ((pm.take w).map (·.2)).Nodup) (hlt : ∀ e ∈ pm.take w, e.2 < pages.length) :
    let r := compact pm pages w
    r.1.length = pages.length ∧ r.2.length = pm.length ∧
    (∀ i, i < w → (r.2.getD i (0, 0)).1 = (pm.getD i (0, 0)).1 ∧
        r.1.getD (r.2.getD i (0, 0)).2 CPage.zero = pages.getD (pm.getD i (0, 0)).2 CPage.zero) ∧
    ((r.2.take w).map (·.2)).Nodup ∧ (∀ e ∈ r.2.take w, e.2 < w) ∧
    r.2.drop w = pm.drop w := by
  intro r
  have h := compact_inv pm pages w hw hmax hnd hlt
  have hidx := idx_lt_of_mem pm pages.length w hw hlt
  have hrlen : r.2.length = pm.length := h.mlen
  refine ⟨h.plen, h.mlen, ?_, ?_, ?_, ?_⟩
  · intro i hi
    obtain ⟨d1, _, d3⟩ := h.done i hi (hidx i hi)
    exact ⟨d1, d3⟩
  · rw [List.Nodup, List.pairwise_iff_getElem]
    intro k k' hk hk' hkk
    have hl : ((r.2.take w).map (·.2)).length = w := by simp; omega
    rw [hl] at hk hk'
    intro heq
    have := h.inj k k' hk hk' (hidx k hk) (hidx k' hk')
    rw [getD_eq_getElem' r.2 _ k (by omega), getD_eq_getElem' r.2 _ k' (by omega)] at this
    have := this (by simpa using heq)
    omega
  · intro e he
    obtain ⟨k, hk, rfl⟩ := List.mem_iff_getElem.1 he
    have hkw : k < w := by simp at hk; omega
    have := (h.done k hkw (hidx k hkw)).2.1
    rw [getD_eq_getElem' r.2 _ k (by omega)] at this
    simpa using this
  · apply List.ext_getElem?
    intro j
    rw [List.getElem?_drop, List.getElem?_drop]
    exact getElem?_eq_of_getD_eq _ _ (0, 0) _ hrlen (h.rest (w + j) (by omega))

/-- `compact(w)`: for map entries `0..w` whose page indices are pairwise distinct and in bounds —
in ANY order (pages are created in insertion order, not in major order) — the compaction keeps
every kept entry's major and page CONTENT (so it never reads a page after overwriting it), re-points
the kept entries to the indices `0..w` (pairwise distinct, all `< w`), and does not change the
lengths of `pages` / `page_map` nor the map entries at positions `≥ w`.
(`hmax`: a map position must be distinguishable from the sentinel `usize::MAX`.) -/
theorem compact_spec (pm : PMap) (pages : List CPage) (w : Nat) (hw : w ≤ pm.length)
    (hmax : pm.length < USIZE_MAX)
    (hnd : ((pm.take w).map (·.2)).Nodup) (hlt : ∀ e ∈ pm.take w, e.2 < pages.length) :
    let r := compact pm pages w
    r.1.length = pages.length ∧ r.2.length = pm.length ∧
    (∀ i, i < w → (r.2.getD i (0, 0)).1 = (pm.getD i (0, 0)).1 ∧
        r.1.getD (r.2.getD i (0, 0)).2 CPage.zero = pages.getD (pm.getD i (0, 0)).2 CPage.zero) ∧
    ((r.2.take w).map (·.2)).Nodup ∧ (∀ e ∈ r.2.take w, e.2 < w) ∧
    r.2.drop w = pm.drop w :=
  compact_spec' pm pages w hw (by omega) hnd hlt

/-- every page that `compact_pages` copies is read from a position that no earlier copy wrote to:
the write position never exceeds the read position.  Precisely: whenever the run of
`compact_pages` over the table of `compact(w)` reaches table position `i = pre.length` (an
arbitrary split `pre ++ pmi :: rest` of the table), it does so in a state
`(write_index, pages', page_map')` with `write_index ≤ i`, and every position `≥ i` of `pages'`
— in particular the position `i` that this step reads — still holds the ORIGINAL page; all writes
so far went to positions `< write_index`. -/
theorem compact_reads_before_overwrite (pm : PMap) (pages : List CPage) (w : Nat)
    (hw : w ≤ pm.length) (hmax : pm.length < USIZE_MAX)
    (hnd : ((pm.take w).map (·.2)).Nodup) (hlt : ∀ e ∈ pm.take w, e.2 < pages.length)
    (pre rest : List Nat) (pmi : Nat)
    (hsplit : compactTable pm pages.length w = pre ++ pmi :: rest) :
    ∃ wi P M,
      compactPagesLoop (compactTable pm pages.length w) 0 0 pages pm
        = compactPagesLoop (pmi :: rest) pre.length wi P M ∧
      wi ≤ pre.length ∧
      P.length = pages.length ∧
      (∀ j, pre.length ≤ j → P.getD j CPage.zero = pages.getD j CPage.zero) ∧
      (pmi ≠ USIZE_MAX → pmi < w ∧ (pm.getD pmi (0, 0)).2 = pre.length ∧
        P.getD pre.length CPage.zero = pages.getD (pm.getD pmi (0, 0)).2 CPage.zero) := by
  have hmax' : w ≤ USIZE_MAX := by omega
  have hT := compactTable_spec pm pages.length w hmax' (idx_inj_of_nodup pm w hw hnd)
    (idx_lt_of_mem pm pages.length w hw hlt)
  obtain ⟨wi, P, M, h1, h2⟩ := compactPagesLoop_prefix hT hw hmax'
    pre (pmi :: rest) 0 0 pages pm (by simpa using hsplit) (LoopInv.init pm pages w _)
  rw [Nat.zero_add] at h1 h2
  refine ⟨wi, P, M, by rw [← h1, hsplit], h2.le, h2.plen, h2.untouched, ?_⟩
  intro hne
  have hget : (compactTable pm pages.length w)[pre.length]? = some pmi := by
    rw [hsplit]; simp
  rcases hT.bwd _ _ hget with e | ⟨e1, e2⟩
  · exact absurd e hne
  · exact ⟨e1, e2, by rw [e2]; exact h2.untouched _ (Nat.le_refl _)⟩

/-- non-vacuity: the hypotheses hold for a map whose page indices are NOT in major order
(`compact(3)` on pages `[p0, p1, p2, p3]` gives `[p0, p2, p3, p3]`, map `[(0,1),(3,0),(7,2),(9,1)]`) -/
example :
    let pm : PMap := [(0, 2), (3, 0), (7, 3), (9, 1)]
    let pages : List CPage := [⟨[10], 0⟩, ⟨[11], 0⟩, ⟨[12], 0⟩, ⟨[13], 0⟩]
    3 ≤ pm.length ∧ pm.length < USIZE_MAX ∧ ((pm.take 3).map (·.2)).Nodup ∧
    (∀ e ∈ pm.take 3, e.2 < pages.length) ∧
    compact pm pages 3
      = ([⟨[10], 0⟩, ⟨[12], 0⟩, ⟨[13], 0⟩, ⟨[13], 0⟩], [(0, 1), (3, 0), (7, 2), (9, 1)]) := by
  decide

end FontVerif.IntSet
