/-
Helper lemmas for C11 (axis normalisation, avar segment maps):
`Fixed.div` / `Fixed.mulDiv` on the operand ranges that occur in
`VariationAxisRecord::normalize` and `SegmentMaps::apply`, and the list inductions over
`Normalize.applyGo`.
-/
import FontVerif.Model.Normalize
import FontVerif.Lemmas.Round
import FontVerif.Lemmas.TentLemmas
namespace FontVerif.Normalize
open FontVerif

/-! ### `Fixed.div` on `0 ≤ a ≤ b` -/

/-- the quotient computed by `Fixed.div` for non-negative operands (no wrap involved). -/
def divQ (a b : Int) : Int := (a * 65536 + b / 2) / b

theorem divQ_range {a b : Int} (ha : 0 ≤ a) (hab : a ≤ b) (hb : 0 < b) :
    0 ≤ divQ a b ∧ divQ a b ≤ 65536 := by
  unfold divQ
  constructor
  · exact Int.ediv_nonneg (by omega) (by omega)
  · have : a * 65536 + b / 2 < (65536 + 1) * b := by
      have : (65536 + 1) * b = 65536 * b + b := by rw [Int.add_mul]; omega
      omega
    have := Int.ediv_lt_of_lt_mul hb this
    omega

theorem divQ_self {b : Int} (hb : 0 < b) : divQ b b = 65536 := by
  unfold divQ
  have h : b * 65536 + b / 2 = b / 2 + b * 65536 := by omega
  rw [h, Int.add_mul_ediv_left _ _ (by omega : b ≠ 0)]
  have : b / 2 / b = 0 := Int.ediv_eq_zero_of_lt (by omega) (by omega)
  omega

theorem divQ_zero {b : Int} (hb : 0 < b) : divQ 0 b = 0 := by
  unfold divQ
  simp
  exact Int.ediv_eq_zero_of_lt (by omega) (by omega)

theorem divQ_mono {a a' b : Int} (hb : 0 < b) (h : a ≤ a') : divQ a b ≤ divQ a' b := by
  unfold divQ
  exact Int.ediv_le_ediv hb (by omega)

theorem divQ_isRHA {a b : Int} (ha : 0 ≤ a) (hb : 0 < b) : IsRHA (a * 65536) b (divQ a b) :=
  isRHA_formula (by omega) hb

theorem div_eq_divQ {a b : Int} (ha : 0 ≤ a) (hab : a ≤ b) (hb : 0 < b) (hb1 : b < 2147483648) :
    Fixed.div a b = divQ a b := by
  have hr := divQ_range ha hab hb
  unfold divQ at hr
  unfold Fixed.div divQ iabs
  have e1 : (a < 0) = False := by simp; omega
  have e2 : (b < 0) = False := by simp; omega
  have e3 : (b = 0) = False := by simp; omega
  simp only [e1, e2, e3, if_false]
  generalize (a * 65536 + b / 2) / b = q at *
  simp
  have w1 : wrapU32 q = q := by unfold wrapU32; omega
  rw [w1]
  unfold wrapI32; simp only []; split <;> omega

/-! ### `i32::saturating_sub` -/

theorem satSub_nonneg {a b : Int} (h : b ≤ a) : 0 ≤ satSub a b := by
  unfold satSub; simp only []; repeat' split
  all_goals omega

theorem satSub_pos {a b : Int} (h : b < a) : 0 < satSub a b := by
  unfold satSub; simp only []; repeat' split
  all_goals omega

theorem satSub_lt {a b : Int} (h : b ≤ a) : satSub a b < 2147483648 := by
  unfold satSub; simp only []; repeat' split
  all_goals omega

theorem satSub_mono_left {a a' b : Int} (h : a ≤ a') : satSub a b ≤ satSub a' b := by
  unfold satSub; simp only []; repeat' split
  all_goals omega

theorem satSub_anti_right {a b b' : Int} (h : b ≤ b') : satSub a b' ≤ satSub a b := by
  unfold satSub; simp only []; repeat' split
  all_goals omega

theorem satSub_exact {a b : Int} (h : a - b < 2147483648)
    (h' : -2147483648 ≤ a - b) : satSub a b = a - b := by
  unfold satSub; simp only []; repeat' split
  all_goals omega

theorem clamp_range {v lo hi : Int} (h : lo ≤ hi) : lo ≤ clamp v lo hi ∧ clamp v lo hi ≤ hi := by
  unfold clamp; repeat' split
  all_goals omega

theorem clamp_mono {v v' lo hi : Int} (h : v ≤ v') (hl : lo ≤ hi) :
    clamp v lo hi ≤ clamp v' lo hi := by
  unfold clamp; repeat' split
  all_goals omega

theorem clamp_id {v lo hi : Int} (h1 : lo ≤ v) (h2 : v ≤ hi) : clamp v lo hi = v := by
  unfold clamp; repeat' split
  all_goals omega

theorem fneg_small {a : Int} (h0 : 0 ≤ a) (h1 : a ≤ 65536) : fneg a = -a := by
  unfold fneg wrapI32; simp only []; split <;> omega

/-! ### the three branches of `normalize` after the first clamp -/

/-- the un-clamped middle value of `normalize` as a function of the clamped coordinate `v`. -/
def core (minV defV maxV' v : Int) : Int :=
  if v < defV then fneg (Fixed.div (satSub defV v) (satSub defV minV))
  else if v > defV then Fixed.div (satSub v defV) (satSub maxV' defV)
  else 0

theorem normalize_eq (minV defV maxV value : Int) :
    normalize minV defV maxV value =
      clamp (core minV defV (if maxV < minV then minV else maxV)
        (clamp value minV (if maxV < minV then minV else maxV))) (-65536) 65536 := by
  unfold normalize core; rfl

theorem core_below {minV defV maxV' v : Int} (h1 : minV ≤ v) (h2 : v < defV) :
    core minV defV maxV' v = -(divQ (satSub defV v) (satSub defV minV)) ∧
    0 ≤ divQ (satSub defV v) (satSub defV minV) ∧ divQ (satSub defV v) (satSub defV minV) ≤ 65536 := by
  have hp : 0 < satSub defV minV := satSub_pos (by omega)
  have ha : 0 ≤ satSub defV v := satSub_nonneg (by omega)
  have hab : satSub defV v ≤ satSub defV minV := satSub_anti_right h1
  have hlt := satSub_lt (a := defV) (b := minV) (by omega)
  have hr := divQ_range ha hab hp
  refine ⟨?_, hr⟩
  unfold core
  simp only [h2, if_true]
  rw [div_eq_divQ ha hab hp hlt, fneg_small hr.1 hr.2]

theorem core_above {minV defV maxV' v : Int} (h1 : v ≤ maxV') (h2 : defV < v) :
    core minV defV maxV' v = divQ (satSub v defV) (satSub maxV' defV) ∧
    0 ≤ divQ (satSub v defV) (satSub maxV' defV) ∧ divQ (satSub v defV) (satSub maxV' defV) ≤ 65536 := by
  have hp : 0 < satSub maxV' defV := satSub_pos (by omega)
  have ha : 0 ≤ satSub v defV := satSub_nonneg (by omega)
  have hab : satSub v defV ≤ satSub maxV' defV := satSub_mono_left h1
  have hlt := satSub_lt (a := maxV') (b := defV) (by omega)
  have hr := divQ_range ha hab hp
  refine ⟨?_, hr⟩
  unfold core
  have e1 : ¬ v < defV := by omega
  have e2 : v > defV := by omega
  simp only [e1, e2, if_false, if_true]
  rw [div_eq_divQ ha hab hp hlt]

theorem core_eq {minV defV maxV' : Int} : core minV defV maxV' defV = 0 := by
  unfold core; simp

/-- `core` is non-decreasing on `[minV, maxV']` and stays in `[-ONE, ONE]` there. -/
theorem core_range {minV defV maxV' v : Int} (h1 : minV ≤ v) (h2 : v ≤ maxV') :
    -65536 ≤ core minV defV maxV' v ∧ core minV defV maxV' v ≤ 65536 := by
  by_cases hlt : v < defV
  · have := core_below (maxV' := maxV') h1 hlt; omega
  · by_cases hgt : defV < v
    · have := core_above (minV := minV) h2 hgt; omega
    · have : v = defV := by omega
      subst this; rw [core_eq]; omega

theorem core_mono {minV defV maxV' v v' : Int} (h1 : minV ≤ v) (h : v ≤ v') (h2 : v' ≤ maxV') :
    core minV defV maxV' v ≤ core minV defV maxV' v' := by
  by_cases hlt : v < defV
  · have hb := core_below (maxV' := maxV') h1 hlt
    by_cases hlt' : v' < defV
    · have hb' := core_below (maxV' := maxV') (by omega : minV ≤ v') hlt'
      have hp : 0 < satSub defV minV := satSub_pos (by omega)
      have := divQ_mono hp (satSub_anti_right (a := defV) h)
      omega
    · by_cases hgt' : defV < v'
      · have := core_above (minV := minV) h2 hgt'; omega
      · have : v' = defV := by omega
        subst this; rw [core_eq]; omega
  · by_cases hgt : defV < v
    · have ha := core_above (minV := minV) (by omega : v ≤ maxV') hgt
      have ha' := core_above (minV := minV) h2 (by omega : defV < v')
      have hp : 0 < satSub maxV' defV := satSub_pos (by omega)
      have := divQ_mono hp (satSub_mono_left (b := defV) h)
      omega
    · have : v = defV := by omega
      subst this; rw [core_eq]
      by_cases hgt' : v < v'
      · have := core_above (minV := minV) h2 hgt'; omega
      · have : v' = v := by omega
        subst this; rw [core_eq]; omega

/-! ### `Fixed::to_f2dot14` on `[-ONE, ONE]` -/

theorem toF2Dot14_small {a : Int} (h0 : -65536 ≤ a) (h1 : a ≤ 65536) :
    Fixed.toF2Dot14 a = (a + 2) / 4 := by
  unfold Fixed.toF2Dot14 wrapI16 wrapI32; simp only []
  split <;> split <;> omega

/-! ### `Fixed.mulDiv` with a signed first operand (avar interpolation) -/

/-- magnitude-rounded quotient of `mul_div` for `a ≥ 0`, `b > 0`. -/
def mdQ (s a b : Int) : Int :=
  if s < 0 then -(((-s) * a + b / 2) / b) else (s * a + b / 2) / b

theorem mulDiv_signed {s a b : Int} (hs0 : -262144 ≤ s) (hs1 : s ≤ 262144) (ha : 0 ≤ a)
    (hab : a ≤ b) (hb : 0 < b) (hb1 : b ≤ 262144) : Fixed.mulDiv s a b = mdQ s a b := by
  unfold mdQ
  by_cases hs : s < 0
  · -- |s| * a
    have hp0 : 0 ≤ (-s) * a := Int.mul_nonneg (by omega) ha
    have hp1 : (-s) * a ≤ (-s) * b := Int.mul_le_mul_of_nonneg_left hab (by omega)
    have hp2 : (-s) * b ≤ 262144 * b := Int.mul_le_mul_of_nonneg_right (by omega) (by omega)
    have hq0 : 0 ≤ ((-s) * a + b / 2) / b := Int.ediv_nonneg (by omega) (by omega)
    have hq1 : ((-s) * a + b / 2) / b ≤ 262144 := by
      have : (-s) * a + b / 2 < (262144 + 1) * b := by
        have : (262144 + 1) * b = 262144 * b + b := by rw [Int.add_mul]; omega
        omega
      have := Int.ediv_lt_of_lt_mul hb this
      omega
    unfold Fixed.mulDiv iabs
    have e1 : (s < 0) = True := by simp; omega
    have e2 : (a < 0) = False := by simp; omega
    have e3 : (b < 0) = False := by simp; omega
    simp only [e1, e2, e3, if_false, if_true]
    generalize (-s) * a = p at *
    have w1 : wrapU64 p = p := by unfold wrapU64; omega
    rw [w1]
    have w2 : wrapU64 (p + b / 2) = p + b / 2 := by unfold wrapU64; omega
    rw [w2]
    simp only [hb, if_true]
    generalize (p + b / 2) / b = q at *
    simp
    have w3 : wrapI32 q = q := by unfold wrapI32; simp only []; split <;> omega
    rw [w3]
    unfold wrapI32; simp only []; split <;> omega
  · have hp0 : 0 ≤ s * a := Int.mul_nonneg (by omega) ha
    have hp1 : s * a ≤ s * b := Int.mul_le_mul_of_nonneg_left hab (by omega)
    have hp2 : s * b ≤ 262144 * b := Int.mul_le_mul_of_nonneg_right (by omega) (by omega)
    have hq1 : (s * a + b / 2) / b ≤ 262144 := by
      have : s * a + b / 2 < (262144 + 1) * b := by
        have : (262144 + 1) * b = 262144 * b + b := by rw [Int.add_mul]; omega
        omega
      have := Int.ediv_lt_of_lt_mul hb this
      omega
    simp only [hs, if_false]
    exact Tent.mulDiv_nonneg (by omega) ha hb (by omega) (by omega)

/-- `mdQ` is the exact quotient `s·a / b` rounded to nearest, ties away from zero. -/
theorem mdQ_isRHA {s a b : Int} (ha : 0 ≤ a) (hb : 0 < b) : IsRHA (s * a) b (mdQ s a b) := by
  unfold mdQ
  by_cases hs : s < 0
  · simp only [hs, if_true]
    have h := isRHA_neg hb (isRHA_formula (p := (-s) * a) (Int.mul_nonneg (by omega) ha) hb)
    have e : -(-s * a) = s * a := by rw [Int.neg_mul]; omega
    rw [e] at h
    exact h
  · simp only [hs, if_false]
    exact isRHA_formula (Int.mul_nonneg (by omega) ha) hb

/-- the interpolated offset lies between 0 and `s` (so the result lies between the two `to`s). -/
theorem mdQ_between {s a b : Int} (ha : 0 ≤ a) (hab : a ≤ b) (hb : 0 < b) :
    (0 ≤ s → 0 ≤ mdQ s a b ∧ mdQ s a b ≤ s) ∧ (s < 0 → s ≤ mdQ s a b ∧ mdQ s a b ≤ 0) := by
  have key : ∀ t : Int, 0 ≤ t → 0 ≤ (t * a + b / 2) / b ∧ (t * a + b / 2) / b ≤ t := by
    intro t ht
    have hp0 : 0 ≤ t * a := Int.mul_nonneg ht ha
    have hp1 : t * a ≤ t * b := Int.mul_le_mul_of_nonneg_left hab ht
    constructor
    · exact Int.ediv_nonneg (by omega) (by omega)
    · have : t * a + b / 2 < (t + 1) * b := by
        have : (t + 1) * b = t * b + b := by rw [Int.add_mul]; omega
        omega
      have := Int.ediv_lt_of_lt_mul hb this
      omega
  unfold mdQ
  constructor
  · intro hs
    have e : ¬ s < 0 := by omega
    simp only [e, if_false]
    exact key s hs
  · intro hs
    simp only [hs, if_true]
    have := key (-s) (by omega)
    omega

theorem mdQ_mono {s a a' b : Int} (hs : 0 ≤ s) (h : a ≤ a') (hb : 0 < b) :
    mdQ s a b ≤ mdQ s a' b := by
  unfold mdQ
  have e : ¬ s < 0 := by omega
  simp only [e, if_false]
  have : s * a ≤ s * a' := Int.mul_le_mul_of_nonneg_left h hs
  exact Int.ediv_le_ediv hb (by omega)

theorem mdQ_full {s b : Int} (hb : 0 < b) : mdQ s b b = s := by
  unfold mdQ
  split
  · have h : -s * b + b / 2 = b / 2 + b * (-s) := by rw [Int.mul_comm]; omega
    rw [h, Int.add_mul_ediv_left _ _ (by omega : b ≠ 0)]
    have : b / 2 / b = 0 := Int.ediv_eq_zero_of_lt (by omega) (by omega)
    omega
  · have h : s * b + b / 2 = b / 2 + b * s := by rw [Int.mul_comm]; omega
    rw [h, Int.add_mul_ediv_left _ _ (by omega : b ≠ 0)]
    have : b / 2 / b = 0 := Int.ediv_eq_zero_of_lt (by omega) (by omega)
    omega

/-! ### one interpolation step of `SegmentMaps::apply` -/


/-- the `Greater` arm for `i > 0`. -/
def interp (pf pt f t c : Int) : Int :=
  fadd pt (Fixed.mulDiv (fsub t pt) (fsub c pf) (fsub f pf))

theorem fsub_small {a b : Int} (ha : Tent.inF a) (hb : Tent.inF b) : fsub a b = a - b := by
  unfold Tent.inF at *; unfold fsub; apply Tent.wrapI32_id; unfold inI32; omega

theorem interp_eq {pf pt f t c : Int} (hpf : Tent.inF pf) (hpt : Tent.inF pt) (hf : Tent.inF f) (ht : Tent.inF t)
    (hc : Tent.inF c) (h1 : pf ≤ c) (h2 : c ≤ f) (h3 : pf < f) :
    interp pf pt f t c = pt + mdQ (t - pt) (c - pf) (f - pf) := by
  unfold interp
  rw [fsub_small ht hpt, fsub_small hc hpf, fsub_small hf hpf]
  have hb := mdQ_between (s := t - pt) (a := c - pf) (b := f - pf) (by omega) (by omega) (by omega)
  unfold Tent.inF at *
  rw [mulDiv_signed (by omega) (by omega) (by omega) (by omega) (by omega) (by omega)]
  unfold fadd; apply Tent.wrapI32_id; unfold inI32
  by_cases hs : 0 ≤ t - pt
  · have := hb.1 hs; omega
  · have := hb.2 (by omega); omega

/-- all `(from, to)` records are `F2Dot14::to_fixed` values. -/
def MapsF (maps : List (Int × Int)) : Prop := ∀ m ∈ maps, Tent.inF m.1 ∧ Tent.inF m.2

/-- `from` strictly increasing along `prev :: maps`. -/
def FromsInc : Int → List (Int × Int) → Prop
  | _, [] => True
  | pf, (f, _) :: rest => pf < f ∧ FromsInc f rest

/-- `to` non-decreasing along `prev :: maps`. -/
def TosMono : Int → List (Int × Int) → Prop
  | _, [] => True
  | pt, (_, t) :: rest => pt ≤ t ∧ TosMono t rest

/-- last `from` / `to` of `prev :: maps`. -/
def lastFrom : Int → List (Int × Int) → Int
  | pf, [] => pf
  | _, (f, _) :: rest => lastFrom f rest
def lastTo : Int → List (Int × Int) → Int
  | pt, [] => pt
  | _, (_, t) :: rest => lastTo t rest

theorem lastFrom_ge {pf : Int} {maps : List (Int × Int)} (h : FromsInc pf maps) :
    pf ≤ lastFrom pf maps := by
  induction maps generalizing pf with
  | nil => simp [lastFrom]
  | cons m rest ih =>
    obtain ⟨f, t⟩ := m
    have := ih h.2
    simp only [lastFrom]; have := h.1; omega

theorem lastTo_ge {pt : Int} {maps : List (Int × Int)} (h : TosMono pt maps) :
    pt ≤ lastTo pt maps := by
  induction maps generalizing pt with
  | nil => simp [lastTo]
  | cons m rest ih =>
    obtain ⟨f, t⟩ := m
    have := ih h.2
    simp only [lastTo]; have := h.1; omega

/-- coordinates past the last `from` fall off the end of the loop: identity. -/
theorem applyGo_beyond {c : Int} {maps : List (Int × Int)} :
    ∀ (prev : Int × Int) (first : Bool), (∀ m ∈ maps, m.1 < c) → applyGo c prev first maps = c := by
  induction maps with
  | nil => intro prev first _; simp [applyGo]
  | cons m rest ih =>
    intro prev first h
    obtain ⟨f, t⟩ := m
    have hf : f < c := h (f, t) (by simp)
    simp only [applyGo]
    have e1 : ¬ f = c := by omega
    have e2 : ¬ f > c := by omega
    simp only [e1, e2, if_false]
    exact ih (f, t) false (fun m hm => h m (by simp [hm]))

/-- bounds: inside `(prev.from, last from]` the result lies in `[prev.to, last to]`
(sorted `from`s, non-decreasing `to`s). -/
theorem applyGo_bounds {c : Int} (hc : Tent.inF c) {maps : List (Int × Int)} :
    ∀ (pf pt : Int), Tent.inF pf → Tent.inF pt → MapsF maps → FromsInc pf maps → TosMono pt maps →
      pf < c → c ≤ lastFrom pf maps →
      pt ≤ applyGo c (pf, pt) false maps ∧ applyGo c (pf, pt) false maps ≤ lastTo pt maps := by
  induction maps with
  | nil => intro pf pt _ _ _ _ _ h1 h2; simp [lastFrom] at h2; omega
  | cons m rest ih =>
    intro pf pt hpf hpt hm hfi htm h1 h2
    obtain ⟨f, t⟩ := m
    have hft : Tent.inF f ∧ Tent.inF t := hm (f, t) (by simp)
    have hl := lastTo_ge htm.2
    simp only [applyGo, lastTo]
    by_cases e1 : f = c
    · simp only [e1, if_true]; have := htm.1; omega
    · by_cases e2 : f > c
      · simp only [e1, e2, if_false, if_true]
        have hi := interp_eq hpf hpt hft.1 hft.2 hc (by omega) (by omega) hfi.1
        unfold interp at hi
        simp only [Bool.false_eq_true, if_false]
        rw [hi]
        have hb := (mdQ_between (s := t - pt) (a := c - pf) (b := f - pf) (by omega) (by omega)
          (by have := hfi.1; omega)).1 (by have := htm.1; omega)
        have := htm.1
        omega
      · simp only [e1, e2, if_false]
        have := ih f t hft.1 hft.2 (fun m hm' => hm m (by simp [hm'])) hfi.2 htm.2 (by omega)
          (by simpa [lastFrom] using h2)
        have := htm.1
        omega

/-- monotone: `prev.from < c₁ ≤ c₂ ≤ last from`. -/
theorem applyGo_mono {c1 c2 : Int} (hc1 : Tent.inF c1) (hc2 : Tent.inF c2) (h12 : c1 ≤ c2)
    {maps : List (Int × Int)} :
    ∀ (pf pt : Int), Tent.inF pf → Tent.inF pt → MapsF maps → FromsInc pf maps → TosMono pt maps →
      pf < c1 → c2 ≤ lastFrom pf maps →
      applyGo c1 (pf, pt) false maps ≤ applyGo c2 (pf, pt) false maps := by
  induction maps with
  | nil => intro pf pt _ _ _ _ _ h1 h2; simp [lastFrom] at h2; omega
  | cons m rest ih =>
    intro pf pt hpf hpt hm hfi htm h1 h2
    obtain ⟨f, t⟩ := m
    have hft : Tent.inF f ∧ Tent.inF t := hm (f, t) (by simp)
    have hrest : MapsF rest := fun m hm' => hm m (by simp [hm'])
    have hpos : 0 < f - pf := by have := hfi.1; omega
    have hst : 0 ≤ t - pt := by have := htm.1; omega
    -- value at a coordinate strictly inside the first segment
    have hin : ∀ c, Tent.inF c → pf < c → c < f →
        applyGo c (pf, pt) false ((f, t) :: rest) = pt + mdQ (t - pt) (c - pf) (f - pf) := by
      intro c hc h1 h2
      have e1 : ¬ f = c := by omega
      have e2 : f > c := by omega
      simp only [applyGo, e1, e2, if_false, if_true, Bool.false_eq_true]
      have hi := interp_eq hpf hpt hft.1 hft.2 hc (by omega) (by omega) hfi.1
      unfold interp at hi
      exact hi
    have hat : applyGo f (pf, pt) false ((f, t) :: rest) = t := by simp [applyGo]
    have hpast : ∀ c, f < c →
        applyGo c (pf, pt) false ((f, t) :: rest) = applyGo c (f, t) false rest := by
      intro c h
      have e1 : ¬ f = c := by omega
      have e2 : ¬ f > c := by omega
      simp only [applyGo, e1, e2, if_false]
    by_cases a2 : c2 < f
    · -- both inside the first segment
      rw [hin c1 hc1 h1 (by omega), hin c2 hc2 (by omega) a2]
      have := mdQ_mono (s := t - pt) (a := c1 - pf) (a' := c2 - pf) (b := f - pf) hst
        (by omega) hpos
      omega
    · by_cases b2 : c2 = f
      · subst b2
        rw [hat]
        by_cases a1 : c1 < c2
        · rw [hin c1 hc1 h1 a1]
          have := (mdQ_between (s := t - pt) (a := c1 - pf) (b := c2 - pf) (by omega) (by omega)
            hpos).1 hst
          omega
        · have : c1 = c2 := by omega
          subst this; rw [hat]; omega
      · have g2 : f < c2 := by omega
        rw [hpast c2 g2]
        have hb2 := applyGo_bounds hc2 f t hft.1 hft.2 hrest hfi.2 htm.2 g2
          (by simpa [lastFrom] using h2)
        by_cases a1 : c1 < f
        · rw [hin c1 hc1 h1 a1]
          have := (mdQ_between (s := t - pt) (a := c1 - pf) (b := f - pf) (by omega) (by omega)
            hpos).1 hst
          omega
        · by_cases b1 : c1 = f
          · subst b1; rw [hat]; omega
          · have g1 : f < c1 := by omega
            rw [hpast c1 g1]
            exact ih f t hft.1 hft.2 hrest hfi.2 htm.2 g1 (by simpa [lastFrom] using h2)

/-- hitting a map point: if every earlier `from` is smaller, `apply(from_i) = to_i`. -/
theorem applyGo_hit {maps : List (Int × Int)} :
    ∀ (prev : Int × Int) (first : Bool) (i : Nat) (m : Int × Int), maps[i]? = some m →
      (∀ j, j < i → ∀ m', maps[j]? = some m' → m'.1 < m.1) →
      applyGo m.1 prev first maps = m.2 := by
  induction maps with
  | nil => intro prev first i m h; simp at h
  | cons m0 rest ih =>
    intro prev first i m hget hlt
    obtain ⟨f, t⟩ := m0
    cases i with
    | zero =>
      simp at hget; subst hget
      simp [applyGo]
    | succ k =>
      have h0 := hlt 0 (by omega) (f, t) (by simp)
      have e1 : ¬ f = m.1 := by simp at h0; omega
      have e2 : ¬ f > m.1 := by simp at h0; omega
      simp only [applyGo, e1, e2, if_false]
      apply ih (f, t) false k m (by simpa using hget)
      intro j hj m' hm'
      exact hlt (j + 1) (by omega) m' (by simpa using hm')

/-- strictly between two consecutive points whose predecessors all lie below the coordinate,
`apply` returns the `Greater`-arm interpolation between exactly those two points. -/
theorem applyGo_interp {c : Int} {maps : List (Int × Int)} :
    ∀ (prev : Int × Int) (first : Bool) (i : Nat) (a b : Int × Int), maps[i]? = some a →
      maps[i + 1]? = some b → (∀ j, j ≤ i → ∀ m', maps[j]? = some m' → m'.1 < c) → c < b.1 →
      applyGo c prev first maps = interp a.1 a.2 b.1 b.2 c := by
  induction maps with
  | nil => intro prev first i a b h; simp at h
  | cons m0 rest ih =>
    intro prev first i a b ha hb hlt hcb
    obtain ⟨f, t⟩ := m0
    have h0 := hlt 0 (by omega) (f, t) (by simp)
    have e1 : ¬ f = c := by simp at h0; omega
    have e2 : ¬ f > c := by simp at h0; omega
    simp only [applyGo, e1, e2, if_false]
    cases i with
    | zero =>
      simp at ha; subst ha
      cases rest with
      | nil => simp at hb
      | cons m1 rest' =>
        simp at hb; subst hb
        obtain ⟨f1, t1⟩ := m1
        have e3 : ¬ f1 = c := by simp at hcb; omega
        have e4 : f1 > c := by simp at hcb; omega
        simp only [applyGo, e3, e4, if_false, if_true, Bool.false_eq_true, interp]
    | succ k =>
      apply ih (f, t) false k a b (by simpa using ha) (by simpa using hb)
      · intro j hj m' hm'
        exact hlt (j + 1) (by omega) m' (by simpa using hm')
      · exact hcb

/-! ### from `F2Dot14` records (as stored in avar) to the `Fixed` chain predicates -/

/-- `F2Dot14::to_fixed` applied to both members of every record (as `avarApply` does). -/
def scaled (maps : List (Int × Int)) : List (Int × Int) :=
  maps.map fun m => (Fixed.f2dot14ToFixed m.1, Fixed.f2dot14ToFixed m.2)

/-- record `a` precedes record `b` in a valid, monotone segment map. -/
def Before (a b : Int × Int) : Prop := a.1 < b.1 ∧ a.2 ≤ b.2

theorem scaled_mapsF {maps : List (Int × Int)} (h : ∀ m ∈ maps, inI16 m.1 ∧ inI16 m.2) :
    MapsF (scaled maps) := by
  intro m hm
  unfold scaled at hm
  simp only [List.mem_map] at hm
  obtain ⟨m0, hm0, rfl⟩ := hm
  exact ⟨Tent.inF_of_f2dot14 (h m0 hm0).1, Tent.inF_of_f2dot14 (h m0 hm0).2⟩

theorem chain_of_pairwise {maps : List (Int × Int)} :
    ∀ (m0 : Int × Int), (m0 :: maps).Pairwise Before →
      FromsInc (Fixed.f2dot14ToFixed m0.1) (scaled maps) ∧
      TosMono (Fixed.f2dot14ToFixed m0.2) (scaled maps) := by
  induction maps with
  | nil => intro m0 _; simp [scaled, FromsInc, TosMono]
  | cons m1 rest ih =>
    intro m0 h
    have h' := List.pairwise_cons.mp h
    have h01 : Before m0 m1 := h'.1 m1 (by simp)
    have := ih m1 h'.2
    unfold Before at h01
    simp only [scaled, List.map_cons, FromsInc, TosMono, Fixed.f2dot14ToFixed]
    simp only [scaled, Fixed.f2dot14ToFixed] at this
    exact ⟨⟨by omega, this.1⟩, ⟨by omega, this.2⟩⟩

theorem mem_le_lastFrom {maps : List (Int × Int)} :
    ∀ (pf : Int), FromsInc pf maps → ∀ m ∈ maps, m.1 ≤ lastFrom pf maps := by
  induction maps with
  | nil => intro pf _ m hm; simp at hm
  | cons m1 rest ih =>
    intro pf h m hm
    obtain ⟨f, t⟩ := m1
    simp only [lastFrom]
    rcases List.mem_cons.mp hm with rfl | hm'
    · exact lastFrom_ge h.2
    · exact ih f h.2 m hm'

theorem avarApply_nil (c : Int) : avarApply [] c = c := by simp [avarApply, applyGo]

/-- value of `avarApply` at and after the first map point. -/
theorem avarApply_cons {f0 t0 : Int} {rest : List (Int × Int)} {c : Int}
    (h : Fixed.f2dot14ToFixed f0 ≤ c) :
    avarApply ((f0, t0) :: rest) c =
      if Fixed.f2dot14ToFixed f0 = c then Fixed.f2dot14ToFixed t0
      else applyGo c (Fixed.f2dot14ToFixed f0, Fixed.f2dot14ToFixed t0) false (scaled rest) := by
  unfold avarApply scaled
  simp only [List.map_cons, applyGo]
  have e2 : ¬ Fixed.f2dot14ToFixed f0 > c := by omega
  simp only [e2, if_false]

/-- before the first map point the loop returns the coordinate unchanged (`i == 0` arm). -/
theorem avarApply_before_first {f0 t0 : Int} {rest : List (Int × Int)} {c : Int}
    (h : c < Fixed.f2dot14ToFixed f0) : avarApply ((f0, t0) :: rest) c = c := by
  unfold avarApply
  simp only [List.map_cons, applyGo]
  have e1 : ¬ Fixed.f2dot14ToFixed f0 = c := by omega
  have e2 : Fixed.f2dot14ToFixed f0 > c := by omega
  simp only [e1, e2, if_false, if_true]

/-- monotonicity and range of `avarApply` between the first and the last map point. -/
theorem avarApply_mono_core {maps : List (Int × Int)} (hok : ∀ m ∈ maps, inI16 m.1 ∧ inI16 m.2)
    (hs : maps.Pairwise Before) {c1 c2 : Int} (h12 : c1 ≤ c2)
    (hlo : ∃ m ∈ maps, Fixed.f2dot14ToFixed m.1 ≤ c1)
    (hhi : ∃ m ∈ maps, c2 ≤ Fixed.f2dot14ToFixed m.1) :
    avarApply maps c1 ≤ avarApply maps c2 := by
  cases maps with
  | nil => obtain ⟨m, hm, _⟩ := hlo; simp at hm
  | cons m0 rest =>
    obtain ⟨f0, t0⟩ := m0
    have hch : FromsInc (Fixed.f2dot14ToFixed f0) (scaled rest) ∧
        TosMono (Fixed.f2dot14ToFixed t0) (scaled rest) := chain_of_pairwise (f0, t0) hs
    have hp := List.pairwise_cons.mp hs
    have hF0 : Tent.inF (Fixed.f2dot14ToFixed f0) := Tent.inF_of_f2dot14 (hok (f0, t0) (by simp)).1
    have hT0 : Tent.inF (Fixed.f2dot14ToFixed t0) := Tent.inF_of_f2dot14 (hok (f0, t0) (by simp)).2
    have hMF : MapsF (scaled rest) := scaled_mapsF (fun m hm => hok m (by simp [hm]))
    -- c1 is at or after the first point
    have hlo' : Fixed.f2dot14ToFixed f0 ≤ c1 := by
      obtain ⟨m, hm, hle⟩ := hlo
      rcases List.mem_cons.mp hm with rfl | hm'
      · exact hle
      · have := (hp.1 m hm').1
        unfold Fixed.f2dot14ToFixed at *; simp at this; omega
    -- c2 is at or before the last point
    have hhi' : c2 ≤ lastFrom (Fixed.f2dot14ToFixed f0) (scaled rest) := by
      obtain ⟨m, hm, hle⟩ := hhi
      rcases List.mem_cons.mp hm with rfl | hm'
      · have := lastFrom_ge hch.1; simp at hle; omega
      · have hmem : (Fixed.f2dot14ToFixed m.1, Fixed.f2dot14ToFixed m.2) ∈ scaled rest := by
          unfold scaled; exact List.mem_map.mpr ⟨m, hm', rfl⟩
        have := mem_le_lastFrom _ hch.1 _ hmem
        simp at this; omega
    have hlast : Tent.inF (lastFrom (Fixed.f2dot14ToFixed f0) (scaled rest)) := by
      clear hhi' hlo' hlo hhi
      have : ∀ (l : List (Int × Int)) (pf : Int), Tent.inF pf → MapsF l → Tent.inF (lastFrom pf l) := by
        intro l
        induction l with
        | nil => intro pf h _; simpa [lastFrom] using h
        | cons m r ih =>
          intro pf _ hm
          obtain ⟨f, t⟩ := m
          simp only [lastFrom]
          exact ih f (hm (f, t) (by simp)).1 (fun m hm' => hm m (by simp [hm']))
      exact this _ _ hF0 hMF
    have hc1 : Tent.inF c1 := by unfold Tent.inF at *; omega
    have hc2 : Tent.inF c2 := by unfold Tent.inF at *; omega
    rw [avarApply_cons hlo', avarApply_cons (by omega : Fixed.f2dot14ToFixed f0 ≤ c2)]
    by_cases a1 : Fixed.f2dot14ToFixed f0 = c1
    · simp only [a1, if_true]
      by_cases a2 : c1 = c2
      · simp [a2]
      · have e : ¬ Fixed.f2dot14ToFixed f0 = c2 := by omega
        simp only [← a1, e, if_false]
        exact (applyGo_bounds hc2 _ _ hF0 hT0 hMF hch.1 hch.2 (by omega) hhi').1
    · have e : ¬ Fixed.f2dot14ToFixed f0 = c2 := by omega
      simp only [a1, e, if_false]
      exact applyGo_mono hc1 hc2 h12 _ _ hF0 hT0 hMF hch.1 hch.2 (by omega) hhi'

/-- between the first and last map points the result lies between the first and last `to`. -/
theorem avarApply_range_core {maps : List (Int × Int)} (hok : ∀ m ∈ maps, inI16 m.1 ∧ inI16 m.2)
    (hs : maps.Pairwise Before) {lo hi : Int × Int} (hlo : lo ∈ maps) (hhi : hi ∈ maps) {c : Int}
    (h1 : Fixed.f2dot14ToFixed lo.1 ≤ c) (h2 : c ≤ Fixed.f2dot14ToFixed hi.1)
    (hitLo : avarApply maps (Fixed.f2dot14ToFixed lo.1) = Fixed.f2dot14ToFixed lo.2)
    (hitHi : avarApply maps (Fixed.f2dot14ToFixed hi.1) = Fixed.f2dot14ToFixed hi.2) :
    Fixed.f2dot14ToFixed lo.2 ≤ avarApply maps c ∧ avarApply maps c ≤ Fixed.f2dot14ToFixed hi.2 := by
  constructor
  · rw [← hitLo]
    exact avarApply_mono_core hok hs h1 ⟨lo, hlo, by omega⟩ ⟨hi, hhi, h2⟩
  · rw [← hitHi]
    exact avarApply_mono_core hok hs h2 ⟨lo, hlo, h1⟩ ⟨hi, hhi, by omega⟩

/-- index-free hit: in a strictly sorted map every record's `from` maps to its `to`. -/
theorem avarApply_hit_mem {maps : List (Int × Int)} (hs : maps.Pairwise (fun a b => a.1 < b.1))
    {m : Int × Int} (hm : m ∈ maps) :
    avarApply maps (Fixed.f2dot14ToFixed m.1) = Fixed.f2dot14ToFixed m.2 := by
  obtain ⟨i, hi, hget⟩ := List.getElem_of_mem hm
  have hget' : (scaled maps)[i]? = some (Fixed.f2dot14ToFixed m.1, Fixed.f2dot14ToFixed m.2) := by
    unfold scaled
    rw [List.getElem?_map, List.getElem?_eq_getElem hi, hget]; rfl
  unfold avarApply
  refine applyGo_hit (maps := scaled maps) (0, 0) true i _ hget' ?_
  intro j hj m' hm'
  unfold scaled at hm'
  rw [List.getElem?_map] at hm'
  have hjl : j < maps.length := by omega
  rw [List.getElem?_eq_getElem hjl] at hm'
  simp at hm'
  subst hm'
  have := List.pairwise_iff_getElem.mp hs j i hjl hi hj
  rw [hget] at this
  simp only [Fixed.f2dot14ToFixed]; omega

end FontVerif.Normalize
