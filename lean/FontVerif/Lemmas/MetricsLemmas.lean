/-
Helper lemmas for C11 (metric lookup, DeltaSetIndexMap entries).
-/
import FontVerif.Model.Metrics
import FontVerif.Model.Tent
import FontVerif.Lemmas.IvsLemmas
namespace FontVerif.Metrics
open FontVerif

/-- `Fixed::from_i32(d)` = `(d as i16 as i32) << 16`: only the low 16 bits of `d` survive. -/
theorem fromI32_eq (d : Int) : Fixed.fromI32 d = wrapI16 d * 65536 := by
  unfold Fixed.fromI32 wrapI32 wrapI16
  simp only []
  split <;> split <;> omega

theorem deltaInt_eq (d : Int) : deltaInt d = wrapI16 d := by
  unfold deltaInt
  rw [fromI32_eq]
  exact Int.mul_tdiv_cancel _ (by decide)

theorem wrapI16_id {d : Int} (h : inI16 d) : wrapI16 d = d := by
  unfold inI16 at h; unfold wrapI16; simp only []; split <;> omega

end FontVerif.Metrics

namespace FontVerif.Tent
open FontVerif

theorem beValue_beBytes (n v : Nat) (hn : n = 1 ∨ n = 2 ∨ n = 3 ∨ n = 4) (hv : v < 256 ^ n) :
    beValue (beBytes n v) = v := by
  rcases hn with rfl | rfl | rfl | rfl
  · simp [beBytes, beValue, List.range_succ] at *; omega
  · simp [beBytes, beValue, List.range_succ] at *; omega
  · simp [beBytes, beValue, List.range_succ] at *; omega
  · simp [beBytes, beValue, List.range_succ] at *; omega

theorem beBytes_length (n v : Nat) : (beBytes n v).length = n := by simp [beBytes]

/-- reading entry `idx` of a packed map. -/
theorem dsimGet_packed (es bc : Nat) (hes : es = 1 ∨ es = 2 ∨ es = 3 ∨ es = 4) (hbc1 : 1 ≤ bc)
    (hbc2 : bc ≤ 16) (entries : List (Nat × Nat))
    (hfit : ∀ e ∈ entries, e.2 < 2 ^ bc ∧ e.1 < 65536 ∧ e.1 * 2 ^ bc + e.2 < 256 ^ es)
    (index : Nat) (hne : 0 < entries.length) :
    dsimGet ((es - 1) * 16 + (bc - 1)) entries.length
      (entries.flatMap fun e => beBytes es (e.1 * 2 ^ bc + e.2)) index =
      entries[min index (entries.length - 1)]? := by
  unfold dsimGet
  dsimp only
  have hidx : min index (entries.length - 1) < entries.length := by omega
  generalize min index (entries.length - 1) = idx at *
  have e1 : ((es - 1) * 16 + (bc - 1)) / 16 % 4 + 1 = es := by rcases hes with rfl | rfl | rfl | rfl <;> omega
  have e2 : ((es - 1) * 16 + (bc - 1)) % 16 + 1 = bc := by omega
  rw [e1, e2]
  have hL : ∀ e ∈ entries, (beBytes es (e.1 * 2 ^ bc + e.2)).length = es := fun e _ => beBytes_length _ _
  have hlen := Ivs.flatMap_uniform_length (fun e : Nat × Nat => beBytes es (e.1 * 2 ^ bc + e.2)) es entries hL
  have hle : idx * es + es ≤ (entries.flatMap fun e => beBytes es (e.1 * 2 ^ bc + e.2)).length := by
    rw [hlen]
    have : (idx + 1) * es ≤ entries.length * es := Nat.mul_le_mul_right _ (by omega)
    rw [Nat.add_mul] at this
    rw [Nat.mul_comm es]; omega
  simp only [hle, if_true]
  have hdrop := Ivs.flatMap_uniform_drop (fun e : Nat × Nat => beBytes es (e.1 * 2 ^ bc + e.2)) es entries idx hidx hL
  rw [Nat.mul_comm idx es, hdrop]
  have htake : ((beBytes es (entries[idx].1 * 2 ^ bc + entries[idx].2)) ++
      (entries.drop (idx + 1)).flatMap fun e => beBytes es (e.1 * 2 ^ bc + e.2)).take es =
      beBytes es (entries[idx].1 * 2 ^ bc + entries[idx].2) := by
    rw [List.take_left' (beBytes_length _ _)]
  simp only [htake]
  have hf := hfit entries[idx] (List.getElem_mem hidx)
  rw [beValue_beBytes es _ hes hf.2.2, List.getElem?_eq_getElem hidx]
  have hp : 0 < 2 ^ bc := Nat.pos_of_ne_zero (by simp)
  have h1 : (entries[idx].1 * 2 ^ bc + entries[idx].2) / 2 ^ bc = entries[idx].1 := by
    rw [Nat.add_comm, Nat.add_mul_div_right _ _ hp, Nat.div_eq_of_lt hf.1]; omega
  have h2 : (entries[idx].1 * 2 ^ bc + entries[idx].2) % 2 ^ bc = entries[idx].2 := by
    rw [Nat.add_comm, Nat.add_mul_mod_self_right, Nat.mod_eq_of_lt hf.1]
  have h3 : 2 ^ bc ≤ 2 ^ 16 := Nat.pow_le_pow_right (by omega) hbc2
  rw [h1, h2, Nat.mod_eq_of_lt hf.2.1, Nat.mod_eq_of_lt (by omega : entries[idx].2 < 65536)]

end FontVerif.Tent
