/- helper lemmas for Props/C03Load.lean (glyph loader: skrifa = FreeType) -/
import FontVerif.Lemmas.VecEq
import FontVerif.Model.HintLoad
import FontVerif.Model.FtLoad
set_option linter.unusedVariables false
set_option linter.unusedSimpArgs false
set_option maxRecDepth 8000
namespace FontVerif.C03
open FontVerif FontVerif.Tt

/-- a 16.16 product of operands bounded by `A` and `B` (with `A·B ≤ 2^46`): the two multiplies agree and
the result is bounded by `A·B/2^16 + 1`. -/
theorem fixmul_bound {a b A B : Int} (ha : -A ≤ a ∧ a ≤ A) (hb : -B ≤ b ∧ b ≤ B)
    (hA : A ≤ 2147483647) (hB : B ≤ 2147483647) (hAB : A * B ≤ 70368744177664) :
    Fixed.mul a b = FtCalc.mulFix a b ∧
    -(A * B / 65536 + 1) ≤ FtCalc.mulFix a b ∧ FtCalc.mulFix a b ≤ A * B / 65536 + 1 := by
  have hm := mul_abs_bound ha hb
  have e := mulfix_eq a b (by unfold inI32; omega) (by unfold inI32; omega)
  refine ⟨e, ?_⟩
  unfold FtCalc.mulFix FtCalc.mulFixX8664
  have ea : wrapI32 a = a := wI32 (by omega) (by omega)
  have eb : wrapI32 b = b := wI32 (by omega) (by omega)
  simp only [ea, eb]
  generalize a * b = p at hm ⊢
  generalize A * B = M at hm hAB ⊢
  have hq : -(M / 65536 + 1) ≤ (p + (32768 + if p < 0 then -1 else 0)) / 65536 ∧
      (p + (32768 + if p < 0 then -1 else 0)) / 65536 ≤ M / 65536 + 1 := by split <;> omega
  rw [wI32 (by omega) (by omega)]
  exact hq

/-- `F26Dot6::round` = `FT_PIX_ROUND` away from the i32 boundary. -/
theorem rnd_eq (a : Int) (h : -2147483648 ≤ a ∧ a < 2147483616) : HintLoad.rnd a = FtLoad.pixRound a := by
  unfold HintLoad.rnd FtLoad.pixRound
  rw [wI32 (by omega) (by omega)]

theorem fixmul_zero (b : Int) : Fixed.mul 0 b = 0 ∧ FtCalc.mulFix 0 b = 0 := by
  unfold Fixed.mul FtCalc.mulFix FtCalc.mulFixX8664
  simp only [Int.zero_mul, show wrapI32 0 = 0 from by decide]
  constructor <;> decide

theorem mapM_congr_map {α β : Type} (f g : α → β) : ∀ l : List α, (∀ x ∈ l, f x = g x) → l.map f = l.map g := by
  intro l h; exact List.map_congr_left h

end FontVerif.C03
