/- C14 / concrete BitSet::process, Step 1 (forward scan: page-count estimate + moving the kept map
entries to the front) and small list facts. -/
import FontVerif.Lemmas.IntSetConcMerge
set_option linter.unusedVariables false
set_option linter.unusedSimpArgs false
namespace FontVerif.IntSet

theorem getD_set_ne {α : Type} (l : List α) (i j : Nat) (x d : α) (h : i ≠ j) :
    (l.set i x).getD j d = l.getD j d := by
  simp [List.getD_eq_getElem?_getD, List.getElem?_set, h]

theorem getD_set_self {α : Type} (l : List α) (i : Nat) (x d : α) (h : i < l.length) :
    (l.set i x).getD i d = x := by
  simp [List.getD_eq_getElem?_getD, List.getElem?_set, h]

theorem getD_eq_getElem {α : Type} (l : List α) (i : Nat) (d : α) (h : i < l.length) :
    l.getD i d = l[i] := by
  simp [List.getD_eq_getElem?_getD, h]

theorem drop_eq_getD_cons {α : Type} (l : List α) (i : Nat) (d : α) (h : i < l.length) :
    l.drop i = l.getD i d :: l.drop (i + 1) := by
  rw [getD_eq_getElem l i d h]; exact List.drop_eq_getElem_cons h

theorem take_succ_eq_getD {α : Type} (l : List α) (i : Nat) (d : α) (h : i < l.length) :
    l.take (i + 1) = l.take i ++ [l.getD i d] := by
  rw [List.take_add_one, getD_eq_getElem l i d h]; simp [h]

theorem take_succ_set {α : Type} (l : List α) (w : Nat) (x : α) (h : w < l.length) :
    (l.set w x).take (w + 1) = l.take w ++ [x] := by
  rw [List.take_add_one, List.take_set_of_le (Nat.le_refl w)]
  simp [List.getElem?_set, h]

/-- the left map entries whose major also occurs on the right (two-pointer scan) -/
def keptLeft : PMap → PMap → PMap
  | [], _ => []
  | _ :: _, [] => []
  | a :: as, b :: bs =>
    if a.1 = b.1 then a :: keptLeft as bs
    else if a.1 < b.1 then keptLeft as (b :: bs)
    else keptLeft (a :: as) bs
termination_by as bs => as.length + bs.length
decreasing_by all_goals simp_wf <;> omega

/-- the page-count estimate of Step 1 as a function of the remaining map entries -/
def estCount (ptl ptr : Bool) : PMap → PMap → Nat
  | [], bs => if ptr then bs.length else 0
  | a :: as, [] => if ptl then (a :: as).length else 0
  | a :: as, b :: bs =>
    if a.1 = b.1 then 1 + estCount ptl ptr as bs
    else if a.1 < b.1 then (if ptl then 1 else 0) + estCount ptl ptr as (b :: bs)
    else (if ptr then 1 else 0) + estCount ptl ptr (a :: as) bs
termination_by as bs => as.length + bs.length
decreasing_by all_goals simp_wf <;> omega

theorem keptLeft_nil_right (as : PMap) : keptLeft as [] = [] := by
  cases as <;> simp [keptLeft]

theorem estCount_nil_right (ptl ptr : Bool) (as : PMap) :
    estCount ptl ptr as [] = if ptl then as.length else 0 := by
  cases as <;> simp [estCount]

theorem estCount_nil_left (ptl ptr : Bool) (bs : PMap) :
    estCount ptl ptr [] bs = if ptr then bs.length else 0 := by
  simp [estCount]

theorem keptLeft_subset (as bs : PMap) : ∀ x ∈ keptLeft as bs, x ∈ as := by
  fun_induction keptLeft as bs with
  | case1 bs => simp
  | case2 a as => simp
  | case3 a as b bs h ih =>
    intro x hx
    simp only [List.mem_cons] at hx ⊢
    rcases hx with rfl | hx
    · exact Or.inl rfl
    · exact Or.inr (ih x hx)
  | case4 a as b bs h1 h2 ih =>
    intro x hx; exact List.mem_cons_of_mem _ (ih x hx)
  | case5 a as b bs h1 h2 ih => exact ih

theorem keptLeft_sublist (as bs : PMap) : (keptLeft as bs).Sublist as := by
  fun_induction keptLeft as bs with
  | case1 bs => simp
  | case2 a as => simp
  | case3 a as b bs h ih => exact ih.cons_cons a
  | case4 a as b bs h1 h2 ih => exact ih.cons a
  | case5 a as b bs h1 h2 ih => exact ih

/-- every kept entry has a partner on the right -/
theorem keptLeft_matched (as bs : PMap) : ∀ x ∈ keptLeft as bs, ∃ y ∈ bs, x.1 = y.1 := by
  fun_induction keptLeft as bs with
  | case1 bs => simp
  | case2 a as => simp
  | case3 a as b bs h ih =>
    intro x hx
    simp only [List.mem_cons] at hx
    rcases hx with rfl | hx
    · exact ⟨b, by simp, h⟩
    · obtain ⟨y, hy, hxy⟩ := ih x hx
      exact ⟨y, by simp [hy], hxy⟩
  | case4 a as b bs h1 h2 ih => exact ih
  | case5 a as b bs h1 h2 ih =>
    intro x hx
    obtain ⟨y, hy, hxy⟩ := ih x hx
    exact ⟨y, by simp [hy], hxy⟩

theorem estCount_eq_length (cop : CPage → CPage → CPage) (ptl ptr : Bool) (as bs : PMap)
    (pa pb : List CPage) :
    estCount ptl ptr as bs = (cmerge cop ptl ptr (cview as pa) (cview bs pb)).length := by
  fun_induction estCount ptl ptr as bs with
  | case1 bs hp => simp [cview, cmerge_nil_left, hp]
  | case2 bs hp => simp [cview, cmerge_nil_left, hp]
  | case3 a as hp => simp [cview, cmerge_nil_right, hp]
  | case4 a as hp => simp [cview, cmerge_nil_right, hp]
  | case5 a as b bs h ih =>
    simp only [cview, List.map_cons] at ih ⊢
    rw [cmerge]; simp [h, ih]; omega
  | case6 a as b bs h1 h2 ih =>
    simp only [cview, List.map_cons] at ih ⊢
    rw [cmerge]; simp only [h1, h2, if_true, if_false, List.length_append, ih]
    cases ptl <;> simp
  | case7 a as b bs h1 h2 ih =>
    simp only [cview, List.map_cons] at ih ⊢
    rw [cmerge]; simp only [h1, h2, if_true, if_false, List.length_append, ih]
    cases ptr <;> simp

theorem keptLeft_length_le (ptr : Bool) (as bs : PMap) :
    (keptLeft as bs).length ≤ estCount false ptr as bs := by
  fun_induction keptLeft as bs with
  | case1 bs => simp
  | case2 a as => simp
  | case3 a as b bs h ih => rw [estCount]; simp [h]; omega
  | case4 a as b bs h1 h2 ih => rw [estCount]; simp [h1, h2]; omega
  | case5 a as b bs h1 h2 ih => rw [estCount]; simp [h1, h2]; omega

/-- with the left side not passed through, the merge only sees the kept entries -/
theorem cmerge_kept (cop : CPage → CPage → CPage) (ptr : Bool) (as bs : PMap) (pa pb : List CPage)
    (hs : (as.map (·.1)).Pairwise (· < ·)) :
    cmerge cop false ptr (cview as pa) (cview bs pb) =
      cmerge cop false ptr (cview (keptLeft as bs) pa) (cview bs pb) := by
  fun_induction keptLeft as bs with
  | case1 bs => rfl
  | case2 a as => simp [cview, cmerge_nil_right]
  | case3 a as b bs h ih =>
    have hs' := hs
    simp only [List.map_cons, List.pairwise_cons] at hs'
    simp only [cview, List.map_cons] at ih ⊢
    rw [cmerge, cmerge]; simp only [h, if_true]
    rw [ih hs'.2]
  | case4 a as b bs h1 h2 ih =>
    have hs' := hs
    simp only [List.map_cons, List.pairwise_cons] at hs'
    simp only [cview, List.map_cons] at ih ⊢
    rw [cmerge]; simp only [h1, h2, if_true, if_false]
    simpa using ih hs'.2
  | case5 a as b bs h1 h2 ih =>
    have hs' := hs
    simp only [List.map_cons, List.pairwise_cons] at hs'
    have hgt : b.1 < a.1 := by omega
    have hk : KLt [(b.1, pb.getD b.2 CPage.zero)] (cview (keptLeft (a :: as) bs) pa) := by
      intro x hx y hy
      simp only [List.mem_singleton] at hx
      subst hx
      simp only [cview, List.mem_map] at hy
      obtain ⟨e, he, rfl⟩ := hy
      have := keptLeft_subset _ _ e he
      simp only [List.mem_cons] at this
      rcases this with rfl | this
      · exact hgt
      · have := hs'.1 e.1 (List.mem_map_of_mem this)
        simp only; omega
    have := cmerge_right_prefix cop false ptr (cview (keptLeft (a :: as) bs) pa)
      [(b.1, pb.getD b.2 CPage.zero)] (cview bs pb) hk
    simp only [cview, List.map_cons] at ih this ⊢
    rw [show ((b.1, pb.getD b.2 CPage.zero) :: List.map (fun e => (e.1, pb.getD e.2 CPage.zero)) bs) =
      [(b.1, pb.getD b.2 CPage.zero)] ++ List.map (fun e => (e.1, pb.getD e.2 CPage.zero)) bs from rfl, this]
    rw [List.singleton_append, cmerge]
    simp only [h1, h2, if_false]
    rw [ih hs]

/-- Step 1: the estimate is exact, a passed-through left side leaves the map alone, otherwise the
kept entries end up (in order) at the front of the map. -/
theorem step1_spec (ptl ptr : Bool) (omap : PMap) (lenA lenB : Nat) (hB : omap.length = lenB) :
    ∀ (n : Nat) (pm : PMap) (idxA idxB count w : Nat),
      (lenA - idxA) + (lenB - idxB) ≤ n → pm.length = lenA → w ≤ idxA →
      let r := processStep1 ptl ptr omap lenA lenB pm idxA idxB count w
      r.pm.length = lenA ∧
      r.count + (if ptl then lenA - r.idxA else 0) + (if ptr then lenB - r.idxB else 0) =
        count + estCount ptl ptr (pm.drop idxA) (omap.drop idxB) ∧
      (ptl = true → r.pm = pm) ∧
      (ptl = false → r.pm.take r.writeIdx = pm.take w ++ keptLeft (pm.drop idxA) (omap.drop idxB) ∧
        r.writeIdx = w + (keptLeft (pm.drop idxA) (omap.drop idxB)).length) := by
  intro n
  induction n with
  | zero =>
    intro pm idxA idxB count w hn hA hw
    have h1 : lenA ≤ idxA := by omega
    have h2 : lenB ≤ idxB := by omega
    rw [processStep1]
    have hc : ¬ (idxA < lenA ∧ idxB < lenB) := by omega
    simp only [hc, if_false]
    have hd1 : pm.drop idxA = [] := List.drop_eq_nil_of_le (by omega)
    have hd2 : omap.drop idxB = [] := List.drop_eq_nil_of_le (by omega)
    simp only [hd1, hd2, estCount_nil_left, keptLeft]
    refine ⟨hA, ?_, fun _ => by first | rfl | trivial, fun _ => ⟨by simp, by simp⟩⟩
    cases ptl <;> cases ptr <;> simp <;> omega
  | succ n ih =>
    intro pm idxA idxB count w hn hA hw
    rw [processStep1]
    by_cases hc : idxA < lenA ∧ idxB < lenB
    · simp only [hc, and_self, if_true]
      have hdA := drop_eq_getD_cons pm idxA (0, 0) (by omega)
      have hdB := drop_eq_getD_cons omap idxB (0, 0) (by omega)
      rw [hdA, hdB]
      generalize ha : pm.getD idxA (0, 0) = a at *
      generalize hb : omap.getD idxB (0, 0) = b at *
      by_cases heq : a.1 = b.1
      · simp only [heq, if_true]
        rw [estCount, keptLeft]
        simp only [heq, if_true]
        cases ptl with
        | true =>
          simp only [Bool.not_true, Bool.false_eq_true, if_false]
          have := ih pm (idxA + 1) (idxB + 1) (count + 1) w (by omega) hA (by omega)
          simp only at this
          refine ⟨this.1, ?_, this.2.2.1, fun h => by simp at h⟩
          rw [this.2.1]; omega
        | false =>
          simp only [Bool.not_false, if_true]
          have hlen : (if w < idxA then pm.set w a else pm).length = lenA := by
            split <;> simp [hA]
          have := ih (if w < idxA then pm.set w a else pm) (idxA + 1) (idxB + 1) (count + 1) (w + 1)
            (by omega) hlen (by omega)
          simp only at this
          have hdrop : (if w < idxA then pm.set w a else pm).drop (idxA + 1) = pm.drop (idxA + 1) := by
            split
            · exact List.drop_set_of_lt (by omega)
            · rfl
          have htake : (if w < idxA then pm.set w a else pm).take (w + 1) = pm.take w ++ [a] := by
            split
            · exact take_succ_set pm w a (by omega)
            · have : w = idxA := by omega
              subst this
              rw [take_succ_eq_getD pm w (0, 0) (by omega), ha]
          rw [hdrop] at this
          refine ⟨this.1, ?_, fun h => by simp at h, fun _ => ?_⟩
          · rw [this.2.1]; omega
          · have h3 := this.2.2.2 (by first | rfl | trivial)
            rw [htake] at h3
            refine ⟨by rw [h3.1]; simp, by rw [h3.2]; simp; omega⟩
      · simp only [heq, if_false]
        by_cases hlt : a.1 < b.1
        · simp only [hlt, if_true]
          rw [estCount, keptLeft]
          simp only [heq, hlt, if_true, if_false]
          have := ih pm (idxA + 1) idxB (count + (if ptl then 1 else 0)) w (by omega) hA (by omega)
          simp only at this
          rw [hdB] at this
          refine ⟨this.1, ?_, this.2.2.1, this.2.2.2⟩
          rw [this.2.1]; omega
        · simp only [hlt, if_false]
          rw [estCount, keptLeft]
          simp only [heq, hlt, if_false]
          have := ih pm idxA (idxB + 1) (count + (if ptr then 1 else 0)) w (by omega) hA (by omega)
          simp only at this
          rw [hdA] at this
          refine ⟨this.1, ?_, this.2.2.1, this.2.2.2⟩
          rw [this.2.1]; omega
    · simp only [hc, if_false]
      refine ⟨hA, ?_, fun _ => by first | rfl | trivial, fun _ => ?_⟩
      · by_cases h1 : idxA < lenA
        · have h2 : lenB ≤ idxB := by omega
          have hd2 : omap.drop idxB = [] := List.drop_eq_nil_of_le (by omega)
          rw [hd2, estCount_nil_right]
          simp only [List.length_drop, hA]
          cases ptl <;> cases ptr <;> simp <;> omega
        · have hd1 : pm.drop idxA = [] := List.drop_eq_nil_of_le (by omega)
          rw [hd1, estCount_nil_left]
          simp only [List.length_drop, hB]
          cases ptl <;> cases ptr <;> simp <;> omega
      · by_cases h1 : idxA < lenA
        · have h2 : lenB ≤ idxB := by omega
          have hd2 : omap.drop idxB = [] := List.drop_eq_nil_of_le (by omega)
          rw [hd2, keptLeft_nil_right]; simp
        · have hd1 : pm.drop idxA = [] := List.drop_eq_nil_of_le (by omega)
          rw [hd1]; simp [keptLeft]

end FontVerif.IntSet
