/-
C13 helper lemmas: exact visit count of a chain of nested PaintGlyph tables (DESIGN §6-7:
every nested PaintGlyph defeats its parent's fill optimiser, so each level walks its subtree twice).
-/
import FontVerif.Model.Paint
import FontVerif.Lemmas.Paint
set_option linter.unusedVariables false
namespace FontVerif.Paint

/-- the painter on top of the stack has given up optimising -/
def failTop : List Opt → List Opt
  | [] => []
  | o :: rest => { o with success := false } :: rest

theorem failTop_idem (l : List Opt) : failTop (failTop l) = failTop l := by
  cases l <;> rfl

theorem sendL_nil_evs (c : Client) (opts : List Opt) : sendL c opts [] = (opts, []) := by
  induction opts with
  | nil => rfl
  | cons o rest ih => simp [sendL, optCalls, ih]

theorem emit_pushClipGlyph_opts (c : Client) (g : Gid) (st : St) :
    (emit c (.pushClipGlyph g) st).opts = failTop st.opts := by
  simp only [emit]
  cases st.opts with
  | nil => rfl
  | cons o rest => simp [sendL, optCalls, optPrim, sendL_nil_evs, failTop]

theorem emit_popClip_opts (c : Client) (st : St) :
    (emit c .popClip st).opts = failTop st.opts := by
  simp only [emit]
  cases st.opts with
  | nil => rfl
  | cons o rest => simp [sendL, optCalls, optPrim, sendL_nil_evs, failTop]

theorem emit_fill_top (c : Client) (b : Brush) (st : St) (o : Opt) (rest : List Opt) (h : st.opts = o :: rest)
    (hs : o.success = true) (ht : o.bt = none) :
    (emit c (.fill b) st).opts = o :: failTop rest := by
  simp only [emit, h]
  cases rest with
  | nil => simp [sendL, optCalls, optPrim, hs, failTop]
  | cons o' r' =>
    simp [sendL, optCalls, optPrim, optPrims, expandFillGlyph, hs, ht, sendL_nil_evs, failTop]

theorem chain_resolve_last (d i : Nat) (h : i = d) : (glyphChain d).resolve i = some (.leaf (some [])) := by
  subst h; simp [glyphChain]

theorem chain_resolve_inner (d i : Nat) (h : i < d) : (glyphChain d).resolve i = some (.glyph 0 (i + 1)) := by
  simp [glyphChain, h]

/-- painting the `PaintGlyph` that has `j+1` PaintGlyph levels (itself included) above the solid:
succeeds, visits exactly `chainVisits (j+1)` nodes, and makes the enclosing optimiser give up -/
theorem chain_step (d : Nat) (c : Client) (j : Nat) :
    ∀ i, i + (j + 1) = d → ∀ fuel, j + 2 ≤ fuel → ∀ (dec : List PaintId) (st : St),
      (trav (glyphChain d) c fuel (.glyph 0 (i + 1)) dec st).1 = none ∧
      (trav (glyphChain d) c fuel (.glyph 0 (i + 1)) dec st).2.visits = st.visits + chainVisits (j + 1) ∧
      (trav (glyphChain d) c fuel (.glyph 0 (i + 1)) dec st).2.opts = failTop st.opts := by
  induction j with
  | zero =>
    intro i hi fuel hf dec st
    obtain ⟨f, rfl⟩ : ∃ f, fuel = f + 2 := ⟨fuel - 2, by omega⟩
    have hres := chain_resolve_last d (i + 1) (by omega)
    simp only [trav, arm, hres, bump]
    have hopts := emit_fill_top c []
      { opts := { success := true, bt := none, gid := 0 } :: st.opts, evs := st.evs,
        visits := st.visits + 1 + 1 } { success := true, bt := none, gid := 0 } st.opts rfl rfl rfl
    split
    · rename_i heq; rw [hopts] at heq; cases heq
    · rename_i o rest heq
      rw [hopts] at heq
      cases heq
      simp [emit_visits, chainVisits]
  | succ j ih =>
    intro i hi fuel hf dec st
    obtain ⟨f, rfl⟩ : ∃ f, fuel = f + 1 := ⟨fuel - 1, by omega⟩
    have hres := chain_resolve_inner d (i + 1) (by omega)
    simp only [trav, arm, hres]
    have h1 := ih (i + 1) (by omega) f (by omega) dec
      { opts := { success := true, bt := none, gid := 0 } :: (bump st).opts, evs := (bump st).evs,
        visits := (bump st).visits }
    generalize trav (glyphChain d) c f (.glyph 0 (i + 1 + 1)) dec
      { opts := { success := true, bt := none, gid := 0 } :: (bump st).opts, evs := (bump st).evs,
        visits := (bump st).visits } = r1 at h1 ⊢
    obtain ⟨h1a, h1v, h1o⟩ := h1
    simp only [failTop] at h1o
    split
    · rename_i heq; rw [h1o] at heq; cases heq
    · rename_i o rest heq
      rw [h1o] at heq
      cases heq
      simp only [Bool.false_eq_true, if_false]
      have h2 := ih (i + 1) (by omega) f (by omega) dec
        (emit c (.pushClipGlyph 0) { opts := (bump st).opts, evs := r1.2.evs, visits := r1.2.visits })
      generalize trav (glyphChain d) c f (.glyph 0 (i + 1 + 1)) dec
        (emit c (.pushClipGlyph 0) { opts := (bump st).opts, evs := r1.2.evs, visits := r1.2.visits }) = r2 at h2 ⊢
      obtain ⟨h2a, h2v, h2o⟩ := h2
      refine ⟨h2a, ?_, ?_⟩
      · simp only [emit_visits] at h2v ⊢
        rw [h2v, h1v]
        simp only [bump, chainVisits]
        omega
      · rw [emit_popClip_opts, h2o, emit_pushClipGlyph_opts]
        simp only [bump, failTop_idem]

/-- closed form: `chainVisits d = 3·2^(d-1) − 1` for `d ≥ 1` -/
theorem chainVisits_closed (j : Nat) : chainVisits (j + 1) + 1 = 3 * 2 ^ j := by
  induction j with
  | zero => rfl
  | succ j ih =>
    simp only [chainVisits, Nat.pow_succ]
    omega

/-! ### the shared-child `PaintComposite` DAG -/

theorem comp_resolve_inner (d i : Nat) (h : i < d) :
    (compDag d).resolve i = some (.composite (i + 1) 0 (i + 1)) := by
  simp [compDag, h]

theorem comp_resolve_last (d : Nat) : (compDag d).resolve d = some (.leaf (some [])) := by
  simp [compDag]

/-- painting paint `i` of `compDag d` (`j = d - i` composites above the solid) succeeds and visits exactly
`compVisits j` nodes: both children of every composite are traversed in full -/
theorem comp_step (d : Nat) (c : Client) (j : Nat) :
    ∀ i, i + j = d → ∀ fuel, j + 1 ≤ fuel → ∀ n, (compDag d).resolve i = some n →
      ∀ (dec : List PaintId) (st : St),
      (trav (compDag d) c fuel n dec st).1 = none ∧
      (trav (compDag d) c fuel n dec st).2.visits = st.visits + compVisits j := by
  induction j with
  | zero =>
    intro i hi fuel hf n hn dec st
    obtain ⟨f, rfl⟩ : ∃ f, fuel = f + 1 := ⟨fuel - 1, by omega⟩
    have : i = d := by omega
    subst this
    rw [comp_resolve_last] at hn
    cases hn
    simp [trav, arm, bump, emit_visits, compVisits]
  | succ j ih =>
    intro i hi fuel hf n hn dec st
    obtain ⟨f, rfl⟩ : ∃ f, fuel = f + 1 := ⟨fuel - 1, by omega⟩
    rw [comp_resolve_inner d i (by omega)] at hn
    cases hn
    have hres : (compDag d).resolve (i + 1) = if i + 1 < d then some (.composite (i + 1 + 1) 0 (i + 1 + 1))
        else some (.leaf (some [])) := by
      by_cases h : i + 1 < d
      · simp [compDag, h]
      · have : i + 1 = d := by omega
        simp [compDag, this]
    generalize hm : (if i + 1 < d then some (Node.composite (i + 1 + 1) 0 (i + 1 + 1))
        else some (Node.leaf (some []))) = mo at hres
    have hsome : ∃ m, mo = some m := by
      rw [← hm]; split <;> exact ⟨_, rfl⟩
    obtain ⟨m, rfl⟩ := hsome
    simp only [trav, arm, hres]
    have h1 := ih (i + 1) (by omega) f (by omega) m hres dec (emit c (.pushLayer SRC_OVER) (bump st))
    generalize trav (compDag d) c f m dec (emit c (.pushLayer SRC_OVER) (bump st)) = r1 at h1 ⊢
    obtain ⟨h1a, h1v⟩ := h1
    simp only [h1a]
    have h2 := ih (i + 1) (by omega) f (by omega) m hres dec (emit c (.pushLayer 0) r1.2)
    generalize trav (compDag d) c f m dec (emit c (.pushLayer 0) r1.2) = r2 at h2 ⊢
    obtain ⟨h2a, h2v⟩ := h2
    refine ⟨h2a, ?_⟩
    simp only [emit_visits] at h1v h2v ⊢
    rw [h2v, h1v]
    simp only [bump, compVisits]
    omega

/-- closed form: `compVisits j = 2^(j+1) − 1` -/
theorem compVisits_closed (j : Nat) : compVisits j + 1 = 2 ^ (j + 1) := by
  induction j with
  | zero => rfl
  | succ j ih =>
    simp only [compVisits, Nat.pow_succ] at ih ⊢
    omega

/-- closed form of the visit bound: `(1 + k + … + k^(f-1))·(k − 1) + 1 = k^f` -/
theorem geom_closed (k : Nat) (hk : 1 ≤ k) (f : Nat) : geom k f * (k - 1) + 1 = k ^ f := by
  induction f with
  | zero => simp [geom]
  | succ f ih =>
    obtain ⟨q, rfl⟩ : ∃ q, k = q + 1 := ⟨k - 1, by omega⟩
    simp only [geom, Nat.add_sub_cancel, Nat.pow_succ] at ih ⊢
    rw [← ih]
    generalize geom (q + 1) f = G
    have e1 : (1 + (q + 1) * G) * q = q + (q * (G * q) + G * q) := by
      rw [Nat.add_mul, Nat.one_mul, Nat.mul_assoc, Nat.add_mul, Nat.one_mul]
    have e2 : (G * q + 1) * (q + 1) = q * (G * q) + G * q + q + 1 := by
      rw [Nat.add_mul, Nat.mul_add, Nat.mul_one, Nat.one_mul, Nat.mul_comm (G * q) q]; omega
    rw [e1, e2]; omega

end FontVerif.Paint
