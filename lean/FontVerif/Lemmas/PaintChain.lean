/-
C13 helper lemmas: exact visit count of a chain of nested PaintGlyph tables (DESIGN §6-7:
every nested PaintGlyph defeats its parent's fill optimiser, so each level walks its subtree twice).
-/
import FontVerif.Model.Paint
import FontVerif.Lemmas.Paint
set_option linter.unusedVariables false
namespace FontVerif.Paint

/-- the painter on top of the stack has given up optimising -/
def failTop : List Opt → List Opt
  | [] => []
  | o :: rest => { o with success := false } :: rest

theorem failTop_idem (l : List Opt) : failTop (failTop l) = failTop l := by
  cases l <;> rfl

theorem sendL_nil_evs (c : Client) (opts : List Opt) : sendL c opts [] = (opts, []) := by
  induction opts with
  | nil => rfl
  | cons o rest ih => simp [sendL, optCalls, ih]

theorem emit_pushClipGlyph_opts (c : Client) (g : Gid) (st : St) :
    (emit c (.pushClipGlyph g) st).opts = failTop st.opts := by
  simp only [emit]
  cases st.opts with
  | nil => rfl
  | cons o rest => simp [sendL, optCalls, optPrim, sendL_nil_evs, failTop]

theorem emit_popClip_opts (c : Client) (st : St) :
    (emit c .popClip st).opts = failTop st.opts := by
  simp only [emit]
  cases st.opts with
  | nil => rfl
  | cons o rest => simp [sendL, optCalls, optPrim, sendL_nil_evs, failTop]

theorem emit_fill_top (c : Client) (b : Brush) (st : St) (o : Opt) (rest : List Opt) (h : st.opts = o :: rest)
    (hs : o.success = true) (ht : o.bt = none) :
    (emit c (.fill b) st).opts = o :: failTop rest := by
  simp only [emit, h]
  cases rest with
  | nil => simp [sendL, optCalls, optPrim, hs, failTop]
  | cons o' r' =>
    simp [sendL, optCalls, optPrim, optPrims, expandFillGlyph, hs, ht, sendL_nil_evs, failTop]

theorem chain_resolve_last (d i : Nat) (h : i = d) : (glyphChain d).resolve i = some (.leaf (some [])) := by
  subst h; simp [glyphChain]

theorem chain_resolve_inner (d i : Nat) (h : i < d) : (glyphChain d).resolve i = some (.glyph 0 (i + 1)) := by
  simp [glyphChain, h]

/-- painting the `PaintGlyph` that has `j+1` PaintGlyph levels (itself included) above the solid:
succeeds, visits exactly `chainVisits (j+1)` nodes, and makes the enclosing optimiser give up -/
theorem chain_step (d : Nat) (c : Client) (j : Nat) :
    ∀ i, i + (j + 1) = d → ∀ fuel, j + 2 ≤ fuel → ∀ (dec : List PaintId) (st : St),
      (trav (glyphChain d) c fuel (.glyph 0 (i + 1)) dec st).1 = none ∧
      (trav (glyphChain d) c fuel (.glyph 0 (i + 1)) dec st).2.visits = st.visits + chainVisits (j + 1) ∧
      (trav (glyphChain d) c fuel (.glyph 0 (i + 1)) dec st).2.opts = failTop st.opts := by
  induction j with
  | zero =>
    intro i hi fuel hf dec st
    obtain ⟨f, rfl⟩ : ∃ f, fuel = f + 2 := ⟨fuel - 2, by omega⟩
    have hres := chain_resolve_last d (i + 1) (by omega)
    simp only [trav, arm, hres, bump]
    have hopts := emit_fill_top c []
      { opts := { success := true, bt := none, gid := 0 } :: st.opts, evs := st.evs,
        visits := st.visits + 1 + 1 } { success := true, bt := none, gid := 0 } st.opts rfl rfl rfl
    split
    · rename_i heq; rw [hopts] at heq; cases heq
    · rename_i o rest heq
      rw [hopts] at heq
      cases heq
      simp [emit_visits, chainVisits]
  | succ j ih =>
    intro i hi fuel hf dec st
    obtain ⟨f, rfl⟩ : ∃ f, fuel = f + 1 := ⟨fuel - 1, by omega⟩
    have hres := chain_resolve_inner d (i + 1) (by omega)
    simp only [trav, arm, hres]
    have h1 := ih (i + 1) (by omega) f (by omega) dec
      { opts := { success := true, bt := none, gid := 0 } :: (bump st).opts, evs := (bump st).evs,
        visits := (bump st).visits }
    generalize trav (glyphChain d) c f (.glyph 0 (i + 1 + 1)) dec
      { opts := { success := true, bt := none, gid := 0 } :: (bump st).opts, evs := (bump st).evs,
        visits := (bump st).visits } = r1 at h1 ⊢
    obtain ⟨h1a, h1v, h1o⟩ := h1
    simp only [failTop] at h1o
    split
    · rename_i heq; rw [h1o] at heq; cases heq
    · rename_i o rest heq
      rw [h1o] at heq
      cases heq
      simp only [Bool.false_eq_true, if_false]
      have h2 := ih (i + 1) (by omega) f (by omega) dec
        (emit c (.pushClipGlyph 0) { opts := (bump st).opts, evs := r1.2.evs, visits := r1.2.visits })
      generalize trav (glyphChain d) c f (.glyph 0 (i + 1 + 1)) dec
        (emit c (.pushClipGlyph 0) { opts := (bump st).opts, evs := r1.2.evs, visits := r1.2.visits }) = r2 at h2 ⊢
      obtain ⟨h2a, h2v, h2o⟩ := h2
      refine ⟨h2a, ?_, ?_⟩
      · simp only [emit_visits] at h2v ⊢
        rw [h2v, h1v]
        simp only [bump, chainVisits]
        omega
      · rw [emit_popClip_opts, h2o, emit_pushClipGlyph_opts]
        simp only [bump, failTop_idem]

/-- closed form: `chainVisits d = 3·2^(d-1) − 1` for `d ≥ 1` -/
theorem chainVisits_closed (j : Nat) : chainVisits (j + 1) + 1 = 3 * 2 ^ j := by
  induction j with
  | zero => rfl
  | succ j ih =>
    simp only [chainVisits, Nat.pow_succ]
    omega

end FontVerif.Paint
