/-
Specification-side definitions for the multi-axis tent scalar (C11): the exact rational
`Π_i n_i / d_i` of the per-axis tent factors, as a list of (numerator, denominator) pairs.
-/
import FontVerif.Model.Tent
import FontVerif.Lemmas.TentLemmas
namespace FontVerif.Tent
open FontVerif

/-- the OpenType per-axis factors of a region at a location, in 16.16 units: `none` when the
location is outside the support on some non-ignored axis (scalar 0); otherwise one
`(numerator, denominator)` pair for every axis that is neither ignored nor sitting at its peak:
`(c − start, peak − start)` on the rising leg, `(end − c, end − peak)` on the falling leg. -/
def tentFactors : List (Int × Int × Int) → List Int → Option (List (Int × Int))
  | [], _ => some []
  | (s, p, e) :: rest, coords =>
    let c := Fixed.f2dot14ToFixed (coords.headD 0)
    let S := Fixed.f2dot14ToFixed s
    let P := Fixed.f2dot14ToFixed p
    let E := Fixed.f2dot14ToFixed e
    if Ignored S P E then tentFactors rest coords.tail
    else if c < S ∨ c > E then none
    else if c = P then tentFactors rest coords.tail
    else if c < P then (tentFactors rest coords.tail).map ((c - S, P - S) :: ·)
    else (tentFactors rest coords.tail).map ((E - c, E - P) :: ·)

def prodN : List (Int × Int) → Int
  | [] => 1
  | f :: r => f.1 * prodN r
def prodD : List (Int × Int) → Int
  | [] => 1
  | f :: r => f.2 * prodD r

end FontVerif.Tent
