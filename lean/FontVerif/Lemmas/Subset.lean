/-
Helper lemmas for C17 (Model/Subset.lean).
-/
import FontVerif.Model.Subset
set_option linter.unusedVariables false
namespace FontVerif.Subset

/-! ### reachability through composite components -/

/-- `Reach comps a b`: `b` is `a` or a (transitive) component of `a`. -/
inductive Reach (comps : List (List Nat)) : Nat → Nat → Prop where
  | refl (a : Nat) : Reach comps a a
  | step {a b c : Nat} : b ∈ compsOf comps a → Reach comps b c → Reach comps a c

theorem Reach.trans {comps : List (List Nat)} {a b c : Nat} (h1 : Reach comps a b) (h2 : Reach comps b c) :
    Reach comps a c := by
  induction h1 with
  | refl => exact h2
  | step hm _ ih => exact Reach.step hm (ih h2)

/-! ### closureGo -/

theorem closureGo_unfold (comps : List (List Nat)) (rem gid : Nat) (set : List Nat) (ops : Int) :
    closureGo comps rem gid (set, ops) =
      if set.contains gid then (set, ops) else
      match rem with
      | 0 => (gid :: set, ops)
      | r + 1 =>
        if ops - 1 < 0 then (gid :: set, ops - 1) else
        (compsOf comps gid).foldl (fun st c => closureGo comps r c st) (gid :: set, ops - 1) := by
  cases rem <;> simp [closureGo]

/-- the fold over components preserves any property that each single call preserves -/
theorem foldl_closure_inv (comps : List (List Nat)) (r : Nat) (P : (List Nat × Int) → Prop)
    (hstep : ∀ c st, P st → P (closureGo comps r c st)) :
    ∀ (cs : List Nat) (st : List Nat × Int), P st →
      P (cs.foldl (fun st c => closureGo comps r c st) st) := by
  intro cs
  induction cs with
  | nil => intro st h; simpa using h
  | cons c cs ih => intro st h; simp only [List.foldl_cons]; exact ih _ (hstep c st h)

/-- the set only grows -/
theorem closureGo_mono (comps : List (List Nat)) :
    ∀ (rem gid : Nat) (st : List Nat × Int) (x : Nat), x ∈ st.1 → x ∈ (closureGo comps rem gid st).1 := by
  intro rem
  induction rem with
  | zero =>
    intro gid st x hx
    obtain ⟨set, ops⟩ := st
    rw [closureGo_unfold]
    split
    · exact hx
    · simp; exact Or.inr hx
  | succ r ih =>
    intro gid st x hx
    obtain ⟨set, ops⟩ := st
    rw [closureGo_unfold]
    split
    · exact hx
    · simp only
      split
      · simp; exact Or.inr hx
      · exact foldl_closure_inv comps r (fun st => x ∈ st.1) (fun c st h => ih c st x h) _ _
          (by simp; exact Or.inr hx)

/-- the root is always retained -/
theorem closureGo_root (comps : List (List Nat)) (rem gid : Nat) (st : List Nat × Int) :
    gid ∈ (closureGo comps rem gid st).1 := by
  obtain ⟨set, ops⟩ := st
  rw [closureGo_unfold]
  split
  · rename_i h; simpa using h
  · cases rem with
    | zero => simp
    | succ r =>
      simp only
      split
      · simp
      · exact foldl_closure_inv comps r (fun st => gid ∈ st.1)
          (fun c st h => closureGo_mono comps r c st gid h) _ _ (by simp)

/-- nothing unreachable enters the set -/
theorem closureGo_sound (comps : List (List Nat)) :
    ∀ (rem gid : Nat) (st : List Nat × Int) (x : Nat), x ∈ (closureGo comps rem gid st).1 →
      x ∈ st.1 ∨ Reach comps gid x := by
  intro rem
  induction rem with
  | zero =>
    intro gid st x hx
    obtain ⟨set, ops⟩ := st
    rw [closureGo_unfold] at hx
    split at hx
    · exact Or.inl hx
    · simp at hx
      rcases hx with rfl | hx
      · exact Or.inr (Reach.refl _)
      · exact Or.inl hx
  | succ r ih =>
    intro gid st x hx
    obtain ⟨set, ops⟩ := st
    rw [closureGo_unfold] at hx
    split at hx
    · exact Or.inl hx
    · simp only at hx
      have base : ∀ y, y ∈ (gid :: set) → y ∈ set ∨ Reach comps gid y := by
        intro y hy
        simp at hy
        rcases hy with rfl | hy
        · exact Or.inr (Reach.refl _)
        · exact Or.inl hy
      split at hx
      · exact base x hx
      · -- fold over the components, each a member of `compsOf comps gid`
        have key : ∀ (cs : List Nat), (∀ c ∈ cs, c ∈ compsOf comps gid) →
            ∀ (st : List Nat × Int), (∀ y ∈ st.1, y ∈ set ∨ Reach comps gid y) →
              ∀ y ∈ (cs.foldl (fun st c => closureGo comps r c st) st).1, y ∈ set ∨ Reach comps gid y := by
          intro cs
          induction cs with
          | nil => intro _ st h y hy; exact h y (by simpa using hy)
          | cons c cs ihc =>
            intro hmem st h y hy
            simp only [List.foldl_cons] at hy
            refine ihc (fun c' hc' => hmem c' (by simp [hc'])) _ ?_ y hy
            intro z hz
            rcases ih c st z hz with h1 | h2
            · exact h z h1
            · exact Or.inr (Reach.step (hmem c (by simp)) h2)
        exact key _ (fun c hc => hc) _ base x hx

/-! ### closureAll -/

theorem closureAll_mono (comps : List (List Nat)) (budget : Int) :
    ∀ (roots set : List Nat) (x : Nat), x ∈ set → x ∈ closureAll comps budget roots set := by
  intro roots
  induction roots with
  | nil => intro set x h; simpa [closureAll] using h
  | cons g gs ih =>
    intro set x h
    simp only [closureAll, List.foldl_cons]
    exact ih _ x (closureGo_mono comps _ g (set, budget) x h)

theorem closureAll_roots (comps : List (List Nat)) (budget : Int) :
    ∀ (roots set : List Nat) (g : Nat), g ∈ roots → g ∈ closureAll comps budget roots set := by
  intro roots
  induction roots with
  | nil => intro set g h; simp at h
  | cons r rs ih =>
    intro set g h
    simp only [closureAll, List.foldl_cons]
    simp at h
    rcases h with rfl | h
    · exact closureAll_mono comps budget rs _ g (closureGo_root comps _ g (set, budget))
    · exact ih _ g h

theorem closureAll_sound (comps : List (List Nat)) (budget : Int) :
    ∀ (roots set : List Nat) (x : Nat), x ∈ closureAll comps budget roots set →
      x ∈ set ∨ ∃ g ∈ roots, Reach comps g x := by
  intro roots
  induction roots with
  | nil => intro set x h; left; simpa [closureAll] using h
  | cons r rs ih =>
    intro set x h
    simp only [closureAll, List.foldl_cons] at h
    rcases ih _ x h with h1 | ⟨g, hg, hr⟩
    · rcases closureGo_sound comps _ r (set, budget) x h1 with h2 | h2
      · exact Or.inl h2
      · exact Or.inr ⟨r, by simp, h2⟩
    · exact Or.inr ⟨g, by simp [hg], hr⟩

/-! ### sortedBelow -/

theorem mem_sortedBelow {n : Nat} {s : List Nat} {g : Nat} : g ∈ sortedBelow n s ↔ g < n ∧ g ∈ s := by
  simp [sortedBelow]

theorem sortedBelow_pairwise (n : Nat) (s : List Nat) : (sortedBelow n s).Pairwise (· < ·) := by
  unfold sortedBelow
  exact List.Pairwise.filter _ List.pairwise_lt_range

/-! ### gidMap -/

theorem gidMap_renumber_fst (flags : Nat) (gs : List Nat) (h : hasFlag flags F_RETAIN_GIDS = false) :
    (gidMap flags gs).1.map (·.1) = List.range (gs.take 65536).length := by
  simp [gidMap, h, List.map_map, Function.comp_def, List.range_eq_range']

theorem gidMap_renumber_snd (flags : Nat) (gs : List Nat) (h : hasFlag flags F_RETAIN_GIDS = false) :
    (gidMap flags gs).1.map (·.2) = gs.take 65536 := by
  simp [gidMap, h, List.map_map, Function.comp_def]

theorem gidMap_renumber_nout (flags : Nat) (gs : List Nat) (h : hasFlag flags F_RETAIN_GIDS = false) :
    (gidMap flags gs).2 = (gs.take 65536).length := by
  simp [gidMap, h]

theorem gidMap_retain (flags : Nat) (gs : List Nat) (h : hasFlag flags F_RETAIN_GIDS = true) :
    (gidMap flags gs).1 = gs.map (fun g => (g, g)) ∧
    (gidMap flags gs).2 = (match gs.getLast? with | none => 0 | some m => m + 1) := by
  simp only [gidMap, h]
  exact ⟨rfl, rfl⟩

/-! ### lookups -/

theorem lookupNat_mem {k v : Nat} : ∀ {l : List (Nat × Nat)}, lookupNat k l = some v → (k, v) ∈ l := by
  intro l
  induction l with
  | nil => intro h; simp [lookupNat] at h
  | cons hd tl ih =>
    obtain ⟨a, b⟩ := hd
    intro h
    simp only [lookupNat] at h
    split at h
    · rename_i hab; simp at h; subst hab; subst h; simp
    · simp [ih h]

/-- with pairwise distinct keys, lookup finds exactly the listed value -/
theorem lookupNat_of_mem {k v : Nat} : ∀ {l : List (Nat × Nat)}, (l.map (·.1)).Pairwise (· ≠ ·) → (k, v) ∈ l →
    lookupNat k l = some v := by
  intro l
  induction l with
  | nil => intro _ h; simp at h
  | cons hd tl ih =>
    obtain ⟨a, b⟩ := hd
    intro hp hm
    simp only [List.map_cons, List.pairwise_cons] at hp
    simp only [lookupNat]
    simp at hm
    rcases hm with ⟨rfl, rfl⟩ | hm
    · simp
    · have hne : a ≠ k := hp.1 k (by simp; exact ⟨v, hm⟩)
      simp [hne, ih hp.2 hm]

/-! ### hmtx -/

theorem trimMetrics_le (adv : Nat → Nat) (last : Nat) : ∀ n, trimMetrics adv last n ≤ n := by
  intro n
  induction n using trimMetrics.induct adv last with
  | case1 => simp [trimMetrics]
  | case2 => simp [trimMetrics]
  | case3 n h => simp [trimMetrics, h]
  | case4 n h ih => simp [trimMetrics, h]; omega

theorem trimMetrics_pos (adv : Nat → Nat) (last : Nat) : ∀ n, 1 ≤ n → 1 ≤ trimMetrics adv last n := by
  intro n
  induction n using trimMetrics.induct adv last with
  | case1 => intro h; omega
  | case2 => intro _; simp [trimMetrics]
  | case3 n h => intro _; simp [trimMetrics, h]
  | case4 n h ih => intro _; simp [trimMetrics, h]; exact ih (by omega)

/-- every advance from the last retained long metric up to the one before the last equals `last` -/
theorem trimMetrics_tail (adv : Nat → Nat) (last : Nat) :
    ∀ n j, trimMetrics adv last n - 1 ≤ j → j + 1 < n → adv j = last := by
  intro n
  induction n using trimMetrics.induct adv last with
  | case1 => intro j _ h; omega
  | case2 => intro j _ h; omega
  | case3 n h => intro j h1 h2; simp [trimMetrics, h] at h1; omega
  | case4 n h ih =>
    intro j h1 h2
    simp [trimMetrics, h] at h1
    by_cases hj : j = n
    · subst hj; simpa using h
    · exact ih j (by omega) (by omega)


theorem pairwise_lt_le_getLast : ∀ {gs : List Nat} {g : Nat}, gs.Pairwise (· < ·) → g ∈ gs →
    ∃ m, gs.getLast? = some m ∧ g ≤ m := by
  intro gs
  induction gs with
  | nil => intro g _ h; simp at h
  | cons a tl ih =>
    intro g hp hg
    rw [List.pairwise_cons] at hp
    cases tl with
    | nil => simp at hg; subst hg; exact ⟨g, by simp, Nat.le_refl _⟩
    | cons b tl' =>
      have hl : (a :: b :: tl').getLast? = (b :: tl').getLast? := by simp [List.getLast?_cons_cons]
      rw [hl]
      simp only [List.mem_cons] at hg
      rcases hg with rfl | hg
      · obtain ⟨m, hm, hbm⟩ := ih (g := b) hp.2 (by simp)
        refine ⟨m, hm, ?_⟩
        have := hp.1 b (by simp)
        omega
      · exact ih hp.2 (by simpa using hg)

/-! ### populate_unicodes_to_retain -/

theorem unicodesToRetain_gids (p : PlanIn) (g : Nat) (hg : g ∈ p.gids) (hlt : g < p.num) :
    g ∈ (unicodesToRetain p).2 := by
  unfold unicodesToRetain
  split
  · rename_i hb
    have : p.gids = [] := by simpa using hb.1
    rw [this] at hg; simp at hg
  · simp [hg, hlt]

theorem unicodesToRetain_cmap (p : PlanIn) (hc : (p.cmap.map (·.1)).Pairwise (· ≠ ·)) (cp g : Nat)
    (hm : (cp, g) ∈ p.cmap) (hcp : cp ∈ p.unicodes) : (cp, g) ∈ (unicodesToRetain p).1 := by
  unfold unicodesToRetain
  split
  · simp only [List.mem_filterMap]
    exact ⟨cp, hcp, by simp [lookupNat_of_mem hc hm]⟩
  · simp only [List.mem_filter]
    exact ⟨hm, by simp [hcp]⟩

theorem unicodesToRetain_fst_origin (p : PlanIn) (cg : Nat × Nat) (h : cg ∈ (unicodesToRetain p).1) :
    cg ∈ p.cmap ∧ (cg.1 ∈ p.unicodes ∨ cg.2 ∈ p.gids) := by
  unfold unicodesToRetain at h
  split at h
  · simp only [List.mem_filterMap] at h
    obtain ⟨cp, hcp, hopt⟩ := h
    cases hl : lookupNat cp p.cmap with
    | none => simp [hl] at hopt
    | some g =>
      simp [hl] at hopt
      subst hopt
      exact ⟨lookupNat_mem hl, Or.inl hcp⟩
  · simp only [List.mem_filter] at h
    obtain ⟨hm, hsel⟩ := h
    simp at hsel
    exact ⟨hm, hsel.symm⟩

theorem unicodesToRetain_snd_origin (p : PlanIn) (g : Nat) (h : g ∈ (unicodesToRetain p).2) :
    g ∈ p.gids ∧ g < p.num := by
  unfold unicodesToRetain at h
  split at h
  · simp at h
  · simpa using h

theorem hmtxAdvance_map_range (f : Nat → Nat × Nat) (nh new : Nat) (h1 : 1 ≤ nh) :
    hmtxAdvance ((List.range nh).map f) new = some (if new < nh then (f new).1 else (f (nh - 1)).1) := by
  unfold hmtxAdvance
  by_cases hc : new < nh
  · simp [hc]
  · have hnone : ((List.range nh).map f)[new]? = none := by simp; omega
    rw [hnone]
    have hne : ¬ nh = 0 := by omega
    simp [List.getLast?_map, List.getLast?_range, hne, hc]

theorem hmtxLsb_map_range (f : Nat → Nat × Nat) (g : Nat → Nat) (nh k new : Nat) (h : new < nh + k) :
    hmtxLsb ((List.range nh).map f) ((List.range k).map g) new =
      some (if new < nh then (f new).2 else g (new - nh)) := by
  unfold hmtxLsb
  by_cases hc : new < nh
  · simp [hc]
  · have hnone : ((List.range nh).map f)[new]? = none := by simp; omega
    rw [hnone]
    have hlt2 : new - nh < k := by omega
    simp [hlt2, hc]

end FontVerif.Subset
