/-
Helper lemmas for C17 (Model/Subset.lean).
-/
import FontVerif.Model.Subset
set_option linter.unusedVariables false
namespace FontVerif.Subset

/-! ### reachability through composite components -/

/-- `Reach comps a b`: `b` is `a` or a (transitive) component of `a`. -/
inductive Reach (comps : List (List Nat)) : Nat → Nat → Prop where
  | refl (a : Nat) : Reach comps a a
  | step {a b c : Nat} : b ∈ compsOf comps a → Reach comps b c → Reach comps a c

theorem Reach.trans {comps : List (List Nat)} {a b c : Nat} (h1 : Reach comps a b) (h2 : Reach comps b c) :
    Reach comps a c := by
  induction h1 with
  | refl => exact h2
  | step hm _ ih => exact Reach.step hm (ih h2)

/-! ### closureGo -/

theorem closureGo_unfold (comps : List (List Nat)) (rem gid : Nat) (set : List Nat) (ops : Int) :
    closureGo comps rem gid (set, ops) =
      if set.contains gid then (set, ops) else
      match rem with
      | 0 => (gid :: set, ops)
      | r + 1 =>
        if ops - 1 < 0 then (gid :: set, ops - 1) else
        (compsOf comps gid).foldl (fun st c => closureGo comps r c st) (gid :: set, ops - 1) := by
  cases rem <;> simp [closureGo]

/-- the fold over components preserves any property that each single call preserves -/
theorem foldl_closure_inv (comps : List (List Nat)) (r : Nat) (P : (List Nat × Int) → Prop)
    (hstep : ∀ c st, P st → P (closureGo comps r c st)) :
    ∀ (cs : List Nat) (st : List Nat × Int), P st →
      P (cs.foldl (fun st c => closureGo comps r c st) st) := by
  intro cs
  induction cs with
  | nil => intro st h; simpa using h
  | cons c cs ih => intro st h; simp only [List.foldl_cons]; exact ih _ (hstep c st h)

/-- the set only grows -/
theorem closureGo_mono (comps : List (List Nat)) :
    ∀ (rem gid : Nat) (st : List Nat × Int) (x : Nat), x ∈ st.1 → x ∈ (closureGo comps rem gid st).1 := by
  intro rem
  induction rem with
  | zero =>
    intro gid st x hx
    obtain ⟨set, ops⟩ := st
    rw [closureGo_unfold]
    split
    · exact hx
    · simp; exact Or.inr hx
  | succ r ih =>
    intro gid st x hx
    obtain ⟨set, ops⟩ := st
    rw [closureGo_unfold]
    split
    · exact hx
    · simp only
      split
      · simp; exact Or.inr hx
      · exact foldl_closure_inv comps r (fun st => x ∈ st.1) (fun c st h => ih c st x h) _ _
          (by simp; exact Or.inr hx)

/-- the root is always retained -/
theorem closureGo_root (comps : List (List Nat)) (rem gid : Nat) (st : List Nat × Int) :
    gid ∈ (closureGo comps rem gid st).1 := by
  obtain ⟨set, ops⟩ := st
  rw [closureGo_unfold]
  split
  · rename_i h; simpa using h
  · cases rem with
    | zero => simp
    | succ r =>
      simp only
      split
      · simp
      · exact foldl_closure_inv comps r (fun st => gid ∈ st.1)
          (fun c st h => closureGo_mono comps r c st gid h) _ _ (by simp)

/-- nothing unreachable enters the set -/
theorem closureGo_sound (comps : List (List Nat)) :
    ∀ (rem gid : Nat) (st : List Nat × Int) (x : Nat), x ∈ (closureGo comps rem gid st).1 →
      x ∈ st.1 ∨ Reach comps gid x := by
  intro rem
  induction rem with
  | zero =>
    intro gid st x hx
    obtain ⟨set, ops⟩ := st
    rw [closureGo_unfold] at hx
    split at hx
    · exact Or.inl hx
    · simp at hx
      rcases hx with rfl | hx
      · exact Or.inr (Reach.refl _)
      · exact Or.inl hx
  | succ r ih =>
    intro gid st x hx
    obtain ⟨set, ops⟩ := st
    rw [closureGo_unfold] at hx
    split at hx
    · exact Or.inl hx
    · simp only at hx
      have base : ∀ y, y ∈ (gid :: set) → y ∈ set ∨ Reach comps gid y := by
        intro y hy
        simp at hy
        rcases hy with rfl | hy
        · exact Or.inr (Reach.refl _)
        · exact Or.inl hy
      split at hx
      · exact base x hx
      · -- fold over the components, each a member of `compsOf comps gid`
        have key : ∀ (cs : List Nat), (∀ c ∈ cs, c ∈ compsOf comps gid) →
            ∀ (st : List Nat × Int), (∀ y ∈ st.1, y ∈ set ∨ Reach comps gid y) →
              ∀ y ∈ (cs.foldl (fun st c => closureGo comps r c st) st).1, y ∈ set ∨ Reach comps gid y := by
          intro cs
          induction cs with
          | nil => intro _ st h y hy; exact h y (by simpa using hy)
          | cons c cs ihc =>
            intro hmem st h y hy
            simp only [List.foldl_cons] at hy
            refine ihc (fun c' hc' => hmem c' (by simp [hc'])) _ ?_ y hy
            intro z hz
            rcases ih c st z hz with h1 | h2
            · exact h z h1
            · exact Or.inr (Reach.step (hmem c (by simp)) h2)
        exact key _ (fun c hc => hc) _ base x hx

/-! ### closureAll -/

theorem closureAll_mono (comps : List (List Nat)) (budget : Int) :
    ∀ (roots set : List Nat) (x : Nat), x ∈ set → x ∈ closureAll comps budget roots set := by
  intro roots
  induction roots with
  | nil => intro set x h; simpa [closureAll] using h
  | cons g gs ih =>
    intro set x h
    simp only [closureAll, List.foldl_cons]
    exact ih _ x (closureGo_mono comps _ g (set, budget) x h)

theorem closureAll_roots (comps : List (List Nat)) (budget : Int) :
    ∀ (roots set : List Nat) (g : Nat), g ∈ roots → g ∈ closureAll comps budget roots set := by
  intro roots
  induction roots with
  | nil => intro set g h; simp at h
  | cons r rs ih =>
    intro set g h
    simp only [closureAll, List.foldl_cons]
    simp at h
    rcases h with rfl | h
    · exact closureAll_mono comps budget rs _ g (closureGo_root comps _ g (set, budget))
    · exact ih _ g h

theorem closureAll_sound (comps : List (List Nat)) (budget : Int) :
    ∀ (roots set : List Nat) (x : Nat), x ∈ closureAll comps budget roots set →
      x ∈ set ∨ ∃ g ∈ roots, Reach comps g x := by
  intro roots
  induction roots with
  | nil => intro set x h; left; simpa [closureAll] using h
  | cons r rs ih =>
    intro set x h
    simp only [closureAll, List.foldl_cons] at h
    rcases ih _ x h with h1 | ⟨g, hg, hr⟩
    · rcases closureGo_sound comps _ r (set, budget) x h1 with h2 | h2
      · exact Or.inl h2
      · exact Or.inr ⟨r, by simp, h2⟩
    · exact Or.inr ⟨g, by simp [hg], hr⟩

/-! ### sortedBelow -/

theorem mem_sortedBelow {n : Nat} {s : List Nat} {g : Nat} : g ∈ sortedBelow n s ↔ g < n ∧ g ∈ s := by
  simp [sortedBelow]

theorem sortedBelow_pairwise (n : Nat) (s : List Nat) : (sortedBelow n s).Pairwise (· < ·) := by
  unfold sortedBelow
  exact List.Pairwise.filter _ List.pairwise_lt_range

/-! ### gidMap -/

theorem gidMap_renumber_fst (flags : Nat) (gs : List Nat) (h : hasFlag flags F_RETAIN_GIDS = false) :
    (gidMap flags gs).1.map (·.1) = List.range (gs.take 65536).length := by
  simp [gidMap, h, List.map_map, Function.comp_def, List.range_eq_range']

theorem gidMap_renumber_snd (flags : Nat) (gs : List Nat) (h : hasFlag flags F_RETAIN_GIDS = false) :
    (gidMap flags gs).1.map (·.2) = gs.take 65536 := by
  simp [gidMap, h, List.map_map, Function.comp_def]

theorem gidMap_renumber_nout (flags : Nat) (gs : List Nat) (h : hasFlag flags F_RETAIN_GIDS = false) :
    (gidMap flags gs).2 = (gs.take 65536).length := by
  simp [gidMap, h]

theorem gidMap_retain (flags : Nat) (gs : List Nat) (h : hasFlag flags F_RETAIN_GIDS = true) :
    (gidMap flags gs).1 = gs.map (fun g => (g, g)) ∧
    (gidMap flags gs).2 = (match gs.getLast? with | none => 0 | some m => m + 1) := by
  simp only [gidMap, h]
  exact ⟨rfl, rfl⟩

/-! ### lookups -/

theorem lookupNat_mem {k v : Nat} : ∀ {l : List (Nat × Nat)}, lookupNat k l = some v → (k, v) ∈ l := by
  intro l
  induction l with
  | nil => intro h; simp [lookupNat] at h
  | cons hd tl ih =>
    obtain ⟨a, b⟩ := hd
    intro h
    simp only [lookupNat] at h
    split at h
    · rename_i hab; simp at h; subst hab; subst h; simp
    · simp [ih h]

/-- with pairwise distinct keys, lookup finds exactly the listed value -/
theorem lookupNat_of_mem {k v : Nat} : ∀ {l : List (Nat × Nat)}, (l.map (·.1)).Pairwise (· ≠ ·) → (k, v) ∈ l →
    lookupNat k l = some v := by
  intro l
  induction l with
  | nil => intro _ h; simp at h
  | cons hd tl ih =>
    obtain ⟨a, b⟩ := hd
    intro hp hm
    simp only [List.map_cons, List.pairwise_cons] at hp
    simp only [lookupNat]
    simp at hm
    rcases hm with ⟨rfl, rfl⟩ | hm
    · simp
    · have hne : a ≠ k := hp.1 k (by simp; exact ⟨v, hm⟩)
      simp [hne, ih hp.2 hm]

/-! ### hmtx -/

theorem trimMetrics_le (adv : Nat → Nat) (last : Nat) : ∀ n, trimMetrics adv last n ≤ n := by
  intro n
  induction n using trimMetrics.induct adv last with
  | case1 => simp [trimMetrics]
  | case2 => simp [trimMetrics]
  | case3 n h => simp [trimMetrics, h]
  | case4 n h ih => simp [trimMetrics, h]; omega

theorem trimMetrics_pos (adv : Nat → Nat) (last : Nat) : ∀ n, 1 ≤ n → 1 ≤ trimMetrics adv last n := by
  intro n
  induction n using trimMetrics.induct adv last with
  | case1 => intro h; omega
  | case2 => intro _; simp [trimMetrics]
  | case3 n h => intro _; simp [trimMetrics, h]
  | case4 n h ih => intro _; simp [trimMetrics, h]; exact ih (by omega)

/-- every advance from the last retained long metric up to the one before the last equals `last` -/
theorem trimMetrics_tail (adv : Nat → Nat) (last : Nat) :
    ∀ n j, trimMetrics adv last n - 1 ≤ j → j + 1 < n → adv j = last := by
  intro n
  induction n using trimMetrics.induct adv last with
  | case1 => intro j _ h; omega
  | case2 => intro j _ h; omega
  | case3 n h => intro j h1 h2; simp [trimMetrics, h] at h1; omega
  | case4 n h ih =>
    intro j h1 h2
    simp [trimMetrics, h] at h1
    by_cases hj : j = n
    · subst hj; simpa using h
    · exact ih j (by omega) (by omega)


theorem pairwise_lt_le_getLast : ∀ {gs : List Nat} {g : Nat}, gs.Pairwise (· < ·) → g ∈ gs →
    ∃ m, gs.getLast? = some m ∧ g ≤ m := by
  intro gs
  induction gs with
  | nil => intro g _ h; simp at h
  | cons a tl ih =>
    intro g hp hg
    rw [List.pairwise_cons] at hp
    cases tl with
    | nil => simp at hg; subst hg; exact ⟨g, by simp, Nat.le_refl _⟩
    | cons b tl' =>
      have hl : (a :: b :: tl').getLast? = (b :: tl').getLast? := by simp [List.getLast?_cons_cons]
      rw [hl]
      simp only [List.mem_cons] at hg
      rcases hg with rfl | hg
      · obtain ⟨m, hm, hbm⟩ := ih (g := b) hp.2 (by simp)
        refine ⟨m, hm, ?_⟩
        have := hp.1 b (by simp)
        omega
      · exact ih hp.2 (by simpa using hg)

/-! ### populate_unicodes_to_retain -/

theorem unicodesToRetain_gids (p : PlanIn) (g : Nat) (hg : g ∈ p.gids) (hlt : g < p.num) :
    g ∈ (unicodesToRetain p).2 := by
  unfold unicodesToRetain
  split
  · rename_i hb
    have : p.gids = [] := by simpa using hb.1
    rw [this] at hg; simp at hg
  · simp [hg, hlt]

theorem unicodesToRetain_cmap (p : PlanIn) (hc : (p.cmap.map (·.1)).Pairwise (· ≠ ·)) (cp g : Nat)
    (hm : (cp, g) ∈ p.cmap) (hcp : cp ∈ p.unicodes) (hg : g < p.num) : (cp, g) ∈ (unicodesToRetain p).1 := by
  unfold unicodesToRetain
  split
  · simp only [List.mem_filterMap]
    exact ⟨cp, hcp, by simp [lookupNat_of_mem hc hm, hg]⟩
  · simp only [List.mem_filter]
    exact ⟨hm, by simp [hcp, hg]⟩

theorem unicodesToRetain_fst_origin (p : PlanIn) (cg : Nat × Nat) (h : cg ∈ (unicodesToRetain p).1) :
    cg ∈ p.cmap ∧ (cg.1 ∈ p.unicodes ∨ cg.2 ∈ p.gids) ∧ cg.2 < p.num := by
  unfold unicodesToRetain at h
  split at h
  · simp only [List.mem_filterMap] at h
    obtain ⟨cp, hcp, hopt⟩ := h
    cases hl : lookupNat cp p.cmap with
    | none => simp [hl] at hopt
    | some g =>
      simp only [hl] at hopt
      split at hopt
      · rename_i hg
        simp at hopt
        subst hopt
        exact ⟨lookupNat_mem hl, Or.inl hcp, hg⟩
      · cases hopt
  · simp only [List.mem_filter] at h
    obtain ⟨hm, hsel⟩ := h
    simp at hsel
    exact ⟨hm, hsel.1.symm, hsel.2⟩

theorem unicodesToRetain_snd_origin (p : PlanIn) (g : Nat) (h : g ∈ (unicodesToRetain p).2) :
    g ∈ p.gids ∧ g < p.num := by
  unfold unicodesToRetain at h
  split at h
  · simp at h
  · simpa using h

theorem hmtxAdvance_map_range (f : Nat → Nat × Nat) (nh new : Nat) (h1 : 1 ≤ nh) :
    hmtxAdvance ((List.range nh).map f) new = some (if new < nh then (f new).1 else (f (nh - 1)).1) := by
  unfold hmtxAdvance
  by_cases hc : new < nh
  · simp [hc]
  · have hnone : ((List.range nh).map f)[new]? = none := by simp; omega
    rw [hnone]
    have hne : ¬ nh = 0 := by omega
    simp [List.getLast?_map, List.getLast?_range, hne, hc]

theorem hmtxLsb_map_range (f : Nat → Nat × Nat) (g : Nat → Nat) (nh k new : Nat) (h : new < nh + k) :
    hmtxLsb ((List.range nh).map f) ((List.range k).map g) new =
      some (if new < nh then (f new).2 else g (new - nh)) := by
  unfold hmtxLsb
  by_cases hc : new < nh
  · simp [hc]
  · have hnone : ((List.range nh).map f)[new]? = none := by simp; omega
    rw [hnone]
    have hlt2 : new - nh < k := by omega
    simp [hlt2, hc]

/-! ### loca offsets -/

/-- bytes a kept glyph occupies in the output glyf table -/
def slotSize (pad : Bool) (g : Bytes) : Nat := if pad then paddedSize g.length else g.length

/-- the glyph bytes as embedded (with the padding byte of the short format) -/
def slotBytes (pad : Bool) (g : Bytes) : Bytes := if pad ∧ g.length % 2 = 1 then g ++ [0] else g

theorem slotBytes_length (pad : Bool) (g : Bytes) : (slotBytes pad g).length = slotSize pad g := by
  unfold slotBytes slotSize paddedSize
  cases pad <;> simp
  split <;> simp <;> omega

/-- specification of loca entry `j`: total size of the kept glyphs whose new id is below `j` -/
def offAt (pad : Bool) (gs : List (Nat × Bytes)) (j : Nat) : Nat :=
  ((gs.filter (fun p => p.1 < j)).map (fun p => slotSize pad p.2)).sum

theorem offAt_nil (pad : Bool) (j : Nat) : offAt pad [] j = 0 := by simp [offAt]

theorem offAt_cons_lt (pad : Bool) (gid : Nat) (g : Bytes) (rest : List (Nat × Bytes)) (j : Nat) (h : gid < j) :
    offAt pad ((gid, g) :: rest) j = slotSize pad g + offAt pad rest j := by
  simp [offAt, h]

theorem offAt_cons_ge (pad : Bool) (gid : Nat) (g : Bytes) (rest : List (Nat × Bytes)) (j : Nat) (h : ¬ gid < j) :
    offAt pad ((gid, g) :: rest) j = offAt pad rest j := by
  simp [offAt, h]

theorem offAt_of_all_ge (pad : Bool) (j : Nat) : ∀ (gs : List (Nat × Bytes)), (∀ p ∈ gs, j ≤ p.1) → offAt pad gs j = 0 := by
  intro gs
  induction gs with
  | nil => intro _; exact offAt_nil pad j
  | cons hd tl ih =>
    obtain ⟨a, b⟩ := hd
    intro h
    have ha : ¬ a < j := by have := h (a, b) (by simp); simp at this; omega
    rw [offAt_cons_ge pad a b tl j ha]
    exact ih (fun p hp => h p (by simp [hp]))

theorem offAt_mono (pad : Bool) (j k : Nat) (hjk : j ≤ k) : ∀ (gs : List (Nat × Bytes)), offAt pad gs j ≤ offAt pad gs k := by
  intro gs
  induction gs with
  | nil => simp [offAt_nil]
  | cons hd tl ih =>
    obtain ⟨a, b⟩ := hd
    by_cases h1 : a < j
    · rw [offAt_cons_lt pad a b tl j h1, offAt_cons_lt pad a b tl k (by omega)]; omega
    · rw [offAt_cons_ge pad a b tl j h1]
      by_cases h2 : a < k
      · rw [offAt_cons_lt pad a b tl k h2]; omega
      · rw [offAt_cons_ge pad a b tl k h2]; exact ih

theorem offAt_even (j : Nat) : ∀ (gs : List (Nat × Bytes)), offAt true gs j % 2 = 0 := by
  intro gs
  induction gs with
  | nil => simp [offAt_nil]
  | cons hd tl ih =>
    obtain ⟨a, b⟩ := hd
    by_cases h1 : a < j
    · rw [offAt_cons_lt true a b tl j h1]
      have : slotSize true b % 2 = 0 := by unfold slotSize paddedSize; simp; omega
      omega
    · rw [offAt_cons_ge true a b tl j h1]; exact ih

/-- the total the format decision looks at -/
def totalSize (pad : Bool) (gs : List (Nat × Bytes)) : Nat := (gs.map (fun p => slotSize pad p.2)).sum

theorem offAt_le_total (pad : Bool) (j : Nat) : ∀ (gs : List (Nat × Bytes)), offAt pad gs j ≤ totalSize pad gs := by
  intro gs
  induction gs with
  | nil => simp [offAt_nil]
  | cons hd tl ih =>
    obtain ⟨a, b⟩ := hd
    by_cases h1 : a < j
    · rw [offAt_cons_lt pad a b tl j h1]; simp [totalSize] at ih ⊢; omega
    · rw [offAt_cons_ge pad a b tl j h1]; simp [totalSize] at ih ⊢; omega

theorem locaOffsetsGo_length (pad : Bool) (nout : Nat) : ∀ (gs : List (Nat × Bytes)) (last offset : Nat),
    (gs.map (·.1)).Pairwise (· < ·) → (∀ p ∈ gs, last ≤ p.1 ∧ p.1 < nout) →
    (locaOffsetsGo pad nout gs last offset).length = nout - last := by
  intro gs
  induction gs with
  | nil => intro last offset _ _; simp [locaOffsetsGo]
  | cons hd tl ih =>
    obtain ⟨gid, g⟩ := hd
    intro last offset hs hb
    have hg := hb (gid, g) (by simp)
    simp only at hg
    simp only [List.map_cons, List.pairwise_cons] at hs
    have hnext : (if last < gid then gid else last) + 1 = gid + 1 := by split <;> omega
    simp only [locaOffsetsGo, hnext, List.length_append, List.length_replicate, List.length_cons]
    rw [ih (gid + 1) _ hs.2 (fun p hp => by
      have h1 := hs.1 p.1 (by simp; exact ⟨p.2, hp⟩)
      have h2 := hb p (by simp [hp])
      omega)]
    omega

/-- every loca entry is the specified offset -/
theorem locaOffsetsGo_getElem (pad : Bool) (nout : Nat) : ∀ (gs : List (Nat × Bytes)) (last offset : Nat),
    (gs.map (·.1)).Pairwise (· < ·) → (∀ p ∈ gs, last ≤ p.1 ∧ p.1 < nout) →
    ∀ i, i < nout - last →
      (locaOffsetsGo pad nout gs last offset)[i]? = some (offset + offAt pad gs (last + 1 + i)) := by
  intro gs
  induction gs with
  | nil =>
    intro last offset _ _ i hi
    simp [locaOffsetsGo, offAt_nil, hi]
  | cons hd tl ih =>
    obtain ⟨gid, g⟩ := hd
    intro last offset hs hb i hi
    have hg := hb (gid, g) (by simp)
    simp only at hg
    simp only [List.map_cons, List.pairwise_cons] at hs
    have htl : ∀ p ∈ tl, gid + 1 ≤ p.1 ∧ p.1 < nout := fun p hp => by
      have h1 := hs.1 p.1 (by simp; exact ⟨p.2, hp⟩)
      have h2 := hb p (by simp [hp])
      omega
    have hnext : (if last < gid then gid else last) + 1 = gid + 1 := by split <;> omega
    simp only [locaOffsetsGo, hnext]
    by_cases h1 : i < gid - last
    · rw [List.getElem?_append_left (by simp; exact h1)]
      rw [offAt_cons_ge pad gid g tl _ (by omega)]
      rw [offAt_of_all_ge pad _ tl (fun p hp => by have := htl p hp; omega)]
      simp [h1]
    · rw [List.getElem?_append_right (by simp; omega)]
      simp only [List.length_replicate]
      by_cases h2 : i = gid - last
      · have : i - (gid - last) = 0 := by omega
        rw [this]
        simp only [List.getElem?_cons_zero, Option.some.injEq]
        rw [offAt_cons_lt pad gid g tl _ (by omega)]
        rw [offAt_of_all_ge pad _ tl (fun p hp => by have := htl p hp; omega)]
        cases pad <;> simp [slotSize]
      · obtain ⟨i', hi'⟩ : ∃ i', i - (gid - last) = i' + 1 := ⟨i - (gid - last) - 1, by omega⟩
        rw [hi']
        simp only [List.getElem?_cons_succ]
        rw [ih (gid + 1) _ hs.2 htl i' (by omega)]
        rw [offAt_cons_lt pad gid g tl _ (by omega)]
        have : gid + 1 + 1 + i' = last + 1 + i := by omega
        rw [this]
        cases pad <;> simp [slotSize] <;> omega

theorem locaOffsets_length (pad : Bool) (nout : Nat) (gs : List (Nat × Bytes))
    (hs : (gs.map (·.1)).Pairwise (· < ·)) (hb : ∀ p ∈ gs, p.1 < nout) :
    (locaOffsets pad nout gs).length = nout + 1 := by
  simp [locaOffsets, locaOffsetsGo_length pad nout gs 0 0 hs (fun p hp => ⟨Nat.zero_le _, hb p hp⟩)]

theorem locaOffsets_getElem (pad : Bool) (nout : Nat) (gs : List (Nat × Bytes))
    (hs : (gs.map (·.1)).Pairwise (· < ·)) (hb : ∀ p ∈ gs, p.1 < nout) (j : Nat) (hj : j ≤ nout) :
    (locaOffsets pad nout gs)[j]? = some (offAt pad gs j) := by
  unfold locaOffsets
  cases j with
  | zero =>
    simp
    exact (offAt_of_all_ge pad 0 gs (fun p _ => Nat.zero_le _)).symm
  | succ i =>
    simp only [List.getElem?_cons_succ]
    rw [locaOffsetsGo_getElem pad nout gs 0 0 hs (fun p hp => ⟨Nat.zero_le _, hb p hp⟩) i (by omega)]
    simp
    congr 1; omega

/-- the glyf bytes split at a kept glyph: everything before it has total length `offAt … gid` -/
theorem glyfBytes_resolve (pad : Bool) : ∀ (pre : List (Nat × Bytes)) (gid : Nat) (g : Bytes) (post : List (Nat × Bytes)),
    ((pre ++ (gid, g) :: post).map (·.1)).Pairwise (· < ·) →
    offAt pad (pre ++ (gid, g) :: post) (gid + 1) = offAt pad (pre ++ (gid, g) :: post) gid + slotSize pad g ∧
    ((glyfBytes pad ((pre ++ (gid, g) :: post).map (·.2))).drop (offAt pad (pre ++ (gid, g) :: post) gid)).take
        (slotSize pad g) = slotBytes pad g := by
  intro pre
  induction pre with
  | nil =>
    intro gid g post hs
    simp only [List.nil_append, List.map_cons, List.pairwise_cons] at hs
    have hpost : ∀ p ∈ post, gid + 1 ≤ p.1 := fun p hp => by
      have := hs.1 p.1 (by simp; exact ⟨p.2, hp⟩); omega
    simp only [List.nil_append]
    rw [offAt_cons_lt pad gid g post _ (by omega), offAt_cons_ge pad gid g post _ (by omega)]
    rw [offAt_of_all_ge pad _ post hpost, offAt_of_all_ge pad _ post (fun p hp => by have := hpost p hp; omega)]
    refine ⟨by omega, ?_⟩
    simp only [List.map_cons, glyfBytes, List.flatMap_cons, List.drop_zero]
    have : (if pad = true ∧ g.length % 2 = 1 then g ++ [0] else g) = slotBytes pad g := rfl
    rw [this, ← slotBytes_length pad g, List.take_left']
    rfl
  | cons hd tl ih =>
    obtain ⟨a, b⟩ := hd
    intro gid g post hs
    simp only [List.cons_append, List.map_cons, List.pairwise_cons] at hs
    have ha : a < gid := hs.1 gid (by simp)
    obtain ⟨e1, e2⟩ := ih gid g post hs.2
    simp only [List.cons_append]
    rw [offAt_cons_lt pad a b _ _ (by omega), offAt_cons_lt pad a b _ _ ha]
    refine ⟨by omega, ?_⟩
    simp only [List.map_cons, glyfBytes, List.flatMap_cons]
    have hb : (if pad = true ∧ b.length % 2 = 1 then b ++ [0] else b) = slotBytes pad b := rfl
    rw [hb]
    have : slotSize pad b + offAt pad (tl ++ (gid, g) :: post) gid
        = (slotBytes pad b).length + offAt pad (tl ++ (gid, g) :: post) gid := by rw [slotBytes_length]
    rw [this, ← List.drop_drop, List.drop_left']
    · exact e2
    · rfl

/-! ### loca encodings -/

/-- reading a short loca table: u16 entries, doubled -/
def decodeShortLoca : Bytes → List Nat
  | a :: b :: rest => (a * 256 + b) * 2 :: decodeShortLoca rest
  | _ => []

/-- reading a long loca table: u32 entries -/
def decodeLongLoca : Bytes → List Nat
  | a :: b :: c :: d :: rest => (a * 16777216 + b * 65536 + c * 256 + d) :: decodeLongLoca rest
  | _ => []

theorem decodeShortLoca_encode : ∀ (offs : List Nat), (∀ o ∈ offs, o % 2 = 0 ∧ o < 131072) →
    decodeShortLoca (offs.flatMap (fun o => be16 (o / 2 % 65536))) = offs := by
  intro offs
  induction offs with
  | nil => intro _; simp [decodeShortLoca]
  | cons o tl ih =>
    intro h
    have ho := h o (by simp)
    have ih' := ih (fun x hx => h x (by simp [hx]))
    simp only [be16] at ih'
    simp only [List.flatMap_cons, be16, List.cons_append, List.nil_append, decodeShortLoca]
    rw [ih']
    congr 1
    omega

theorem decodeLongLoca_encode : ∀ (offs : List Nat), (∀ o ∈ offs, o < 4294967296) →
    decodeLongLoca (offs.flatMap (fun o => be32 (o % 4294967296))) = offs := by
  intro offs
  induction offs with
  | nil => intro _; simp [decodeLongLoca]
  | cons o tl ih =>
    intro h
    have ho := h o (by simp)
    have ih' := ih (fun x hx => h x (by simp [hx]))
    simp only [be32] at ih'
    simp only [List.flatMap_cons, be32, List.cons_append, List.nil_append, decodeLongLoca]
    rw [ih']
    congr 1
    omega

theorem sum_map_le {α : Type} (f g : α → Nat) (h : ∀ x, f x ≤ g x) : ∀ (l : List α), (l.map f).sum ≤ (l.map g).sum := by
  intro l
  induction l with
  | nil => simp
  | cons a tl ih => simp only [List.map_cons, List.sum_cons]; have := h a; omega

/-! ### closure with a "limit fired" flag (specification device) -/

/-- `closureGo` instrumented with a flag that records whether the nesting limit or the operation
budget stopped the descent into a glyph that has components. -/
def closureGoF (comps : List (List Nat)) : Nat → Nat → (List Nat × Int × Bool) → (List Nat × Int × Bool)
  | rem, gid, (set, ops, cut) =>
    if set.contains gid then (set, ops, cut) else
    match rem with
    | 0 => (gid :: set, ops, cut || !(compsOf comps gid).isEmpty)
    | r + 1 =>
      if ops - 1 < 0 then (gid :: set, ops - 1, cut || !(compsOf comps gid).isEmpty) else
      (compsOf comps gid).foldl (fun st c => closureGoF comps r c st) (gid :: set, ops - 1, cut)

theorem closureGoF_unfold (comps : List (List Nat)) (rem gid : Nat) (set : List Nat) (ops : Int) (cut : Bool) :
    closureGoF comps rem gid (set, ops, cut) =
      if set.contains gid then (set, ops, cut) else
      match rem with
      | 0 => (gid :: set, ops, cut || !(compsOf comps gid).isEmpty)
      | r + 1 =>
        if ops - 1 < 0 then (gid :: set, ops - 1, cut || !(compsOf comps gid).isEmpty) else
        (compsOf comps gid).foldl (fun st c => closureGoF comps r c st) (gid :: set, ops - 1, cut) := by
  cases rem <;> simp [closureGoF]

theorem closureGoF_zero (comps : List (List Nat)) (gid : Nat) (set : List Nat) (ops : Int) (cut : Bool) :
    closureGoF comps 0 gid (set, ops, cut) =
      if set.contains gid then (set, ops, cut) else (gid :: set, ops, cut || !(compsOf comps gid).isEmpty) := by
  simp [closureGoF]

theorem closureGoF_succ (comps : List (List Nat)) (r gid : Nat) (set : List Nat) (ops : Int) (cut : Bool) :
    closureGoF comps (r + 1) gid (set, ops, cut) =
      if set.contains gid then (set, ops, cut) else
      if ops - 1 < 0 then (gid :: set, ops - 1, cut || !(compsOf comps gid).isEmpty) else
      (compsOf comps gid).foldl (fun st c => closureGoF comps r c st) (gid :: set, ops - 1, cut) := by
  simp [closureGoF]

/-- erasing the flag gives `closureGo` -/
theorem closureGoF_erase (comps : List (List Nat)) :
    ∀ (rem gid : Nat) (st : List Nat × Int × Bool),
      ((closureGoF comps rem gid st).1, (closureGoF comps rem gid st).2.1) = closureGo comps rem gid (st.1, st.2.1) := by
  intro rem
  induction rem with
  | zero =>
    intro gid st
    obtain ⟨set, ops, cut⟩ := st
    rw [closureGoF_unfold, closureGo_unfold]
    split <;> simp
  | succ r ih =>
    intro gid st
    obtain ⟨set, ops, cut⟩ := st
    rw [closureGoF_unfold, closureGo_unfold]
    split
    · simp
    · simp only
      split
      · simp
      · have key : ∀ (cs : List Nat) (st : List Nat × Int × Bool),
            ((cs.foldl (fun st c => closureGoF comps r c st) st).1,
             (cs.foldl (fun st c => closureGoF comps r c st) st).2.1) =
            cs.foldl (fun st c => closureGo comps r c st) (st.1, st.2.1) := by
          intro cs
          induction cs with
          | nil => intro st; simp
          | cons c cs ihc =>
            intro st
            simp only [List.foldl_cons]
            rw [ihc, ih c st]
        exact key _ _

/-- the flag is sticky -/
theorem closureGoF_cut_mono (comps : List (List Nat)) :
    ∀ (rem gid : Nat) (st : List Nat × Int × Bool), st.2.2 = true → (closureGoF comps rem gid st).2.2 = true := by
  intro rem
  induction rem with
  | zero =>
    intro gid st h
    obtain ⟨set, ops, cut⟩ := st
    simp only at h
    rw [closureGoF_unfold]
    split <;> simp [h]
  | succ r ih =>
    intro gid st h
    obtain ⟨set, ops, cut⟩ := st
    simp only at h
    rw [closureGoF_unfold]
    split
    · simp [h]
    · simp only
      split
      · simp [h]
      · have key : ∀ (cs : List Nat) (st : List Nat × Int × Bool), st.2.2 = true →
            (cs.foldl (fun st c => closureGoF comps r c st) st).2.2 = true := by
          intro cs
          induction cs with
          | nil => intro st h; simpa using h
          | cons c cs ihc => intro st h; simp only [List.foldl_cons]; exact ihc _ (ih c st h)
        exact key _ _ h

theorem closureGoF_mono (comps : List (List Nat)) (rem gid : Nat) (st : List Nat × Int × Bool) (x : Nat)
    (hx : x ∈ st.1) : x ∈ (closureGoF comps rem gid st).1 := by
  have h := closureGoF_erase comps rem gid st
  have h1 : (closureGoF comps rem gid st).1 = (closureGo comps rem gid (st.1, st.2.1)).1 := by rw [← h]
  rw [h1]
  exact closureGo_mono comps rem gid _ x hx

theorem closureGoF_root (comps : List (List Nat)) (rem gid : Nat) (st : List Nat × Int × Bool) :
    gid ∈ (closureGoF comps rem gid st).1 := by
  have h := closureGoF_erase comps rem gid st
  have h1 : (closureGoF comps rem gid st).1 = (closureGo comps rem gid (st.1, st.2.1)).1 := by rw [← h]
  rw [h1]
  exact closureGo_root comps rem gid _

/-- **DFS invariant.** If no limit fired, every glyph added by the call has all its components in
the resulting set. -/
theorem closureGoF_closed (comps : List (List Nat)) :
    ∀ (rem gid : Nat) (st : List Nat × Int × Bool), (closureGoF comps rem gid st).2.2 = false →
      ∀ x ∈ (closureGoF comps rem gid st).1, x ∉ st.1 → ∀ c ∈ compsOf comps x, c ∈ (closureGoF comps rem gid st).1 := by
  intro rem
  induction rem with
  | zero =>
    intro gid st hcut x hx hnx c hc
    obtain ⟨set, ops, cut⟩ := st
    rw [closureGoF_zero] at hcut hx ⊢
    split at hx
    · exact absurd hx hnx
    · rename_i hcont
      simp only [hcont, Bool.false_eq_true, if_false] at hcut ⊢
      simp at hx
      rcases hx with rfl | hx
      · simp at hcut
        rw [hcut.2] at hc; simp at hc
      · exact absurd hx hnx
  | succ r ih =>
    intro gid st hcut x hx hnx c hc
    obtain ⟨set, ops, cut⟩ := st
    rw [closureGoF_succ] at hcut hx ⊢
    split at hx
    · exact absurd hx hnx
    · rename_i hcont
      simp only [hcont, Bool.false_eq_true, if_false] at hcut ⊢
      split at hx
      · rename_i hops
        simp only [hops, if_true] at hcut ⊢
        simp at hx
        rcases hx with rfl | hx
        · simp at hcut
          rw [hcut.2] at hc; simp at hc
        · exact absurd hx hnx
      · rename_i hops
        simp only [hops, if_false] at hcut ⊢
        -- fold over the children
        have key : ∀ (cs : List Nat) (st : List Nat × Int × Bool),
            (cs.foldl (fun st c => closureGoF comps r c st) st).2.2 = false →
            (∀ c ∈ cs, c ∈ (cs.foldl (fun st c => closureGoF comps r c st) st).1) ∧
            (∀ y ∈ st.1, y ∈ (cs.foldl (fun st c => closureGoF comps r c st) st).1) ∧
            (∀ y ∈ (cs.foldl (fun st c => closureGoF comps r c st) st).1, y ∉ st.1 →
              ∀ c ∈ compsOf comps y, c ∈ (cs.foldl (fun st c => closureGoF comps r c st) st).1) := by
          intro cs
          induction cs with
          | nil =>
            intro st _
            simp only [List.foldl_nil, List.not_mem_nil, false_imp_iff, implies_true, true_and]
            exact ⟨fun y hy => hy, fun y hy hny => absurd hy hny⟩
          | cons c0 cs ihc =>
            intro st hf
            simp only [List.foldl_cons] at hf ⊢
            obtain ⟨k1, k2, k3⟩ := ihc (closureGoF comps r c0 st) hf
            have hcut0 : (closureGoF comps r c0 st).2.2 = false := by
              cases hh : (closureGoF comps r c0 st).2.2 with
              | false => rfl
              | true =>
                have hfold : ∀ (cs : List Nat) (st : List Nat × Int × Bool), st.2.2 = true →
                    (cs.foldl (fun st c => closureGoF comps r c st) st).2.2 = true := by
                  intro cs
                  induction cs with
                  | nil => intro st h; simpa using h
                  | cons c cs ih2 => intro st h; simp only [List.foldl_cons]; exact ih2 _ (closureGoF_cut_mono comps r c st h)
                rw [hfold cs _ hh] at hf; cases hf
            refine ⟨?_, ?_, ?_⟩
            · intro c' hc'
              simp at hc'
              rcases hc' with rfl | hc'
              · exact k2 _ (closureGoF_root comps r c' st)
              · exact k1 c' hc'
            · intro y hy
              exact k2 y (closureGoF_mono comps r c0 st y hy)
            · intro y hy hny c' hc'
              by_cases hmid : y ∈ (closureGoF comps r c0 st).1
              · exact k2 c' (ih c0 st hcut0 y hmid hny c' hc')
              · exact k3 y hy hmid c' hc'
        obtain ⟨k1, k2, k3⟩ := key (compsOf comps gid) (gid :: set, ops - 1, cut) hcut
        by_cases hxg : x = gid
        · subst hxg; exact k1 c hc
        · exact k3 x hx (by simp [hxg, hnx]) c hc

/-- `closureAll` with the flag -/
def closureAllF (comps : List (List Nat)) (budget : Int) (roots : List Nat) (st : List Nat × Bool) : List Nat × Bool :=
  roots.foldl (fun s g =>
    let r := closureGoF comps NESTING_LEVELS g (s.1, budget, s.2)
    (r.1, r.2.2)) st

theorem closureAllF_erase (comps : List (List Nat)) (budget : Int) :
    ∀ (roots : List Nat) (st : List Nat × Bool), (closureAllF comps budget roots st).1 = closureAll comps budget roots st.1 := by
  intro roots
  induction roots with
  | nil => intro st; simp [closureAllF, closureAll]
  | cons g gs ih =>
    intro st
    simp only [closureAllF, closureAll, List.foldl_cons] at ih ⊢
    rw [ih]
    have := closureGoF_erase comps NESTING_LEVELS g (st.1, budget, st.2)
    simp only at this
    rw [← this]

theorem closureAllF_cut_mono (comps : List (List Nat)) (budget : Int) :
    ∀ (roots : List Nat) (st : List Nat × Bool), st.2 = true → (closureAllF comps budget roots st).2 = true := by
  intro roots
  induction roots with
  | nil => intro st h; simpa [closureAllF] using h
  | cons g gs ih =>
    intro st h
    simp only [closureAllF, List.foldl_cons] at ih ⊢
    exact ih _ (closureGoF_cut_mono comps _ g (st.1, budget, st.2) h)

/-- if no limit fired in any of the per-root calls, the set stays closed under components -/
theorem closureAllF_closed (comps : List (List Nat)) (budget : Int) :
    ∀ (roots : List Nat) (st : List Nat × Bool),
      (closureAllF comps budget roots st).2 = false →
      (∀ x ∈ st.1, ∀ c ∈ compsOf comps x, c ∈ st.1) →
      ∀ x ∈ (closureAllF comps budget roots st).1, ∀ c ∈ compsOf comps x, c ∈ (closureAllF comps budget roots st).1 := by
  intro roots
  induction roots with
  | nil => intro st _ h; simpa [closureAllF] using h
  | cons g gs ih =>
    intro st hcut hclosed
    simp only [closureAllF, List.foldl_cons] at ih hcut ⊢
    apply ih _ hcut
    -- the set after the first root is closed
    have hcut1 : (closureGoF comps NESTING_LEVELS g (st.1, budget, st.2)).2.2 = false := by
      cases hh : (closureGoF comps NESTING_LEVELS g (st.1, budget, st.2)).2.2 with
      | false => rfl
      | true =>
        have := closureAllF_cut_mono comps budget gs
          ((closureGoF comps NESTING_LEVELS g (st.1, budget, st.2)).1, (closureGoF comps NESTING_LEVELS g (st.1, budget, st.2)).2.2) hh
        simp only [closureAllF] at this
        rw [this] at hcut; cases hcut
    intro x hx c hc
    simp only at hx ⊢
    by_cases hin : x ∈ st.1
    · exact closureGoF_mono comps _ g (st.1, budget, st.2) c (hclosed x hin c hc)
    · exact closureGoF_closed comps _ g (st.1, budget, st.2) hcut1 x hx hin c hc

/-- did the nesting limit or the operation budget stop the composite closure of this plan anywhere? -/
def planLimitFired (p : PlanIn) : Bool :=
  (closureAllF p.comps (planBudget p) (planColred p) ([], false)).2

theorem mapM_option_spec {α β : Type} (f : α → Option β) : ∀ (l : List α) (l' : List β), l.mapM f = some l' →
    (∀ y ∈ l', ∃ x ∈ l, f x = some y) ∧ (∀ x ∈ l, ∃ y ∈ l', f x = some y) := by
  intro l
  induction l with
  | nil => intro l' h; simp at h; subst h; simp
  | cons a tl ih =>
    intro l' h
    rw [List.mapM_cons] at h
    cases hfa : f a with
    | none => simp [hfa] at h
    | some b =>
      cases htl : tl.mapM f with
      | none => simp [hfa, htl] at h
      | some bs =>
        simp [hfa, htl] at h
        subst h
        obtain ⟨i1, i2⟩ := ih bs htl
        constructor
        · intro y hy
          simp at hy
          rcases hy with rfl | hy
          · exact ⟨a, by simp, hfa⟩
          · obtain ⟨x, hx, hfx⟩ := i1 y hy
            exact ⟨x, by simp [hx], hfx⟩
        · intro x hx
          simp at hx
          rcases hx with rfl | hx
          · exact ⟨b, by simp, hfa⟩
          · obtain ⟨y, hy, hfx⟩ := i2 x hx
            exact ⟨y, by simp [hy], hfx⟩

theorem u2g_spec (n2o : List (Nat × Nat)) (l u2g : List (Nat × Nat))
    (hu : l.mapM (fun cg => (oldToNew n2o cg.2).map (fun n => (cg.1, n))) = some u2g) :
    (∀ cp new, (cp, new) ∈ u2g → ∃ old, (cp, old) ∈ l ∧ oldToNew n2o old = some new) ∧
    (∀ cp old, (cp, old) ∈ l → ∃ new, (cp, new) ∈ u2g ∧ oldToNew n2o old = some new) := by
  obtain ⟨m1, m2⟩ := mapM_option_spec _ _ _ hu
  constructor
  · intro cp new hm
    obtain ⟨cg, hcg, hf⟩ := m1 (cp, new) hm
    cases hon : oldToNew n2o cg.2 with
    | none => simp [hon] at hf
    | some n =>
      simp [hon] at hf
      obtain ⟨e1, e2⟩ := hf
      subst e1 e2
      exact ⟨cg.2, hcg, hon⟩
  · intro cp old hm
    obtain ⟨y, hy, hf⟩ := m2 (cp, old) hm
    cases hon : oldToNew n2o old with
    | none => simp [hon] at hf
    | some n =>
      simp [hon] at hf
      subst hf
      exact ⟨n, hy, rfl⟩

/-! ### the plan never hits its `unwrap()` -/

theorem oldToNew_map_self (gs : List Nat) (g : Nat) (h : g ∈ gs) :
    oldToNew (gs.map (fun g => (g, g))) g = some g := by
  unfold oldToNew
  induction gs with
  | nil => simp at h
  | cons a tl ih =>
    simp only [List.map_cons, lookupNat]
    by_cases hag : a = g
    · simp [hag]
    · simp only [hag, if_false]
      simp at h
      rcases h with rfl | h
      · exact absurd rfl hag
      · exact ih h

theorem lookupNat_isSome_of_mem_keys (k : Nat) : ∀ (l : List (Nat × Nat)), k ∈ l.map (·.1) → (lookupNat k l).isSome := by
  intro l
  induction l with
  | nil => intro h; simp at h
  | cons hd tl ih =>
    obtain ⟨a, b⟩ := hd
    intro h
    simp only [lookupNat]
    by_cases hak : a = k
    · simp [hak]
    · simp only [hak, if_false]
      simp at h
      rcases h with rfl | h
      · exact absurd rfl hak
      · exact ih (by simp; exact h)

/-- every glyph of the glyph set has an image under the glyph map -/
theorem oldToNew_isSome (flags : Nat) (gs : List Nat) (hlen : gs.length ≤ 65536) (g : Nat) (h : g ∈ gs) :
    (oldToNew (gidMap flags gs).1 g).isSome := by
  unfold oldToNew
  apply lookupNat_isSome_of_mem_keys
  rw [List.map_map]
  have htake : gs.take 65536 = gs := List.take_of_length_le hlen
  by_cases hf : hasFlag flags F_RETAIN_GIDS = true
  · simp [gidMap, hf, Function.comp_def]; exact h
  · have hf' : hasFlag flags F_RETAIN_GIDS = false := by simpa using hf
    have : (gidMap flags gs).1.map ((fun x => x.1) ∘ fun no => (no.2, no.1)) = (gidMap flags gs).1.map (·.2) := by
      simp [Function.comp_def]
    rw [this, gidMap_renumber_snd flags gs hf', htake]
    exact h

theorem mapM_option_isSome {α β : Type} (f : α → Option β) : ∀ (l : List α), (∀ x ∈ l, (f x).isSome) → (l.mapM f).isSome := by
  intro l
  induction l with
  | nil => intro _; simp
  | cons a tl ih =>
    intro h
    rw [List.mapM_cons]
    obtain ⟨b, hb⟩ := Option.isSome_iff_exists.mp (h a (by simp))
    obtain ⟨bs, hbs⟩ := Option.isSome_iff_exists.mp (ih (fun x hx => h x (by simp [hx])))
    simp [hb, hbs]

/-! ### the plan, piecewise -/

theorem makePlan_some (p : PlanIn) (pl : Plan) (h : makePlan p = some pl) :
    pl.gsub = planGsub p ∧ pl.colred = planColred p ∧ pl.glyphset = planGlyphset p ∧
    pl.n2o = (gidMap p.flags (planGlyphset p)).1 ∧ pl.nout = (gidMap p.flags (planGlyphset p)).2 ∧
    (unicodesToRetain p).1.mapM
      (fun cg => (oldToNew (gidMap p.flags (planGlyphset p)).1 cg.2).map (fun n => (cg.1, n))) = some pl.u2g := by
  unfold makePlan at h
  simp only at h
  split at h
  · cases h
  · rename_i u2g hu
    simp only [Option.some.injEq] at h
    subst h
    exact ⟨rfl, rfl, rfl, rfl, rfl, hu⟩

theorem mem_planGsub (p : PlanIn) (g : Nat) :
    g ∈ planGsub p ↔ g < p.num ∧ (g = 0 ∨ g ∈ (unicodesToRetain p).2 ∨
      (∃ cg ∈ (unicodesToRetain p).1, cg.2 = g) ∨ g ∈ p.extraGsub) := by
  unfold planGsub
  rw [mem_sortedBelow]
  simp only [List.mem_cons, List.mem_append, List.mem_map]
  constructor
  · rintro ⟨h1, h2⟩
    refine ⟨h1, ?_⟩
    rcases h2 with h | (h | h) | h
    · exact Or.inl h
    · exact Or.inr (Or.inl h)
    · exact Or.inr (Or.inr (Or.inl h))
    · exact Or.inr (Or.inr (Or.inr h))
  · rintro ⟨h1, h2⟩
    refine ⟨h1, ?_⟩
    rcases h2 with h | h | h | h
    · exact Or.inl h
    · exact Or.inr (Or.inl (Or.inl h))
    · exact Or.inr (Or.inl (Or.inr h))
    · exact Or.inr (Or.inr h)

theorem planGsub_sub_colred (p : PlanIn) (g : Nat) (h : g ∈ planGsub p) : g ∈ planColred p := by
  unfold planColred
  rw [mem_sortedBelow, List.mem_append]
  exact ⟨((mem_planGsub p g).mp h).1, Or.inl h⟩

theorem planColred_sub_glyphset (p : PlanIn) (g : Nat) (h : g ∈ planColred p) : g ∈ planGlyphset p := by
  unfold planGlyphset
  rw [mem_sortedBelow]
  have hlt : g < p.num := by
    unfold planColred at h; rw [mem_sortedBelow] at h; exact h.1
  exact ⟨hlt, closureAll_roots _ _ _ _ g h⟩

theorem sortedBelow_length_le (n : Nat) (s : List Nat) : (sortedBelow n s).length ≤ n := by
  have : (sortedBelow n s).length ≤ (List.range n).length := by
    unfold sortedBelow; exact List.length_filter_le _ _
  simpa using this

/-! ### trim_simple_glyph_padding -/

/-- one flag run: the flag byte and how many points it covers -/
def encRun (r : Nat × Nat) : Bytes := if r.1 &&& 0x08 != 0 then [r.1, r.2 - 1] else [r.1]
def encRuns (rs : List (Nat × Nat)) : Bytes := rs.flatMap encRun
def runOk (r : Nat × Nat) : Prop := if r.1 &&& 0x08 != 0 then 1 ≤ r.2 else r.2 = 1

/-- what a non-zero result of the flag walk means -/
def TrimSpec (numCoords : Nat) (d : Bytes) (i cb cwf k : Nat) : Prop :=
  ∃ runs : List (Nat × Nat), (∀ r ∈ runs, runOk r) ∧ encRuns runs <+: d ∧
    cwf + (runs.map (·.2)).sum = numCoords ∧
    k = i + (encRuns runs).length + cb + (runs.map (fun r => coordSize r.1 * r.2)).sum

theorem trimSpec_nil (numCoords : Nat) (d : Bytes) (i cb : Nat) : TrimSpec numCoords d i cb numCoords (i + cb) :=
  ⟨[], by simp, by simp [encRuns], by simp, by simp [encRuns]⟩

theorem trimSpec_cons_rep (numCoords f r : Nat) (rest : Bytes) (i cb cwf k : Nat) (hf : (f &&& 0x08 != 0) = true)
    (h : TrimSpec numCoords rest (i + 2) (cb + coordSize f * (r + 1)) (cwf + (r + 1)) k) :
    TrimSpec numCoords (f :: r :: rest) i cb cwf k := by
  obtain ⟨runs, h1, h2, h3, h4⟩ := h
  refine ⟨(f, r + 1) :: runs, ?_, ?_, ?_, ?_⟩
  · intro x hx
    simp at hx
    rcases hx with rfl | hx
    · simp [runOk, hf]
    · exact h1 x hx
  · obtain ⟨t, ht⟩ := h2
    refine ⟨t, ?_⟩
    simp only [encRuns, List.flatMap_cons, encRun, hf, if_true] at ht ⊢
    simp [← ht]
  · simp only [List.map_cons, List.sum_cons]; omega
  · simp only [encRuns, List.flatMap_cons, encRun, hf, if_true, List.map_cons, List.sum_cons,
      List.length_append, List.length_cons, List.length_nil] at h4 ⊢
    generalize coordSize f * (r + 1) = q at *
    omega

theorem trimSpec_cons_one (numCoords f : Nat) (rest : Bytes) (i cb cwf k : Nat) (hf : ¬ (f &&& 0x08 != 0) = true)
    (h : TrimSpec numCoords rest (i + 1) (cb + coordSize f) (cwf + 1) k) :
    TrimSpec numCoords (f :: rest) i cb cwf k := by
  obtain ⟨runs, h1, h2, h3, h4⟩ := h
  have hf' : (f &&& 0x08 != 0) = false := Bool.eq_false_iff.mpr hf
  have henc : encRun (f, 1) = [f] := by simp only [encRun, hf', Bool.false_eq_true, if_false]
  refine ⟨(f, 1) :: runs, ?_, ?_, ?_, ?_⟩
  · intro x hx
    simp at hx
    rcases hx with rfl | hx
    · simp [runOk, hf']
    · exact h1 x hx
  · obtain ⟨t, ht⟩ := h2
    refine ⟨t, ?_⟩
    simp only [encRuns, List.flatMap_cons, henc] at ht ⊢
    simp [← ht]
  · simp only [List.map_cons, List.sum_cons]; omega
  · simp only [encRuns, List.flatMap_cons, henc, List.map_cons, List.sum_cons,
      List.length_append, List.length_cons, List.length_nil, Nat.mul_one] at h4 ⊢
    omega

theorem trimGo_spec (numCoords : Nat) : ∀ (d : Bytes) (i cb cwf k : Nat),
    trimGo numCoords d i cb cwf = k → k ≠ 0 → TrimSpec numCoords d i cb cwf k
  | [], i, cb, cwf, k, h, hne => by
    simp only [trimGo] at h
    split at h
    · exact absurd h.symm hne
    · rename_i hc
      have : numCoords = cwf := by simpa using hc
      subst this; subst h
      exact trimSpec_nil _ _ _ _
  | [f], i, cb, cwf, k, h, hne => by
    simp only [trimGo] at h
    split at h
    · exact absurd h.symm hne
    · rename_i hf
      split at h
      · exact absurd h.symm hne
      · rename_i hc
        have hc' : numCoords = cwf + 1 := by simpa using hc
        apply trimSpec_cons_one _ _ _ _ _ _ _ hf
        have := trimSpec_nil numCoords [] (i + 1) (cb + coordSize f)
        rw [← hc']
        have e : k = i + 1 + (cb + coordSize f) := by omega
        rw [e]; exact this
  | f :: r :: rest, i, cb, cwf, k, h, hne => by
    simp only [trimGo] at h
    split at h
    · rename_i hf
      split at h
      · split at h
        · exact absurd h.symm hne
        · rename_i _ hc
          have hc' : numCoords = cwf + (r + 1) := by simpa using hc
          apply trimSpec_cons_rep _ _ _ _ _ _ _ _ hf
          have := trimSpec_nil numCoords rest (i + 2) (cb + coordSize f * (r + 1))
          rw [← hc']
          have e : k = i + 2 + (cb + coordSize f * (r + 1)) := by
            generalize coordSize f * (r + 1) = q at *; omega
          rw [e]; exact this
      · exact trimSpec_cons_rep _ _ _ _ _ _ _ _ hf (trimGo_spec numCoords rest _ _ _ k h hne)
    · rename_i hf
      split at h
      · split at h
        · exact absurd h.symm hne
        · rename_i _ hc
          have hc' : numCoords = cwf + 1 := by simpa using hc
          apply trimSpec_cons_one _ _ _ _ _ _ _ hf
          have := trimSpec_nil numCoords (r :: rest) (i + 1) (cb + coordSize f)
          rw [← hc']
          have e : k = i + 1 + (cb + coordSize f) := by omega
          rw [e]; exact this
      · exact trimSpec_cons_one _ _ _ _ _ _ _ hf (trimGo_spec numCoords (r :: rest) _ _ _ k h hne)

/-! ### subset_composite_glyph -/

/-- the component glyph ids of a composite record, walking the records the way the subsetter (and
read-fonts) does; `none` when a record header does not fit -/
def compIds (d : Bytes) (len : Nat) : Nat → Nat → Option (List Nat)
  | 0, _ => none
  | fuel + 1, i =>
    if i + 3 ≥ len then none else
    let f := u16At d i &&& COMPOSITE_KNOWN_BITS
    let rest := if f &&& 0x0020 != 0 then compIds d len fuel (i + compRecSize f) else some []
    rest.map (u16At d (i + 2) :: ·)

theorem compFlags_bit (flags i x m : Nat) (hm : 0x1EEF &&& m = m ∧ 0x0400 &&& m = 0) :
    compFlags flags i (x &&& COMPOSITE_KNOWN_BITS) &&& m = (x &&& COMPOSITE_KNOWN_BITS) &&& m := by
  unfold compFlags
  simp only
  split <;> split <;> simp only [Nat.and_or_distrib_right, Nat.and_assoc, hm.1, hm.2, Nat.or_zero]

theorem compFlags_known (flags i x : Nat) :
    compFlags flags i (x &&& COMPOSITE_KNOWN_BITS) &&& COMPOSITE_KNOWN_BITS = compFlags flags i (x &&& COMPOSITE_KNOWN_BITS) := by
  unfold compFlags COMPOSITE_KNOWN_BITS
  simp only
  have e1 : (0x1FEF : Nat) &&& 0x1FEF = 0x1FEF := rfl
  have e2 : (0x1EEF : Nat) &&& 0x1FEF = 0x1EEF := rfl
  have e3 : (0x0400 : Nat) &&& 0x1FEF = 0x0400 := rfl
  split <;> split <;> simp only [Nat.and_or_distrib_right, Nat.and_assoc, e1, e2, e3]

theorem compFlags_lt (flags i x : Nat) : compFlags flags i (x &&& COMPOSITE_KNOWN_BITS) < 65536 := by
  have h := compFlags_known flags i x
  have : compFlags flags i (x &&& COMPOSITE_KNOWN_BITS) &&& COMPOSITE_KNOWN_BITS ≤ COMPOSITE_KNOWN_BITS := Nat.and_le_right
  rw [h] at this
  have hk : COMPOSITE_KNOWN_BITS = 8175 := rfl
  omega

theorem compRecSize_compFlags (flags i x : Nat) :
    compRecSize (compFlags flags i (x &&& COMPOSITE_KNOWN_BITS)) = compRecSize (x &&& COMPOSITE_KNOWN_BITS) := by
  unfold compRecSize
  rw [compFlags_bit flags i x 0x0001 ⟨rfl, rfl⟩, compFlags_bit flags i x 0x0008 ⟨rfl, rfl⟩,
      compFlags_bit flags i x 0x0040 ⟨rfl, rfl⟩, compFlags_bit flags i x 0x0080 ⟨rfl, rfl⟩]


/-! list helpers -/

theorem getD_set_ne (l : Bytes) (i j a : Nat) (h : i ≠ j) : (l.set i a).getD j 0 = l.getD j 0 := by
  simp [List.getD_eq_getElem?_getD, List.getElem?_set, h]

theorem getD_set_eq (l : Bytes) (i a : Nat) (h : i < l.length) : (l.set i a).getD i 0 = a := by
  simp [List.getD_eq_getElem?_getD, List.getElem?_set, h]

theorem putU16_length (l : Bytes) (i v : Nat) : (putU16 l i v).length = l.length := by
  simp [putU16]

theorem putU16_getD_ne (l : Bytes) (i v j : Nat) (h1 : j ≠ i) (h2 : j ≠ i + 1) :
    (putU16 l i v).getD j 0 = l.getD j 0 := by
  unfold putU16
  rw [getD_set_ne _ _ _ _ (by omega), getD_set_ne _ _ _ _ (by omega)]

theorem putU16_read (l : Bytes) (i v : Nat) (hv : v < 65536) (hi : i + 1 < l.length) :
    u16At (putU16 l i v) i = v := by
  unfold u16At putU16
  rw [getD_set_ne _ _ _ _ (by omega), getD_set_eq _ _ _ (by omega),
      getD_set_eq _ _ _ (by simp; omega)]
  omega

theorem u16At_congr (a b : Bytes) (i : Nat) (h0 : a.getD i 0 = b.getD i 0) (h1 : a.getD (i + 1) 0 = b.getD (i + 1) 0) :
    u16At a i = u16At b i := by
  unfold u16At; rw [h0, h1]

theorem compWriteFlags_cases (flags i f0 : Nat) (out : Bytes) :
    compWriteFlags flags i f0 out = out ∧ compFlags flags i f0 = f0 ∨
    compWriteFlags flags i f0 out = putU16 out i (compFlags flags i f0) ∨
    compWriteFlags flags i f0 out = putU16 (putU16 out i (f0 &&& 0x1EEF)) i (compFlags flags i f0) := by
  by_cases hA : (f0 &&& 0x0100 != 0) ∧ hasFlag flags F_NO_HINTING
  · by_cases hB : hasFlag flags F_SET_OVERLAPS ∧ i = 10
    · right; right
      simp only [compWriteFlags, hA, hB, and_self, if_true]
    · right; left
      simp only [compWriteFlags, compFlags, hA, hB, and_self, if_true, if_false]
  · by_cases hB : hasFlag flags F_SET_OVERLAPS ∧ i = 10
    · right; left
      simp only [compWriteFlags, hA, hB, and_self, if_true, if_false]
    · left
      simp only [compWriteFlags, compFlags, hA, hB, if_false, and_self]

theorem compWriteFlags_length (flags i f0 : Nat) (out : Bytes) :
    (compWriteFlags flags i f0 out).length = out.length := by
  rcases compWriteFlags_cases flags i f0 out with ⟨h, _⟩ | h | h <;> rw [h] <;> simp [putU16_length]

theorem compWriteFlags_getD_ne (flags i f0 : Nat) (out : Bytes) (j : Nat) (h1 : j ≠ i) (h2 : j ≠ i + 1) :
    (compWriteFlags flags i f0 out).getD j 0 = out.getD j 0 := by
  rcases compWriteFlags_cases flags i f0 out with ⟨h, _⟩ | h | h <;> rw [h]
  · rw [putU16_getD_ne _ _ _ _ h1 h2]
  · rw [putU16_getD_ne _ _ _ _ h1 h2, putU16_getD_ne _ _ _ _ h1 h2]

/-- reading the flag word back (truncated) gives the local `flags` value of the round -/
theorem compWriteFlags_read (flags i : Nat) (out : Bytes) (hi : i + 1 < out.length) :
    u16At (compWriteFlags flags i (u16At out i &&& COMPOSITE_KNOWN_BITS) out) i &&& COMPOSITE_KNOWN_BITS =
      compFlags flags i (u16At out i &&& COMPOSITE_KNOWN_BITS) := by
  have hlt := compFlags_lt flags i (u16At out i)
  have hk := compFlags_known flags i (u16At out i)
  rcases compWriteFlags_cases flags i (u16At out i &&& COMPOSITE_KNOWN_BITS) out with ⟨h, h'⟩ | h | h <;> rw [h]
  · rw [h']
  · rw [putU16_read _ _ _ hlt hi, hk]
  · rw [putU16_read _ _ _ hlt (by rw [putU16_length]; exact hi), hk]

theorem compIds_congr (len : Nat) : ∀ (fuel : Nat) (a b : Bytes) (i : Nat),
    (∀ j, i ≤ j → a.getD j 0 = b.getD j 0) → compIds a len fuel i = compIds b len fuel i := by
  intro fuel
  induction fuel with
  | zero => intro a b i _; rfl
  | succ n ih =>
    intro a b i h
    unfold compIds
    have e0 : u16At a i = u16At b i := u16At_congr a b i (h i (Nat.le_refl _)) (h (i + 1) (by omega))
    have e2 : u16At a (i + 2) = u16At b (i + 2) := u16At_congr a b (i + 2) (h _ (by omega)) (h _ (by omega))
    rw [e0, e2]
    split
    · rfl
    · simp only
      rw [ih a b _ (fun j hj => h j (by omega))]

/-- **one walk, two readings.** Whenever the rewrite loop succeeds from offset `i`, the input record
has a well-formed component list from `i`, every component glyph has an image under the glyph map,
and re-reading the output from `i` gives exactly the images (as u16), record for record; the output
has the input's length and is untouched below `i`. -/
theorem compLoop_spec (flags : Nat) (gmap : Nat → Option Nat) (len : Nat) :
    ∀ (fuel : Nat) (out : Bytes) (i : Nat) (whi : Bool) (res : Bytes × Nat × Bool),
      len ≤ out.length → compLoop flags gmap len fuel out i whi = some res →
      res.1.length = out.length ∧ (∀ j, j < i → res.1.getD j 0 = out.getD j 0) ∧
      ∃ ids news, compIds out len fuel i = some ids ∧ ids.mapM gmap = some news ∧
        compIds res.1 len fuel i = some (news.map (· % 65536)) := by
  intro fuel
  induction fuel with
  | zero => intro out i whi res _ h; simp [compLoop] at h
  | succ n ih =>
    intro out i whi res hlen h
    unfold compLoop at h
    split at h
    · cases h
    · rename_i hbound
      simp only at h
      have hi1 : i + 1 < out.length := by omega
      generalize hf0 : u16At out i &&& COMPOSITE_KNOWN_BITS = f0 at h
      generalize hout2 : compWriteFlags flags i f0 out = out2 at h
      have hlen2 : out2.length = out.length := by rw [← hout2]; exact compWriteFlags_length _ _ _ _
      have hgid : u16At out2 (i + 2) = u16At out (i + 2) := by
        rw [← hout2]
        exact u16At_congr _ _ _ (compWriteFlags_getD_ne _ _ _ _ _ (by omega) (by omega))
          (compWriteFlags_getD_ne _ _ _ _ _ (by omega) (by omega))
      have hread : u16At out2 i &&& COMPOSITE_KNOWN_BITS = compFlags flags i f0 := by
        rw [← hout2, ← hf0]; exact compWriteFlags_read flags i out hi1
      split at h
      · cases h
      · rename_i new hnew
        rw [hgid] at hnew
        generalize hout3 : putU16 out2 (i + 2) (new % 65536) = out3 at h
        have hlen3 : out3.length = out.length := by rw [← hout3, putU16_length, hlen2]
        have hread3 : u16At out3 i &&& COMPOSITE_KNOWN_BITS = compFlags flags i f0 := by
          have e : u16At out3 i = u16At out2 i := by
            rw [← hout3]
            exact u16At_congr _ _ _ (putU16_getD_ne _ _ _ _ (by omega) (by omega))
              (putU16_getD_ne _ _ _ _ (by omega) (by omega))
          rw [e]; exact hread
        have hgid3 : u16At out3 (i + 2) = new % 65536 := by
          rw [← hout3]; exact putU16_read _ _ _ (Nat.mod_lt _ (by omega)) (by omega)
        have hbelow3 : ∀ j, j < i → out3.getD j 0 = out.getD j 0 := by
          intro j hj
          rw [← hout3, putU16_getD_ne _ _ _ _ (by omega) (by omega), ← hout2,
            compWriteFlags_getD_ne _ _ _ _ _ (by omega) (by omega)]
        have hsize : compRecSize (compFlags flags i f0) = compRecSize f0 := by
          rw [← hf0]; exact compRecSize_compFlags flags i (u16At out i)
        have hmore : compFlags flags i f0 &&& 0x0020 = f0 &&& 0x0020 := by
          rw [← hf0]; exact compFlags_bit flags i (u16At out i) 0x0020 ⟨rfl, rfl⟩
        -- the next offset, as `compRecSize`
        have hnext : i + 4 + (if compFlags flags i f0 &&& 0x0001 != 0 then 4 else 2) +
            (if compFlags flags i f0 &&& 0x0008 != 0 then 2 else if compFlags flags i f0 &&& 0x0040 != 0 then 4
              else if compFlags flags i f0 &&& 0x0080 != 0 then 8 else 0) = i + compRecSize f0 := by
          rw [← hsize]; unfold compRecSize; omega
        rw [hnext] at h
        have hsz : 6 ≤ compRecSize f0 := by unfold compRecSize; split <;> omega
        -- bytes from the next offset on agree between out and out3
        have hagree : ∀ j, i + compRecSize f0 ≤ j → out.getD j 0 = out3.getD j 0 := by
          intro j hj
          rw [← hout3, putU16_getD_ne _ _ _ _ (by omega) (by omega), ← hout2,
            compWriteFlags_getD_ne _ _ _ _ _ (by omega) (by omega)]
        split at h
        · -- more components
          rename_i hm
          obtain ⟨r1, r2, ids, news, r3, r4, r5⟩ := ih out3 _ _ res (by omega) h
          refine ⟨by omega, fun j hj => by rw [r2 j (by omega)]; exact hbelow3 j hj, ?_⟩
          refine ⟨u16At out (i + 2) :: ids, new :: news, ?_, ?_, ?_⟩
          · unfold compIds
            simp only [hbound, if_false, hf0]
            have : (f0 &&& 0x0020 != 0) = true := by rw [← hmore]; exact hm
            simp only [this, if_true]
            rw [compIds_congr len n out out3 _ hagree, r3]; rfl
          · rw [List.mapM_cons, hnew, r4]; rfl
          · unfold compIds
            simp only [hbound, if_false]
            have hr0 : u16At res.1 i = u16At out3 i :=
              u16At_congr _ _ _ (r2 i (by omega)) (r2 (i + 1) (by omega))
            have hr2 : u16At res.1 (i + 2) = u16At out3 (i + 2) :=
              u16At_congr _ _ _ (r2 (i + 2) (by omega)) (r2 (i + 3) (by omega))
            rw [hr0, hr2, hread3, hgid3, hsize]
            simp only [hm, if_true]
            rw [r5]; rfl
        · -- last component
          rename_i hm
          simp only [Option.some.injEq] at h
          subst h
          refine ⟨hlen3, hbelow3, [u16At out (i + 2)], [new], ?_, ?_, ?_⟩
          · unfold compIds
            simp only [hbound, if_false, hf0]
            have : ¬ (f0 &&& 0x0020 != 0) = true := by rw [← hmore]; exact hm
            simp only [this, if_false]; rfl
          · rw [List.mapM_cons, hnew]; rfl
          · unfold compIds
            simp only [hbound, if_false, hread3, hgid3, hm]; rfl

/-- the components read-fonts iterates (closure) are a prefix of the components the rewriter walks -/
theorem compIterGo_prefix (d : Bytes) : ∀ (fuel i : Nat) (ids : List Nat),
    compIds d d.length fuel i = some ids → compIterGo d fuel i <+: ids := by
  intro fuel
  induction fuel with
  | zero => intro i ids h; simp [compIds] at h
  | succ n ih =>
    intro i ids h
    unfold compIds at h
    split at h
    · cases h
    · simp only at h
      unfold compIterGo
      simp only
      split
      · exact List.nil_prefix
      · split at h
        · rename_i hm
          cases hrest : compIds d d.length n (i + compRecSize (u16At d i &&& COMPOSITE_KNOWN_BITS)) with
          | none => simp [hrest] at h
          | some rest =>
            simp [hrest] at h
            subst h
            simp only [hm, if_true]
            exact List.prefix_cons_inj _ |>.mpr (ih _ rest hrest)
        · rename_i hm
          simp at h
          subst h
          simp only [hm, if_false]
          exact List.prefix_refl _


/-! ### subset_simple_glyph -/

theorem sliceGet_zero (d : Bytes) (k : Nat) (t : Bytes) (h : sliceGet d 0 k = some t) : t = d.take k ∧ k ≤ d.length := by
  unfold sliceGet at h
  split at h
  · rename_i hc; simp at h; subst h; simp; exact hc.2
  · cases h

theorem take_three (d : Bytes) (a b c : Nat) :
    d.take a ++ (d.drop a).take b ++ (d.drop (a + b)).take c = d.take (a + b + c) := by
  rw [List.take_add, List.take_add]

/-- without NO_HINTING / SET_OVERLAPS the rewritten simple glyph is a prefix of the input record -/
theorem subsetSimple_prefix (flags : Nat) (d : Bytes) (nc : Nat) (out : Bytes) (il k : Nat)
    (hil : il = u16At d (10 + 2 * nc))
    (hk : k = trimSimpleGlyphPadding (d.drop (12 + 2 * nc + il)) (u16At d (10 + 2 * (nc - 1)) + 1))
    (hf1 : hasFlag flags F_NO_HINTING = false) (hf2 : hasFlag flags F_SET_OVERLAPS = false)
    (h : subsetSimple flags d nc = .bytes out) (hne : out ≠ []) :
    out = d.take (12 + 2 * nc + il + k) ∧ k ≠ 0 ∧ 12 + 2 * nc + il + k ≤ d.length := by
  subst hil
  unfold subsetSimple at h
  split at h
  · simp at h; exact absurd h hne
  · have e1 : 10 + 2 * nc + 2 = 12 + 2 * nc := by omega
    have e3 : 12 + 2 * nc - 2 = 10 + 2 * nc := by omega
    simp only [hf1, hf2, e1, e3, Bool.false_eq_true, if_false] at h
    rw [← hk] at h
    split at h
    · simp at h; exact absurd h hne
    · rename_i hk0
      split at h
      · simp at h; exact absurd h hne
      · rename_i t ht
        obtain ⟨ht1, ht2⟩ := sliceGet_zero _ _ _ ht
        simp only [GlyphRes.bytes.injEq] at h
        refine ⟨?_, hk0, ?_⟩
        · rw [← h, ht1]; exact take_three d _ _ _
        · simp only [List.length_drop] at ht2; omega

end FontVerif.Subset
