/-
Helper lemmas for C05 (Model/Graph.lean): transporting the reader's view (`readBack`, `CopyAt`,
`ObjWF`, reachability) along a simulation, for the end-to-end statement about `dump`.
-/
import FontVerif.Model.Graph
import FontVerif.Lemmas.GraphSer
import FontVerif.Lemmas.GraphSort
set_option linter.unusedVariables false
set_option linter.unusedSimpArgs false
namespace FontVerif.Graph
open FontVerif

/-- the position/width/adjustment of the links, in order -/
def fieldsOf (o : Obj) : List (Nat × Nat × Nat) := o.links.map (fun l => (l.pos, l.width, l.adj))

theorem fields_of_shape (o' o : Obj) (φ : Nat → Nat) (h : o'.links.map (linkShape φ) = o.links.map (linkShape id)) :
    fieldsOf o' = fieldsOf o := by
  have := congrArg (List.map (fun (s : Nat × Nat × Nat × Nat) => (s.1, s.2.1, s.2.2.1))) h
  simpa [fieldsOf, linkShape, List.map_map, Function.comp_def] using this

theorem mem_fields (o' o : Obj) (h : fieldsOf o' = fieldsOf o) (l' : Link) (hl : l' ∈ o'.links) :
    ∃ l ∈ o.links, l.pos = l'.pos ∧ l.width = l'.width ∧ l.adj = l'.adj := by
  have hm : (l'.pos, l'.width, l'.adj) ∈ fieldsOf o' := List.mem_map.mpr ⟨l', hl, rfl⟩
  rw [h] at hm
  obtain ⟨l, hlm, he⟩ := List.mem_map.mp hm
  simp only [Prod.mk.injEq] at he
  exact ⟨l, hlm, he.1, he.2.1, he.2.2⟩

theorem objWF_shape (o' o : Obj) (hb : o'.bytes = o.bytes) (hf : fieldsOf o' = fieldsOf o) (h : ObjWF o) : ObjWF o' := by
  constructor
  · intro l' hl'
    obtain ⟨l, hl, h1, h2, _⟩ := mem_fields o' o hf l' hl'
    have := h.1 l hl
    rw [h1, h2, ← hb] at this
    exact this
  · have hp : (fieldsOf o).Pairwise (fun a b => a.1 + a.2.1 ≤ b.1 ∨ b.1 + b.2.1 ≤ a.1) := by
      unfold fieldsOf
      rw [List.pairwise_map]
      exact h.2
    rw [← hf] at hp
    unfold fieldsOf at hp
    rw [List.pairwise_map] at hp
    exact hp

theorem plainByte_shape (o' o : Obj) (hf : fieldsOf o' = fieldsOf o) (k : Nat) (h : PlainByte o' k) : PlainByte o k := by
  intro l hl
  obtain ⟨l', hl', h1, h2, _⟩ := mem_fields o o' hf.symm l hl
  have := h l' hl'
  rw [h1, h2] at this
  exact this

theorem copyAt_shape (out : List Nat) (hd : Nat) (o' o : Obj) (hb : o'.bytes = o.bytes) (hf : fieldsOf o' = fieldsOf o)
    (h : CopyAt out hd o') : CopyAt out hd o := by
  constructor
  · rw [← hb]; exact h.1
  · intro k hk hp
    rw [← hb] at hk ⊢
    exact h.2 k hk (plainByte_shape o o' hf.symm k hp)

/-- a reader guided by the shapes of `g'` sees the same as a reader guided by the shapes of `g`,
when `φ` is a simulation -/
theorem readBack_simulation (out : List Nat) (g' g : Graph) (φ : Nat → Nat) (h : Simulates g' g φ) (fuel : Nat)
    (pos x : Nat) : readBack out g' fuel pos x = readBack out g fuel pos (φ x) := by
  induction fuel generalizing pos x with
  | zero => rfl
  | succ n ih =>
    obtain ⟨hb, hl⟩ := h x
    simp only [readBack]
    congr 1
    · unfold maskedBytes
      rw [hb]
      apply List.map_congr_left
      intro k _
      rw [inSomeField_congr _ _ φ hl k]
    · have h1 : (g'.obj x).links.map (fun l => readBack out g' n (pos + l.adj + readOffset out pos l) l.target)
          = ((g'.obj x).links.map (linkShape φ)).map
              (fun s => readBack out g n (pos + s.2.2.1 + beValue ((out.drop (pos + s.1)).take s.2.1)) s.2.2.2) := by
        simp only [List.map_map, Function.comp_def, linkShape, readOffset]
        apply List.map_congr_left
        intro l _
        exact ih _ l.target
      have h2 : (g.obj (φ x)).links.map (fun l => readBack out g n (pos + l.adj + readOffset out pos l) l.target)
          = ((g.obj (φ x)).links.map (linkShape id)).map
              (fun s => readBack out g n (pos + s.2.2.1 + beValue ((out.drop (pos + s.1)).take s.2.1)) s.2.2.2) := by
        simp only [List.map_map, Function.comp_def, linkShape, readOffset, id]
      rw [h1, h2, hl]

/-- paths of the simulated graph lift to the simulating graph -/
theorem reach_lift (g' g : Graph) (φ : Nat → Nat) (h : Simulates g' g φ) (a' : Nat) (b : Nat)
    (hr : Reach g (φ a') b) : ∃ b', Reach g' a' b' ∧ φ b' = b := by
  induction hr with
  | refl => exact ⟨a', Reach.refl a', rfl⟩
  | step l _ hl ih =>
    obtain ⟨b', hb', hφ⟩ := ih
    obtain ⟨_, hs⟩ := h b'
    rw [hφ] at hs
    have hm : linkShape id l ∈ (g.obj _).links.map (linkShape id) := List.mem_map.mpr ⟨l, hl, rfl⟩
    rw [← hs] at hm
    obtain ⟨l', hl', he⟩ := List.mem_map.mp hm
    simp only [linkShape, id, Prod.mk.injEq] at he
    exact ⟨l'.target, Reach.step l' hb' hl', he.2.2.2⟩

theorem objWF_default : ObjWF (default : Obj) := by
  constructor
  · intro l hl; exact absurd hl List.not_mem_nil
  · exact List.Pairwise.nil

theorem objWF_obj (g : Graph) (hwf : ∀ id o, g.objects.find? id = some o → ObjWF o) (x : Nat) : ObjWF (g.obj x) := by
  unfold Graph.obj
  cases hf : g.objects.find? x with
  | none => exact objWF_default
  | some o => exact hwf x o hf

end FontVerif.Graph
