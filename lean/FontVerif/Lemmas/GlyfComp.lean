/-
Helper lemmas for C09: composite glyph components (flags word, anchors, transforms), the two
component iterators of read-fonts, and GlyfLocaBuilder / get_glyf.
-/
import FontVerif.Lemmas.GlyfBytes
set_option linter.unusedVariables false
namespace FontVerif.Glyf
open FontVerif

/-- everything the component reader asks of a flags word assembled by `Component::write_into`:
`a` anchor flags, `t` transform flag, five user flags, `e` the extra flag. -/
theorem compFlag_facts : ∀ a ∈ [0, 1, 2, 3], ∀ t ∈ [0, 8, 0x40, 0x80], ∀ (r u s n o : Bool),
    ∀ e ∈ [0, 0x20, 0x100],
    (a ||| t ||| (ComponentFlags.bits ⟨r, u, s, n, o⟩) ||| e) &&& COMPOSITE_ALL
        = (a ||| t ||| (ComponentFlags.bits ⟨r, u, s, n, o⟩) ||| e)
    ∧ (a ||| t ||| (ComponentFlags.bits ⟨r, u, s, n, o⟩) ||| e) < 65536
    ∧ hasBit (a ||| t ||| (ComponentFlags.bits ⟨r, u, s, n, o⟩) ||| e) ARG_WORDS = hasBit a ARG_WORDS
    ∧ hasBit (a ||| t ||| (ComponentFlags.bits ⟨r, u, s, n, o⟩) ||| e) ARGS_XY = hasBit a ARGS_XY
    ∧ hasBit (a ||| t ||| (ComponentFlags.bits ⟨r, u, s, n, o⟩) ||| e) HAVE_SCALE = (t == 8)
    ∧ hasBit (a ||| t ||| (ComponentFlags.bits ⟨r, u, s, n, o⟩) ||| e) HAVE_XY_SCALE = (t == 0x40)
    ∧ hasBit (a ||| t ||| (ComponentFlags.bits ⟨r, u, s, n, o⟩) ||| e) HAVE_2X2 = (t == 0x80)
    ∧ hasBit (a ||| t ||| (ComponentFlags.bits ⟨r, u, s, n, o⟩) ||| e) MORE_COMPONENTS = (e == 0x20)
    ∧ hasBit (a ||| t ||| (ComponentFlags.bits ⟨r, u, s, n, o⟩) ||| e) HAVE_INSTR = (e == 0x100)
    ∧ ComponentFlags.ofBits (a ||| t ||| (ComponentFlags.bits ⟨r, u, s, n, o⟩) ||| e)
        = ⟨r, u, s, n, o⟩ := by
  decide +kernel

def Anchor.Valid : Anchor → Prop
  | .offset x y => inI16 x ∧ inI16 y
  | .point b c => b < 65536 ∧ c < 65536

def Transform.Valid (t : Transform) : Prop := inI16 t.xx ∧ inI16 t.yx ∧ inI16 t.xy ∧ inI16 t.yy

def Component.Valid (c : Component) : Prop := c.glyph < 65536 ∧ c.anchor.Valid ∧ c.transform.Valid

theorem anchor_flags_mem (a : Anchor) : a.computeFlags ∈ [0, 1, 2, 3] := by
  cases a with
  | offset x y => simp only [Anchor.computeFlags]; split <;> decide
  | point b c => simp only [Anchor.computeFlags]; split <;> decide

theorem transform_flags_mem (t : Transform) : t.computeFlags ∈ [0, 8, 0x40, 0x80] := by
  unfold Transform.computeFlags; repeat' split
  all_goals decide

theorem readU16_be16 (n : Nat) (h : n < 65536) (rest : List Nat) :
    readU16 (be16 (n : Int) ++ rest) = (some n, rest) := by
  rw [be16_nat n h]
  simp only [List.cons_append, List.nil_append, readU16]
  congr 2; omega

theorem readI8_byte (x : Int) (h : -128 ≤ x ∧ x < 128) (rest : List Nat) :
    readI8 (i8Byte x :: rest) = (some x, rest) := by
  have e : wrapI8 ((i8Byte x : Nat) : Int) = x := by
    unfold i8Byte wrapI8
    simp only []
    split <;> omega
  simp only [readI8, e]

theorem readAnchor_bytes (a : Anchor) (hv : a.Valid) (rest : List Nat) :
    readAnchor (hasBit a.computeFlags ARGS_XY) (hasBit a.computeFlags ARG_WORDS) (a.bytes ++ rest)
      = some (a, rest) := by
  cases a with
  | offset x y =>
    obtain ⟨hx, hy⟩ := hv
    unfold Anchor.bytes
    simp only [Anchor.computeFlags]
    split
    · have e1 : hasBit (ARGS_XY ||| ARG_WORDS) ARGS_XY = true := by decide
      have e2 : hasBit (ARGS_XY ||| ARG_WORDS) ARG_WORDS = true := by decide
      simp only [e1, e2, ↓reduceIte, readAnchor, List.append_assoc, readI16_be16 x hx,
        readI16_be16 y hy]
    · rename_i hc
      have e1 : hasBit (ARGS_XY ||| 0) ARGS_XY = true := by decide
      have e2 : hasBit (ARGS_XY ||| 0) ARG_WORDS = false := by decide
      have hx8 : -128 ≤ x ∧ x < 128 := by omega
      have hy8 : -128 ≤ y ∧ y < 128 := by omega
      simp only [e1, e2, Bool.false_eq_true, ↓reduceIte, readAnchor, List.cons_append,
        List.nil_append, readI8_byte x hx8, readI8_byte y hy8]
  | point b c =>
    obtain ⟨hb, hc⟩ := hv
    unfold Anchor.bytes
    simp only [Anchor.computeFlags]
    split
    · have e1 : hasBit ARG_WORDS ARGS_XY = false := by decide
      have e2 : hasBit ARG_WORDS ARG_WORDS = true := by decide
      simp only [e1, e2, ↓reduceIte, readAnchor, List.append_assoc, readU16_be16 b hb,
        readU16_be16 c hc]
    · rename_i hcnd
      have e1 : hasBit 0 ARGS_XY = false := by decide
      have e2 : hasBit 0 ARG_WORDS = false := by decide
      have hb8 : b % 256 = b := by omega
      have hc8 : c % 256 = c := by omega
      simp only [e1, e2, Bool.false_eq_true, ↓reduceIte, readAnchor, List.cons_append,
        List.nil_append, readU8, hb8, hc8]

theorem readTransform_bytes (t : Transform) (hv : t.Valid) (F : Nat) (rest : List Nat)
    (h1 : hasBit F HAVE_SCALE = (t.computeFlags == 8))
    (h2 : hasBit F HAVE_XY_SCALE = (t.computeFlags == 0x40))
    (h3 : hasBit F HAVE_2X2 = (t.computeFlags == 0x80)) :
    readTransform F (t.bytes ++ rest) = some (t, rest) := by
  obtain ⟨v1, v2, v3, v4⟩ := hv
  unfold readTransform Transform.bytes
  rw [h1, h2, h3]
  unfold Transform.computeFlags
  split
  · have e1 : (HAVE_2X2 == 8) = false := by decide
    have e2 : (HAVE_2X2 == 0x40) = false := by decide
    have e3 : (HAVE_2X2 == 0x80) = true := by decide
    have e4 : hasBit HAVE_2X2 HAVE_2X2 = true := by decide
    simp only [e1, e2, e3, e4, Bool.false_eq_true, ↓reduceIte, List.append_assoc,
      readI16_be16 _ v1, readI16_be16 _ v2, readI16_be16 _ v3, readI16_be16 _ v4]
  · rename_i hz
    have hyx : t.yx = 0 := by omega
    have hxy : t.xy = 0 := by omega
    split
    · have e1 : (HAVE_XY_SCALE == 8) = false := by decide
      have e2 : (HAVE_XY_SCALE == 0x40) = true := by decide
      have e4 : hasBit HAVE_XY_SCALE HAVE_2X2 = false := by decide
      have e5 : hasBit HAVE_XY_SCALE HAVE_XY_SCALE = true := by decide
      simp only [e1, e2, e4, e5, Bool.false_eq_true, ↓reduceIte, List.append_assoc,
        readI16_be16 _ v1, readI16_be16 _ v4]
      cases t; simp_all
    · rename_i hne
      have hyy : t.yy = t.xx := by omega
      split
      · have e1 : (HAVE_SCALE == 8) = true := by decide
        have e4 : hasBit HAVE_SCALE HAVE_2X2 = false := by decide
        have e5 : hasBit HAVE_SCALE HAVE_XY_SCALE = false := by decide
        have e6 : hasBit HAVE_SCALE HAVE_SCALE = true := by decide
        simp only [e1, e4, e5, e6, Bool.false_eq_true, ↓reduceIte, readI16_be16 _ v1]
        cases t; simp_all
      · rename_i h1
        have hxx : t.xx = 16384 := by omega
        have e1 : ((0 : Nat) == 8) = false := by decide
        have e2 : ((0 : Nat) == 0x40) = false := by decide
        have e3 : ((0 : Nat) == 0x80) = false := by decide
        have e4 : hasBit 0 HAVE_2X2 = false := by decide
        have e5 : hasBit 0 HAVE_XY_SCALE = false := by decide
        have e6 : hasBit 0 HAVE_SCALE = false := by decide
        simp only [e1, e2, e3, e4, e5, e6, Bool.false_eq_true, ↓reduceIte, List.nil_append]
        cases t; simp_all

/-- the flags word `Component::write_into` writes -/
def Component.word (c : Component) (e : Nat) : Nat := c.computeFlag ||| e

/-- what `ComponentIter` yields for a written component -/
def Component.read (c : Component) (e : Nat) : RComponent := ⟨c.word e, c.glyph, c.anchor, c.transform⟩

theorem word_facts (c : Component) (e : Nat) (he : e ∈ [0, 0x20, 0x100]) :
    c.word e &&& COMPOSITE_ALL = c.word e ∧ c.word e < 65536
    ∧ hasBit (c.word e) ARG_WORDS = hasBit c.anchor.computeFlags ARG_WORDS
    ∧ hasBit (c.word e) ARGS_XY = hasBit c.anchor.computeFlags ARGS_XY
    ∧ hasBit (c.word e) HAVE_SCALE = (c.transform.computeFlags == 8)
    ∧ hasBit (c.word e) HAVE_XY_SCALE = (c.transform.computeFlags == 0x40)
    ∧ hasBit (c.word e) HAVE_2X2 = (c.transform.computeFlags == 0x80)
    ∧ hasBit (c.word e) MORE_COMPONENTS = (e == 0x20)
    ∧ hasBit (c.word e) HAVE_INSTR = (e == 0x100)
    ∧ ComponentFlags.ofBits (c.word e) = c.flags := by
  have := compFlag_facts c.anchor.computeFlags (anchor_flags_mem _) c.transform.computeFlags
    (transform_flags_mem _) c.flags.roundXyToGrid c.flags.useMyMetrics c.flags.scaledComponentOffset
    c.flags.unscaledComponentOffset c.flags.overlapCompound e he
  exact this

theorem readComponent_bytes (c : Component) (hv : c.Valid) (e : Nat) (he : e ∈ [0, 0x20, 0x100])
    (rest : List Nat) : readComponent (c.bytes e ++ rest) = some (c.read e, rest) := by
  obtain ⟨hg, ha, ht⟩ := hv
  obtain ⟨f1, f2, f3, f4, f5, f6, f7, _, _, _⟩ := word_facts c e he
  unfold readComponent Component.bytes
  have : (c.computeFlag ||| e) = c.word e := rfl
  rw [this]
  simp only [List.append_assoc, readU16_be16 _ f2, readU16_be16 _ hg, f1, f3, f4,
    readAnchor_bytes c.anchor ha, readTransform_bytes c.transform ht (c.word e) rest f5 f6 f7]
  rfl

/-- what `components()` yields for the written component list (mirror of `componentsBytes`) -/
def expectedComps (hi : Bool) : List Component → List RComponent
  | [] => []
  | [last] => [last.read (if hi then HAVE_INSTR else 0)]
  | c :: c2 :: cs => c.read MORE_COMPONENTS :: expectedComps hi (c2 :: cs)

theorem lastExtra_mem (hi : Bool) : (if hi then HAVE_INSTR else 0) ∈ [0, 0x20, 0x100] := by
  cases hi <;> decide

theorem readComponents_bytes (hi : Bool) (cs : List Component) :
    cs ≠ [] → (∀ c ∈ cs, c.Valid) → ∀ (fuel : Nat) (rest : List Nat), cs.length ≤ fuel →
    readComponents fuel (componentsBytes hi cs ++ rest) = expectedComps hi cs := by
  induction cs with
  | nil => intro h; exact absurd rfl h
  | cons c cs ih =>
    intro _ hv fuel rest hf
    have hc := hv c (by simp)
    obtain ⟨fuel', rfl⟩ : ∃ m, fuel = m + 1 := ⟨fuel - 1, by simp at hf; omega⟩
    cases cs with
    | nil =>
      have hm := lastExtra_mem hi
      have wf := word_facts c _ hm
      simp only [componentsBytes, expectedComps, readComponents,
        readComponent_bytes c hc _ hm rest]
      have : hasBit (c.read (if hi then HAVE_INSTR else 0)).flags MORE_COMPONENTS = false := by
        show hasBit (c.word _) MORE_COMPONENTS = false
        rw [wf.2.2.2.2.2.2.2.1]; cases hi <;> decide
      simp only [this, Bool.false_eq_true, ↓reduceIte]
    | cons c2 cs2 =>
      have hm : MORE_COMPONENTS ∈ [0, 0x20, 0x100] := by decide
      have wf := word_facts c _ hm
      simp only [componentsBytes, expectedComps, readComponents, List.append_assoc,
        readComponent_bytes c hc _ hm]
      have : hasBit (c.read MORE_COMPONENTS).flags MORE_COMPONENTS = true := by
        show hasBit (c.word _) MORE_COMPONENTS = true
        rw [wf.2.2.2.2.2.2.2.1]; decide
      simp only [this, ↓reduceIte]
      rw [ih (by simp) (fun x hx => hv x (by simp [hx])) fuel' rest (by simp at hf ⊢; omega)]

theorem anchor_bytes_len (a : Anchor) :
    a.bytes.length = if hasBit a.computeFlags ARG_WORDS then 4 else 2 := by
  cases a <;> simp only [Anchor.bytes] <;> split <;> simp [be16_length]

theorem transform_bytes_len (t : Transform) :
    t.bytes.length = if t.computeFlags == 8 then 2 else if t.computeFlags == 0x40 then 4
      else if t.computeFlags == 0x80 then 8 else 0 := by
  have hm := transform_flags_mem t
  unfold Transform.bytes
  generalize t.computeFlags = f at hm ⊢
  simp only [List.mem_cons, List.not_mem_nil, or_false] at hm
  rcases hm with rfl | rfl | rfl | rfl <;> simp [hasBit, HAVE_2X2, HAVE_XY_SCALE, HAVE_SCALE, be16_length]

theorem comp_bytes_len (c : Component) (e : Nat) (he : e ∈ [0, 0x20, 0x100]) :
    (c.bytes e).length = 4 + (if hasBit (c.word e) ARG_WORDS then 4 else 2)
      + (if hasBit (c.word e) HAVE_SCALE then 2 else if hasBit (c.word e) HAVE_XY_SCALE then 4
         else if hasBit (c.word e) HAVE_2X2 then 8 else 0) := by
  obtain ⟨_, _, f3, _, f5, f6, f7, _, _, _⟩ := word_facts c e he
  rw [f3, f5, f6, f7]
  simp only [Component.bytes, List.length_append, be16_length, anchor_bytes_len, transform_bytes_len]

/-- flags word of the last written component -/
def lastWord (hi : Bool) : List Component → Nat
  | [] => 0
  | [last] => last.word (if hi then HAVE_INSTR else 0)
  | _ :: c2 :: cs => lastWord hi (c2 :: cs)

theorem skip_step (c : Component) (hv : c.Valid) (e : Nat) (he : e ∈ [0, 0x20, 0x100])
    (pre rest : List Nat) :
    u16At (pre ++ (c.bytes e ++ rest)) pre.length = some (c.word e) ∧
    u16At (pre ++ (c.bytes e ++ rest)) (pre.length + 2) = some c.glyph := by
  obtain ⟨hg, _, _⟩ := hv
  obtain ⟨_, f2, _⟩ := word_facts c e he
  constructor
  · have := u16At_at (pre ++ (c.bytes e ++ rest)) pre
      (be16 c.glyph ++ c.anchor.bytes ++ c.transform.bytes ++ rest) ((c.word e : Nat) : Int)
      pre.length rfl (by simp only [Component.bytes, Component.word, List.append_assoc])
    rw [this]; congr 1; omega
  · have := u16At_at (pre ++ (c.bytes e ++ rest)) (pre ++ be16 ((c.word e : Nat) : Int))
      (c.anchor.bytes ++ c.transform.bytes ++ rest) (c.glyph : Int)
      (pre.length + 2) (by simp [be16_length])
      (by simp only [Component.bytes, Component.word, List.append_assoc])
    rw [this]; congr 1; omega

theorem skipComponents_bytes (hi : Bool) (cs : List Component) :
    cs ≠ [] → (∀ c ∈ cs, c.Valid) → ∀ (fuel : Nat) (pre rest : List Nat) (count lf : Nat),
    cs.length ≤ fuel →
    skipComponents fuel (pre ++ (componentsBytes hi cs ++ rest)) pre.length count lf
      = (count + cs.length, lastWord hi cs, pre.length + (componentsBytes hi cs).length) := by
  induction cs with
  | nil => intro h; exact absurd rfl h
  | cons c cs ih =>
    intro _ hv fuel pre rest count lf hf
    have hc := hv c (by simp)
    obtain ⟨fuel', rfl⟩ : ∃ m, fuel = m + 1 := ⟨fuel - 1, by simp at hf; omega⟩
    cases cs with
    | nil =>
      have hm := lastExtra_mem hi
      have wf := word_facts c _ hm
      have st := skip_step c hc _ hm pre rest
      have bl := comp_bytes_len c _ hm
      simp only [componentsBytes, lastWord, skipComponents, st.1, st.2, wf.1]
      have : hasBit (c.word (if hi then HAVE_INSTR else 0)) MORE_COMPONENTS = false := by
        rw [wf.2.2.2.2.2.2.2.1]; cases hi <;> decide
      simp only [this, Bool.false_eq_true, ↓reduceIte, List.length_cons, List.length_nil]
      rw [bl]
      refine Prod.ext rfl (Prod.ext rfl ?_)
      simp only []; omega
    | cons c2 cs2 =>
      have hm : MORE_COMPONENTS ∈ [0, 0x20, 0x100] := by decide
      have wf := word_facts c _ hm
      have st := skip_step c hc _ hm pre (componentsBytes hi (c2 :: cs2) ++ rest)
      have bl := comp_bytes_len c _ hm
      have hmore : hasBit (c.word MORE_COMPONENTS) MORE_COMPONENTS = true := by
        rw [wf.2.2.2.2.2.2.2.1]; decide
      have e1 : componentsBytes hi (c :: c2 :: cs2) = c.bytes MORE_COMPONENTS ++
          componentsBytes hi (c2 :: cs2) := rfl
      rw [e1, List.append_assoc]
      simp only [skipComponents, st.1, st.2, wf.1, hmore, ↓reduceIte]
      have hpos : pre.length + 4 + (if hasBit (c.word MORE_COMPONENTS) ARG_WORDS = true then 4 else 2) +
          (if hasBit (c.word MORE_COMPONENTS) HAVE_SCALE = true then 2
            else if hasBit (c.word MORE_COMPONENTS) HAVE_XY_SCALE = true then 4
            else if hasBit (c.word MORE_COMPONENTS) HAVE_2X2 = true then 8 else 0)
          = (pre ++ c.bytes MORE_COMPONENTS).length := by
        rw [List.length_append, bl]; omega
      rw [hpos]
      have := ih (by simp) (fun x hx => hv x (by simp [hx])) fuel' (pre ++ c.bytes MORE_COMPONENTS)
        rest (count + 1) (c.word MORE_COMPONENTS) (by simp at hf ⊢; omega)
      rw [List.append_assoc] at this
      rw [this]
      simp only [lastWord, List.length_append, List.length_cons]
      refine Prod.ext ?_ (Prod.ext rfl ?_) <;> simp only [] <;> omega

theorem comps_len_ge (hi : Bool) (cs : List Component) :
    cs.length ≤ (componentsBytes hi cs).length := by
  induction cs with
  | nil => simp [componentsBytes]
  | cons c cs ih =>
    cases cs with
    | nil =>
      have := comp_bytes_len c _ (lastExtra_mem hi)
      simp only [componentsBytes, List.length_cons, List.length_nil]; omega
    | cons c2 cs2 =>
      have := comp_bytes_len c MORE_COMPONENTS (by decide)
      have e1 : componentsBytes hi (c :: c2 :: cs2) = c.bytes MORE_COMPONENTS ++
          componentsBytes hi (c2 :: cs2) := rfl
      rw [e1, List.length_append]
      simp only [List.length_cons] at ih ⊢; omega

theorem lastWord_instr (hi : Bool) (cs : List Component) (h : cs ≠ []) :
    hasBit (lastWord hi cs) HAVE_INSTR = hi := by
  induction cs with
  | nil => exact absurd rfl h
  | cons c cs ih =>
    cases cs with
    | nil =>
      have wf := word_facts c _ (lastExtra_mem hi)
      simp only [lastWord]
      rw [wf.2.2.2.2.2.2.2.2.1]; cases hi <;> decide
    | cons c2 cs2 => simp only [lastWord]; exact ih (by simp)

/-- `count_and_instructions` on the written component data -/
theorem countAndInstructions_bytes (cs : List Component) (instr pad : List Nat)
    (hne : cs ≠ []) (hv : ∀ c ∈ cs, c.Valid) (hil : instr.length < 65536) :
    countAndInstructions (componentsBytes (!instr.isEmpty) cs
        ++ ((if !instr.isEmpty then be16 (instr.length : Int) ++ instr else []) ++ pad))
      = (cs.length, if !instr.isEmpty then some instr else none) := by
  generalize hhi : (!instr.isEmpty) = hi
  have hlen := comps_len_ge hi cs
  have hs := skipComponents_bytes hi cs hne hv
    ((componentsBytes hi cs ++ ((if hi then be16 (instr.length : Int) ++ instr else []) ++ pad)).length + 1)
    [] ((if hi then be16 (instr.length : Int) ++ instr else []) ++ pad) 0 0
    (by simp only [List.length_append]; omega)
  simp only [List.nil_append, List.length_nil, Nat.zero_add] at hs
  unfold countAndInstructions
  simp only []
  rw [hs]
  simp only [lastWord_instr hi cs hne]
  cases hi with
  | false => simp
  | true =>
    simp only [↓reduceIte, List.append_assoc]
    have hu := u16At_at (componentsBytes true cs ++ (be16 (instr.length : Int) ++ (instr ++ pad)))
      (componentsBytes true cs) (instr ++ pad) (instr.length : Int) _ rfl rfl
    rw [hu]
    have e : ((instr.length : Int) % 65536).toNat = instr.length := by omega
    simp only [e]
    have hl : (componentsBytes true cs).length + 2 + instr.length ≤
        (componentsBytes true cs ++ (be16 (instr.length : Int) ++ (instr ++ pad))).length := by
      simp only [List.length_append, be16_length]; omega
    simp only [hl, ↓reduceIte]
    have d : componentsBytes true cs ++ (be16 (instr.length : Int) ++ (instr ++ pad))
        = (componentsBytes true cs ++ be16 (instr.length : Int)) ++ (instr ++ pad) := by
      simp only [List.append_assoc]
    rw [d, List.drop_left' (by simp only [List.length_append, be16_length]), List.take_left]


theorem expected_proj (hi : Bool) (cs : List Component) :
    (expectedComps hi cs).map (fun r => (r.glyph, r.anchor, r.transform, ComponentFlags.ofBits r.flags))
      = cs.map (fun c => (c.glyph, c.anchor, c.transform, c.flags)) := by
  induction cs with
  | nil => rfl
  | cons c cs ih =>
    cases cs with
    | nil =>
      have wf := word_facts c _ (lastExtra_mem hi)
      simp only [expectedComps, List.map_cons, List.map_nil, Component.read, wf.2.2.2.2.2.2.2.2.2]
    | cons c2 cs2 =>
      have wf := word_facts c MORE_COMPONENTS (by decide)
      simp only [expectedComps, List.map_cons, Component.read, wf.2.2.2.2.2.2.2.2.2] at ih ⊢
      rw [ih]

/-- every yielded component except the last carries MORE_COMPONENTS -/
theorem expected_more (hi : Bool) (cs : List Component) :
    (expectedComps hi cs).map (fun r => hasBit r.flags MORE_COMPONENTS)
      = (List.range cs.length).map (fun i => decide (i + 1 < cs.length)) := by
  induction cs with
  | nil => rfl
  | cons c cs ih =>
    cases cs with
    | nil =>
      have wf := word_facts c _ (lastExtra_mem hi)
      simp only [expectedComps, List.map_cons, List.map_nil, Component.read, wf.2.2.2.2.2.2.2.1]
      cases hi <;> rfl
    | cons c2 cs2 =>
      have wf := word_facts c MORE_COMPONENTS (by decide)
      simp only [expectedComps, List.map_cons, Component.read, wf.2.2.2.2.2.2.2.1] at ih ⊢
      rw [ih]
      simp only [List.length_cons, List.range_succ_eq_map, List.map_cons, List.map_map]
      simp
      rfl

/-- `raw_loca` entries pushed after each glyph: running byte length `as u32` -/
def offsFrom : Nat → List (List Nat) → List Nat
  | _, [] => []
  | start, b :: bs => ((start + b.length) % 4294967296) :: offsFrom (start + b.length) bs

/-- byte offset of glyph `i` in the concatenation -/
def prefixLen (bs : List (List Nat)) (i : Nat) : Nat := (bs.take i).flatten.length

theorem build_spec (gs : List Glyph) : ∀ (glyf loca G L : List Nat),
    buildGlyfLoca gs glyf loca = some (G, L) →
    ∃ bs : List (List Nat), gs.map writeGlyph = bs.map WriteResult.ok ∧ G = glyf ++ bs.flatten ∧
      L = loca ++ offsFrom glyf.length bs := by
  induction gs with
  | nil =>
    intro glyf loca G L h
    simp only [buildGlyfLoca, Option.some.injEq, Prod.mk.injEq] at h
    exact ⟨[], rfl, by simp [h.1], by simp [offsFrom, h.2]⟩
  | cons g gs ih =>
    intro glyf loca G L h
    simp only [buildGlyfLoca] at h
    split at h
    · rename_i b hb
      obtain ⟨bs, h1, h2, h3⟩ := ih _ _ G L h
      refine ⟨b :: bs, by simp [hb, h1], by simp [h2], ?_⟩
      rw [h3]; simp [offsFrom, List.length_append]
    · cases h

theorem offs_get (bs : List (List Nat)) : ∀ (start i : Nat), i ≤ bs.length →
    start + bs.flatten.length < 4294967296 →
    (start :: offsFrom start bs)[i]? = some (start + prefixLen bs i) := by
  induction bs with
  | nil => intro start i hi _; simp at hi; subst hi; simp [prefixLen]
  | cons b bs ih =>
    intro start i hi hlt
    simp only [List.flatten_cons, List.length_append] at hlt
    cases i with
    | zero => simp [prefixLen]
    | succ j =>
      have hm : (start + b.length) % 4294967296 = start + b.length := by omega
      have := ih (start + b.length) j (by simpa using hi) (by omega)
      simp only [offsFrom, hm, List.getElem?_cons_succ]
      rw [this]
      simp only [prefixLen, List.take_succ_cons, List.flatten_cons, List.length_append]
      congr 1; omega

theorem flatten_split (bs : List (List Nat)) : ∀ (i : Nat) (hi : i < bs.length),
    bs.flatten = (bs.take i).flatten ++ (bs[i] ++ (bs.drop (i + 1)).flatten) := by
  induction bs with
  | nil => intro i hi; simp at hi
  | cons b bs ih =>
    intro i hi
    cases i with
    | zero => simp
    | succ j =>
      have := ih j (by simpa using hi)
      simp only [List.flatten_cons, List.take_succ_cons, List.drop_succ_cons, List.getElem_cons_succ,
        List.append_assoc]
      rw [← this]

theorem prefixLen_succ (bs : List (List Nat)) (i : Nat) (hi : i < bs.length) :
    prefixLen bs (i + 1) = prefixLen bs i + bs[i].length := by
  unfold prefixLen
  rw [List.take_add_one, List.flatten_append]
  simp [List.getElem?_eq_getElem hi]

theorem prefixLen_le (bs : List (List Nat)) (i : Nat) : prefixLen bs i ≤ bs.flatten.length := by
  unfold prefixLen
  have : bs.flatten = (bs.take i).flatten ++ (bs.drop i).flatten := by
    rw [← List.flatten_append, List.take_append_drop]
  rw [this, List.length_append]; omega

theorem prefixLen_all (bs : List (List Nat)) : prefixLen bs bs.length = bs.flatten.length := by
  unfold prefixLen; rw [List.take_length]

/-- `Loca::get_glyf` on the builder's tables: glyph `i` is exactly its own bytes -/
theorem getGlyf_built (bs : List (List Nat)) (i : Nat) (hi : i < bs.length)
    (h32 : bs.flatten.length < 4294967296) :
    getGlyf (0 :: offsFrom 0 bs) bs.flatten i =
      if bs[i] = [] then GetGlyf.none else GetGlyf.bytes (prefixLen bs i) bs[i] := by
  have g1 := offs_get bs 0 i (by omega) (by omega)
  have g2 := offs_get bs 0 (i + 1) (by omega) (by omega)
  simp only [Nat.zero_add] at g1 g2
  have hs := prefixLen_succ bs i hi
  have hle := prefixLen_le bs (i + 1)
  unfold getGlyf
  rw [g1, g2]
  simp only []
  by_cases he : bs[i] = []
  · have : prefixLen bs i = prefixLen bs (i + 1) := by rw [hs, he]; simp
    simp [he, this]
  · have hpos : 0 < bs[i].length := List.length_pos_iff.mpr he
    have hne : ¬ (prefixLen bs i = prefixLen bs (i + 1)) := by omega
    have hok : prefixLen bs i ≤ prefixLen bs (i + 1) ∧ prefixLen bs (i + 1) ≤ bs.flatten.length := by
      omega
    simp only [hne, ↓reduceIte, hok, and_self, he]
    congr 1
    have hd : prefixLen bs (i + 1) - prefixLen bs i = bs[i].length := by omega
    rw [hd]
    conv => lhs; rw [flatten_split bs i hi]
    rw [List.drop_left' (by rfl : (List.take i bs).flatten.length = prefixLen bs i), List.take_left]


theorem offs_props (bs : List (List Nat)) : ∀ (start : Nat),
    start + bs.flatten.length < 4294967296 → (∀ b ∈ bs, b.length % 2 = 0) → start % 2 = 0 →
    (∀ o ∈ start :: offsFrom start bs, o ≤ start + bs.flatten.length ∧ o % 2 = 0) ∧
    (start :: offsFrom start bs).getLast? = some (start + bs.flatten.length) := by
  induction bs with
  | nil => intro start _ _ hs; simp [offsFrom, hs]
  | cons b bs ih =>
    intro start hlt hev hs
    simp only [List.flatten_cons, List.length_append] at hlt ⊢
    have hb := hev b (by simp)
    have hm : (start + b.length) % 4294967296 = start + b.length := by omega
    have ⟨i1, i2⟩ := ih (start + b.length) (by omega) (fun x hx => hev x (by simp [hx])) (by omega)
    simp only [offsFrom, hm]
    constructor
    · intro o ho
      simp only [List.mem_cons] at ho
      rcases ho with rfl | ho
      · omega
      · have := i1 o (by simpa using ho); omega
    · rw [List.getLast?_cons_cons, i2]; congr 1; omega

theorem writeGlyph_even (g : Glyph) (b : List Nat) (h : writeGlyph g = .ok b) : b.length % 2 = 0 := by
  cases g with
  | empty => simp [writeGlyph] at h; subst h; rfl
  | simple s =>
    simp only [writeGlyph] at h
    split at h
    · cases h
    · split at h
      · rename_i bb hw
        cases h
        unfold writeSimple at hw
        split at hw
        · cases hw
        · split at hw
          · cases hw; rfl
          · split at hw
            · cases hw
            · split at hw
              · cases hw
              · cases hw; exact padEven_length _
      · cases h
  | composite c =>
    simp only [writeGlyph] at h
    split at h
    · cases h
    · split at h
      · rename_i bb hw
        cases h
        unfold writeComposite at hw
        split at hw
        · cases hw
        · cases hw; exact padEven_length _
      · cases h

end FontVerif.Glyf
