/-
Helper lemmas for C08: `Cmap::from_mappings` as a whole, `Cmap::map_codepoint` over the encoding
records, and skrifa's `Charmap` on the built table.
-/
import FontVerif.Model.Cmap
import FontVerif.Lemmas.Cmap
import FontVerif.Lemmas.Cmap4Top
import FontVerif.Lemmas.CmapNorm
set_option linter.unusedVariables false
namespace FontVerif.Cmap
open FontVerif

/-- some character is in the BMP / in a supplementary plane -/
def HasBmp (m : Mapping) : Prop := ∃ p ∈ m, p.1 ≤ 0xFFFF
def HasSupp (m : Mapping) : Prop := ∃ p ∈ m, p.1 > 0xFFFF

theorem any_supp_iff (m : Mapping) : (m.any fun p => decide (p.1 > 0xFFFF)) = true ↔ HasSupp m := by
  simp [HasSupp, List.any_eq_true]

theorem hasBmp_iff (m : Mapping) (hd : InDomain m) : HasBmp m ↔ bmpPrefix m ≠ [] := by
  unfold HasBmp
  constructor
  · rintro ⟨p, hp, hle⟩ h0
    have : p ∈ bmpPrefix m := (mem_bmpPrefix m hd.asc p).2 ⟨hp, hle⟩
    rw [h0] at this; cases this
  · intro h
    obtain ⟨p, hp⟩ := List.exists_mem_of_ne_nil _ h
    have := (mem_bmpPrefix m hd.asc p).1 hp
    exact ⟨p, this.1, this.2⟩

/-- what `from_mappings` (followed by `dump_table`) returns for an input whose normal form is in
the domain and has at most 6551 BMP characters -/
structure BuiltSpec (m : Mapping) (b : Built) : Prop where
  f4some : HasBmp m → ∃ t, b.fmt4 = some t ∧ createFormat4 m = .ok (some t)
  f4none : ¬ HasBmp m → b.fmt4 = none
  f12some : HasSupp m → ∃ gs, b.fmt12 = some gs.toArray ∧ createFormat12 m = some gs
  f12none : ¬ HasSupp m → b.fmt12 = none

theorem fromMappings_ok (raw : Mapping) (hd : InDomain (normalize raw))
    (hn : (bmpPrefix (normalize raw)).length ≤ 6551) :
    ∃ b, fromMappings raw = .ok b ∧ BuiltSpec (normalize raw) b := by
  have hconf : findConflict (normalize raw) = none :=
    (findConflict_none_iff _ (normalize_sorted raw)).2 hd.asc
  unfold fromMappings
  simp only [hconf]
  generalize hm : normalize raw = m at *
  -- format 12
  have h12 : ∃ f12 : Option (List Group), buildFormat12 m = some f12 ∧
      (HasSupp m → ∃ gs, f12 = some gs ∧ createFormat12 m = some gs) ∧ (¬ HasSupp m → f12 = none) := by
    by_cases hs : HasSupp m
    · have hne : m ≠ [] := by
        obtain ⟨p, hp, _⟩ := hs
        intro h0; rw [h0] at hp; cases hp
      obtain ⟨gs, hgs, _, _⟩ := createFormat12_spec m 0 hne
        (Ascending.ascFrom m 0 hd.asc (fun _ _ => Nat.zero_le _)) hd.small
      refine ⟨some gs, ?_, fun _ => ⟨gs, rfl, hgs⟩, fun h => absurd hs h⟩
      unfold buildFormat12
      rw [if_pos ((any_supp_iff m).2 hs), hgs]
    · refine ⟨none, ?_, fun h => absurd h hs, fun _ => rfl⟩
      have : ¬ ((m.any fun p => decide (p.1 > 0xFFFF)) = true) := fun h => hs ((any_supp_iff m).1 h)
      unfold buildFormat12
      rw [if_neg this]
  obtain ⟨f12, hf12, hf12s, hf12n⟩ := h12
  by_cases hb : HasBmp m
  · obtain ⟨t, ht, hfit⟩ := createFormat4_ok m hd ((hasBmp_iff m hd).1 hb) hn
    refine ⟨{ fmt4 := some t, fmt12 := f12.map List.toArray }, ?_, ?_⟩
    · simp only [ht, hf12, hfit, if_true]
    · refine ⟨fun _ => ⟨t, rfl, ht⟩, fun h => absurd hb h, ?_, ?_⟩
      · intro hs
        obtain ⟨gs, rfl, hgs⟩ := hf12s hs
        exact ⟨gs, rfl, hgs⟩
      · intro hs
        rw [hf12n hs]; rfl
  · have hnone : createFormat4 m = .ok none := by
      rw [createFormat4_none_iff m hd]
      intro p hp
      rcases Nat.lt_or_ge 0xFFFF p.1 with h | h
      · exact h
      · exact absurd ⟨p, hp, h⟩ hb
    refine ⟨{ fmt4 := none, fmt12 := f12.map List.toArray }, ?_, ?_⟩
    · simp only [hnone, hf12, if_true]
    · refine ⟨fun h => absurd h hb, fun _ => rfl, ?_, ?_⟩
      · intro hs
        obtain ⟨gs, rfl, hgs⟩ := hf12s hs
        exact ⟨gs, rfl, hgs⟩
      · intro hs
        rw [hf12n hs]; rfl

/-- whenever `from_mappings` + compile succeed on an input whose normal form is in the domain —
whatever the size — the result has the documented shape -/
theorem builtSpec_of_ok (raw : Mapping) (hd : InDomain (normalize raw)) (b : Built)
    (h : fromMappings raw = .ok b) : BuiltSpec (normalize raw) b := by
  have hconf : findConflict (normalize raw) = none :=
    (findConflict_none_iff _ (normalize_sorted raw)).2 hd.asc
  unfold fromMappings at h
  simp only [hconf] at h
  generalize hm : normalize raw = m at *
  cases h4 : createFormat4 m with
  | trap => simp [h4] at h
  | ok f4 =>
    cases h12 : buildFormat12 m with
    | none => simp [h4, h12] at h
    | some f12 =>
      simp only [h4, h12] at h
      have hb : b = { fmt4 := f4, fmt12 := f12.map List.toArray } := by
        cases f4 with
        | none => simp at h; exact h.symm
        | some t =>
          by_cases ht : t.lengthFits = true
          · simp [ht] at h; exact h.symm
          · simp [ht] at h
      subst hb
      have hnone_iff := createFormat4_none_iff m hd
      have hbmp : HasBmp m ↔ ¬ (∀ p ∈ m, p.1 > 0xFFFF) := by
        unfold HasBmp
        constructor
        · rintro ⟨p, hp, hle⟩ hall
          have := hall p hp; omega
        · intro hn
          apply Classical.byContradiction
          intro hne
          apply hn
          intro p hp
          rcases Nat.lt_or_ge 0xFFFF p.1 with h' | h'
          · exact h'
          · exact absurd ⟨p, hp, h'⟩ hne
      refine ⟨?_, ?_, ?_, ?_⟩
      · intro hb
        cases f4 with
        | none => exact absurd (hnone_iff.1 h4) (hbmp.1 hb)
        | some t => exact ⟨t, rfl, h4⟩
      · intro hb
        have hall : ∀ p ∈ m, p.1 > 0xFFFF := by
          apply Classical.byContradiction
          intro hn
          exact hb (hbmp.2 hn)
        rw [hnone_iff.2 hall] at h4
        injection h4 with h4
        rw [← h4]
      · intro hs
        unfold buildFormat12 at h12
        rw [if_pos ((any_supp_iff m).2 hs)] at h12
        cases hc : createFormat12 m with
        | none => simp [hc] at h12
        | some gs =>
          simp only [hc, Option.some.injEq] at h12
          subst h12
          exact ⟨gs, rfl, rfl⟩
      · intro hs
        unfold buildFormat12 at h12
        have : ¬ ((m.any fun p => decide (p.1 > 0xFFFF)) = true) := fun h' => hs ((any_supp_iff m).1 h')
        rw [if_neg this] at h12
        injection h12 with h12
        rw [← h12]
        rfl

/-! ## lookups through the subtables -/

/-- format-12 lookups on the groups `create_format_12` writes -/
theorem createFormat12_lookup (m : Mapping) (hd : InDomain m) (gs : List Group)
    (h : createFormat12 m = some gs) (c v : Nat) (hc : c < 4294967296) :
    map12 gs.toArray c = some v ↔ (c, v) ∈ m := by
  have hne : m ≠ [] := by intro h0; subst h0; simp [createFormat12] at h
  obtain ⟨gs', h1, h2, h3⟩ := createFormat12_spec m 0 hne
    (Ascending.ascFrom m 0 hd.asc (fun _ _ => Nat.zero_le _)) hd.small
  rw [h] at h1
  cases h1
  have hb : GroupsBounded gs := groupsBounded_of_expand gs 0 h2 (h3 ▸ hd.small)
  rw [map12_iff gs 0 h2 hb c v hc, h3]

theorem map4_above (t : Cmap4) (c : Nat) (hc : c > 0xFFFF) : map4 t c = none := by
  simp [map4, map4With, hc]

/-- `Cmap::map_codepoint` on the built table: the mapped glyph for mapped characters; glyph 0 for
U+FFFF when a format-4 subtable exists; `none` otherwise -/
theorem cmapMap_built (m : Mapping) (hd : InDomain m) (b : Built) (hs : BuiltSpec m b)
    (c v : Nat) (hc : c < 4294967296) :
    cmapMap b.subtables c = some v ↔ (c, v) ∈ m ∨ (c = 0xFFFF ∧ v = 0 ∧ HasBmp m) := by
  by_cases hb : HasBmp m <;> by_cases hsu : HasSupp m
  · obtain ⟨t, ht, hc4⟩ := hs.f4some hb
    obtain ⟨gs, hg, hc12⟩ := hs.f12some hsu
    have l4 := encode4_lookup m hd (segments m) (segments_tile m) t hc4 c
    have l12 := createFormat12_lookup m hd gs hc12 c
    simp only [Built.subtables, ht, hg, List.cons_append, List.nil_append, cmapMap, Subtable.map]
    cases h4 : map4 t c with
    | some w =>
      simp only [Option.some.injEq]
      constructor
      · rintro rfl
        rcases (l4 w).1 h4 with ⟨h1, _⟩ | ⟨h1, h2⟩
        · exact Or.inl h1
        · exact Or.inr ⟨h1, h2, hb⟩
      · rintro (h | ⟨h1, h2, _⟩)
        · by_cases hle : c ≤ 0xFFFF
          · have := (l4 v).2 (Or.inl ⟨h, hle⟩)
            rw [h4] at this; exact Option.some.inj this
          · rw [map4_above t c (by omega)] at h4; cases h4
        · have := (l4 v).2 (Or.inr ⟨h1, h2⟩)
          rw [h4] at this; exact Option.some.inj this
    | none =>
      cases h12 : map12 gs.toArray c with
      | some w =>
        simp only [Option.some.injEq]
        constructor
        · rintro rfl
          exact Or.inl ((l12 w hc).1 h12)
        · rintro (h | ⟨h1, h2, _⟩)
          · have := (l12 v hc).2 h
            rw [h12] at this; exact Option.some.inj this
          · have := (l4 v).2 (Or.inr ⟨h1, h2⟩)
            rw [h4] at this; cases this
      | none =>
        simp only [h4, h12]
        constructor
        · intro h; cases h
        · rintro (h | ⟨h1, h2, _⟩)
          · have := (l12 v hc).2 h
            rw [h12] at this; cases this
          · have := (l4 v).2 (Or.inr ⟨h1, h2⟩)
            rw [h4] at this; cases this
  · obtain ⟨t, ht, hc4⟩ := hs.f4some hb
    have hg := hs.f12none hsu
    have l4 := encode4_lookup m hd (segments m) (segments_tile m) t hc4 c
    have hall : ∀ w, (c, w) ∈ m → c ≤ 0xFFFF := by
      intro w hw
      rcases Nat.lt_or_ge 0xFFFF c with h | h
      · exact absurd ⟨(c, w), hw, h⟩ hsu
      · exact h
    simp only [Built.subtables, ht, hg, List.cons_append, List.nil_append, List.append_nil, cmapMap, Subtable.map]
    cases h4 : map4 t c with
    | some w =>
      simp only [Option.some.injEq]
      constructor
      · rintro rfl
        rcases (l4 w).1 h4 with ⟨h1, _⟩ | ⟨h1, h2⟩
        · exact Or.inl h1
        · exact Or.inr ⟨h1, h2, hb⟩
      · rintro (h | ⟨h1, h2, _⟩)
        · have := (l4 v).2 (Or.inl ⟨h, hall v h⟩)
          rw [h4] at this; exact Option.some.inj this
        · have := (l4 v).2 (Or.inr ⟨h1, h2⟩)
          rw [h4] at this; exact Option.some.inj this
    | none =>
      simp only [h4]
      constructor
      · intro h; cases h
      · rintro (h | ⟨h1, h2, _⟩)
        · have := (l4 v).2 (Or.inl ⟨h, hall v h⟩)
          rw [h4] at this; cases this
        · have := (l4 v).2 (Or.inr ⟨h1, h2⟩)
          rw [h4] at this; cases this
  · have ht := hs.f4none hb
    obtain ⟨gs, hg, hc12⟩ := hs.f12some hsu
    have l12 := createFormat12_lookup m hd gs hc12 c
    simp only [Built.subtables, ht, hg, List.cons_append, List.nil_append, cmapMap, Subtable.map]
    cases h12 : map12 gs.toArray c with
    | some w =>
      simp only [Option.some.injEq]
      constructor
      · rintro rfl
        exact Or.inl ((l12 w hc).1 h12)
      · rintro (h | ⟨_, _, h3⟩)
        · have := (l12 v hc).2 h
          rw [h12] at this; exact Option.some.inj this
        · exact absurd h3 hb
    | none =>
      simp only [h12]
      constructor
      · intro h; cases h
      · rintro (h | ⟨_, _, h3⟩)
        · have := (l12 v hc).2 h
          rw [h12] at this; cases this
        · exact absurd h3 hb
  · have ht := hs.f4none hb
    have hg := hs.f12none hsu
    simp only [Built.subtables, ht, hg, List.append_nil, cmapMap]
    constructor
    · intro h; cases h
    · rintro (h | ⟨_, _, h3⟩)
      · rcases Nat.lt_or_ge 0xFFFF c with h' | h'
        · exact absurd ⟨(c, v), h, h'⟩ hsu
        · exact absurd ⟨(c, v), h, h'⟩ hb
      · exact absurd h3 hb

/-! ## skrifa `Charmap` on the built table -/

theorem group12_limits (gs : Array Group) (ix maxChar glyphCount : Nat)
    (h : ∀ g, gs[ix]? = some g → g.1 ≤ g.2.1 ∧ g.2.1 ≤ maxChar ∧ g.2.2 + (g.2.1 - g.1) < glyphCount) :
    group12 gs ix (some (maxChar, glyphCount)) = group12 gs ix none := by
  unfold group12
  cases hg : gs[ix]? with
  | none => rfl
  | some g =>
    obtain ⟨s, e, gid⟩ := g
    obtain ⟨h1, h2, h3⟩ := h _ hg
    simp only at h1 h2 h3 ⊢
    congr 3
    omega

theorem iter12From_limits (gs : Array Group) (maxChar glyphCount : Nat)
    (h : ∀ (ix : Nat) (g : Group), gs[ix]? = some g → g.1 ≤ g.2.1 ∧ g.2.1 ≤ maxChar ∧ g.2.2 + (g.2.1 - g.1) < glyphCount) :
    ∀ fuel ix curEnd, iter12From gs (some (maxChar, glyphCount)) fuel ix curEnd = iter12From gs none fuel ix curEnd := by
  intro fuel
  induction fuel with
  | zero => intro ix curEnd; rfl
  | succ f ih =>
    intro ix curEnd
    unfold iter12From
    rw [group12_limits gs ix maxChar glyphCount (h ix)]
    cases group12 gs ix none with
    | none => rfl
    | some r =>
      obtain ⟨lo, hi, s, g⟩ := r
      simp only [ih]

theorem iter12_limits (gs : Array Group) (maxChar glyphCount : Nat)
    (h : ∀ (ix : Nat) (g : Group), gs[ix]? = some g → g.1 ≤ g.2.1 ∧ g.2.1 ≤ maxChar ∧ g.2.2 + (g.2.1 - g.1) < glyphCount) :
    iter12 gs (some (maxChar, glyphCount)) = iter12 gs none := by
  unfold iter12
  rw [group12_limits gs 0 maxChar glyphCount (h 0)]
  cases group12 gs 0 none with
  | none => rfl
  | some r =>
    obtain ⟨lo, hi, s, g⟩ := r
    simp only [iter12From_limits gs maxChar glyphCount h]

/-- enumeration of the groups `create_format_12` writes, under the font's limits -/
theorem createFormat12_iter_limits (m : Mapping) (hd : InDomain m) (gs : List Group)
    (h : createFormat12 m = some gs) (numGlyphs : Nat) (hng : ∀ p ∈ m, p.2 < numGlyphs) :
    iter12 gs.toArray (some (0x10FFFF, numGlyphs)) = m := by
  have hne : m ≠ [] := by intro h0; subst h0; simp [createFormat12] at h
  obtain ⟨gs', h1, h2, h3⟩ := createFormat12_spec m 0 hne
    (Ascending.ascFrom m 0 hd.asc (fun _ _ => Nat.zero_le _)) hd.small
  rw [h] at h1
  cases h1
  have hb : GroupsBounded gs := groupsBounded_of_expand gs 0 h2 (h3 ▸ hd.small)
  rw [iter12_limits, iter12_eq gs 0 h2 hb, h3]
  intro ix g hg
  rw [List.getElem?_toArray] at hg
  have hmem : g ∈ gs := List.mem_of_getElem? hg
  have hle : g.1 ≤ g.2.1 := by
    obtain ⟨hs, _⟩ := h2.sorted
    obtain ⟨j, hj, rfl⟩ := List.getElem_of_mem hmem
    have := (h2.sorted).2.le j hj
    simpa [sAt, eAt, List.getElem?_eq_getElem hj] using this
  have hlast : (g.2.1, g.2.2 + (g.2.1 - g.1)) ∈ m := by
    rw [← h3]
    exact (mem_expandGroups gs _ _).2 ⟨g, hmem, hle, Nat.le_refl _, rfl⟩
  exact ⟨hle, (hd.cp _ hlast).1, hng _ hlast⟩

/-- which subtable `MappingSelection::new` picks on the built table -/
theorem skCharmap_built (m : Mapping) (b : Built) (hs : BuiltSpec m b) :
    (HasSupp m → ∃ gs, b.skCharmap = some (.f12 gs.toArray, false) ∧ createFormat12 m = some gs) ∧
    (¬ HasSupp m → HasBmp m → ∃ t, b.skCharmap = some (.f4 t, false) ∧ createFormat4 m = .ok (some t)) ∧
    (¬ HasSupp m → ¬ HasBmp m → b.skCharmap = none) := by
  refine ⟨?_, ?_, ?_⟩
  · intro hsu
    obtain ⟨gs, hg, hc12⟩ := hs.f12some hsu
    refine ⟨gs, ?_, hc12⟩
    by_cases hb : HasBmp m
    · obtain ⟨t, ht, _⟩ := hs.f4some hb
      have hsel : select [(0, 3, .f4), (0, 4, .f12), (3, 1, .f4), (3, 10, .f12)] =
          { kind := 2, codepointIx := some 3, isSymbol := false, variantIx := none } := by decide
      simp [Built.skCharmap, Built.records, Built.subtables, ht, hg, hsel]
    · have ht := hs.f4none hb
      have hsel : select [(0, 4, .f12), (3, 10, .f12)] =
          { kind := 2, codepointIx := some 1, isSymbol := false, variantIx := none } := by decide
      simp [Built.skCharmap, Built.records, Built.subtables, ht, hg, hsel]
  · intro hsu hb
    have hg := hs.f12none hsu
    obtain ⟨t, ht, hc4⟩ := hs.f4some hb
    refine ⟨t, ?_, hc4⟩
    have hsel : select [(0, 3, .f4), (3, 1, .f4)] =
        { kind := 1, codepointIx := some 1, isSymbol := false, variantIx := none } := by decide
    simp [Built.skCharmap, Built.records, Built.subtables, ht, hg, hsel]
  · intro hsu hb
    have hg := hs.f12none hsu
    have ht := hs.f4none hb
    have hsel : select [] = {} := by decide
    simp [Built.skCharmap, Built.records, ht, hg, hsel]

/-- `Charmap::map` on the built table answers exactly the mapping -/
theorem skMap_built (m : Mapping) (hd : InDomain m) (b : Built) (hs : BuiltSpec m b)
    (c v : Nat) (hc : c < 4294967296) : b.skMap c = some v ↔ (c, v) ∈ m := by
  obtain ⟨k1, k2, k3⟩ := skCharmap_built m b hs
  unfold Built.skMap
  by_cases hsu : HasSupp m
  · obtain ⟨gs, hsel, hc12⟩ := k1 hsu
    have l12 := createFormat12_lookup m hd gs hc12 c
    simp only [hsel, charmapMap, charmapMapImpl, Subtable.map, Bool.false_eq_true, false_and, if_false]
    cases h12 : map12 gs.toArray c with
    | none =>
      simp only
      constructor
      · intro h; cases h
      · intro h; have := (l12 v hc).2 h; rw [h12] at this; cases this
    | some w =>
      have hw := (l12 w hc).1 h12
      have hw0 : w ≠ 0 := by have := (hd.gid _ hw).1; simp only at this; omega
      simp only [hw0, ne_eq, not_false_eq_true, if_true, Option.some.injEq]
      constructor
      · rintro rfl; exact hw
      · intro h; have := (l12 v hc).2 h; rw [h12] at this; exact Option.some.inj this
  · have hall : ∀ w, (c, w) ∈ m → c ≤ 0xFFFF := by
      intro w hw
      rcases Nat.lt_or_ge 0xFFFF c with h | h
      · exact absurd ⟨(c, w), hw, h⟩ hsu
      · exact h
    by_cases hb : HasBmp m
    · obtain ⟨t, hsel, hc4⟩ := k2 hsu hb
      have l4 := encode4_lookup m hd (segments m) (segments_tile m) t hc4 c
      simp only [hsel, charmapMap, charmapMapImpl, Subtable.map, Bool.false_eq_true, false_and, if_false]
      cases h4 : map4 t c with
      | none =>
        simp only
        constructor
        · intro h; cases h
        · intro h; have := (l4 v).2 (Or.inl ⟨h, hall v h⟩); rw [h4] at this; cases this
      | some w =>
        rcases (l4 w).1 h4 with ⟨hw, _⟩ | ⟨h1, h2⟩
        · have hw0 : w ≠ 0 := by have := (hd.gid _ hw).1; simp only at this; omega
          simp only [hw0, ne_eq, not_false_eq_true, if_true, Option.some.injEq]
          constructor
          · rintro rfl; exact hw
          · intro h; have := (l4 v).2 (Or.inl ⟨h, hall v h⟩); rw [h4] at this; exact Option.some.inj this
        · subst h1 h2
          simp only [ne_eq, not_true_eq_false, if_false]
          constructor
          · intro h; cases h
          · intro h; have := (hd.cp _ h).2; simp at this
    · rw [k3 hsu hb]
      simp only
      constructor
      · intro h; cases h
      · intro h
        rcases Nat.lt_or_ge 0xFFFF c with h' | h'
        · exact absurd ⟨(c, v), h, h'⟩ hsu
        · exact absurd ⟨(c, v), h, h'⟩ hb

/-- `Charmap::mappings` on the built table enumerates exactly the mapping, ascending -/
theorem skMappings_built (m : Mapping) (hd : InDomain m) (b : Built) (hs : BuiltSpec m b)
    (numGlyphs : Nat) (hng : ∀ p ∈ m, p.2 < numGlyphs) :
    b.skMappings (0x10FFFF, numGlyphs) = m := by
  obtain ⟨k1, k2, k3⟩ := skCharmap_built m b hs
  have hnz : ∀ l : Mapping, (∀ p ∈ l, p ∈ m) → l.filter (fun p => decide (p.2 ≠ 0)) = l := by
    intro l hl
    rw [List.filter_eq_self]
    intro p hp
    have := (hd.gid p (hl p hp)).1
    simp only [ne_eq, decide_not, Bool.not_eq_eq_eq_not, Bool.not_true, decide_eq_false_iff_not]
    omega
  unfold Built.skMappings
  by_cases hsu : HasSupp m
  · obtain ⟨gs, hsel, hc12⟩ := k1 hsu
    simp only [hsel, charmapMappings]
    rw [createFormat12_iter_limits m hd gs hc12 numGlyphs hng]
    exact hnz m (fun p hp => hp)
  · have hall : ∀ p ∈ m, p.1 ≤ 0xFFFF := by
      intro p hp
      rcases Nat.lt_or_ge 0xFFFF p.1 with h | h
      · exact absurd ⟨p, hp, h⟩ hsu
      · exact h
    by_cases hb : HasBmp m
    · obtain ⟨t, hsel, hc4⟩ := k2 hsu hb
      simp only [hsel, charmapMappings]
      rw [encode4_iter m hd (segments m) (segments_tile m) t hc4, bmpPrefix_eq_filter m hd.asc]
      have hfil : m.filter (fun p => decide (p.1 ≤ 0xFFFF)) = m := by
        rw [List.filter_eq_self]
        intro p hp
        simpa using hall p hp
      rw [hfil, List.filter_append, hnz m (fun p hp => hp)]
      simp
    · rw [k3 hsu hb]
      simp only
      cases m with
      | nil => rfl
      | cons p rest =>
        have hp : p ∈ p :: rest := List.mem_cons_self ..
        exact absurd ⟨p, hp, hall p hp⟩ hb

end FontVerif.Cmap
