/-
Soundness of the write-before-read checker of Model/ScratchFlow.lean:
  * the syntactic order on linear forms holds under every assignment;
  * `symRun` accepting a path means every concrete instance of the path is write-before-read;
  * a machine (`Proc`) whose access sequence is write-before-read computes the same result from any
    two initial buffer contents.
-/
import FontVerif.Model.ScratchFlow
namespace FontVerif.ScratchFlow

/-! ## linear forms -/

theorem coefsLe_sound : ∀ (a b : List Nat), coefsLe a b = true → ∀ env, dot a env ≤ dot b env
  | [], _, _, env => by cases env <;> simp [dot]
  | a :: as, [], h, env => by
    simp only [coefsLe, Bool.and_eq_true, beq_iff_eq] at h
    cases env with
    | nil => simp [dot]
    | cons v vs =>
      have := coefsLe_sound as [] h.2 vs
      have h0 : dot [] vs = 0 := by cases vs <;> simp [dot]
      simp only [dot, h.1, Nat.zero_mul, Nat.zero_add]
      omega
  | a :: as, b :: bs, h, env => by
    simp only [coefsLe, Bool.and_eq_true, decide_eq_true_eq] at h
    cases env with
    | nil => simp [dot]
    | cons v vs =>
      have := coefsLe_sound as bs h.2 vs
      simp only [dot]
      have : a * v ≤ b * v := Nat.mul_le_mul_right v h.1
      omega

theorem Lin.le_sound (a b : Lin) (h : a.le b = true) (env : List Nat) : a.eval env ≤ b.eval env := by
  simp only [Lin.le, Bool.and_eq_true, decide_eq_true_eq] at h
  have := coefsLe_sound _ _ h.1 env
  simp only [Lin.eval]; omega

/-! ## the initialised set -/

/-- the elements a list of symbolic ranges stands for -/
def Sem (env : List Nat) (init : List SRng) : Written := fun f i => ∃ s ∈ init, (s.inst env).has f i

theorem covered_sound (env : List Nat) (init : List SRng) (r : SRng) (w : Written)
    (hc : covered init r = true) (hw : ∀ f i, Sem env init f i → w f i) :
    ∀ f i, (r.inst env).has f i → w f i := by
  intro f i hfi
  simp only [covered, Bool.or_eq_true, List.any_eq_true, Bool.and_eq_true, beq_iff_eq] at hc
  rcases hc with he | ⟨s, hs, ⟨hf, hlo⟩, hhi⟩
  · have := Lin.le_sound _ _ he env
    simp only [CRng.has, SRng.inst] at hfi
    omega
  · apply hw
    refine ⟨s, hs, ?_⟩
    have h1 := Lin.le_sound _ _ hlo env
    have h2 := Lin.le_sound _ _ hhi env
    simp only [CRng.has, SRng.inst] at hfi ⊢
    omega

theorem merge1_sound (env : List Nat) (s r u : SRng) (h : merge1 s r = some u) :
    ∀ f i, (u.inst env).has f i → (s.inst env).has f i ∨ (r.inst env).has f i := by
  intro f i hu
  unfold merge1 at h
  split at h
  · simp at h
  · rename_i hf
    simp only [bne_iff_ne, ne_eq, Decidable.not_not] at hf
    split at h
    · rename_i h1
      simp only [Bool.and_eq_true] at h1
      have a1 := Lin.le_sound _ _ h1.1 env
      have a2 := Lin.le_sound _ _ h1.2 env
      split at h
      · simp only [Option.some.injEq] at h; subst h; exact Or.inl hu
      · split at h
        · rename_i h3
          have a3 := Lin.le_sound _ _ h3 env
          simp only [Option.some.injEq] at h; subst h
          simp only [CRng.has, SRng.inst] at hu ⊢
          omega
        · simp at h
    · split at h
      · rename_i h1
        simp only [Bool.and_eq_true] at h1
        have a1 := Lin.le_sound _ _ h1.1 env
        have a2 := Lin.le_sound _ _ h1.2 env
        split at h
        · simp only [Option.some.injEq] at h; subst h; exact Or.inr hu
        · split at h
          · rename_i h3
            have a3 := Lin.le_sound _ _ h3 env
            simp only [Option.some.injEq] at h; subst h
            simp only [CRng.has, SRng.inst] at hu ⊢
            omega
          · simp at h
      · simp at h

theorem addInit_sound (env : List Nat) : ∀ (init : List SRng) (r : SRng) (f i : Nat),
    Sem env (addInit init r) f i → Sem env init f i ∨ (r.inst env).has f i
  | [], r, f, i, h => by
    simp only [addInit, Sem, List.mem_singleton, exists_eq_left] at h
    exact Or.inr h
  | s :: rest, r, f, i, h => by
    simp only [addInit] at h
    split at h
    · rename_i u hu
      rcases addInit_sound env rest u f i h with h1 | h1
      · obtain ⟨x, hx, hh⟩ := h1
        exact Or.inl ⟨x, List.mem_cons_of_mem _ hx, hh⟩
      · rcases merge1_sound env s r u hu f i h1 with h2 | h2
        · exact Or.inl ⟨s, List.mem_cons_self, h2⟩
        · exact Or.inr h2
    · obtain ⟨x, hx, hh⟩ := h
      rcases List.mem_cons.mp hx with rfl | hx
      · exact Or.inl ⟨x, List.mem_cons_self, hh⟩
      · rcases addInit_sound env rest r f i ⟨x, hx, hh⟩ with h1 | h1
        · obtain ⟨y, hy, hh'⟩ := h1
          exact Or.inl ⟨y, List.mem_cons_of_mem _ hy, hh'⟩
        · exact Or.inr h1

theorem foldl_addInit_sound (env : List Nat) : ∀ (ws : List SRng) (init : List SRng) (f i : Nat),
    Sem env (ws.foldl addInit init) f i → Sem env init f i ∨ inAny (ws.map (·.inst env)) f i
  | [], init, f, i, h => Or.inl h
  | w :: ws, init, f, i, h => by
    simp only [List.foldl_cons] at h
    rcases foldl_addInit_sound env ws (addInit init w) f i h with h1 | h1
    · rcases addInit_sound env init w f i h1 with h2 | h2
      · exact Or.inl h2
      · exact Or.inr ⟨w.inst env, by simp, h2⟩
    · obtain ⟨x, hx, hh⟩ := h1
      exact Or.inr ⟨x, by simp only [List.map_cons, List.mem_cons]; exact Or.inr hx, hh⟩

/-! ## concrete write-before-read: monotonicity, append -/

theorem stepW_mono (w w' : Written) (a : CAcc) (h : ∀ f i, w f i → w' f i) :
    ∀ f i, stepW w a f i → stepW w' a f i := by
  intro f i hs
  rcases hs with hs | hs
  · exact Or.inl (h f i hs)
  · exact Or.inr hs

theorem afterW_mono : ∀ (cs : List CAcc) (w w' : Written), (∀ f i, w f i → w' f i) →
    ∀ f i, afterW cs w f i → afterW cs w' f i
  | [], _, _, h => h
  | a :: cs, w, w', h => afterW_mono cs _ _ (stepW_mono w w' a h)

theorem afterW_grows : ∀ (cs : List CAcc) (w : Written), ∀ f i, w f i → afterW cs w f i
  | [], _, _, _, h => h
  | a :: cs, w, f, i, h => afterW_grows cs (stepW w a) f i (Or.inl h)

theorem wbrOK_mono : ∀ (cs : List CAcc) (w w' : Written), (∀ f i, w f i → w' f i) → wbrOK cs w → wbrOK cs w'
  | [], _, _, _, _ => trivial
  | a :: cs, w, w', h, hok =>
    ⟨fun f i hr => h f i (hok.1 f i hr), wbrOK_mono cs _ _ (stepW_mono w w' a h) hok.2⟩

theorem afterW_append : ∀ (a b : List CAcc) (w : Written), afterW (a ++ b) w = afterW b (afterW a w)
  | [], _, _ => rfl
  | x :: a, b, w => afterW_append a b (stepW w x)

theorem wbrOK_append : ∀ (a b : List CAcc) (w : Written), wbrOK (a ++ b) w ↔ wbrOK a w ∧ wbrOK b (afterW a w)
  | [], b, w => by simp [wbrOK, afterW]
  | x :: a, b, w => by
    simp only [List.cons_append, wbrOK, afterW]
    rw [wbrOK_append a b (stepW w x)]
    exact and_assoc.symm

/-! ## soundness of the symbolic run -/

theorem acc_sound (env : List Nat) (init : List SRng) (a : SAcc) (w : Written)
    (hok : accOK init a = true) (hw : ∀ f i, Sem env init f i → w f i) :
    (∀ f i, inAny (a.inst env).reads f i → w f i) ∧
    (∀ f i, Sem env (accPost init a) f i → stepW w (a.inst env) f i) := by
  constructor
  · intro f i ⟨r, hr, hh⟩
    simp only [SAcc.inst, List.mem_map] at hr
    obtain ⟨sr, hsr, rfl⟩ := hr
    simp only [accOK, List.all_eq_true] at hok
    exact covered_sound env init sr w (hok sr hsr) hw f i hh
  · intro f i h
    rcases foldl_addInit_sound env a.writes init f i h with h1 | h1
    · exact Or.inl (hw f i h1)
    · exact Or.inr h1

theorem runAccs_sound (env : List Nat) : ∀ (b : List SAcc) (init init' : List SRng) (w : Written),
    runAccs b init = some init' → (∀ f i, Sem env init f i → w f i) →
    wbrOK (b.map (·.inst env)) w ∧ ∀ f i, Sem env init' f i → afterW (b.map (·.inst env)) w f i
  | [], init, init', w, h, hw => by
    simp only [runAccs, Option.some.injEq] at h; subst h
    exact ⟨trivial, hw⟩
  | a :: b, init, init', w, h, hw => by
    simp only [runAccs] at h
    split at h
    · rename_i hok
      have ha := acc_sound env init a w hok hw
      have := runAccs_sound env b (accPost init a) init' (stepW w (a.inst env)) h ha.2
      exact ⟨⟨ha.1, this.1⟩, this.2⟩
    · simp at h

theorem symRun_sound (env : List Nat) (p : SPath) (cs : List CAcc) (hc : Conc env p cs) :
    ∀ (init init' : List SRng) (w : Written), symRun p init = some init' →
    (∀ f i, Sem env init f i → w f i) →
    wbrOK cs w ∧ ∀ f i, Sem env init' f i → afterW cs w f i := by
  induction hc with
  | nil =>
    intro init init' w h hw
    simp only [symRun, Option.some.injEq] at h; subst h
    exact ⟨trivial, hw⟩
  | one a p cs _ ih =>
    intro init init' w h hw
    simp only [symRun] at h
    split at h
    · rename_i hok
      have ha := acc_sound env init a w hok hw
      have := ih (accPost init a) init' (stepW w (a.inst env)) h ha.2
      exact ⟨⟨ha.1, this.1⟩, this.2⟩
    · simp at h
  | repStop alts p cs _ ih =>
    intro init init' w h hw
    simp only [symRun] at h
    split at h
    · exact ih init init' w h hw
    · simp at h
  | repIter alts b p cs hb _ ih =>
    intro init init' w h hw
    have h' := h
    simp only [symRun] at h
    split at h
    · rename_i hall
      simp only [List.all_eq_true] at hall
      have hb' := hall b hb
      obtain ⟨ib, hib⟩ := Option.isSome_iff_exists.mp hb'
      have hbs := runAccs_sound env b init ib w hib hw
      have hw' : ∀ f i, Sem env init f i → afterW (b.map (·.inst env)) w f i :=
        fun f i hs => afterW_grows _ w f i (hw f i hs)
      have := ih init init' (afterW (b.map (·.inst env)) w) h' hw'
      rw [wbrOK_append, afterW_append]
      exact ⟨⟨hbs.1, this.1⟩, this.2⟩
    · simp at h

/-! ## the machine -/

theorem restrict_agree (m1 m2 : Mem) (rs : List CRng) (w : Written)
    (hag : ∀ f i, w f i → m1 f i = m2 f i) (hr : ∀ f i, inAny rs f i → w f i) :
    restrict m1 rs = restrict m2 rs := by
  funext f i
  simp only [restrict]
  split
  · rename_i h; exact hag f i (hr f i h)
  · rfl

/-- **Write-before-read implies independence of the initial contents.** If the access sequence of
a run is write-before-read relative to the elements on which two buffers agree, the run on the other
buffer makes the same accesses and returns the same result. -/
theorem proc_independent {R : Type} (p : Proc R) : ∀ (m1 m2 : Mem) (w : Written),
    (∀ f i, w f i → m1 f i = m2 f i) → wbrOK (p.trace m1) w →
    p.run m1 = p.run m2 ∧ p.trace m1 = p.trace m2 := by
  induction p with
  | done r => intro m1 m2 w _ _; exact ⟨rfl, rfl⟩
  | step a val k ih =>
    intro m1 m2 w hag hok
    simp only [Proc.trace, wbrOK] at hok
    have hr := restrict_agree m1 m2 a.reads w hag hok.1
    have hag' : ∀ f i, stepW w a f i →
        update m1 a.writes (val (restrict m1 a.reads)) f i = update m2 a.writes (val (restrict m2 a.reads)) f i := by
      intro f i hs
      simp only [update, hr]
      split
      · rfl
      · rename_i hn
        rcases hs with hs | hs
        · exact hag f i hs
        · exact absurd hs hn
    rw [← hr] at hag'
    have := ih (restrict m1 a.reads) _ _ (stepW w a) hag' hok.2
    simp only [Proc.run, Proc.trace]
    rw [← hr]
    exact ⟨this.1, by rw [this.2]⟩

/-! ## the control skeleton -/

theorem segOK_elim (fns : List Fn) (seg : Seg) (flags : List (Nat × Bool)) (pre post : List SRng)
    (want : Path → Bool) (h : segOK fns seg flags pre want post = true) (p : Path)
    (hp : p ∈ paths fns seg flags) :
    ∃ init, symRun p.evs pre = some init ∧
      (p.aborted = false → want p = true → ∀ r ∈ post, covered init r = true) := by
  simp only [segOK, List.all_eq_true] at h
  have := h p hp
  simp only [Bool.and_eq_true] at this
  cases hs : symRun p.evs pre with
  | none => rw [hs] at this; simp at this
  | some init =>
    rw [hs] at this
    refine ⟨init, rfl, ?_⟩
    intro ha hw r hr
    have h2 := this.2
    simp only [ha, hw, Bool.not_true, Bool.or_false, Bool.false_or, List.all_eq_true] at h2
    exact h2 r hr

/-- what a segment obligation gives for every concrete execution of the segment -/
theorem seg_sound (fns : List Fn) (seg : Seg) (flags : List (Nat × Bool)) (pre post : List SRng)
    (want : Path → Bool) (h : segOK fns seg flags pre want post = true) (p : Path)
    (hp : p ∈ paths fns seg flags) (env : List Nat) (cs : List CAcc) (hc : Conc env p.evs cs)
    (w : Written) (hpre : ∀ f i, Sem env pre f i → w f i) :
    wbrOK cs w ∧ (p.aborted = false → want p = true → ∀ f i, Sem env post f i → afterW cs w f i) := by
  obtain ⟨init, hrun, hpost⟩ := segOK_elim fns seg flags pre post want h p hp
  have hs := symRun_sound env p.evs cs hc pre init w hrun hpre
  refine ⟨hs.1, ?_⟩
  intro ha hw f i ⟨r, hr, hh⟩
  exact covered_sound env init r (afterW cs w) (hpost ha hw r hr) hs.2 f i hh

theorem envStarts_split (env pre : List Nat) (h : envStarts env pre) : ∃ rest, env = pre ++ rest := by
  have := List.take_append_drop pre.length env
  unfold envStarts at h
  rw [h] at this
  exact ⟨_, this.symm⟩

/-- the invariant of `Scaler::load`: everything below the running counters has been written -/
def Inv (P : Pipeline) (w : Written) (st : St) : Prop :=
  (∀ i, i < st.pc → w P.pts i ∧ w P.flags i) ∧ (∀ i, i < st.cc → w P.contours i)

def JobPre (P : Pipeline) (w : Written) : Job → St → Prop
  | .glyph _, _ => True
  | .comps hd pb db k _, st => pb ≤ st.pc ∧ (hd = true → ∀ i, db ≤ i → i < db + k → w P.compDeltas i)
  | .compBody hd st0 db comps, st =>
    st0 = st ∧ (hd = true → ∀ i, db ≤ i → i < db + comps.length → w P.compDeltas i)

theorem Inv_mono (P : Pipeline) (w w' : Written) (st : St) (h : ∀ f i, w f i → w' f i) (hi : Inv P w st) :
    Inv P w' st :=
  ⟨fun i hlt => ⟨h _ _ (hi.1 i hlt).1, h _ _ (hi.1 i hlt).2⟩, fun i hlt => h _ _ (hi.2 i hlt)⟩

structure PipelineFacts (P : Pipeline) : Prop where
  simple : segOK P.fns P.simple [] [] (fun _ => true) (simplePost P) = true
  compPre : segOK P.fns P.compPre [] [] (fun p => getFlag p.flags P.haveDeltas == some true) (compPrePost P) = true
  iterT : segOK P.fns P.compIter [(P.haveDeltas, true)] (compIterPre P true) (fun _ => true) [] = true
  iterF : segOK P.fns P.compIter [(P.haveDeltas, false)] (compIterPre P false) (fun _ => true) [] = true
  compPost : segOK P.fns P.compPost [] (compPostPre P) (fun _ => true) [] = true
  final : segOK P.fns P.final [] (finalPre P) (fun _ => true) [] = true

theorem pipelineOK_facts (P : Pipeline) (h : pipelineOK P = true) : PipelineFacts P := by
  simp only [pipelineOK, Bool.and_eq_true] at h
  exact ⟨h.1.1.1.1.1.1, h.1.1.1.1.1.2, h.1.1.1.2, h.1.1.2, h.1.2, h.2⟩

theorem sem_nil (env : List Nat) (w : Written) : ∀ f i, Sem env [] f i → w f i := by
  intro f i ⟨s, hs, _⟩; simp at hs

theorem iter_sound (P : Pipeline) (hP : PipelineFacts P) (hd : Bool) (p : Path)
    (hp : p ∈ paths P.fns P.compIter [(P.haveDeltas, hd)]) (env : List Nat) (cs : List CAcc)
    (hc : Conc env p.evs cs) (w : Written) (pb a m db k : Nat) (he : envStarts env [pb, a, m, db, k])
    (hpts : ∀ i, i < pb + a + m → w P.pts i ∧ w P.flags i)
    (hdl : hd = true → ∀ i, db ≤ i → i < db + k → w P.compDeltas i) : wbrOK cs w := by
  obtain ⟨rest, rfl⟩ := envStarts_split _ _ he
  cases hd with
  | true =>
    refine (seg_sound _ _ _ _ _ _ hP.iterT p hp _ cs hc w ?_).1
    intro f i ⟨s, hs, hh⟩
    simp only [compIterPre, if_true, List.cons_append, List.nil_append, List.mem_cons, List.mem_nil_iff, or_false] at hs
    rcases hs with rfl | rfl | rfl <;>
      simp only [CRng.has, SRng.inst, Lin.eval, lin, dot, List.cons_append, List.nil_append] at hh <;>
      obtain ⟨rfl, h1, h2⟩ := hh
    · exact (hpts i (by omega)).1
    · exact (hpts i (by omega)).2
    · exact hdl rfl i (by omega) (by omega)
  | false =>
    refine (seg_sound _ _ _ _ _ _ hP.iterF p hp _ cs hc w ?_).1
    intro f i ⟨s, hs, hh⟩
    simp only [compIterPre, List.cons_append, List.nil_append, List.mem_cons, List.mem_nil_iff, or_false,
      Bool.false_eq_true, if_false, List.append_nil] at hs
    rcases hs with rfl | rfl <;>
      simp only [CRng.has, SRng.inst, Lin.eval, lin, dot, List.cons_append, List.nil_append] at hh <;>
      obtain ⟨rfl, h1, h2⟩ := hh
    · exact (hpts i (by omega)).1
    · exact (hpts i (by omega)).2

/-- **Every access sequence of the load skeleton is write-before-read**, and `load` re-establishes its
invariant with the advanced counters. -/
theorem trace_sound (P : Pipeline) (hP : PipelineFacts P) (job : Job) (st : St) (cs : List CAcc)
    (out : Outcome) (ht : Trace P job st cs out) :
    ∀ w, Inv P w st → JobPre P w job st →
      wbrOK cs w ∧ ∀ st', out = .ok st' → Inv P (afterW cs w) st' ∧ st.pc ≤ st'.pc ∧ st.cc ≤ st'.cc := by
  induction ht with
  | empty st =>
    intro w hi _
    exact ⟨trivial, fun st' h => by cases h; exact ⟨hi, Nat.le_refl _, Nat.le_refl _⟩⟩
  | simple np nc instr st p env cs hp he hc =>
    intro w hi _
    obtain ⟨rest, rfl⟩ := envStarts_split _ _ he
    have hs := seg_sound _ _ _ _ _ _ hP.simple p hp _ cs hc w (sem_nil _ w)
    refine ⟨hs.1, ?_⟩
    intro st' hst
    cases hab : p.aborted with
    | true => simp [hab] at hst
    | false =>
      simp only [hab, Bool.false_eq_true, if_false, Outcome.ok.injEq] at hst
      subst hst
      have hpost := hs.2 hab rfl
      have hold := Inv_mono P w (afterW cs w) st (afterW_grows cs w) hi
      refine ⟨⟨?_, ?_⟩, Nat.le_add_right _ _, Nat.le_add_right _ _⟩
      · intro i hlt
        simp only [] at hlt
        by_cases h : i < st.pc
        · exact hold.1 i h
        · constructor
          · apply hpost
            refine ⟨⟨P.pts, lin [1], lin [1, 1]⟩, by simp [simplePost], ?_⟩
            simp only [CRng.has, SRng.inst, Lin.eval, lin, dot, List.cons_append, List.nil_append]
            exact ⟨trivial, by omega, by omega⟩
          · apply hpost
            refine ⟨⟨P.flags, lin [1], lin [1, 1]⟩, by simp [simplePost], ?_⟩
            simp only [CRng.has, SRng.inst, Lin.eval, lin, dot, List.cons_append, List.nil_append]
            exact ⟨trivial, by omega, by omega⟩
      · intro i hlt
        simp only [] at hlt
        by_cases h : i < st.cc
        · exact hold.2 i h
        · apply hpost
          refine ⟨⟨P.contours, lin [0, 0, 1], lin [0, 0, 1, 1]⟩, by simp [simplePost], ?_⟩
          simp only [CRng.has, SRng.inst, Lin.eval, lin, dot, List.cons_append, List.nil_append]
          exact ⟨trivial, by omega, by omega⟩
  | compositeAbort comps instr st p env cs hp hc hab =>
    intro w _ _
    exact ⟨(seg_sound _ _ _ _ _ _ hP.compPre p hp env cs hc w (sem_nil _ w)).1, fun st' h => by cases h⟩
  | composite comps instr st p env hd db cs cs' out hp hc hab hfl henv _ ih =>
    intro w hi _
    have hs := seg_sound _ _ _ _ _ _ hP.compPre p hp env cs hc w (sem_nil _ w)
    have hi' := Inv_mono P w (afterW cs w) st (afterW_grows cs w) hi
    have hpre : JobPre P (afterW cs w) (.compBody hd st db comps) st := by
      refine ⟨rfl, ?_⟩
      intro hdt i h1 h2
      obtain ⟨rest, rfl⟩ := envStarts_split _ _ (henv hdt)
      apply hs.2 hab (by simp [hfl, hdt])
      refine ⟨⟨P.compDeltas, lin [1], lin [1, 1]⟩, by simp [compPrePost], ?_⟩
      simp only [CRng.has, SRng.inst, Lin.eval, lin, dot, List.cons_append, List.nil_append]
      exact ⟨trivial, by omega, by omega⟩
    have := ih (afterW cs w) hi' hpre
    rw [wbrOK_append, afterW_append]
    exact ⟨⟨hs.1, this.1⟩, this.2⟩
  | bodyAbort hd st0 st db comps cs _ ih =>
    intro w hi hpre
    obtain ⟨rfl, hdl⟩ := hpre
    exact ih w hi ⟨Nat.le_refl _, hdl⟩
  | body hd st0 st st1 db comps p env cs cs' _ hp he hc ih =>
    intro w hi hpre
    obtain ⟨rfl, hdl⟩ := hpre
    have h1 := ih w hi ⟨Nat.le_refl _, hdl⟩
    obtain ⟨hi1, hpc, hcc⟩ := h1.2 st1 rfl
    obtain ⟨rest, rfl⟩ := envStarts_split _ _ he
    have hs := seg_sound _ _ _ _ _ _ hP.compPost p hp _ cs' hc (afterW cs w) (by
      intro f i ⟨s, hs, hh⟩
      simp only [compPostPre, List.mem_cons, List.mem_nil_iff, or_false] at hs
      rcases hs with rfl | rfl | rfl <;>
        simp only [CRng.has, SRng.inst, Lin.eval, lin, dot, List.cons_append, List.nil_append] at hh <;>
        obtain ⟨rfl, h1, h2⟩ := hh
      · exact (hi1.1 i (by omega)).1
      · exact (hi1.1 i (by omega)).2
      · exact hi1.2 i (by omega))
    rw [wbrOK_append, afterW_append]
    refine ⟨⟨h1.1, hs.1⟩, ?_⟩
    intro st' hst
    cases hab : p.aborted with
    | true => simp [hab] at hst
    | false =>
      simp only [hab, Bool.false_eq_true, if_false, Outcome.ok.injEq] at hst
      subst hst
      exact ⟨Inv_mono P _ _ _ (afterW_grows cs' _) hi1, hpc, hcc⟩
  | compsNil hd pb db k st =>
    intro w hi _
    exact ⟨trivial, fun st' h => by cases h; exact ⟨hi, Nat.le_refl _, Nat.le_refl _⟩⟩
  | compsAbort hd pb db k g rest st cs _ ih =>
    intro w hi _
    exact ⟨(ih w hi trivial).1, fun st' h => by cases h⟩
  | compsIterAbort hd pb db k g rest st st1 p env cs cs' _ hp he hc hab ih =>
    intro w hi hpre
    have h1 := ih w hi trivial
    obtain ⟨hi1, hpc, _⟩ := h1.2 st1 rfl
    have hs := iter_sound P hP hd p hp env cs' hc (afterW cs w) pb (st.pc - pb) (st1.pc - st.pc) db k he
      (fun i hlt => hi1.1 i (by have := hpre.1; omega))
      (fun hdt i a b => afterW_grows cs w _ _ (hpre.2 hdt i a b))
    rw [wbrOK_append]
    exact ⟨⟨h1.1, hs⟩, fun st' h => by cases h⟩
  | compsCons hd pb db k g rest st st1 p env cs cs' cs'' out _ hp he hc hab _ ih1 ih2 =>
    intro w hi hpre
    have h1 := ih1 w hi trivial
    obtain ⟨hi1, hpc, hcc⟩ := h1.2 st1 rfl
    have hs := iter_sound P hP hd p hp env cs' hc (afterW cs w) pb (st.pc - pb) (st1.pc - st.pc) db k he
      (fun i hlt => hi1.1 i (by have := hpre.1; omega))
      (fun hdt i a b => afterW_grows cs w _ _ (hpre.2 hdt i a b))
    have hi2 : Inv P (afterW (cs ++ cs') w) st1 := by
      rw [afterW_append]; exact Inv_mono P _ _ _ (afterW_grows cs' _) hi1
    have hpre2 : JobPre P (afterW (cs ++ cs') w) (.comps hd pb db k rest) st1 :=
      ⟨by have := hpre.1; omega, fun hdt i a b => afterW_grows _ w _ _ (hpre.2 hdt i a b)⟩
    have h2 := ih2 _ hi2 hpre2
    simp only [wbrOK_append, afterW_append] at h2 ⊢
    refine ⟨⟨⟨h1.1, hs⟩, h2.1⟩, ?_⟩
    intro st' hst
    obtain ⟨a, b, c⟩ := h2.2 st' hst
    exact ⟨a, Nat.le_trans hpc b, Nat.le_trans hcc c⟩

/-- the access sequence of a whole draw is write-before-read from a buffer of which nothing is known -/
theorem draw_trace_wbr (P : Pipeline) (hP : PipelineFacts P) (g : Option Carve.Glyph) (cs : List CAcc)
    (h : DrawTrace P g cs) : wbrOK cs (fun _ _ => False) := by
  have h0 : Inv P (fun _ _ => False) ⟨0, 0⟩ :=
    ⟨fun i hlt => absurd hlt (Nat.not_lt_zero _), fun i hlt => absurd hlt (Nat.not_lt_zero _)⟩
  cases h with
  | aborted cs ht => exact (trace_sound P hP _ _ _ _ ht _ h0 trivial).1
  | done st p env cs cs' ht hp he hc =>
    have h1 := trace_sound P hP _ _ _ _ ht _ h0 trivial
    obtain ⟨hi1, _, _⟩ := h1.2 st rfl
    obtain ⟨rest, rfl⟩ := envStarts_split _ _ he
    have hs := seg_sound _ _ _ _ _ _ hP.final p hp _ cs' hc (afterW cs (fun _ _ => False)) (by
      intro f i ⟨s, hs, hh⟩
      simp only [finalPre, List.mem_cons, List.mem_nil_iff, or_false] at hs
      rcases hs with rfl | rfl | rfl <;>
        simp only [CRng.has, SRng.inst, Lin.eval, lin, dot, List.cons_append, List.nil_append] at hh <;>
        obtain ⟨rfl, h1, h2⟩ := hh
      · exact (hi1.1 i (by omega)).1
      · exact (hi1.1 i (by omega)).2
      · exact hi1.2 i (by omega))
    rw [wbrOK_append]
    exact ⟨h1.1, hs.1⟩

end FontVerif.ScratchFlow
