/- C14 / IntSet helper lemmas, part 5: observers of `BitSet` — ordered members, cached length,
ranges (`iter_ranges`) and the canonical form of range lists. -/
import FontVerif.Lemmas.IntSetOps
set_option linter.unusedVariables false
set_option linter.unusedSimpArgs false
namespace FontVerif.IntSet

/-! ### strictly ascending lists -/

/-- strictly ascending -/
def Asc (xs : List Nat) : Prop := xs.Pairwise (· < ·)

theorem asc_nil : Asc [] := List.Pairwise.nil

theorem asc_cons {x : Nat} {xs : List Nat} : Asc (x :: xs) ↔ (∀ y ∈ xs, x < y) ∧ Asc xs :=
  List.pairwise_cons

/-- two strictly ascending lists with the same elements are equal -/
theorem asc_ext {xs ys : List Nat} (hx : Asc xs) (hy : Asc ys) (h : ∀ x, x ∈ xs ↔ x ∈ ys) :
    xs = ys := by
  induction xs generalizing ys with
  | nil =>
    cases ys with
    | nil => rfl
    | cons y ys => have := (h y).2 (by simp); simp at this
  | cons x xs ih =>
    cases ys with
    | nil => have := (h x).1 (by simp); simp at this
    | cons y ys =>
      rw [asc_cons] at hx hy
      have hxy : x = y := by
        have h1 := (h x).1 (by simp)
        have h2 := (h y).2 (by simp)
        simp only [List.mem_cons] at h1 h2
        rcases h1 with h1 | h1
        · exact h1
        · rcases h2 with h2 | h2
          · exact h2.symm
          · have := hx.1 y h2; have := hy.1 x h1; omega
      subst hxy
      congr 1
      apply ih hx.2 hy.2
      intro z
      constructor
      · intro hz
        have := (h z).1 (by simp [hz])
        simp only [List.mem_cons] at this
        rcases this with rfl | this
        · have := hx.1 z hz; omega
        · exact this
      · intro hz
        have := (h z).2 (by simp [hz])
        simp only [List.mem_cons] at this
        rcases this with rfl | this
        · have := hy.1 z hz; omega
        · exact this

theorem Asc.filter {xs : List Nat} (p : Nat → Bool) (h : Asc xs) : Asc (xs.filter p) :=
  List.Pairwise.filter p h

theorem asc_append {xs ys : List Nat} :
    Asc (xs ++ ys) ↔ Asc xs ∧ Asc ys ∧ ∀ a ∈ xs, ∀ b ∈ ys, a < b := List.pairwise_append

theorem asc_range_map (n c : Nat) : Asc ((List.range n).map (· + c)) := by
  unfold Asc
  rw [List.pairwise_map]
  exact List.Pairwise.imp (fun h => by omega) List.pairwise_lt_range

/-! ### members of a page list -/

/-- `membersAll` as a function of the page list -/
def pagesMembers (ps : Pages) : List Nat :=
  ps.flatMap (fun kp => (pageMembers kp.2.bits).map (· + majorStart kp.1))

theorem BitSet.membersAll_eq (s : BitSet) : s.membersAll = pagesMembers s.pages := rfl

theorem mem_pagesMembers {ps : Pages} (hs : Sorted ps) {x : Nat} :
    x ∈ pagesMembers ps ↔ containsP ps x = true := by
  unfold pagesMembers
  simp only [List.mem_flatMap, List.mem_map]
  constructor
  · rintro ⟨kp, hkp, i, hi, rfl⟩
    rw [mem_pageMembers] at hi
    have hmaj : majorOf (i + majorStart kp.1) = kp.1 := by unfold majorOf majorStart; omega
    have hmod : (i + majorStart kp.1) % 512 = i := by unfold majorStart; omega
    unfold containsP
    rw [hmaj, lookup_of_mem hs (show (kp.1, kp.2) ∈ ps from hkp)]
    simp only [pageContains, hmod, hi.2]
  · intro h
    unfold containsP at h
    split at h
    · rename_i p hl
      refine ⟨(majorOf x, p), lookup_some_mem hl, x % 512, ?_, ?_⟩
      · rw [mem_pageMembers]
        exact ⟨Nat.mod_lt _ (by omega), h⟩
      · unfold majorStart majorOf; omega
    · simp at h

theorem pagesMembers_asc {ps : Pages} (hs : Sorted ps) : Asc (pagesMembers ps) := by
  unfold pagesMembers Asc
  rw [List.pairwise_flatMap]
  refine ⟨?_, ?_⟩
  · intro kp _
    rw [List.pairwise_map]
    exact List.Pairwise.imp (fun h => by omega) (pageMembers_sorted _)
  · apply List.Pairwise.imp _ hs
    intro a b hab x hx y hy
    simp only [List.mem_map] at hx hy
    obtain ⟨i, hi, rfl⟩ := hx
    obtain ⟨j, hj, rfl⟩ := hy
    rw [mem_pageMembers] at hi hj
    unfold majorStart
    omega

theorem pageMembers_nil_of_len {p : Page} (hp : PageOk p) (h : p.len = 0) :
    pageMembers p.bits = [] := by
  have : popCount p.bits = 0 := by rw [← hp.2]; exact h
  unfold popCount at this
  exact List.eq_nil_of_length_eq_zero this

/-- under the invariant `iter` (which skips pages whose cached length is 0) sees every member -/
theorem members_eq_pagesMembers {ps : Pages} (h : ∀ kp ∈ ps, PageOk kp.2) :
    ps.flatMap (fun kp =>
      if kp.2.len = 0 then [] else (pageMembers kp.2.bits).map (· + majorStart kp.1))
      = pagesMembers ps := by
  unfold pagesMembers
  induction ps with
  | nil => rfl
  | cons kp ps ih =>
    simp only [List.flatMap_cons]
    rw [ih (fun q hq => h q (by simp [hq]))]
    congr 1
    split
    · rename_i hl
      rw [pageMembers_nil_of_len (h kp (by simp)) hl]; rfl
    · rfl

theorem BitSet.members_eq (s : BitSet) (h : BInv s) : s.members = pagesMembers s.pages :=
  members_eq_pagesMembers h.1.2

theorem length_pagesMembers {ps : Pages} (h : ∀ kp ∈ ps, PageOk kp.2) :
    (pagesMembers ps).length = sumLens ps := by
  unfold pagesMembers
  induction ps with
  | nil => rfl
  | cons kp ps ih =>
    simp only [List.flatMap_cons, List.length_append, List.length_map, sumLens_cons]
    rw [ih (fun q hq => h q (by simp [hq]))]
    have := (h kp (by simp)).2
    unfold popCount at this
    omega

/-! ### range lists over `Nat` -/

/-- membership in the union of inclusive ranges -/
def NMem (rs : List (Nat × Nat)) (x : Nat) : Prop := ∃ p ∈ rs, p.1 ≤ x ∧ x ≤ p.2

/-- the RangeSet invariant on `Nat` ranges: sorted ∧ disjoint ∧ non-adjacent ∧ well formed -/
def NRInv (rs : List (Nat × Nat)) : Prop :=
  rs.Pairwise (fun p q => p.2 + 1 < q.1) ∧ ∀ p ∈ rs, p.1 ≤ p.2

/-- sorted ∧ disjoint ∧ well formed (adjacent ranges allowed) -/
def RSorted (rs : List (Nat × Nat)) : Prop :=
  rs.Pairwise (fun p q => p.2 < q.1) ∧ ∀ p ∈ rs, p.1 ≤ p.2

theorem NRInv.rsorted {rs : List (Nat × Nat)} (h : NRInv rs) : RSorted rs :=
  ⟨List.Pairwise.imp (fun h => by omega) h.1, h.2⟩

theorem nmem_nil {x : Nat} : ¬ NMem [] x := by simp [NMem]

theorem nmem_cons {p : Nat × Nat} {rs : List (Nat × Nat)} {x : Nat} :
    NMem (p :: rs) x ↔ (p.1 ≤ x ∧ x ≤ p.2) ∨ NMem rs x := by
  simp [NMem]

theorem nrinv_nil : NRInv [] := ⟨List.Pairwise.nil, by simp⟩

theorem nrinv_cons {p : Nat × Nat} {rs : List (Nat × Nat)} :
    NRInv (p :: rs) ↔ (∀ q ∈ rs, p.2 + 1 < q.1) ∧ p.1 ≤ p.2 ∧ NRInv rs := by
  simp only [NRInv, List.pairwise_cons, List.mem_cons, forall_eq_or_imp]
  constructor
  · rintro ⟨⟨h1, h2⟩, h3, h4⟩; exact ⟨h1, h3, h2, h4⟩
  · rintro ⟨h1, h3, h2, h4⟩; exact ⟨⟨h1, h2⟩, h3, h4⟩

theorem rsorted_nil : RSorted [] := ⟨List.Pairwise.nil, by simp⟩

theorem rsorted_cons {p : Nat × Nat} {rs : List (Nat × Nat)} :
    RSorted (p :: rs) ↔ (∀ q ∈ rs, p.2 < q.1) ∧ p.1 ≤ p.2 ∧ RSorted rs := by
  simp only [RSorted, List.pairwise_cons, List.mem_cons, forall_eq_or_imp]
  constructor
  · rintro ⟨⟨h1, h2⟩, h3, h4⟩; exact ⟨h1, h3, h2, h4⟩
  · rintro ⟨h1, h3, h2, h4⟩; exact ⟨⟨h1, h2⟩, h3, h4⟩

theorem mem_expand_iff_nmem {rs : List (Nat × Nat)} {x : Nat} : x ∈ expand rs ↔ NMem rs x :=
  mem_expand

theorem expand_nil : expand [] = [] := rfl
theorem expand_cons (r : Nat × Nat) (rs : List (Nat × Nat)) :
    expand (r :: rs) = (List.range (r.2 + 1 - r.1)).map (· + r.1) ++ expand rs := rfl

theorem expand_asc {rs : List (Nat × Nat)} (h : RSorted rs) : Asc (expand rs) := by
  induction rs with
  | nil => exact asc_nil
  | cons r rs ih =>
    rw [rsorted_cons] at h
    rw [expand_cons, asc_append]
    refine ⟨asc_range_map _ _, ih h.2.2, ?_⟩
    intro a ha b hb
    simp only [List.mem_map, List.mem_range] at ha
    obtain ⟨i, hi, rfl⟩ := ha
    rw [mem_expand] at hb
    obtain ⟨q, hq, h1, h2⟩ := hb
    have := h.1 q hq
    omega

/-- all members of a sorted range list lie at or after the first start -/
theorem nmem_ge_head {p : Nat × Nat} {rs : List (Nat × Nat)} (h : RSorted (p :: rs)) {x : Nat}
    (hx : NMem (p :: rs) x) : p.1 ≤ x := by
  rw [rsorted_cons] at h
  rw [nmem_cons] at hx
  rcases hx with hx | ⟨q, hq, h1, h2⟩
  · exact hx.1
  · have := h.1 q hq; omega

/-- canonical form: two sorted, disjoint, non-adjacent range lists with the same members are
equal -/
theorem nrinv_ext {as bs : List (Nat × Nat)} (ha : NRInv as) (hb : NRInv bs)
    (h : ∀ x, NMem as x ↔ NMem bs x) : as = bs := by
  induction as generalizing bs with
  | nil =>
    cases bs with
    | nil => rfl
    | cons b bs =>
      have hb' := nrinv_cons.1 hb
      have := (h b.1).2 (nmem_cons.2 (Or.inl ⟨Nat.le_refl _, hb'.2.1⟩))
      exact absurd this nmem_nil
  | cons a as ih =>
    cases bs with
    | nil =>
      have ha' := nrinv_cons.1 ha
      have := (h a.1).1 (nmem_cons.2 (Or.inl ⟨Nat.le_refl _, ha'.2.1⟩))
      exact absurd this nmem_nil
    | cons b bs =>
      have ha' := nrinv_cons.1 ha
      have hb' := nrinv_cons.1 hb
      obtain ⟨a1, a2⟩ := a
      obtain ⟨b1, b2⟩ := b
      simp only at ha' hb'
      -- starts agree
      have hs : a1 = b1 := by
        have h1 := nmem_ge_head hb.rsorted ((h a1).1 (nmem_cons.2 (Or.inl ⟨Nat.le_refl _, ha'.2.1⟩)))
        have h2 := nmem_ge_head ha.rsorted ((h b1).2 (nmem_cons.2 (Or.inl ⟨Nat.le_refl _, hb'.2.1⟩)))
        simp only at h1 h2
        omega
      subst hs
      -- ends agree
      have he : a2 = b2 := by
        apply Nat.le_antisymm
        · apply Nat.le_of_not_lt
          intro hlt
          -- b2 + 1 ≤ a2 is a member of as, hence of bs, but lies in the gap after (a1, b2)
          have hm : NMem ((a1, a2) :: as) (b2 + 1) := nmem_cons.2 (Or.inl ⟨by simp only; omega, by simp only; omega⟩)
          rcases nmem_cons.1 ((h _).1 hm) with hx | ⟨q, hq, h1, h2⟩
          · simp only at hx; omega
          · have := hb'.1 q hq; omega
        · apply Nat.le_of_not_lt
          intro hlt
          have hm : NMem ((a1, b2) :: bs) (a2 + 1) := nmem_cons.2 (Or.inl ⟨by simp only; omega, by simp only; omega⟩)
          rcases nmem_cons.1 ((h _).2 hm) with hx | ⟨q, hq, h1, h2⟩
          · simp only at hx; omega
          · have := ha'.1 q hq; omega
      subst he
      congr 1
      apply ih ha'.2.2 hb'.2.2
      intro x
      constructor
      · intro hx
        obtain ⟨q, hq, h1, h2⟩ := hx
        have hgap := ha'.1 q hq
        rcases nmem_cons.1 ((h x).1 (nmem_cons.2 (Or.inr ⟨q, hq, h1, h2⟩))) with hy | hy
        · simp only at hy; omega
        · exact hy
      · intro hx
        obtain ⟨q, hq, h1, h2⟩ := hx
        have hgap := hb'.1 q hq
        rcases nmem_cons.1 ((h x).2 (nmem_cons.2 (Or.inr ⟨q, hq, h1, h2⟩))) with hy | hy
        · simp only at hy; omega
        · exact hy

/-! ### `runsOfList` -/

theorem runsOfList_nil : runsOfList [] = [] := rfl

theorem runsOfList_spec (xs : List Nat) (h : Asc xs) :
    NRInv (runsOfList xs) ∧ ∀ x, NMem (runsOfList xs) x ↔ x ∈ xs := by
  induction xs with
  | nil => exact ⟨nrinv_nil, fun x => by simp [runsOfList, nmem_nil]⟩
  | cons x xs ih =>
    rw [asc_cons] at h
    obtain ⟨i1, i2⟩ := ih h.2
    -- every range of the tail starts after `x`
    have hstart : ∀ q ∈ runsOfList xs, x < q.1 := by
      intro q hq
      have hq' := i1.2 q hq
      exact h.1 q.1 ((i2 q.1).1 ⟨q, hq, Nat.le_refl _, hq'⟩)
    unfold runsOfList
    split
    · rename_i s e rest heq
      rw [heq] at i1 i2 hstart
      have i1' := nrinv_cons.1 i1
      simp only at i1'
      have hxs := hstart (s, e) (by simp)
      simp only at hxs
      split
      · rename_i hadj
        refine ⟨nrinv_cons.2 ⟨i1'.1, by simp only; omega, i1'.2.2⟩, fun y => ?_⟩
        rw [nmem_cons, List.mem_cons, ← i2 y, nmem_cons]
        simp only
        constructor
        · rintro (hy | hy)
          · by_cases hyx : y = x
            · exact Or.inl hyx
            · exact Or.inr (Or.inl (by omega))
          · exact Or.inr (Or.inr hy)
        · rintro (hy | hy | hy)
          · exact Or.inl (by omega)
          · exact Or.inl (by omega)
          · exact Or.inr hy
      · rename_i hadj
        refine ⟨nrinv_cons.2 ⟨?_, Nat.le_refl _, i1⟩, fun y => ?_⟩
        · intro q hq
          simp only [List.mem_cons] at hq
          rcases hq with rfl | hq
          · simp only; omega
          · have := i1'.1 q hq; simp only; omega
        · rw [nmem_cons, List.mem_cons, ← i2 y]
          simp only
          constructor
          · rintro (hy | hy)
            · exact Or.inl (by omega)
            · exact Or.inr hy
          · rintro (hy | hy)
            · exact Or.inl (by omega)
            · exact Or.inr hy
    · rename_i heq
      rw [heq] at i2
      refine ⟨nrinv_cons.2 ⟨by simp, Nat.le_refl _, nrinv_nil⟩, fun y => ?_⟩
      rw [nmem_cons, List.mem_cons]
      have hxs : ∀ z, ¬ z ∈ xs := fun z hz => nmem_nil ((i2 z).2 hz)
      simp only
      constructor
      · rintro (hy | hy)
        · exact Or.inl (by omega)
        · exact absurd hy nmem_nil
      · rintro (hy | hy)
        · exact Or.inl (by omega)
        · exact absurd hy (hxs y)

/-- expanding the runs of an ascending list gives the list back -/
theorem expand_runsOfList (xs : List Nat) (h : Asc xs) : expand (runsOfList xs) = xs := by
  obtain ⟨h1, h2⟩ := runsOfList_spec xs h
  apply asc_ext (expand_asc h1.rsorted) h
  intro x
  rw [mem_expand_iff_nmem, h2]

/-! ### `BitSet` observers -/

theorem BitSet.mem_members (s : BitSet) (h : BInv s) (x : Nat) :
    x ∈ s.members ↔ s.contains x = true := by
  rw [BitSet.members_eq s h, mem_pagesMembers h.1.1]; rfl

theorem BitSet.members_asc (s : BitSet) (h : BInv s) : Asc s.members := by
  rw [BitSet.members_eq s h]; exact pagesMembers_asc h.1.1

theorem BitSet.len_eq (s : BitSet) (h : BInv s) : s.len = s.members.length := by
  rw [BitSet.members_eq s h, length_pagesMembers h.1.2, h.2]

theorem BitSet.membersAll_eq_members (s : BitSet) (h : BInv s) : s.membersAll = s.members := by
  rw [BitSet.members_eq s h]; rfl

theorem BitSet.ranges_spec (s : BitSet) (h : BInv s) :
    NRInv s.ranges ∧ ∀ x, NMem s.ranges x ↔ s.contains x = true := by
  unfold BitSet.ranges
  rw [BitSet.membersAll_eq_members s h]
  obtain ⟨h1, h2⟩ := runsOfList_spec s.members (BitSet.members_asc s h)
  exact ⟨h1, fun x => by rw [h2, BitSet.mem_members s h]⟩

theorem BitSet.expand_ranges (s : BitSet) (h : BInv s) : expand s.ranges = s.members := by
  unfold BitSet.ranges
  rw [BitSet.membersAll_eq_members s h]
  exact expand_runsOfList _ (BitSet.members_asc s h)

end FontVerif.IntSet
