/-
Helper lemmas for C08 (Model/Cmap.lean): the format-4 segment computer
(`Format4SegmentComputer::{make_segment, next_possible_segment, compute}`) always produces a
valid segmentation.
-/
import FontVerif.Model.Cmap
import FontVerif.Lemmas.Cmap4
set_option linter.unusedVariables false
namespace FontVerif.Cmap
open FontVerif

/-- a valid segment starting at index `segStart` of an array of `size` mappings, whose
`start_char` / `end_char` fields agree with its indices -/
structure SegAt (cp gid : Nat → Nat) (size segStart : Nat) (s : Seg) : Prop where
  start : s.startIx = segStart
  lt : s.endIx < size
  ok : SegOk cp gid s
  startChar : s.startChar = cp s.startIx
  endChar : s.endChar = cp s.endIx

theorem makeSegment_at (a : Array (Nat × Nat)) (segStart segLen : Nat) (gio : Bool)
    (hlt : segStart + segLen < a.size)
    (hrun : ∀ k, segStart ≤ k → k ≤ segStart + segLen → cpAt a k = cpAt a segStart + (k - segStart))
    (hdelta : gio = true → ∀ k, segStart ≤ k → k ≤ segStart + segLen →
      gidAt a k = gidAt a segStart + (k - segStart)) :
    SegAt (cpAt a) (gidAt a) a.size segStart (makeSegment a segStart gio segLen) := by
  refine ⟨rfl, hlt, ⟨by simp [makeSegment], ?_, ?_⟩, rfl, rfl⟩
  · intro k h1 h2
    simp only [makeSegment] at h1 h2 ⊢
    exact hrun k h1 h2
  · intro d hd k h1 h2
    simp only [makeSegment] at h1 h2 hd
    by_cases hg : gio = true
    · simp only [hg, Bool.true_or, if_true, Option.some.injEq] at hd
      have := hdelta hg k h1 h2
      have := hrun k h1 h2
      omega
    · have hg' : gio = false := by simpa using hg
      by_cases hl : segLen = 0
      · subst hl
        simp only [hg', Bool.false_or, beq_self_eq_true, if_true, Option.some.injEq] at hd
        have : k = segStart := by omega
        subst this
        omega
      · have : (segLen == 0) = false := by simpa using hl
        simp [hg', this] at hd

theorem npsLoop_at (a : Array (Nat × Nat)) (segStart : Nat) :
    ∀ (remaining i prevCp prevGid : Nat) (gio : Bool),
    segStart + 1 + i + remaining = a.size →
    prevCp = cpAt a (segStart + i) → prevGid = gidAt a (segStart + i) →
    (∀ k, segStart ≤ k → k ≤ segStart + i → cpAt a k = cpAt a segStart + (k - segStart)) →
    (gio = true → ∀ k, segStart ≤ k → k ≤ segStart + i → gidAt a k = gidAt a segStart + (k - segStart)) →
    SegAt (cpAt a) (gidAt a) a.size segStart (npsLoop a segStart remaining i prevCp prevGid gio) := by
  intro remaining
  induction remaining with
  | zero =>
    intro i prevCp prevGid gio hsz hcp hgid hrun hdelta
    unfold npsLoop
    have : a.size - 1 - segStart = i := by omega
    rw [this]
    exact makeSegment_at a segStart i gio (by omega) hrun hdelta
  | succ r ih =>
    intro i prevCp prevGid gio hsz hcp hgid hrun hdelta
    unfold npsLoop
    -- restriction of the run / delta facts to a shorter prefix
    have hrun' : ∀ l, l ≤ i → ∀ k, segStart ≤ k → k ≤ segStart + l → cpAt a k = cpAt a segStart + (k - segStart) :=
      fun l hl k h1 h2 => hrun k h1 (by omega)
    have hdelta' : ∀ l, l ≤ i → gio = true → ∀ k, segStart ≤ k → k ≤ segStart + l →
        gidAt a k = gidAt a segStart + (k - segStart) :=
      fun l hl hg k h1 h2 => hdelta hg k h1 (by omega)
    by_cases h1 : cpAt a (segStart + 1 + i) ≠ prevCp + 1
    · rw [if_pos h1]
      exact makeSegment_at a segStart i gio (by omega) hrun hdelta
    · rw [if_neg h1]
      have hc : cpAt a (segStart + 1 + i) = prevCp + 1 := by simpa using h1
      have hrunNext : ∀ k, segStart ≤ k → k ≤ segStart + (i + 1) → cpAt a k = cpAt a segStart + (k - segStart) := by
        intro k hk1 hk2
        by_cases hk : k ≤ segStart + i
        · exact hrun k hk1 hk
        · have hk' : k = segStart + 1 + i := by omega
          have := hrun (segStart + i) (by omega) (by omega)
          rw [hk', hc, hcp, this]
          omega
      by_cases h2 : prevGid + 1 ≠ gidAt a (segStart + 1 + i)
      · rw [if_pos h2]
        by_cases hg : gio = true
        · rw [if_pos hg]
          subst hg
          exact makeSegment_at a segStart i true (by omega) hrun (fun _ => hdelta rfl)
        · have hg' : gio = false := by simpa using hg
          subst hg'
          rw [if_neg (by simp)]
          exact ih (i + 1) _ _ false (by omega) (by congr 1; omega) (by congr 1; omega) hrunNext
            (fun h => by cases h)
      · rw [if_neg h2]
        have hgn : gidAt a (segStart + 1 + i) = prevGid + 1 := by
          have : ¬ (prevGid + 1 ≠ gidAt a (segStart + 1 + i)) := h2
          omega
        by_cases hg : gio = true
        · subst hg
          rw [if_neg (by simp)]
          refine ih (i + 1) _ _ true (by omega) (by congr 1; omega) (by congr 1; omega) hrunNext ?_
          intro _ k hk1 hk2
          by_cases hk : k ≤ segStart + i
          · exact hdelta rfl k hk1 hk
          · have hk' : k = segStart + 1 + i := by omega
            have := hdelta rfl (segStart + i) (by omega) (by omega)
            rw [hk', hgn, hgid, this]
            omega
        · have hg' : gio = false := by simpa using hg
          subst hg'
          rw [if_pos (by simp)]
          by_cases hi : i = 0
          · subst hi
            rw [if_pos rfl]
            refine ih 1 _ _ true (by omega) (by congr 1) (by congr 1) hrunNext ?_
            intro _ k hk1 hk2
            by_cases hk : k = segStart
            · subst hk; simp
            · have hk' : k = segStart + 1 + 0 := by omega
              rw [hk', hgn, hgid]
              simp
          · rw [if_neg hi]
            exact makeSegment_at a segStart (i - 1) false (by omega) (hrun' (i - 1) (by omega))
              (fun h => by cases h)

/-- `next_possible_segment`: a valid segment starting at `segStart`, or `None` at the end -/
theorem nextPossible_spec (a : Array (Nat × Nat)) (segStart : Nat) :
    (a.size ≤ segStart → nextPossible a segStart = none) ∧
    (segStart < a.size → ∃ s, nextPossible a segStart = some s ∧ SegAt (cpAt a) (gidAt a) a.size segStart s) := by
  constructor
  · intro h
    simp [nextPossible, h]
  · intro h
    have hn : ¬ (segStart ≥ a.size) := by omega
    refine ⟨_, by simp only [nextPossible, hn, if_false]; rfl, ?_⟩
    exact npsLoop_at a segStart (a.size - segStart - 1) 0 _ _ false (by omega) rfl rfl
      (fun k h1 h2 => by have : k = segStart := by omega
                         subst this; simp) (fun h => by cases h)

/-! ## `compute`: combining keeps the segmentation valid -/

theorem shouldCombine_canCombine (cur prev : Seg) (next : Option Seg)
    (h : shouldCombine cur prev next = true) : prev.canCombine cur = true := by
  unfold shouldCombine at h
  by_cases hc : prev.canCombine cur = true
  · exact hc
  · simp [hc] at h

theorem combine_at {cp gid : Nat → Nat} {size : Nat} {prev cur : Seg}
    (hp : SegAt cp gid size prev.startIx prev) (hc : SegAt cp gid size (prev.endIx + 1) cur)
    (hcan : prev.canCombine cur = true) : SegAt cp gid size prev.startIx (prev.combine cur) := by
  have hadj : prev.endChar + 1 = cur.startChar := by simpa [Seg.canCombine] using hcan
  have hple := hp.ok.le
  have hcle := hc.ok.le
  have hcs := hc.start
  refine ⟨rfl, hc.lt, ⟨?_, ?_, ?_⟩, hp.startChar, hc.endChar⟩
  · simp only [Seg.combine]; omega
  · intro k h1 h2
    simp only [Seg.combine] at h1 h2 ⊢
    by_cases hk : k ≤ prev.endIx
    · exact hp.ok.run k h1 hk
    · have r1 := hc.ok.run k (by omega) h2
      have r2 := hp.ok.run prev.endIx hple (Nat.le_refl _)
      have e1 := hp.endChar
      have e2 := hc.startChar
      omega
  · intro d hd
    simp [Seg.combine] at hd

theorem computeLoop_tile (a : Array (Nat × Nat)) :
    ∀ (fuel : Nat) (acc : List Seg) (prev : Seg) (next : Option Seg),
    SegsTile (cpAt a) (gidAt a) 0 prev.startIx acc.reverse →
    SegAt (cpAt a) (gidAt a) a.size prev.startIx prev →
    next = nextPossible a (prev.endIx + 1) →
    a.size - (prev.endIx + 1) < fuel →
    SegsTile (cpAt a) (gidAt a) 0 a.size (computeLoop a fuel acc prev next) := by
  intro fuel
  induction fuel with
  | zero => intro acc prev next _ _ _ h; omega
  | succ f ih =>
    intro acc prev next hacc hprev hnext hfuel
    obtain ⟨hnone, hsome⟩ := nextPossible_spec a (prev.endIx + 1)
    by_cases hend : a.size ≤ prev.endIx + 1
    · rw [hnone hend] at hnext
      subst hnext
      unfold computeLoop
      rw [List.reverse_cons]
      have := hprev.lt
      exact hacc.append ⟨rfl, hprev.ok, show prev.endIx + 1 = a.size by omega⟩
    · obtain ⟨cur, hcur, hcurAt⟩ := hsome (by omega)
      rw [hcur] at hnext
      subst hnext
      unfold computeLoop
      simp only []
      have hcle := hcurAt.ok.le
      have hcs := hcurAt.start
      have hclt := hcurAt.lt
      by_cases hsc : shouldCombine cur prev (nextPossible a (cur.endIx + 1)) = true
      · rw [if_pos hsc]
        have hcomb := combine_at hprev hcurAt (shouldCombine_canCombine _ _ _ hsc)
        exact ih acc (prev.combine cur) _ hacc hcomb rfl (by simp only [Seg.combine]; omega)
      · rw [if_neg hsc]
        refine ih (prev :: acc) cur _ ?_ (hcs ▸ hcurAt) rfl (by omega)
        rw [List.reverse_cons, hcs]
        exact hacc.append ⟨rfl, hprev.ok, show prev.endIx + 1 = prev.endIx + 1 from rfl⟩

/-- `Format4SegmentComputer::compute` produces a valid segmentation of the whole slice -/
theorem computeSegs_tile (a : Array (Nat × Nat)) :
    SegsTile (cpAt a) (gidAt a) 0 a.size (computeSegs a) := by
  obtain ⟨hnone, hsome⟩ := nextPossible_spec a 0
  unfold computeSegs
  by_cases h0 : a.size = 0
  · rw [hnone (by omega)]
    exact h0.symm
  · obtain ⟨first, hfirst, hat⟩ := hsome (by omega)
    rw [hfirst]
    simp only []
    have hs := hat.start
    have := hat.lt
    exact computeLoop_tile a (a.size + 1) [] first _ (by rw [hs]; rfl) (hs ▸ hat) rfl (by omega)

/-- … and the empty list exactly for the empty slice -/
theorem computeSegs_nil_iff (a : Array (Nat × Nat)) : computeSegs a = [] ↔ a.size = 0 := by
  have ht := computeSegs_tile a
  constructor
  · intro h; rw [h] at ht; exact ht.symm
  · intro h
    unfold computeSegs
    rw [(nextPossible_spec a 0).1 (by omega)]

end FontVerif.Cmap
