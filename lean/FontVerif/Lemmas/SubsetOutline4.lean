/-
Lemmas for C17 drawn-outline preservation, part 4: one composite component record as read by read-fonts'
`ComponentIter::next` (what is read depends on the parse-relevant flag bits and the argument / transform bytes only).
-/
import FontVerif.Lemmas.SubsetOutline3
set_option linter.unusedVariables false
set_option linter.unusedSimpArgs false
namespace FontVerif.SubsetOutline
open FontVerif FontVerif.Subset

/-! ### one component record: what is read depends on the flag bits and on the argument bytes only -/

def aSz (words : Bool) : Nat := if words then 4 else 2
def tSz (f : Nat) : Nat :=
  if Glyf.hasBit f Glyf.HAVE_SCALE then 2 else if Glyf.hasBit f Glyf.HAVE_XY_SCALE then 4
  else if Glyf.hasBit f Glyf.HAVE_2X2 then 8 else 0

theorem readI16_cons (a b : Nat) (r : List Nat) : ∃ v, Glyf.readI16 (a :: b :: r) = (some v, r) ∧
    ∀ r', Glyf.readI16 (a :: b :: r') = (some v, r') := by
  exact ⟨wrapI16 ((a : Int) * 256 + (b : Int)), by simp only [Glyf.readI16], fun r' => by simp only [Glyf.readI16]⟩

theorem anchor_enough (xy words : Bool) (cur : List Nat) (h : aSz words ≤ cur.length) :
    ∃ a, ∀ rest, Glyf.readAnchor xy words (cur.take (aSz words) ++ rest) = some (a, rest) := by
  cases words <;> simp only [aSz, Bool.false_eq_true, if_false, if_true] at h ⊢
  · -- two bytes
    match cur, h with
    | a :: b :: r, _ =>
      cases xy
      · exact ⟨.point a b, fun rest => by simp [Glyf.readAnchor, Glyf.readU8]⟩
      · exact ⟨.offset (wrapI8 a) (wrapI8 b), fun rest => by simp [Glyf.readAnchor, Glyf.readI8]⟩
  · match cur, h with
    | a :: b :: c :: e :: r, _ =>
      cases xy
      · exact ⟨.point (a * 256 + b) (c * 256 + e), fun rest => by simp [Glyf.readAnchor, Glyf.readU16]⟩
      · obtain ⟨v1, _, h1⟩ := readI16_cons a b r
        obtain ⟨v2, _, h2⟩ := readI16_cons c e r
        refine ⟨.offset v1 v2, fun rest => ?_⟩
        simp only [List.take, List.cons_append, List.nil_append, Glyf.readAnchor, h1, h2]

theorem transform_enough (f : Nat) (cur : List Nat) (h : tSz f ≤ cur.length) :
    ∃ t, ∀ rest, Glyf.readTransform f (cur.take (tSz f) ++ rest) = some (t, rest) := by
  unfold tSz at h ⊢
  unfold Glyf.readTransform
  by_cases h1 : Glyf.hasBit f Glyf.HAVE_SCALE = true
  · simp only [h1, if_true] at h ⊢
    match cur, h with
    | a :: b :: r, _ =>
      obtain ⟨v1, _, e1⟩ := readI16_cons a b r
      exact ⟨⟨v1, 0, 0, v1⟩, fun rest => by simp only [List.take, List.cons_append, List.nil_append, e1]⟩
  · simp only [h1, Bool.false_eq_true, if_false] at h ⊢
    by_cases h2 : Glyf.hasBit f Glyf.HAVE_XY_SCALE = true
    · simp only [h2, if_true] at h ⊢
      match cur, h with
      | a :: b :: c :: e :: r, _ =>
        obtain ⟨v1, _, e1⟩ := readI16_cons a b r
        obtain ⟨v2, _, e2⟩ := readI16_cons c e r
        exact ⟨⟨v1, 0, 0, v2⟩, fun rest => by simp only [List.take, List.cons_append, List.nil_append, e1, e2]⟩
    · simp only [h2, Bool.false_eq_true, if_false] at h ⊢
      by_cases h3 : Glyf.hasBit f Glyf.HAVE_2X2 = true
      · simp only [h3, if_true] at h ⊢
        match cur, h with
        | a :: b :: c :: e :: a' :: b' :: c' :: e' :: r, _ =>
          obtain ⟨v1, _, e1⟩ := readI16_cons a b r
          obtain ⟨v2, _, e2⟩ := readI16_cons c e r
          obtain ⟨v3, _, e3⟩ := readI16_cons a' b' r
          obtain ⟨v4, _, e4⟩ := readI16_cons c' e' r
          exact ⟨⟨v1, v2, v3, v4⟩, fun rest => by
            simp only [List.take, List.cons_append, List.nil_append, e1, e2, e3, e4]⟩
      · simp only [h3, Bool.false_eq_true, if_false] at h ⊢
        exact ⟨⟨16384, 0, 0, 16384⟩, fun rest => by simp⟩

/-- argument + transform bytes of a component whose (truncated) flag word is `f` -/
def tailSz (f : Nat) : Nat := aSz (Glyf.hasBit f Glyf.ARG_WORDS) + tSz f

/-- `ComponentIter::next` after the flag word and the glyph id -/
def tailRead (f : Nat) (cur : List Nat) : Option ((Glyf.Anchor × Glyf.Transform) × List Nat) :=
  match Glyf.readAnchor (Glyf.hasBit f Glyf.ARGS_XY) (Glyf.hasBit f Glyf.ARG_WORDS) cur with
  | none => none
  | some (anchor, c5) =>
    match Glyf.readTransform f c5 with
    | none => none
    | some (t, c10) => some ((anchor, t), c10)

theorem readComponent_cons (a0 a1 a2 a3 : Nat) (A4 : List Nat) :
    Glyf.readComponent (a0 :: a1 :: a2 :: a3 :: A4) =
      (tailRead ((a0 * 256 + a1) &&& Glyf.COMPOSITE_ALL) A4).map
        (fun r => (⟨(a0 * 256 + a1) &&& Glyf.COMPOSITE_ALL, a2 * 256 + a3, r.1.1, r.1.2⟩, r.2)) := by
  unfold Glyf.readComponent tailRead
  simp only [Glyf.readU16]
  generalize Glyf.readAnchor (Glyf.hasBit ((a0 * 256 + a1) &&& Glyf.COMPOSITE_ALL) Glyf.ARGS_XY)
    (Glyf.hasBit ((a0 * 256 + a1) &&& Glyf.COMPOSITE_ALL) Glyf.ARG_WORDS) A4 = ra
  cases ra with
  | none => rfl
  | some p =>
    obtain ⟨anchor, c5⟩ := p
    simp only
    generalize Glyf.readTransform ((a0 * 256 + a1) &&& Glyf.COMPOSITE_ALL) c5 = rt
    cases rt with
    | none => rfl
    | some q => rfl

theorem tail_enough (f : Nat) (cur : List Nat) (h : tailSz f ≤ cur.length) :
    ∃ v, ∀ rest, tailRead f (cur.take (tailSz f) ++ rest) = some (v, rest) := by
  unfold tailSz at h ⊢
  obtain ⟨a, ha⟩ := anchor_enough (Glyf.hasBit f Glyf.ARGS_XY) (Glyf.hasBit f Glyf.ARG_WORDS) cur (by omega)
  obtain ⟨t, ht⟩ := transform_enough f (cur.drop (aSz (Glyf.hasBit f Glyf.ARG_WORDS))) (by simp; omega)
  refine ⟨(a, t), fun rest => ?_⟩
  unfold tailRead
  rw [List.take_add, List.append_assoc, ha, ]
  simp only
  rw [ht]

theorem anchor_short (xy words : Bool) (cur : List Nat) (h : cur.length < aSz words) :
    Glyf.readAnchor xy words cur = none := by
  cases words <;> simp only [aSz, Bool.false_eq_true, if_false, if_true] at h
  · match cur, h with
    | [], _ => cases xy <;> simp [Glyf.readAnchor, Glyf.readU8, Glyf.readI8]
    | [a], _ => cases xy <;> simp [Glyf.readAnchor, Glyf.readU8, Glyf.readI8]
  · match cur, h with
    | [], _ => cases xy <;> simp [Glyf.readAnchor, Glyf.readU16, Glyf.readI16]
    | [a], _ => cases xy <;> simp [Glyf.readAnchor, Glyf.readU16, Glyf.readI16]
    | [a, b], _ => cases xy <;> simp [Glyf.readAnchor, Glyf.readU16, Glyf.readI16]
    | [a, b, c], _ => cases xy <;> simp [Glyf.readAnchor, Glyf.readU16, Glyf.readI16]

theorem transform_short (f : Nat) (cur : List Nat) (h : cur.length < tSz f) :
    Glyf.readTransform f cur = none := by
  unfold tSz at h
  unfold Glyf.readTransform
  by_cases h1 : Glyf.hasBit f Glyf.HAVE_SCALE = true
  · simp only [h1, if_true] at h ⊢
    match cur, h with
    | [], _ => simp [Glyf.readI16]
    | [a], _ => simp [Glyf.readI16]
  · simp only [h1, Bool.false_eq_true, if_false] at h ⊢
    by_cases h2 : Glyf.hasBit f Glyf.HAVE_XY_SCALE = true
    · simp only [h2, if_true] at h ⊢
      match cur, h with
      | [], _ => simp [Glyf.readI16]
      | [a], _ => simp [Glyf.readI16]
      | [a, b], _ => simp [Glyf.readI16]
      | [a, b, c], _ => simp [Glyf.readI16]
    · simp only [h2, Bool.false_eq_true, if_false] at h ⊢
      by_cases h3 : Glyf.hasBit f Glyf.HAVE_2X2 = true
      · simp only [h3, if_true] at h ⊢
        match cur, h with
        | [], _ => simp [Glyf.readI16]
        | [a], _ => simp [Glyf.readI16]
        | [a, b], _ => simp [Glyf.readI16]
        | [a, b, c], _ => simp [Glyf.readI16]
        | [a, b, c, e], _ => simp [Glyf.readI16]
        | [a, b, c, e, g], _ => simp [Glyf.readI16]
        | [a, b, c, e, g, i], _ => simp [Glyf.readI16]
        | [a, b, c, e, g, i, j], _ => simp [Glyf.readI16]
      · simp only [h3, Bool.false_eq_true, if_false] at h
        omega

theorem tail_short (f : Nat) (cur : List Nat) (h : cur.length < tailSz f) : tailRead f cur = none := by
  unfold tailSz at h
  unfold tailRead
  by_cases ha : cur.length < aSz (Glyf.hasBit f Glyf.ARG_WORDS)
  · rw [anchor_short _ _ _ ha]
  · obtain ⟨a, hav⟩ := anchor_enough (Glyf.hasBit f Glyf.ARGS_XY) (Glyf.hasBit f Glyf.ARG_WORDS) cur (by omega)
    have := hav (cur.drop (aSz (Glyf.hasBit f Glyf.ARG_WORDS)))
    rw [List.take_append_drop] at this
    rw [this]
    simp only
    rw [transform_short f _ (by simp; omega)]

/-- two cursors that agree on the argument + transform bytes are read alike -/
theorem tail_congr (f : Nat) (A B : List Nat) (h : A.take (tailSz f) = B.take (tailSz f)) :
    (tailRead f A = none ∧ tailRead f B = none) ∨
    ∃ v, tailRead f A = some (v, A.drop (tailSz f)) ∧ tailRead f B = some (v, B.drop (tailSz f)) := by
  by_cases hA : tailSz f ≤ A.length
  · have hB : tailSz f ≤ B.length := by
      have : (A.take (tailSz f)).length = (B.take (tailSz f)).length := by rw [h]
      simp at this; omega
    obtain ⟨v, hv⟩ := tail_enough f A hA
    right
    refine ⟨v, ?_, ?_⟩
    · have := hv (A.drop (tailSz f)); rwa [List.take_append_drop] at this
    · have := hv (B.drop (tailSz f)); rw [h, List.take_append_drop] at this; exact this
  · have hAB : A = B := by
      have hA' : A.take (tailSz f) = A := List.take_of_length_le (by omega)
      have hlen : (B.take (tailSz f)).length = A.length := by rw [← h, hA']
      have hB' : B.take (tailSz f) = B := by
        apply List.take_of_length_le
        simp at hlen; omega
      rw [hA', hB'] at h; exact h
    subst hAB
    cases hr : tailRead f A with
    | none => left; exact ⟨rfl, rfl⟩
    | some r =>
      rw [tail_short f A (by omega)] at hr
      cases hr

/-! ### list helpers -/

theorem drop_four (X : Bytes) (i : Nat) (h : i + 4 ≤ X.length) :
    X.drop i = X.getD i 0 :: X.getD (i + 1) 0 :: X.getD (i + 2) 0 :: X.getD (i + 3) 0 :: X.drop (i + 4) := by
  rw [drop_two X i (by omega), drop_two X (i + 2) (by omega)]

theorem getD_eq_of_lt (X : Bytes) (j : Nat) (h : j < X.length) : X.getD j 0 = X[j] := by
  simp [List.getD_eq_getElem?_getD, List.getElem?_eq_getElem h]

theorem slice_congr (X Y : Bytes) (p s : Nat) (hl : min X.length (p + s) = min Y.length (p + s))
    (hv : ∀ j, p ≤ j → j < p + s → j < X.length → X.getD j 0 = Y.getD j 0) :
    (X.drop p).take s = (Y.drop p).take s := by
  apply List.ext_getElem?
  intro n
  simp only [List.getElem?_take, List.getElem?_drop]
  split
  · rename_i hn
    by_cases hx : p + n < X.length
    · have hy : p + n < Y.length := by omega
      have := hv (p + n) (by omega) (by omega) hx
      rw [getD_eq_of_lt X _ hx, getD_eq_of_lt Y _ hy] at this
      rw [List.getElem?_eq_getElem hx, List.getElem?_eq_getElem hy, this]
    · have hy : ¬ (p + n < Y.length) := by omega
      rw [List.getElem?_eq_none (by omega), List.getElem?_eq_none (by omega)]
  · rfl

theorem drop_congr (X Y : Bytes) (p : Nat) (hl : X.length = Y.length)
    (hv : ∀ j, p ≤ j → X.getD j 0 = Y.getD j 0) : X.drop p = Y.drop p := by
  apply List.ext_getElem?
  intro n
  simp only [List.getElem?_drop]
  by_cases hx : p + n < X.length
  · have hy : p + n < Y.length := by omega
    have := hv (p + n) (by omega)
    rw [getD_eq_of_lt X _ hx, getD_eq_of_lt Y _ hy] at this
    rw [List.getElem?_eq_getElem hx, List.getElem?_eq_getElem hy, this]
  · rw [List.getElem?_eq_none (by omega), List.getElem?_eq_none (by omega)]

/-! ### flag bits -/

theorem tailRead_bits (f g : Nat) (h1 : Glyf.hasBit f Glyf.ARGS_XY = Glyf.hasBit g Glyf.ARGS_XY)
    (h2 : Glyf.hasBit f Glyf.ARG_WORDS = Glyf.hasBit g Glyf.ARG_WORDS)
    (h3 : Glyf.hasBit f Glyf.HAVE_SCALE = Glyf.hasBit g Glyf.HAVE_SCALE)
    (h4 : Glyf.hasBit f Glyf.HAVE_XY_SCALE = Glyf.hasBit g Glyf.HAVE_XY_SCALE)
    (h5 : Glyf.hasBit f Glyf.HAVE_2X2 = Glyf.hasBit g Glyf.HAVE_2X2) (cur : List Nat) :
    tailRead f cur = tailRead g cur := by
  unfold tailRead Glyf.readTransform
  simp only [h1, h2, h3, h4, h5]

theorem hasBit_compFlags (flags i x m : Nat) (hm : 0x1EEF &&& m = m ∧ 0x0400 &&& m = 0) :
    Glyf.hasBit (compFlags flags i (x &&& COMPOSITE_KNOWN_BITS)) m = Glyf.hasBit (x &&& COMPOSITE_KNOWN_BITS) m := by
  unfold Glyf.hasBit; rw [compFlags_bit flags i x m hm]

theorem compRecSize_eq (f : Nat) : compRecSize f = 4 + tailSz f := by
  unfold compRecSize tailSz aSz tSz Glyf.hasBit Glyf.ARG_WORDS Glyf.HAVE_SCALE Glyf.HAVE_XY_SCALE Glyf.HAVE_2X2
  by_cases h1 : f &&& 1 = 0 <;> by_cases h2 : f &&& 8 = 0 <;> by_cases h3 : f &&& 64 = 0 <;>
    by_cases h4 : f &&& 128 = 0 <;> simp [h1, h2, h3, h4] <;> omega

theorem compFlags_first (flags i f : Nat) : compFlags flags i f = compFlags flags (if i = 10 then 10 else 0) f := by
  unfold compFlags
  by_cases h : i = 10 <;> simp [h]

end FontVerif.SubsetOutline
