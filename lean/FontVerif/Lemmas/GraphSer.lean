/-
Helper lemmas for C05 (Model/Graph.lean): `writeAt`, big-endian fields, the two passes of `serialize`.
-/
import FontVerif.Model.Graph
set_option linter.unusedVariables false
namespace FontVerif.Graph
open FontVerif

/-! ### finite maps -/

theorem Map.find?_insert {α : Type} (m : Map α) (k : Nat) (v : α) (x : Nat) :
    (Map.insert m k v).find? x = if k = x then some v else m.find? x := by
  induction m with
  | nil => simp [Map.insert, Map.find?]
  | cons kv rest ih =>
    obtain ⟨k', v'⟩ := kv
    simp only [Map.insert]
    split
    · simp [Map.find?]
    · split
      · rename_i h1 h2
        subst h2
        simp only [Map.find?]
        split <;> simp_all
      · simp only [Map.find?, ih]
        split <;> split <;> simp_all

/-! ### writeAt -/

theorem writeAt_eq (out : List Nat) (p : Nat) (bs : List Nat) (h : p ≤ out.length) :
    writeAt out p bs = out.take p ++ (bs ++ out.drop (p + bs.length)) := by
  induction p generalizing out with
  | zero => cases out <;> simp [writeAt]
  | succ n ih =>
    cases out with
    | nil => simp at h
    | cons o rest =>
      simp only [writeAt, List.take_succ_cons, List.cons_append, List.cons.injEq, true_and]
      rw [ih rest (by simpa using h)]
      congr 2
      rw [show n + 1 + bs.length = (n + bs.length) + 1 by omega, List.drop_succ_cons]

theorem writeAt_length (out : List Nat) (p : Nat) (bs : List Nat) (h : p + bs.length ≤ out.length) :
    (writeAt out p bs).length = out.length := by
  rw [writeAt_eq out p bs (by omega)]
  simp only [List.length_append, List.length_take, List.length_drop]
  omega

theorem writeAt_getElem?_outside (out : List Nat) (p : Nat) (bs : List Nat) (k : Nat)
    (h : p + bs.length ≤ out.length) (hk : k < p ∨ p + bs.length ≤ k) :
    (writeAt out p bs)[k]? = out[k]? := by
  rw [writeAt_eq out p bs (by omega)]
  rcases hk with hk | hk
  · rw [List.getElem?_append_left (by simp; omega), List.getElem?_take_of_lt hk]
  · rw [List.getElem?_append_right (by simp; omega), List.getElem?_append_right (by simp; omega)]
    simp only [List.length_take, List.getElem?_drop]
    congr 1
    omega

theorem writeAt_getElem?_inside (out : List Nat) (p : Nat) (bs : List Nat) (j : Nat)
    (h : p + bs.length ≤ out.length) (hj : j < bs.length) :
    (writeAt out p bs)[p + j]? = bs[j]? := by
  rw [writeAt_eq out p bs (by omega)]
  rw [List.getElem?_append_right (by simp; omega)]
  simp only [List.length_take]
  rw [show p + j - min p out.length = j by omega, List.getElem?_append_left hj]

theorem beBytes_length (n v : Nat) : (beBytes n v).length = n := by simp [beBytes]

/-! ### link fields -/

/-- byte `k` of the output lies in the field of link `l` of an object placed at `head` -/
def inField (head : Nat) (l : Link) (k : Nat) : Prop := head + l.pos ≤ k ∧ k < head + l.pos + l.width

def Disjoint (a b : Link) : Prop := a.pos + a.width ≤ b.pos ∨ b.pos + b.width ≤ a.pos

/-- what `serialize` leaves for one link of an object placed at `head`: the target has a recorded
position `abs`, the subtraction does not underflow, the value fits the width, and the field holds
the big-endian bytes of the value. -/
def LinkResolved (offs : Map Nat) (head : Nat) (out : List Nat) (l : Link) : Prop :=
  ∃ abs, offs.find? l.target = some abs ∧ head + l.adj ≤ abs ∧ abs - (head + l.adj) ≤ maxValue l.width ∧
    ∀ j, j < l.width → out[head + l.pos + j]? = (beBytes l.width (abs - (head + l.adj)))[j]?

theorem patchLink_spec (offs : Map Nat) (head : Nat) (out out' : List Nat) (l : Link)
    (h : patchLink offs head out l = some out') :
    ∃ abs, offs.find? l.target = some abs ∧ head + l.adj ≤ abs ∧ abs - (head + l.adj) ≤ maxValue l.width ∧
      head + l.pos + l.width ≤ out.length ∧
      out' = writeAt out (head + l.pos) (beBytes l.width (abs - (head + l.adj))) := by
  unfold patchLink at h
  split at h
  · simp at h
  · rename_i abs habs
    simp only [] at h
    split at h
    · simp at h
    · split at h
      · simp at h
      · split at h
        · simp at h
        · split at h
          · simp at h
          · refine ⟨abs, habs, by omega, by omega, by omega, ?_⟩
            simpa using h.symm

theorem patchLinks_spec (offs : Map Nat) (head : Nat) (links : List Link) (out out' : List Nat)
    (h : patchLinks offs head links out = some out')
    (hdisj : links.Pairwise Disjoint) :
    out'.length = out.length ∧
    (∀ l ∈ links, head + l.pos + l.width ≤ out.length) ∧
    (∀ k, (∀ l ∈ links, ¬ inField head l k) → out'[k]? = out[k]?) ∧
    (∀ l ∈ links, LinkResolved offs head out' l) := by
  induction links generalizing out with
  | nil =>
    simp only [patchLinks, Option.some.injEq] at h
    subst h
    simp
  | cons l rest ih =>
    simp only [patchLinks] at h
    split at h
    · simp at h
    · rename_i out1 h1
      obtain ⟨abs, habs, hge, hfit, hin, hout1⟩ := patchLink_spec offs head out out1 l h1
      have hlen1 : out1.length = out.length := by
        rw [hout1]; exact writeAt_length _ _ _ (by rw [beBytes_length]; omega)
      rw [List.pairwise_cons] at hdisj
      obtain ⟨hlen, hbound, hframe, hres⟩ := ih out1 h hdisj.2
      refine ⟨by omega, ?_, ?_, ?_⟩
      · intro l' hl'
        rcases List.mem_cons.mp hl' with rfl | hl'
        · exact hin
        · have := hbound l' hl'; omega
      · intro k hk
        rw [hframe k (fun l' hl' => hk l' (List.mem_cons_of_mem _ hl'))]
        rw [hout1]
        apply writeAt_getElem?_outside _ _ _ _ (by rw [beBytes_length]; omega)
        rw [beBytes_length]
        have := hk l (List.mem_cons_self)
        unfold inField at this
        omega
      · intro l' hl'
        rcases List.mem_cons.mp hl' with rfl | hl'
        · refine ⟨abs, habs, hge, hfit, ?_⟩
          intro j hj
          rw [hframe (head + l'.pos + j)]
          · rw [hout1]
            exact writeAt_getElem?_inside _ _ _ j (by rw [beBytes_length]; omega) (by rw [beBytes_length]; exact hj)
          · intro l2 hl2
            have hd := hdisj.1 l2 hl2
            unfold Disjoint at hd
            unfold inField
            omega
        · exact hres l' hl'

/-! ### layout: the first pass -/

/-- the layout `serialize` computes: `(id, position)` in order -/
def placements (g : Graph) : List Nat → Nat → List (Nat × Nat)
  | [], _ => []
  | id :: rest, base => (id, base) :: placements g rest (base + (g.obj id).bytes.length)

/-- concatenation of the objects' bytes in order -/
def flat (g : Graph) : List Nat → List Nat
  | [] => []
  | id :: rest => (g.obj id).bytes ++ flat g rest

theorem obj_of_find {g : Graph} {id : Nat} {o : Obj} (h : g.objects.find? id = some o) : g.obj id = o := by
  simp [Graph.obj, h]

theorem placements_fst (g : Graph) (order : List Nat) (base : Nat) :
    (placements g order base).map (·.1) = order := by
  induction order generalizing base with
  | nil => rfl
  | cons id rest ih => simp [placements, ih]

theorem placements_ge (g : Graph) (order : List Nat) (base : Nat) (id h : Nat)
    (hm : (id, h) ∈ placements g order base) :
    base ≤ h ∧ h + (g.obj id).bytes.length ≤ base + (flat g order).length := by
  induction order generalizing base with
  | nil => simp [placements] at hm
  | cons id' rest ih =>
    simp only [placements, List.mem_cons, Prod.mk.injEq] at hm
    simp only [flat, List.length_append]
    rcases hm with ⟨rfl, rfl⟩ | hm
    · omega
    · have := ih _ hm; omega

theorem flat_getElem? (g : Graph) (order : List Nat) (base : Nat) (id h k : Nat)
    (hm : (id, h) ∈ placements g order base) (hk : k < (g.obj id).bytes.length) :
    (flat g order)[h - base + k]? = (g.obj id).bytes[k]? := by
  induction order generalizing base with
  | nil => simp [placements] at hm
  | cons id' rest ih =>
    simp only [placements, List.mem_cons, Prod.mk.injEq] at hm
    simp only [flat]
    rcases hm with ⟨rfl, rfl⟩ | hm
    · rw [show h - h + k = k by omega, List.getElem?_append_left hk]
    · have hge := (placements_ge g rest _ id h hm).1
      rw [List.getElem?_append_right (by omega)]
      rw [← ih _ hm]
      congr 1
      omega

theorem layout_spec (g : Graph) (order : List Nat) (offs0 : Map Nat) (out0 : List Nat) (off0 : Nat)
    (offs : Map Nat) (out : List Nat)
    (h : layout g order offs0 out0 off0 = some (offs, out)) :
    out = out0 ++ flat g order ∧
    (∀ id ∈ order, ∃ o, g.objects.find? id = some o) ∧
    (∀ id p, offs.find? id = some p → offs0.find? id = some p ∨ (id, p) ∈ placements g order off0) := by
  induction order generalizing offs0 out0 off0 with
  | nil =>
    simp only [layout, Option.some.injEq, Prod.mk.injEq] at h
    obtain ⟨rfl, rfl⟩ := h
    exact ⟨by simp [flat], by simp, fun id p hp => Or.inl hp⟩
  | cons id rest ih =>
    simp only [layout] at h
    split at h
    · simp at h
    · rename_i o ho
      obtain ⟨h1, h2, h3⟩ := ih _ _ _ h
      have hobj := obj_of_find ho
      refine ⟨?_, ?_, ?_⟩
      · rw [h1]; simp [flat, hobj]
      · intro id' hid'
        rcases List.mem_cons.mp hid' with rfl | hid'
        · exact ⟨o, ho⟩
        · exact h2 id' hid'
      · intro id' p hp
        rcases h3 id' p hp with hq | hq
        · rw [Map.find?_insert] at hq
          split at hq
          · rename_i heq
            simp only [Option.some.injEq] at hq
            right; rw [← heq, ← hq]; simp [placements]
          · left; exact hq
        · right
          simp only [placements, List.mem_cons]
          right; rw [hobj]; exact hq

/-! ### the second pass -/

theorem patchAll_spec (g : Graph) (offs : Map Nat) (order : List Nat) (head : Nat) (out out' : List Nat)
    (h : patchAll g offs order head out = some out')
    (hwf : ∀ id ∈ order, (g.obj id).links.Pairwise Disjoint ∧
        ∀ l ∈ (g.obj id).links, l.pos + l.width ≤ (g.obj id).bytes.length) :
    out'.length = out.length ∧
    (∀ k, (∀ id hd, (id, hd) ∈ placements g order head → ∀ l ∈ (g.obj id).links, ¬ inField hd l k) →
        out'[k]? = out[k]?) ∧
    (∀ id hd, (id, hd) ∈ placements g order head → ∀ l ∈ (g.obj id).links, LinkResolved offs hd out' l) := by
  induction order generalizing head out with
  | nil =>
    simp only [patchAll, Option.some.injEq] at h
    subst h
    simp [placements]
  | cons id rest ih =>
    simp only [patchAll] at h
    split at h
    · simp at h
    · rename_i o ho
      have hobj := obj_of_find ho
      split at h
      · simp at h
      · rename_i out1 h1
        have hwf0 := hwf id List.mem_cons_self
        rw [hobj] at hwf0
        obtain ⟨hlen1, hb1, hframe1, hres1⟩ := patchLinks_spec offs head o.links out out1 h1 hwf0.1
        obtain ⟨hlen, hframe, hres⟩ := ih (head + o.bytes.length) out1 h
          (fun id' hid' => hwf id' (List.mem_cons_of_mem _ hid'))
        have hrest : ∀ id2 hd2, (id2, hd2) ∈ placements g rest (head + (g.obj id).bytes.length) →
            head + o.bytes.length ≤ hd2 := by
          intro id2 hd2 hm2
          have := (placements_ge g rest _ id2 hd2 hm2).1
          rw [hobj] at this; exact this
        refine ⟨by omega, ?_, ?_⟩
        · intro k hk
          rw [hframe k, hframe1 k]
          · intro l hl
            have := hk id head (by simp [placements]) l (by rw [hobj]; exact hl)
            exact this
          · intro id' hd' hm l hl
            exact hk id' hd' (by simp only [placements, List.mem_cons]; right; rw [hobj]; exact hm) l hl
        · intro id' hd' hm l hl
          simp only [placements, List.mem_cons, Prod.mk.injEq] at hm
          rcases hm with ⟨h1, h2⟩ | hm
          · subst h1; subst h2
            rw [hobj] at hl
            obtain ⟨abs, ha1, ha2, ha3, ha4⟩ := hres1 l hl
            refine ⟨abs, ha1, ha2, ha3, ?_⟩
            intro j hj
            rw [hframe (hd' + l.pos + j)]
            · exact ha4 j hj
            · intro id2 hd2 hm2 l2 hl2
              have := hrest id2 hd2 (by rw [hobj]; exact hm2)
              have hin := hwf0.2 l hl
              unfold inField
              omega
          · exact hres id' hd' (by rw [hobj] at hm; exact hm) l hl

/-! ### placements: membership, disjointness -/

theorem placements_mem_order (g : Graph) (order : List Nat) (base id hd : Nat)
    (hm : (id, hd) ∈ placements g order base) : id ∈ order := by
  rw [← placements_fst g order base]
  exact List.mem_map.mpr ⟨(id, hd), hm, rfl⟩

theorem order_mem_placements (g : Graph) (order : List Nat) (base id : Nat) (hm : id ∈ order) :
    ∃ hd, (id, hd) ∈ placements g order base := by
  rw [← placements_fst g order base] at hm
  obtain ⟨⟨a, b⟩, hab, rfl⟩ := List.mem_map.mp hm
  exact ⟨b, hab⟩

theorem placements_disjoint (g : Graph) (order : List Nat) (base : Nat) (a b : Nat × Nat)
    (ha : a ∈ placements g order base) (hb : b ∈ placements g order base) :
    a = b ∨ a.2 + (g.obj a.1).bytes.length ≤ b.2 ∨ b.2 + (g.obj b.1).bytes.length ≤ a.2 := by
  induction order generalizing base with
  | nil => simp [placements] at ha
  | cons id rest ih =>
    simp only [placements, List.mem_cons] at ha hb
    rcases ha with rfl | ha <;> rcases hb with rfl | hb
    · left; rfl
    · right; left; exact (placements_ge g rest _ b.1 b.2 hb).1
    · right; right; exact (placements_ge g rest _ a.1 a.2 ha).1
    · exact ih _ ha hb

/-! ### big-endian fields -/

theorem field_eq (out : List Nat) (p w : Nat) (bs : List Nat) (hl : bs.length = w)
    (h : ∀ j, j < w → out[p + j]? = bs[j]?) : (out.drop p).take w = bs := by
  apply List.ext_getElem?
  intro j
  by_cases hj : j < w
  · rw [List.getElem?_take_of_lt hj, List.getElem?_drop, h j hj]
  · rw [List.getElem?_eq_none (by simp; omega), List.getElem?_eq_none (by omega)]

theorem beValue_beBytes (w v : Nat) (hw : w = 2 ∨ w = 3 ∨ w = 4) (hv : v ≤ maxValue w) :
    beValue (beBytes w v) = v := by
  rcases hw with rfl | rfl | rfl <;>
    simp [beBytes, beValue, List.range_succ, maxValue] at hv ⊢ <;> omega

/-! ### vocabulary of the property statements -/

/-- What `TableData` guarantees for one object by construction (`add_offset` appends `len`
placeholder bytes at the current end of the buffer and records their position): link widths are
2, 3 or 4, each link field lies inside the object's bytes, and fields do not overlap. -/
def ObjWF (o : Obj) : Prop :=
  (∀ l ∈ o.links, (l.width = 2 ∨ l.width = 3 ∨ l.width = 4) ∧ l.pos + l.width ≤ o.bytes.length) ∧
  o.links.Pairwise Disjoint

/-- byte `k` of object `o` belongs to none of its link fields -/
def PlainByte (o : Obj) (k : Nat) : Prop := ∀ l ∈ o.links, ¬ (l.pos ≤ k ∧ k < l.pos + l.width)

/-- the offset a reader finds in the field of link `l` of an object placed at `hd` -/
def readOffset (out : List Nat) (hd : Nat) (l : Link) : Nat :=
  beValue ((out.drop (hd + l.pos)).take l.width)

/-- `out` holds at `hd` a copy of `o`: all bytes outside `o`'s own link fields are `o`'s -/
def CopyAt (out : List Nat) (hd : Nat) (o : Obj) : Prop :=
  hd + o.bytes.length ≤ out.length ∧
  ∀ k, k < o.bytes.length → PlainByte o k → out[hd + k]? = o.bytes[k]?

/-- the semantic object a reader sees: bytes (link fields blanked) and the subtrees behind the links -/
inductive Tree where
  | node : List Nat → List Tree → Tree

def inSomeField (o : Obj) (k : Nat) : Bool := o.links.any (fun l => decide (l.pos ≤ k) && decide (k < l.pos + l.width))

/-- the first `|o.bytes|` bytes of `bs` with `o`'s link fields blanked -/
def maskedBytes (o : Obj) (bs : List Nat) : List Nat :=
  (List.range o.bytes.length).map (fun k => if inSomeField o k then 0 else bs.getD k 0)

/-- unfold the graph from `id` into the tree a reader is meant to see (to depth `fuel`) -/
def unfold (g : Graph) : Nat → Nat → Tree
  | 0, _ => Tree.node [] []
  | fuel + 1, id =>
    Tree.node (maskedBytes (g.obj id) (g.obj id).bytes) ((g.obj id).links.map (fun l => unfold g fuel l.target))

/-- read the output from `pos` as an object shaped like `id` (lengths and link fields as in `g`),
following every offset with its width and base (to depth `fuel`) -/
def readBack (out : List Nat) (g : Graph) : Nat → Nat → Nat → Tree
  | 0, _, _ => Tree.node [] []
  | fuel + 1, pos, id =>
    Tree.node (maskedBytes (g.obj id) (out.drop pos))
      ((g.obj id).links.map (fun l => readBack out g fuel (pos + l.adj + readOffset out pos l) l.target))

theorem inSomeField_false (o : Obj) (k : Nat) : inSomeField o k = false ↔ PlainByte o k := by
  unfold inSomeField PlainByte
  simp only [List.any_eq_false, Bool.and_eq_true, decide_eq_true_eq]

theorem masked_copy (out : List Nat) (hd : Nat) (o : Obj) (h : CopyAt out hd o) :
    maskedBytes o (out.drop hd) = maskedBytes o o.bytes := by
  unfold maskedBytes
  apply List.map_congr_left
  intro k hk
  simp only [List.mem_range] at hk
  cases hf : inSomeField o k with
  | true => simp
  | false =>
    simp only [Bool.false_eq_true, ↓reduceIte]
    have := h.2 k hk ((inSomeField_false o k).mp hf)
    simp only [List.getD_eq_getElem?_getD, List.getElem?_drop, this]

/-! ### graph surgery as a simulation -/

/-- the shape of a link as a reader sees it, with the target renamed by `φ` -/
def linkShape (φ : Nat → Nat) (l : Link) : Nat × Nat × Nat × Nat := (l.pos, l.width, l.adj, φ l.target)

/-- `φ` maps every object of `g'` to an object of `g` with the same bytes and the same links up to `φ` -/
def Simulates (g' g : Graph) (φ : Nat → Nat) : Prop :=
  ∀ x, (g'.obj x).bytes = (g.obj (φ x)).bytes ∧
    (g'.obj x).links.map (linkShape φ) = (g.obj (φ x)).links.map (linkShape id)

theorem inSomeField_congr (o o' : Obj) (φ : Nat → Nat) (h : o'.links.map (linkShape φ) = o.links.map (linkShape id)) (k : Nat) :
    inSomeField o' k = inSomeField o k := by
  unfold inSomeField
  have h2 : o'.links.map (fun l => (l.pos, l.width)) = o.links.map (fun l => (l.pos, l.width)) := by
    have := congrArg (List.map (fun (s : Nat × Nat × Nat × Nat) => (s.1, s.2.1))) h
    simpa [linkShape, List.map_map, Function.comp_def] using this
  have e : ∀ (ls : List Link), ls.any (fun l => decide (l.pos ≤ k) && decide (k < l.pos + l.width)) =
      (ls.map (fun l => (l.pos, l.width))).any (fun p => decide (p.1 ≤ k) && decide (k < p.1 + p.2)) := by
    intro ls; simp [List.any_map, Function.comp_def]
  rw [e, e, h2]

theorem unfold_simulation (g' g : Graph) (φ : Nat → Nat) (h : Simulates g' g φ) (fuel : Nat) (x : Nat) :
    unfold g' fuel x = unfold g fuel (φ x) := by
  induction fuel generalizing x with
  | zero => rfl
  | succ n ih =>
    obtain ⟨hb, hl⟩ := h x
    simp only [unfold]
    congr 1
    · unfold maskedBytes
      rw [hb]
      apply List.map_congr_left
      intro k _
      rw [inSomeField_congr _ _ φ hl k]
    · have h1 : (g'.obj x).links.map (fun l => unfold g' n l.target)
          = ((g'.obj x).links.map (linkShape φ)).map (fun s => unfold g n s.2.2.2) := by
        simp only [List.map_map, Function.comp_def, linkShape]
        apply List.map_congr_left
        intro l _
        exact ih l.target
      have h2 : (g.obj (φ x)).links.map (fun l => unfold g n l.target)
          = ((g.obj (φ x)).links.map (linkShape id)).map (fun s => unfold g n s.2.2.2) := by
        simp only [List.map_map, Function.comp_def, linkShape, id]
      rw [h1, h2, hl]

end FontVerif.Graph
