/- C14 / IntSet helper lemmas, part 7: `IntSet` observers in both modes: `iter`, `iter().rev()`,
`iter_after`, `first`, `last`, `intersects_range`, `iter_ranges` / `iter_excluded_ranges`
(continuous domains), `intersects_set`. -/
import FontVerif.Lemmas.IntSetIter
set_option linter.unusedVariables false
set_option linter.unusedSimpArgs false
namespace FontVerif.IntSet

/-! ### member ranges -/

theorem memberRanges_rsorted {d : Domain} (hd : DomWF d) {s : IntSet} (h : IInvD d s) :
    RSorted (s.memberRanges d) := by
  unfold IntSet.memberRanges
  split
  · exact (subtractRanges_spec _ _ hd.sorted (BitSet.ranges_spec _ h.1).1.rsorted).1
  · exact (BitSet.ranges_spec _ h.1).1.rsorted

theorem expand_memberRanges {d : Domain} (hd : DomWF d) {s : IntSet} (h : IInvD d s) :
    expand (s.memberRanges d) = s.elems d := by
  have hrs := memberRanges_rsorted hd h
  unfold IntSet.memberRanges at hrs ⊢
  split
  · rename_i hi
    rw [if_pos hi] at hrs
    obtain ⟨r1, r2⟩ := BitSet.ranges_spec _ h.1
    obtain ⟨_, s2, _⟩ := subtractRanges_spec d.ranges s.set.ranges hd.sorted r1.rsorted
    apply asc_ext (expand_asc hrs) (elems_asc hd s)
    intro x
    rw [mem_expand_iff_nmem, s2, r2, mem_elems, Domain.contains_iff]
    simp [IntSet.contains, hi, NMem]
  · rename_i hi
    simp only [Bool.not_eq_true] at hi
    rw [BitSet.expand_ranges _ h.1, elems_inclusive hd h hi]

/-! ### iter / rev / iter_after -/

theorem IntSet.iterTake_eq {d : Domain} (hd : DomWF d) {s : IntSet} (h : IInvD d s) (k : Nat) :
    s.iterTake d k = (s.elems d).take k := by
  unfold IntSet.iterTake
  split
  · rw [expandTake_eq, expand_memberRanges hd h]
  · rename_i hi
    simp only [Bool.not_eq_true] at hi
    rw [elems_inclusive hd h hi]

theorem IntSet.iterBackTake_eq {d : Domain} (hd : DomWF d) {s : IntSet} (h : IInvD d s) (k : Nat) :
    s.iterBackTake d k = (s.elems d).reverse.take k := by
  unfold IntSet.iterBackTake
  split
  · rw [expandTakeBack_eq, expand_memberRanges hd h]
  · rename_i hi
    simp only [Bool.not_eq_true] at hi
    rw [elems_inclusive hd h hi]

theorem getLast_max {rs : List (Nat × Nat)} (h : RSorted rs) {l : Nat × Nat}
    (hl : rs.getLast? = some l) : ∀ p ∈ rs, p.2 ≤ l.2 := by
  induction rs with
  | nil => simp
  | cons r rs ih =>
    cases rs with
    | nil =>
      simp at hl; subst hl
      intro p hp; simp at hp; subst hp; exact Nat.le_refl _
    | cons r' rs' =>
      rw [List.getLast?_cons_cons] at hl
      have h' := rsorted_cons.1 h
      have ih' := ih h'.2.2 hl
      intro p hp
      simp only [List.mem_cons] at hp
      rcases hp with rfl | hp
      · have h1 := h'.1 r' (by simp)
        have h2 := (rsorted_cons.1 h'.2.2).2.1
        have h3 := ih' r' (by simp)
        omega
      · exact ih' p (by simpa using hp)

theorem Domain.le_max {d : Domain} (hd : DomWF d) {hi : Nat} (hm : d.max? = some hi) {x : Nat}
    (hx : d.contains x = true) : x ≤ hi := by
  unfold Domain.max? at hm
  rw [Option.map_eq_some_iff] at hm
  obtain ⟨l, hl, rfl⟩ := hm
  rw [Domain.contains_iff] at hx
  obtain ⟨r, hr, h1, h2⟩ := hx
  have := getLast_max hd.sorted hl r hr
  omega

theorem Domain.ranges_nil_of_max {d : Domain} (hm : d.max? = none) : d.ranges = [] := by
  unfold Domain.max? at hm
  simpa using hm

theorem elems_nil_of_ranges {d : Domain} (h : d.ranges = []) (s : IntSet) : s.elems d = [] := by
  unfold IntSet.elems; rw [h]; rfl

theorem IntSet.iterAfterTake_eq {d : Domain} (hd : DomWF d) {s : IntSet} (h : IInvD d s)
    (v k : Nat) :
    s.iterAfterTake d v k = ((s.elems d).filter (fun x => decide (x > v))).take k := by
  unfold IntSet.iterAfterTake
  split
  · rename_i hi
    split
    · rename_i hi' hmx
      split
      · rename_i hlt
        rw [expandTake_eq, expand_clipRanges (memberRanges_rsorted hd h), expand_memberRanges hd h]
        congr 1
        apply List.filter_congr
        intro x hx
        have := Domain.le_max hd hmx (mem_elems.1 hx).1
        by_cases h1 : x > v
        · simp [h1]; omega
        · simp [h1]; omega
      · rename_i hlt
        have : (s.elems d).filter (fun x => decide (x > v)) = [] := by
          rw [List.filter_eq_nil_iff]
          intro x hx
          have := Domain.le_max hd hmx (mem_elems.1 hx).1
          simp; omega
        rw [this]; simp
    · rename_i hmx
      rw [elems_nil_of_ranges (Domain.ranges_nil_of_max hmx)]; simp
  · rename_i hi
    simp only [Bool.not_eq_true] at hi
    rw [elems_inclusive hd h hi]

/-! ### first / last -/

theorem IntSet.first_eq {d : Domain} (hd : DomWF d) {s : IntSet} (h : IInvD d s) :
    s.first d = (s.elems d).head? := by
  unfold IntSet.first
  rw [IntSet.iterTake_eq hd h]
  cases s.elems d <;> rfl

theorem IntSet.last_eq {d : Domain} (hd : DomWF d) {s : IntSet} (h : IInvD d s) :
    s.last d = (s.elems d).getLast? := by
  unfold IntSet.last
  rw [IntSet.iterBackTake_eq hd h, ← List.head?_reverse]
  cases (s.elems d).reverse <;> rfl

theorem asc_head?_eq_some {xs : List Nat} (h : Asc xs) {m : Nat} :
    xs.head? = some m ↔ m ∈ xs ∧ ∀ x ∈ xs, m ≤ x := by
  cases xs with
  | nil => simp
  | cons a t =>
    rw [asc_cons] at h
    simp only [List.head?_cons, Option.some.injEq, List.mem_cons, forall_eq_or_imp]
    constructor
    · rintro rfl
      exact ⟨Or.inl rfl, Nat.le_refl _, fun x hx => Nat.le_of_lt (h.1 x hx)⟩
    · rintro ⟨h1 | h1, h2, _⟩
      · exact h1.symm
      · have := h.1 m h1; omega

theorem asc_getLast?_eq_some {xs : List Nat} (h : Asc xs) {m : Nat} :
    xs.getLast? = some m ↔ m ∈ xs ∧ ∀ x ∈ xs, x ≤ m := by
  induction xs with
  | nil => simp
  | cons a t ih =>
    rw [asc_cons] at h
    cases t with
    | nil =>
      simp only [List.getLast?_singleton, Option.some.injEq, List.mem_singleton, forall_eq]
      constructor
      · rintro rfl; exact ⟨rfl, Nat.le_refl _⟩
      · rintro ⟨h1, _⟩; exact h1.symm
    | cons b t' =>
      rw [List.getLast?_cons_cons, ih h.2]
      constructor
      · rintro ⟨h1, h2⟩
        refine ⟨by simp only [List.mem_cons] at h1 ⊢; exact Or.inr h1, ?_⟩
        intro x hx
        simp only [List.mem_cons] at hx
        rcases hx with rfl | hx
        · have := h.1 m h1; omega
        · exact h2 x (by simpa using hx)
      · rintro ⟨h1, h2⟩
        have hb := h2 b (by simp)
        have hab := h.1 b (by simp)
        simp only [List.mem_cons] at h1
        rcases h1 with rfl | h1
        · omega
        · exact ⟨by simpa using h1, fun x hx => h2 x (by simp only [List.mem_cons] at hx ⊢; exact Or.inr hx)⟩

theorem head?_eq_none_iff' {xs : List Nat} : xs.head? = none ↔ xs = [] := by
  cases xs <;> simp

/-! ### intersects_range -/

/-- the first element `≥ a` of an ascending list is `≤ b` iff the list meets `[a, b]` -/
theorem head_filter_le (xs : List Nat) (h : Asc xs) (a b : Nat) :
    (match (xs.filter (fun x => decide (a ≤ x))).head? with
      | some n => decide (n ≤ b)
      | none => false) = true ↔ ∃ x ∈ xs, a ≤ x ∧ x ≤ b := by
  have hys : Asc (xs.filter (fun x => decide (a ≤ x))) := h.filter _
  have hmem : ∀ x, x ∈ xs.filter (fun x => decide (a ≤ x)) ↔ x ∈ xs ∧ a ≤ x := by
    intro x; simp [List.mem_filter]
  generalize xs.filter (fun x => decide (a ≤ x)) = ys at hys hmem
  cases ys with
  | nil =>
    simp only [List.head?_nil, Bool.false_eq_true, false_iff]
    rintro ⟨x, hx, h1, _⟩
    have := (hmem x).2 ⟨hx, h1⟩
    simp at this
  | cons y t =>
    rw [asc_cons] at hys
    simp only [List.head?_cons, decide_eq_true_eq]
    constructor
    · intro hy
      have := (hmem y).1 (by simp)
      exact ⟨y, this.1, this.2, hy⟩
    · rintro ⟨x, hx, h1, h2⟩
      have := (hmem x).2 ⟨hx, h1⟩
      simp only [List.mem_cons] at this
      rcases this with rfl | this
      · exact h2
      · have := hys.1 x this; omega

theorem desc_of_reverse {xs : List Nat} (h : Asc xs) : xs.reverse.Pairwise (· > ·) := by
  rw [List.pairwise_reverse]
  exact h

theorem Domain.min_le {d : Domain} (hd : DomWF d) {lo : Nat} (hm : d.min? = some lo) {x : Nat}
    (hx : d.contains x = true) : lo ≤ x := by
  unfold Domain.min? at hm
  rw [Option.map_eq_some_iff] at hm
  obtain ⟨r, hr, rfl⟩ := hm
  cases hrs : d.ranges with
  | nil => rw [hrs] at hr; simp at hr
  | cons r' rest =>
    rw [hrs] at hr
    simp at hr; subst hr
    rw [Domain.contains_iff, hrs] at hx
    have hs := hd.sorted
    rw [hrs] at hs
    exact nmem_ge_head hs hx

theorem Domain.min_some_of_contains {d : Domain} {x : Nat} (hx : d.contains x = true) :
    ∃ lo, d.min? = some lo := by
  rw [Domain.contains_iff] at hx
  obtain ⟨r, hr, _⟩ := hx
  unfold Domain.min?
  cases hrs : d.ranges with
  | nil => rw [hrs] at hr; simp at hr
  | cons r' rest => exact ⟨r'.1, rfl⟩

/-- `IntSet::intersects_range(a..=b)` for a start point that is a domain value (guaranteed by
the element type): true iff some member lies in `[a, b]` -/
theorem IntSet.intersectsRange_spec {d : Domain} (hd : DomWF d) {s : IntSet} (h : IInvD d s)
    (a b : Nat) (ha : d.contains a = true) :
    s.intersectsRange d a b = true ↔
      ∃ x, a ≤ x ∧ x ≤ b ∧ d.contains x = true ∧ s.contains x = true := by
  obtain ⟨lo, hlo⟩ := Domain.min_some_of_contains ha
  have hloa := Domain.min_le hd hlo ha
  -- the specification side, through `head_filter_le`
  have hspec := head_filter_le (s.elems d) (elems_asc hd s) a b
  have hrhs : (∃ x ∈ s.elems d, a ≤ x ∧ x ≤ b) ↔
      ∃ x, a ≤ x ∧ x ≤ b ∧ d.contains x = true ∧ s.contains x = true := by
    constructor
    · rintro ⟨x, hx, h1, h2⟩; exact ⟨x, h1, h2, (mem_elems.1 hx).1, (mem_elems.1 hx).2⟩
    · rintro ⟨x, h1, h2, h3, h4⟩; exact ⟨x, mem_elems.2 ⟨h3, h4⟩, h1, h2⟩
  rw [← hrhs, ← hspec]
  -- the domain values up to `a`, descending
  have hDa : Asc ((expand d.ranges).filter (fun x => decide (lo ≤ x) && decide (x ≤ a))) :=
    (expand_asc hd.sorted).filter _
  have hDmem : ∀ x, x ∈ (expand d.ranges).filter (fun x => decide (lo ≤ x) && decide (x ≤ a)) ↔
      d.contains x = true ∧ x ≤ a := by
    intro x
    rw [List.mem_filter, ← Domain.contains_iff_mem]
    constructor
    · rintro ⟨h1, h2⟩; simp at h2; exact ⟨h1, h2.2⟩
    · rintro ⟨h1, h2⟩; have := Domain.min_le hd hlo h1; simp; exact ⟨h1, this, h2⟩
  unfold IntSet.intersectsRange
  rw [hlo]
  simp only []
  rw [expandTakeBack_eq]
  unfold Domain.rangeValues
  rw [expand_clipRanges hd.sorted]
  have hdesc := desc_of_reverse hDa
  generalize hD : ((expand d.ranges).filter (fun x => decide (lo ≤ x) && decide (x ≤ a))).reverse
    = R at hdesc
  have hRmem : ∀ x, x ∈ R ↔ d.contains x = true ∧ x ≤ a := by
    intro x; rw [← hD, List.mem_reverse]; exact hDmem x
  -- the head of R is `a`
  cases R with
  | nil => have := (hRmem a).2 ⟨ha, Nat.le_refl _⟩; simp at this
  | cons t rest =>
    rw [List.pairwise_cons] at hdesc
    have ht : t = a := by
      have h1 := (hRmem t).1 (by simp)
      have h2 := (hRmem a).2 ⟨ha, Nat.le_refl _⟩
      simp only [List.mem_cons] at h2
      rcases h2 with h2 | h2
      · exact h2.symm
      · have := hdesc.1 a h2; omega
    subst ht
    cases rest with
    | nil =>
      -- `t` is the least domain value: every member is ≥ t
      have hall : (s.elems d).filter (fun x => decide (t ≤ x)) = s.elems d := by
        rw [List.filter_eq_self]
        intro x hx
        simp only [decide_eq_true_eq]
        apply Nat.le_of_not_lt
        intro hlt
        have := (hRmem x).2 ⟨(mem_elems.1 hx).1, by omega⟩
        simp at this; omega
      rw [show List.take 2 [t] = [t] from rfl]
      simp only []
      rw [IntSet.iterTake_eq hd h, hall]
      cases s.elems d <;> rfl
    | cons p rest' =>
      have hpt : p < t := hdesc.1 p (by simp)
      have hrest := (List.pairwise_cons.1 hdesc.2).1
      have hsame : (s.elems d).filter (fun x => decide (x > p)) =
          (s.elems d).filter (fun x => decide (t ≤ x)) := by
        apply List.filter_congr
        intro x hx
        by_cases h1 : t ≤ x
        · have : x > p := by omega
          simp [h1, this]
        · have h2 : ¬ x > p := by
            intro hgt
            have := (hRmem x).2 ⟨(mem_elems.1 hx).1, by omega⟩
            simp only [List.mem_cons] at this
            rcases this with rfl | rfl | this
            · omega
            · omega
            · have := hrest x this; omega
          simp [h1, h2]
      rw [show List.take 2 (t :: p :: rest') = [t, p] from rfl]
      simp only []
      rw [IntSet.iterAfterTake_eq hd h, hsame]
      cases (s.elems d).filter (fun x => decide (t ≤ x)) <;> rfl

end FontVerif.IntSet
