/- C14 / IntSet helper lemmas, part 2: the sorted page list of `BitSet` and its mutators. -/
import FontVerif.Lemmas.IntSetPage
set_option linter.unusedVariables false
set_option linter.unusedSimpArgs false
namespace FontVerif.IntSet

/-! ### invariants -/

/-- pages strictly sorted by major value -/
def Sorted (ps : Pages) : Prop := ps.Pairwise (fun a b => a.1 < b.1)

/-- sorted, and every page well formed (`bits < 2^512`, cached `len = popCount bits`) -/
def PagesInv (ps : Pages) : Prop := Sorted ps ∧ ∀ kp ∈ ps, PageOk kp.2

/-- representation invariant of `BitSet` -/
def BInv (s : BitSet) : Prop := PagesInv s.pages ∧ s.len = sumLens s.pages

/-- membership as a function of the page list -/
def containsP (ps : Pages) (v : Nat) : Bool :=
  match lookup ps (majorOf v) with
  | some p => pageContains p v
  | none => false

theorem BitSet.contains_eq (s : BitSet) (v : Nat) : s.contains v = containsP s.pages v := rfl

theorem sorted_nil : Sorted [] := List.Pairwise.nil

theorem sorted_cons {kp : Nat × Page} {ps : Pages} :
    Sorted (kp :: ps) ↔ (∀ q ∈ ps, kp.1 < q.1) ∧ Sorted ps := List.pairwise_cons

theorem pagesInv_nil : PagesInv [] := ⟨sorted_nil, by simp⟩

theorem pagesInv_cons {kp : Nat × Page} {ps : Pages} :
    PagesInv (kp :: ps) ↔ (∀ q ∈ ps, kp.1 < q.1) ∧ PageOk kp.2 ∧ PagesInv ps := by
  simp only [PagesInv, sorted_cons, List.mem_cons, forall_eq_or_imp]
  constructor
  · rintro ⟨⟨h1, h2⟩, h3, h4⟩; exact ⟨h1, h3, h2, h4⟩
  · rintro ⟨h1, h3, h2, h4⟩; exact ⟨⟨h1, h2⟩, h3, h4⟩

theorem bInv_empty : BInv BitSet.empty := ⟨pagesInv_nil, rfl⟩

/-! ### sumLens -/

theorem foldl_len_acc (ps : Pages) (a : Nat) :
    ps.foldl (fun acc kp => acc + kp.2.len) a = a + ps.foldl (fun acc kp => acc + kp.2.len) 0 := by
  induction ps generalizing a with
  | nil => simp
  | cons kp ps ih =>
    simp only [List.foldl_cons]
    rw [ih, ih (0 + kp.2.len)]
    omega

theorem sumLens_nil : sumLens [] = 0 := rfl

theorem sumLens_cons (kp : Nat × Page) (ps : Pages) : sumLens (kp :: ps) = kp.2.len + sumLens ps := by
  unfold sumLens
  simp only [List.foldl_cons]
  rw [foldl_len_acc]
  omega

theorem sumLens_append (as bs : Pages) : sumLens (as ++ bs) = sumLens as + sumLens bs := by
  induction as with
  | nil => simp [sumLens_nil]
  | cons a as ih => simp only [List.cons_append, sumLens_cons, ih]; omega

/-! ### lookup -/

theorem lookup_none_of_lt {ps : Pages} {m : Nat} (h : ∀ kp ∈ ps, m < kp.1) : lookup ps m = none := by
  induction ps with
  | nil => rfl
  | cons kp ps ih =>
    obtain ⟨k, p⟩ := kp
    have h1 := h (k, p) (by simp)
    simp only [lookup]
    rw [if_neg (by simp at h1; omega)]
    exact ih (fun q hq => h q (by simp [hq]))

theorem lookup_some_mem {ps : Pages} {m : Nat} {p : Page} (h : lookup ps m = some p) : (m, p) ∈ ps := by
  induction ps with
  | nil => simp [lookup] at h
  | cons kp ps ih =>
    obtain ⟨k, q⟩ := kp
    simp only [lookup] at h
    split at h
    · simp at h; subst h; subst_vars; simp
    · simp [ih h]

theorem lookup_of_mem {ps : Pages} (hs : Sorted ps) {m : Nat} {p : Page} (h : (m, p) ∈ ps) :
    lookup ps m = some p := by
  induction ps with
  | nil => simp at h
  | cons kp ps ih =>
    obtain ⟨k, q⟩ := kp
    rw [sorted_cons] at hs
    simp only [lookup]
    simp only [List.mem_cons] at h
    rcases h with h | h
    · injection h with h1 h2; subst h1; subst h2; simp
    · have := hs.1 _ h
      simp only at this
      rw [if_neg (by omega)]
      exact ih hs.2 h

theorem lookup_ok {ps : Pages} (h : PagesInv ps) {m : Nat} {p : Page} (hl : lookup ps m = some p) :
    PageOk p := h.2 _ (lookup_some_mem hl)

theorem getD_ok {ps : Pages} (h : PagesInv ps) (m : Nat) : PageOk ((lookup ps m).getD Page.zero) := by
  cases hl : lookup ps m with
  | none => exact pageOk_zero
  | some p => exact lookup_ok h hl

/-- membership only depends on the (possibly missing = zero) page of the value's major -/
theorem containsP_getD (ps : Pages) (v : Nat) :
    containsP ps v = pageContains ((lookup ps (majorOf v)).getD Page.zero) v := by
  unfold containsP
  cases lookup ps (majorOf v) with
  | none => simp [pageContains, Page.zero]
  | some p => rfl

/-! ### ensurePage -/

theorem mem_ensurePage {ps : Pages} {m : Nat} {kp : Nat × Page} (h : kp ∈ ensurePage ps m) :
    kp ∈ ps ∨ kp = (m, Page.zero) := by
  induction ps with
  | nil => simp [ensurePage] at h; exact Or.inr h
  | cons q ps ih =>
    obtain ⟨k, p⟩ := q
    simp only [ensurePage] at h
    split at h
    · simp only [List.mem_cons] at h
      rcases h with h | h | h
      · exact Or.inr h
      · exact Or.inl (by simp [h])
      · exact Or.inl (by simp [h])
    · split at h
      · exact Or.inl h
      · simp only [List.mem_cons] at h
        rcases h with h | h
        · exact Or.inl (by simp [h])
        · rcases ih h with h | h
          · exact Or.inl (by simp [h])
          · exact Or.inr h

theorem ensurePage_sorted {ps : Pages} (m : Nat) (hs : Sorted ps) : Sorted (ensurePage ps m) := by
  induction ps with
  | nil => simp [ensurePage, Sorted]
  | cons q ps ih =>
    obtain ⟨k, p⟩ := q
    simp only [ensurePage]
    split
    · rename_i hlt
      rw [sorted_cons]
      refine ⟨?_, hs⟩
      intro q hq
      simp only [List.mem_cons] at hq
      rcases hq with rfl | hq
      · exact hlt
      · have := (sorted_cons.1 hs).1 q hq
        simp only at this ⊢
        omega
    · split
      · exact hs
      · rename_i h1 h2
        rw [sorted_cons] at hs ⊢
        refine ⟨?_, ih hs.2⟩
        intro q hq
        rcases mem_ensurePage hq with hq | hq
        · exact hs.1 q hq
        · subst hq; simp only; omega

theorem ensurePage_inv {ps : Pages} (m : Nat) (h : PagesInv ps) : PagesInv (ensurePage ps m) := by
  refine ⟨ensurePage_sorted m h.1, ?_⟩
  intro kp hkp
  rcases mem_ensurePage hkp with hkp | hkp
  · exact h.2 kp hkp
  · subst hkp; exact pageOk_zero

theorem lookup_ensurePage {ps : Pages} (hs : Sorted ps) (m k : Nat) :
    lookup (ensurePage ps m) k =
      if k = m then some ((lookup ps m).getD Page.zero) else lookup ps k := by
  induction ps with
  | nil =>
    simp only [ensurePage, lookup]
    by_cases h : k = m
    · subst h; simp
    · rw [if_neg h, if_neg (fun h' => h h'.symm)]
  | cons q ps ih =>
    obtain ⟨a, p⟩ := q
    rw [sorted_cons] at hs
    simp only [ensurePage]
    split
    · rename_i hlt
      have hnone : lookup ((a, p) :: ps) m = none := by
        apply lookup_none_of_lt
        intro q hq
        simp only [List.mem_cons] at hq
        rcases hq with rfl | hq
        · exact hlt
        · have := hs.1 q hq; simp only at this; omega
      rw [hnone]
      simp only [lookup]
      by_cases h : k = m
      · subst h; simp
      · rw [if_neg (fun h' => h h'.symm), if_neg h]
    · split
      · rename_i h1 h2
        subst h2
        by_cases h : k = m
        · subst h; simp [lookup]
        · rw [if_neg h]
      · rename_i h1 h2
        simp only [lookup]
        rw [ih hs.2]
        by_cases hak : a = k
        · subst hak
          rw [if_pos rfl, if_pos rfl, if_neg (by omega)]
        · rw [if_neg hak, if_neg hak]
          have : ¬ a = m := by omega
          rw [if_neg this]

theorem sumLens_ensurePage (ps : Pages) (m : Nat) : sumLens (ensurePage ps m) = sumLens ps := by
  induction ps with
  | nil => simp [ensurePage, sumLens_cons, sumLens_nil, Page.zero]
  | cons q ps ih =>
    obtain ⟨k, p⟩ := q
    simp only [ensurePage]
    split
    · simp [sumLens_cons, Page.zero]
    · split
      · rfl
      · simp only [sumLens_cons, ih]

/-! ### setPage -/

theorem mem_setPage {ps : Pages} {m : Nat} {q : Page} {kp : Nat × Page} (h : kp ∈ setPage ps m q) :
    kp ∈ ps ∨ kp = (m, q) := by
  induction ps with
  | nil => simp [setPage] at h
  | cons r ps ih =>
    obtain ⟨k, p⟩ := r
    simp only [setPage] at h
    split at h
    · rename_i hk
      simp only [List.mem_cons] at h
      rcases h with h | h
      · subst hk; exact Or.inr h
      · exact Or.inl (by simp [h])
    · simp only [List.mem_cons] at h
      rcases h with h | h
      · exact Or.inl (by simp [h])
      · rcases ih h with h | h
        · exact Or.inl (by simp [h])
        · exact Or.inr h

theorem setPage_keys (ps : Pages) (m : Nat) (q : Page) :
    (setPage ps m q).map (·.1) = ps.map (·.1) := by
  induction ps with
  | nil => rfl
  | cons r ps ih =>
    obtain ⟨k, p⟩ := r
    simp only [setPage]
    split
    · simp
    · simp [ih]

theorem sorted_iff_keys (ps : Pages) : Sorted ps ↔ (ps.map (·.1)).Pairwise (· < ·) := by
  unfold Sorted
  rw [List.pairwise_map]

theorem setPage_sorted {ps : Pages} (m : Nat) (q : Page) (hs : Sorted ps) : Sorted (setPage ps m q) := by
  rw [sorted_iff_keys, setPage_keys, ← sorted_iff_keys]; exact hs

theorem setPage_inv {ps : Pages} (m : Nat) {q : Page} (h : PagesInv ps) (hq : PageOk q) :
    PagesInv (setPage ps m q) := by
  refine ⟨setPage_sorted m q h.1, ?_⟩
  intro kp hkp
  rcases mem_setPage hkp with hkp | hkp
  · exact h.2 kp hkp
  · subst hkp; exact hq

theorem lookup_setPage (ps : Pages) (m : Nat) (q : Page) (k : Nat) :
    lookup (setPage ps m q) k =
      if k = m then (lookup ps m).map (fun _ => q) else lookup ps k := by
  induction ps with
  | nil => simp [setPage, lookup]
  | cons r ps ih =>
    obtain ⟨a, p⟩ := r
    simp only [setPage]
    split
    · rename_i ham
      subst ham
      simp only [lookup]
      by_cases h : a = k
      · subst h; simp
      · rw [if_neg h, if_neg h, if_neg (fun h' => h h'.symm)]
    · rename_i ham
      simp only [lookup]
      rw [ih]
      by_cases h : a = k
      · subst h; rw [if_pos rfl, if_pos rfl, if_neg ham]
      · rw [if_neg h, if_neg h]
        by_cases hk : k = m
        · subst hk; rw [if_pos rfl, if_pos rfl, if_neg h]
        · rw [if_neg hk, if_neg hk]

theorem sumLens_setPage {ps : Pages} {m : Nat} {p : Page} (q : Page) (h : lookup ps m = some p) :
    sumLens (setPage ps m q) + p.len = sumLens ps + q.len := by
  induction ps with
  | nil => simp [lookup] at h
  | cons r ps ih =>
    obtain ⟨a, p'⟩ := r
    simp only [lookup] at h
    simp only [setPage]
    split at h
    · rename_i ham
      simp at h; subst h
      rw [if_pos ham]
      simp only [sumLens_cons]; omega
    · rename_i ham
      rw [if_neg ham]
      simp only [sumLens_cons]
      have := ih h
      omega

/-- the combination used by every single-page mutator: make sure page `m` exists, then
overwrite it -/
theorem ensure_set_spec {ps : Pages} (m : Nat) {q : Page} (hinv : PagesInv ps) (hq : PageOk q) :
    PagesInv (setPage (ensurePage ps m) m q) ∧
    (∀ k, lookup (setPage (ensurePage ps m) m q) k = if k = m then some q else lookup ps k) ∧
    sumLens (setPage (ensurePage ps m) m q) + ((lookup ps m).getD Page.zero).len
      = sumLens ps + q.len := by
  refine ⟨setPage_inv m (ensurePage_inv m hinv) hq, ?_, ?_⟩
  · intro k
    rw [lookup_setPage, lookup_ensurePage hinv.1, lookup_ensurePage hinv.1]
    by_cases h : k = m
    · subst h; simp
    · simp [h]
  · have h1 : lookup (ensurePage ps m) m = some ((lookup ps m).getD Page.zero) := by
      rw [lookup_ensurePage hinv.1]; simp
    have := sumLens_setPage q h1
    rw [sumLens_ensurePage] at this
    exact this

/-! ### values and their page coordinates -/

theorem split_value (x : Nat) : x = majorOf x * 512 + x % 512 := by
  unfold majorOf; omega

theorem eq_of_major_minor {x v : Nat} (h1 : majorOf x = majorOf v) (h2 : x % 512 = v % 512) :
    x = v := by
  unfold majorOf at h1; omega

/-! ### insert -/

theorem BitSet.insert_eq (s : BitSet) (v : Nat) (hs : Sorted s.pages) :
    s.insert v =
      let p := (lookup s.pages (majorOf v)).getD Page.zero
      let r := pageInsert p v
      (⟨setPage (ensurePage s.pages (majorOf v)) (majorOf v) r.1,
        s.len + (if r.2 then 1 else 0)⟩, r.2) := by
  unfold BitSet.insert
  simp only []
  rw [lookup_ensurePage hs]
  simp

theorem BitSet.insert_inv (s : BitSet) (v : Nat) (h : BInv s) : BInv (s.insert v).1 := by
  rw [BitSet.insert_eq s v h.1.1]
  simp only []
  have hp := getD_ok h.1 (majorOf v)
  have hq := pageInsert_ok _ v hp
  obtain ⟨h1, _, h3⟩ := ensure_set_spec (majorOf v) h.1 hq
  refine ⟨h1, ?_⟩
  simp only []
  rw [pageInsert_len] at h3
  rw [h.2]
  omega

theorem BitSet.insert_contains (s : BitSet) (v x : Nat) (h : BInv s) :
    (s.insert v).1.contains x = (decide (x = v) || s.contains x) := by
  rw [BitSet.insert_eq s v h.1.1]
  simp only [BitSet.contains_eq]
  have hp := getD_ok h.1 (majorOf v)
  have hq := pageInsert_ok _ v hp
  obtain ⟨_, h2, _⟩ := ensure_set_spec (majorOf v) h.1 hq
  rw [containsP_getD, h2, containsP_getD]
  by_cases hm : majorOf x = majorOf v
  · rw [if_pos hm]
    simp only [Option.getD_some, pageContains, pageInsert_bits, hm]
    by_cases hxv : x = v
    · subst hxv; simp
    · have : ¬ (v % 512 = x % 512) := fun h' => hxv (eq_of_major_minor hm h'.symm)
      simp [hxv, this]
  · rw [if_neg hm]
    have : ¬ x = v := fun h' => hm (by rw [h'])
    simp [this]

theorem BitSet.insert_snd (s : BitSet) (v : Nat) (h : BInv s) :
    (s.insert v).2 = !s.contains v := by
  rw [BitSet.insert_eq s v h.1.1]
  simp only [BitSet.contains_eq, containsP_getD, pageInsert_snd, pageContains]

/-! ### remove -/

theorem BitSet.remove_inv (s : BitSet) (v : Nat) (h : BInv s) : BInv (s.remove v).1 := by
  unfold BitSet.remove
  simp only []
  split
  · exact h
  · rename_i p hl
    have hp := lookup_ok h.1 hl
    refine ⟨setPage_inv _ h.1 (pageRemove_ok p v hp), ?_⟩
    simp only []
    have h3 := sumLens_setPage (pageRemove p v).1 hl
    rw [h.2]
    cases hr : (pageRemove p v).2
    · have := pageRemove_len p v
      rw [hr] at this
      simp only [Bool.false_eq_true, if_false, Nat.sub_zero] at this ⊢
      omega
    · have := pageRemove_len_pos p v hp hr
      simp only [if_true]
      omega

theorem BitSet.remove_contains (s : BitSet) (v x : Nat) (h : BInv s) :
    (s.remove v).1.contains x = (!decide (x = v) && s.contains x) := by
  unfold BitSet.remove
  simp only []
  split
  · rename_i hl
    simp only [BitSet.contains_eq]
    by_cases hxv : x = v
    · subst hxv; simp [containsP, hl]
    · simp [hxv]
  · rename_i p hl
    simp only [BitSet.contains_eq]
    rw [containsP_getD, lookup_setPage, containsP_getD]
    by_cases hm : majorOf x = majorOf v
    · rw [if_pos hm, hm, hl]
      simp only [Option.map_some, Option.getD_some, pageContains, pageRemove_bits]
      by_cases hxv : x = v
      · subst hxv; simp
      · have : ¬ (v % 512 = x % 512) := fun h' => hxv (eq_of_major_minor hm h'.symm)
        simp [hxv, this]
    · rw [if_neg hm]
      have : ¬ x = v := fun h' => hm (by rw [h'])
      simp [this]

theorem BitSet.remove_snd (s : BitSet) (v : Nat) :
    (s.remove v).2 = s.contains v := by
  unfold BitSet.remove BitSet.contains
  simp only []
  split <;> rename_i hl <;> simp [hl, pageRemove_snd, pageContains]

/-! ### extend / removeAll -/

theorem BitSet.extend_nil (s : BitSet) : s.extend [] = s := rfl
theorem BitSet.extend_cons (s : BitSet) (v : Nat) (vs : List Nat) :
    s.extend (v :: vs) = (s.insert v).1.extend vs := rfl
theorem BitSet.removeAll_nil (s : BitSet) : s.removeAll [] = s := rfl
theorem BitSet.removeAll_cons (s : BitSet) (v : Nat) (vs : List Nat) :
    s.removeAll (v :: vs) = (s.remove v).1.removeAll vs := rfl

theorem BitSet.extend_spec (s : BitSet) (vs : List Nat) (h : BInv s) :
    BInv (s.extend vs) ∧ ∀ x, (s.extend vs).contains x = (decide (x ∈ vs) || s.contains x) := by
  induction vs generalizing s with
  | nil => exact ⟨h, by simp [BitSet.extend_nil]⟩
  | cons v vs ih =>
    rw [BitSet.extend_cons]
    obtain ⟨h1, h2⟩ := ih _ (BitSet.insert_inv s v h)
    refine ⟨h1, fun x => ?_⟩
    rw [h2, BitSet.insert_contains s v x h]
    by_cases hx : x = v <;> by_cases hx2 : x ∈ vs <;> simp [hx, hx2]

theorem BitSet.removeAll_spec (s : BitSet) (vs : List Nat) (h : BInv s) :
    BInv (s.removeAll vs) ∧
      ∀ x, (s.removeAll vs).contains x = (!decide (x ∈ vs) && s.contains x) := by
  induction vs generalizing s with
  | nil => exact ⟨h, by simp [BitSet.removeAll_nil]⟩
  | cons v vs ih =>
    rw [BitSet.removeAll_cons]
    obtain ⟨h1, h2⟩ := ih _ (BitSet.remove_inv s v h)
    refine ⟨h1, fun x => ?_⟩
    rw [h2, BitSet.remove_contains s v x h]
    by_cases hx : x = v <;> by_cases hx2 : x ∈ vs <;> simp [hx, hx2]

/-! ### insertRange -/

theorem insertRangeStep_spec (start end_ : Nat) (ps : Pages) (n M : Nat) (hinv : PagesInv ps)
    (hlo : max start (majorStart M) ≤ min end_ (majorStart M + 511)) :
    PagesInv (insertRangeStep start end_ (ps, n) M).1 ∧
    sumLens (insertRangeStep start end_ (ps, n) M).1 + n
      = sumLens ps + (insertRangeStep start end_ (ps, n) M).2 ∧
    (∀ x, containsP (insertRangeStep start end_ (ps, n) M).1 x =
      (containsP ps x || (decide (majorOf x = M) && decide (start ≤ x) && decide (x ≤ end_)))) := by
  unfold insertRangeStep
  simp only []
  rw [lookup_ensurePage hinv.1]
  simp only [if_true]
  have hp := getD_ok hinv M
  generalize hpd : (lookup ps M).getD Page.zero = p at hp
  have hq := pageInsertRange_ok p (max start (majorStart M)) (min end_ (majorStart M + 511)) hp
  obtain ⟨h1, h2, h3⟩ := ensure_set_spec M hinv hq
  refine ⟨h1, ?_, ?_⟩
  · have := pageInsertRange_len_ge p (max start (majorStart M)) (min end_ (majorStart M + 511)) hp
    rw [hpd] at h3
    omega
  · intro x
    rw [containsP_getD, h2, containsP_getD]
    by_cases hm : majorOf x = M
    · rw [if_pos hm]
      have hmod : max start (majorStart M) % 512 ≤ min end_ (majorStart M + 511) % 512 := by
        unfold majorStart at *; omega
      simp only [Option.getD_some, pageContains, pageInsertRange_bits _ _ _ _ hmod]
      rw [hm, hpd]
      congr 1
      have hx := split_value x
      rw [hm] at hx
      unfold majorStart at *
      simp only [hm, decide_true, Bool.true_and]
      rw [← Bool.decide_and, ← Bool.decide_and]
      apply decide_eq_decide.2
      omega
    · rw [if_neg hm]; simp [hm]

theorem insertRange_fold (start end_ : Nat) (hse : start ≤ end_) (cnt : Nat) (ps : Pages) (n : Nat)
    (hinv : PagesInv ps) (hcnt : majorOf start + cnt ≤ majorOf end_ + 1) :
    PagesInv ((List.range cnt).foldl
        (fun st i => insertRangeStep start end_ st (majorOf start + i)) (ps, n)).1 ∧
    sumLens ((List.range cnt).foldl
        (fun st i => insertRangeStep start end_ st (majorOf start + i)) (ps, n)).1 + n
      = sumLens ps + ((List.range cnt).foldl
        (fun st i => insertRangeStep start end_ st (majorOf start + i)) (ps, n)).2 ∧
    (∀ x, containsP ((List.range cnt).foldl
        (fun st i => insertRangeStep start end_ st (majorOf start + i)) (ps, n)).1 x =
      (containsP ps x ||
        (decide (start ≤ x) && decide (x ≤ end_) && decide (majorOf x < majorOf start + cnt)))) := by
  induction cnt with
  | zero =>
    refine ⟨hinv, rfl, fun x => ?_⟩
    have hf : (decide (start ≤ x) && decide (x ≤ end_) && decide (majorOf x < majorOf start))
        = false := by
      rw [Bool.eq_false_iff]
      intro h
      simp only [Bool.and_eq_true, decide_eq_true_eq] at h
      unfold majorOf at h; omega
    simp only [List.range_zero, List.foldl_nil, Nat.add_zero, hf, Bool.or_false]
  | succ c ih =>
    obtain ⟨i1, i2, i3⟩ := ih (by omega)
    rw [List.range_succ, List.foldl_append]
    simp only [List.foldl_cons, List.foldl_nil]
    generalize hst : (List.range c).foldl
        (fun st i => insertRangeStep start end_ st (majorOf start + i)) (ps, n) = st at i1 i2 i3
    obtain ⟨ps', n'⟩ := st
    have hlo : max start (majorStart (majorOf start + c)) ≤
        min end_ (majorStart (majorOf start + c) + 511) := by
      unfold majorStart majorOf at *; omega
    obtain ⟨s1, s2, s3⟩ := insertRangeStep_spec start end_ ps' n' (majorOf start + c) i1 hlo
    refine ⟨s1, ?_, fun x => ?_⟩
    · simp only at i2; omega
    · rw [s3, i3]
      by_cases h1 : start ≤ x <;> by_cases h2 : x ≤ end_ <;>
        by_cases h3 : majorOf x < majorOf start + c <;>
        by_cases h4 : majorOf x = majorOf start + c <;> simp [h1, h2, h3, h4] <;> omega

theorem BitSet.insertRange_spec (s : BitSet) (a b : Nat) (h : BInv s) :
    BInv (s.insertRange a b) ∧
      ∀ x, (s.insertRange a b).contains x = (s.contains x || (decide (a ≤ x) && decide (x ≤ b))) := by
  unfold BitSet.insertRange
  split
  · rename_i hgt
    refine ⟨h, fun x => ?_⟩
    have hf : (decide (a ≤ x) && decide (x ≤ b)) = false := by
      rw [Bool.eq_false_iff]
      intro h
      simp only [Bool.and_eq_true, decide_eq_true_eq] at h
      omega
    simp [hf]
  · rename_i hle
    have hmaj : majorOf a ≤ majorOf b := by unfold majorOf; omega
    obtain ⟨f1, f2, f3⟩ := insertRange_fold a b (by omega) (majorOf b + 1 - majorOf a) s.pages 0 h.1
      (by omega)
    simp only []
    refine ⟨⟨f1, ?_⟩, fun x => ?_⟩
    · simp only []
      rw [h.2]; omega
    · simp only [BitSet.contains_eq]
      rw [f3]
      congr 1
      by_cases h2 : x ≤ b
      · have : majorOf x < majorOf a + (majorOf b + 1 - majorOf a) := by unfold majorOf at *; omega
        simp [h2, this]
      · simp [h2]

/-! ### removeRange -/

/-- what the `remove_range` loop does to the page stored under major `k` -/
def rrPage (start end_ sm em k : Nat) (p : Page) : Page :=
  if k < sm then p
  else if k > em then p
  else if k = sm then pageRemoveRange p start (min (majorStart sm + 511) end_)
  else if k = em then pageRemoveRange p (majorStart em) end_
  else Page.zero

theorem map_id_of_gt (start end_ sm em : Nat) (ps : Pages) (h : ∀ kp ∈ ps, em < kp.1) :
    ps.map (fun kp => (kp.1, rrPage start end_ sm em kp.1 kp.2)) = ps := by
  induction ps with
  | nil => rfl
  | cons kp ps ih =>
    simp only [List.map_cons]
    rw [ih (fun q hq => h q (by simp [hq]))]
    have := h kp (by simp)
    unfold rrPage
    by_cases h1 : kp.1 < sm
    · simp [h1]
    · rw [if_neg h1, if_pos this]

theorem removeRangeLoop_eq_map (start end_ sm em : Nat) (hsm : sm ≤ em) (ps : Pages) (hs : Sorted ps) :
    removeRangeLoop start end_ sm em ps =
      ps.map (fun kp => (kp.1, rrPage start end_ sm em kp.1 kp.2)) := by
  induction ps with
  | nil => rfl
  | cons kp ps ih =>
    obtain ⟨k, p⟩ := kp
    rw [sorted_cons] at hs
    simp only [removeRangeLoop, List.map_cons]
    split
    · rename_i h1
      rw [ih hs.2]; simp [rrPage, h1]
    · rename_i h1
      split
      · rename_i h2
        rw [map_id_of_gt]
        · simp [rrPage, h1, h2]
        · intro q hq; have := hs.1 q hq; simp only at this; omega
      · rename_i h2
        split
        · rename_i h3
          rw [ih hs.2]; subst h3; simp [rrPage, h2]
        · rename_i h3
          split
          · rename_i h4
            rw [map_id_of_gt]
            · subst h4; simp [rrPage, h1, h2, h3]
            · intro q hq; have := hs.1 q hq; simp only at this; omega
          · rename_i h4
            rw [ih hs.2]; simp [rrPage, h1, h2, h3, h4]

theorem lookup_map (f : Nat → Page → Page) (ps : Pages) (m : Nat) :
    lookup (ps.map (fun (kp : Nat × Page) => (kp.1, f kp.1 kp.2))) m = (lookup ps m).map (f m) := by
  induction ps with
  | nil => rfl
  | cons kp ps ih =>
    obtain ⟨k, p⟩ := kp
    simp only [List.map_cons, lookup]
    split
    · subst_vars; rfl
    · exact ih

theorem map_inv (f : Nat → Page → Page) (ps : Pages) (h : PagesInv ps)
    (hf : ∀ k p, PageOk p → PageOk (f k p)) :
    PagesInv (ps.map (fun (kp : Nat × Page) => (kp.1, f kp.1 kp.2))) := by
  refine ⟨?_, ?_⟩
  · rw [sorted_iff_keys, List.map_map]
    have : ((fun (x : Nat × Page) => x.1) ∘ fun (kp : Nat × Page) => (kp.1, f kp.1 kp.2))
        = (fun (x : Nat × Page) => x.1) := rfl
    rw [this, ← sorted_iff_keys]; exact h.1
  · intro kp hkp
    simp only [List.mem_map] at hkp
    obtain ⟨q, hq, rfl⟩ := hkp
    exact hf _ _ (h.2 q hq)

theorem rrPage_ok (start end_ sm em k : Nat) (p : Page) (h : PageOk p) :
    PageOk (rrPage start end_ sm em k p) := by
  unfold rrPage
  split
  · exact h
  · split
    · exact h
    · split
      · exact pageRemoveRange_ok _ _ _ h
      · split
        · exact pageRemoveRange_ok _ _ _ h
        · exact pageOk_zero

theorem rrPage_contains (start end_ : Nat) (hse : start ≤ end_) (x : Nat) (p : Page) :
    pageContains (rrPage start end_ (majorOf start) (majorOf end_) (majorOf x) p) x =
      (pageContains p x && !(decide (start ≤ x) && decide (x ≤ end_))) := by
  have hx := split_value x
  have hmaj : majorOf start ≤ majorOf end_ := by unfold majorOf; omega
  unfold rrPage
  split
  · rename_i h1
    have : ¬ start ≤ x := by unfold majorOf at *; omega
    simp [this]
  · split
    · rename_i h1 h2
      have : ¬ x ≤ end_ := by unfold majorOf at *; omega
      simp [this]
    · split
      · rename_i h1 h2 h3
        have hmod : start % 512 ≤ min (majorStart (majorOf start) + 511) end_ % 512 := by
          unfold majorStart majorOf at *; omega
        simp only [pageContains, pageRemoveRange_bits _ _ _ _ hmod]
        congr 2
        rw [← Bool.decide_and, ← Bool.decide_and]
        apply decide_eq_decide.2
        unfold majorStart majorOf at *; omega
      · split
        · rename_i h1 h2 h3 h4
          have hmod : majorStart (majorOf end_) % 512 ≤ end_ % 512 := by
            unfold majorStart majorOf at *; omega
          simp only [pageContains, pageRemoveRange_bits _ _ _ _ hmod]
          congr 2
          rw [← Bool.decide_and, ← Bool.decide_and]
          apply decide_eq_decide.2
          unfold majorStart majorOf at *; omega
        · rename_i h1 h2 h3 h4
          have h5 : start ≤ x := by unfold majorOf at *; omega
          have h6 : x ≤ end_ := by unfold majorOf at *; omega
          simp [pageContains, Page.zero, h5, h6]

theorem BitSet.removeRange_spec (s : BitSet) (a b : Nat) (h : BInv s) :
    BInv (s.removeRange a b) ∧
      ∀ x, (s.removeRange a b).contains x = (s.contains x && !(decide (a ≤ x) && decide (x ≤ b))) := by
  unfold BitSet.removeRange
  split
  · rename_i hgt
    refine ⟨h, fun x => ?_⟩
    have hf : (decide (a ≤ x) && decide (x ≤ b)) = false := by
      rw [Bool.eq_false_iff]
      intro h
      simp only [Bool.and_eq_true, decide_eq_true_eq] at h
      omega
    simp [hf]
  · rename_i hle
    have hle : a ≤ b := by omega
    have hmaj : majorOf a ≤ majorOf b := by unfold majorOf; omega
    simp only []
    rw [removeRangeLoop_eq_map a b _ _ hmaj s.pages h.1.1]
    refine ⟨⟨map_inv _ _ h.1 (fun k p hp => rrPage_ok a b _ _ k p hp), rfl⟩, fun x => ?_⟩
    simp only [BitSet.contains_eq, containsP]
    rw [lookup_map]
    cases hl : lookup s.pages (majorOf x) with
    | none => simp
    | some p => simp only [Option.map_some]; exact rrPage_contains a b hle x p

end FontVerif.IntSet
