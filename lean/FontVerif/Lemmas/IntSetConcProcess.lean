/- C14 / concrete BitSet::process: Steps 1-4 glued together.  The in-place algorithm (estimate,
compact, resize, backward merge, appended right pages) computes exactly the page-wise merge of
the two views, and re-establishes the representation invariant. -/
import FontVerif.Lemmas.IntSetConcLoops
import FontVerif.Lemmas.IntSetCompact
import FontVerif.Lemmas.IntSetConcOps
set_option linter.unusedVariables false
set_option linter.unusedSimpArgs false
namespace FontVerif.IntSet

/-! ### `Vec::resize` -/

theorem length_resizeList {α : Type} (l : List α) (n : Nat) (d : α) : (resizeList l n d).length = n := by
  simp only [resizeList, List.length_append, List.length_take, List.length_replicate]; omega

theorem resizeList_self {α : Type} (l : List α) (n : Nat) (d : α) (h : l.length = n) :
    resizeList l n d = l := by
  subst h; simp [resizeList]

theorem getD_resizeList {α : Type} (l : List α) (n i : Nat) (d : α) (hi : i < n) :
    (resizeList l n d).getD i d = l.getD i d := by
  simp only [resizeList, List.getD_eq_getElem?_getD]
  by_cases h : i < l.length
  · rw [List.getElem?_append_left (by simp; omega)]
    simp [List.getElem?_take, hi]
  · rw [List.getElem?_append_right (by simp; omega)]
    simp only [List.length_take, List.getElem?_replicate]
    rw [List.getElem?_eq_none (by omega)]
    split <;> simp

theorem take_resizeList {α : Type} (l : List α) (n k : Nat) (d : α) (hk : k ≤ n) (hl : k ≤ l.length) :
    (resizeList l n d).take k = l.take k := by
  simp only [resizeList]
  rw [List.take_append_of_le_length (by simp; omega), List.take_take, Nat.min_eq_left hk]

theorem cview_congr (pm : PMap) (p q : List CPage)
    (h : ∀ e ∈ pm, p.getD e.2 CPage.zero = q.getD e.2 CPage.zero) : cview pm p = cview pm q := by
  simp only [cview]
  apply List.map_congr_left
  intro e he
  rw [h e he]

/-! ### keys of the merge -/

theorem cmerge_keys (cop : CPage → CPage → CPage) (ptl ptr : Bool) (as bs : CView) :
    ∀ kp ∈ cmerge cop ptl ptr as bs, kp.1 ∈ as.map (·.1) ∨ kp.1 ∈ bs.map (·.1) := by
  fun_induction cmerge cop ptl ptr as bs with
  | case1 bs hp => intro kp h; exact Or.inr (List.mem_map_of_mem h)
  | case2 bs hp => simp
  | case3 a as hp => intro kp h; exact Or.inl (List.mem_map_of_mem h)
  | case4 a as hp => simp
  | case5 pa as kb pb bs ih =>
    intro kp h
    simp only [List.mem_cons] at h
    rcases h with rfl | h
    · left; simp
    · rcases ih kp h with h | h
      · left; simp [h]
      · right; simp [h]
  | case6 ka pa as kb pb bs hne hlt ih =>
    intro kp h
    simp only [List.mem_append] at h
    rcases h with h | h
    · left
      cases ptl <;> simp at h
      subst h; simp
    · rcases ih kp h with h | h
      · left; simp [h]
      · right; exact h
  | case7 ka pa as kb pb bs hne hlt ih =>
    intro kp h
    simp only [List.mem_append] at h
    rcases h with h | h
    · right
      cases ptr <;> simp at h
      subst h; simp
    · rcases ih kp h with h | h
      · left; exact h
      · right; simp [h]

theorem cmerge_sorted (cop : CPage → CPage → CPage) (ptl ptr : Bool) (as bs : CView)
    (ha : (as.map (·.1)).Pairwise (· < ·)) (hb : (bs.map (·.1)).Pairwise (· < ·)) :
    ((cmerge cop ptl ptr as bs).map (·.1)).Pairwise (· < ·) := by
  fun_induction cmerge cop ptl ptr as bs with
  | case1 bs hp => exact hb
  | case2 bs hp => simp
  | case3 a as hp => exact ha
  | case4 a as hp => simp
  | case5 pa as kb pb bs ih =>
    simp only [List.map_cons, List.pairwise_cons] at ha hb ⊢
    refine ⟨?_, ih ha.2 hb.2⟩
    intro k hk
    simp only [List.mem_map] at hk
    obtain ⟨kp, hkp, rfl⟩ := hk
    rcases cmerge_keys _ _ _ _ _ kp hkp with h | h
    · exact ha.1 _ h
    · exact hb.1 _ h
  | case6 ka pa as kb pb bs hne hlt ih =>
    have ha' := ha
    simp only [List.map_cons, List.pairwise_cons] at ha'
    have hb' := hb
    simp only [List.map_cons, List.pairwise_cons] at hb'
    have hrest := ih ha'.2 hb
    cases ptl with
    | false => simpa using hrest
    | true =>
      simp only [if_true, List.singleton_append, List.map_cons, List.pairwise_cons]
      refine ⟨?_, hrest⟩
      intro k hk
      simp only [List.mem_map] at hk
      obtain ⟨kp, hkp, rfl⟩ := hk
      rcases cmerge_keys _ _ _ _ _ kp hkp with h | h
      · exact ha'.1 _ h
      · simp only [List.map_cons, List.mem_cons] at h
        rcases h with h | h
        · omega
        · have := hb'.1 _ h; omega
  | case7 ka pa as kb pb bs hne hlt ih =>
    have ha' := ha
    simp only [List.map_cons, List.pairwise_cons] at ha'
    have hb' := hb
    simp only [List.map_cons, List.pairwise_cons] at hb'
    have hrest := ih ha hb'.2
    cases ptr with
    | false => simpa using hrest
    | true =>
      simp only [if_true, List.singleton_append, List.map_cons, List.pairwise_cons]
      refine ⟨?_, hrest⟩
      intro k hk
      simp only [List.mem_map] at hk
      obtain ⟨kp, hkp, rfl⟩ := hk
      rcases cmerge_keys _ _ _ _ _ kp hkp with h | h
      · simp only [List.map_cons, List.mem_cons] at h
        rcases h with h | h
        · omega
        · have := ha'.1 _ h; omega
      · exact hb'.1 _ h

/-! ### Steps 3 + 4 from the state Step 2 leaves behind -/

theorem process_core {cop : CPage → CPage → CPage} {ptl ptr : Bool} {o : CBitSet} {L : PMap}
    (hf : S3Fix o L) (pm2 : PMap) (pages2 : List CPage) (count lenB : Nat)
    (hpm : pm2.length = count) (hpg : pages2.length = count) (hpre : pm2.take L.length = L)
    (hB : o.pageMap.length = lenB)
    (hcnt : count = (cmerge cop ptl ptr (cview L pages2) (cview o.pageMap o.pages)).length)
    (hmt : ptl = false → ∀ x ∈ L, ∃ y ∈ o.pageMap, x.1 = y.1) :
    let s3 := processStep3 cop ptl ptr o ⟨pm2, pages2, L.length, lenB, count, L.length⟩
    let s4 := if ptl then processStep4Left s3 else s3
    let s5 := if ptr then processStep4Right o s4 else s4
    s5.pm.length = count ∧ s5.pages.length = count ∧
    cview s5.pm s5.pages = cmerge cop ptl ptr (cview L pages2) (cview o.pageMap o.pages) ∧
    (s5.pm.map (·.2)).Nodup ∧ ∀ e ∈ s5.pm, e.2 < count := by
  intro s3 s4 s5
  have hinit : S3Inv cop ptl ptr o L pages2 count ⟨pm2, pages2, L.length, lenB, count, L.length⟩ := by
    refine ⟨hpm, hpg, Nat.le_refl _, by simp [hB], ?_, fun _ _ => rfl, ?_, Nat.add_comm _ _, Nat.le_refl _, ?_, ?_, ?_,
      ?_, ?_, ?_⟩
    · simp only [List.take_length]; exact hpre
    · simp only [List.take_length, ← hB]; exact hcnt
    · simp only [List.drop_length, ← hB]
      rw [List.drop_eq_nil_of_le (by omega)]
      simp [cview, cmerge]
    · simp only; rw [List.drop_eq_nil_of_le (by omega)]; simp
    · simp only; rw [List.drop_eq_nil_of_le (by omega)]; simp
    · simp only [List.drop_length]; intro y _ x hx; simp at hx
    · simp only [← hB, List.drop_length]; intro x _ y hy; simp at hy
    · intro hp x hx
      simp only [List.take_length, ← hB] at hx ⊢
      exact hmt hp x hx
  obtain ⟨h3, h30⟩ := step3_inv hf _ _ (Nat.le_refl _) hinit
  have h4 : S3Inv cop ptl ptr o L pages2 count s4 ∧ s4.idxA = 0 := by
    show S3Inv cop ptl ptr o L pages2 count (if ptl then processStep4Left s3 else s3) ∧
      (if ptl then processStep4Left s3 else s3).idxA = 0
    by_cases hp : ptl = true
    · rw [if_pos hp]
      exact step4Left_inv hf _ _ (Nat.le_refl _) h3 h30
    · rw [if_neg hp]
      exact ⟨h3, h3.idxA_zero_of_nptl (by simpa using hp) h30⟩
  have h5 : S3Inv cop ptl ptr o L pages2 count s5 ∧ s5.idxA = 0 ∧ (ptr = true → s5.idxB = 0) := by
    show S3Inv cop ptl ptr o L pages2 count (if ptr then processStep4Right o s4 else s4) ∧
      (if ptr then processStep4Right o s4 else s4).idxA = 0 ∧
      (ptr = true → (if ptr then processStep4Right o s4 else s4).idxB = 0)
    by_cases hp : ptr = true
    · rw [if_pos hp]
      have := step4Right_inv hf hp _ _ (Nat.le_refl _) h4.1 h4.2
      exact ⟨this.1, this.2.1, fun _ => this.2.2⟩
    · rw [if_neg hp]
      exact ⟨h4.1, h4.2, fun h => absurd h hp⟩
  have := h5.1.final hf h5.2.1 h5.2.2
  exact ⟨this.2.1, this.2.2.1, this.2.2.2.1, this.2.2.2.2.1, this.2.2.2.2.2⟩

end FontVerif.IntSet
