/- C14 / concrete BitSet::process: Steps 1-4 glued together.  The in-place algorithm (estimate,
compact, resize, backward merge, appended right pages) computes exactly the page-wise merge of
the two views, and re-establishes the representation invariant. -/
import FontVerif.Lemmas.IntSetConcLoops
import FontVerif.Lemmas.IntSetCompact
import FontVerif.Lemmas.IntSetConcOps
set_option linter.unusedVariables false
set_option linter.unusedSimpArgs false
namespace FontVerif.IntSet

/-! ### `Vec::resize` -/

theorem length_resizeList {α : Type} (l : List α) (n : Nat) (d : α) : (resizeList l n d).length = n := by
  simp only [resizeList, List.length_append, List.length_take, List.length_replicate]; omega

theorem resizeList_self {α : Type} (l : List α) (n : Nat) (d : α) (h : l.length = n) :
    resizeList l n d = l := by
  subst h; simp [resizeList]

theorem getD_resizeList {α : Type} (l : List α) (n i : Nat) (d : α) (hi : i < n) :
    (resizeList l n d).getD i d = l.getD i d := by
  simp only [resizeList, List.getD_eq_getElem?_getD]
  by_cases h : i < l.length
  · rw [List.getElem?_append_left (by simp; omega)]
    simp [List.getElem?_take, hi]
  · rw [List.getElem?_append_right (by simp; omega)]
    simp only [List.length_take, List.getElem?_replicate]
    rw [List.getElem?_eq_none (by omega)]
    split <;> simp

theorem take_resizeList {α : Type} (l : List α) (n k : Nat) (d : α) (hk : k ≤ n) (hl : k ≤ l.length) :
    (resizeList l n d).take k = l.take k := by
  simp only [resizeList]
  rw [List.take_append_of_le_length (by simp; omega), List.take_take, Nat.min_eq_left hk]

theorem cview_congr (pm : PMap) (p q : List CPage)
    (h : ∀ e ∈ pm, p.getD e.2 CPage.zero = q.getD e.2 CPage.zero) : cview pm p = cview pm q := by
  simp only [cview]
  apply List.map_congr_left
  intro e he
  rw [h e he]

/-! ### keys of the merge -/

theorem cmerge_keys (cop : CPage → CPage → CPage) (ptl ptr : Bool) (as bs : CView) :
    ∀ kp ∈ cmerge cop ptl ptr as bs, kp.1 ∈ as.map (·.1) ∨ kp.1 ∈ bs.map (·.1) := by
  fun_induction cmerge cop ptl ptr as bs with
  | case1 bs hp => intro kp h; exact Or.inr (List.mem_map_of_mem h)
  | case2 bs hp => simp
  | case3 a as hp => intro kp h; exact Or.inl (List.mem_map_of_mem h)
  | case4 a as hp => simp
  | case5 pa as kb pb bs ih =>
    intro kp h
    simp only [List.mem_cons] at h
    rcases h with rfl | h
    · left; simp
    · rcases ih kp h with h | h
      · left; simp [h]
      · right; simp [h]
  | case6 ka pa as kb pb bs hne hlt ih =>
    intro kp h
    simp only [List.mem_append] at h
    rcases h with h | h
    · left
      cases ptl <;> simp at h
      subst h; simp
    · rcases ih kp h with h | h
      · left; simp [h]
      · right; exact h
  | case7 ka pa as kb pb bs hne hlt ih =>
    intro kp h
    simp only [List.mem_append] at h
    rcases h with h | h
    · right
      cases ptr <;> simp at h
      subst h; simp
    · rcases ih kp h with h | h
      · left; exact h
      · right; simp [h]

theorem cmerge_sorted (cop : CPage → CPage → CPage) (ptl ptr : Bool) (as bs : CView)
    (ha : (as.map (·.1)).Pairwise (· < ·)) (hb : (bs.map (·.1)).Pairwise (· < ·)) :
    ((cmerge cop ptl ptr as bs).map (·.1)).Pairwise (· < ·) := by
  fun_induction cmerge cop ptl ptr as bs with
  | case1 bs hp => exact hb
  | case2 bs hp => simp
  | case3 a as hp => exact ha
  | case4 a as hp => simp
  | case5 pa as kb pb bs ih =>
    simp only [List.map_cons, List.pairwise_cons] at ha hb ⊢
    refine ⟨?_, ih ha.2 hb.2⟩
    intro k hk
    simp only [List.mem_map] at hk
    obtain ⟨kp, hkp, rfl⟩ := hk
    rcases cmerge_keys _ _ _ _ _ kp hkp with h | h
    · exact ha.1 _ h
    · exact hb.1 _ h
  | case6 ka pa as kb pb bs hne hlt ih =>
    have ha' := ha
    simp only [List.map_cons, List.pairwise_cons] at ha'
    have hb' := hb
    simp only [List.map_cons, List.pairwise_cons] at hb'
    have hrest := ih ha'.2 hb
    cases ptl with
    | false => simpa using hrest
    | true =>
      simp only [if_true, List.singleton_append, List.map_cons, List.pairwise_cons]
      refine ⟨?_, hrest⟩
      intro k hk
      simp only [List.mem_map] at hk
      obtain ⟨kp, hkp, rfl⟩ := hk
      rcases cmerge_keys _ _ _ _ _ kp hkp with h | h
      · exact ha'.1 _ h
      · simp only [List.map_cons, List.mem_cons] at h
        rcases h with h | h
        · omega
        · have := hb'.1 _ h; omega
  | case7 ka pa as kb pb bs hne hlt ih =>
    have ha' := ha
    simp only [List.map_cons, List.pairwise_cons] at ha'
    have hb' := hb
    simp only [List.map_cons, List.pairwise_cons] at hb'
    have hrest := ih ha hb'.2
    cases ptr with
    | false => simpa using hrest
    | true =>
      simp only [if_true, List.singleton_append, List.map_cons, List.pairwise_cons]
      refine ⟨?_, hrest⟩
      intro k hk
      simp only [List.mem_map] at hk
      obtain ⟨kp, hkp, rfl⟩ := hk
      rcases cmerge_keys _ _ _ _ _ kp hkp with h | h
      · simp only [List.map_cons, List.mem_cons] at h
        rcases h with h | h
        · omega
        · have := ha'.1 _ h; omega
      · exact hb'.1 _ h

/-! ### Steps 3 + 4 from the state Step 2 leaves behind -/

theorem process_core {cop : CPage → CPage → CPage} {ptl ptr : Bool} {o : CBitSet} {L : PMap}
    (hf : S3Fix o L) (pm2 : PMap) (pages2 : List CPage) (count lenB : Nat)
    (hpm : pm2.length = count) (hpg : pages2.length = count) (hpre : pm2.take L.length = L)
    (hB : o.pageMap.length = lenB)
    (hcnt : count = (cmerge cop ptl ptr (cview L pages2) (cview o.pageMap o.pages)).length)
    (hmt : ptl = false → ∀ x ∈ L, ∃ y ∈ o.pageMap, x.1 = y.1) :
    let s3 := processStep3 cop ptl ptr o ⟨pm2, pages2, L.length, lenB, count, L.length⟩
    let s4 := if ptl then processStep4Left s3 else s3
    let s5 := if ptr then processStep4Right o s4 else s4
    s5.pm.length = count ∧ s5.pages.length = count ∧
    cview s5.pm s5.pages = cmerge cop ptl ptr (cview L pages2) (cview o.pageMap o.pages) ∧
    (s5.pm.map (·.2)).Nodup ∧ ∀ e ∈ s5.pm, e.2 < count := by
  intro s3 s4 s5
  have hinit : S3Inv cop ptl ptr o L pages2 count ⟨pm2, pages2, L.length, lenB, count, L.length⟩ := by
    refine ⟨hpm, hpg, Nat.le_refl _, by simp [hB], ?_, fun _ _ => rfl, ?_, Nat.add_comm _ _, Nat.le_refl _, ?_, ?_, ?_,
      ?_, ?_, ?_⟩
    · simp only [List.take_length]; exact hpre
    · simp only [List.take_length, ← hB]; exact hcnt
    · simp only [List.drop_length, ← hB]
      rw [List.drop_eq_nil_of_le (by omega)]
      simp [cview, cmerge]
    · simp only; rw [List.drop_eq_nil_of_le (by omega)]; simp
    · simp only; rw [List.drop_eq_nil_of_le (by omega)]; simp
    · simp only [List.drop_length]; intro y _ x hx; simp at hx
    · simp only [← hB, List.drop_length]; intro x _ y hy; simp at hy
    · intro hp x hx
      simp only [List.take_length, ← hB] at hx ⊢
      exact hmt hp x hx
  obtain ⟨h3, h30⟩ := step3_inv hf _ _ (Nat.le_refl _) hinit
  have h4 : S3Inv cop ptl ptr o L pages2 count s4 ∧ s4.idxA = 0 := by
    show S3Inv cop ptl ptr o L pages2 count (if ptl then processStep4Left s3 else s3) ∧
      (if ptl then processStep4Left s3 else s3).idxA = 0
    by_cases hp : ptl = true
    · rw [if_pos hp]
      exact step4Left_inv hf _ _ (Nat.le_refl _) h3 h30
    · rw [if_neg hp]
      exact ⟨h3, h3.idxA_zero_of_nptl (by simpa using hp) h30⟩
  have h5 : S3Inv cop ptl ptr o L pages2 count s5 ∧ s5.idxA = 0 ∧ (ptr = true → s5.idxB = 0) := by
    show S3Inv cop ptl ptr o L pages2 count (if ptr then processStep4Right o s4 else s4) ∧
      (if ptr then processStep4Right o s4 else s4).idxA = 0 ∧
      (ptr = true → (if ptr then processStep4Right o s4 else s4).idxB = 0)
    by_cases hp : ptr = true
    · rw [if_pos hp]
      have := step4Right_inv hf hp _ _ (Nat.le_refl _) h4.1 h4.2
      exact ⟨this.1, this.2.1, fun _ => this.2.2⟩
    · rw [if_neg hp]
      exact ⟨h4.1, h4.2, fun h => absurd h hp⟩
  have := h5.1.final hf h5.2.1 h5.2.2
  exact ⟨this.2.1, this.2.2.1, this.2.2.2.1, this.2.2.2.2.1, this.2.2.2.2.2⟩

/-! ### from the merged view back to the representation invariant -/

theorem cview_keys (pm : PMap) (p : List CPage) : (cview pm p).map (·.1) = pm.map (·.1) := by
  simp [cview, List.map_map, Function.comp_def]

theorem cview_ok {pm : PMap} {pages : List CPage} (hlt : ∀ e ∈ pm, e.2 < pages.length)
    (hok : ∀ p ∈ pages, CPageOk p) : ∀ kp ∈ cview pm pages, CPageOk kp.2 := by
  intro kp hkp
  simp only [cview, List.mem_map] at hkp
  obtain ⟨e, he, rfl⟩ := hkp
  exact hok _ (mem_getD pages e.2 CPage.zero (hlt e he))

theorem process_finish {cop op} (hr : PageOpRefines cop op) (ptl ptr : Bool) (va vb : CView)
    (hsa : (va.map (·.1)).Pairwise (· < ·)) (hsb : (vb.map (·.1)).Pairwise (· < ·))
    (hoa : ∀ kp ∈ va, CPageOk kp.2) (hob : ∀ kp ∈ vb, CPageOk kp.2)
    (pm : PMap) (pages : List CPage) (count : Nat) (h1 : pm.length = count) (h2 : pages.length = count)
    (hv : cview pm pages = cmerge cop ptl ptr va vb) (hnd : (pm.map (·.2)).Nodup)
    (hlt : ∀ e ∈ pm, e.2 < count) : CInvS pm pages := by
  refine ⟨by omega, ?_, hnd, fun e he => by rw [h2]; exact hlt e he, ?_⟩
  · rw [← cview_keys pm pages, hv]
    exact cmerge_sorted cop ptl ptr va vb hsa hsb
  · intro p hp
    obtain ⟨k, hk, rfl⟩ := List.getElem_of_mem hp
    have hperm := nodup_perm_range count (pm.map (·.2)) hnd
      (fun i hi => by
        simp only [List.mem_map] at hi
        obtain ⟨e, he, rfl⟩ := hi
        exact hlt e he) (by simp [h1])
    have hmem : k ∈ pm.map (·.2) := hperm.mem_iff.2 (by simp; omega)
    simp only [List.mem_map] at hmem
    obtain ⟨e, he, hek⟩ := hmem
    have : (e.1, pages.getD e.2 CPage.zero) ∈ cview pm pages := by
      simp only [cview, List.mem_map]; exact ⟨e, he, rfl⟩
    rw [hv] at this
    have := cmerge_ok hr ptl ptr va vb hoa hob _ this
    simp only at this
    rwa [hek, getD_eq_getElem pages k CPage.zero hk] at this

theorem cview_ext (X Y : PMap) (p q : List CPage) (hlen : X.length = Y.length)
    (h : ∀ i, i < X.length → (X.getD i (0, 0)).1 = (Y.getD i (0, 0)).1 ∧
      p.getD (X.getD i (0, 0)).2 CPage.zero = q.getD (Y.getD i (0, 0)).2 CPage.zero) :
    cview X p = cview Y q := by
  apply List.ext_getElem (by simp [cview, hlen])
  intro i h1 h2
  simp only [cview, List.length_map] at h1 h2
  have := h i h1
  rw [getD_eq_getElem X i _ h1, getD_eq_getElem Y i _ h2] at this
  simp only [cview, List.getElem_map]
  rw [this.1, this.2]

theorem getD_take {α : Type} (l : List α) (w i : Nat) (d : α) (h : i < w) :
    (l.take w).getD i d = l.getD i d := by
  simp [List.getD_eq_getElem?_getD, List.getElem?_take, h]

/-- **`BitSet::process` on the concrete layout**: for any page operator, pages created in any
order on either side, the result's map read through its pages is the page-wise merge of the two
input views, the structural invariant is re-established (map sorted, indices a bijection onto
`pages`, every page well formed) and `length` is recomputed over the pages vector. -/
theorem CBitSet.process_spec {cop op} (hr : PageOpRefines cop op) (s o : CBitSet) (hs : CInv s)
    (ho : CInv o) (hsz : s.pages.length < USIZE_MAX) :
    CInvS (s.process cop o).pageMap (s.process cop o).pages ∧
    cview (s.process cop o).pageMap (s.process cop o).pages =
      cmerge cop (cPassthrough cop).1 (cPassthrough cop).2 (cview s.pageMap s.pages)
        (cview o.pageMap o.pages) ∧
    (s.process cop o).len = cSumLens (s.process cop o).pages := by
  generalize hpt : cPassthrough cop = pt
  obtain ⟨ptl, ptr⟩ := pt
  have hsa : ((cview s.pageMap s.pages).map (·.1)).Pairwise (· < ·) := by rw [cview_keys]; exact hs.sorted
  have hsb : ((cview o.pageMap o.pages).map (·.1)).Pairwise (· < ·) := by rw [cview_keys]; exact ho.sorted
  have hoa := cview_ok hs.idxLt hs.pagesOk
  have hob := cview_ok ho.idxLt ho.pagesOk
  have h1 := step1_spec ptl ptr o.pageMap s.pages.length o.pages.length ho.lenEq
    (s.pages.length + o.pages.length) s.pageMap 0 0 0 0 (by omega) hs.lenEq (Nat.le_refl 0)
  simp only [List.drop_zero, List.take_zero, List.nil_append, Nat.zero_add] at h1
  obtain ⟨h1len, h1cnt, h1t, h1f⟩ := h1
  rw [estCount_eq_length cop ptl ptr s.pageMap o.pageMap s.pages o.pages] at h1cnt
  unfold CBitSet.process
  simp only [hpt]
  generalize hr1 : processStep1 ptl ptr o.pageMap s.pages.length o.pages.length s.pageMap 0 0 0 0 = r1 at *
  generalize hcount : r1.count + (if ptl = true then s.pages.length - r1.idxA else 0) +
    (if ptr = true then o.pages.length - r1.idxB else 0) = count at *
  cases ptl with
  | true =>
    have hpm1 : r1.pm = s.pageMap := h1t rfl
    simp only [Bool.not_true, Bool.false_eq_true, if_false, if_true, hpm1]
    have hf : S3Fix o s.pageMap :=
      ⟨hs.sorted, ho.sorted, hs.idxNodup, fun e he => by rw [hs.lenEq]; exact hs.idxLt e he⟩
    have hge : s.pageMap.length ≤ count := by
      rw [h1cnt]
      have := cmerge_length_ge cop true ptr (cview s.pageMap s.pages) (cview o.pageMap o.pages) hsa hsb
        (Or.inl rfl)
      simpa [cview] using this
    have hcv : cview s.pageMap (resizeList s.pages count CPage.zero) = cview s.pageMap s.pages :=
      cview_congr _ _ _ (fun e he => getD_resizeList _ _ _ _ (by
        have := hs.idxLt e he; have := hs.lenEq; omega))
    have hcore := process_core (cop := cop) (ptl := true) (ptr := ptr) hf
      (resizeList s.pageMap count (0, 0)) (resizeList s.pages count CPage.zero) count o.pages.length
      (length_resizeList _ _ _) (length_resizeList _ _ _)
      (by rw [take_resizeList _ _ _ _ hge (Nat.le_refl _), List.take_length])
      ho.lenEq (by rw [hcv]; exact h1cnt) (fun h => by simp at h)
    simp only [if_true, hs.lenEq] at hcore
    obtain ⟨c1, c2, c3, c4, c5⟩ := hcore
    rw [hcv] at c3
    rw [resizeList_self _ _ _ c1, resizeList_self _ _ _ c2]
    exact ⟨process_finish hr true ptr _ _ hsa hsb hoa hob _ _ count c1 c2 c3 c4 c5, c3, trivial⟩
  | false =>
    obtain ⟨h1take, h1w⟩ := h1f rfl
    simp only [Bool.not_false, if_true, Bool.false_eq_true, if_false]
    have hKsub := keptLeft_sublist s.pageMap o.pageMap
    have hwle : r1.writeIdx ≤ r1.pm.length := by
      rw [h1len, h1w, ← hs.lenEq]; exact hKsub.length_le
    have hcs := compact_spec r1.pm s.pages r1.writeIdx hwle (by rw [h1len]; exact hsz)
      (by rw [h1take]; exact (hKsub.map _).nodup hs.idxNodup)
      (by rw [h1take]; intro e he; exact hs.idxLt e (hKsub.subset he))
    simp only at hcs
    generalize hcmp : compact r1.pm s.pages r1.writeIdx = c at *
    obtain ⟨hc1, hc2, hc3, hc4, hc5, hc6⟩ := hcs
    have hLlen : (c.2.take r1.writeIdx).length = r1.writeIdx := by
      rw [List.length_take, hc2]; omega
    -- the kept entries after compaction denote the same pages
    have hKv : cview (c.2.take r1.writeIdx) c.1 = cview (keptLeft s.pageMap o.pageMap) s.pages := by
      rw [← h1take]
      apply cview_ext _ _ _ _ (by rw [hLlen, List.length_take]; omega)
      intro i hi
      rw [hLlen] at hi
      rw [getD_take _ _ _ _ hi, getD_take _ _ _ _ hi]
      exact hc3 i hi
    have hKkeys : (c.2.take r1.writeIdx).map (·.1) = (keptLeft s.pageMap o.pageMap).map (·.1) := by
      rw [← cview_keys _ c.1, hKv, cview_keys]
    have hf : S3Fix o (c.2.take r1.writeIdx) :=
      ⟨by rw [hKkeys]; exact List.Pairwise.sublist (hKsub.map _) hs.sorted, ho.sorted, hc4,
        fun e he => by rw [hLlen]; exact hc5 e he⟩
    have hwc : r1.writeIdx ≤ count := by
      rw [h1w, h1cnt, ← estCount_eq_length cop false ptr s.pageMap o.pageMap s.pages o.pages]
      exact keptLeft_length_le ptr _ _
    have hcv : cview (c.2.take r1.writeIdx) (resizeList c.1 count CPage.zero) =
        cview (c.2.take r1.writeIdx) c.1 :=
      cview_congr _ _ _ (fun e he => getD_resizeList _ _ _ _ (by have := hc5 e he; omega))
    have hmerge : cmerge cop false ptr (cview (c.2.take r1.writeIdx) (resizeList c.1 count CPage.zero))
        (cview o.pageMap o.pages) =
        cmerge cop false ptr (cview s.pageMap s.pages) (cview o.pageMap o.pages) := by
      rw [hcv, hKv, ← cmerge_kept cop ptr s.pageMap o.pageMap s.pages o.pages hs.sorted]
    have hcore := process_core (cop := cop) (ptl := false) (ptr := ptr) hf
      (resizeList c.2 count (0, 0)) (resizeList c.1 count CPage.zero) count o.pages.length
      (length_resizeList _ _ _) (length_resizeList _ _ _)
      (by rw [hLlen, take_resizeList _ _ _ _ hwc (by rw [hc2]; exact hwle)])
      ho.lenEq (by rw [hmerge]; exact h1cnt)
      (fun _ x hx => by
        have : x.1 ∈ (keptLeft s.pageMap o.pageMap).map (·.1) := by
          rw [← hKkeys]; exact List.mem_map_of_mem hx
        simp only [List.mem_map] at this
        obtain ⟨e, he, hex⟩ := this
        obtain ⟨y, hy, hey⟩ := keptLeft_matched _ _ e he
        exact ⟨y, hy, by omega⟩)
    simp only [Bool.false_eq_true, if_false, hLlen] at hcore
    obtain ⟨c1, c2, c3, c4, c5⟩ := hcore
    rw [hmerge] at c3
    rw [resizeList_self _ _ _ c1, resizeList_self _ _ _ c2]
    exact ⟨process_finish hr false ptr _ _ hsa hsb hoa hob _ _ count c1 c2 c3 c4 c5, c3, trivial⟩

end FontVerif.IntSet
