/-
Helper lemmas for C05 (Model/Graph.lean): the sort orders enumerate exactly the reachable objects,
each once.
-/
import FontVerif.Model.Graph
import FontVerif.Lemmas.GraphSort
set_option linter.unusedVariables false
set_option linter.unusedSimpArgs false
namespace FontVerif.Graph
open FontVerif

theorem insertBy_perm {α : Type} (before : α → α → Bool) (x : α) (q : List α) :
    List.Perm (insertBy before x q) (x :: q) := by
  induction q with
  | nil => simp [insertBy]
  | cons y rest ih =>
    simp only [insertBy]
    split
    · exact List.Perm.refl _
    · exact (List.Perm.cons y ih).trans (List.Perm.swap x y rest)

/-- the second invariant: everything queued or processed is reachable, listed once, and (unless it
is the root) its count has reached its cached in-degree -/
structure EnumInv (g : Graph) (queue : List Nat) (removed : Map Nat) (orderRev : List Nat) : Prop where
  reach : ∀ x, x ∈ queue ∨ x ∈ orderRev → Reach g g.root x
  nodup : (queue ++ orderRev).Nodup
  done : ∀ x, x ∈ queue ∨ x ∈ orderRev → x = g.root ∨ ∃ c, removed.find? x = some c ∧ g.indeg x ≤ c

/-! ### Kahn -/

theorem kahnVisit_enum (g : Graph) (acc : List Nat × Map Nat) (l : Link) (src : Nat) (S : List Nat)
    (hroot : g.indeg g.root = 0) (hl : l ∈ (g.obj src).links) (hsrc : Reach g g.root src)
    (hinv : EnumInv g acc.1 acc.2 S) :
    EnumInv g (kahnVisitLink g acc l).1 (kahnVisitLink g acc l).2 S := by
  unfold kahnVisitLink
  simp only []
  have hmono : ∀ x, x = g.root ∨ (∃ c, acc.2.find? x = some c ∧ g.indeg x ≤ c) →
      x = g.root ∨ ∃ c, (acc.2.insert l.target ((acc.2.find? l.target).getD 0 + 1)).find? x = some c ∧ g.indeg x ≤ c := by
    intro x hx
    rcases hx with hx | ⟨c, hc, hle⟩
    · left; exact hx
    · right
      rw [Map.find?_insert]
      split
      · rename_i heq
        subst heq
        refine ⟨_, rfl, ?_⟩
        rw [hc]; simp; omega
      · exact ⟨c, hc, hle⟩
  split
  · rename_i hseen
    -- the target is pushed: it was neither queued nor processed
    have hnew : l.target ∉ acc.1 ++ S := by
      intro hmem
      rw [List.mem_append] at hmem
      rcases hinv.done l.target hmem with hr | ⟨c, hc, hle⟩
      · rw [hr, hroot] at hseen; omega
      · rw [hc] at hseen; simp at hseen; omega
    constructor
    · intro x hx
      rcases hx with hx | hx
      · rw [mem_insertBy] at hx
        rcases hx with rfl | hx
        · exact Reach.step l hsrc hl
        · exact hinv.reach x (Or.inl hx)
      · exact hinv.reach x (Or.inr hx)
    · have hp : List.Perm (insertBy (fun a b => decide (a < b)) l.target acc.1 ++ S) (l.target :: (acc.1 ++ S)) :=
        (List.Perm.append_right S (insertBy_perm _ l.target acc.1))
      rw [hp.nodup_iff, List.nodup_cons]
      exact ⟨hnew, hinv.nodup⟩
    · intro x hx
      rcases hx with hx | hx
      · rw [mem_insertBy] at hx
        rcases hx with rfl | hx
        · right
          rw [Map.find?_insert]
          simp only [↓reduceIte, Option.some.injEq, exists_eq_left']
          omega
        · exact hmono x (hinv.done x (Or.inl hx))
      · exact hmono x (hinv.done x (Or.inr hx))
  · constructor
    · exact hinv.reach
    · exact hinv.nodup
    · intro x hx; exact hmono x (hinv.done x hx)

theorem kahnFold_enum (g : Graph) (links : List Link) (acc : List Nat × Map Nat) (src : Nat) (S : List Nat)
    (hroot : g.indeg g.root = 0) (hl : ∀ l ∈ links, l ∈ (g.obj src).links) (hsrc : Reach g g.root src)
    (hinv : EnumInv g acc.1 acc.2 S) :
    EnumInv g (links.foldl (kahnVisitLink g) acc).1 (links.foldl (kahnVisitLink g) acc).2 S := by
  induction links generalizing acc with
  | nil => exact hinv
  | cons l rest ih =>
    simp only [List.foldl_cons]
    exact ih _ (fun l' hl' => hl l' (List.mem_cons_of_mem _ hl'))
      (kahnVisit_enum g acc l src S hroot (hl l List.mem_cons_self) hsrc hinv)

theorem enum_pop (g : Graph) (id : Nat) (rest : List Nat) (removed : Map Nat) (orderRev : List Nat)
    (hinv : EnumInv g (id :: rest) removed orderRev) : EnumInv g rest removed (id :: orderRev) := by
  constructor
  · intro x hx
    apply hinv.reach
    rcases hx with hx | hx
    · left; exact List.mem_cons_of_mem _ hx
    · rcases List.mem_cons.mp hx with rfl | hx
      · left; exact List.mem_cons_self
      · right; exact hx
  · have hp : List.Perm (rest ++ id :: orderRev) (id :: rest ++ orderRev) := by
      simp
    rw [hp.nodup_iff]; exact hinv.nodup
  · intro x hx
    apply hinv.done
    rcases hx with hx | hx
    · left; exact List.mem_cons_of_mem _ hx
    · rcases List.mem_cons.mp hx with rfl | hx
      · left; exact List.mem_cons_self
      · right; exact hx

theorem kahnLoop_enum (g : Graph) (fuel : Nat) (st st' : SortSt) (hroot : g.indeg g.root = 0)
    (h : kahnLoop g fuel st = some st') (hinv : EnumInv g st.queue st.removed st.orderRev) :
    EnumInv g st'.queue st'.removed st'.orderRev := by
  induction fuel generalizing st with
  | zero => simp [kahnLoop] at h
  | succ n ih =>
    unfold kahnLoop at h
    split at h
    · simp only [Option.some.injEq] at h
      subst h
      exact hinv
    · rename_i id rest hq
      simp only [] at h
      rw [hq] at hinv
      have hsrc : Reach g g.root id := hinv.reach id (Or.inl List.mem_cons_self)
      have hstep := kahnFold_enum g (g.obj id).links (rest, st.removed) id (id :: st.orderRev) hroot
        (fun l hl => hl) hsrc (enum_pop g id rest st.removed st.orderRev hinv)
      generalize hfold : (g.obj id).links.foldl (kahnVisitLink g) (rest, st.removed) = res at h hstep
      obtain ⟨queue, removed⟩ := res
      simp only [] at h
      exact ih _ h hstep

theorem enum_init (g : Graph) (removed : Map Nat) : EnumInv g [g.root] removed [] := by
  constructor
  · intro x hx
    simp only [List.mem_singleton, List.not_mem_nil, or_false] at hx
    subst hx; exact Reach.refl _
  · simp
  · intro x hx
    simp only [List.mem_singleton, List.not_mem_nil, or_false] at hx
    left; exact hx

theorem reach_congr (g g' : Graph) (ho : g'.objects = g.objects) (a b : Nat) (h : Reach g' a b) : Reach g a b := by
  induction h with
  | refl => exact Reach.refl _
  | step l _ hl ih => exact Reach.step l ih (by rw [← obj_congr g g' ho]; exact hl)

/-- `sort_kahn`: if no cached parent points at the root, the order lists every object at most once
and only objects reachable from the root. -/
theorem sortKahn_enum (g g' : Graph) (hn : 1 < g.nodes.length) (hroot : (updateParents g).indeg g.root = 0)
    (h : sortKahn g = some g') :
    g'.order.Nodup ∧ ∀ x ∈ g'.order, Reach g g.root x := by
  unfold sortKahn at h
  rw [if_neg (by omega)] at h
  simp only [] at h
  split at h
  · simp at h
  · rename_i st hloop
    split at h
    · simp only [Option.some.injEq] at h
      subst h
      have hroot' : (updateParents g).indeg (updateParents g).root = 0 := by rw [updateParents_root]; exact hroot
      have hinv := kahnLoop_enum _ _ _ _ hroot' hloop (enum_init (updateParents g) [])
      refine ⟨?_, ?_⟩
      · rw [(List.reverse_perm _).nodup_iff]
        exact (List.nodup_append.mp hinv.nodup).2.1
      · intro x hx
        simp only [List.mem_reverse] at hx
        have := hinv.reach x (Or.inr hx)
        rw [updateParents_root] at this
        exact reach_congr g _ (updateParents_objects g) _ _ this
    · simp at h

/-! ### shortest distance -/

theorem qmap_insertBy_perm (before : QEntry → QEntry → Bool) (e : QEntry) (q : List QEntry) :
    List.Perm ((insertBy before e q).map (·.id)) (e.id :: q.map (·.id)) := by
  have := (insertBy_perm before e q).map (·.id)
  simpa using this

theorem mem_qids (q : List QEntry) (x : Nat) : x ∈ q.map (·.id) ↔ qIds q x := by
  simp [qIds]

theorem shortVisit_enum (g : Graph) (acc : List QEntry × Map Nat × Nat) (l : Link) (src : Nat) (S : List Nat)
    (hroot : g.indeg g.root = 0) (hl : l ∈ (g.obj src).links) (hsrc : Reach g g.root src)
    (hinv : EnumInv g (acc.1.map (·.id)) acc.2.1 S) :
    EnumInv g ((shortVisitLink g acc l).1.map (·.id)) (shortVisitLink g acc l).2.1 S := by
  unfold shortVisitLink
  simp only []
  have hmono : ∀ x, x = g.root ∨ (∃ c, acc.2.1.find? x = some c ∧ g.indeg x ≤ c) →
      x = g.root ∨ ∃ c, (acc.2.1.insert l.target ((acc.2.1.find? l.target).getD 0 + 1)).find? x = some c ∧ g.indeg x ≤ c := by
    intro x hx
    rcases hx with hx | ⟨c, hc, hle⟩
    · left; exact hx
    · right
      rw [Map.find?_insert]
      split
      · rename_i heq
        subst heq
        refine ⟨_, rfl, ?_⟩
        rw [hc]; simp; omega
      · exact ⟨c, hc, hle⟩
  split
  · rename_i hseen
    have hnew : l.target ∉ acc.1.map (·.id) ++ S := by
      intro hmem
      rw [List.mem_append] at hmem
      rcases hinv.done l.target hmem with hr | ⟨c, hc, hle⟩
      · rw [hr, hroot] at hseen; omega
      · rw [hc] at hseen; simp at hseen; omega
    have hp := qmap_insertBy_perm qBefore ⟨(g.node l.target).space, (g.node l.target).distance, acc.2.2, l.target⟩ acc.1
    constructor
    · intro x hx
      rcases hx with hx | hx
      · rw [hp.mem_iff] at hx
        rcases List.mem_cons.mp hx with rfl | hx
        · exact Reach.step l hsrc hl
        · exact hinv.reach x (Or.inl hx)
      · exact hinv.reach x (Or.inr hx)
    · rw [(List.Perm.append_right S hp).nodup_iff]
      simp only [List.cons_append, List.nodup_cons]
      exact ⟨hnew, hinv.nodup⟩
    · intro x hx
      rcases hx with hx | hx
      · rw [hp.mem_iff] at hx
        rcases List.mem_cons.mp hx with rfl | hx
        · right
          rw [Map.find?_insert]
          simp only [↓reduceIte, Option.some.injEq, exists_eq_left']
          omega
        · exact hmono x (hinv.done x (Or.inl hx))
      · exact hmono x (hinv.done x (Or.inr hx))
  · constructor
    · exact hinv.reach
    · exact hinv.nodup
    · intro x hx; exact hmono x (hinv.done x hx)

theorem shortFold_enum (g : Graph) (links : List Link) (acc : List QEntry × Map Nat × Nat) (src : Nat) (S : List Nat)
    (hroot : g.indeg g.root = 0) (hl : ∀ l ∈ links, l ∈ (g.obj src).links) (hsrc : Reach g g.root src)
    (hinv : EnumInv g (acc.1.map (·.id)) acc.2.1 S) :
    EnumInv g ((links.foldl (shortVisitLink g) acc).1.map (·.id)) (links.foldl (shortVisitLink g) acc).2.1 S := by
  induction links generalizing acc with
  | nil => exact hinv
  | cons l rest ih =>
    simp only [List.foldl_cons]
    exact ih _ (fun l' hl' => hl l' (List.mem_cons_of_mem _ hl'))
      (shortVisit_enum g acc l src S hroot (hl l List.mem_cons_self) hsrc hinv)

theorem shortLoop_enum (g : Graph) (fuel : Nat) (st st' : ShortSt) (hroot : g.indeg g.root = 0)
    (h : shortLoop g fuel st = some st') (hinv : EnumInv g (st.queue.map (·.id)) st.removed st.orderRev) :
    EnumInv g (st'.queue.map (·.id)) st'.removed st'.orderRev := by
  induction fuel generalizing st with
  | zero => simp [shortLoop] at h
  | succ n ih =>
    unfold shortLoop at h
    split at h
    · simp only [Option.some.injEq] at h
      subst h
      exact hinv
    · rename_i e rest hq
      simp only [] at h
      rw [hq] at hinv
      simp only [List.map_cons] at hinv
      have hsrc : Reach g g.root e.id := hinv.reach e.id (Or.inl List.mem_cons_self)
      have hstep := shortFold_enum g (g.obj e.id).links (rest, st.removed, st.objOrder) e.id (e.id :: st.orderRev) hroot
        (fun l hl => hl) hsrc (enum_pop g e.id (rest.map (·.id)) st.removed st.orderRev hinv)
      generalize hfold : (g.obj e.id).links.foldl (shortVisitLink g) (rest, st.removed, st.objOrder) = res at h hstep
      obtain ⟨queue, removed, oo⟩ := res
      simp only [] at h
      exact ih _ h hstep

/-! ### the preparation steps of `sort_shortest_distance` do not touch the cached parents -/

def parentsOf (nodes : Map Node) (id : Nat) : List (Nat × Nat) := ((nodes.find? id).getD default).parents

theorem Map.find?_modify {α : Type} (m : Map α) (x : Nat) (f : α → α) (y : Nat) :
    (Map.modify m x f).find? y = if y = x then (m.find? y).map f else m.find? y := by
  induction m with
  | nil => simp [Map.modify, Map.find?]
  | cons kv rest ih =>
    obtain ⟨k, v⟩ := kv
    simp only [Map.modify, List.map_cons] at ih ⊢
    by_cases hk : k = x
    · simp only [hk, ↓reduceIte, Map.find?]
      by_cases hy : x = y
      · simp [hy]
      · simp only [hy, ↓reduceIte]
        rw [ih]
    · simp only [hk, ↓reduceIte, Map.find?]
      by_cases hy : k = y
      · subst hy; simp [hk]
      · simp only [hy, ↓reduceIte]
        rw [ih]

theorem Map.find?_mapVal {α : Type} (m : Map α) (h : α → α) (y : Nat) :
    Map.find? (m.map (fun kv => (kv.1, h kv.2))) y = (m.find? y).map h := by
  induction m with
  | nil => simp [Map.find?]
  | cons kv rest ih =>
    obtain ⟨k, v⟩ := kv
    simp only [List.map_cons, Map.find?]
    split <;> simp [ih]

theorem parentsOf_modify (nodes : Map Node) (x : Nat) (f : Node → Node) (hf : ∀ n, (f n).parents = n.parents)
    (id : Nat) : parentsOf (Map.modify nodes x f) id = parentsOf nodes id := by
  unfold parentsOf
  rw [Map.find?_modify]
  split
  · cases nodes.find? id <;> simp [hf]
  · rfl

theorem parentsOf_mapVal (nodes : Map Node) (f : Node → Node) (hf : ∀ n, (f n).parents = n.parents)
    (id : Nat) : parentsOf (nodes.map (fun kv => (kv.1, f kv.2))) id = parentsOf nodes id := by
  unfold parentsOf
  rw [Map.find?_mapVal]
  cases nodes.find? id <;> simp [hf]

theorem updDistFold_parents (visited : Set) (nd : Nat) (links : List Link) (acc : List (Nat × Nat) × Map Node)
    (id : Nat) : parentsOf (links.foldl (updDistVisitLink visited nd) acc).2 id = parentsOf acc.2 id := by
  induction links generalizing acc with
  | nil => rfl
  | cons l rest ih =>
    simp only [List.foldl_cons]
    rw [ih]
    unfold updDistVisitLink
    split
    · rfl
    · simp only []
      split
      · dsimp only
        refine parentsOf_modify _ _ _ ?_ id
        intro n; rfl
      · rfl

theorem updDistLoop_parents (g : Graph) (fuel : Nat) (queue : List (Nat × Nat)) (visited : Set) (nodes nodes' : Map Node)
    (h : updDistLoop g fuel queue visited nodes = some nodes') (id : Nat) : parentsOf nodes' id = parentsOf nodes id := by
  induction fuel generalizing queue visited nodes with
  | zero => simp [updDistLoop] at h
  | succ n ih =>
    unfold updDistLoop at h
    split at h
    · simp only [Option.some.injEq] at h; subst h; rfl
    · rename_i d x rest
      split at h
      · exact ih _ _ _ h
      · simp only [] at h
        generalize hfold : (g.linksOf x).foldl (updDistVisitLink (visited.insert x) ((nodes.find? x).getD default).distance) (rest, nodes) = res at h
        obtain ⟨q, ns⟩ := res
        simp only [] at h
        rw [ih _ _ _ h]
        have := updDistFold_parents (visited.insert x) ((nodes.find? x).getD default).distance (g.linksOf x) (rest, nodes) id
        rw [hfold] at this
        exact this

theorem space0Loop_parents (g : Graph) (fuel : Nat) (queue : List Nat) (nodes nodes' : Map Node)
    (h : space0Loop g fuel queue nodes = some nodes') (id : Nat) : parentsOf nodes' id = parentsOf nodes id := by
  induction fuel generalizing queue nodes with
  | zero => simp [space0Loop] at h
  | succ n ih =>
    unfold space0Loop at h
    split at h
    · simp only [Option.some.injEq] at h; subst h; rfl
    · split at h
      · split at h
        · simp only [] at h
          rw [ih _ _ h]
          refine parentsOf_modify _ _ _ ?_ id
          intro n; rfl
        · exact ih _ _ h
      · exact ih _ _ h

theorem indeg_eq (g : Graph) (id : Nat) : g.indeg id = (parentsOf g.nodes id).length := rfl

theorem updateDistances_indeg (g g' : Graph) (h : updateDistances g = some g') (id : Nat) :
    g'.indeg id = g.indeg id := by
  unfold updateDistances at h
  simp only [] at h
  split at h
  · simp at h
  · rename_i nodes' hl
    simp only [Option.some.injEq] at h; subst h
    rw [indeg_eq, indeg_eq]
    simp only []
    rw [updDistLoop_parents g _ _ _ _ _ hl]
    congr 1
    refine Eq.trans (parentsOf_modify _ _ _ ?_ id) ?_
    · intro n; rfl
    · refine parentsOf_mapVal g.nodes (fun n => { n with distance := U32_MAX }) ?_ id
      intro n; rfl

theorem assignSpace0_indeg (g g' : Graph) (h : assignSpace0 g = some g') (id : Nat) :
    g'.indeg id = g.indeg id := by
  unfold assignSpace0 at h
  split at h
  · simp at h
  · rename_i nodes' hl
    simp only [Option.some.injEq] at h; subst h
    rw [indeg_eq, indeg_eq]
    exact congrArg List.length (space0Loop_parents g _ _ _ _ hl id)

/-- `sort_shortest_distance`: if no cached parent points at the root, the order lists every object
at most once and only objects reachable from the root. -/
theorem sortShortest_enum (g g' : Graph) (hroot : (updateParents g).indeg g.root = 0)
    (h : sortShortest g = some g') :
    g'.order.Nodup ∧ ∀ x ∈ g'.order, Reach g g.root x := by
  unfold sortShortest at h
  simp only [Option.bind_eq_bind, Option.bind_eq_some_iff] at h
  obtain ⟨g2, hd, g3, hs, st, hloop, h⟩ := h
  split at h
  · simp only [Option.some.injEq] at h
    subst h
    have ho2 := updateDistances_objects _ _ hd
    have ho3 := assignSpace0_objects _ _ hs
    have hobjs : g3.objects = g.objects := by rw [ho3.1, ho2.1, updateParents_objects]
    have hr : g3.root = g.root := by rw [ho3.2, ho2.2, updateParents_root]
    have hroot' : g3.indeg g3.root = 0 := by
      rw [hr, assignSpace0_indeg _ _ hs, updateDistances_indeg _ _ hd]; exact hroot
    have hinit : EnumInv g3 (([⟨0, 0, 0, g3.root⟩] : List QEntry).map (·.id)) [] [] := enum_init g3 []
    have hinv := shortLoop_enum _ _ _ _ hroot' hloop hinit
    refine ⟨?_, ?_⟩
    · rw [(List.reverse_perm _).nodup_iff]
      exact (List.nodup_append.mp hinv.nodup).2.1
    · intro x hx
      simp only [List.mem_reverse] at hx
      have := hinv.reach x (Or.inr hx)
      rw [hr] at this
      exact reach_congr g _ hobjs _ _ this
  · simp at h

/-! ### `update_parents`: an object nobody links to has no cached parents -/

theorem parentsOf_modify_ne (nodes : Map Node) (x : Nat) (f : Node → Node) (id : Nat) (h : id ≠ x) :
    parentsOf (Map.modify nodes x f) id = parentsOf nodes id := by
  unfold parentsOf
  rw [Map.find?_modify, if_neg h]

theorem updParents_inner (src : Nat) (links : List Link) (ns : Map Node) (id : Nat)
    (h : ∀ l ∈ links, l.target ≠ id) :
    parentsOf (links.foldl (fun ns l =>
        Map.modify ns l.target (fun n => { n with parents := n.parents ++ [(src, l.width)] })) ns) id
      = parentsOf ns id := by
  induction links generalizing ns with
  | nil => rfl
  | cons l rest ih =>
    simp only [List.foldl_cons]
    rw [ih _ (fun l' hl' => h l' (List.mem_cons_of_mem _ hl'))]
    exact parentsOf_modify_ne _ _ _ _ (fun e => h l List.mem_cons_self e.symm)

theorem updParents_outer (objs : List (Nat × Obj)) (ns : Map Node) (id : Nat)
    (h : ∀ kv ∈ objs, ∀ l ∈ kv.2.links, l.target ≠ id) :
    parentsOf (objs.foldl (fun ns kv =>
        kv.2.links.foldl (fun ns l =>
          Map.modify ns l.target (fun n => { n with parents := n.parents ++ [(kv.1, l.width)] })) ns) ns) id
      = parentsOf ns id := by
  induction objs generalizing ns with
  | nil => rfl
  | cons kv rest ih =>
    simp only [List.foldl_cons]
    rw [ih _ (fun kv' hkv' => h kv' (List.mem_cons_of_mem _ hkv'))]
    exact updParents_inner kv.1 kv.2.links ns id (h kv List.mem_cons_self)

/-- after `update_parents` on a graph whose parent cache is stale (as `from_objects` leaves it), an
object that no link targets has in-degree 0 -/
theorem updateParents_indeg_zero (g : Graph) (id : Nat) (hstale : g.parentsInvalid = true)
    (h : ∀ kv ∈ g.objects, ∀ l ∈ kv.2.links, l.target ≠ id) : (updateParents g).indeg id = 0 := by
  unfold updateParents
  simp only [hstale, Bool.not_true, Bool.false_eq_true, ↓reduceIte]
  rw [indeg_eq]
  simp only []
  rw [updParents_outer g.objects _ id h]
  have : parentsOf (g.nodes.map (fun kv => (kv.1, { kv.2 with parents := [] }))) id = [] := by
    unfold parentsOf
    rw [Map.find?_mapVal g.nodes (fun n => { n with parents := [] })]
    cases g.nodes.find? id <;> rfl
  rw [this]; rfl

end FontVerif.Graph
