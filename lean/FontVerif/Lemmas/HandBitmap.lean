/-
Helper lemmas for Props/C01HandBitmap.lean (Model/HandBitmap.lean): big-endian value bounds, the `Res`
monad, the transcribed `binary_search_by` without a sortedness hypothesis, the array-sizing facts of the
index subtable readers.
-/
import FontVerif.Model.HandBitmap
import FontVerif.Lemmas.HandIter
set_option linter.unusedVariables false
set_option linter.unusedSimpArgs false
namespace FontVerif.HandBitmap
open FontVerif FontVerif.HandRead

/-- the data is a list of bytes -/
def Bytes (d : List Nat) : Prop := ∀ b ∈ d, b < 256

theorem bytes_drop {d : List Nat} (h : Bytes d) (n : Nat) : Bytes (d.drop n) :=
  fun b hb => h b (List.mem_of_mem_drop hb)

theorem bytes_take {d : List Nat} (h : Bytes d) (n : Nat) : Bytes (d.take n) :=
  fun b hb => h b (List.mem_of_mem_take hb)

theorem foldl_be_lt : ∀ (bs : List Nat) (acc : Nat), (∀ b ∈ bs, b < 256) →
    bs.foldl (fun a b => a * 256 + b) acc < (acc + 1) * 256 ^ bs.length := by
  intro bs
  induction bs with
  | nil => intro acc _; simp
  | cons b r ih =>
    intro acc h
    have hb : b < 256 := h b (by simp)
    have := ih (acc * 256 + b) (fun x hx => h x (by simp [hx]))
    simp only [List.foldl_cons, List.length_cons]
    calc _ < (acc * 256 + b + 1) * 256 ^ r.length := this
      _ ≤ ((acc + 1) * 256) * 256 ^ r.length := Nat.mul_le_mul_right _ (by omega)
      _ = (acc + 1) * 256 ^ (r.length + 1) := by rw [Nat.pow_succ, Nat.mul_assoc, Nat.mul_comm 256]

theorem beValue_lt (bs : List Nat) (h : ∀ b ∈ bs, b < 256) : beValue bs < 256 ^ bs.length := by
  have := foldl_be_lt bs 0 h
  simpa [beValue] using this

theorem beAt_lt {d : List Nat} (h : Bytes d) (p n : Nat) : beAt d p n < 256 ^ n := by
  unfold beAt
  have h1 := beValue_lt ((d.drop p).take n) (bytes_take (bytes_drop h p) n)
  have h2 : ((d.drop p).take n).length ≤ n := by simp [List.length_take]; omega
  exact Nat.lt_of_lt_of_le h1 (Nat.pow_le_pow_right (by decide) h2)

theorem beAt_lt2 {d : List Nat} (h : Bytes d) (p : Nat) : beAt d p 2 < 65536 := beAt_lt h p 2
theorem beAt_lt4 {d : List Nat} (h : Bytes d) (p : Nat) : beAt d p 4 < 4294967296 := beAt_lt h p 4

theorem readAt_eq {d : List Nat} {off sz v : Nat} (h : readAt d off sz = some v) :
    v = beAt d off sz ∧ off + sz ≤ d.length := by
  unfold readAt checkedAdd at h
  by_cases h1 : off + sz ≤ MAXU
  · simp only [h1, if_true] at h
    by_cases h2 : off + sz ≤ d.length
    · simp only [h2, if_true] at h; injection h with h; exact ⟨h.symm, h2⟩
    · simp [h2] at h
  · simp [h1] at h

theorem checkedAdd_some {a b e : Nat} (h : checkedAdd a b = some e) : e = a + b ∧ a + b ≤ MAXU := by
  unfold checkedAdd at h; split at h
  · injection h with h; exact ⟨h.symm, by assumption⟩
  · cases h

theorem checkedMul_some {a b e : Nat} (h : checkedMul a b = some e) : e = a * b ∧ a * b ≤ MAXU := by
  unfold checkedMul at h; split at h
  · injection h with h; exact ⟨h.symm, by assumption⟩
  · cases h

theorem sliceExcl_some {d : List Nat} {a b x : Nat} (h : sliceExcl d a b = some x) : a ≤ b ∧ b ≤ d.length := by
  unfold sliceExcl getRange at h; split at h
  · assumption
  · cases h

theorem length_take_drop {d : List Nat} {off size : Nat} (h : off + size ≤ d.length) :
    ((d.drop off).take size).length = size := by
  simp only [List.length_take, List.length_drop]; omega

/-! ## `Res` -/

@[simp] theorem bind_ok {α β : Type} (a : α) (f : α → Res β) : (Res.ok a >>= f) = f a := rfl
@[simp] theorem bind_err {α β : Type} (e : BErr) (f : α → Res β) : (Res.err e >>= f) = .err e := rfl
@[simp] theorem bind_trap {α β : Type} (f : α → Res β) : ((Res.trap : Res α) >>= f) = .trap := rfl
@[simp] theorem rbind_ok {α β : Type} (a : α) (f : α → Res β) : (Res.ok a).bind f = f a := rfl
@[simp] theorem pure_eq {α : Type} (a : α) : (pure a : Res α) = .ok a := rfl

theorem bind_eq_ok {α β : Type} {x : Res α} {f : α → Res β} {b : β} (h : (x >>= f) = .ok b) :
    ∃ a, x = .ok a ∧ f a = .ok b := by
  cases x with
  | ok a => exact ⟨a, rfl, h⟩
  | err e => simp at h
  | trap => simp at h

theorem bind_ne_trap {α β : Type} {x : Res α} {f : α → Res β} (hx : x ≠ .trap)
    (hf : ∀ a, x = .ok a → f a ≠ .trap) : (x >>= f) ≠ .trap := by
  cases x with
  | ok a => exact hf a rfl
  | err e => simp
  | trap => exact absurd rfl hx

theorem okOr_ne_trap {α : Type} (o : Option α) (e : BErr) : okOr o e ≠ .trap := by
  cases o <;> simp [okOr]

theorem okOr_eq_ok {α : Type} {o : Option α} {e : BErr} {a : α} (h : okOr o e = .ok a) : o = some a := by
  cases o with
  | none => simp [okOr] at h
  | some x => simp [okOr] at h; simp [h]

theorem usizeAdd_eq_ok {a b c : Nat} (h : usizeAdd a b = .ok c) : c = a + b ∧ a + b ≤ MAXU := by
  unfold usizeAdd at h; split at h
  · injection h with h; exact ⟨h.symm, by assumption⟩
  · cases h

theorem usizeMul_eq_ok {a b c : Nat} (h : usizeMul a b = .ok c) : c = a * b ∧ a * b ≤ MAXU := by
  unfold usizeMul at h; split at h
  · injection h with h; exact ⟨h.symm, by assumption⟩
  · cases h

theorem usizeSub_eq_ok {a b c : Nat} (h : usizeSub a b = .ok c) : c = a - b ∧ b ≤ a := by
  unfold usizeSub at h; split at h
  · injection h with h; exact ⟨h.symm, by assumption⟩
  · cases h

theorem usizeAdd_ne_trap {a b : Nat} (h : a + b ≤ MAXU) : usizeAdd a b ≠ .trap := by simp [usizeAdd, h]
theorem usizeMul_ne_trap {a b : Nat} (h : a * b ≤ MAXU) : usizeMul a b ≠ .trap := by simp [usizeMul, h]
theorem usizeSub_ne_trap {a b : Nat} (h : b ≤ a) : usizeSub a b ≠ .trap := by simp [usizeSub, h]

theorem arrGet_some {sd : List Nat} {pos stride elem count ix v : Nat}
    (h : arrGet sd pos stride elem count ix = some v) : ix < count ∧ v = beAt sd (pos + stride * ix) elem := by
  unfold arrGet at h; split at h
  · injection h with h; exact ⟨by assumption, h.symm⟩
  · cases h

theorem satAdd_le_maxu (a b : Nat) : satAdd a b ≤ MAXU := by unfold satAdd; split <;> omega

/-! ## `binary_search_by` on arbitrary (unsorted) data -/

theorem bsLoop_lt (cmpAt : Nat → Ordering) : ∀ size base, 1 ≤ size →
    base ≤ Layout.bsLoop cmpAt size base ∧ Layout.bsLoop cmpAt size base < base + size := by
  intro size
  induction size using Nat.strongRecOn with
  | _ size ih =>
    intro base h1
    unfold Layout.bsLoop
    by_cases hs : size > 1
    · simp only [hs, ↓reduceDIte]
      have hlt : size - size / 2 < size := by omega
      by_cases hc : (cmpAt (base + size / 2) == .gt) = true
      · simp only [hc, if_true]
        have := ih (size - size / 2) hlt base (by omega); omega
      · simp only [hc, Bool.false_eq_true, ↓reduceIte]
        have := ih (size - size / 2) hlt (base + size / 2) (by omega); omega
    · simp only [hs, ↓reduceDIte]; omega

/-- whatever the comparison closure answers, `Ok(i)` is an index of the slice at which it said `Equal` -/
theorem binarySearchBy_ok {n : Nat} {cmpAt : Nat → Ordering} {i : Nat}
    (h : Layout.binarySearchBy n cmpAt = .ok i) : i < n ∧ cmpAt i = .eq := by
  unfold Layout.binarySearchBy at h
  by_cases hn : n = 0
  · simp [hn] at h
  · simp only [hn, if_false] at h
    have hb := bsLoop_lt cmpAt n 0 (by omega)
    generalize Layout.bsLoop cmpAt n 0 = base at h hb
    cases hc : cmpAt base with
    | eq => simp only [hc] at h; injection h with h; subst h; exact ⟨by omega, hc⟩
    | lt => simp [hc] at h
    | gt => simp [hc] at h

theorem natCmp_eq {a b : Nat} (h : Layout.natCmp a b = .eq) : a = b := by
  unfold Layout.natCmp at h
  split at h
  · cases h
  · split at h
    · assumption
    · cases h

/-! ## readers -/

theorem finishAfter_le {sd : List Nat} {fixed bl : Nat} (hlen : sd.length < MAXU)
    (h : finishAfter sd fixed bl = true) : fixed + bl ≤ sd.length := by
  simp only [finishAfter, Cur.finish, Cur.advanceBy, satAdd, decide_eq_true_eq] at h
  split at h <;> omega


theorem readSubtable_facts {sd : List Nat} {last first : Nat} {sub : Sub} (hlen : sd.length < MAXU)
    (h : readSubtable sd last first = .ok sub) :
    subMinEnd sub ≤ sd.length ∧
    (match sub with
     | .f1 c => c = satAdd (last - first) 2
     | .f2 => True
     | .f3 c => c = satAdd (last - first) 2
     | .f4 c => c = satAdd (beAt sd 8 4) 1
     | .f5 c => c = beAt sd 20 4) := by
  unfold readSubtable at h
  cases hf : readAt sd 0 2 with
  | none => simp [hf] at h
  | some f =>
    simp only [hf] at h
    by_cases h1 : f = 1
    · simp only [h1, if_true] at h
      cases hm : checkedMul (satAdd (last - first) 2) 4 with
      | none => simp [hm] at h
      | some bl =>
        simp only [hm] at h
        have hbl : bl = satAdd (last - first) 2 * 4 := by
          unfold checkedMul at hm; split at hm <;> simp_all
        by_cases hfin : finishAfter sd 8 bl = true
        · simp only [hfin, if_true] at h
          injection h with h; subst h
          have := finishAfter_le hlen hfin
          exact ⟨by simp only [subMinEnd]; omega, rfl⟩
        · simp [hfin] at h
    · simp only [h1, if_false] at h
      by_cases h2 : f = 2
      · simp only [h2, if_true] at h
        by_cases hfin : finishAfter sd 12 8 = true
        · simp only [hfin, if_true] at h
          injection h with h; subst h
          have := finishAfter_le hlen hfin
          exact ⟨by simp only [subMinEnd]; omega, trivial⟩
        · simp [hfin] at h
      · simp only [h2, if_false] at h
        by_cases h3 : f = 3
        · simp only [h3, if_true] at h
          cases hm : checkedMul (satAdd (last - first) 2) 2 with
          | none => simp [hm] at h
          | some bl =>
            simp only [hm] at h
            have hbl : bl = satAdd (last - first) 2 * 2 := by
              unfold checkedMul at hm; split at hm <;> simp_all
            by_cases hfin : finishAfter sd 8 bl = true
            · simp only [hfin, if_true] at h
              injection h with h; subst h
              have := finishAfter_le hlen hfin
              exact ⟨by simp only [subMinEnd]; omega, rfl⟩
            · simp [hfin] at h
        · simp only [h3, if_false] at h
          by_cases h4 : f = 4
          · simp only [h4, if_true] at h
            cases hn : readAt sd 8 4 with
            | none => simp [hn] at h
            | some n =>
              simp only [hn] at h
              have hn' := (readAt_eq hn).1
              cases hm : checkedMul (satAdd n 1) 4 with
              | none => simp [hm] at h
              | some bl =>
                simp only [hm] at h
                have hbl : bl = satAdd n 1 * 4 := by
                  unfold checkedMul at hm; split at hm <;> simp_all
                by_cases hfin : finishAfter sd 12 bl = true
                · simp only [hfin, if_true] at h
                  injection h with h; subst h
                  have := finishAfter_le hlen hfin
                  subst hn'
                  exact ⟨by simp only [subMinEnd]; omega, rfl⟩
                · simp [hfin] at h
          · simp only [h4, if_false] at h
            by_cases h5 : f = 5
            · simp only [h5, if_true] at h
              cases hn : readAt sd 20 4 with
              | none => simp [hn] at h
              | some n =>
                simp only [hn] at h
                have hn' := (readAt_eq hn).1
                cases hm : checkedMul n 2 with
                | none => simp [hm] at h
                | some bl =>
                  simp only [hm] at h
                  have hbl : bl = n * 2 := by
                    unfold checkedMul at hm; split at hm <;> simp_all
                  by_cases hfin : finishAfter sd 24 bl = true
                  · simp only [hfin, if_true] at h
                    injection h with h; subst h
                    have := finishAfter_le hlen hfin
                    subst hn'
                    exact ⟨by simp only [subMinEnd]; omega, rfl⟩
                  · simp [hfin] at h
            · simp [h5] at h

theorem resolveSubtable_facts {ld : List Nat} {off last first : Nat} {sd : List Nat} {sub : Sub}
    (h : resolveSubtable ld off last first = .ok (sd, sub)) :
    off ≠ 0 ∧ off ≤ ld.length ∧ sd = ld.drop off ∧ readSubtable sd last first = .ok sub := by
  unfold resolveSubtable at h
  by_cases h0 : off = 0
  · simp [h0] at h
  · simp only [h0, if_false] at h
    unfold splitOff at h
    by_cases hle : off ≤ ld.length
    · simp only [hle, if_true] at h
      cases hr : readSubtable (ld.drop off) last first with
      | error e => simp [hr] at h
      | ok s =>
        simp only [hr] at h
        injection h with h; injection h with ha hb
        subst ha; subst hb
        exact ⟨h0, hle, rfl, hr⟩
    · simp [hle] at h

theorem records_length (ld : List Nat) (n : Nat) : (records ld n).length = n := by simp [records]

theorem records_mem {ld : List Nat} (hb : Bytes ld) {n : Nat} {r : Nat × Nat × Nat} (h : r ∈ records ld n) :
    r.1 < 65536 ∧ r.2.1 < 65536 ∧ r.2.2 < 4294967296 := by
  simp only [records, List.mem_map, List.mem_range] at h
  obtain ⟨i, _, rfl⟩ := h
  exact ⟨beAt_lt2 hb _, beAt_lt2 hb _, beAt_lt4 hb _⟩

theorem indexSubtableList_facts {d : List Nat} {off size n : Nat} {ld : List Nat} (hlen : d.length < MAXU)
    (h : indexSubtableList d off size n = .ok ld) :
    ld = (d.drop off).take size ∧ off + size ≤ d.length ∧ ld.length = size ∧ n * 8 ≤ size := by
  unfold indexSubtableList at h
  cases ha : checkedAdd off size with
  | none => simp [ha] at h
  | some e =>
    simp only [ha] at h
    have he : e = off + size := by unfold checkedAdd at ha; split at ha <;> simp_all
    subst he
    cases hs : sliceExcl d off (off + size) with
    | none => simp [hs] at h
    | some x =>
      simp only [hs] at h
      have hr : off + size ≤ d.length := by
        unfold sliceExcl getRange at hs; split at hs
        · omega
        · cases hs
      have hl : ((d.drop off).take size).length = size := by simp [List.length_take]; omega
      cases hm : checkedMul n 8 with
      | none => simp [hm] at h
      | some bl =>
        simp only [hm] at h
        have hbl : bl = n * 8 := by unfold checkedMul at hm; split at hm <;> simp_all
        by_cases hf : (Cur.init.advanceBy bl).finish ((d.drop off).take size) = true
        · simp only [hf, if_true] at h
          injection h with h
          have hf' : finishAfter ((d.drop off).take size) 0 bl = true := hf
          have := finishAfter_le (by omega) hf'
          exact ⟨h.symm, hr, by rw [← h]; exact hl, by omega⟩
        · simp [hf] at h


theorem index0_bigMetrics (sd : List Nat) (pos : Nat) : index0 (bigMetrics sd pos) = .ok ((sd.drop pos).take 8) := rfl

theorem maxu_eq : MAXU = 18446744073709551615 := rfl

/-- the two-offset formats (1 and 3): no trap -/
theorem twoOffsets_ne_trap {sd : List Nat} (hb : Bytes sd) (elem count glyphIx ido : Nat) (loc0 : Loc) (imf : Nat)
    (he : elem = 2 ∨ elem = 4) (hido : ido < 4294967296) (hc : count ≤ MAXU) :
    (do
      let o0 ← okOr (arrGet sd 8 elem elem count glyphIx) .oob
      let start ← usizeAdd ido o0
      let ix1 ← usizeAdd glyphIx 1
      let o1 ← okOr (arrGet sd 8 elem elem count ix1) .oob
      let end_ ← usizeAdd ido o1
      if end_ < start then (Res.err .oob : Res Loc)
      else do
        let size ← usizeSub end_ start
        Res.ok { loc0 with format := imf, dataOffset := start, dataSize := size }) ≠ .trap := by
  have hv : ∀ p, beAt sd p elem < 4294967296 := by
    intro p
    rcases he with he | he <;> subst he
    · have := beAt_lt2 hb p; omega
    · exact beAt_lt4 hb p
  apply bind_ne_trap (okOr_ne_trap _ _)
  intro o0 h0
  obtain ⟨hix, ho0⟩ := arrGet_some (okOr_eq_ok h0)
  have := hv (8 + elem * glyphIx)
  apply bind_ne_trap (usizeAdd_ne_trap (by rw [maxu_eq]; omega))
  intro start hs
  apply bind_ne_trap (usizeAdd_ne_trap (by omega))
  intro ix1 h1
  apply bind_ne_trap (okOr_ne_trap _ _)
  intro o1 ho1
  obtain ⟨_, ho1'⟩ := arrGet_some (okOr_eq_ok ho1)
  have := hv (8 + elem * ix1)
  apply bind_ne_trap (usizeAdd_ne_trap (by rw [maxu_eq]; omega))
  intro end_ he_
  split
  · simp
  · apply bind_ne_trap (usizeSub_ne_trap (by omega))
    intro size _
    simp

theorem subLocation_ne_trap {sd : List Nat} (hb : Bytes sd) {last first : Nat} {sub : Sub}
    (hsub : readSubtable sd last first = .ok sub) (hlen : sd.length < MAXU)
    (gid glyphIx : Nat) (hix : glyphIx < 65536) (loc0 : Loc) :
    subLocation sd sub gid glyphIx loc0 ≠ .trap := by
  have hf := (readSubtable_facts hlen hsub).2
  have hido : subImageDataOffset sd < 4294967296 := beAt_lt4 hb 4
  have hds : beAt sd 8 4 < 4294967296 := beAt_lt4 hb 8
  unfold subLocation
  cases sub with
  | f1 count =>
    simp only []
    exact twoOffsets_ne_trap hb 4 count glyphIx _ loc0 _ (Or.inr rfl) hido (by simp only [] at hf; rw [hf]; exact satAdd_le_maxu _ _)
  | f3 count =>
    simp only []
    exact twoOffsets_ne_trap hb 2 count glyphIx _ loc0 _ (Or.inl rfl) hido (by simp only [] at hf; rw [hf]; exact satAdd_le_maxu _ _)
  | f2 =>
    simp only []
    have hm : glyphIx * beAt sd 8 4 ≤ 65535 * 4294967295 := Nat.mul_le_mul (by omega) (by omega)
    apply bind_ne_trap (usizeMul_ne_trap (by rw [maxu_eq]; omega))
    intro m hm'
    obtain ⟨rfl, _⟩ := usizeMul_eq_ok hm'
    apply bind_ne_trap (usizeAdd_ne_trap (by rw [maxu_eq]; omega))
    intro off _
    rw [index0_bigMetrics]
    simp
  | f4 count =>
    simp only []
    simp only [] at hf
    split
    · simp
    · rename_i ix hbs
      obtain ⟨hlt, _⟩ := binarySearchBy_ok hbs
      have hcm : count ≤ MAXU := by rw [hf]; exact satAdd_le_maxu _ _
      have : arrGet sd 14 4 2 count ix = some (beAt sd (14 + 4 * ix) 2) := by simp [arrGet, hlt]
      rw [this]
      simp only [elseTrap, bind_ok]
      apply bind_ne_trap (usizeAdd_ne_trap (by omega))
      intro ix1 _
      apply bind_ne_trap (okOr_ne_trap _ _)
      intro end_ _
      split
      · simp
      · apply bind_ne_trap (usizeSub_ne_trap (by omega))
        intro size _
        simp
  | f5 count =>
    simp only []
    simp only [] at hf
    split
    · simp
    · rename_i ix hbs
      obtain ⟨hlt, _⟩ := binarySearchBy_ok hbs
      have hc : count < 4294967296 := by rw [hf]; exact beAt_lt4 hb 20
      have hm : ix * beAt sd 8 4 ≤ 4294967295 * 4294967295 := Nat.mul_le_mul (by omega) (by omega)
      apply bind_ne_trap (usizeMul_ne_trap (by rw [maxu_eq]; omega))
      intro m hm'
      obtain ⟨rfl, _⟩ := usizeMul_eq_ok hm'
      apply bind_ne_trap (usizeAdd_ne_trap (by rw [maxu_eq]; omega))
      intro off _
      rw [index0_bigMetrics]
      simp


/-- the two-offset formats (1 and 3): what an `Ok` says -/
theorem twoOffsets_ok {sd : List Nat} {elem count glyphIx ido : Nat} {loc0 loc : Loc} {imf : Nat}
    (h : (do
      let o0 ← okOr (arrGet sd 8 elem elem count glyphIx) .oob
      let start ← usizeAdd ido o0
      let ix1 ← usizeAdd glyphIx 1
      let o1 ← okOr (arrGet sd 8 elem elem count ix1) .oob
      let end_ ← usizeAdd ido o1
      if end_ < start then (Res.err .oob : Res Loc)
      else do
        let size ← usizeSub end_ start
        Res.ok { loc0 with format := imf, dataOffset := start, dataSize := size }) = .ok loc) :
    glyphIx + 1 < count ∧
    loc.dataOffset = ido + beAt sd (8 + elem * glyphIx) elem ∧
    loc.dataOffset + loc.dataSize = ido + beAt sd (8 + elem * (glyphIx + 1)) elem ∧
    loc.format = imf ∧ loc.bitDepth = loc0.bitDepth ∧ loc.metrics = loc0.metrics := by
  obtain ⟨o0, h0, h⟩ := bind_eq_ok h
  obtain ⟨_, ho0⟩ := arrGet_some (okOr_eq_ok h0)
  obtain ⟨start, hs, h⟩ := bind_eq_ok h
  obtain ⟨hs, _⟩ := usizeAdd_eq_ok hs
  obtain ⟨ix1, h1, h⟩ := bind_eq_ok h
  obtain ⟨h1, _⟩ := usizeAdd_eq_ok h1
  obtain ⟨o1, ho1, h⟩ := bind_eq_ok h
  obtain ⟨hlt, ho1⟩ := arrGet_some (okOr_eq_ok ho1)
  obtain ⟨end_, he, h⟩ := bind_eq_ok h
  obtain ⟨he, _⟩ := usizeAdd_eq_ok he
  split at h
  · cases h
  · obtain ⟨size, hz, h⟩ := bind_eq_ok h
    obtain ⟨hz, _⟩ := usizeSub_eq_ok hz
    injection h with h
    subst h
    subst h1
    refine ⟨by omega, ?_, ?_, rfl, rfl, rfl⟩
    · show start = _; omega
    · show start + size = _; omega

/-- what `subLocation … = Ok(loc)` says, format by format: the entries read are entries of the array the
reader sized inside the subtable's data, and the location is computed from them -/
def SubLocSpec (sd : List Nat) (sub : Sub) (gid ix : Nat) (loc0 loc : Loc) : Prop :=
  loc.format = subImageFormat sd ∧ loc.bitDepth = loc0.bitDepth ∧
  match sub with
  | .f1 c => ix + 1 < c ∧ 8 + 4 * (ix + 2) ≤ sd.length ∧
      loc.dataOffset = subImageDataOffset sd + beAt sd (8 + 4 * ix) 4 ∧
      loc.dataOffset + loc.dataSize = subImageDataOffset sd + beAt sd (8 + 4 * (ix + 1)) 4 ∧
      loc.metrics = loc0.metrics
  | .f2 => 20 ≤ sd.length ∧ loc.dataOffset = subImageDataOffset sd + ix * beAt sd 8 4 ∧
      loc.dataSize = beAt sd 8 4 ∧ loc.metrics = some ((sd.drop 12).take 8)
  | .f3 c => ix + 1 < c ∧ 8 + 2 * (ix + 2) ≤ sd.length ∧
      loc.dataOffset = subImageDataOffset sd + beAt sd (8 + 2 * ix) 2 ∧
      loc.dataOffset + loc.dataSize = subImageDataOffset sd + beAt sd (8 + 2 * (ix + 1)) 2 ∧
      loc.metrics = loc0.metrics
  | .f4 c => ∃ i, i + 1 < c ∧ 12 + 4 * (i + 2) ≤ sd.length ∧ beAt sd (12 + 4 * i) 2 = gid ∧
      loc.dataOffset = beAt sd (14 + 4 * i) 2 ∧
      loc.dataOffset + loc.dataSize = beAt sd (14 + 4 * (i + 1)) 2 ∧ loc.metrics = loc0.metrics
  | .f5 c => ∃ i, i < c ∧ 24 + 2 * (i + 1) ≤ sd.length ∧ beAt sd (24 + 2 * i) 2 = gid ∧
      loc.dataOffset = subImageDataOffset sd + i * beAt sd 8 4 ∧ loc.dataSize = beAt sd 8 4 ∧
      loc.metrics = some ((sd.drop 12).take 8)

theorem subLocation_ok {sd : List Nat} {last first : Nat} {sub : Sub}
    (hsub : readSubtable sd last first = .ok sub) (hlen : sd.length < MAXU)
    {gid ix : Nat} {loc0 loc : Loc} (h : subLocation sd sub gid ix loc0 = .ok loc) :
    SubLocSpec sd sub gid ix loc0 loc := by
  have hend := (readSubtable_facts hlen hsub).1
  unfold subLocation at h
  unfold SubLocSpec
  cases sub with
  | f1 count =>
    simp only [] at h
    obtain ⟨a, b, c, d, e, f⟩ := twoOffsets_ok h
    simp only [subMinEnd] at hend
    exact ⟨d, e, a, by omega, b, c, f⟩
  | f3 count =>
    simp only [] at h
    obtain ⟨a, b, c, d, e, f⟩ := twoOffsets_ok h
    simp only [subMinEnd] at hend
    exact ⟨d, e, a, by omega, b, c, f⟩
  | f2 =>
    simp only [] at h
    obtain ⟨m, hm, h⟩ := bind_eq_ok h
    obtain ⟨hm, _⟩ := usizeMul_eq_ok hm
    obtain ⟨off, ho, h⟩ := bind_eq_ok h
    obtain ⟨ho, _⟩ := usizeAdd_eq_ok ho
    rw [index0_bigMetrics] at h
    simp only [bind_ok] at h
    injection h with h
    subst h; subst ho; subst hm
    simp only [subMinEnd] at hend
    exact ⟨rfl, rfl, hend, rfl, rfl, rfl⟩
  | f4 count =>
    simp only [] at h
    split at h
    · cases h
    · rename_i i hbs
      obtain ⟨hlt, heq⟩ := binarySearchBy_ok hbs
      have hg := natCmp_eq heq
      have : arrGet sd 14 4 2 count i = some (beAt sd (14 + 4 * i) 2) := by simp [arrGet, hlt]
      rw [this] at h
      simp only [elseTrap, bind_ok] at h
      obtain ⟨ix1, h1, h⟩ := bind_eq_ok h
      obtain ⟨h1, _⟩ := usizeAdd_eq_ok h1
      obtain ⟨end_, he, h⟩ := bind_eq_ok h
      obtain ⟨hlt1, he⟩ := arrGet_some (okOr_eq_ok he)
      split at h
      · cases h
      · obtain ⟨size, hz, h⟩ := bind_eq_ok h
        obtain ⟨hz, _⟩ := usizeSub_eq_ok hz
        injection h with h
        subst h; subst h1
        simp only [subMinEnd] at hend
        refine ⟨rfl, rfl, i, hlt1, by omega, hg, rfl, ?_, rfl⟩
        simp only []; omega
  | f5 count =>
    simp only [] at h
    split at h
    · cases h
    · rename_i i hbs
      obtain ⟨hlt, heq⟩ := binarySearchBy_ok hbs
      have hg := natCmp_eq heq
      obtain ⟨m, hm, h⟩ := bind_eq_ok h
      obtain ⟨hm, _⟩ := usizeMul_eq_ok hm
      obtain ⟨off, ho, h⟩ := bind_eq_ok h
      obtain ⟨ho, _⟩ := usizeAdd_eq_ok ho
      rw [index0_bigMetrics] at h
      simp only [bind_ok] at h
      injection h with h
      subst h; subst ho; subst hm
      simp only [subMinEnd] at hend
      exact ⟨rfl, rfl, i, hlt, by omega, hg, rfl, rfl, rfl⟩

/-- **formats 1 and 3: the two `sbit_offsets.get(..)` never fail** for a glyph inside the record's range:
the reader sized the array as `last - first + 2` -/
theorem twoOffsets_get_some {sd : List Nat} {last first gid elem : Nat} (hl : last < 65536)
    (hr : rangeContains first last gid = true) :
    (arrGet sd 8 elem elem (satAdd (last - first) 2) (gid - first)).isSome = true ∧
    (arrGet sd 8 elem elem (satAdd (last - first) 2) (gid - first + 1)).isSome = true := by
  simp only [rangeContains, decide_eq_true_eq] at hr
  have : satAdd (last - first) 2 = last - first + 2 := by
    unfold satAdd; rw [maxu_eq]; split <;> omega
  rw [this]
  unfold arrGet
  constructor <;> (split <;> first | rfl | omega)

/-! ## the record loop -/

theorem locLoop_trips (ld : List Nat) (gid : Nat) (loc0 : Loc) :
    ∀ recs, (locLoop ld gid loc0 recs).2 ≤ recs.length := by
  intro recs
  induction recs with
  | nil => simp [locLoop]
  | cons r rest ih =>
    obtain ⟨first, last, off⟩ := r
    unfold locLoop
    split
    · simp
    · split
      · simp
      · simp only [List.length_cons]; omega

theorem locLoop_ne_trap {ld : List Nat} (hb : Bytes ld) (hlen : ld.length < MAXU) (gid : Nat) (loc0 : Loc) :
    ∀ recs, (∀ r ∈ recs, r.1 < 65536 ∧ r.2.1 < 65536) → (locLoop ld gid loc0 recs).1 ≠ .trap := by
  intro recs
  induction recs with
  | nil => intro _; simp [locLoop]
  | cons r rest ih =>
    intro hr
    obtain ⟨first, last, off⟩ := r
    have hfl := hr (first, last, off) (by simp)
    simp only [] at hfl
    unfold locLoop
    split
    · simp
    · rename_i sd sub hres
      obtain ⟨_, _, hsd, hsub⟩ := resolveSubtable_facts hres
      have hbs : Bytes sd := by rw [hsd]; exact bytes_drop hb off
      have hls : sd.length < MAXU := by rw [hsd]; simp; omega
      split
      · rename_i hc
        simp only []
        have hc' := hc
        simp only [rangeContains, decide_eq_true_eq] at hc'
        apply bind_ne_trap (usizeSub_ne_trap hc'.1)
        intro ix hix
        obtain ⟨rfl, _⟩ := usizeSub_eq_ok hix
        exact subLocation_ne_trap hbs hsub hls gid _ (by omega) loc0
      · simp only []
        exact ih (fun r hr' => hr r (by simp [hr']))

/-- what `Ok(loc)` of the loop says: the first record whose range holds the glyph id decides, its
subtable (and those of all records before it) read, and the location is that subtable's -/
theorem locLoop_ok {ld : List Nat} {gid : Nat} {loc0 loc : Loc} :
    ∀ recs, (locLoop ld gid loc0 recs).1 = .ok loc →
    ∃ k first last off sd sub, recs[k]? = some (first, last, off) ∧
      (∀ j, j < k → ∀ r, recs[j]? = some r → rangeContains r.1 r.2.1 gid = false) ∧
      rangeContains first last gid = true ∧
      resolveSubtable ld off last first = .ok (sd, sub) ∧
      subLocation sd sub gid (gid - first) loc0 = .ok loc ∧
      (locLoop ld gid loc0 recs).2 = k + 1 := by
  intro recs
  induction recs with
  | nil => intro h; simp [locLoop] at h
  | cons r rest ih =>
    intro h
    obtain ⟨first, last, off⟩ := r
    unfold locLoop at h ⊢
    split at h
    · cases h
    · rename_i sd sub hres
      split at h
      · rename_i hc
        simp only [] at h
        obtain ⟨ix, hix, h⟩ := bind_eq_ok h
        obtain ⟨rfl, _⟩ := usizeSub_eq_ok hix
        refine ⟨0, first, last, off, sd, sub, rfl, ?_, hc, hres, h, ?_⟩
        · intro j hj; omega
        · simp [hres, hc]
      · rename_i hc
        simp only [] at h
        obtain ⟨k, f, l, o, sd', sub', hk, hbefore, hcont, hres', hloc, htr⟩ := ih h
        refine ⟨k + 1, f, l, o, sd', sub', by simpa using hk, ?_, hcont, hres', hloc, ?_⟩
        · intro j hj r hr
          cases j with
          | zero => simp at hr; subst hr; simpa using hc
          | succ j => exact hbefore j (by omega) r (by simpa using hr)
        · simp [hres, hc, htr]


/-! ## `bitmap_data` -/

/-- bytes per element of the content slice (`u8` / `BdtComponent`) -/
def Kind.elemSize : Kind → Nat
  | .composite => 4
  | _ => 1

theorem readArrR_ne_trap (img : List Nat) (c : Cur) (n elem : Nat) : readArrR img c n elem ≠ .trap := by
  unfold readArrR
  split <;> simp

theorem readR_ne_trap (img : List Nat) (c : Cur) (sz : Nat) : readR img c sz ≠ .trap := by
  unfold readR
  split <;> simp

theorem readArrR_ok {img : List Nat} {c c' : Cur} {n elem k : Nat} (h : readArrR img c n elem = .ok (k, c')) :
    elem ≠ 0 ∧ k = n ∧ c.pos + n * elem ≤ img.length ∧ c'.pos = c.pos + n * elem := by
  unfold readArrR Cur.readArray at h
  cases hm : checkedMul n elem with
  | none => simp [hm] at h
  | some len =>
    have hlen : len = n * elem ∧ n * elem ≤ MAXU := by
      unfold checkedMul at hm; split at hm
      · injection hm with hm; exact ⟨hm.symm, by assumption⟩
      · cases hm
    simp only [hm] at h
    cases ha : checkedAdd c.pos len with
    | none => simp [ha] at h
    | some e =>
      have he : e = c.pos + len ∧ c.pos + len ≤ MAXU := by
        unfold checkedAdd at ha; split at ha
        · injection ha with ha; exact ⟨ha.symm, by assumption⟩
        · cases ha
      simp only [ha] at h
      cases hr : HandRead.readArray img c.pos e elem with
      | error er => simp [hr] at h
      | ok k' =>
        simp only [hr] at h
        injection h with h; injection h with hk hc
        unfold HandRead.readArray getRange at hr
        by_cases hrange : c.pos ≤ e ∧ e ≤ img.length
        · simp only [hrange, and_self, if_true] at hr
          by_cases he0 : elem = 0
          · simp [he0] at hr
          · simp only [he0, if_false] at hr
            by_cases hmod : (e - c.pos) % elem ≠ 0
            · simp [hmod] at hr
            · simp only [hmod, if_false] at hr
              injection hr with hr
              have : e - c.pos = n * elem := by omega
              rw [this, Nat.mul_div_cancel _ (Nat.pos_of_ne_zero he0)] at hr
              refine ⟨he0, by omega, by omega, ?_⟩
              rw [← hc]
              simp only [Cur.advanceBy, satAdd]
              split <;> omega
        · simp [hrange] at hr

theorem readR_ok {img : List Nat} {c c' : Cur} {sz v : Nat} (h : readR img c sz = .ok (v, c')) :
    v = beAt img c.pos sz ∧ c.pos + sz ≤ img.length ∧ c'.pos = satAdd c.pos sz := by
  unfold readR Cur.read at h
  cases hr : readAt img c.pos sz with
  | none => simp [hr] at h
  | some x =>
    simp only [hr] at h
    injection h with h; injection h with hv hc
    obtain ⟨h1, h2⟩ := readAt_eq hr
    exact ⟨by omega, h2, by rw [← hc]; rfl⟩

theorem readMetrics_ok {img : List Nat} {c c' : Cur} {sz : Nat} {m : List Nat}
    (h : readMetrics img c sz = .ok (m, c')) :
    m = (img.drop c.pos).take sz ∧ c'.pos = c.pos + sz ∧ c.pos + sz ≤ img.length := by
  unfold readMetrics at h
  obtain ⟨⟨k, c1⟩, hk, h⟩ := bind_eq_ok h
  obtain ⟨_, hk1, hle, hpos⟩ := readArrR_ok hk
  simp only [] at h
  obtain ⟨m', hm, h⟩ := bind_eq_ok h
  injection h with h; injection h with h1 h2
  subst hk1; subst h1; subst h2
  simp only [List.range_one, List.map_cons, List.map_nil, index0, Nat.mul_zero, Nat.add_zero] at hm
  injection hm with hm
  exact ⟨hm.symm, by omega, by omega⟩

theorem readMetrics_ne_trap (img : List Nat) (c : Cur) (sz : Nat) : readMetrics img c sz ≠ .trap := by
  unfold readMetrics
  apply bind_ne_trap (readArrR_ne_trap _ _ _ _)
  intro ⟨k, c1⟩ hk
  obtain ⟨_, hk1, _, _⟩ := readArrR_ok hk
  subst hk1
  simp [index0]

theorem getD_lt {m : List Nat} (h : Bytes m) (i : Nat) : m.getD i 0 < 256 := by
  rw [List.getD_eq_getElem?_getD]
  cases hi : m[i]? with
  | none => simp
  | some x => simp; exact h x (List.mem_of_getElem? hi)

theorem divCeil8_le (a : Nat) : divCeil8 a ≤ a := by
  unfold divCeil8; split <;> omega

/-- **the size arithmetic of the bit / byte aligned formats stays below 2^24** for `u8` width, height and bit depth -/
theorem size_products_bound {w h bd : Nat} (hw : w < 256) (hh : h < 256) (hbd : bd < 256) :
    w * bd ≤ 65025 ∧ divCeil8 (w * bd) * h ≤ 16581375 ∧ w * bd * h ≤ 16581375 := by
  have h1 : w * bd ≤ 255 * 255 := Nat.mul_le_mul (by omega) (by omega)
  have h2 : divCeil8 (w * bd) * h ≤ 65025 * 255 := Nat.mul_le_mul (by have := divCeil8_le (w * bd); omega) (by omega)
  have h3 : w * bd * h ≤ 65025 * 255 := Nat.mul_le_mul (by omega) (by omega)
  omega

theorem byteAligned_ne_trap (img : List Nat) (off : Nat) (c : Cur) (small : Bool) {m : List Nat} (hm : Bytes m)
    {bd : Nat} (hbd : bd < 256) : byteAligned img off c small m bd ≠ .trap := by
  obtain ⟨h1, h2, _⟩ := size_products_bound (getD_lt hm 1) (getD_lt hm 0) hbd
  unfold byteAligned
  apply bind_ne_trap (usizeMul_ne_trap (by rw [maxu_eq]; simp only [mWidth]; omega))
  intro wb hwb
  obtain ⟨rfl, _⟩ := usizeMul_eq_ok hwb
  apply bind_ne_trap (usizeMul_ne_trap (by rw [maxu_eq]; simp only [mWidth, mHeight] at *; omega))
  intro n _
  apply bind_ne_trap (readArrR_ne_trap _ _ _ _)
  intro ⟨k, c1⟩ _
  simp

theorem bitAligned_ne_trap (img : List Nat) (off : Nat) (c : Cur) (small : Bool) {m : List Nat} (hm : Bytes m)
    {bd : Nat} (hbd : bd < 256) : bitAligned img off c small m bd ≠ .trap := by
  obtain ⟨h1, _, h3⟩ := size_products_bound (getD_lt hm 1) (getD_lt hm 0) hbd
  unfold bitAligned
  apply bind_ne_trap (usizeMul_ne_trap (by rw [maxu_eq]; simp only [mWidth]; omega))
  intro wb hwb
  obtain ⟨rfl, _⟩ := usizeMul_eq_ok hwb
  apply bind_ne_trap (usizeMul_ne_trap (by rw [maxu_eq]; simp only [mWidth, mHeight] at *; omega))
  intro n _
  apply bind_ne_trap (readArrR_ne_trap _ _ _ _)
  intro ⟨k, c1⟩ _
  simp

theorem composite_ne_trap (img : List Nat) (off : Nat) (c : Cur) (small : Bool) (m : List Nat) :
    composite img off c small m ≠ .trap := by
  unfold composite
  apply bind_ne_trap (readR_ne_trap _ _ _)
  intro ⟨n, c1⟩ _
  apply bind_ne_trap (readArrR_ne_trap _ _ _ _)
  intro ⟨k, c2⟩ _
  simp

theorem png_ne_trap (img : List Nat) (off : Nat) (c : Cur) (small : Bool) (m : List Nat) :
    png img off c small m ≠ .trap := by
  unfold png
  apply bind_ne_trap (readR_ne_trap _ _ _)
  intro ⟨n, c1⟩ _
  apply bind_ne_trap (readArrR_ne_trap _ _ _ _)
  intro ⟨k, c2⟩ _
  simp

/-- the content slice lies inside the image: `start = off + p`, `p + count · elem ≤ img.len()` -/
def ContentIn (img : List Nat) (off : Nat) (b : BData) : Prop :=
  ∃ p, b.start = off + p ∧ p + b.count * b.kind.elemSize ≤ img.length

theorem byteAligned_ok {img : List Nat} {off : Nat} {c : Cur} {small : Bool} {m : List Nat} {bd : Nat} {b : BData}
    (h : byteAligned img off c small m bd = .ok b) :
    ContentIn img off b ∧ b.small = small ∧ b.metrics = m ∧ b.kind = .byteAligned ∧
      b.count = divCeil8 (mWidth m * bd) * mHeight m := by
  unfold byteAligned at h
  obtain ⟨wb, hwb, h⟩ := bind_eq_ok h
  obtain ⟨rfl, _⟩ := usizeMul_eq_ok hwb
  obtain ⟨n, hn, h⟩ := bind_eq_ok h
  obtain ⟨rfl, _⟩ := usizeMul_eq_ok hn
  obtain ⟨⟨k, c1⟩, hk, h⟩ := bind_eq_ok h
  obtain ⟨_, rfl, hle, _⟩ := readArrR_ok hk
  injection h with h
  subst h
  exact ⟨⟨c.pos, rfl, by simpa [Kind.elemSize] using hle⟩, rfl, rfl, rfl, rfl⟩

theorem bitAligned_ok {img : List Nat} {off : Nat} {c : Cur} {small : Bool} {m : List Nat} {bd : Nat} {b : BData}
    (h : bitAligned img off c small m bd = .ok b) :
    ContentIn img off b ∧ b.small = small ∧ b.metrics = m ∧ b.kind = .bitAligned ∧
      b.count = divCeil8 (mWidth m * bd * mHeight m) := by
  unfold bitAligned at h
  obtain ⟨wb, hwb, h⟩ := bind_eq_ok h
  obtain ⟨rfl, _⟩ := usizeMul_eq_ok hwb
  obtain ⟨n, hn, h⟩ := bind_eq_ok h
  obtain ⟨rfl, _⟩ := usizeMul_eq_ok hn
  obtain ⟨⟨k, c1⟩, hk, h⟩ := bind_eq_ok h
  obtain ⟨_, rfl, hle, _⟩ := readArrR_ok hk
  injection h with h
  subst h
  exact ⟨⟨c.pos, rfl, by simpa [Kind.elemSize] using hle⟩, rfl, rfl, rfl, rfl⟩

theorem composite_ok {img : List Nat} {off : Nat} {c : Cur} {small : Bool} {m : List Nat} {b : BData}
    (h : composite img off c small m = .ok b) :
    ContentIn img off b ∧ b.small = small ∧ b.metrics = m ∧ b.kind = .composite := by
  unfold composite at h
  obtain ⟨⟨n, c1⟩, hn, h2⟩ := bind_eq_ok h
  simp only [] at h2
  obtain ⟨⟨k, c2⟩, hk, h3⟩ := bind_eq_ok h2
  obtain ⟨_, rfl, hle, _⟩ := readArrR_ok hk
  injection h3 with h3
  subst h3
  exact ⟨⟨c1.pos, rfl, by simpa [Kind.elemSize] using hle⟩, rfl, rfl, rfl⟩

theorem png_ok {img : List Nat} {off : Nat} {c : Cur} {small : Bool} {m : List Nat} {b : BData}
    (h : png img off c small m = .ok b) :
    ContentIn img off b ∧ b.small = small ∧ b.metrics = m ∧ b.kind = .png := by
  unfold png at h
  obtain ⟨⟨n, c1⟩, hn, h2⟩ := bind_eq_ok h
  simp only [] at h2
  obtain ⟨⟨k, c2⟩, hk, h3⟩ := bind_eq_ok h2
  obtain ⟨_, rfl, hle, _⟩ := readArrR_ok hk
  injection h3 with h3
  subst h3
  exact ⟨⟨c1.pos, rfl, by simpa [Kind.elemSize] using hle⟩, rfl, rfl, rfl⟩


/-! ## sbix -/

theorem strikeRead_facts {sd : List Nat} {ng count : Nat} (hlen : sd.length < MAXU)
    (h : strikeRead sd ng = .ok count) : count = satAdd ng 1 ∧ 4 + count * 4 ≤ sd.length := by
  unfold strikeRead at h
  simp only [] at h
  cases hm : checkedMul (satAdd ng 1) 4 with
  | none => simp [hm] at h
  | some bl =>
    simp only [hm] at h
    have hbl : bl = satAdd ng 1 * 4 := by unfold checkedMul at hm; split at hm <;> simp_all
    by_cases hf : finishAfter sd 4 bl = true
    · simp only [hf, if_true] at h
      injection h with h
      have := finishAfter_le hlen hf
      exact ⟨h.symm, by omega⟩
    · simp [hf] at h

theorem glyphDataRead_ok {gd : List Nat} (h : glyphDataRead gd = .ok ()) : 8 ≤ gd.length := by
  unfold glyphDataRead at h
  simp only [Cur.finish, Cur.advanceBy, Cur.remainingBytes, satAdd, Nat.div_one, Nat.mul_one] at h
  by_cases hl : 8 ≤ gd.length
  · exact hl
  · have : gd.length - 8 = 0 := by omega
    rw [this] at h
    simp at h
    rw [maxu_eq] at h
    simp at h
    omega

end FontVerif.HandBitmap
