/-
C04 ⇄ C05 bridge, part 5: everything the writer puts into the store is reachable from the id it returns (the last
hypothesis of C05's `sorts_return_on_acyclic`).
-/
import FontVerif.Lemmas.TableWriter3
set_option linter.unusedVariables false
set_option linter.unusedSimpArgs false
namespace FontVerif.TableWriter
open FontVerif FontVerif.Graph

/-- reachability along the offset records of a store -/
inductive SReach (s : Store) : Nat → Nat → Prop
  | refl (a : Nat) : SReach s a a
  | step {a b : Nat} (d : TData) (l : Link) : SReach s a b → (d, b) ∈ s → l ∈ d.offsets → SReach s a l.target

theorem SReach.mono {s s' : Store} (hs : ∀ e ∈ s, e ∈ s') {a b : Nat} (h : SReach s a b) : SReach s' a b := by
  induction h with
  | refl => exact SReach.refl _
  | step d l _ hm hl ih => exact SReach.step d l ih (hs _ hm) hl

theorem SReach.trans {s : Store} {a b c : Nat} (h1 : SReach s a b) (h2 : SReach s b c) : SReach s a c := by
  induction h2 with
  | refl => exact h1
  | step d l _ hm hl ih => exact SReach.step d l ih hm hl

theorem add_new_entry (ids : Nat → Nat) (w : Writer) (d : TData) :
    ∀ e ∈ (w.add ids d).2.tables, e ∉ w.tables → e.2 = (w.add ids d).1 := by
  intro e he hne
  cases hf : w.tables.find? d with
  | some id =>
    rw [add_found ids w d id hf] at he
    exact absurd he hne
  | none =>
    rw [add_new ids w d hf] at he ⊢
    simp only [List.mem_append, List.mem_singleton] at he
    rcases he with he | he
    · exact absurd he hne
    · rw [he]

/-- every object added while `fs` is written is reachable from one of the offsets of the current table -/
theorem writeFields_reach (ids : Nat → Nat) (hinj : Function.Injective ids) (fs : Fields) :
    ∀ (cur : TData) (w : Writer), Inv ids w → CurOK ids cur w → fs.Ok →
      cur.bytes.length + (flat fs cur.bytes.length).length < U32 →
      ∀ e ∈ (writeFields ids fs cur w).2.tables, e ∉ w.tables →
        ∃ l ∈ (writeFields ids fs cur w).1.offsets, SReach (writeFields ids fs cur w).2.tables l.target e.2 := by
  induction fs with
  | nil =>
    intro cur w _ _ _ _ e he hne
    exact absurd he hne
  | bytes bs rest ih =>
    intro cur w hinv hcur hok hlen e he hne
    simp only [flat, List.length_append] at hlen
    simp only [writeFields] at he ⊢
    exact ih (cur.writeBytes bs) w hinv (curOK_writeBytes ids cur w bs hcur) hok
      (by simp only [TData.writeBytes, List.length_append]; omega) e he hne
  | null wd rest ih =>
    intro cur w hinv hcur hok hlen e he hne
    simp only [flat, List.length_append, List.length_replicate] at hlen
    simp only [writeFields] at he ⊢
    exact ih (cur.writeBytes (List.replicate wd 0)) w hinv (curOK_writeBytes ids cur w _ hcur) hok
      (by simp only [TData.writeBytes, List.length_append, List.length_replicate]; omega) e he hne
  | pad2 rest ih =>
    intro cur w hinv hcur hok hlen e he hne
    simp only [writeFields] at he ⊢
    by_cases hp : cur.bytes.length % 2 ≠ 0
    · simp only [flat, if_pos hp, List.length_append, List.length_cons, List.length_nil, Nat.zero_add] at hlen
      rw [if_pos hp] at he ⊢
      exact ih (cur.writeBytes [0]) w hinv (curOK_writeBytes ids cur w _ hcur) hok
        (by simp only [TData.writeBytes, List.length_append, List.length_cons, List.length_nil, Nat.zero_add]; omega)
        e he hne
    · simp only [flat, if_neg hp, List.nil_append, Nat.add_zero] at hlen
      rw [if_neg hp] at he ⊢
      exact ih cur w hinv hcur hok hlen e he hne
  | adjust n body rest ihb ihr =>
    intro cur w hinv hcur hok hlen e he hne
    simp only [flat, List.length_append] at hlen
    have hb := writeFields_spec ids hinj body cur { w with adj := n } (hinv.setAdj n) (hcur.setAdj n) hok.1 (by omega)
    have hbr := ihb cur { w with adj := n } (hinv.setAdj n) (hcur.setAdj n) hok.1 (by omega)
    simp only [writeFields] at he ⊢
    generalize writeFields ids body cur { w with adj := n } = rb at hb hbr he ⊢
    obtain ⟨b1, b2, b3, b4, b5, b6, l1, b7, b8⟩ := hb
    have hlen1 : rb.1.bytes.length = cur.bytes.length + (flat body cur.bytes.length).length := by rw [b5]; simp
    have hr := writeFields_spec ids hinj rest rb.1 { rb.2 with adj := 0 } (b1.setAdj 0) (b6.setAdj 0) hok.2
      (by rw [hlen1]; omega)
    have hrr := ihr rb.1 { rb.2 with adj := 0 } (b1.setAdj 0) (b6.setAdj 0) hok.2 (by rw [hlen1]; omega)
    generalize writeFields ids rest rb.1 { rb.2 with adj := 0 } = rr at hr hrr he ⊢
    obtain ⟨r1, r2, r3, r4, r5, r6, l2, r7, r8⟩ := hr
    by_cases hin : e ∈ rb.2.tables
    · obtain ⟨l, hl, hreach⟩ := hbr e hin hne
      exact ⟨l, by rw [r7]; exact List.mem_append_left _ hl, hreach.mono (fun x hx => r2.sub x hx)⟩
    · exact hrr e he hin
  | link wd ty child rest ihc ihr =>
    intro cur w hinv hcur hok hlen e he hne
    obtain ⟨hw2, hclen, hokc, hokr⟩ := hok
    simp only [flat, List.length_append, List.length_replicate] at hlen
    have hc := writeFields_spec ids hinj child TData.empty w hinv (curOK_empty ids w) hokc (by simpa using hclen)
    have hcr := ihc TData.empty w hinv (curOK_empty ids w) hokc (by simpa using hclen)
    simp only [writeFields] at he ⊢
    generalize writeFields ids child TData.empty w = rc at hc hcr he ⊢
    obtain ⟨c1, c2, c3, c4, c5, c6, lc, c7, c8⟩ := hc
    simp only [empty_bytes, empty_offsets, List.nil_append, List.length_nil] at c5 c7 c8
    have hd : CurOK ids { rc.1 with ty := ty } rc.2 := ⟨c6.inside, c6.disj, c6.targets⟩
    have ha := add_spec ids hinj rc.2 { rc.1 with ty := ty } c1 hd
    have hnew := add_new_entry ids rc.2 { rc.1 with ty := ty }
    generalize rc.2.add ids { rc.1 with ty := ty } = ra at ha hnew he ⊢
    obtain ⟨a1, a2, a3, ⟨j, hj, hidj⟩, d', hm, hdb, hdo⟩ := ha
    simp only [] at hdb hdo
    have hcur2 := curOK_addOffset ids cur ra.2 ra.1 wd ra.2.adj
      (hcur.mono (c2.trans a2)) hw2 (by omega) ⟨j, hj, hidj, (d', ra.1), hm, rfl⟩
    have hr := writeFields_spec ids hinj rest (cur.addOffset ra.1 wd ra.2.adj) ra.2 a1 hcur2 hokr
      (by simp only [TData.addOffset, List.length_append, List.length_replicate]; omega)
    have hrr := ihr (cur.addOffset ra.1 wd ra.2.adj) ra.2 a1 hcur2 hokr
      (by simp only [TData.addOffset, List.length_append, List.length_replicate]; omega)
    generalize writeFields ids rest (cur.addOffset ra.1 wd ra.2.adj) ra.2 = rr at hr hrr he ⊢
    obtain ⟨r1, r2, r3, r4, r5, r6, lr, r7, r8⟩ := hr
    -- the record of this slot is among the final offsets
    have hlink : (⟨cur.bytes.length % U32, lenOf wd, ra.1, ra.2.adj⟩ : Link) ∈ rr.1.offsets := by
      rw [r7]; simp [TData.addOffset]
    by_cases hin : e ∈ ra.2.tables
    · refine ⟨_, hlink, ?_⟩
      simp only []
      by_cases hin2 : e ∈ rc.2.tables
      · -- added while the child was written: reachable from one of the child's offsets
        obtain ⟨l, hl, hreach⟩ := hcr e hin2 hne
        have hl' : l ∈ d'.offsets := by rw [hdo]; exact hl
        have h1 : SReach rr.2.tables ra.1 l.target := SReach.step d' l (SReach.refl _) (r2.sub _ hm) hl'
        exact h1.trans (hreach.mono (fun x hx => r2.sub x (a2.sub x hx)))
      · -- the child itself
        rw [hnew e hin hin2]
        exact SReach.refl _
    · exact hrr e he hin

/-- every object in the store after `add_table` on a fresh writer is reachable from the returned id -/
theorem addTable_reach (ids : Nat → Nat) (hinj : Function.Injective ids) (k : Nat) (t : Table) (hok : t.Ok) :
    ∀ e ∈ (addTable ids t (Writer.init k)).2.tables,
      SReach (addTable ids t (Writer.init k)).2.tables (addTable ids t (Writer.init k)).1 e.2 := by
  intro e he
  unfold addTable at he ⊢
  simp only [] at he ⊢
  have hs := writeFields_spec ids hinj t.fields TData.empty (Writer.init k) (inv_init ids k) (curOK_empty ids _) hok.2
    (by simpa using hok.1)
  have hrr := writeFields_reach ids hinj t.fields TData.empty (Writer.init k) (inv_init ids k) (curOK_empty ids _) hok.2
    (by simpa using hok.1)
  generalize writeFields ids t.fields TData.empty (Writer.init k) = r at hs hrr he ⊢
  obtain ⟨c1, c2, c3, c4, c5, c6, lc, c7, c8⟩ := hs
  have hd : CurOK ids { r.1 with ty := t.ty } r.2 := ⟨c6.inside, c6.disj, c6.targets⟩
  have ha := add_spec ids hinj r.2 { r.1 with ty := t.ty } c1 hd
  have hnew := add_new_entry ids r.2 { r.1 with ty := t.ty }
  generalize r.2.add ids { r.1 with ty := t.ty } = ra at ha hnew he ⊢
  obtain ⟨a1, a2, a3, _, d', hm, hdb, hdo⟩ := ha
  simp only [] at hdo
  by_cases hin : e ∈ r.2.tables
  · obtain ⟨l, hl, hreach⟩ := hrr e hin (by simp [Writer.init])
    have hl' : l ∈ d'.offsets := by rw [hdo]; exact hl
    exact (SReach.step d' l (SReach.refl _) hm hl').trans (hreach.mono (fun x hx => a2.sub x hx))
  · rw [hnew e he hin]
    exact SReach.refl _

theorem reach_of_sreach (ids : Nat → Nat) (w : Writer) (hinv : Inv ids w) (root : Nat) {a b : Nat}
    (h : SReach w.tables a b) : Reach (Graph.fromObjects w.tables.objects root) a b := by
  induction h with
  | refl => exact Reach.refl _
  | step d l _ hm hl ih =>
    refine Reach.step l ih ?_
    rw [graph_obj ids w hinv root d _ hm]
    exact hl

end FontVerif.TableWriter
