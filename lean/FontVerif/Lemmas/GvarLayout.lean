/- helper lemmas for Props/C10.lean: gvar glyph-variation-data offsets -/
import FontVerif.Model.GvarLayout
set_option linter.unusedVariables false
namespace FontVerif.GvarLayout
open FontVerif

/-- what the reader hands out for glyph data `b`: the bytes, plus the padding byte with short
offsets and odd length; nothing for a glyph without variations -/
def expected (long : Bool) (b : List Nat) : Option (List Nat) :=
  if b.isEmpty then none else some (b ++ (if !long ∧ b.length % 2 = 1 then [0] else []))

theorem offsetsFrom_head (long : Bool) (acc : Nat) (bs : List (List Nat)) :
    (offsetsFrom long acc bs)[0]? = some acc := by
  cases bs <;> simp [offsetsFrom]

def unit (long : Bool) (len : Nat) : Nat := if long then len else shortSize len

theorem scale_unit (long : Bool) (len : Nat) :
    readOffset long (unit long len) = len + (if !long ∧ len % 2 = 1 then 1 else 0) := by
  unfold readOffset unit shortSize
  cases long
  · simp; split <;> omega
  · simp

theorem readOffset_add (long : Bool) (a b : Nat) :
    readOffset long (a + b) = readOffset long a + readOffset long b := by
  unfold readOffset; cases long <;> simp <;> omega

/-- main induction: glyph `i` of `blobs` resolves to its data when the table so far is `pre`
(its length is where the next glyph goes) -/
theorem resolve_aux (long : Bool) (dao : Nat) :
    ∀ (blobs : List (List Nat)) (acc : Nat) (pre : List Nat) (i : Nat),
      pre.length = dao + readOffset long acc →
      (long = false → pre.length % 2 = 0) →
      (pre ++ writeData long pre.length blobs).length < 4294967296 →
      i < blobs.length →
      dataForGid (pre ++ writeData long pre.length blobs) long dao (offsetsFrom long acc blobs) i
        = some (expected long (blobs.getD i [])) := by
  intro blobs
  induction blobs with
  | nil => intro acc pre i _ _ _ hi; simp at hi
  | cons b bs ih =>
    intro acc pre i hpre heven hsz hi
    have hunit : (if long then b.length else shortSize b.length) = unit long b.length := rfl
    cases i with
    | zero =>
      simp only [List.getD_cons_zero]
      unfold dataForGid dataRange
      simp only [offsetsFrom, hunit, List.getElem?_cons_zero, List.getElem?_cons_succ, offsetsFrom_head,
        Nat.zero_add]
      rw [readOffset_add, scale_unit, ← Nat.add_assoc, ← hpre]
      by_cases hb : b = []
      · subst hb
        have c : ¬ (4294967296 ≤ pre.length) := by
          simp only [List.length_append] at hsz; omega
        simp [c, expected]
      · have hbne : b.isEmpty = false := by cases b <;> simp_all
        have hlen0 : 0 < b.length := by cases b <;> simp_all
        simp only [writeData, hbne, Bool.false_eq_true, if_false] at hsz ⊢
        -- the padding decision: `pos` is even with short offsets
        have hpad : (if !long ∧ (pre.length + b.length) % 2 = 1 then [0] else ([] : List Nat))
            = (if !long ∧ b.length % 2 = 1 then [0] else []) := by
          cases long with
          | true => simp
          | false =>
            have := heven rfl
            simp only [Bool.not_false, true_and]
            have e : ((pre.length + b.length) % 2 = 1) ↔ (b.length % 2 = 1) := by omega
            simp only [e]
        rw [hpad] at hsz ⊢
        generalize hp : (if !long ∧ b.length % 2 = 1 then [0] else ([] : List Nat)) = pad at hsz ⊢
        have hpl : pad.length = (if !long ∧ b.length % 2 = 1 then 1 else 0) := by
          rw [← hp]; split <;> rfl
        rw [← hpl]
        simp only [List.length_append] at hsz
        have c1 : ¬ (pre.length ≥ 4294967296 ∨ pre.length + (b.length + pad.length) ≥ 4294967296) := by omega
        have c2 : ¬ (pre.length ≥ pre.length + (b.length + pad.length)) := by omega
        have c3 : pre.length + (b.length + pad.length) ≤
            (pre ++ (b ++ pad ++ writeData long (pre.length + b.length + pad.length) bs)).length := by
          simp only [List.length_append]; omega
        simp only [c1, c2, c3, if_false, if_true]
        have e1 : pre.length + (b.length + pad.length) - pre.length = (b ++ pad).length := by
          simp only [List.length_append]; omega
        rw [e1, List.drop_left]
        generalize writeData long (pre.length + b.length + pad.length) bs = rest
        have e2 : b ++ pad ++ rest = (b ++ pad) ++ rest := rfl
        rw [e2, List.take_left]
        simp [expected, hbne, ← hp]
    | succ i =>
      simp only [List.getD_cons_succ]
      simp only [List.length_cons] at hi
      -- the table is `pre' ++ writeData long pre'.length bs` for the extended prefix
      by_cases hb : b = []
      · subst hb
        have hw : writeData long pre.length ([] :: bs) = writeData long pre.length bs := by
          simp [writeData]
        rw [hw] at hsz ⊢
        have hacc : acc + (if long then ([] : List Nat).length else shortSize ([] : List Nat).length) = acc := by
          cases long <;> simp [shortSize]
        have := ih acc pre i hpre heven hsz (by omega)
        unfold dataForGid dataRange at this ⊢
        simp only [offsetsFrom, hacc, List.getElem?_cons_succ]
        exact this
      · have hbne : b.isEmpty = false := by cases b <;> simp_all
        simp only [writeData, hbne, Bool.false_eq_true, if_false] at hsz ⊢
        have hpad : (if !long ∧ (pre.length + b.length) % 2 = 1 then [0] else ([] : List Nat))
            = (if !long ∧ b.length % 2 = 1 then [0] else []) := by
          cases long with
          | true => simp
          | false =>
            have := heven rfl
            simp only [Bool.not_false, true_and]
            have e : ((pre.length + b.length) % 2 = 1) ↔ (b.length % 2 = 1) := by omega
            simp only [e]
        rw [hpad] at hsz ⊢
        generalize hp : (if !long ∧ b.length % 2 = 1 then [0] else ([] : List Nat)) = pad at hsz ⊢
        have hpl : pad.length = (if !long ∧ b.length % 2 = 1 then 1 else 0) := by
          rw [← hp]; split <;> rfl
        have hpre' : (pre ++ (b ++ pad)).length = dao + readOffset long (acc + unit long b.length) := by
          rw [readOffset_add, scale_unit, ← hpl]
          simp only [List.length_append]; omega
        have heven' : long = false → (pre ++ (b ++ pad)).length % 2 = 0 := by
          intro hl
          have := heven hl
          subst hl
          simp only [List.length_append, hpl, Bool.not_false, true_and]
          split <;> omega
        have etab : pre ++ (b ++ pad ++ writeData long (pre.length + b.length + pad.length) bs)
            = (pre ++ (b ++ pad)) ++ writeData long (pre ++ (b ++ pad)).length bs := by
          simp only [List.length_append, List.append_assoc, Nat.add_assoc]
        rw [etab] at hsz ⊢
        have := ih (acc + unit long b.length) (pre ++ (b ++ pad)) i hpre' heven' hsz (by omega)
        unfold dataForGid dataRange at this ⊢
        simp only [offsetsFrom, hunit, List.getElem?_cons_succ]
        exact this

theorem offsetsFrom_le (acc : Nat) : ∀ (blobs : List (List Nat)) (acc : Nat) (o : Nat),
    o ∈ offsetsFrom false acc blobs → o ≤ acc + (blobs.map fun b => shortSize b.length).sum := by
  intro blobs
  induction blobs with
  | nil => intro acc o h; simp [offsetsFrom] at h; omega
  | cons b bs ih =>
    intro acc o h
    simp only [offsetsFrom, List.mem_cons] at h
    simp only [List.map_cons, List.sum_cons]
    rcases h with rfl | h
    · omega
    · have := ih _ o h
      simp only [Bool.false_eq_true, if_false] at this
      omega

theorem sum_short (blobs : List (List Nat)) :
    (blobs.map fun b => b.length + b.length % 2).sum = 2 * (blobs.map fun b => shortSize b.length).sum := by
  induction blobs with
  | nil => rfl
  | cons b bs ih =>
    simp only [List.map_cons, List.sum_cons, ih, shortSize]
    omega

end FontVerif.GvarLayout
