/-
Sparse-bit-set codec: the specification decoder inverts the encoder's node vector.
Part 2: all levels, and the byte stream.
-/
import FontVerif.Lemmas.SbsRound
set_option linter.unusedVariables false
namespace FontVerif.SparseBitSet

theorem readNodes_length (bf : Nat) (data : List Nat) :
    ∀ (n : Nat) {st st' : BitIn} {vs : List Nat},
      readNodes bf data n st = some (vs, st') → vs.length = n
  | 0, st, st', vs, h => by
    simp [readNodes] at h; rw [h.1]; rfl
  | n + 1, st, st', vs, h => by
    simp only [readNodes] at h
    split at h
    · simp at h
    · rename_i v st1 h1
      split at h
      · simp at h
      · rename_i vs' st2 h2
        simp at h
        rw [← h.1, List.length_cons, readNodes_length bf data n h2]

theorem readNodes_append_split (bf : Nat) (data : List Nat) (a b : List Nat) (st st' : BitIn)
    (h : readNodes bf data (a ++ b).length st = some (a ++ b, st')) :
    ∃ st1, readNodes bf data a.length st = some (a, st1) ∧
      readNodes bf data b.length st1 = some (b, st') := by
  rw [List.length_append, readNodes_add] at h
  cases h1 : readNodes bf data a.length st with
  | none => rw [h1] at h; simp at h
  | some r1 =>
    obtain ⟨xs, st1⟩ := r1
    rw [h1] at h
    simp only [] at h
    cases h2 : readNodes bf data b.length st1 with
    | none => rw [h2] at h; simp at h
    | some r2 =>
      obtain ⟨ys, st2⟩ := r2
      rw [h2] at h
      simp only [Option.some.injEq, Prod.mk.injEq] at h
      have hl := readNodes_length bf data _ h1
      obtain ⟨e1, e2⟩ := List.append_inj h.1 hl
      subst e1; subst e2
      exact ⟨st1, rfl, by rw [h2, h.2]⟩

/-- decoding the levels `k+1, k, …, 1` of the encoder's layers, from the starts of the
non-skipped nodes of level `k+1`: the specification decoder consumes exactly what was written
for these levels and yields the members lying under non-skipped nodes of level `k+1` -/
theorem decode_levels {bf : Nat} (hbf : BfOk bf) (S : List Nat) (layers : List (List Node))
    (H : Nat) (hlen : layers.length = H)
    (hfin : ∀ i (hi : i < layers.length), LayerFinal bf S i layers[i]) (data : List Nat) :
    ∀ (k : Nat) (hk : k < layers.length) (st st' : BitIn),
      readNodes bf data (outLayers (layers.take (k + 1))).length st
        = some (outLayers (layers.take (k + 1)), st') →
      ∃ ivs, specLayers bf H data (k + 1) (H - k) (startsOf bf k layers[k]) st = some (ivs, st') ∧
        ∀ x, InsMem ivs x ↔ (x ∈ S ∧ ¬ Full bf S (k + 2) (x / bf ^ (k + 1) / bf)) := by
  have hbf0 := bfOk_pos hbf
  have hbf32 := bfOk_le_32 hbf
  intro k
  induction k with
  | zero =>
    intro hk st st' hr
    rw [List.take_succ_eq_append_getElem hk, outLayers_snoc] at hr
    simp only [List.take_zero, outLayers, List.reverse_nil, List.map_nil, List.flatten_nil] at hr
    obtain ⟨st1, h1, h2⟩ := readNodes_append_split bf data _ _ st st' hr
    simp only [List.length_nil, readNodes, Option.some.injEq, Prod.mk.injEq, true_and] at h2
    subst h2
    have hsl : (startsOf bf 0 layers[0]).length = (outW layers[0]).length := by
      simp [startsOf, outW]
    rw [specLayers_succ, hsl, h1]
    simp only [specLayers, Nat.sub_zero, List.append_nil]
    exact ⟨_, rfl, layer_ivs_leaf hbf0 hbf32 (hfin 0 hk) H⟩
  | succ k ih =>
    intro hk st st' hr
    have hk' : k < layers.length := by omega
    rw [List.take_succ_eq_append_getElem hk, outLayers_snoc] at hr
    obtain ⟨st1, h1, h2⟩ := readNodes_append_split bf data _ _ st st' hr
    obtain ⟨more, hm1, hm2⟩ := ih hk' st1 st' h2
    have hsl : (startsOf bf (k + 1) layers[k + 1]).length = (outW layers[k + 1]).length := by
      simp [startsOf, outW]
    have hd : H - (k + 1) ≠ H := by omega
    have he : H - (H - (k + 1)) = k + 1 := by omega
    have hch := layer_children hbf0 hbf32 (hfin (k + 1) hk) (hfin k hk') H (H - (k + 1)) hd he
    have hdep : H - (k + 1) + 1 = H - k := by omega
    rw [specLayers_succ, hsl, h1]
    simp only []
    rw [hch, hdep, hm1]
    refine ⟨_, rfl, fun x => ?_⟩
    rw [insMem_append, hm2,
      layer_ivs_upper hbf0 (hfin (k + 1) hk) H (H - (k + 1)) hd (by omega) x]
    have hp : x / bf ^ (k + 1) / bf = x / bf ^ (k + 1 + 1) := (div_pow_succ bf x (k + 1)).symm
    rw [hp]
    constructor
    · rintro (⟨hf, hnf⟩ | ⟨hx, hnf⟩)
      · exact ⟨hf x rfl, hnf⟩
      · refine ⟨hx, fun hf => hnf ?_⟩
        have hj : x / bf ^ (k + 1 + 1) % bf < bf := Nat.mod_lt _ hbf0
        have := (full_succ hbf0 S (k + 1 + 1) _).mp hf _ hj
        rwa [(div_mod_unique hbf0 hj).mpr ⟨rfl, rfl⟩] at this
    · rintro ⟨hx, hnf⟩
      by_cases hf : Full bf S (k + 1 + 1) (x / bf ^ (k + 1 + 1))
      · exact Or.inl ⟨hf, hnf⟩
      · exact Or.inr ⟨hx, hf⟩

/-- the top layer consists of the root only -/
theorem startsOf_top {bf : Nat} (hbf : BfOk bf) {S : List Nat} (hne : S ≠ []) {H : Nat}
    (hS : ∀ m ∈ S, m < bf ^ (H + 1)) {N : List Node} (h : LayerFinal bf S H N) :
    startsOf bf H N = [0] := by
  have hids : ∀ p, Ids bf S (H + 1) p ↔ p = 0 := by
    intro p
    constructor
    · rintro ⟨m, hm, rfl⟩; exact Nat.div_eq_of_lt (hS m hm)
    · rintro rfl
      obtain ⟨m, hm⟩ := List.exists_mem_of_ne_nil S hne
      exact ⟨m, hm, Nat.div_eq_of_lt (hS m hm)⟩
  have hvis : (vis N).map (·.parentIndex) = [0] := by
    apply pairwise_lt_ext (vis_sorted h) (by simp)
    intro p
    simp only [List.mem_map, List.mem_singleton]
    constructor
    · rintro ⟨n, hn, rfl⟩
      exact (hids _).mp (node_ids h (mem_vis.mp hn).1)
    · rintro rfl
      obtain ⟨n, hnN, hnp⟩ := exists_node h ((hids 0).mpr rfl)
      refine ⟨n, mem_vis.mpr ⟨hnN, (node_skip_iff h hnN).mpr ?_⟩, hnp⟩
      exact not_full_above (bfOk_two_le hbf) hS _
  have : startsOf bf H N = ((vis N).map (·.parentIndex)).map (· * bf ^ (H + 1)) := by
    simp [startsOf, List.map_map, Function.comp_def]
  rw [this, hvis]; simp

/-- the bytes `to_sparse_bit_set_with_bf` writes for an ascending non-empty member list `S`
with tree height `H + 1` (`1 ≤ H + 1 ≤ 31`, all members `< bf^(H+1)`) -/
def encBytes (bf : Nat) (S : List Nat) (h : Nat) : List Nat :=
  ((buildLayers bf h S none []).reverse.foldl (writeTyped bf) (BitOut.new bf h)).bytes

/-- the specification decoder reads the encoder's bytes back to exactly the members, consuming
everything -/
theorem spec_roundtrip {bf : Nat} (hbf : BfOk bf) (S : List Nat) (hsorted : S.Pairwise (· < ·))
    (hne : S ≠ []) (H : Nat) (hH : H + 1 ≤ 31) (hS : ∀ m ∈ S, m < bf ^ (H + 1)) :
    ∃ ivs, specDecode (encBytes bf S (H + 1)) = some (ivs, []) ∧ (∀ x, InsMem ivs x ↔ x ∈ S) ∧
      (∀ b ∈ encBytes bf S (H + 1), b < 256) ∧
      (encBytes bf S (H + 1)).head? = some (((H + 1) % 32) * 4 + bitId bf) := by
  have hbf0 := bfOk_pos hbf
  obtain ⟨uf, layers, hb, _, _, hlen, hlay⟩ :=
    buildLayers_spec (bfOk_two_le hbf) S (H + 1) hS (H + 1) 0 (by omega) S none [] []
      hsorted (fun v => (ids_zero bf S v).symm)
      (fun v hv => by simp [isF, full_zero, hv]) (Or.inr ⟨rfl, rfl⟩)
  simp only [List.append_nil, List.map_nil, List.nil_append] at hb
  have hfin : ∀ i (hi : i < layers.length), LayerFinal bf S i layers[i] := by
    intro i hi
    have := hlay i hi
    rwa [Nat.zero_add] at this
  have hbytes : encBytes bf S (H + 1) =
      ((outLayers layers).foldl (writeNode bf) (BitOut.new bf (H + 1))).bytes := by
    rw [encBytes, hb, foldl_write, outVals_flatten_reverse]
  have hws : ∀ w ∈ outLayers layers, w < 2 ^ bf := by
    intro w hw
    simp only [outLayers, List.mem_flatten, List.mem_map, List.mem_reverse] at hw
    obtain ⟨l, ⟨N, hN, rfl⟩, hwl⟩ := hw
    obtain ⟨i, hi, rfl⟩ := List.mem_iff_getElem.mp hN
    exact outW_lt (hfin i hi) w hwl
  obtain ⟨st, hr, hcons, hlt, hhead⟩ := readNodes_written hbf (H + 1) (outLayers layers) hws
  rw [← hbytes] at hr hcons hlt hhead
  -- the header
  obtain ⟨b0, tl, hdata⟩ : ∃ b0 tl, encBytes bf S (H + 1) = b0 :: tl := by
    cases hd : encBytes bf S (H + 1) with
    | nil => rw [hd] at hhead; simp at hhead
    | cons b0 tl => exact ⟨b0, tl, rfl⟩
  have hb0 : b0 = ((H + 1) % 32) * 4 + bitId bf := by
    rw [hdata] at hhead; simpa using hhead
  have hbfb : bfOfBits b0 = bf := by rw [hb0]; exact bfOfBits_header hbf _
  have hhb : b0 / 4 % 32 = H + 1 := by
    rw [hb0, height_header hbf]; omega
  -- the layers
  have hk : H < layers.length := by omega
  have htake : layers.take (H + 1) = layers := List.take_of_length_le (by omega)
  obtain ⟨ivs, hsl, hmem⟩ := decode_levels hbf S layers (H + 1) hlen hfin
    (encBytes bf S (H + 1)) H hk BitIn.start st (by rw [htake]; exact hr)
  rw [startsOf_top hbf hne hS (hfin H hk)] at hsl
  have hdep : H + 1 - H = 1 := by omega
  rw [hdep] at hsl
  refine ⟨ivs, ?_, fun x => ?_, hlt, hhead⟩
  · rw [hdata] at hsl hcons ⊢
    simp only [specDecode, hbfb, hhb]
    rw [if_neg (by omega), hsl]
    simp only [hcons, List.drop_length]
  · rw [hmem x]
    constructor
    · exact fun h => h.1
    · exact fun h => ⟨h, not_full_above (bfOk_two_le hbf) hS _⟩

end FontVerif.SparseBitSet
