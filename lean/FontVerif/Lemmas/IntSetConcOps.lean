/- C14 / concrete BitSet: every mutator / observer of bitset.rs on the concrete layout
(`pages` in creation order + sorted `page_map`, Model/BitSetConc.lean) commutes with the
abstraction function `CBitSet.abs` and keeps the representation invariant `CInv`.
The two page-index caches (`BitSetBuilder`, `remove_all`) are transparent. -/
import FontVerif.Lemmas.IntSetPageConc
set_option linter.unusedVariables false
set_option linter.unusedSimpArgs false
namespace FontVerif.IntSet

/-! ### lists -/

theorem cv_getD_set {α : Type} (l : List α) (i j : Nat) (a d : α) :
    (l.set i a).getD j d = if i = j ∧ i < l.length then a else l.getD j d := by
  simp only [List.getD_eq_getElem?_getD, List.getElem?_set]
  by_cases h1 : i = j
  · by_cases h2 : i < l.length
    · subst h1; simp [h2]
    · subst h1
      have : l[i]? = none := List.getElem?_eq_none (by omega)
      simp [h2, this]
  · simp [h1]

theorem cv_getD_mem {α : Type} (l : List α) (i : Nat) (d : α) (h : i < l.length) : l.getD i d ∈ l := by
  rw [List.getD_eq_getElem?_getD, List.getElem?_eq_getElem h]
  exact List.getElem_mem h

theorem cv_getD_append_zero (pages : List CPage) (i : Nat) :
    (pages ++ [CPage.zero]).getD i CPage.zero = pages.getD i CPage.zero := by
  simp only [List.getD_eq_getElem?_getD]
  by_cases h : i < pages.length
  · rw [List.getElem?_append_left h]
  · rw [List.getElem?_append_right (by omega), List.getElem?_eq_none (l := pages) (by omega)]
    cases hi : i - pages.length with
    | zero => rfl
    | succ k => rfl

theorem insertAt_perm {α : Type} (l : List α) (i : Nat) (x : α) : (insertAt l i x).Perm (x :: l) := by
  unfold insertAt
  have := @List.perm_middle α x (l.take i) (l.drop i)
  rw [List.take_append_drop] at this
  exact this

theorem insertAt_map {α β : Type} (f : α → β) (l : List α) (i : Nat) (x : α) :
    (insertAt l i x).map f = insertAt (l.map f) i (f x) := by
  simp [insertAt, List.map_take, List.map_drop]

/-- pigeonhole: a duplicate-free list of naturals below `n` has at most `n` entries -/
theorem nodup_lt_length_le (n : Nat) (l : List Nat) (hn : l.Nodup) (hlt : ∀ i ∈ l, i < n) :
    l.length ≤ n := by
  induction n generalizing l with
  | zero =>
    cases l with
    | nil => simp
    | cons a l => exact absurd (hlt a (by simp)) (by omega)
  | succ n ih =>
    by_cases hmem : n ∈ l
    · have hp := List.perm_cons_erase hmem
      have hnd := hp.nodup hn
      rw [List.nodup_cons] at hnd
      have := ih (l.erase n) hnd.2 (fun i hi => by
        have h1 := hlt i (List.mem_of_mem_erase hi)
        have h2 : i ≠ n := fun h => hnd.1 (h ▸ hi)
        omega)
      have hl := hp.length_eq
      simp only [List.length_cons] at hl
      omega
    · have := ih l hn (fun i hi => by
        have h1 := hlt i hi
        have h2 : i ≠ n := fun h => hmem (h ▸ hi)
        omega)
      omega

/-- a duplicate-free list of `n` naturals below `n` is a permutation of `0..n` -/
theorem nodup_perm_range (n : Nat) (l : List Nat) (hn : l.Nodup) (hlt : ∀ i ∈ l, i < n)
    (hlen : l.length = n) : l.Perm (List.range n) := by
  induction n generalizing l with
  | zero =>
    cases l with
    | nil => exact List.Perm.refl _
    | cons a l => simp at hlen
  | succ n ih =>
    have hmem : n ∈ l := by
      apply Classical.byContradiction
      intro hmem
      have := nodup_lt_length_le n l hn (fun i hi => by
        have h1 := hlt i hi
        have h2 : i ≠ n := fun h => hmem (h ▸ hi)
        omega)
      omega
    have hp := List.perm_cons_erase hmem
    have hnd := hp.nodup hn
    rw [List.nodup_cons] at hnd
    have hl := hp.length_eq
    simp only [List.length_cons] at hl
    have h1 := ih (l.erase n) hnd.2 (fun i hi => by
      have h1 := hlt i (List.mem_of_mem_erase hi)
      have h2 : i ≠ n := fun h => hnd.1 (h ▸ hi)
      omega) (by omega)
    rw [List.range_succ]
    refine hp.trans ?_
    refine (List.Perm.cons n h1).trans ?_
    exact (List.perm_append_singleton n (List.range n)).symm

/-! ### the view of the pages through the map -/

/-- the abstract pages: `(major, packed page)` in map order -/
def aview (pm : PMap) (pages : List CPage) : Pages :=
  pm.map (fun e => (e.1, (pages.getD e.2 CPage.zero).abs))

theorem CBitSet.abs_eq (s : CBitSet) : s.abs = ⟨aview s.pageMap s.pages, s.len⟩ := by
  simp [CBitSet.abs, cview, aview, List.map_map, Function.comp_def]

theorem aview_keys (pm : PMap) (pages : List CPage) : (aview pm pages).map (·.1) = pm.map (·.1) := by
  simp [aview, List.map_map, Function.comp_def]

theorem aview_append_zero (pm : PMap) (pages : List CPage) :
    aview pm (pages ++ [CPage.zero]) = aview pm pages := by
  unfold aview
  apply List.map_congr_left
  intro e he
  rw [cv_getD_append_zero]

/-- the structural part of `CInv` (everything but the cached `length`): what the loops of
`insert_range` / `extend_unsorted` / `remove_all` maintain while `length` is stale -/
structure CInvS (pm : PMap) (pages : List CPage) : Prop where
  lenEq : pm.length = pages.length
  sorted : (pm.map (·.1)).Pairwise (· < ·)
  idxNodup : (pm.map (·.2)).Nodup
  idxLt : ∀ e ∈ pm, e.2 < pages.length
  pagesOk : ∀ p ∈ pages, CPageOk p

theorem CInv.toS {s : CBitSet} (h : CInv s) : CInvS s.pageMap s.pages :=
  ⟨h.lenEq, h.sorted, h.idxNodup, h.idxLt, h.pagesOk⟩

theorem cSumLens_acc (pages : List CPage) (a : Nat) :
    pages.foldl (fun acc p => acc + p.len) a = a + cSumLens pages := by
  unfold cSumLens
  induction pages generalizing a with
  | nil => simp
  | cons p ps ih =>
    simp only [List.foldl_cons]
    rw [ih, ih (0 + p.len)]
    omega

theorem map_getD_range (pages : List CPage) :
    (List.range pages.length).map (fun i => pages.getD i CPage.zero) = pages := by
  apply List.ext_getElem
  · simp
  · intro i h1 h2
    simp [List.getD_eq_getElem?_getD, List.getElem?_eq_getElem h2]

/-- `recompute_length` sums over the `pages` vector, the abstract `sumLens` through the map: equal
because the map indices are a bijection onto `0..pages.len()` -/
theorem sumLens_aview (pm : PMap) (pages : List CPage) (h : CInvS pm pages) :
    sumLens (aview pm pages) = cSumLens pages := by
  have hperm := nodup_perm_range pages.length (pm.map (·.2)) h.idxNodup
    (fun i hi => by
      simp only [List.mem_map] at hi
      obtain ⟨e, he, rfl⟩ := hi
      exact h.idxLt e he)
    (by rw [List.length_map]; exact h.lenEq)
  have h1 : sumLens (aview pm pages) =
      (pm.map (·.2)).foldl (fun acc i => acc + (pages.getD i CPage.zero).len) 0 := by
    unfold sumLens aview
    rw [List.foldl_map, List.foldl_map]
    rfl
  have h2 : cSumLens pages =
      (List.range pages.length).foldl (fun acc i => acc + (pages.getD i CPage.zero).len) 0 := by
    conv => lhs; rw [← map_getD_range pages]
    unfold cSumLens
    rw [List.foldl_map]
  rw [h1, h2]
  apply List.Perm.foldl_eq' hperm
  intro x _ y _ z
  omega

theorem aview_inv (pm : PMap) (pages : List CPage) (h : CInvS pm pages) : PagesInv (aview pm pages) := by
  refine ⟨?_, ?_⟩
  · rw [sorted_iff_keys, aview_keys]; exact h.sorted
  · intro kp hkp
    simp only [aview, List.mem_map] at hkp
    obtain ⟨e, he, rfl⟩ := hkp
    exact CPage.abs_ok _ (h.pagesOk _ (cv_getD_mem _ _ _ (h.idxLt e he)))

theorem CBitSet.abs_inv (s : CBitSet) (h : CInv s) : BInv s.abs := by
  rw [CBitSet.abs_eq]
  refine ⟨aview_inv _ _ h.toS, ?_⟩
  show s.len = sumLens (aview s.pageMap s.pages)
  rw [sumLens_aview _ _ h.toS]
  exact h.len

/-- a structurally well-formed concrete set whose abstraction satisfies `BInv` satisfies `CInv` -/
theorem cInv_of_struct {s : CBitSet} (hs : CInvS s.pageMap s.pages) (hb : BInv s.abs) : CInv s := by
  refine ⟨hs.lenEq, hs.sorted, hs.idxNodup, hs.idxLt, hs.pagesOk, ?_⟩
  have := hb.2
  rw [CBitSet.abs_eq] at this
  rw [← sumLens_aview _ _ hs]
  exact this

theorem cInv_empty : CInv CBitSet.empty := by
  refine ⟨rfl, ?_, ?_, ?_, ?_, rfl⟩ <;> simp [CBitSet.empty]

theorem CBitSet.abs_empty : CBitSet.empty.abs = BitSet.empty := rfl

/-! ### `binary_search_by` on the map -/

theorem searchMap_spec (pm : PMap) (hs : (pm.map (·.1)).Pairwise (· < ·)) (m : Nat) :
    (searchMap pm m).2 ≤ pm.length ∧
    (searchMap pm m).2 = pm.countP (fun e => e.1 < m) ∧
    (∀ e ∈ pm.take (searchMap pm m).2, e.1 < m) ∧
    (∀ e ∈ pm.drop (searchMap pm m).2, m ≤ e.1) ∧
    ((searchMap pm m).1 = true →
      (searchMap pm m).2 < pm.length ∧ (pm.getD (searchMap pm m).2 (0, 0)).1 = m) ∧
    ((searchMap pm m).1 = false → ∀ e ∈ pm, e.1 ≠ m) := by
  induction pm with
  | nil => simp [searchMap]
  | cons kv rest ih =>
    obtain ⟨k, i⟩ := kv
    simp only [List.map_cons, List.pairwise_cons, List.mem_map, forall_exists_index, and_imp,
      forall_apply_eq_imp_iff₂] at hs
    obtain ⟨hk, hrest⟩ := hs
    obtain ⟨i1, i2, i3, i4, i5, i6⟩ := ih hrest
    simp only [searchMap]
    by_cases h1 : k = m
    · subst h1
      simp only [if_true]
      refine ⟨by simp, ?_, by simp, ?_, by simp, by simp⟩
      · rw [List.countP_cons]
        simp only [Nat.lt_irrefl, decide_false, Bool.false_eq_true, if_false, Nat.add_zero]
        symm
        rw [List.countP_eq_zero]
        intro e he
        have := hk e he
        simp; omega
      · intro e he
        simp only [List.drop_zero, List.mem_cons] at he
        rcases he with rfl | he
        · simp
        · have := hk e he; omega
    · rw [if_neg h1]
      by_cases h2 : m < k
      · rw [if_pos h2]
        refine ⟨by simp, ?_, by simp, ?_, by simp, ?_⟩
        · rw [List.countP_cons]
          have : ¬ k < m := by omega
          simp only [this, decide_false, Bool.false_eq_true, if_false, Nat.add_zero]
          symm
          rw [List.countP_eq_zero]
          intro e he
          have := hk e he
          simp; omega
        · intro e he
          simp only [List.drop_zero, List.mem_cons] at he
          rcases he with rfl | he
          · simp; omega
          · have := hk e he; omega
        · intro _ e he
          simp only [List.mem_cons] at he
          rcases he with rfl | he
          · simp; omega
          · have := hk e he; omega
      · rw [if_neg h2]
        have h3 : k < m := by omega
        simp only []
        refine ⟨by simp; omega, ?_, ?_, ?_, ?_, ?_⟩
        · rw [List.countP_cons]
          simp only [h3, decide_true, if_true]
          omega
        · intro e he
          simp only [List.take_succ_cons, List.mem_cons] at he
          rcases he with rfl | he
          · exact h3
          · exact i3 e he
        · intro e he
          simp only [List.drop_succ_cons] at he
          exact i4 e he
        · intro hr
          obtain ⟨j1, j2⟩ := i5 hr
          refine ⟨by simp; omega, ?_⟩
          simpa using j2
        · intro hr e he
          simp only [List.mem_cons] at he
          rcases he with rfl | he
          · simp; omega
          · exact i6 hr e he

/-! ### view updates -/

/-- `ensurePage` on a mapped list follows the scan of `searchMap` -/
theorem ensurePage_map (g : Nat → Page) (pm : PMap) (m n : Nat) (hg : g n = Page.zero) :
    ensurePage (pm.map (fun e => (e.1, g e.2))) m =
      if (searchMap pm m).1 then pm.map (fun e => (e.1, g e.2))
      else (insertAt pm (searchMap pm m).2 (m, n)).map (fun e => (e.1, g e.2)) := by
  induction pm with
  | nil => simp [ensurePage, searchMap, insertAt, hg]
  | cons kv rest ih =>
    obtain ⟨k, i⟩ := kv
    simp only [List.map_cons, ensurePage, searchMap]
    by_cases h1 : k = m
    · subst h1
      simp
    · rw [if_neg h1]
      by_cases h2 : m < k
      · rw [if_pos h2, if_pos h2]
        simp [insertAt, hg]
      · rw [if_neg h2, if_neg h2, if_neg (fun h => h1 h.symm), ih]
        simp only []
        split
        · rfl
        · simp [insertAt]

theorem lookup_none_of_keys {ps : Pages} {m : Nat} (h : ∀ kp ∈ ps, kp.1 ≠ m) : lookup ps m = none := by
  induction ps with
  | nil => rfl
  | cons kp ps ih =>
    obtain ⟨k, p⟩ := kp
    simp only [lookup]
    rw [if_neg (h (k, p) (by simp))]
    exact ih (fun q hq => h q (by simp [hq]))

/-- overwriting the page behind index `idx` = `setPage` at the major that owns `idx` -/
theorem setPage_map (g : Nat → Page) (q : Page) (pm : PMap) (m idx : Nat)
    (hs : (pm.map (·.1)).Pairwise (· < ·)) (H : ∀ e ∈ pm, (e.2 = idx ↔ e.1 = m)) :
    pm.map (fun e => (e.1, if e.2 = idx then q else g e.2)) =
      setPage (pm.map (fun e => (e.1, g e.2))) m q := by
  induction pm with
  | nil => rfl
  | cons kv rest ih =>
    obtain ⟨k, i⟩ := kv
    simp only [List.map_cons, List.pairwise_cons, List.mem_map, forall_exists_index, and_imp,
      forall_apply_eq_imp_iff₂] at hs
    obtain ⟨hk, hrest⟩ := hs
    have H0 := H (k, i) (by simp)
    simp only at H0
    simp only [List.map_cons, setPage]
    by_cases h1 : k = m
    · rw [if_pos h1, if_pos (H0.2 h1)]
      congr 1
      apply List.map_congr_left
      intro e he
      have h2 : e.1 ≠ m := by have := hk e he; omega
      have h3 : ¬ e.2 = idx := fun h => h2 ((H e (by simp [he])).1 h)
      rw [if_neg h3]
    · rw [if_neg h1, if_neg (fun h => h1 (H0.1 h))]
      congr 1
      exact ih hrest (fun e he => H e (by simp [he]))

/-- keys and indices of the map are both injective -/
theorem map_entry_unique {pm : PMap} (hs : (pm.map (·.1)).Pairwise (· < ·)) (hn : (pm.map (·.2)).Nodup)
    {m idx : Nat} (hm : (m, idx) ∈ pm) : ∀ e ∈ pm, (e.2 = idx ↔ e.1 = m) := by
  induction pm with
  | nil => simp at hm
  | cons kv rest ih =>
    obtain ⟨k, i⟩ := kv
    simp only [List.map_cons, List.pairwise_cons, List.mem_map, forall_exists_index, and_imp,
      forall_apply_eq_imp_iff₂, List.nodup_cons] at hs hn
    obtain ⟨hk, hrest⟩ := hs
    obtain ⟨hi, hnrest⟩ := hn
    intro e he
    simp only [List.mem_cons] at hm he
    rcases hm with hm | hm
    · injection hm with e1 e2
      subst e1; subst e2
      rcases he with rfl | he
      · simp
      · constructor
        · intro h; exact absurd h (fun h => hi ⟨e, he, h⟩)
        · intro h; have := hk e he; omega
    · rcases he with rfl | he
      · constructor
        · intro h; simp only at h; exact absurd h (fun h => hi ⟨(m, idx), hm, h.symm⟩)
        · intro h; simp only at h; subst h; have := hk _ hm; simp at this
      · exact ih hrest hnrest hm e he

theorem aview_set (pm : PMap) (pages : List CPage) (h : CInvS pm pages) (m idx : Nat) (q : CPage)
    (hm : (m, idx) ∈ pm) : aview pm (pages.set idx q) = setPage (aview pm pages) m q.abs := by
  have hlt := h.idxLt _ hm
  simp only at hlt
  unfold aview
  rw [← setPage_map (fun i => (pages.getD i CPage.zero).abs) q.abs pm m idx h.sorted
    (map_entry_unique h.sorted h.idxNodup hm)]
  apply List.map_congr_left
  intro e he
  rw [cv_getD_set]
  by_cases h1 : e.2 = idx
  · rw [if_pos ⟨h1.symm, hlt⟩, if_pos h1]
  · rw [if_neg (fun hc => h1 hc.1.symm), if_neg h1]

theorem lookup_aview (pm : PMap) (pages : List CPage) (h : CInvS pm pages) (m idx : Nat)
    (hm : (m, idx) ∈ pm) : lookup (aview pm pages) m = some (pages.getD idx CPage.zero).abs := by
  apply lookup_of_mem (aview_inv pm pages h).1
  simp only [aview, List.mem_map]
  exact ⟨(m, idx), hm, rfl⟩

theorem lookup_aview_none (pm : PMap) (pages : List CPage) (m : Nat) (hm : ∀ e ∈ pm, e.1 ≠ m) :
    lookup (aview pm pages) m = none := by
  apply lookup_none_of_keys
  intro kp hkp
  simp only [aview, List.mem_map] at hkp
  obtain ⟨e, he, rfl⟩ := hkp
  exact hm e he

/-- overwriting a referenced page by a well-formed one keeps the structure -/
theorem cInvS_set (pm : PMap) (pages : List CPage) (h : CInvS pm pages) (idx : Nat) (q : CPage)
    (hq : CPageOk q) : CInvS pm (pages.set idx q) := by
  refine ⟨by rw [List.length_set]; exact h.lenEq, h.sorted, h.idxNodup,
    fun e he => by rw [List.length_set]; exact h.idxLt e he, ?_⟩
  intro p hp
  rcases List.mem_or_eq_of_mem_set hp with hp | hp
  · exact h.pagesOk p hp
  · exact hp ▸ hq

/-! ### single-value operations -/

theorem aview_getD_oob (pages : List CPage) : (pages.getD pages.length CPage.zero).abs = Page.zero := by
  rw [List.getD_eq_getElem?_getD, List.getElem?_eq_none (Nat.le_refl _)]
  exact CPage.abs_zero

theorem ensurePage_aview (pm : PMap) (pages : List CPage) (m : Nat) :
    ensurePage (aview pm pages) m =
      if (searchMap pm m).1 then aview pm pages
      else aview (insertAt pm (searchMap pm m).2 (m, pages.length)) pages :=
  ensurePage_map (fun i => (pages.getD i CPage.zero).abs) pm m pages.length (aview_getD_oob pages)

theorem getD_mem_of_lt {pm : PMap} {i : Nat} (h : i < pm.length) : pm.getD i (0, 0) ∈ pm := by
  rw [List.getD_eq_getElem?_getD, List.getElem?_eq_getElem h]
  exact List.getElem_mem h

/-- `ensure_page_index_for_major` on the structure (the cached `length` is passed through) -/
theorem ensure_specS (s : CBitSet) (m : Nat) (h : CInvS s.pageMap s.pages) :
    CInvS (s.ensurePageIndexForMajor m).1.pageMap (s.ensurePageIndexForMajor m).1.pages ∧
    aview (s.ensurePageIndexForMajor m).1.pageMap (s.ensurePageIndexForMajor m).1.pages
      = ensurePage (aview s.pageMap s.pages) m ∧
    (s.ensurePageIndexForMajor m).1.len = s.len ∧
    (s.ensurePageIndexForMajor m).2 < (s.ensurePageIndexForMajor m).1.pages.length ∧
    (m, (s.ensurePageIndexForMajor m).2) ∈ (s.ensurePageIndexForMajor m).1.pageMap := by
  obtain ⟨s1, _, _, _, s5, s6⟩ := searchMap_spec s.pageMap h.sorted m
  have hv := ensurePage_aview s.pageMap s.pages m
  unfold CBitSet.ensurePageIndexForMajor
  simp only []
  cases hr : (searchMap s.pageMap m).1
  · -- miss
    rw [hr] at hv
    simp only [Bool.false_eq_true, if_false] at hv ⊢
    have hperm := insertAt_perm s.pageMap (searchMap s.pageMap m).2 (m, s.pages.length)
    have hmem : ∀ e, e ∈ insertAt s.pageMap (searchMap s.pageMap m).2 (m, s.pages.length) ↔
        e = (m, s.pages.length) ∨ e ∈ s.pageMap := by
      intro e; rw [hperm.mem_iff]; simp
    refine ⟨⟨?_, ?_, ?_, ?_, ?_⟩, ?_, by first | rfl | trivial, by simp, ?_⟩
    · rw [hperm.length_eq]; simp [h.lenEq]
    · have := ensurePage_sorted m (aview_inv _ _ h).1
      rw [hv, sorted_iff_keys, aview_keys] at this
      exact this
    · rw [(hperm.map (·.2)).nodup_iff]
      simp only [List.map_cons, List.nodup_cons]
      refine ⟨?_, h.idxNodup⟩
      intro hc
      simp only [List.mem_map] at hc
      obtain ⟨e, he, he2⟩ := hc
      have := h.idxLt e he
      omega
    · intro e he
      rw [List.length_append]
      rcases (hmem e).1 he with rfl | he
      · simp
      · have := h.idxLt e he; simp; omega
    · intro p hp
      simp only [List.mem_append, List.mem_singleton] at hp
      rcases hp with hp | rfl
      · exact h.pagesOk p hp
      · exact cpageOk_zero
    · rw [aview_append_zero]; exact hv.symm
    · exact (hmem _).2 (Or.inl rfl)
  · -- hit
    rw [hr] at hv
    simp only [if_true] at hv ⊢
    obtain ⟨j1, j2⟩ := s5 hr
    have hmem := getD_mem_of_lt j1
    refine ⟨h, hv.symm, by first | rfl | trivial, h.idxLt _ hmem, ?_⟩
    have heq : s.pageMap.getD (searchMap s.pageMap m).2 (0, 0) =
        (m, (s.pageMap.getD (searchMap s.pageMap m).2 (0, 0)).2) := Prod.ext j2 rfl
    rw [heq] at hmem
    exact hmem

theorem CBitSet.ensure_spec (s : CBitSet) (m : Nat) (h : CInv s) :
    let e := s.ensurePageIndexForMajor m
    CInv e.1 ∧ e.1.abs = ⟨ensurePage s.abs.pages m, s.abs.len⟩ ∧ e.2 < e.1.pages.length ∧
      (m, e.2) ∈ e.1.pageMap := by
  obtain ⟨e1, e2, e3, e4, e5⟩ := ensure_specS s m h.toS
  have habs : (s.ensurePageIndexForMajor m).1.abs = ⟨ensurePage s.abs.pages m, s.abs.len⟩ := by
    rw [CBitSet.abs_eq, e2, e3, CBitSet.abs_eq s]
  refine ⟨?_, habs, e4, e5⟩
  apply cInv_of_struct e1
  rw [habs]
  have hb := CBitSet.abs_inv s h
  exact ⟨ensurePage_inv m hb.1, by rw [sumLens_ensurePage]; exact hb.2⟩

theorem pageIndexForMajor_spec (s : CBitSet) (m : Nat) (h : CInvS s.pageMap s.pages) :
    (∀ idx, s.pageIndexForMajor m = some idx → (m, idx) ∈ s.pageMap ∧ idx < s.pages.length) ∧
    (s.pageIndexForMajor m = none → ∀ e ∈ s.pageMap, e.1 ≠ m) := by
  obtain ⟨s1, _, _, _, s5, s6⟩ := searchMap_spec s.pageMap h.sorted m
  unfold CBitSet.pageIndexForMajor
  simp only []
  cases hr : (searchMap s.pageMap m).1
  · simp only [Bool.false_eq_true, if_false]
    exact ⟨fun idx hc => by simp at hc, fun _ => s6 hr⟩
  · simp only [if_true]
    obtain ⟨j1, j2⟩ := s5 hr
    have hmem := getD_mem_of_lt j1
    refine ⟨fun idx hc => ?_, fun hc => by simp at hc⟩
    simp only [Option.some.injEq] at hc
    have heq : s.pageMap.getD (searchMap s.pageMap m).2 (0, 0) = (m, idx) := Prod.ext j2 hc
    rw [heq] at hmem
    exact ⟨hmem, h.idxLt _ hmem⟩

theorem CBitSet.insert_abs (s : CBitSet) (v : Nat) (h : CInv s) :
    (s.insert v).1.abs = (s.abs.insert v).1 ∧ (s.insert v).2 = (s.abs.insert v).2 := by
  obtain ⟨e1, e2, e3, e4⟩ := CBitSet.ensure_spec s (majorOf v) h
  generalize he : s.ensurePageIndexForMajor (majorOf v) = e at e1 e2 e3 e4
  have hl := lookup_aview e.1.pageMap e.1.pages e1.toS _ _ e4
  have hp : CPageOk (e.1.pages.getD e.2 CPage.zero) := e1.pagesOk _ (cv_getD_mem _ _ _ e3)
  obtain ⟨a1, a2⟩ := CPage.insert_abs _ v hp
  rw [CBitSet.abs_eq e.1] at e2
  injection e2 with e2p e2l
  unfold CBitSet.insert BitSet.insert
  simp only []
  rw [he, ← e2p, hl]
  simp only []
  refine ⟨?_, a2⟩
  rw [CBitSet.abs_eq]
  simp only []
  rw [aview_set _ _ e1.toS _ _ _ e4, a1, a2, e2l]

theorem CBitSet.insert_inv (s : CBitSet) (v : Nat) (h : CInv s) : CInv (s.insert v).1 := by
  apply cInv_of_struct
  · obtain ⟨e1, e2, e3, e4⟩ := CBitSet.ensure_spec s (majorOf v) h
    have hp : CPageOk ((s.ensurePageIndexForMajor (majorOf v)).1.pages.getD
        (s.ensurePageIndexForMajor (majorOf v)).2 CPage.zero) := e1.pagesOk _ (cv_getD_mem _ _ _ e3)
    exact cInvS_set _ _ e1.toS _ _ (CPage.insert_ok _ v hp)
  · rw [(CBitSet.insert_abs s v h).1]
    exact BitSet.insert_inv _ v (CBitSet.abs_inv s h)

theorem CBitSet.contains_abs (s : CBitSet) (v : Nat) (h : CInv s) : s.contains v = s.abs.contains v := by
  obtain ⟨p1, p2⟩ := pageIndexForMajor_spec s (majorOf v) h.toS
  unfold CBitSet.contains BitSet.contains
  rw [CBitSet.abs_eq]
  simp only []
  cases hi : s.pageIndexForMajor (majorOf v) with
  | none =>
    rw [lookup_aview_none _ _ _ (p2 hi)]
  | some idx =>
    obtain ⟨q1, q2⟩ := p1 idx hi
    rw [lookup_aview _ _ h.toS _ _ q1]
    simp only [q2, if_true]
    exact CPage.contains_abs _ v (h.pagesOk _ (cv_getD_mem _ _ _ q2))

theorem CBitSet.remove_abs (s : CBitSet) (v : Nat) (h : CInv s) :
    (s.remove v).1.abs = (s.abs.remove v).1 ∧ (s.remove v).2 = (s.abs.remove v).2 := by
  obtain ⟨p1, p2⟩ := pageIndexForMajor_spec s (majorOf v) h.toS
  unfold CBitSet.remove BitSet.remove
  rw [CBitSet.abs_eq s]
  simp only []
  cases hi : s.pageIndexForMajor (majorOf v) with
  | none =>
    rw [lookup_aview_none _ _ _ (p2 hi)]
    simp only []
    exact ⟨CBitSet.abs_eq s, by first | rfl | trivial⟩
  | some idx =>
    obtain ⟨q1, q2⟩ := p1 idx hi
    rw [lookup_aview _ _ h.toS _ _ q1]
    simp only [q2, if_true]
    obtain ⟨a1, a2⟩ := CPage.remove_abs _ v (h.pagesOk _ (cv_getD_mem _ _ _ q2))
    refine ⟨?_, a2⟩
    rw [CBitSet.abs_eq]
    simp only []
    rw [aview_set _ _ h.toS _ _ _ q1, a1, a2]

theorem CBitSet.remove_inv (s : CBitSet) (v : Nat) (h : CInv s) : CInv (s.remove v).1 := by
  apply cInv_of_struct
  · obtain ⟨p1, p2⟩ := pageIndexForMajor_spec s (majorOf v) h.toS
    unfold CBitSet.remove
    cases hi : s.pageIndexForMajor (majorOf v) with
    | none => exact h.toS
    | some idx =>
      obtain ⟨q1, q2⟩ := p1 idx hi
      simp only [q2, if_true]
      exact cInvS_set _ _ h.toS _ _ (CPage.remove_ok _ v (h.pagesOk _ (cv_getD_mem _ _ _ q2)))
  · rw [(CBitSet.remove_abs s v h).1]
    exact BitSet.remove_inv _ v (CBitSet.abs_inv s h)

theorem CBitSet.clear_inv (s : CBitSet) : CInv s.clear := cInv_empty
theorem CBitSet.clear_abs (s : CBitSet) : s.clear.abs = BitSet.empty := rfl

/-! ### `insert_range` -/

theorem cInsertRangeStep_spec (start end_ : Nat) (st : CBitSet × Nat) (M : Nat)
    (h : CInvS st.1.pageMap st.1.pages)
    (hlo : max start (majorStart M) ≤ min end_ (majorStart M + 511)) :
    CInvS (cInsertRangeStep start end_ st M).1.pageMap (cInsertRangeStep start end_ st M).1.pages ∧
    (aview (cInsertRangeStep start end_ st M).1.pageMap (cInsertRangeStep start end_ st M).1.pages,
      (cInsertRangeStep start end_ st M).2)
      = insertRangeStep start end_ (aview st.1.pageMap st.1.pages, st.2) M ∧
    (cInsertRangeStep start end_ st M).1.len = st.1.len := by
  obtain ⟨e1, e2, e3, e4, e5⟩ := ensure_specS st.1 M h
  generalize he : st.1.ensurePageIndexForMajor M = e at e1 e2 e3 e4 e5
  have hl := lookup_aview e.1.pageMap e.1.pages e1 _ _ e5
  have hp : CPageOk (e.1.pages.getD e.2 CPage.zero) := e1.pagesOk _ (cv_getD_mem _ _ _ e4)
  have hmod : max start (majorStart M) % 512 ≤ min end_ (majorStart M + 511) % 512 := by
    unfold majorStart at *; omega
  have ha := CPage.insertRange_abs _ (max start (majorStart M)) (min end_ (majorStart M + 511)) hp hmod
  unfold cInsertRangeStep insertRangeStep
  simp only []
  rw [he, ← e2, hl]
  simp only []
  refine ⟨cInvS_set _ _ e1 _ _ (CPage.insertRange_ok _ _ _ hp), ?_, e3⟩
  rw [aview_set _ _ e1 _ _ _ e5, ← ha]
  rfl

theorem cInsertRange_fold (start end_ : Nat) (hse : start ≤ end_) (cnt : Nat) (st : CBitSet × Nat)
    (h : CInvS st.1.pageMap st.1.pages) (hcnt : majorOf start + cnt ≤ majorOf end_ + 1) :
    CInvS ((List.range cnt).foldl (fun st i => cInsertRangeStep start end_ st (majorOf start + i)) st).1.pageMap
      ((List.range cnt).foldl (fun st i => cInsertRangeStep start end_ st (majorOf start + i)) st).1.pages ∧
    (aview ((List.range cnt).foldl (fun st i => cInsertRangeStep start end_ st (majorOf start + i)) st).1.pageMap
        ((List.range cnt).foldl (fun st i => cInsertRangeStep start end_ st (majorOf start + i)) st).1.pages,
      ((List.range cnt).foldl (fun st i => cInsertRangeStep start end_ st (majorOf start + i)) st).2)
      = (List.range cnt).foldl (fun st i => insertRangeStep start end_ st (majorOf start + i))
          (aview st.1.pageMap st.1.pages, st.2) ∧
    ((List.range cnt).foldl (fun st i => cInsertRangeStep start end_ st (majorOf start + i)) st).1.len
      = st.1.len := by
  induction cnt with
  | zero => exact ⟨h, rfl, rfl⟩
  | succ c ih =>
    obtain ⟨i1, i2, i3⟩ := ih (by omega)
    rw [List.range_succ, List.foldl_append, List.foldl_append]
    simp only [List.foldl_cons, List.foldl_nil]
    generalize (List.range c).foldl
        (fun st i => cInsertRangeStep start end_ st (majorOf start + i)) st = st' at i1 i2 i3
    have hlo : max start (majorStart (majorOf start + c)) ≤
        min end_ (majorStart (majorOf start + c) + 511) := by
      unfold majorStart majorOf at *; omega
    obtain ⟨s1, s2, s3⟩ := cInsertRangeStep_spec start end_ st' (majorOf start + c) i1 hlo
    refine ⟨s1, ?_, by rw [s3, i3]⟩
    rw [s2, i2]

theorem CBitSet.insertRange_abs (s : CBitSet) (a b : Nat) (h : CInv s) :
    (s.insertRange a b).abs = s.abs.insertRange a b := by
  unfold CBitSet.insertRange BitSet.insertRange
  split
  · rfl
  · rename_i hle
    obtain ⟨f1, f2, f3⟩ := cInsertRange_fold a b (by omega) (majorOf b + 1 - majorOf a) (s, 0) h.toS
      (by unfold majorOf; omega)
    simp only []
    rw [CBitSet.abs_eq]
    simp only []
    rw [f3]
    have g1 := congrArg Prod.fst f2
    have g2 := congrArg Prod.snd f2
    simp only [] at g1 g2
    rw [g1, g2, CBitSet.abs_eq s]

theorem CBitSet.insertRange_inv (s : CBitSet) (a b : Nat) (h : CInv s) : CInv (s.insertRange a b) := by
  apply cInv_of_struct
  · unfold CBitSet.insertRange
    split
    · exact h.toS
    · rename_i hle
      exact (cInsertRange_fold a b (by omega) (majorOf b + 1 - majorOf a) (s, 0) h.toS
        (by unfold majorOf; omega)).1
  · rw [CBitSet.insertRange_abs s a b h]
    exact (BitSet.insertRange_spec _ a b (CBitSet.abs_inv s h)).1

/-! ### `remove_range` -/

/-- what the `remove_range` loop does to the concrete page stored under major `k` -/
def rrCPage (start end_ sm em k : Nat) (p : CPage) : CPage :=
  if k < sm then p
  else if k > em then p
  else if k = sm then p.removeRange start (min (majorStart sm + 511) end_)
  else if k = em then p.removeRange (majorStart em) end_
  else p.clear

/-- the `loop` of `remove_range` as a recursion over the remaining map entries -/
def rrLoopL (start end_ sm em : Nat) : PMap → List CPage → List CPage
  | [], pages => pages
  | info :: rest, pages =>
    if info.2 < pages.length then
      if info.1 > em then pages
      else if info.1 = sm then
        rrLoopL start end_ sm em rest
          (pages.set info.2 ((pages.getD info.2 CPage.zero).removeRange start (min (majorStart sm + 511) end_)))
      else if info.1 = em then
        pages.set info.2 ((pages.getD info.2 CPage.zero).removeRange (majorStart em) end_)
      else rrLoopL start end_ sm em rest (pages.set info.2 (pages.getD info.2 CPage.zero).clear)
    else pages

theorem cRemoveRangeLoop_eq (start end_ sm em : Nat) (pm : PMap) (fuel i : Nat) (pages : List CPage)
    (hf : pm.length ≤ fuel + i) :
    cRemoveRangeLoop start end_ sm em pm fuel i pages = rrLoopL start end_ sm em (pm.drop i) pages := by
  induction fuel generalizing i pages with
  | zero =>
    rw [List.drop_eq_nil_of_le (by omega)]
    rfl
  | succ fuel ih =>
    unfold cRemoveRangeLoop
    by_cases hi : i < pm.length
    · rw [if_pos hi, List.drop_eq_getElem_cons hi]
      have hg : pm.getD i (0, 0) = pm[i] := by
        rw [List.getD_eq_getElem?_getD, List.getElem?_eq_getElem hi]; rfl
      simp only [hg, rrLoopL]
      rw [ih (i + 1) _ (by omega), ih (i + 1) _ (by omega)]
    · rw [if_neg hi, List.drop_eq_nil_of_le (by omega)]
      rfl

theorem rrCPage_ok (start end_ sm em k : Nat) (p : CPage) (h : CPageOk p) :
    CPageOk (rrCPage start end_ sm em k p) := by
  unfold rrCPage
  split
  · exact h
  · split
    · exact h
    · split
      · exact CPage.removeRange_ok _ _ _ h
      · split
        · exact CPage.removeRange_ok _ _ _ h
        · exact CPage.clear_ok _ h

theorem rrCPage_abs (start end_ : Nat) (hse : start ≤ end_) (k : Nat) (p : CPage) (h : CPageOk p) :
    (rrCPage start end_ (majorOf start) (majorOf end_) k p).abs =
      rrPage start end_ (majorOf start) (majorOf end_) k p.abs := by
  unfold rrCPage rrPage
  split
  · rfl
  · split
    · rfl
    · split
      · apply CPage.removeRange_abs _ _ _ h
        unfold majorStart majorOf at *; omega
      · split
        · apply CPage.removeRange_abs _ _ _ h
          unfold majorStart majorOf at *; omega
        · exact CPage.clear_abs _ h

theorem rrLoopL_ok (start end_ sm em : Nat) (rest : PMap) (pages : List CPage)
    (h : ∀ p ∈ pages, CPageOk p) : ∀ p ∈ rrLoopL start end_ sm em rest pages, CPageOk p := by
  induction rest generalizing pages with
  | nil => exact h
  | cons info rest ih =>
    have hset : ∀ q, CPageOk q → ∀ p ∈ pages.set info.2 q, CPageOk p := by
      intro q hq p hp
      rcases List.mem_or_eq_of_mem_set hp with hp | hp
      · exact h p hp
      · exact hp ▸ hq
    unfold rrLoopL
    split
    · rename_i hlt
      have hpg := h _ (cv_getD_mem pages info.2 CPage.zero hlt)
      split
      · exact h
      · split
        · exact ih _ (hset _ (CPage.removeRange_ok _ _ _ hpg))
        · split
          · exact hset _ (CPage.removeRange_ok _ _ _ hpg)
          · exact ih _ (hset _ (CPage.clear_ok _ hpg))
    · exact h

/-- pointwise description of the pages vector after the loop -/
theorem rrLoopL_spec (start end_ sm em : Nat) (hsm : sm ≤ em) (rest : PMap) (pages : List CPage)
    (hs : (rest.map (·.1)).Pairwise (· < ·)) (hn : (rest.map (·.2)).Nodup)
    (hge : ∀ e ∈ rest, sm ≤ e.1) (hlt : ∀ e ∈ rest, e.2 < pages.length) :
    (rrLoopL start end_ sm em rest pages).length = pages.length ∧
    (∀ e ∈ rest, (rrLoopL start end_ sm em rest pages).getD e.2 CPage.zero =
      rrCPage start end_ sm em e.1 (pages.getD e.2 CPage.zero)) ∧
    (∀ j, (∀ e ∈ rest, e.2 ≠ j) →
      (rrLoopL start end_ sm em rest pages).getD j CPage.zero = pages.getD j CPage.zero) := by
  induction rest generalizing pages with
  | nil => exact ⟨rfl, by simp, fun _ _ => rfl⟩
  | cons info rest ih =>
    simp only [List.map_cons, List.pairwise_cons, List.mem_map, forall_exists_index, and_imp,
      forall_apply_eq_imp_iff₂, List.nodup_cons, not_exists, not_and] at hs hn
    obtain ⟨hk, hrest⟩ := hs
    obtain ⟨hi, hnrest⟩ := hn
    have hlt0 := hlt info (by simp)
    have hge0 := hge info (by simp)
    -- the two shapes of a step
    have hcont : ∀ q : CPage, q = rrCPage start end_ sm em info.1 (pages.getD info.2 CPage.zero) →
        (rrLoopL start end_ sm em rest (pages.set info.2 q)).length = pages.length ∧
        (∀ e ∈ info :: rest, (rrLoopL start end_ sm em rest (pages.set info.2 q)).getD e.2 CPage.zero =
          rrCPage start end_ sm em e.1 (pages.getD e.2 CPage.zero)) ∧
        (∀ j, (∀ e ∈ info :: rest, e.2 ≠ j) →
          (rrLoopL start end_ sm em rest (pages.set info.2 q)).getD j CPage.zero
            = pages.getD j CPage.zero) := by
      intro q hq
      obtain ⟨i1, i2, i3⟩ := ih (pages.set info.2 q) hrest hnrest
        (fun e he => hge e (by simp [he]))
        (fun e he => by rw [List.length_set]; exact hlt e (by simp [he]))
      refine ⟨by rw [i1, List.length_set], ?_, ?_⟩
      · intro e he
        simp only [List.mem_cons] at he
        rcases he with rfl | he
        · rw [i3 _ (fun e' he' => hi e' he'), cv_getD_set, if_pos ⟨rfl, hlt0⟩, hq]
        · rw [i2 e he, cv_getD_set, if_neg (fun hc => hi e he hc.1.symm)]
      · intro j hj
        rw [i3 j (fun e he => hj e (by simp [he])), cv_getD_set,
          if_neg (fun hc => hj info (by simp) hc.1)]
    have hstop : ∀ q : CPage, q = rrCPage start end_ sm em info.1 (pages.getD info.2 CPage.zero) →
        em ≤ info.1 →
        (pages.set info.2 q).length = pages.length ∧
        (∀ e ∈ info :: rest, (pages.set info.2 q).getD e.2 CPage.zero =
          rrCPage start end_ sm em e.1 (pages.getD e.2 CPage.zero)) ∧
        (∀ j, (∀ e ∈ info :: rest, e.2 ≠ j) →
          (pages.set info.2 q).getD j CPage.zero = pages.getD j CPage.zero) := by
      intro q hq hem
      refine ⟨List.length_set, ?_, ?_⟩
      · intro e he
        simp only [List.mem_cons] at he
        rcases he with rfl | he
        · rw [cv_getD_set, if_pos ⟨rfl, hlt0⟩, hq]
        · rw [cv_getD_set, if_neg (fun hc => hi e he hc.1.symm)]
          have h1 := hk e he
          have h2 := hge e (by simp [he])
          unfold rrCPage
          rw [if_neg (by omega), if_pos (by omega)]
      · intro j hj
        rw [cv_getD_set, if_neg (fun hc => hj info (by simp) hc.1)]
    unfold rrLoopL
    rw [if_pos hlt0]
    by_cases h1 : info.1 > em
    · rw [if_pos h1]
      refine ⟨rfl, ?_, fun _ _ => rfl⟩
      intro e he
      have h2 : e.1 > em := by
        simp only [List.mem_cons] at he
        rcases he with rfl | he
        · exact h1
        · have := hk e he; omega
      have h3 := hge e he
      unfold rrCPage
      rw [if_neg (by omega), if_pos h2]
    · rw [if_neg h1]
      by_cases h2 : info.1 = sm
      · rw [if_pos h2]
        apply hcont
        unfold rrCPage
        rw [if_neg (by omega), if_neg h1, if_pos h2]
      · rw [if_neg h2]
        by_cases h3 : info.1 = em
        · rw [if_pos h3]
          apply hstop _ _ (by omega)
          unfold rrCPage
          rw [if_neg (by omega), if_neg h1, if_neg h2, if_pos h3]
        · rw [if_neg h3]
          apply hcont
          unfold rrCPage
          rw [if_neg (by omega), if_neg h1, if_neg h2, if_neg h3]

/-- the concrete `remove_range` loop, seen through the map -/
theorem removeRange_pages (s : CBitSet) (a b : Nat) (hab : a ≤ b) (h : CInvS s.pageMap s.pages) :
    CInvS s.pageMap (cRemoveRangeLoop a b (majorOf a) (majorOf b) s.pageMap s.pageMap.length
        (searchMap s.pageMap (majorOf a)).2 s.pages) ∧
    aview s.pageMap (cRemoveRangeLoop a b (majorOf a) (majorOf b) s.pageMap s.pageMap.length
        (searchMap s.pageMap (majorOf a)).2 s.pages) =
      removeRangeLoop a b (majorOf a) (majorOf b) (aview s.pageMap s.pages) := by
  have hmaj : majorOf a ≤ majorOf b := by unfold majorOf; omega
  obtain ⟨s1, _, s3, s4, _, _⟩ := searchMap_spec s.pageMap h.sorted (majorOf a)
  generalize (searchMap s.pageMap (majorOf a)).2 = i at s1 s3 s4
  rw [cRemoveRangeLoop_eq _ _ _ _ _ _ _ _ (by omega)]
  have hsplit : s.pageMap.take i ++ s.pageMap.drop i = s.pageMap := List.take_append_drop i s.pageMap
  have hsorted := h.sorted
  have hnodup := h.idxNodup
  rw [← hsplit, List.map_append] at hsorted hnodup
  have hsd := (List.pairwise_append.1 hsorted).2.1
  rw [List.nodup_append] at hnodup
  obtain ⟨_, hnd, hdisj⟩ := hnodup
  have hltd : ∀ e ∈ s.pageMap.drop i, e.2 < s.pages.length :=
    fun e he => h.idxLt e (List.mem_of_mem_drop he)
  obtain ⟨r1, r2, r3⟩ := rrLoopL_spec a b (majorOf a) (majorOf b) hmaj (s.pageMap.drop i) s.pages
    hsd hnd s4 hltd
  have rok := rrLoopL_ok a b (majorOf a) (majorOf b) (s.pageMap.drop i) s.pages h.pagesOk
  generalize rrLoopL a b (majorOf a) (majorOf b) (s.pageMap.drop i) s.pages = pages' at r1 r2 r3 rok
  refine ⟨⟨by rw [r1]; exact h.lenEq, h.sorted, h.idxNodup, fun e he => by rw [r1]; exact h.idxLt e he,
    rok⟩, ?_⟩
  rw [removeRangeLoop_eq_map a b _ _ hmaj _ (aview_inv _ _ h).1]
  unfold aview
  rw [List.map_map]
  apply List.map_congr_left
  intro e he
  simp only [Function.comp]
  congr 1
  have hpe : CPageOk (s.pages.getD e.2 CPage.zero) := h.pagesOk _ (cv_getD_mem _ _ _ (h.idxLt e he))
  rw [← hsplit, List.mem_append] at he
  rcases he with he | he
  · have hk := s3 e he
    rw [r3 e.2 (fun e' he' hc => hdisj e.2 (List.mem_map.2 ⟨e, he, rfl⟩) e'.2
      (List.mem_map.2 ⟨e', he', rfl⟩) hc.symm)]
    unfold rrPage
    rw [if_pos hk]
  · rw [r2 e he]
    exact rrCPage_abs a b hab e.1 _ hpe

theorem CBitSet.removeRange_abs (s : CBitSet) (a b : Nat) (h : CInv s) :
    (s.removeRange a b).abs = s.abs.removeRange a b := by
  unfold CBitSet.removeRange BitSet.removeRange
  split
  · rfl
  · rename_i hle
    obtain ⟨p1, p2⟩ := removeRange_pages s a b (by omega) h.toS
    simp only []
    rw [CBitSet.abs_eq, CBitSet.abs_eq s]
    simp only []
    rw [← p2, sumLens_aview _ _ p1]

theorem CBitSet.removeRange_inv (s : CBitSet) (a b : Nat) (h : CInv s) : CInv (s.removeRange a b) := by
  apply cInv_of_struct
  · unfold CBitSet.removeRange
    split
    · exact h.toS
    · rename_i hle
      exact (removeRange_pages s a b (by omega) h.toS).1
  · rw [CBitSet.removeRange_abs s a b h]
    exact (BitSet.removeRange_spec _ a b (CBitSet.abs_inv s h)).1

/-! ### `extend` / `extend_unsorted` / `remove_all` -/

/-- the same pages and map with another cached `length` -/
def CBitSet.withLen (s : CBitSet) (L : Nat) : CBitSet := ⟨s.pages, s.pageMap, L⟩

theorem ensure_withLen (s : CBitSet) (L m : Nat) :
    (s.withLen L).ensurePageIndexForMajor m =
      ((s.ensurePageIndexForMajor m).1.withLen L, (s.ensurePageIndexForMajor m).2) := by
  unfold CBitSet.ensurePageIndexForMajor CBitSet.withLen
  simp only []
  split <;> rfl

theorem ensure_len (s : CBitSet) (m : Nat) : (s.ensurePageIndexForMajor m).1.len = s.len := by
  unfold CBitSet.ensurePageIndexForMajor
  simp only []
  split <;> rfl

theorem pageIndexForMajor_congr (s t : CBitSet) (m : Nat) (h : s.pageMap = t.pageMap) :
    s.pageIndexForMajor m = t.pageIndexForMajor m := by
  unfold CBitSet.pageIndexForMajor
  rw [h]

theorem majorOf_ne_max {v : Nat} (hv : v < 2 ^ 32) : majorOf v ≠ U32_MAX := by
  unfold majorOf U32_MAX; omega

/-! #### folds of `insert` / `remove` -/

theorem foldInsert_spec (vs : List Nat) (s : CBitSet) (h : CInv s) :
    CInv (vs.foldl (fun acc v => (acc.insert v).1) s) ∧
    (vs.foldl (fun acc v => (acc.insert v).1) s).abs = s.abs.extend vs := by
  induction vs generalizing s with
  | nil => exact ⟨h, rfl⟩
  | cons v vs ih =>
    obtain ⟨i1, i2⟩ := ih _ (CBitSet.insert_inv s v h)
    simp only [List.foldl_cons]
    refine ⟨i1, ?_⟩
    rw [i2, (CBitSet.insert_abs s v h).1, BitSet.extend_cons]

theorem foldRemove_spec (vs : List Nat) (s : CBitSet) (h : CInv s) :
    CInv (vs.foldl (fun acc v => (acc.remove v).1) s) ∧
    (vs.foldl (fun acc v => (acc.remove v).1) s).abs = s.abs.removeAll vs := by
  induction vs generalizing s with
  | nil => exact ⟨h, rfl⟩
  | cons v vs ih =>
    obtain ⟨i1, i2⟩ := ih _ (CBitSet.remove_inv s v h)
    simp only [List.foldl_cons]
    refine ⟨i1, ?_⟩
    rw [i2, (CBitSet.remove_abs s v h).1, BitSet.removeAll_cons]

/-! #### `extend_unsorted`: the `is_new` flags are summed and added at the end -/

/-- the loop body of `extend_unsorted` -/
def euStep (st : CBitSet × Nat) (v : Nat) : CBitSet × Nat :=
  let e := st.1.ensurePageIndexForMajor (majorOf v)
  let q := (e.1.pages.getD e.2 CPage.zero).insert v
  (⟨e.1.pages.set e.2 q.1, e.1.pageMap, e.1.len⟩, st.2 + (if q.2 then 1 else 0))

theorem euStep_eq (st : CBitSet × Nat) (v : Nat) :
    (euStep st v).1.withLen ((euStep st v).1.len + (euStep st v).2) =
      ((st.1.withLen (st.1.len + st.2)).insert v).1 := by
  unfold euStep CBitSet.insert
  simp only []
  rw [ensure_withLen]
  simp only [CBitSet.withLen, ensure_len, Nat.add_assoc]
  rfl

theorem extendUnsorted_fold (vs : List Nat) (st : CBitSet × Nat) :
    (vs.foldl euStep st).1.withLen ((vs.foldl euStep st).1.len + (vs.foldl euStep st).2) =
      vs.foldl (fun acc v => (acc.insert v).1) (st.1.withLen (st.1.len + st.2)) := by
  induction vs generalizing st with
  | nil => rfl
  | cons v vs ih =>
    simp only [List.foldl_cons]
    rw [ih, euStep_eq]

/-- `extend_unsorted` = inserting the values one by one -/
theorem CBitSet.extendUnsorted_eq (s : CBitSet) (vs : List Nat) :
    s.extendUnsorted vs = vs.foldl (fun acc v => (acc.insert v).1) s := by
  have := extendUnsorted_fold vs (s, 0)
  exact this

theorem CBitSet.extendUnsorted_inv (s : CBitSet) (vs : List Nat) (h : CInv s) :
    CInv (s.extendUnsorted vs) := by
  rw [CBitSet.extendUnsorted_eq]; exact (foldInsert_spec vs s h).1

theorem CBitSet.extendUnsorted_abs (s : CBitSet) (vs : List Nat) (h : CInv s) :
    (s.extendUnsorted vs).abs = s.abs.extend vs := by
  rw [CBitSet.extendUnsorted_eq]; exact (foldInsert_spec vs s h).2

/-! #### `BitSetBuilder`: the cached page index -/

/-- a map entry is what `ensure_page_index_for_major` finds (without changing the set) -/
theorem ensure_of_mem (s : CBitSet) (h : CInvS s.pageMap s.pages) {M idx : Nat}
    (hm : (M, idx) ∈ s.pageMap) : s.ensurePageIndexForMajor M = (s, idx) := by
  obtain ⟨_, _, _, _, s5, s6⟩ := searchMap_spec s.pageMap h.sorted M
  unfold CBitSet.ensurePageIndexForMajor
  simp only []
  cases hr : (searchMap s.pageMap M).1
  · exact absurd rfl (s6 hr _ hm)
  · simp only [if_true]
    obtain ⟨j1, j2⟩ := s5 hr
    have := (map_entry_unique h.sorted h.idxNodup hm _ (getD_mem_of_lt j1)).2 j2
    rw [this]

/-- the cache of `BitSetBuilder` is valid: it is still the sentinel, or the cached index is
exactly what `ensure_page_index_for_major(last_major_value)` returns on the current set (and
that call would not change the set) -/
def CBuilder.CacheOk (b : CBuilder) : Prop :=
  b.lastMajorValue = U32_MAX ∨
    b.set.ensurePageIndexForMajor b.lastMajorValue = (b.set, b.lastPageIndex)

theorem CBuilder.insert_spec (b : CBuilder) (v : Nat) (h : CInv b.set) (hc : b.CacheOk)
    (hv : majorOf v ≠ U32_MAX) :
    (b.insert v).set = (b.set.insert v).1 ∧ (b.insert v).CacheOk := by
  have hinv := CBitSet.insert_inv b.set v h
  obtain ⟨e1, e2, e3, e4⟩ := CBitSet.ensure_spec b.set (majorOf v) h
  -- in both cases the index used is the one `ensure_page_index_for_major` returns
  have key : ∀ b1 : CBuilder, b1.set = (b.set.ensurePageIndexForMajor (majorOf v)).1 →
      b1.lastPageIndex = (b.set.ensurePageIndexForMajor (majorOf v)).2 →
      b1.lastMajorValue = majorOf v →
      (if b1.lastPageIndex < b1.set.pages.length then
        (⟨⟨b1.set.pages.set b1.lastPageIndex ((b1.set.pages.getD b1.lastPageIndex CPage.zero).insert v).1,
            b1.set.pageMap,
            b1.set.len + (if ((b1.set.pages.getD b1.lastPageIndex CPage.zero).insert v).2 then 1 else 0)⟩,
          b1.lastPageIndex, b1.lastMajorValue⟩ : CBuilder)
       else b1).set = (b.set.insert v).1 ∧
      (if b1.lastPageIndex < b1.set.pages.length then
        (⟨⟨b1.set.pages.set b1.lastPageIndex ((b1.set.pages.getD b1.lastPageIndex CPage.zero).insert v).1,
            b1.set.pageMap,
            b1.set.len + (if ((b1.set.pages.getD b1.lastPageIndex CPage.zero).insert v).2 then 1 else 0)⟩,
          b1.lastPageIndex, b1.lastMajorValue⟩ : CBuilder)
       else b1).CacheOk := by
    intro b1 h1 h2 h3
    rw [h1, h2, if_pos e3]
    refine ⟨rfl, Or.inr ?_⟩
    simp only []
    rw [h3]
    exact ensure_of_mem (b.set.insert v).1 hinv.toS e4
  unfold CBuilder.insert
  simp only []
  by_cases hm : majorOf v ≠ b.lastMajorValue
  · rw [if_pos hm]
    exact key _ rfl rfl rfl
  · rw [if_neg hm]
    have hm' : majorOf v = b.lastMajorValue := Classical.not_not.1 hm
    rcases hc with hc | hc
    · exact absurd (hm'.trans hc) hv
    · rw [← hm'] at hc
      exact key b (by rw [hc]) (by rw [hc]) hm'.symm

theorem builder_fold (vs : List Nat) (b : CBuilder) (h : CInv b.set) (hc : b.CacheOk)
    (hv : ∀ v ∈ vs, v < 2 ^ 32) :
    (vs.foldl CBuilder.insert b).CacheOk ∧
    (vs.foldl CBuilder.insert b).set = vs.foldl (fun acc v => (acc.insert v).1) b.set := by
  induction vs generalizing b with
  | nil => exact ⟨hc, rfl⟩
  | cons v vs ih =>
    obtain ⟨s1, s2⟩ := CBuilder.insert_spec b v h hc (majorOf_ne_max (hv v (by simp)))
    simp only [List.foldl_cons]
    have := ih (b.insert v) (by rw [s1]; exact CBitSet.insert_inv _ v h) s2
      (fun w hw => hv w (by simp [hw]))
    rw [s1] at this
    exact this

/-- `impl Extend<u32> for BitSet` (through `BitSetBuilder`) = inserting the values one by one -/
theorem CBitSet.extend_eq (s : CBitSet) (vs : List Nat) (h : CInv s) (hv : ∀ v ∈ vs, v < 2 ^ 32) :
    s.extend vs = vs.foldl (fun acc v => (acc.insert v).1) s :=
  (builder_fold vs (CBuilder.start s) h (Or.inl rfl) hv).2

theorem CBitSet.extend_inv (s : CBitSet) (vs : List Nat) (h : CInv s) (hv : ∀ v ∈ vs, v < 2 ^ 32) :
    CInv (s.extend vs) := by
  rw [CBitSet.extend_eq s vs h hv]; exact (foldInsert_spec vs s h).1

theorem CBitSet.extend_abs (s : CBitSet) (vs : List Nat) (h : CInv s) (hv : ∀ v ∈ vs, v < 2 ^ 32) :
    (s.extend vs).abs = s.abs.extend vs := by
  rw [CBitSet.extend_eq s vs h hv]; exact (foldInsert_spec vs s h).2

/-! #### `remove_all`: the cached page index and the deferred `length` update -/

/-- the cache of `remove_all` is valid: still the sentinel, or the cached `Option` index is what
`page_index_for_major(last_major_value)` returns on the current set -/
def CRemoveAll.CacheOk (st : CRemoveAll) : Prop :=
  st.lastMajorValue = U32_MAX ∨ st.lastPageIndex = st.set.pageIndexForMajor st.lastMajorValue

/-- the set `remove_all` would return if the loop stopped here -/
def CRemoveAll.result (st : CRemoveAll) : CBitSet := st.set.withLen (st.set.len - st.totalRemoved)

theorem CRemoveAll.step_spec (st : CRemoveAll) (v : Nat) (hc : st.CacheOk) (hv : majorOf v ≠ U32_MAX) :
    (st.step v).CacheOk ∧ (st.step v).result = (st.result.remove v).1 := by
  -- in both cases the index used is `page_index_for_major(major)` on the current set
  have key : ∀ st1 : CRemoveAll, st1.set = st.set → st1.totalRemoved = st.totalRemoved →
      st1.lastMajorValue = majorOf v → st1.lastPageIndex = st.set.pageIndexForMajor (majorOf v) →
      (match st1.lastPageIndex with
        | none => st1
        | some idx =>
          if idx < st1.set.pages.length then
            { st1 with set := ⟨st1.set.pages.set idx ((st1.set.pages.getD idx CPage.zero).remove v).1,
                               st1.set.pageMap, st1.set.len⟩,
                       totalRemoved := st1.totalRemoved +
                         (if ((st1.set.pages.getD idx CPage.zero).remove v).2 then 1 else 0) }
          else st1).CacheOk ∧
      (match st1.lastPageIndex with
        | none => st1
        | some idx =>
          if idx < st1.set.pages.length then
            { st1 with set := ⟨st1.set.pages.set idx ((st1.set.pages.getD idx CPage.zero).remove v).1,
                               st1.set.pageMap, st1.set.len⟩,
                       totalRemoved := st1.totalRemoved +
                         (if ((st1.set.pages.getD idx CPage.zero).remove v).2 then 1 else 0) }
          else st1).result = (st.result.remove v).1 := by
    intro st1 h1 h2 h3 h4
    have hpi : st.result.pageIndexForMajor (majorOf v) = st.set.pageIndexForMajor (majorOf v) := rfl
    unfold CBitSet.remove
    rw [hpi, h4]
    cases hi : st.set.pageIndexForMajor (majorOf v) with
    | none =>
      simp only []
      refine ⟨Or.inr (by rw [h4, h3, h1, hi]), ?_⟩
      simp only [CRemoveAll.result, h1, h2]
    | some idx =>
      simp only []
      rw [h1]
      by_cases hlt : idx < st.set.pages.length
      · have hlt' : idx < st.result.pages.length := hlt
        rw [if_pos hlt, if_pos hlt']
        refine ⟨Or.inr ?_, ?_⟩
        · simp only []
          rw [h3]
          exact ((pageIndexForMajor_congr _ _ _ rfl).trans hi).symm
        · simp only [CRemoveAll.result, CBitSet.withLen, h2, Nat.sub_sub]
          rfl
      · have hlt' : ¬ idx < st.result.pages.length := hlt
        rw [if_neg hlt, if_neg hlt']
        refine ⟨Or.inr (by rw [h4, h3, h1, hi]), ?_⟩
        simp only [CRemoveAll.result, h1, h2]
  unfold CRemoveAll.step
  simp only []
  by_cases hm : majorOf v ≠ st.lastMajorValue
  · rw [if_pos hm]
    exact key _ rfl rfl rfl rfl
  · rw [if_neg hm]
    have hm' : majorOf v = st.lastMajorValue := Classical.not_not.1 hm
    rcases hc with hc | hc
    · exact absurd (hm'.trans hc) hv
    · exact key st rfl rfl hm'.symm (by rw [hc, hm'])

theorem removeAll_fold (vs : List Nat) (st : CRemoveAll) (hc : st.CacheOk) (hv : ∀ v ∈ vs, v < 2 ^ 32) :
    (vs.foldl CRemoveAll.step st).CacheOk ∧
    (vs.foldl CRemoveAll.step st).result = vs.foldl (fun acc v => (acc.remove v).1) st.result := by
  induction vs generalizing st with
  | nil => exact ⟨hc, rfl⟩
  | cons v vs ih =>
    obtain ⟨s1, s2⟩ := CRemoveAll.step_spec st v hc (majorOf_ne_max (hv v (by simp)))
    simp only [List.foldl_cons]
    have := ih (st.step v) s1 (fun w hw => hv w (by simp [hw]))
    rw [s2] at this
    exact this

/-- `remove_all` = removing the values one by one -/
theorem CBitSet.removeAll_eq (s : CBitSet) (vs : List Nat) (hv : ∀ v ∈ vs, v < 2 ^ 32) :
    s.removeAll vs = vs.foldl (fun acc v => (acc.remove v).1) s :=
  (removeAll_fold vs ⟨s, none, U32_MAX, 0⟩ (Or.inl rfl) hv).2

theorem CBitSet.removeAll_inv (s : CBitSet) (vs : List Nat) (h : CInv s) (hv : ∀ v ∈ vs, v < 2 ^ 32) :
    CInv (s.removeAll vs) := by
  rw [CBitSet.removeAll_eq s vs hv]; exact (foldRemove_spec vs s h).1

theorem CBitSet.removeAll_abs (s : CBitSet) (vs : List Nat) (h : CInv s) (hv : ∀ v ∈ vs, v < 2 ^ 32) :
    (s.removeAll vs).abs = s.abs.removeAll vs := by
  rw [CBitSet.removeAll_eq s vs hv]; exact (foldRemove_spec vs s h).2

/-- The two page-index caches are transparent.  `BitSetBuilder` (`impl Extend`): along the fold
the cached `last_page_index` is always what `ensure_page_index_for_major(last_major_value)`
returns on the current set, so the builder's set is the fold of `insert`.  `remove_all`: the
cached `Option` index is always `page_index_for_major(last_major_value)` on the current set, so
the result (with the deferred `length -= total_removed`) is the fold of `remove`. -/
theorem page_index_cache_transparent :
    (∀ (s : CBitSet) (vs : List Nat), CInv s → (∀ v ∈ vs, v < 2 ^ 32) →
      (vs.foldl CBuilder.insert (CBuilder.start s)).CacheOk ∧
      s.extend vs = vs.foldl (fun acc v => (acc.insert v).1) s) ∧
    (∀ (s : CBitSet) (vs : List Nat), (∀ v ∈ vs, v < 2 ^ 32) →
      (vs.foldl CRemoveAll.step ⟨s, none, U32_MAX, 0⟩).CacheOk ∧
      s.removeAll vs = vs.foldl (fun acc v => (acc.remove v).1) s) :=
  ⟨fun s vs h hv => builder_fold vs (CBuilder.start s) h (Or.inl rfl) hv,
   fun s vs hv => removeAll_fold vs ⟨s, none, U32_MAX, 0⟩ (Or.inl rfl) hv⟩

end FontVerif.IntSet
