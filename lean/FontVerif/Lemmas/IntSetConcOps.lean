/- C14 / concrete BitSet: every mutator / observer of bitset.rs on the concrete layout
(`pages` in creation order + sorted `page_map`, Model/BitSetConc.lean) commutes with the
abstraction function `CBitSet.abs` and keeps the representation invariant `CInv`.
The two page-index caches (`BitSetBuilder`, `remove_all`) are transparent. -/
import FontVerif.Lemmas.IntSetPageConc
set_option linter.unusedVariables false
set_option linter.unusedSimpArgs false
namespace FontVerif.IntSet

/-! ### lists -/

theorem cv_getD_set {α : Type} (l : List α) (i j : Nat) (a d : α) :
    (l.set i a).getD j d = if i = j ∧ i < l.length then a else l.getD j d := by
  simp only [List.getD_eq_getElem?_getD, List.getElem?_set]
  by_cases h1 : i = j
  · by_cases h2 : i < l.length
    · subst h1; simp [h2]
    · subst h1
      have : l[i]? = none := List.getElem?_eq_none (by omega)
      simp [h2, this]
  · simp [h1]

theorem cv_getD_mem {α : Type} (l : List α) (i : Nat) (d : α) (h : i < l.length) : l.getD i d ∈ l := by
  rw [List.getD_eq_getElem?_getD, List.getElem?_eq_getElem h]
  exact List.getElem_mem h

theorem cv_getD_append_zero (pages : List CPage) (i : Nat) :
    (pages ++ [CPage.zero]).getD i CPage.zero = pages.getD i CPage.zero := by
  simp only [List.getD_eq_getElem?_getD]
  by_cases h : i < pages.length
  · rw [List.getElem?_append_left h]
  · rw [List.getElem?_append_right (by omega), List.getElem?_eq_none (l := pages) (by omega)]
    cases hi : i - pages.length with
    | zero => rfl
    | succ k => rfl

theorem insertAt_perm {α : Type} (l : List α) (i : Nat) (x : α) : (insertAt l i x).Perm (x :: l) := by
  unfold insertAt
  have := @List.perm_middle α x (l.take i) (l.drop i)
  rw [List.take_append_drop] at this
  exact this

theorem insertAt_map {α β : Type} (f : α → β) (l : List α) (i : Nat) (x : α) :
    (insertAt l i x).map f = insertAt (l.map f) i (f x) := by
  simp [insertAt, List.map_take, List.map_drop]

/-- pigeonhole: a duplicate-free list of naturals below `n` has at most `n` entries -/
theorem nodup_lt_length_le (n : Nat) (l : List Nat) (hn : l.Nodup) (hlt : ∀ i ∈ l, i < n) :
    l.length ≤ n := by
  induction n generalizing l with
  | zero =>
    cases l with
    | nil => simp
    | cons a l => exact absurd (hlt a (by simp)) (by omega)
  | succ n ih =>
    by_cases hmem : n ∈ l
    · have hp := List.perm_cons_erase hmem
      have hnd := hp.nodup hn
      rw [List.nodup_cons] at hnd
      have := ih (l.erase n) hnd.2 (fun i hi => by
        have h1 := hlt i (List.mem_of_mem_erase hi)
        have h2 : i ≠ n := fun h => hnd.1 (h ▸ hi)
        omega)
      have hl := hp.length_eq
      simp only [List.length_cons] at hl
      omega
    · have := ih l hn (fun i hi => by
        have h1 := hlt i hi
        have h2 : i ≠ n := fun h => hmem (h ▸ hi)
        omega)
      omega

/-- a duplicate-free list of `n` naturals below `n` is a permutation of `0..n` -/
theorem nodup_perm_range (n : Nat) (l : List Nat) (hn : l.Nodup) (hlt : ∀ i ∈ l, i < n)
    (hlen : l.length = n) : l.Perm (List.range n) := by
  induction n generalizing l with
  | zero =>
    cases l with
    | nil => exact List.Perm.refl _
    | cons a l => simp at hlen
  | succ n ih =>
    have hmem : n ∈ l := by
      apply Classical.byContradiction
      intro hmem
      have := nodup_lt_length_le n l hn (fun i hi => by
        have h1 := hlt i hi
        have h2 : i ≠ n := fun h => hmem (h ▸ hi)
        omega)
      omega
    have hp := List.perm_cons_erase hmem
    have hnd := hp.nodup hn
    rw [List.nodup_cons] at hnd
    have hl := hp.length_eq
    simp only [List.length_cons] at hl
    have h1 := ih (l.erase n) hnd.2 (fun i hi => by
      have h1 := hlt i (List.mem_of_mem_erase hi)
      have h2 : i ≠ n := fun h => hnd.1 (h ▸ hi)
      omega) (by omega)
    rw [List.range_succ]
    refine hp.trans ?_
    refine (List.Perm.cons n h1).trans ?_
    exact (List.perm_append_singleton n (List.range n)).symm

/-! ### the view of the pages through the map -/

/-- the abstract pages: `(major, packed page)` in map order -/
def aview (pm : PMap) (pages : List CPage) : Pages :=
  pm.map (fun e => (e.1, (pages.getD e.2 CPage.zero).abs))

theorem CBitSet.abs_eq (s : CBitSet) : s.abs = ⟨aview s.pageMap s.pages, s.len⟩ := by
  simp [CBitSet.abs, cview, aview, List.map_map, Function.comp_def]

theorem aview_keys (pm : PMap) (pages : List CPage) : (aview pm pages).map (·.1) = pm.map (·.1) := by
  simp [aview, List.map_map, Function.comp_def]

theorem aview_append_zero (pm : PMap) (pages : List CPage) :
    aview pm (pages ++ [CPage.zero]) = aview pm pages := by
  unfold aview
  apply List.map_congr_left
  intro e he
  rw [cv_getD_append_zero]

/-- the structural part of `CInv` (everything but the cached `length`): what the loops of
`insert_range` / `extend_unsorted` / `remove_all` maintain while `length` is stale -/
structure CInvS (pm : PMap) (pages : List CPage) : Prop where
  lenEq : pm.length = pages.length
  sorted : (pm.map (·.1)).Pairwise (· < ·)
  idxNodup : (pm.map (·.2)).Nodup
  idxLt : ∀ e ∈ pm, e.2 < pages.length
  pagesOk : ∀ p ∈ pages, CPageOk p

theorem CInv.toS {s : CBitSet} (h : CInv s) : CInvS s.pageMap s.pages :=
  ⟨h.lenEq, h.sorted, h.idxNodup, h.idxLt, h.pagesOk⟩

theorem cSumLens_acc (pages : List CPage) (a : Nat) :
    pages.foldl (fun acc p => acc + p.len) a = a + cSumLens pages := by
  unfold cSumLens
  induction pages generalizing a with
  | nil => simp
  | cons p ps ih =>
    simp only [List.foldl_cons]
    rw [ih, ih (0 + p.len)]
    omega

theorem map_getD_range (pages : List CPage) :
    (List.range pages.length).map (fun i => pages.getD i CPage.zero) = pages := by
  apply List.ext_getElem
  · simp
  · intro i h1 h2
    simp [List.getD_eq_getElem?_getD, List.getElem?_eq_getElem h2]

/-- `recompute_length` sums over the `pages` vector, the abstract `sumLens` through the map: equal
because the map indices are a bijection onto `0..pages.len()` -/
theorem sumLens_aview (pm : PMap) (pages : List CPage) (h : CInvS pm pages) :
    sumLens (aview pm pages) = cSumLens pages := by
  have hperm := nodup_perm_range pages.length (pm.map (·.2)) h.idxNodup
    (fun i hi => by
      simp only [List.mem_map] at hi
      obtain ⟨e, he, rfl⟩ := hi
      exact h.idxLt e he)
    (by rw [List.length_map]; exact h.lenEq)
  have h1 : sumLens (aview pm pages) =
      (pm.map (·.2)).foldl (fun acc i => acc + (pages.getD i CPage.zero).len) 0 := by
    unfold sumLens aview
    rw [List.foldl_map, List.foldl_map]
    rfl
  have h2 : cSumLens pages =
      (List.range pages.length).foldl (fun acc i => acc + (pages.getD i CPage.zero).len) 0 := by
    conv => lhs; rw [← map_getD_range pages]
    unfold cSumLens
    rw [List.foldl_map]
  rw [h1, h2]
  apply List.Perm.foldl_eq' hperm
  intro x _ y _ z
  omega

theorem aview_inv (pm : PMap) (pages : List CPage) (h : CInvS pm pages) : PagesInv (aview pm pages) := by
  refine ⟨?_, ?_⟩
  · rw [sorted_iff_keys, aview_keys]; exact h.sorted
  · intro kp hkp
    simp only [aview, List.mem_map] at hkp
    obtain ⟨e, he, rfl⟩ := hkp
    exact CPage.abs_ok _ (h.pagesOk _ (cv_getD_mem _ _ _ (h.idxLt e he)))

theorem CBitSet.abs_inv (s : CBitSet) (h : CInv s) : BInv s.abs := by
  rw [CBitSet.abs_eq]
  refine ⟨aview_inv _ _ h.toS, ?_⟩
  show s.len = sumLens (aview s.pageMap s.pages)
  rw [sumLens_aview _ _ h.toS]
  exact h.len

/-- a structurally well-formed concrete set whose abstraction satisfies `BInv` satisfies `CInv` -/
theorem cInv_of_struct {s : CBitSet} (hs : CInvS s.pageMap s.pages) (hb : BInv s.abs) : CInv s := by
  refine ⟨hs.lenEq, hs.sorted, hs.idxNodup, hs.idxLt, hs.pagesOk, ?_⟩
  have := hb.2
  rw [CBitSet.abs_eq] at this
  rw [← sumLens_aview _ _ hs]
  exact this

theorem cInv_empty : CInv CBitSet.empty := by
  refine ⟨rfl, ?_, ?_, ?_, ?_, rfl⟩ <;> simp [CBitSet.empty]

theorem CBitSet.abs_empty : CBitSet.empty.abs = BitSet.empty := rfl

end FontVerif.IntSet
