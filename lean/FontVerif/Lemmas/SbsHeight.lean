/-
Sparse-bit-set codec: `tree_height_for` characterisation, header byte round trip.
-/
import FontVerif.Lemmas.SbsStream
set_option linter.unusedVariables false
namespace FontVerif.SparseBitSet

theorem two_pow_log2Bf {bf : Nat} (h : BfOk bf) : 2 ^ log2Bf bf = bf := by
  rcases h with h | h | h | h <;> subst h <;> decide

theorem bfOk_pos {bf : Nat} (h : BfOk bf) : 0 < bf := by
  rcases h with h | h | h | h <;> omega

theorem bfOk_two_le {bf : Nat} (h : BfOk bf) : 2 ≤ bf := by
  rcases h with h | h | h | h <;> omega

theorem bfOk_le_32 {bf : Nat} (h : BfOk bf) : bf ≤ 32 := by
  rcases h with h | h | h | h <;> omega

/-- the loop of `tree_height_for`: the result exceeds the running height by the least `k ≥ 1`
with `v < bf^k` -/
theorem treeHeightFor_go_spec {bf : Nat} (hbf : BfOk bf) :
    ∀ (fuel height v : Nat), 1 ≤ fuel → v < bf ^ fuel →
      height < treeHeightFor.go bf fuel height v ∧
      v < bf ^ (treeHeightFor.go bf fuel height v - height) ∧
      (0 < v → bf ^ (treeHeightFor.go bf fuel height v - height - 1) ≤ v)
  | 0, _, _, h, _ => by omega
  | fuel + 1, height, v, _, hv => by
    have hpos := bfOk_pos hbf
    simp only [treeHeightFor.go, two_pow_log2Bf hbf]
    split
    · rename_i h0
      have hlt : v < bf := by
        rcases Nat.lt_or_ge v bf with h | h
        · exact h
        · have := Nat.div_pos h hpos; omega
      refine ⟨by omega, ?_, ?_⟩
      · have : height + 1 - height = 1 := by omega
        rw [this, Nat.pow_one]; exact hlt
      · intro hv0
        have : height + 1 - height - 1 = 0 := by omega
        rw [this, Nat.pow_zero]; exact hv0
    · rename_i h0
      have hfuel : 1 ≤ fuel := by
        rcases Nat.eq_zero_or_pos fuel with h | h
        · subst h
          simp only [Nat.zero_add, Nat.pow_one] at hv
          have := Nat.div_eq_of_lt hv; omega
        · exact h
      have hv' : v / bf < bf ^ fuel := by
        rw [Nat.div_lt_iff_lt_mul hpos, ← Nat.pow_succ]; exact hv
      have ih := treeHeightFor_go_spec hbf fuel (height + 1) (v / bf) hfuel hv'
      generalize treeHeightFor.go bf fuel (height + 1) (v / bf) = r at ih
      obtain ⟨h1, h2, h3⟩ := ih
      refine ⟨by omega, ?_, ?_⟩
      · have e : r - height = (r - (height + 1)) + 1 := by omega
        rw [e, Nat.pow_succ, ← Nat.div_lt_iff_lt_mul hpos]; exact h2
      · intro _
        have e : r - height - 1 = (r - (height + 1) - 1) + 1 := by omega
        have := h3 (Nat.pos_of_ne_zero h0)
        rw [e, Nat.pow_succ]
        exact (Nat.le_div_iff_mul_le hpos).mp this

/-- `tree_height_for(max)`: at least 1, `max < bf^h`, and for `max > 0` also `bf^(h-1) ≤ max`
(the least height whose tree covers `max`), for every `max < bf^33` (in particular every `u32`) -/
theorem treeHeightFor_spec {bf : Nat} (hbf : BfOk bf) (maxValue : Nat) (hm : maxValue < bf ^ 33) :
    1 ≤ treeHeightFor bf maxValue ∧ maxValue < bf ^ treeHeightFor bf maxValue ∧
      (0 < maxValue → bf ^ (treeHeightFor bf maxValue - 1) ≤ maxValue) := by
  have := treeHeightFor_go_spec hbf 33 0 maxValue (by omega) hm
  simp only [Nat.sub_zero] at this
  exact ⟨this.1, this.2.1, this.2.2⟩

theorem u32_lt_pow33 {bf : Nat} (hbf : BfOk bf) {m : Nat} (hm : m ≤ U32_MAX) : m < bf ^ 33 := by
  have h1 : m < 2 ^ 33 := by simp only [U32_MAX] at hm; omega
  exact Nat.lt_of_lt_of_le h1 (Nat.pow_le_pow_left (bfOk_two_le hbf) 33)

/-- for branch factors 4, 8, 32 the height of any `u32` is within `max_height` -/
theorem treeHeightFor_le_maxHeight {bf : Nat} (hbf : bf = 4 ∨ bf = 8 ∨ bf = 32) {m : Nat}
    (hm : m ≤ U32_MAX) : treeHeightFor bf m ≤ maxHeight bf := by
  have hok : BfOk bf := by rcases hbf with h | h | h <;> simp [BfOk, h]
  have sp := treeHeightFor_spec hok m (u32_lt_pow33 hok hm)
  rcases Nat.eq_zero_or_pos m with h0 | h0
  · subst h0
    have : treeHeightFor bf 0 = 1 := by
      rcases hbf with h | h | h <;> subst h <;> decide
    rw [this]; rcases hbf with h | h | h <;> subst h <;> decide
  · have h3 := sp.2.2 h0
    have hlt : bf ^ (treeHeightFor bf m - 1) < bf ^ maxHeight bf := by
      refine Nat.lt_of_le_of_lt h3 (Nat.lt_of_le_of_lt hm ?_)
      rcases hbf with h | h | h <;> subst h <;> decide
    have := (Nat.pow_lt_pow_iff_right (bfOk_two_le hok)).mp hlt
    omega

/-! ### header byte -/

theorem bfOfBits_header {bf : Nat} (hbf : BfOk bf) (height : Nat) :
    bfOfBits ((height % 32) * 4 + bitId bf) = bf := by
  rcases hbf with h | h | h | h <;> subst h <;> simp only [bfOfBits, bitId] <;> simp <;> omega

theorem height_header {bf : Nat} (hbf : BfOk bf) (height : Nat) :
    ((height % 32) * 4 + bitId bf) / 4 % 32 = height % 32 := by
  rcases hbf with h | h | h | h <;> subst h <;> simp only [bitId] <;> simp <;> omega

theorem header_lt {bf : Nat} (hbf : BfOk bf) (height : Nat) :
    (height % 32) * 4 + bitId bf < 256 := by
  rcases hbf with h | h | h | h <;> subst h <;> simp only [bitId] <;> simp <;> omega

end FontVerif.SparseBitSet
