/-
Helper lemmas for C16 (lookup level): `split_subtables` as list surgery, first match over a
lookup whose subtables are replaced in place by their pieces.
-/
import FontVerif.Model.LayoutLookup
import FontVerif.Lemmas.LayoutBuilder
set_option linter.unusedVariables false
set_option linter.unusedSimpArgs false
namespace FontVerif.Layout

/-! ### the `HashMap` of `split_subtables` -/

theorem splitMapGet_insert (k : Nat) (v : List Nat) (m : List (Nat × List Nat)) (o : Nat) :
    splitMapGet (splitMapInsert k v m) o = if o = k then some v else splitMapGet m o := by
  induction m with
  | nil =>
    simp only [splitMapInsert, splitMapGet, List.find?_cons, List.find?_nil]
    by_cases h : o = k
    · subst h; simp
    · have : (k == o) = false := by simp; exact fun e => h e.symm
      simp [this, h]
  | cons e rest ih =>
    unfold splitMapInsert
    by_cases hek : e.1 = k
    · simp only [hek, ↓reduceIte]
      by_cases h : o = k
      · subst h; simp [splitMapGet, List.find?_cons]
      · have h1 : (k == o) = false := by simp; exact fun e => h e.symm
        have h2 : (e.1 == o) = false := by rw [hek]; exact h1
        simp [splitMapGet, List.find?_cons, h1, h2, h]
    · simp only [hek, ↓reduceIte]
      by_cases heo : e.1 = o
      · have : o ≠ k := fun h => hek (heo.trans h)
        simp [splitMapGet, List.find?_cons, heo, this]
      · have h2 : (e.1 == o) = false := by simp; exact heo
        have ih' := ih
        unfold splitMapGet at ih' ⊢
        simp only [List.find?_cons, h2]
        exact ih'

/-- every entry of the map was put there by one of the calls (or was there before) -/
theorem collectSplits_get (f : Nat → Nat → Option (List Nat)) :
    ∀ (os : List Nat) (i : Nat) (m : List (Nat × List Nat)) (o : Nat) (ps : List Nat),
      splitMapGet (collectSplits f i os m) o = some ps →
      splitMapGet m o = some ps ∨ ∃ j, f j o = some ps := by
  intro os
  induction os with
  | nil => intro i m o ps h; exact Or.inl h
  | cons x xs ih =>
    intro i m o ps h
    unfold collectSplits at h
    rcases ih (i + 1) _ o ps h with h' | h'
    · cases hf : f i x with
      | none => rw [hf] at h'; exact Or.inl h'
      | some s =>
        rw [hf] at h'
        simp only at h'
        rw [splitMapGet_insert] at h'
        by_cases hox : o = x
        · simp only [hox, ↓reduceIte, Option.some.injEq] at h'
          exact Or.inr ⟨i, by rw [hox, hf, h']⟩
        · simp only [hox, ↓reduceIte] at h'
          exact Or.inl h'
    · exact Or.inr h'

theorem replacement_nil (o : Nat) : replacement [] o = [o] := rfl

theorem flatMap_singleton' {α : Type} (l : List α) : l.flatMap (fun o => [o]) = l := by
  induction l with
  | nil => rfl
  | cons a l ih => simp [List.flatMap_cons, ih]

/-- in both branches the offsets written are the old offsets with every entry replaced by its
replacement, and the count field is their number -/
theorem splitSubtables_spec (lk : LookupG) (f : Nat → Nat → Option (List Nat)) (out : LookupOut)
    (h : splitSubtables lk f = some out) :
    out.offsets = lk.offsets.flatMap (replacement (collectSplits f 0 lk.offsets [])) ∧
    out.subtableCount = out.offsets.length ∧
    out.lookupType = lk.lookupType ∧ out.flag = lk.flag ∧
    out.markFilteringSet = lk.markFilteringSet := by
  unfold splitSubtables at h
  simp only at h
  by_cases hm : (collectSplits f 0 lk.offsets []).isEmpty = true
  · simp only [hm, ↓reduceIte, Option.some.injEq] at h
    subst h
    have : collectSplits f 0 lk.offsets [] = [] := List.isEmpty_iff.mp hm
    rw [this]
    refine ⟨?_, rfl, rfl, rfl, rfl⟩
    show lk.offsets = lk.offsets.flatMap (replacement [])
    have : replacement [] = fun o => [o] := funext replacement_nil
    rw [this, flatMap_singleton']
  · simp only [hm, Bool.false_eq_true, ↓reduceIte] at h
    split at h
    · cases h
    · simp only [Option.some.injEq] at h
      subst h
      refine ⟨rfl, ?_, rfl, rfl, rfl⟩
      simp only [List.length_flatMap]
      congr 1
      apply List.map_congr_left
      intro o _
      unfold replacement
      cases splitMapGet (collectSplits f 0 lk.offsets []) o <;> rfl

/-- first match over a list whose entries are replaced in place by semantically equal pieces -/
theorem findSome_flatMap_pieces {α R : Type} (look : α → Option R) (repl : α → List α)
    (l : List α) (h : ∀ o ∈ l, (repl o).findSome? look = look o) :
    (l.flatMap repl).findSome? look = l.findSome? look := by
  induction l with
  | nil => rfl
  | cons a l ih =>
    rw [List.flatMap_cons, List.findSome?_append, h a (List.mem_cons_self ..),
      ih (fun o ho => h o (List.mem_cons_of_mem _ ho)), List.findSome?_cons]
    cases look a <;> rfl

/-! ### typed lookups -/

/-- `Valid` for every (subtable, choice) pair, lists of equal length -/
def AllValid {S C : Type} (Valid : S → C → Prop) : List S → List C → Prop
  | [], [] => True
  | t :: ts, c :: cs => Valid t c ∧ AllValid Valid ts cs
  | _, _ => False

theorem splitLookupWith_preserves {S C Q R : Type} (splitOne : S → C → Option (List S))
    (look : S → Q → Option R) (Valid : S → C → Prop)
    (hOne : ∀ t c, Valid t c → ∃ ps, splitOne t c = some ps ∧
      ∀ q, ps.findSome? (fun p => look p q) = look t q) :
    ∀ (ts : List S) (cs : List C), AllValid Valid ts cs →
      ∃ ts', splitLookupWith splitOne ts cs = some ts' ∧
        ∀ q, ts'.findSome? (fun p => look p q) = ts.findSome? (fun p => look p q) := by
  intro ts
  induction ts with
  | nil =>
    intro cs hv
    cases cs with
    | nil => exact ⟨[], rfl, fun _ => rfl⟩
    | cons c cs => exact absurd hv (by simp [AllValid])
  | cons t ts ih =>
    intro cs hv
    cases cs with
    | nil => exact absurd hv (by simp [AllValid])
    | cons c cs =>
      obtain ⟨hv1, hv2⟩ := hv
      obtain ⟨ps, hps, hq⟩ := hOne t c hv1
      obtain ⟨rest, hrest, hr⟩ := ih cs hv2
      refine ⟨ps ++ rest, by simp [splitLookupWith, hps, hrest], fun q => ?_⟩
      rw [List.findSome?_append, hq q, hr q, List.findSome?_cons]
      cases look t q <;> rfl

end FontVerif.Layout
