/-
Invariant of the lazy metrics slot (Model/LazySlot.lean) under the protocol of
`UnscaledStyleMetricsSet::get`: the slot holds `None` or the final value, at every step of every schedule.
-/
import FontVerif.Model.LazySlot
namespace FontVerif.LazySlot

def ThreadGood (final : Nat) (t : Thread) : Prop :=
  (t.seen = none ∨ t.seen = some none ∨ t.seen = some (some final)) ∧
  (5 ≤ t.pc → t.mine = some final) ∧
  (t.ret = none ∨ t.ret = some (some final))

def Good (final : Nat) (s : Sys) : Prop :=
  (s.slot = none ∨ s.slot = some final) ∧ ∀ t ∈ s.threads, ThreadGood final t

theorem release_slot (s : Sys) (t : Thread) : (release s t).1.slot = s.slot ∧ (release s t).1.threads = s.threads ∧
    (release s t).2.seen = t.seen ∧ (release s t).2.mine = t.mine ∧ (release s t).2.ret = t.ret ∧
    (release s t).2.pc = t.pc := by
  simp [release]

theorem stepThread_good (final other : Nat) (s : Sys) (t : Thread) (hs : s.slot = none ∨ s.slot = some final)
    (ht : ThreadGood final t) :
    ((stepThread lazyGetModel final other s t).1.slot = none ∨ (stepThread lazyGetModel final other s t).1.slot = some final) ∧
    (stepThread lazyGetModel final other s t).1.threads = s.threads ∧
    ThreadGood final (stepThread lazyGetModel final other s t).2 := by
  obtain ⟨hseen, hmine, hret⟩ := ht
  unfold stepThread
  split
  · exact ⟨hs, rfl, hseen, hmine, hret⟩
  · have hpc : t.pc = 0 ∨ t.pc = 1 ∨ t.pc = 2 ∨ t.pc = 3 ∨ t.pc = 4 ∨ t.pc = 5 ∨ t.pc = 6 ∨ t.pc = 7 ∨ 8 ≤ t.pc := by omega
    rcases hpc with h | h | h | h | h | h | h | h | h
    · simp only [lazyGetModel, h, List.getElem?_cons_zero]
      split <;> simp_all [ThreadGood]
    · simp only [lazyGetModel, h, List.getElem?_cons_succ, List.getElem?_cons_zero]
      rcases hs with h1 | h1 <;> simp_all [ThreadGood]
    · simp only [lazyGetModel, h, List.getElem?_cons_succ, List.getElem?_cons_zero]
      rcases hseen with h1 | h1 | h1 <;> simp_all [ThreadGood, release]
    · simp only [lazyGetModel, h, List.getElem?_cons_succ, List.getElem?_cons_zero]
      simp_all [ThreadGood, release]
    · simp only [lazyGetModel, h, List.getElem?_cons_succ, List.getElem?_cons_zero]
      simp_all [ThreadGood]
    · simp only [lazyGetModel, h, List.getElem?_cons_succ, List.getElem?_cons_zero]
      have hm := hmine (by omega)
      split <;> simp_all [ThreadGood]
    · simp only [lazyGetModel, h, List.getElem?_cons_succ, List.getElem?_cons_zero]
      have hm := hmine (by omega)
      simp_all [ThreadGood]
    · simp only [lazyGetModel, h, List.getElem?_cons_succ, List.getElem?_cons_zero]
      have hm := hmine (by omega)
      simp_all [ThreadGood, release]
    · have : lazyGetModel[t.pc]? = none := by
        simp only [lazyGetModel]
        apply List.getElem?_eq_none
        simp; omega
      rw [this]
      exact ⟨hs, rfl, hseen, hmine, hret⟩

theorem step_good (final other : Nat) (s : Sys) (i : Nat) (h : Good final s) :
    Good final (step lazyGetModel final other s i) := by
  unfold step
  split
  · exact h
  · rename_i t ht
    have htm : t ∈ s.threads := List.mem_of_getElem? ht
    have := stepThread_good final other s t h.1 (h.2 t htm)
    refine ⟨this.1, ?_⟩
    intro u hu
    simp only [this.2.1] at hu
    rcases List.mem_or_eq_of_mem_set hu with hu | hu
    · exact h.2 u hu
    · rw [hu]; exact this.2.2

theorem run_good (final other : Nat) : ∀ (sched : List Nat) (s : Sys), Good final s →
    Good final (run lazyGetModel final other s sched)
  | [], _, h => h
  | i :: rest, s, h => run_good final other rest _ (step_good final other s i h)


end FontVerif.LazySlot
