/-
C10 — the stream structure of the written tuples, exported next to the reader's view
(the `_s` twins of `built_view` / `built_list` / `writeGlyphWith_roundtrip` / `writeGlyph_roundtrip`).
-/
import FontVerif.Lemmas.GvarData

namespace FontVerif.GvarData
open FontVerif FontVerif.PackedDeltas

/-- the raw tuple `r` read back carries exactly the writer's streams of the input tuple `t`: its point
number bytes (private, or the glyph's shared ones) start with the packed `t.best`, and its delta bytes
are `encodeDeltas` of the selected x deltas followed by the selected y deltas -/
def StreamOf (t : TupleIn) (r : RawTuple) (sd : Option (List Nat)) : Prop :=
  ∃ sq junk xs ys, ppnBytes t.best = some sq ∧ selectDeltas t.best t.deltas = some (xs, ys) ∧
    r.ptsAndDeltas sd = (sq ++ junk, encodeDeltas xs ++ encodeDeltas ys)

theorem built_view_s (ax : Nat) (shared : List (List Int)) (sidx : Option Nat)
    (sharedPts : Option PPN) (sd : Option (List Nat)) (t : TupleIn)
    (hbest : pickBest t.deltas = some t.best)
    (hlen : t.deltas.length ≤ 32767) (hd : ∀ d ∈ t.deltas, inI32 d.1 ∧ inI32 d.2.1)
    (hshared : ∀ i, sidx = some i → i < 4096 ∧ shared[i]? = some t.peak)
    (hsd : ∀ q, sharedPts = some q → ∃ sq junk, ppnBytes q = some sq ∧ sd = some (sq ++ junk))
    (hpk : t.peak.length = ax ∧ ∀ v ∈ t.peak, inI16 v)
    (hit : ∀ s e, t.inter = some (s, e) →
      s.length = ax ∧ e.length = ax ∧ (∀ v ∈ s, inI16 v) ∧ ∀ v ∈ e, inI16 v)
    (h : Header) (d : List Nat) (hb : buildTuple sidx sharedPts t = some (h, d)) :
    ∃ b : Built, b.h = h ∧ b.d = d ∧ b.Ok ax ∧ b.raw.view shared sd = t.view ∧ StreamOf t b.raw sd := by
  obtain ⟨pb, xs, ys, hsel, hpb, hdd, hok, hlow⟩ :=
    buildTuple_ok ax sidx sharedPts t (decide (some t.best ≠ sharedPts)) rfl
      (fun i hi => (hshared i hi).1) hpk hit h d hb
  have hpriv := hok.1.priv_bit
  have hemb := hok.1.emb_bit
  have hpriv' : (h.tupleIndex / 8192 % 2 = 1) ↔ decide (some t.best ≠ sharedPts) = true := hpriv
  have hemb' : (h.tupleIndex / 32768 % 2 = 1) ↔ (if sidx.isSome then none else some t.peak).isSome = true := hemb
  have k1 : (RawTuple.mk h.tupleIndex (if sidx.isSome then none else some t.peak) t.inter d).peakOf shared
      = t.peak := by
    simp only [RawTuple.peakOf]
    cases sidx with
    | none =>
      have : h.tupleIndex / 32768 % 2 = 1 := by simpa using hemb'
      simp [this]
    | some i =>
      obtain ⟨h1, h2⟩ := hlow i rfl
      have : ¬ (h.tupleIndex / 32768 % 2 = 1) := by omega
      simp [this, h1, (hshared i rfl).2]
  have k2 : (RawTuple.mk h.tupleIndex (if sidx.isSome then none else some t.peak) t.inter d).allPoints sd
        = t.best.isNone ∧
      (RawTuple.mk h.tupleIndex (if sidx.isSome then none else some t.peak) t.inter d).deltas sd
        = listed t.best.isNone t.deltas := by
    by_cases hp : some t.best = sharedPts
    · -- shared point numbers
      have hpf : decide (some t.best ≠ sharedPts) = false := by simp [hp]
      rw [hpf] at hpriv' hpb
      have hbit : ¬ (h.tupleIndex / 8192 % 2 = 1) := by simpa using hpriv'
      obtain ⟨sq, junk, hsq, hsd'⟩ := hsd t.best hp.symm
      simp only [Bool.false_eq_true, if_false, optPpnBytes, Option.some.injEq] at hpb
      subst hpb
      simp only [List.nil_append] at hdd
      obtain ⟨v1, v2, _⟩ := stream_view t.deltas t.best hbest hlen hd sq hsq junk xs ys hsel
      simp only [RawTuple.allPoints, RawTuple.deltas, RawTuple.ptsAndDeltas, hbit, if_false, hsd',
        Option.getD_some, hdd, v1, v2, and_self]
    · -- private point numbers
      have hpt : decide (some t.best ≠ sharedPts) = true := by simp [hp]
      rw [hpt] at hpriv' hpb
      have hbit : h.tupleIndex / 8192 % 2 = 1 := by simpa using hpriv'
      simp only [if_true, optPpnBytes] at hpb
      obtain ⟨v1, v2, v3⟩ := stream_view t.deltas t.best hbest hlen hd pb hpb
        (encodeDeltas xs ++ encodeDeltas ys) xs ys hsel
      have hdd' : d = pb ++ (encodeDeltas xs ++ encodeDeltas ys) := by rw [hdd]; simp
      simp only [RawTuple.allPoints, RawTuple.deltas, RawTuple.ptsAndDeltas, hbit, if_true, hdd',
        v1, v2, v3, and_self]
  have k3 : StreamOf t (Built.mk h d (if sidx.isSome then none else some t.peak) t.inter
      (decide (some t.best ≠ sharedPts))).raw sd := by
    by_cases hp : some t.best = sharedPts
    · have hpf : decide (some t.best ≠ sharedPts) = false := by simp [hp]
      rw [hpf] at hpriv' hpb
      have hbit : ¬ (h.tupleIndex / 8192 % 2 = 1) := by simpa using hpriv'
      obtain ⟨sq, junk, hsq, hsd'⟩ := hsd t.best hp.symm
      simp only [Bool.false_eq_true, if_false, optPpnBytes, Option.some.injEq] at hpb
      subst hpb
      simp only [List.nil_append] at hdd
      refine ⟨sq, junk, xs, ys, hsq, hsel, ?_⟩
      simp only [Built.raw, RawTuple.ptsAndDeltas, hbit, if_false, hsd', Option.getD_some, hdd]
    · have hpt : decide (some t.best ≠ sharedPts) = true := by simp [hp]
      rw [hpt] at hpriv' hpb
      have hbit : h.tupleIndex / 8192 % 2 = 1 := by simpa using hpriv'
      simp only [if_true, optPpnBytes] at hpb
      obtain ⟨v1, v2, v3⟩ := stream_view t.deltas t.best hbest hlen hd pb hpb
        (encodeDeltas xs ++ encodeDeltas ys) xs ys hsel
      have hdd' : d = pb ++ (encodeDeltas xs ++ encodeDeltas ys) := by rw [hdd]; simp
      refine ⟨pb, encodeDeltas xs ++ encodeDeltas ys, xs, ys, hpb, hsel, ?_⟩
      simp only [Built.raw, RawTuple.ptsAndDeltas, hbit, if_true, hdd', v3]
  refine ⟨_, rfl, rfl, hok, ?_, k3⟩
  simp only [Built.raw, RawTuple.view, TupleIn.view, k1, k2.1, k2.2]

theorem built_list_s (ax : Nat) (shared : List (List Int)) (lookup : List Int → Option Nat)
    (hlk : ∀ p i, lookup p = some i → i < 4096 ∧ shared[i]? = some p)
    (sharedPts : Option PPN) (sd : Option (List Nat))
    (hsd : ∀ q, sharedPts = some q → ∃ sq junk, ppnBytes q = some sq ∧ sd = some (sq ++ junk)) :
    ∀ (ts : List TupleIn) (built : List (Header × List Nat)),
      ts.mapM (fun t => buildTuple (lookup t.peak) sharedPts t) = some built →
      (∀ t ∈ ts, TupleOk ax t) →
      ∃ bs : List Built, bs.map (fun b => (b.h, b.d)) = built ∧ (∀ b ∈ bs, b.Ok ax) ∧
        bs.map (fun b => b.raw.view shared sd) = ts.map TupleIn.view ∧
        List.Forall₂ (fun b t => StreamOf t b.raw sd) bs ts := by
  intro ts
  induction ts with
  | nil => intro built h _; simp at h; subst h; exact ⟨[], rfl, by simp, rfl, List.Forall₂.nil⟩
  | cons t ts ih =>
    intro built h hok
    rw [mapM_cons_opt] at h
    cases hb : buildTuple (lookup t.peak) sharedPts t with
    | none => simp [hb] at h
    | some hd =>
      obtain ⟨hh, d⟩ := hd
      simp only [hb] at h
      cases hr : ts.mapM (fun t => buildTuple (lookup t.peak) sharedPts t) with
      | none => simp [hr] at h
      | some built' =>
        simp only [hr, Option.map_some, Option.some.injEq] at h
        subst h
        obtain ⟨bs, e1, e2, e3, e4⟩ := ih built' hr (fun x hx => hok x (by simp [hx]))
        have tok := hok t (by simp)
        obtain ⟨b, b1, b2, b3, b4, b5⟩ := built_view_s ax shared (lookup t.peak) sharedPts sd t tok.best tok.len
          tok.vals (fun i hi => hlk t.peak i hi) hsd tok.peak tok.inter hh d hb
        refine ⟨b :: bs, by simp [b1, b2, e1], ?_, by simp [b4, e3], List.Forall₂.cons b5 e4⟩
        intro x hx
        rcases List.mem_cons.mp hx with rfl | hx
        · exact b3
        · exact e2 x hx

theorem writeGlyphWith_roundtrip_s (ax : Nat) (shared : List (List Int)) (lookup : List Int → Option Nat)
    (hlk : ∀ p i, lookup p = some i → i < 4096 ∧ shared[i]? = some p)
    (sharedPts : Option PPN)
    (hsp : ∀ q, sharedPts = some q → ∃ sq, ppnBytes q = some sq ∧ ∀ tail, splitRemainder (sq ++ tail) = tail)
    (ts : List TupleIn) (hne : ts ≠ []) (hok : ∀ t ∈ ts, TupleOk ax t)
    (bytes : List Nat) (hw : writeGlyphWith lookup sharedPts ts = some bytes) (rest : List Nat) :
    ∃ g, readGlyph ax (bytes ++ rest) = some g ∧
      g.tuples.map (RawTuple.view shared g.sharedPts) = ts.map TupleIn.view ∧
      List.Forall₂ (fun r t => StreamOf t r g.sharedPts) g.tuples ts := by
  unfold writeGlyphWith at hw
  have hemp : ts.isEmpty = false := by cases ts <;> simp at hne ⊢
  simp only [hemp, Bool.false_eq_true, if_false] at hw
  cases hm : ts.mapM (fun t => buildTuple (lookup t.peak) sharedPts t) with
  | none => simp [hm] at hw
  | some built =>
    simp only [hm] at hw
    -- the shared point number bytes
    obtain ⟨sp, hspb, hsplit⟩ : ∃ sp, optPpnBytes sharedPts = some sp ∧
        (sharedPts.isSome → ∀ tail, splitRemainder (sp ++ tail) = tail) := by
      cases sharedPts with
      | none => exact ⟨[], rfl, by simp⟩
      | some q =>
        obtain ⟨sq, h1, h2⟩ := hsp q rfl
        exact ⟨sq, h1, fun _ => h2⟩
    let sd : Option (List Nat) :=
      if sharedPts.isSome then some (sp ++ (built.flatMap (·.2) ++ rest)) else none
    have hsd : ∀ q, sharedPts = some q → ∃ sq junk, ppnBytes q = some sq ∧ sd = some (sq ++ junk) := by
      intro q hq
      subst hq
      exact ⟨sp, built.flatMap (·.2) ++ rest, hspb, by simp [sd]⟩
    obtain ⟨bs, e1, e2, e3, e4⟩ := built_list_s ax shared lookup hlk sharedPts sd hsd ts built hm hok
    rw [← e1] at hw
    obtain ⟨g, g1, g2, g3⟩ := readGlyph_serialize ax sharedPts bs e2 bytes hw sp hspb hsplit rest
    have hfl : bs.flatMap (·.d) = built.flatMap (·.2) := by
      rw [← e1]; simp [List.flatMap_map]
    have hgs : g.sharedPts = sd := by rw [g2, hfl]
    refine ⟨g, g1, ?_, ?_⟩
    · rw [g3, hgs, List.map_map]
      exact e3
    · rw [g3, hgs]
      exact List.forall₂_map_left_iff.mpr e4

theorem writeGlyph_roundtrip_s (ax : Nat) (shared : List (List Int)) (hshared : shared.length ≤ 4096)
    (ts : List TupleIn) (hne : ts ≠ []) (hok : ∀ t ∈ ts, TupleOk ax t)
    (bytes : List Nat) (hw : writeGlyph shared ts = some bytes) (rest : List Nat) :
    ∃ g, readGlyph ax (bytes ++ rest) = some g ∧
      g.tuples.map (RawTuple.view shared g.sharedPts) = ts.map TupleIn.view ∧
      List.Forall₂ (fun r t => StreamOf t r g.sharedPts) g.tuples ts := by
  unfold writeGlyph at hw
  cases hc : computeSharedPoints ts with
  | none => simp [hc] at hw
  | some sp =>
    simp only [hc] at hw
    refine writeGlyphWith_roundtrip_s ax shared (lookupIn shared)
      (fun p i h => by obtain ⟨h1, h2⟩ := lookupIn_spec shared p i h; exact ⟨by omega, h2⟩)
      sp ?_ ts hne hok bytes hw rest
    intro q hq
    subst hq
    obtain ⟨t, ht, hb⟩ := computeSharedPoints_mem ts q hc
    have tok := hok t ht
    rw [← hb]
    exact sharedOk_best _ _ tok.best tok.len

end FontVerif.GvarData
