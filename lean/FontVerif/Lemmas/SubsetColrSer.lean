/-
Lemmas about the serializer model (`Model/SubsetColrSer.lean`): big-endian fields, byte readers,
`writeBE`, and the layout of packed objects.
-/
import FontVerif.Model.SubsetColrSer
namespace FontVerif.ColrSer
open FontVerif
open FontVerif.SubsetHvar (Err R)

/-! ## big-endian numbers -/

theorem beBytes_length (n v : Nat) : (beBytes n v).length = n := by simp [beBytes]

theorem beValue_append_one (xs : List Nat) (b : Nat) : beValue (xs ++ [b]) = beValue xs * 256 + b := by
  simp [beValue, List.foldl_append]

theorem beBytes_succ (n v : Nat) : beBytes (n + 1) v = beBytes n (v / 256) ++ [v % 256] := by
  unfold beBytes
  rw [List.range_succ, List.map_append]
  congr 1
  · apply List.map_congr_left
    intro i hi
    have hi' : i < n := List.mem_range.mp hi
    rw [show n + 1 - 1 - i = (n - 1 - i) + 1 by omega, Nat.pow_succ, Nat.mul_comm, Nat.div_div_eq_div_mul]
  · simp

theorem beValue_beBytes (n v : Nat) (h : v < 256 ^ n) : beValue (beBytes n v) = v := by
  induction n generalizing v with
  | zero => simp at h; subst h; simp [beBytes, beValue]
  | succ n ih =>
    rw [beBytes_succ, beValue_append_one, ih (v / 256) (by rw [Nat.pow_succ] at h; omega)]
    omega

/-! ## readers -/

theorem drop_append_len {α} (a b : List α) (p : Nat) : List.drop (a.length + p) (a ++ b) = List.drop p b := by
  rw [List.drop_append, List.drop_eq_nil_of_le (by omega)]
  simp

theorem rdN_append_left {w : Nat} {a b : List Nat} {p : Nat} (h : p + w ≤ a.length) :
    rdN w (a ++ b) p = rdN w a p := by
  unfold rdN
  have h2 : p + w ≤ (a ++ b).length := by simp; omega
  rw [if_pos h, if_pos h2]
  congr 2
  rw [List.drop_append_of_le_length (by omega), List.take_append_of_le_length (by simp; omega)]

theorem rdN_append_right {w : Nat} {a b : List Nat} {p : Nat} :
    rdN w (a ++ b) (a.length + p) = rdN w b p := by
  unfold rdN
  simp only [List.length_append]
  by_cases h : p + w ≤ b.length
  · rw [if_pos h, if_pos (by omega)]
    congr 2
    rw [drop_append_len]
  · rw [if_neg h, if_neg (by omega)]

theorem rdN_append_right' {w : Nat} {a b : List Nat} {p n : Nat} (hn : a.length = n) :
    rdN w (a ++ b) (n + p) = rdN w b p := by
  subst hn; exact rdN_append_right

theorem rdN_beBytes {w v : Nat} {rest : List Nat} (h : v < 256 ^ w) :
    rdN w (beBytes w v ++ rest) 0 = some v := by
  unfold rdN
  rw [if_pos (by simp [beBytes_length])]
  simp only [List.drop_zero]
  rw [List.take_left' (beBytes_length w v), beValue_beBytes w v h]

theorem slice_append_left {a b : List Nat} {p n : Nat} (h : p + n ≤ a.length) :
    slice (a ++ b) p n = slice a p n := by
  unfold slice
  have h2 : p + n ≤ (a ++ b).length := by simp; omega
  rw [if_pos h, if_pos h2]
  congr 1
  rw [List.drop_append_of_le_length (by omega), List.take_append_of_le_length (by simp; omega)]

theorem slice_append_right {a b : List Nat} {p n : Nat} :
    slice (a ++ b) (a.length + p) n = slice b p n := by
  unfold slice
  simp only [List.length_append]
  by_cases h : p + n ≤ b.length
  · rw [if_pos h, if_pos (by omega)]
    congr 1
    rw [drop_append_len]
  · rw [if_neg h, if_neg (by omega)]

theorem slice_append_right' {a b : List Nat} {p n k : Nat} (hk : a.length = k) :
    slice (a ++ b) (k + p) n = slice b p n := by
  subst hk; exact slice_append_right

theorem slice_all (a : List Nat) : slice a 0 a.length = some a := by
  unfold slice; simp

theorem slice_prefix {a b : List Nat} : slice (a ++ b) 0 a.length = some a := by
  unfold slice; simp

theorem slice_length {a r : List Nat} {p n : Nat} (h : slice a p n = some r) : r.length = n := by
  unfold slice at h
  split at h
  · cases h; simp; omega
  · cases h

/-- a slice of a slice -/
theorem slice_slice {a r : List Nat} {p n q m : Nat} (h : slice a p n = some r) (hq : q + m ≤ n) :
    slice r q m = slice a (p + q) m := by
  unfold slice at h
  split at h
  · rename_i hp
    cases h
    unfold slice
    rw [if_pos (by simp; omega), if_pos (by omega)]
    congr 1
    rw [List.drop_take, List.take_take, List.drop_drop]
    congr 1
    omega
  · cases h

/-! ## writeBE -/

theorem writeBE_length {b : List Nat} {pos w v : Nat} (h : pos + w ≤ b.length) :
    (writeBE b pos w v).length = b.length := by
  unfold writeBE
  simp [beBytes_length]
  omega

/-- `writeBE` as prefix ++ field ++ suffix -/
theorem writeBE_eq (b : List Nat) (pos w v : Nat) :
    writeBE b pos w v = b.take pos ++ (beBytes w v ++ b.drop (pos + w)) := by
  unfold writeBE; simp

theorem rdN_writeBE_same {b : List Nat} {pos w v : Nat} (h : pos + w ≤ b.length) (hv : v < 256 ^ w) :
    rdN w (writeBE b pos w v) pos = some v := by
  rw [writeBE_eq]
  have hl : (b.take pos).length = pos := by simp; omega
  have := @rdN_append_right' w (b.take pos) (beBytes w v ++ b.drop (pos + w)) 0 pos hl
  simp only [Nat.add_zero] at this
  rw [this, rdN_beBytes hv]

/-- reading a field that lies entirely before the patched one -/
theorem rdN_writeBE_before {b : List Nat} {pos w v w' p : Nat} (h : p + w' ≤ pos) (hb : pos ≤ b.length) :
    rdN w' (writeBE b pos w v) p = rdN w' b p := by
  rw [writeBE_eq]
  have hl : (b.take pos).length = pos := by simp; omega
  rw [rdN_append_left (by omega)]
  conv => rhs; rw [← List.take_append_drop pos b]
  rw [rdN_append_left (by omega)]

/-- reading a field that lies entirely behind the patched one -/
theorem rdN_writeBE_after {b : List Nat} {pos w v w' p : Nat} (h : pos + w ≤ p) (hb : pos + w ≤ b.length) :
    rdN w' (writeBE b pos w v) p = rdN w' b p := by
  rw [writeBE_eq, ← List.append_assoc]
  have hl : (b.take pos ++ beBytes w v).length = pos + w := by simp [beBytes_length]; omega
  obtain ⟨q, rfl⟩ : ∃ q, p = (pos + w) + q := ⟨p - (pos + w), by omega⟩
  rw [rdN_append_right' hl]
  conv => rhs; rw [← List.take_append_drop (pos + w) b]
  have hl2 : (b.take (pos + w)).length = pos + w := by simp; omega
  rw [rdN_append_right' hl2]

theorem slice_writeBE_after {b : List Nat} {pos w v n p : Nat} (h : pos + w ≤ p) (hb : pos + w ≤ b.length) :
    slice (writeBE b pos w v) p n = slice b p n := by
  rw [writeBE_eq, ← List.append_assoc]
  have hl : (b.take pos ++ beBytes w v).length = pos + w := by simp [beBytes_length]; omega
  obtain ⟨q, rfl⟩ : ∃ q, p = (pos + w) + q := ⟨p - (pos + w), by omega⟩
  rw [slice_append_right' hl]
  conv => rhs; rw [← List.take_append_drop (pos + w) b]
  have hl2 : (b.take (pos + w)).length = pos + w := by simp; omega
  rw [slice_append_right' hl2]

theorem slice_writeBE_before {b : List Nat} {pos w v n p : Nat} (h : p + n ≤ pos) (hb : pos ≤ b.length) :
    slice (writeBE b pos w v) p n = slice b p n := by
  rw [writeBE_eq]
  have hl : (b.take pos).length = pos := by simp; omega
  rw [slice_append_left (by omega)]
  conv => rhs; rw [← List.take_append_drop pos b]
  rw [slice_append_left (by omega)]

/-! ## layout of objects without links -/

theorem patchObj_nolinks (packed : List Obj) (k : Nat) (o : Obj) (h : o.links = []) :
    patchObj packed k o = o.bytes := by
  unfold patchObj; rw [h]; rfl

/-- with link-free objects the body is the objects' bytes, last packed first -/
theorem bodyUpTo_nolinks (packed : List Obj) (h : ∀ o ∈ packed, o.links = []) :
    ∀ n, n ≤ packed.length → bodyUpTo packed n = ((packed.take n).reverse.flatMap (·.bytes))
  | 0, _ => by simp [bodyUpTo]
  | n + 1, hn => by
    have hlt : n < packed.length := by omega
    rw [bodyUpTo, bodyUpTo_nolinks packed h n (by omega)]
    have hget : packed.getD n ⟨[], []⟩ = packed[n] := by
      simp [List.getD, List.getElem?_eq_getElem hlt]
    rw [hget, patchObj_nolinks _ _ _ (h _ (List.getElem_mem hlt))]
    have ht : List.take (n + 1) packed = List.take n packed ++ [packed[n]] := by
      rw [List.take_succ, List.getElem?_eq_getElem hlt]; rfl
    rw [ht]
    simp only [List.reverse_append, List.reverse_cons, List.reverse_nil, List.nil_append,
      List.flatMap_append, List.flatMap_cons, List.flatMap_nil, List.append_nil]

theorem bodyUpTo_length_nolinks (packed : List Obj) (h : ∀ o ∈ packed, o.links = []) (n : Nat)
    (hn : n ≤ packed.length) : (bodyUpTo packed n).length = ((packed.take n).map Obj.size).sum := by
  rw [bodyUpTo_nolinks packed h n hn]
  induction n with
  | zero => simp
  | succ n ih =>
    have hlt : n < packed.length := by omega
    rw [List.take_succ, List.getElem?_eq_getElem hlt]
    simp only [Option.toList_some, List.reverse_append, List.reverse_cons, List.reverse_nil,
      List.nil_append, List.flatMap_append, List.flatMap_cons, List.flatMap_nil, List.append_nil,
      List.length_append, List.map_append, List.map_cons, List.map_nil, List.sum_append,
      List.sum_cons, List.sum_nil, Nat.add_zero]
    have := ih (by omega)
    rw [Nat.add_comm, this]
    rfl

/-! ## values read from byte strings are small -/

theorem foldl_be_bound (bs : List Nat) (h : ∀ x ∈ bs, x < 256) :
    ∀ acc, bs.foldl (fun acc b => acc * 256 + b) acc + 1 ≤ (acc + 1) * 256 ^ bs.length := by
  induction bs with
  | nil => intro acc; simp
  | cons x xs ih =>
    intro acc
    simp only [List.foldl_cons, List.length_cons]
    have h1 := ih (fun y hy => h y (by simp [hy])) (acc * 256 + x)
    have hx := h x (by simp)
    have h2 : (acc * 256 + x + 1) * 256 ^ xs.length ≤ ((acc + 1) * 256) * 256 ^ xs.length :=
      Nat.mul_le_mul_right _ (by omega)
    rw [Nat.pow_succ, Nat.mul_comm (256 ^ xs.length) 256, ← Nat.mul_assoc]
    omega

theorem beValue_lt (bs : List Nat) (h : ∀ x ∈ bs, x < 256) : beValue bs < 256 ^ bs.length := by
  have := foldl_be_bound bs h 0
  simp only [Nat.zero_add, Nat.one_mul] at this
  exact this

theorem rdN_lt {w : Nat} {b : List Nat} {p v : Nat} (hb : ∀ x ∈ b, x < 256) (h : rdN w b p = some v) :
    v < 256 ^ w := by
  unfold rdN at h
  split at h
  · rename_i hp
    cases h
    have := beValue_lt ((b.drop p).take w) (fun x hx => hb x (List.mem_of_mem_drop (List.mem_of_mem_take hx)))
    have hl : ((b.drop p).take w).length = w := by simp; omega
    rwa [hl] at this
  · cases h

/-! ## a sequence of patches -/

/-- patches that all lie at or behind `q` inside the object leave everything before `q` alone and keep
the length -/
theorem foldl_writeBE_before (val : Link → Nat) (q : Nat) :
    ∀ (ls : List Link) (b : List Nat), (∀ l ∈ ls, q ≤ l.pos ∧ l.pos + l.width ≤ b.length) →
      (ls.foldl (fun b l => writeBE b l.pos l.width (val l)) b).length = b.length ∧
      ∀ w p, p + w ≤ q →
        rdN w (ls.foldl (fun b l => writeBE b l.pos l.width (val l)) b) p = rdN w b p
  | [], b, _ => by simp
  | l :: ls, b, h => by
    have hl := h l (by simp)
    have hlen : (writeBE b l.pos l.width (val l)).length = b.length := writeBE_length hl.2
    have ih := foldl_writeBE_before val q ls (writeBE b l.pos l.width (val l))
      (fun l' hl' => by rw [hlen]; exact h l' (by simp [hl']))
    simp only [List.foldl_cons]
    refine ⟨by rw [ih.1, hlen], ?_⟩
    intro w p hp
    rw [ih.2 w p hp]
    exact rdN_writeBE_before (by omega) (by omega)

theorem popPack_spec (packed : List Obj) (o : Obj) :
    (o.bytes = [] ∧ popPack packed o = (packed, none)) ∨
    (o.bytes ≠ [] ∧ ∃ i, i < packed.length ∧ packed[i]? = some o ∧ popPack packed o = (packed, some i)) ∨
    (o.bytes ≠ [] ∧ popPack packed o = (packed ++ [o], some packed.length)) := by
  unfold popPack
  by_cases he : o.bytes = []
  · left; simp [he]
  · have : o.bytes.isEmpty = false := by simpa using he
    rw [this]
    simp only [Bool.false_eq_true, if_false]
    cases hf : packed.findIdx? (· == o) with
    | none => right; right; exact ⟨he, rfl⟩
    | some i =>
      right; left
      refine ⟨he, i, ?_, ?_, rfl⟩
      · exact (List.findIdx?_eq_some_iff_getElem.mp hf).1
      · obtain ⟨hi, hp, _⟩ := List.findIdx?_eq_some_iff_getElem.mp hf
        rw [List.getElem?_eq_getElem hi]
        have : packed[i] = o := by simpa using hp
        rw [this]

/-! ## objects with links -/

/-- the link fields of an object do not overlap -/
def SortedLinks (ls : List Link) : Prop :=
  ls.Pairwise (fun a b => a.pos + a.width ≤ b.pos ∨ b.pos + b.width ≤ a.pos)

/-- the links of the object stay inside it -/
def LinksInside (ls : List Link) (n : Nat) : Prop := ∀ l ∈ ls, l.pos + l.width ≤ n

theorem foldl_writeBE_length (val : Link → Nat) (ls : List Link) (b : List Nat) (h : LinksInside ls b.length) :
    (ls.foldl (fun b l => writeBE b l.pos l.width (val l)) b).length = b.length :=
  (foldl_writeBE_before val 0 ls b (fun l hl => ⟨Nat.zero_le _, h l hl⟩)).1

/-- a region that no link touches keeps its bytes -/
theorem foldl_writeBE_other (val : Link → Nat) (w p : Nat) :
    ∀ (ls : List Link) (b : List Nat), LinksInside ls b.length →
      (∀ l ∈ ls, l.pos + l.width ≤ p ∨ p + w ≤ l.pos) →
      rdN w (ls.foldl (fun b l => writeBE b l.pos l.width (val l)) b) p = rdN w b p
  | [], b, _, _ => rfl
  | l :: ls, b, hin, hd => by
    have hl := hin l (by simp)
    have hlen : (writeBE b l.pos l.width (val l)).length = b.length := writeBE_length hl
    simp only [List.foldl_cons]
    rw [foldl_writeBE_other val w p ls _ (fun l' hl' => by rw [hlen]; exact hin l' (by simp [hl']))
      (fun l' hl' => hd l' (by simp [hl']))]
    rcases hd l (by simp) with h | h
    · exact rdN_writeBE_after h hl
    · exact rdN_writeBE_before h (by omega)

/-- every link field holds its resolved value -/
theorem foldl_writeBE_link (val : Link → Nat) :
    ∀ (ls : List Link) (b : List Nat), SortedLinks ls → LinksInside ls b.length →
      ∀ m ∈ ls, val m < 256 ^ m.width →
      rdN m.width (ls.foldl (fun b l => writeBE b l.pos l.width (val l)) b) m.pos = some (val m)
  | [], _, _, _, m, hm, _ => by simp at hm
  | l :: ls, b, hs, hin, m, hm, hv => by
    have hl := hin l (by simp)
    have hlen : (writeBE b l.pos l.width (val l)).length = b.length := writeBE_length hl
    have hin' : LinksInside ls (writeBE b l.pos l.width (val l)).length := by
      intro l' hl'; rw [hlen]; exact hin l' (by simp [hl'])
    simp only [List.foldl_cons]
    by_cases hml : m = l
    · subst hml
      rw [foldl_writeBE_other val m.width m.pos ls _ hin'
        (fun l' hl' => by
          rcases (List.pairwise_cons.mp hs).1 l' hl' with h | h
          · right; exact h
          · left; exact h)]
      exact rdN_writeBE_same hl hv
    · have hm' : m ∈ ls := by
        cases hm with
        | head => exact absurd rfl hml
        | tail _ h => exact h
      exact foldl_writeBE_link val ls _ (List.pairwise_cons.mp hs).2 hin' m hm' hv

/-- the packed list is well formed: links point to earlier objects, stay inside, are sorted -/
def WF (packed : List Obj) : Prop :=
  ∀ k (h : k < packed.length), (∀ l ∈ packed[k].links, l.target < k) ∧
    LinksInside packed[k].links packed[k].bytes.length ∧ SortedLinks packed[k].links

theorem patchObj_length (packed : List Obj) (k : Nat) (o : Obj) (h : LinksInside o.links o.bytes.length) :
    (patchObj packed k o).length = o.bytes.length :=
  foldl_writeBE_length _ _ _ h

theorem getD_eq_getElem (packed : List Obj) (k : Nat) (h : k < packed.length) :
    packed.getD k ⟨[], []⟩ = packed[k] := by
  simp [List.getD, List.getElem?_eq_getElem h]

theorem bodyUpTo_length (packed : List Obj) (wf : WF packed) :
    ∀ n, n ≤ packed.length → (bodyUpTo packed n).length = ((packed.take n).map Obj.size).sum
  | 0, _ => by simp [bodyUpTo]
  | n + 1, hn => by
    have hlt : n < packed.length := by omega
    rw [bodyUpTo, List.length_append, bodyUpTo_length packed wf n (by omega), getD_eq_getElem _ _ hlt,
      patchObj_length _ _ _ (wf n hlt).2.1]
    have ht : List.take (n + 1) packed = List.take n packed ++ [packed[n]] := by
      rw [List.take_succ, List.getElem?_eq_getElem hlt]; rfl
    rw [ht, List.map_append, List.sum_append]
    simp [Obj.size]
    omega

/-- the objects `k+1 … n-1` come first, then object `k`, then the earlier ones -/
theorem bodyUpTo_split (packed : List Obj) (k : Nat) :
    ∀ n, k < n → ∃ X, bodyUpTo packed n = X ++ bodyUpTo packed (k + 1) ∧
      (n ≤ packed.length → WF packed → X.length = (((packed.take n).drop (k + 1)).map Obj.size).sum)
  | 0, h => by omega
  | n + 1, h => by
    by_cases hk : k = n
    · subst hk
      exact ⟨[], by simp, fun _ _ => by simp⟩
    · obtain ⟨X, hX, hlen⟩ := bodyUpTo_split packed k n (by omega)
      refine ⟨patchObj packed n (packed.getD n ⟨[], []⟩) ++ X, by rw [bodyUpTo, hX, List.append_assoc], ?_⟩
      intro hn wf
      have hlt : n < packed.length := by omega
      rw [List.length_append, hlen (by omega) wf, getD_eq_getElem _ _ hlt,
        patchObj_length _ _ _ (wf n hlt).2.1]
      have ht : List.take (n + 1) packed = List.take n packed ++ [packed[n]] := by
        rw [List.take_succ, List.getElem?_eq_getElem hlt]; rfl
      rw [ht, List.drop_append_of_le_length (by simp; omega), List.map_append, List.sum_append]
      simp [Obj.size]
      omega

/-- where object `k` starts in the output: `rootOff` -/
theorem rootOff_eq (rootLen : Nat) (packed : List Obj) (k : Nat) :
    rootOff rootLen packed k = rootLen + ((packed.drop (k + 1)).map Obj.size).sum := rfl

/-- `child.head - parent.head` added to the parent's head is the child's head -/
theorem relOff_add (rootLen : Nat) (packed : List Obj) (k t : Nat) (ht : t < k) (hk : k < packed.length) :
    rootOff rootLen packed k + relOff packed k t = rootOff rootLen packed t := by
  unfold rootOff relOff
  have : packed.drop (t + 1) = (packed.take (k + 1)).drop (t + 1) ++ packed.drop (k + 1) := by
    conv => lhs; rw [← List.take_append_drop (k + 1) packed]
    rw [List.drop_append_of_le_length (by simp; omega)]
  rw [this, List.map_append, List.sum_append]
  omega

/-- reading inside object `k` of the laid-out table -/
theorem read_in_object (packed : List Obj) (wf : WF packed) (rootBytes : List Nat) (k : Nat)
    (hk : k < packed.length) (w p : Nat) (hp : p + w ≤ packed[k].bytes.length) :
    rdN w (rootBytes ++ bodyUpTo packed packed.length) (rootOff rootBytes.length packed k + p) =
      rdN w (patchObj packed k packed[k]) p := by
  obtain ⟨X, hX, hlen⟩ := bodyUpTo_split packed k packed.length hk
  have hXl := hlen (Nat.le_refl _) wf
  rw [List.take_length] at hXl
  rw [hX, bodyUpTo, getD_eq_getElem _ _ hk, ← List.append_assoc, ← List.append_assoc]
  have hpre : (rootBytes ++ X).length = rootOff rootBytes.length packed k := by
    rw [List.length_append, hXl]; rfl
  rw [List.append_assoc (rootBytes ++ X), rdN_append_right' hpre]
  exact rdN_append_left (by rw [patchObj_length _ _ _ (wf k hk).2.1]; exact hp)

/-- a slice inside object `k` of the laid-out table -/
theorem slice_in_object (packed : List Obj) (wf : WF packed) (rootBytes : List Nat) (k : Nat)
    (hk : k < packed.length) (n p : Nat) (hp : p + n ≤ packed[k].bytes.length) :
    slice (rootBytes ++ bodyUpTo packed packed.length) (rootOff rootBytes.length packed k + p) n =
      slice (patchObj packed k packed[k]) p n := by
  obtain ⟨X, hX, hlen⟩ := bodyUpTo_split packed k packed.length hk
  have hXl := hlen (Nat.le_refl _) wf
  rw [List.take_length] at hXl
  rw [hX, bodyUpTo, getD_eq_getElem _ _ hk, ← List.append_assoc, ← List.append_assoc]
  have hpre : (rootBytes ++ X).length = rootOff rootBytes.length packed k := by
    rw [List.length_append, hXl]; rfl
  rw [List.append_assoc (rootBytes ++ X), slice_append_right' hpre]
  exact slice_append_left (by rw [patchObj_length _ _ _ (wf k hk).2.1]; exact hp)

end FontVerif.ColrSer
