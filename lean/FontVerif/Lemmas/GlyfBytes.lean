import FontVerif.Lemmas.Glyf
set_option linter.unusedVariables false
namespace FontVerif.Glyf
open FontVerif

theorem be16_length (v : Int) : (be16 v).length = 2 := rfl

theorem u16At_raw (pre post : List Nat) (a b : Nat) :
    u16At (pre ++ a :: b :: post) pre.length = some (a * 256 + b) := by
  unfold u16At
  have h1 : (pre ++ a :: b :: post).getD pre.length 0 = a := by
    simp [List.getD_eq_getElem?_getD]
  have h2 : (pre ++ a :: b :: post).getD (pre.length + 1) 0 = b := by
    simp [List.getD_eq_getElem?_getD]
  rw [h1, h2]
  have : pre.length + 2 ≤ (pre ++ a :: b :: post).length := by
    simp only [List.length_append, List.length_cons]; omega
  simp only [this, ↓reduceIte]

theorem u16At_mid (pre post : List Nat) (v : Int) :
    u16At (pre ++ (be16 v ++ post)) pre.length = some (v % 65536).toNat := by
  rw [be16_eq]
  simp only [List.cons_append, List.nil_append]
  rw [u16At_raw]
  congr 1
  omega

theorem i16At_mid (pre post : List Nat) (v : Int) (h : inI16 v) :
    i16At (pre ++ (be16 v ++ post)) pre.length = some v := by
  unfold i16At
  rw [u16At_mid]
  simp
  unfold wrapI16 inI16 at *
  simp only []
  split <;> omega
def xSize (f : Nat) : Nat :=
  (if hasBit f X_SHORT then 1 else 0) + (if (f &&& (X_SHORT ||| X_SAME)) = 0 then 2 else 0)
def ySize (f : Nat) : Nat :=
  (if hasBit f Y_SHORT then 1 else 0) + (if (f &&& (Y_SHORT ||| Y_SAME)) = 0 then 2 else 0)

theorem and_or_zero (f a b : Nat) :
    (f &&& (a ||| b) = 0) ↔ (hasBit f a = false ∧ hasBit f b = false) := by
  unfold hasBit
  rw [Nat.and_or_distrib_left, Nat.or_eq_zero_iff]
  simp

/-- bytes written for one coordinate = bytes the readers reserve for it from the flag -/
theorem size_flagAndDelta (v : Int) (S P : Nat) (f : Nat)
    (hS : hasBit S S = true) (hP : hasBit P P = true) (hSP : hasBit S P = false)
    (hPS : hasBit P S = false)
    (h1 : hasBit f S = hasBit (flagAndDelta v S P).1 S)
    (h2 : hasBit f P = hasBit (flagAndDelta v S P).1 P) :
    (if hasBit f S then 1 else 0) + (if (f &&& (S ||| P)) = 0 then 2 else 0)
      = (flagAndDelta v S P).2.bytes.length := by
  have h0S : hasBit 0 S = false := by simp [hasBit]
  have h0P : hasBit 0 P = false := by simp [hasBit]
  simp only [and_or_zero]
  unfold flagAndDelta at *
  split at h1
  · rename_i hv
    simp only [hv, ↓reduceIte] at h2 ⊢
    rw [h1, h2, hPS, hP]; simp [CoordDelta.bytes]
  · split at h1
    · rename_i hv hn
      simp only [hv, hn, ↓reduceIte, and_self] at h2 ⊢
      rw [h1, h2, hS, hSP]; simp [CoordDelta.bytes]
    · split at h1
      · rename_i hv hn hp
        simp only [hv, hn, hp, ↓reduceIte, and_self] at h2 ⊢
        rw [h1, h2, hasBit_or, hasBit_or, hS, hP]; simp [CoordDelta.bytes]
      · rename_i hv hn hp
        simp only [hv, hn, hp, ↓reduceIte] at h2 ⊢
        rw [h1, h2, h0S, h0P]; simp [CoordDelta.bytes, be16_eq]

theorem sizes_eq (pts : List Point) :
    ∀ (lx ly : Int) (ds : List PointDelta) (efs : List Nat),
    computePointDeltas lx ly pts = some ds → efs.map clearRepeat = ds.map (·.flag) →
    (efs.map xSize).sum = (xBytes ds).length ∧ (efs.map ySize).sum = (yBytes ds).length := by
  induction pts with
  | nil =>
    intro lx ly ds efs h he
    simp [computePointDeltas] at h; subst h
    simp at he; subst he; simp [xBytes, yBytes]
  | cons p ps ih =>
    intro lx ly ds efs h he
    simp only [computePointDeltas] at h
    split at h
    · cases hrec : computePointDeltas p.x p.y ps with
      | none => simp [hrec] at h
      | some rest =>
        simp only [hrec, Option.map_some, Option.some.injEq] at h
        subst h
        cases efs with
        | nil => simp at he
        | cons ef efs' =>
          simp only [List.map_cons, List.cons.injEq] at he
          obtain ⟨he1, he2⟩ := he
          have facts := pointFlag_facts p.on (p.x - lx) (p.y - ly)
          unfold pointFlag at facts
          obtain ⟨_, fon, fxs, fxp, fys, fyp⟩ := facts
          have b2 : hasBit ef X_SHORT = hasBit (flagAndDelta (p.x - lx) X_SHORT X_SAME).1 X_SHORT := by
            rw [← hasBit_clearRepeat ef X_SHORT (by decide), he1]; exact fxs
          have b3 : hasBit ef X_SAME = hasBit (flagAndDelta (p.x - lx) X_SHORT X_SAME).1 X_SAME := by
            rw [← hasBit_clearRepeat ef X_SAME (by decide), he1]; exact fxp
          have b4 : hasBit ef Y_SHORT = hasBit (flagAndDelta (p.y - ly) Y_SHORT Y_SAME).1 Y_SHORT := by
            rw [← hasBit_clearRepeat ef Y_SHORT (by decide), he1]; exact fys
          have b5 : hasBit ef Y_SAME = hasBit (flagAndDelta (p.y - ly) Y_SHORT Y_SAME).1 Y_SAME := by
            rw [← hasBit_clearRepeat ef Y_SAME (by decide), he1]; exact fyp
          have sx := size_flagAndDelta (p.x - lx) X_SHORT X_SAME ef
            X_bits.1 X_bits.2.1 X_bits.2.2.1 X_bits.2.2.2 b2 b3
          have sy := size_flagAndDelta (p.y - ly) Y_SHORT Y_SAME ef
            Y_bits.1 Y_bits.2.1 Y_bits.2.2.1 Y_bits.2.2.2 b4 b5
          have := ih p.x p.y rest efs' hrec he2
          simp only [xBytes, yBytes, List.flatMap_cons, List.length_append, List.map_cons,
            List.sum_cons] at this ⊢
          simp only [xSize, ySize]
          rw [sx, sy]
          omega
    · simp at h
theorem resolve_nil (more : List Nat) (pos xl yl : Nat) :
    resolveCoordsLen more pos 0 xl yl = some (pos, xl, yl) := by
  cases more <;> simp [resolveCoordsLen]

theorem sum_replicate (n k : Nat) : (List.replicate n k).sum = n * k := by
  induction n with
  | zero => simp
  | succ n ih => simp [List.replicate_succ, ih, Nat.succ_mul]; omega

theorem resolve_items (items : List RepeatableFlag) :
    ∀ (more : List Nat) (pos xl yl : Nat), (∀ i ∈ items, ItemWf i) →
      resolveCoordsLen (items.flatMap RepeatableFlag.bytes ++ more) pos (expandRaw items).length xl yl
        = some (pos + rleCost items, xl + ((expandRaw items).map xSize).sum,
                yl + ((expandRaw items).map ySize).sum) := by
  induction items with
  | nil => intro more pos xl yl _; simp [expandRaw, rleCost, resolve_nil]
  | cons i rest ih =>
    intro more pos xl yl hwf
    have hi := hwf i (by simp)
    have hrest : ∀ j ∈ rest, ItemWf j := fun j hj => hwf j (by simp [hj])
    have hcp := count_pos i
    rw [expandRaw_cons]
    simp only [List.flatMap_cons, List.length_append, List.length_replicate, List.append_assoc,
      List.map_append, List.map_replicate, List.sum_append, sum_replicate]
    have hne : ¬ (i.count + (expandRaw rest).length = 0) := by omega
    by_cases hb : hasBit i.flag REPEAT = true
    · have hc : i.count = i.rep + 1 := by simp [RepeatableFlag.count, hb]
      have hcost : i.cost = 2 := by simp [RepeatableFlag.cost, hb]
      simp only [RepeatableFlag.bytes, hb, ↓reduceIte, List.cons_append, List.nil_append,
        resolveCoordsLen, hne]
      have hgt : ¬ (i.rep + 1 > i.count + (expandRaw rest).length) := by omega
      simp only [hgt, ↓reduceIte]
      have e1 : i.count + (expandRaw rest).length - (i.rep + 1) = (expandRaw rest).length := by omega
      rw [e1, ih more _ _ _ hrest]
      simp only [rleCost, List.map_cons, List.sum_cons, hcost, xSize, ySize, hc]
      congr 1
      refine Prod.ext ?_ (Prod.ext ?_ ?_) <;> simp only [] <;> (repeat' split) <;> omega
    · have hb' : hasBit i.flag REPEAT = false := by simpa using hb
      have hc : i.count = 1 := by simp [RepeatableFlag.count, hb']
      have hcost : i.cost = 1 := by simp [RepeatableFlag.cost, hb']
      simp only [RepeatableFlag.bytes, hb', Bool.false_eq_true, ↓reduceIte, List.cons_append,
        List.nil_append, resolveCoordsLen, hne]
      have e1 : i.count + (expandRaw rest).length - 1 = (expandRaw rest).length := by omega
      rw [e1, ih more _ _ _ hrest]
      simp only [rleCost, List.map_cons, List.sum_cons, hcost, xSize, ySize, hc]
      congr 1
      refine Prod.ext ?_ (Prod.ext ?_ ?_) <;> simp only [] <;> (repeat' split) <;> omega

theorem flagBytes_length (ds : List PointDelta) :
    (flagBytes ds).length = rleCost (iterFromFlags none (ds.map (·.flag))) := by
  unfold flagBytes; exact flatMap_bytes_length _

theorem expand_length (fs : List Nat) (h : ∀ f ∈ fs, FlagOk f) :
    (expandRaw (iterFromFlags none fs)).length = fs.length := by
  have := congrArg List.length (iterFromFlags_expand fs h)
  simpa using this

/-- the slow decoder (`points()`) on the writer's flag/coordinate bytes -/
theorem points_of_data (v : SimpleView) (pts : List Point) (ds : List PointDelta) (pad : List Nat)
    (last : Nat) (hr : PointsInRange pts) (hd : computePointDeltas 0 0 pts = some ds)
    (hl : v.endPts.getLast? = some last) (hn : last + 1 = pts.length) (hmax : pts.length ≤ 65535)
    (hg : v.glyphData = flagBytes ds ++ (xBytes ds ++ (yBytes ds ++ pad))) :
    v.points = pts := by
  have hfl := computePointDeltas_flags pts 0 0 ds hd
  have hlen := computePointDeltas_length pts 0 0 ds hd
  have hwf := iterFromFlags_wf _ hfl
  have hexp := iterFromFlags_expand _ hfl
  have hel := expand_length _ hfl
  have hsz := sizes_eq pts 0 0 ds _ hd hexp
  have hres := resolve_items (iterFromFlags none (ds.map (·.flag)))
    (xBytes ds ++ (yBytes ds ++ pad)) 0 0 0 hwf
  simp only [List.length_map] at hel
  rw [hel, hlen, hsz.1, hsz.2] at hres
  simp only [Nat.zero_add] at hres
  unfold SimpleView.points
  rw [hl]
  simp only []
  have h1 : ¬ (last + 1 > 65535) := by omega
  simp only [h1, ↓reduceIte, hn, hg]
  have hfb : flagBytes ds = (iterFromFlags none (ds.map (·.flag))).flatMap RepeatableFlag.bytes := rfl
  rw [hfb, hres]
  simp only []
  have hcl := flatMap_bytes_length (iterFromFlags none (ds.map (·.flag)))
  have h2 : ¬ (((iterFromFlags none (ds.map (·.flag))).flatMap RepeatableFlag.bytes
      ++ (xBytes ds ++ (yBytes ds ++ pad))).length
      < rleCost (iterFromFlags none (ds.map (·.flag))) + (xBytes ds).length + (yBytes ds).length) := by
    simp only [List.length_append, hcl]; omega
  simp only [h2, ↓reduceIte]
  rw [← hcl]
  simp only [List.take_left', List.drop_left', List.take_left, List.drop_left]
  unfold PointIter.new
  rw [collect_items]
  · have := decodeRun_deltas pts 0 0 ds _ [] pad hr hd hexp
    have h1' : ¬ (65535 < pts.length) := by omega
    simpa [h1'] using this
  · have := wf_length_le _ hwf
    rw [hcl]; omega

theorem zip3_map {α : Type} (pts : List α) (fx fy : α → Int) (fo : α → Nat) :
    ∀ (cs : List Nat), cs.map (fun f => f &&& 1) = pts.map fo →
    (((pts.map fx).zip ((pts.map fy).zip cs)).map (fun t => (t.1, t.2.1, t.2.2 &&& 1)))
      = pts.map (fun p => (fx p, fy p, fo p)) := by
  induction pts with
  | nil => intro cs h; simp
  | cons p ps ih =>
    intro cs h
    cases cs with
    | nil => simp at h
    | cons c cs' =>
      simp only [List.map_cons, List.cons.injEq] at h
      simp only [List.map_cons, List.zip_cons_cons, List.cons.injEq]
      exact ⟨by rw [h.1], ih cs' h.2⟩

/-- `read_points_fast` on the writer's flag/coordinate bytes -/
theorem fast_of_data (v : SimpleView) (pts : List Point) (ds : List PointDelta) (pad : List Nat)
    (last : Nat) (hr : PointsInRange pts) (hd : computePointDeltas 0 0 pts = some ds)
    (hl : v.endPts.getLast? = some last) (hn : last + 1 = pts.length)
    (hg : v.glyphData = flagBytes ds ++ (xBytes ds ++ (yBytes ds ++ pad))) :
    v.readPointsFast = some (pts.map (fun p => (p.x, p.y, if p.on then 1 else 0))) := by
  have hfl := computePointDeltas_flags pts 0 0 ds hd
  have hlen := computePointDeltas_length pts 0 0 ds hd
  have hwf := iterFromFlags_wf _ hfl
  have hexp := iterFromFlags_expand _ hfl
  have hel := expand_length _ hfl
  simp only [List.length_map] at hel
  have hcl := flatMap_bytes_length (iterFromFlags none (ds.map (·.flag)))
  have hcost := wf_cost_le _ hwf
  have hne : iterFromFlags none (ds.map (·.flag)) ≠ [] := by
    intro e; rw [e] at hel; simp [expandRaw] at hel; omega
  have hnp : v.numPoints = pts.length := by unfold SimpleView.numPoints; rw [hl]; exact hn
  have hfb : flagBytes ds = (iterFromFlags none (ds.map (·.flag))).flatMap RepeatableFlag.bytes := rfl
  unfold SimpleView.readPointsFast
  simp only [hnp, hg]
  have hn0 : ¬ (pts.length = 0) := by omega
  simp only [hn0, ↓reduceIte]
  rw [List.take_append, hfb]
  have hk : ((iterFromFlags none (ds.map (·.flag))).flatMap RepeatableFlag.bytes).length
      ≤ min (2 * pts.length) (((iterFromFlags none (ds.map (·.flag))).flatMap RepeatableFlag.bytes
        ++ (xBytes ds ++ (yBytes ds ++ pad))).length) := by
    simp only [List.length_append, hcl]; omega
  rw [List.take_of_length_le hk]
  have hff := fastFlags_items _ (List.take (min (2 * pts.length)
      (((iterFromFlags none (ds.map (·.flag))).flatMap RepeatableFlag.bytes
        ++ (xBytes ds ++ (yBytes ds ++ pad))).length)
      - ((iterFromFlags none (ds.map (·.flag))).flatMap RepeatableFlag.bytes).length)
      (xBytes ds ++ (yBytes ds ++ pad))) hne hwf
  rw [hel, hlen] at hff
  rw [hff]
  simp only [hel, hlen, ne_eq, not_true_eq_false, ↓reduceIte]
  rw [← hcl, List.drop_left]
  rw [fastCoords_x pts 0 0 ds _ (yBytes ds ++ pad) hr hd hexp]
  simp only []
  rw [fastCoords_y pts 0 0 ds _ pad hr hd hexp]
  simp only []
  have hon := on_bits pts 0 0 ds _ hd hexp
  rw [zip3_map pts (·.x) (·.y) (fun p => if p.on then 1 else 0) _ hon]

theorem u16At_at (data pre post : List Nat) (v : Int) (pos : Nat) (hpos : pos = pre.length)
    (hd : data = pre ++ (be16 v ++ post)) : u16At data pos = some (v % 65536).toNat := by
  subst hpos; subst hd; exact u16At_mid pre post v

theorem i16At_at (data pre post : List Nat) (v : Int) (pos : Nat) (h : inI16 v)
    (hpos : pos = pre.length) (hd : data = pre ++ (be16 v ++ post)) : i16At data pos = some v := by
  subst hpos; subst hd; exact i16At_mid pre post v h

def epsBytes (eps : List Nat) : List Nat := eps.flatMap (fun (e : Nat) => be16 (e : Int))

theorem epsBytes_length (eps : List Nat) : (epsBytes eps).length = 2 * eps.length := by
  induction eps with
  | nil => rfl
  | cons e es ih => simp only [epsBytes, List.flatMap_cons, List.length_append, List.length_cons] at ih ⊢
                    rw [ih]; simp [be16_eq]; omega

theorem eps_get (eps : List Nat) : ∀ (pre post : List Nat) (i : Nat) (hi : i < eps.length),
    (∀ e ∈ eps, e < 65536) →
    u16At (pre ++ (epsBytes eps ++ post)) (pre.length + 2 * i) = some eps[i] := by
  induction eps with
  | nil => intro pre post i hi; simp at hi
  | cons e es ih =>
    intro pre post i hi he
    cases i with
    | zero =>
      simp only [epsBytes, List.flatMap_cons, List.append_assoc, Nat.mul_zero, Nat.add_zero,
        List.getElem_cons_zero]
      rw [u16At_mid]
      have := he e (by simp)
      congr 1; omega
    | succ j =>
      have hj : j < es.length := by simpa using hi
      have := ih (pre ++ be16 (e : Int)) post j hj (fun x hx => he x (by simp [hx]))
      simp only [List.length_append, be16_length, List.append_assoc] at this
      simp only [epsBytes, List.flatMap_cons, List.append_assoc, List.getElem_cons_succ]
      have e2 : pre.length + 2 * (j + 1) = pre.length + 2 + 2 * j := by omega
      rw [e2]
      exact this

theorem eps_read (eps : List Nat) (pre post : List Nat) (he : ∀ e ∈ eps, e < 65536) :
    (List.range eps.length).map
      (fun i => (u16At (pre ++ (epsBytes eps ++ post)) (pre.length + 2 * i)).getD 0) = eps := by
  apply List.ext_getElem
  · simp
  · intro i h1 h2
    simp only [List.getElem_map, List.getElem_range]
    have hi : i < eps.length := by simpa using h1
    rw [eps_get eps pre post i hi he]
    rfl


/-- the generated `SimpleGlyph::read` on a well-formed glyph layout -/
theorem readSimple_canon (nc : Nat) (xMin yMin xMax yMax : Int) (eps instr tail : List Nat)
    (hnc : nc < 32768) (hn : eps.length = nc) (he : ∀ e ∈ eps, e < 65536)
    (hi : instr.length < 65536)
    (h1 : inI16 xMin) (h2 : inI16 yMin) (h3 : inI16 xMax) (h4 : inI16 yMax) :
    readSimple (be16 (nc : Int) ++ (be16 xMin ++ (be16 yMin ++ (be16 xMax ++ (be16 yMax ++
      (epsBytes eps ++ (be16 (instr.length : Int) ++ (instr ++ tail)))))))) =
      some { nContours := nc, xMin := xMin, yMin := yMin, xMax := xMax, yMax := yMax,
             endPts := eps, instructions := instr, glyphData := tail } := by
  generalize hdata : (be16 (nc : Int) ++ (be16 xMin ++ (be16 yMin ++ (be16 xMax ++ (be16 yMax ++
      (epsBytes eps ++ (be16 (instr.length : Int) ++ (instr ++ tail)))))))) = data
  have hncI : inI16 (nc : Int) := by unfold inI16; omega
  have r0 : i16At data 0 = some (nc : Int) :=
    i16At_at data [] _ nc 0 hncI rfl (by rw [← hdata]; rfl)
  let t5 := epsBytes eps ++ (be16 (instr.length : Int) ++ (instr ++ tail))
  have r2 : i16At data 2 = some xMin :=
    i16At_at data (be16 nc) (be16 yMin ++ (be16 xMax ++ (be16 yMax ++ t5))) xMin 2 h1 rfl
      (by rw [← hdata])
  have r4 : i16At data 4 = some yMin :=
    i16At_at data (be16 nc ++ be16 xMin) (be16 xMax ++ (be16 yMax ++ t5)) yMin 4 h2 rfl
      (by rw [← hdata]; simp only [List.append_assoc, t5])
  have r6 : i16At data 6 = some xMax :=
    i16At_at data (be16 nc ++ be16 xMin ++ be16 yMin) (be16 yMax ++ t5) xMax 6 h3 rfl
      (by rw [← hdata]; simp only [List.append_assoc, t5])
  have r8 : i16At data 8 = some yMax :=
    i16At_at data (be16 nc ++ be16 xMin ++ be16 yMin ++ be16 xMax) t5 yMax 8 h4 rfl
      (by rw [← hdata]; simp only [List.append_assoc, t5])
  let hdr := be16 (nc : Int) ++ be16 xMin ++ be16 yMin ++ be16 xMax ++ be16 yMax
  have hhl : hdr.length = 10 := rfl
  have d1 : data = hdr ++ (epsBytes eps ++ (be16 (instr.length : Int) ++ (instr ++ tail))) := by
    rw [← hdata]; simp only [hdr, List.append_assoc]
  have reps : (List.range nc).map (fun i => (u16At data (10 + 2 * i)).getD 0) = eps := by
    rw [d1, ← hn, ← hhl]; exact eps_read eps hdr _ he
  have hel := epsBytes_length eps
  have ril : u16At data (10 + 2 * nc) = some instr.length := by
    have := u16At_at data (hdr ++ epsBytes eps) (instr ++ tail) (instr.length : Int) (10 + 2 * nc)
      (by simp only [List.length_append, hhl, hel, hn])
      (by rw [d1]; simp only [List.append_assoc])
    rw [this]; congr 1; omega
  have d2 : data = (hdr ++ epsBytes eps ++ be16 (instr.length : Int)) ++ (instr ++ tail) := by
    rw [d1]; simp only [List.append_assoc]
  have l2 : (hdr ++ epsBytes eps ++ be16 (instr.length : Int)).length = 10 + 2 * nc + 2 := by
    simp only [List.length_append, hhl, hel, hn, be16_length]
  have hdl : data.length = 10 + 2 * nc + 2 + instr.length + tail.length := by
    rw [d2]; simp only [List.length_append] at l2 ⊢; omega
  have rins : (data.drop (10 + 2 * nc + 2)).take instr.length = instr := by
    rw [d2, List.drop_left' l2, List.take_left]
  have rgd : data.drop (10 + 2 * nc + 2 + instr.length) = tail := by
    have d3 : data = (hdr ++ epsBytes eps ++ be16 (instr.length : Int) ++ instr) ++ tail := by
      rw [d2]; simp only [List.append_assoc]
    rw [d3]
    apply List.drop_left'
    simp only [List.length_append] at l2 ⊢; omega
  unfold readSimple
  rw [r0]
  simp only []
  have hneg : ¬ ((nc : Int) < 0) := by omega
  simp only [hneg, ↓reduceIte, Int.toNat_natCast]
  rw [ril]
  simp only []
  have hle : 10 + 2 * nc + 2 + instr.length ≤ data.length := by omega
  simp only [hle, ↓reduceIte, r2, r4, r6, r8, Option.getD_some, reps, rins, rgd]

/-- end points as the format defines them: index of the last point of each contour -/
def endSpec : Nat → List (List Point) → List Nat
  | _, [] => []
  | cur, c :: cs => (cur + c.length - 1) :: endSpec (cur + c.length) cs

theorem endPts_length (cs : List (List Point)) : ∀ cur eps, endPts cur cs = some eps →
    eps.length = cs.length ∧ ∀ e ∈ eps, e < 65536 := by
  induction cs with
  | nil => intro cur eps h; simp [endPts] at h; subst h; simp
  | cons c cs ih =>
    intro cur eps h
    simp only [endPts] at h
    split at h
    · cases h
    · cases hr : endPts (cur + c.length) cs with
      | none => simp [hr] at h
      | some r =>
        simp only [hr, Option.map_some, Option.some.injEq] at h
        subst h
        have := ih _ r hr
        refine ⟨by simp [this.1], ?_⟩
        intro e he
        simp only [List.mem_cons] at he
        rcases he with he | he
        · subst he; omega
        · exact this.2 e he

theorem endPts_spec (cs : List (List Point)) : ∀ cur eps, endPts cur cs = some eps →
    cur + cs.flatten.length ≤ 65535 →
    eps = endSpec cur cs ∧ (cs ≠ [] → eps.getLast? = some (cur + cs.flatten.length - 1)
      ∧ 0 < cur + cs.flatten.length) := by
  induction cs with
  | nil => intro cur eps h _; simp [endPts] at h; subst h; simp [endSpec]
  | cons c cs ih =>
    intro cur eps h hb
    simp only [List.flatten_cons, List.length_append] at hb
    simp only [endPts] at h
    split at h
    · cases h
    · rename_i hz
      cases hr : endPts (cur + c.length) cs with
      | none => simp [hr] at h
      | some r =>
        simp only [hr, Option.map_some, Option.some.injEq] at h
        subst h
        have hmod : (cur + c.length) % 65536 = cur + c.length := by omega
        have ⟨e1, e2⟩ := ih _ r hr (by omega)
        rw [hmod] at hz ⊢
        refine ⟨by simp [endSpec, e1], fun _ => ?_⟩
        simp only [List.flatten_cons, List.length_append]
        cases cs with
        | nil =>
          simp [endPts] at hr; subst hr
          simp; omega
        | cons c2 cs2 =>
          have := e2 (by simp)
          have hl := (endPts_length _ _ r hr).1
          cases r with
          | nil => simp at hl
          | cons r0 r' =>
            rw [List.getLast?_cons_cons, this.1]
            refine ⟨?_, by omega⟩
            congr 1; omega

theorem contoursOf_spec (cs : List (List Point)) : ∀ cur eps rest, endPts cur cs = some eps →
    cur + cs.flatten.length ≤ 65535 → contoursOf cur eps (cs.flatten ++ rest) = some cs := by
  induction cs with
  | nil => intro cur eps rest h _; simp [endPts] at h; subst h; simp [contoursOf]
  | cons c cs ih =>
    intro cur eps rest h hb
    simp only [List.flatten_cons, List.length_append] at hb
    simp only [endPts] at h
    split at h
    · cases h
    · rename_i hz
      cases hr : endPts (cur + c.length) cs with
      | none => simp [hr] at h
      | some r =>
        simp only [hr, Option.map_some, Option.some.injEq] at h
        subst h
        have hmod : (cur + c.length) % 65536 = cur + c.length := by omega
        rw [hmod] at hz ⊢
        have e1 : cur + c.length - 1 + 1 = cur + c.length := by omega
        have e2 : cur + c.length - cur = c.length := by omega
        have hlt : ¬ (cur + c.length < cur) := by omega
        simp only [contoursOf, e1, e2, hlt, ↓reduceIte, List.flatten_cons, List.append_assoc,
          List.drop_left, List.take_left]
        rw [ih _ r rest hr (by omega)]
        rfl


theorem padEven_cases (bs : List Nat) : ∃ pad, padEven bs = bs ++ pad ∧ (pad = [] ∨ pad = [0]) := by
  unfold padEven
  split
  · exact ⟨[], by simp, Or.inl rfl⟩
  · exact ⟨[0], rfl, Or.inr rfl⟩

theorem padEven_length (bs : List Nat) : (padEven bs).length % 2 = 0 := by
  unfold padEven
  split
  · assumption
  · simp only [List.length_append, List.length_cons, List.length_nil]; omega

theorem chunks4_be32 (offs : List Nat) (h : ∀ o ∈ offs, o < 4294967296) :
    chunks4 (offs.flatMap be32) = some offs := by
  induction offs with
  | nil => rfl
  | cons o os ih =>
    have ho := h o (by simp)
    have := ih (fun x hx => h x (by simp [hx]))
    simp only [List.flatMap_cons, be32, List.cons_append, List.nil_append, chunks4, this,
      Option.map_some, Option.some.injEq, List.cons.injEq, and_true]
    omega

theorem be16_nat (n : Nat) (h : n < 65536) : be16 (n : Int) = [n / 256, n % 256] := by
  rw [be16_eq]
  have e : ((n : Int) % 65536).toNat = n := by omega
  rw [e]

theorem chunks2_half (offs : List Nat) (h : ∀ o ∈ offs, o < 131072 ∧ o % 2 = 0) :
    (chunks2 (offs.flatMap (fun o => be16 ((o / 2 % 65536 : Nat) : Int)))).map
      (fun l => l.map (· * 2)) = some offs := by
  induction offs with
  | nil => rfl
  | cons o os ih =>
    have ho := h o (by simp)
    have ih' := ih (fun x hx => h x (by simp [hx]))
    cases hc : chunks2 (os.flatMap (fun o => be16 ((o / 2 % 65536 : Nat) : Int))) with
    | none => rw [hc] at ih'; cases ih'
    | some l =>
      rw [hc] at ih'
      simp only [Option.map_some, Option.some.injEq] at ih'
      rw [List.flatMap_cons, be16_nat _ (by omega)]
      simp only [List.cons_append, List.nil_append, chunks2]
      rw [hc]
      simp only [Option.map_some, Option.some.injEq, List.map_cons, List.cons.injEq]
      exact ⟨by omega, ih'⟩

end FontVerif.Glyf
