import FontVerif.Lemmas.Glyf
set_option linter.unusedVariables false
namespace FontVerif.Glyf
open FontVerif

theorem be16_length (v : Int) : (be16 v).length = 2 := rfl

theorem u16At_raw (pre post : List Nat) (a b : Nat) :
    u16At (pre ++ a :: b :: post) pre.length = some (a * 256 + b) := by
  unfold u16At
  have h1 : (pre ++ a :: b :: post).getD pre.length 0 = a := by
    simp [List.getD_eq_getElem?_getD]
  have h2 : (pre ++ a :: b :: post).getD (pre.length + 1) 0 = b := by
    simp [List.getD_eq_getElem?_getD]
  rw [h1, h2]
  have : pre.length + 2 ≤ (pre ++ a :: b :: post).length := by
    simp only [List.length_append, List.length_cons]; omega
  simp only [this, ↓reduceIte]

theorem u16At_mid (pre post : List Nat) (v : Int) :
    u16At (pre ++ (be16 v ++ post)) pre.length = some (v % 65536).toNat := by
  rw [be16_eq]
  simp only [List.cons_append, List.nil_append]
  rw [u16At_raw]
  congr 1
  omega

theorem i16At_mid (pre post : List Nat) (v : Int) (h : inI16 v) :
    i16At (pre ++ (be16 v ++ post)) pre.length = some v := by
  unfold i16At
  rw [u16At_mid]
  simp
  unfold wrapI16 inI16 at *
  simp only []
  split <;> omega
def xSize (f : Nat) : Nat :=
  (if hasBit f X_SHORT then 1 else 0) + (if (f &&& (X_SHORT ||| X_SAME)) = 0 then 2 else 0)
def ySize (f : Nat) : Nat :=
  (if hasBit f Y_SHORT then 1 else 0) + (if (f &&& (Y_SHORT ||| Y_SAME)) = 0 then 2 else 0)

theorem and_or_zero (f a b : Nat) :
    (f &&& (a ||| b) = 0) ↔ (hasBit f a = false ∧ hasBit f b = false) := by
  unfold hasBit
  rw [Nat.and_or_distrib_left, Nat.or_eq_zero_iff]
  simp

/-- bytes written for one coordinate = bytes the readers reserve for it from the flag -/
theorem size_flagAndDelta (v : Int) (S P : Nat) (f : Nat)
    (hS : hasBit S S = true) (hP : hasBit P P = true) (hSP : hasBit S P = false)
    (hPS : hasBit P S = false)
    (h1 : hasBit f S = hasBit (flagAndDelta v S P).1 S)
    (h2 : hasBit f P = hasBit (flagAndDelta v S P).1 P) :
    (if hasBit f S then 1 else 0) + (if (f &&& (S ||| P)) = 0 then 2 else 0)
      = (flagAndDelta v S P).2.bytes.length := by
  have h0S : hasBit 0 S = false := by simp [hasBit]
  have h0P : hasBit 0 P = false := by simp [hasBit]
  simp only [and_or_zero]
  unfold flagAndDelta at *
  split at h1
  · rename_i hv
    simp only [hv, ↓reduceIte] at h2 ⊢
    rw [h1, h2, hPS, hP]; simp [CoordDelta.bytes]
  · split at h1
    · rename_i hv hn
      simp only [hv, hn, ↓reduceIte, and_self] at h2 ⊢
      rw [h1, h2, hS, hSP]; simp [CoordDelta.bytes]
    · split at h1
      · rename_i hv hn hp
        simp only [hv, hn, hp, ↓reduceIte, and_self] at h2 ⊢
        rw [h1, h2, hasBit_or, hasBit_or, hS, hP]; simp [CoordDelta.bytes]
      · rename_i hv hn hp
        simp only [hv, hn, hp, ↓reduceIte] at h2 ⊢
        rw [h1, h2, h0S, h0P]; simp [CoordDelta.bytes, be16_eq]

theorem sizes_eq (pts : List Point) :
    ∀ (lx ly : Int) (ds : List PointDelta) (efs : List Nat),
    computePointDeltas lx ly pts = some ds → efs.map clearRepeat = ds.map (·.flag) →
    (efs.map xSize).sum = (xBytes ds).length ∧ (efs.map ySize).sum = (yBytes ds).length := by
  induction pts with
  | nil =>
    intro lx ly ds efs h he
    simp [computePointDeltas] at h; subst h
    simp at he; subst he; simp [xBytes, yBytes]
  | cons p ps ih =>
    intro lx ly ds efs h he
    simp only [computePointDeltas] at h
    split at h
    · cases hrec : computePointDeltas p.x p.y ps with
      | none => simp [hrec] at h
      | some rest =>
        simp only [hrec, Option.map_some, Option.some.injEq] at h
        subst h
        cases efs with
        | nil => simp at he
        | cons ef efs' =>
          simp only [List.map_cons, List.cons.injEq] at he
          obtain ⟨he1, he2⟩ := he
          have facts := pointFlag_facts p.on (p.x - lx) (p.y - ly)
          unfold pointFlag at facts
          obtain ⟨_, fon, fxs, fxp, fys, fyp⟩ := facts
          have b2 : hasBit ef X_SHORT = hasBit (flagAndDelta (p.x - lx) X_SHORT X_SAME).1 X_SHORT := by
            rw [← hasBit_clearRepeat ef X_SHORT (by decide), he1]; exact fxs
          have b3 : hasBit ef X_SAME = hasBit (flagAndDelta (p.x - lx) X_SHORT X_SAME).1 X_SAME := by
            rw [← hasBit_clearRepeat ef X_SAME (by decide), he1]; exact fxp
          have b4 : hasBit ef Y_SHORT = hasBit (flagAndDelta (p.y - ly) Y_SHORT Y_SAME).1 Y_SHORT := by
            rw [← hasBit_clearRepeat ef Y_SHORT (by decide), he1]; exact fys
          have b5 : hasBit ef Y_SAME = hasBit (flagAndDelta (p.y - ly) Y_SHORT Y_SAME).1 Y_SAME := by
            rw [← hasBit_clearRepeat ef Y_SAME (by decide), he1]; exact fyp
          have sx := size_flagAndDelta (p.x - lx) X_SHORT X_SAME ef
            X_bits.1 X_bits.2.1 X_bits.2.2.1 X_bits.2.2.2 b2 b3
          have sy := size_flagAndDelta (p.y - ly) Y_SHORT Y_SAME ef
            Y_bits.1 Y_bits.2.1 Y_bits.2.2.1 Y_bits.2.2.2 b4 b5
          have := ih p.x p.y rest efs' hrec he2
          simp only [xBytes, yBytes, List.flatMap_cons, List.length_append, List.map_cons,
            List.sum_cons] at this ⊢
          simp only [xSize, ySize]
          rw [sx, sy]
          omega
    · simp at h
theorem resolve_nil (more : List Nat) (pos xl yl : Nat) :
    resolveCoordsLen more pos 0 xl yl = some (pos, xl, yl) := by
  cases more <;> simp [resolveCoordsLen]

theorem sum_replicate (n k : Nat) : (List.replicate n k).sum = n * k := by
  induction n with
  | zero => simp
  | succ n ih => simp [List.replicate_succ, ih, Nat.succ_mul]; omega

theorem resolve_items (items : List RepeatableFlag) :
    ∀ (more : List Nat) (pos xl yl : Nat), (∀ i ∈ items, ItemWf i) →
      resolveCoordsLen (items.flatMap RepeatableFlag.bytes ++ more) pos (expandRaw items).length xl yl
        = some (pos + rleCost items, xl + ((expandRaw items).map xSize).sum,
                yl + ((expandRaw items).map ySize).sum) := by
  induction items with
  | nil => intro more pos xl yl _; simp [expandRaw, rleCost, resolve_nil]
  | cons i rest ih =>
    intro more pos xl yl hwf
    have hi := hwf i (by simp)
    have hrest : ∀ j ∈ rest, ItemWf j := fun j hj => hwf j (by simp [hj])
    have hcp := count_pos i
    rw [expandRaw_cons]
    simp only [List.flatMap_cons, List.length_append, List.length_replicate, List.append_assoc,
      List.map_append, List.map_replicate, List.sum_append, sum_replicate]
    have hne : ¬ (i.count + (expandRaw rest).length = 0) := by omega
    by_cases hb : hasBit i.flag REPEAT = true
    · have hc : i.count = i.rep + 1 := by simp [RepeatableFlag.count, hb]
      have hcost : i.cost = 2 := by simp [RepeatableFlag.cost, hb]
      simp only [RepeatableFlag.bytes, hb, ↓reduceIte, List.cons_append, List.nil_append,
        resolveCoordsLen, hne]
      have hgt : ¬ (i.rep + 1 > i.count + (expandRaw rest).length) := by omega
      simp only [hgt, ↓reduceIte]
      have e1 : i.count + (expandRaw rest).length - (i.rep + 1) = (expandRaw rest).length := by omega
      rw [e1, ih more _ _ _ hrest]
      simp only [rleCost, List.map_cons, List.sum_cons, hcost, xSize, ySize, hc]
      congr 1
      refine Prod.ext ?_ (Prod.ext ?_ ?_) <;> simp only [] <;> (repeat' split) <;> omega
    · have hb' : hasBit i.flag REPEAT = false := by simpa using hb
      have hc : i.count = 1 := by simp [RepeatableFlag.count, hb']
      have hcost : i.cost = 1 := by simp [RepeatableFlag.cost, hb']
      simp only [RepeatableFlag.bytes, hb', Bool.false_eq_true, ↓reduceIte, List.cons_append,
        List.nil_append, resolveCoordsLen, hne]
      have e1 : i.count + (expandRaw rest).length - 1 = (expandRaw rest).length := by omega
      rw [e1, ih more _ _ _ hrest]
      simp only [rleCost, List.map_cons, List.sum_cons, hcost, xSize, ySize, hc]
      congr 1
      refine Prod.ext ?_ (Prod.ext ?_ ?_) <;> simp only [] <;> (repeat' split) <;> omega

end FontVerif.Glyf
