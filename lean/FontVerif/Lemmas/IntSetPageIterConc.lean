/- C14 / concrete BitPage iterators: the element iterator machine `Iter { val, forward_index,
backward_index }` of bitpage.rs (Model/BitPageConc.lean, `EIter`) yields exactly the set bits of its
window, ascending from the front, descending from the back, each exactly once under every
interleaving; `BitPage::iter` over the machine is `pageMembers` of the abstraction. -/
import FontVerif.Lemmas.IntSetPageConc
set_option linter.unusedVariables false
set_option linter.unusedSimpArgs false
set_option exponentiation.threshold 600
namespace FontVerif.IntSet

/-! ### `trailing_zeros` / `leading_zeros` -/

theorem ctz64_none (x : Nat) (h : ∀ i, i < 64 → x.testBit i = false) : ctz64 x = 64 := by
  unfold ctz64
  have : (List.range 64).find? (fun i => x.testBit i) = none := by
    rw [List.find?_range_eq_none]
    intro i hi; simp [h i hi]
  rw [this]; rfl

theorem ctz64_some (x i : Nat) (hi : i < 64) (hb : x.testBit i = true)
    (hl : ∀ j, j < i → x.testBit j = false) : ctz64 x = i := by
  unfold ctz64
  have : (List.range 64).find? (fun i => x.testBit i) = some i := by
    rw [List.find?_range_eq_some]
    refine ⟨hb, by simp [hi], ?_⟩
    intro j hj; simp [hl j hj]
  rw [this]; rfl

theorem highBit?_none (x n : Nat) (h : ∀ j, j < n → x.testBit j = false) : highBit? x n = none := by
  induction n with
  | zero => rfl
  | succ n ih =>
    unfold highBit?
    rw [if_neg (by rw [h n (by omega)]; simp)]
    exact ih (fun j hj => h j (by omega))

theorem highBit?_some (x n i : Nat) (hi : i < n) (hb : x.testBit i = true)
    (hl : ∀ j, i < j → j < n → x.testBit j = false) : highBit? x n = some i := by
  induction n with
  | zero => omega
  | succ n ih =>
    unfold highBit?
    by_cases hin : i = n
    · subst hin; rw [if_pos hb]
    · rw [if_neg (by rw [hl n (by omega) (by omega)]; simp)]
      exact ih (by omega) (fun j h1 h2 => hl j h1 (by omega))

/-! ### the window of an element iterator -/

/-- state invariant of `Iter`: a `u64` value, `0 ≤ forward_index`, `backward_index ≤ 63` -/
def EIter.Ok (it : EIter) : Prop := it.val < 2 ^ 64 ∧ 0 ≤ it.fwd ∧ it.bwd ≤ 63

/-- the bits the iterator has not yielded yet: set bits `i` with `forward_index ≤ i ≤ backward_index` -/
def EIter.window (it : EIter) : List Nat :=
  (List.range 64).filter (fun i => (decide (it.fwd ≤ (i : Int)) && decide ((i : Int) ≤ it.bwd)) && it.val.testBit i)

theorem EIter.mem_window {it : EIter} {i : Nat} :
    i ∈ it.window ↔ i < 64 ∧ it.fwd ≤ (i : Int) ∧ (i : Int) ≤ it.bwd ∧ Nat.testBit it.val i = true := by
  simp [EIter.window, and_assoc]

theorem EIter.window_sorted (it : EIter) : it.window.Pairwise (· < ·) :=
  List.Pairwise.filter _ List.pairwise_lt_range

theorem EIter.window_length (it : EIter) : it.window.length ≤ 64 := by
  have := List.length_filter_le (fun (i : Nat) => (decide (it.fwd ≤ (i : Int)) && decide ((i : Int) ≤ it.bwd)) && it.val.testBit i) (List.range 64)
  simpa [EIter.window] using this


theorem ctz64_spec (x : Nat) :
    (ctz64 x = 64 ∧ ∀ i, i < 64 → x.testBit i = false) ∨
    (ctz64 x < 64 ∧ x.testBit (ctz64 x) = true ∧ ∀ j, j < ctz64 x → x.testBit j = false) := by
  by_cases h : ∀ i, i < 64 → x.testBit i = false
  · left; exact ⟨ctz64_none x h, h⟩
  · right
    unfold ctz64
    cases hf : (List.range 64).find? (fun i => x.testBit i) with
    | none =>
      rw [List.find?_range_eq_none] at hf
      exact absurd (fun i hi => by simpa using hf i hi) h
    | some i =>
      rw [List.find?_range_eq_some] at hf
      simp only [Option.getD_some]
      refine ⟨by simpa using hf.2.1, hf.1, fun j hj => by simpa using hf.2.2 j hj⟩

theorem clz64_spec (x : Nat) :
    (clz64 x = 64 ∧ ∀ i, i < 64 → x.testBit i = false) ∨
    (∃ z, z < 64 ∧ clz64 x = 63 - z ∧ x.testBit z = true ∧ ∀ j, z < j → j < 64 → x.testBit j = false) := by
  by_cases h : ∀ i, i < 64 → x.testBit i = false
  · left
    refine ⟨?_, h⟩
    unfold clz64; rw [highBit?_none x 64 h]
  · right
    -- the highest set bit below 64
    have hex : ∀ n, (∃ i, i < n ∧ x.testBit i = true) →
        ∃ z, z < n ∧ x.testBit z = true ∧ ∀ j, z < j → j < n → x.testBit j = false := by
      intro n
      induction n with
      | zero => rintro ⟨i, hi, _⟩; omega
      | succ n ih =>
        rintro ⟨i, hi, hb⟩
        by_cases hn : x.testBit n = true
        · exact ⟨n, by omega, hn, fun j h1 h2 => by omega⟩
        · have hin : i ≠ n := fun hc => hn (hc ▸ hb)
          obtain ⟨z, hz, hzb, hzl⟩ := ih ⟨i, by omega, hb⟩
          refine ⟨z, by omega, hzb, fun j h1 h2 => ?_⟩
          by_cases hjn : j = n
          · subst hjn; simpa using hn
          · exact hzl j h1 (by omega)
    have : ∃ i, i < 64 ∧ x.testBit i = true := by
      apply Classical.byContradiction
      intro hc
      apply h
      intro i hi
      cases hb : x.testBit i
      · rfl
      · exact absurd ⟨i, hi, hb⟩ hc
    obtain ⟨z, hz, hzb, hzl⟩ := hex 64 this
    refine ⟨z, hz, ?_, hzb, hzl⟩
    unfold clz64; rw [highBit?_some x 64 z hz hzb hzl]

/-- `val & !((1 << k) - 1)` keeps the bits at positions `≥ k` -/
theorem testBit_maskFwd (v k j : Nat) (hk : k < 64) (hj : j < 64) :
    (v &&& not64 (shl64 1 k - 1)).testBit j = (v.testBit j && decide (k ≤ j)) := by
  rw [Nat.testBit_and, testBit_not64 _ _ hj]
  have : shl64 1 k = 2 ^ k := by
    unfold shl64
    rw [Nat.one_shiftLeft, Nat.mod_eq_of_lt (Nat.pow_lt_pow_right (by omega) hk)]
  rw [this, Nat.testBit_two_pow_sub_one]
  by_cases hkj : k ≤ j <;> simp [hkj] <;> omega

/-- `val & mask` with `mask = (1 << (b + 1)) - 1` (or `u64::MAX` when `b + 1 = 64`) keeps the bits `≤ b` -/
theorem testBit_maskBwd (v b j : Nat) (hb : b < 64) :
    (v &&& (if b + 1 < 64 then 1 <<< (b + 1) - 1 else U64_MAX)).testBit j =
      (v.testBit j && decide (j ≤ b)) := by
  have : (if b + 1 < 64 then 1 <<< (b + 1) - 1 else U64_MAX) = 2 ^ (b + 1) - 1 := by
    split
    · rw [Nat.one_shiftLeft]
    · have : b + 1 = 64 := by omega
      rw [this]; rfl
  rw [this, Nat.testBit_and, Nat.testBit_two_pow_sub_one]
  by_cases hkj : j ≤ b <;> simp [hkj] <;> omega

theorem EIter.window_nil_of_gt (it : EIter) (h : it.fwd > it.bwd) : it.window = [] := by
  apply List.eq_nil_iff_forall_not_mem.mpr
  intro i hi
  rw [EIter.mem_window] at hi
  omega

theorem head_le_of_sorted {h : Nat} {t : List Nat} (hs : (h :: t).Pairwise (· < ·)) {x : Nat}
    (hx : x ∈ h :: t) : h ≤ x := by
  rcases List.mem_cons.mp hx with rfl | hx
  · exact Nat.le_refl _
  · exact Nat.le_of_lt ((List.pairwise_cons.mp hs).1 x hx)

/-- `Iter::next`: pops the head of the window (the lowest un-yielded set bit); `None` and an unchanged
state when the window is empty -/
theorem EIter.next_eq (it : EIter) (h : it.Ok) :
    it.next = match it.window with
      | [] => (none, it)
      | x :: _ => (some x, { it with fwd := (x : Int) + 1 }) := by
  unfold EIter.next
  by_cases h1 : it.fwd > it.bwd
  · rw [if_pos h1, EIter.window_nil_of_gt it h1]
  · rw [if_neg h1]
    simp only []
    have hf : it.fwd.toNat < 64 := by have := h.2.2; omega
    have hm := testBit_maskFwd it.val it.fwd.toNat
    generalize it.val &&& not64 (shl64 1 it.fwd.toNat - 1) = m at hm
    have hf0 := h.2.1
    rcases ctz64_spec m with ⟨hc, hno⟩ | ⟨hc, hcb, hcl⟩
    · have hw : it.window = [] := by
        apply List.eq_nil_iff_forall_not_mem.mpr
        intro i hi
        rw [EIter.mem_window] at hi
        have := hno i hi.1
        rw [hm i hf hi.1, hi.2.2.2] at this
        simp at this; omega
      rw [hw, hc, if_pos (by have := h.2.2; omega)]
    · generalize ctz64 m = c at hc hcb hcl
      rw [hm c hf hc] at hcb
      simp only [Bool.and_eq_true, decide_eq_true_eq] at hcb
      cases hw : it.window with
      | nil =>
        have : ¬ c ∈ it.window := by rw [hw]; simp
        rw [EIter.mem_window] at this
        have hgt : ¬ (c : Int) ≤ it.bwd := fun hle => this ⟨hc, by omega, hle, hcb.1⟩
        rw [if_pos (by omega)]
      | cons x t =>
        have hx : x ∈ it.window := by rw [hw]; simp
        have hs := EIter.window_sorted it
        rw [hw] at hs
        rw [EIter.mem_window] at hx
        have hcx : c ≤ x := by
          apply Nat.le_of_not_lt
          intro hlt
          have := hcl x hlt
          rw [hm x hf hx.1, hx.2.2.2] at this
          simp at this; omega
        have hcw : c ∈ it.window := by
          rw [EIter.mem_window]; exact ⟨hc, by omega, by omega, hcb.1⟩
        rw [hw] at hcw
        have hxc := head_le_of_sorted hs hcw
        have : c = x := by omega
        subst this
        rw [if_neg (by omega)]
        simp

theorem last_ge_of_sorted {l : List Nat} {z : Nat} (hs : (l ++ [z]).Pairwise (· < ·)) {x : Nat}
    (hx : x ∈ l ++ [z]) : x ≤ z := by
  rw [List.pairwise_append] at hs
  rcases List.mem_append.mp hx with hx | hx
  · exact Nat.le_of_lt (hs.2.2 x hx z (by simp))
  · simp at hx; omega

/-- `Iter::next_back`: pops the last element of the window (the highest un-yielded set bit) -/
theorem EIter.nextBack_eq (it : EIter) (h : it.Ok) :
    it.nextBack = match it.window.getLast? with
      | none => (none, it)
      | some x => (some x, { it with bwd := (x : Int) - 1 }) := by
  unfold EIter.nextBack
  by_cases h1 : it.bwd < it.fwd
  · rw [if_pos h1, EIter.window_nil_of_gt it h1]; rfl
  · rw [if_neg h1]
    simp only []
    have hf0 := h.2.1
    have hb : it.bwd.toNat < 64 := by have := h.2.2; omega
    have hm := fun j => testBit_maskBwd it.val it.bwd.toNat j hb
    generalize it.val &&& (if it.bwd.toNat + 1 < 64 then 1 <<< (it.bwd.toNat + 1) - 1 else U64_MAX) = m at hm
    rcases clz64_spec m with ⟨hc, hno⟩ | ⟨z, hz, hc, hzb, hzl⟩
    · have hw : it.window = [] := by
        apply List.eq_nil_iff_forall_not_mem.mpr
        intro i hi
        rw [EIter.mem_window] at hi
        have := hno i hi.1
        rw [hm i, hi.2.2.2] at this
        simp at this; omega
      rw [hw, hc]
      rw [if_pos (by omega)]; rfl
    · rw [hm z] at hzb
      simp only [Bool.and_eq_true, decide_eq_true_eq] at hzb
      rw [hc]
      have hni : ((64 : Int) - ((63 - z : Nat) : Int) - 1) = (z : Int) := by omega
      rw [hni]
      rcases List.eq_nil_or_concat it.window with hw | ⟨l, x, hw⟩
      · have : ¬ z ∈ it.window := by rw [hw]; simp
        rw [EIter.mem_window] at this
        have hgt : ¬ it.fwd ≤ (z : Int) := fun hle => this ⟨hz, hle, by omega, hzb.1⟩
        rw [hw, if_pos (by omega)]; rfl
      · rw [List.concat_eq_append] at hw
        have hx : x ∈ it.window := by rw [hw]; simp
        have hs := EIter.window_sorted it
        rw [hw] at hs
        rw [EIter.mem_window] at hx
        have hxz : x ≤ z := by
          apply Nat.le_of_not_lt
          intro hlt
          have := hzl x hlt hx.1
          rw [hm x, hx.2.2.2] at this
          simp at this; omega
        have hzw : z ∈ it.window := by
          rw [EIter.mem_window]; exact ⟨hz, by omega, by omega, hzb.1⟩
        rw [hw] at hzw
        have hzx := last_ge_of_sorted hs hzw
        have : z = x := by omega
        subst this
        rw [if_neg (by omega), hw]
        simp

/-! ### the window after one step -/

theorem EIter.window_after_next (it : EIter) (h : it.Ok) (x : Nat) (t : List Nat)
    (hw : it.window = x :: t) :
    EIter.window { it with fwd := (x : Int) + 1 } = t ∧ EIter.Ok { it with fwd := (x : Int) + 1 } := by
  have hs := EIter.window_sorted it
  rw [hw] at hs
  have hx : x ∈ it.window := by rw [hw]; simp
  rw [EIter.mem_window] at hx
  refine ⟨?_, h.1, by simp only []; omega, h.2.2⟩
  have h1 : EIter.window { it with fwd := (x : Int) + 1 } = it.window.filter (fun i => decide (x < i)) := by
    unfold EIter.window
    rw [List.filter_filter]
    apply List.filter_congr
    intro i hi
    simp only []
    by_cases hxi : x < i
    · have a1 : ((x : Int) + 1 ≤ (i : Int)) := by omega
      have a2 : it.fwd ≤ (i : Int) := by omega
      simp [hxi, a1, a2]
    · have a1 : ¬ ((x : Int) + 1 ≤ (i : Int)) := by omega
      simp [hxi, a1]
  rw [h1, hw, List.filter_cons, if_neg (by simp)]
  apply List.filter_eq_self.mpr
  intro a ha
  simpa using (List.pairwise_cons.mp hs).1 a ha

theorem EIter.window_after_nextBack (it : EIter) (h : it.Ok) (x : Nat) (l : List Nat)
    (hw : it.window = l ++ [x]) :
    EIter.window { it with bwd := (x : Int) - 1 } = l ∧ EIter.Ok { it with bwd := (x : Int) - 1 } := by
  have hs := EIter.window_sorted it
  rw [hw] at hs
  have hx : x ∈ it.window := by rw [hw]; simp
  rw [EIter.mem_window] at hx
  refine ⟨?_, h.1, h.2.1, by simp only []; omega⟩
  have h1 : EIter.window { it with bwd := (x : Int) - 1 } = it.window.filter (fun i => decide (i < x)) := by
    unfold EIter.window
    rw [List.filter_filter]
    apply List.filter_congr
    intro i hi
    simp only []
    by_cases hxi : i < x
    · have a1 : ((i : Int) ≤ (x : Int) - 1) := by omega
      have a2 : (i : Int) ≤ it.bwd := by omega
      simp [hxi, a1, a2]
    · have a1 : ¬ ((i : Int) ≤ (x : Int) - 1) := by omega
      simp [hxi, a1]
  rw [List.pairwise_append] at hs
  rw [h1, hw, List.filter_append, List.filter_cons, if_neg (by simp), List.filter_nil, List.append_nil]
  apply List.filter_eq_self.mpr
  intro a ha
  simpa using hs.2.2 a ha x (by simp)

/-! ### every interleaving of `next` / `next_back` -/

/-- For EVERY schedule of `next` (`true`) / `next_back` (`false`) calls: the values yielded at the front
(in call order), then the still un-yielded window, then the values yielded at the back (in reverse
call order) are exactly the original window — each set bit is produced exactly once, ascending from
the front, descending from the back, and the two ends never overlap. -/
theorem EIter.runSched_spec (s : List Bool) : ∀ (it : EIter), it.Ok →
    (it.runSched s).1 ++ (it.runSched s).2.2.window ++ (it.runSched s).2.1.reverse = it.window ∧
      (it.runSched s).2.2.Ok := by
  induction s with
  | nil => intro it h; simp [EIter.runSched, h]
  | cons b s ih =>
    intro it h
    cases b with
    | true =>
      unfold EIter.runSched
      rw [EIter.next_eq it h]
      cases hw : it.window with
      | nil =>
        simp only []
        have := ih it h
        rw [hw] at this
        exact this
      | cons x t =>
        simp only []
        obtain ⟨h1, h2⟩ := EIter.window_after_next it h x t hw
        have := ih _ h2
        rw [h1] at this
        refine ⟨?_, this.2⟩
        rw [← this.1]; simp
    | false =>
      unfold EIter.runSched
      rw [EIter.nextBack_eq it h]
      rcases List.eq_nil_or_concat it.window with hw | ⟨l, x, hw⟩
      · rw [hw]
        simp only [List.getLast?_nil]
        have := ih it h
        rw [hw] at this
        exact this
      · rw [List.concat_eq_append] at hw
        rw [hw]
        simp only [List.getLast?_append, List.getLast?_singleton, Option.some_or]
        obtain ⟨h1, h2⟩ := EIter.window_after_nextBack it h x l hw
        have := ih _ h2
        rw [h1] at this
        refine ⟨?_, this.2⟩
        rw [← this.1]; simp

/-! ### running one end to exhaustion -/

theorem EIter.drain_eq (n : Nat) : ∀ (it : EIter), it.Ok → it.window.length < n →
    it.drain n = it.window := by
  induction n with
  | zero => intro it _ hl; omega
  | succ n ih =>
    intro it h hl
    unfold EIter.drain
    rw [EIter.next_eq it h]
    cases hw : it.window with
    | nil => rfl
    | cons x t =>
      simp only []
      obtain ⟨h1, h2⟩ := EIter.window_after_next it h x t hw
      rw [ih _ h2 (by rw [h1]; rw [hw] at hl; simp at hl; omega), h1]

theorem EIter.drainBack_eq (n : Nat) : ∀ (it : EIter), it.Ok → it.window.length < n →
    it.drainBack n = it.window.reverse := by
  induction n with
  | zero => intro it _ hl; omega
  | succ n ih =>
    intro it h hl
    unfold EIter.drainBack
    rw [EIter.nextBack_eq it h]
    rcases List.eq_nil_or_concat it.window with hw | ⟨l, x, hw⟩
    · rw [hw]; rfl
    · rw [List.concat_eq_append] at hw
      rw [hw]
      simp only [List.getLast?_append, List.getLast?_singleton, Option.some_or]
      obtain ⟨h1, h2⟩ := EIter.window_after_nextBack it h x l hw
      rw [ih _ h2 (by rw [h1]; rw [hw] at hl; simp at hl; omega), h1]
      simp

/-- `Iter::…collect()`: exactly the window, ascending -/
theorem EIter.toList_eq (it : EIter) (h : it.Ok) : it.toList = it.window :=
  EIter.drain_eq 65 it h (by have := EIter.window_length it; omega)

/-- `Iter::…rev().collect()`: exactly the window, descending -/
theorem EIter.toListRev_eq (it : EIter) (h : it.Ok) : it.toListRev = it.window.reverse :=
  EIter.drainBack_eq 65 it h (by have := EIter.window_length it; omega)

theorem EIter.new_ok (e : Nat) (he : e < 2 ^ 64) : (EIter.new e).Ok :=
  ⟨he, by simp [EIter.new], by simp [EIter.new]⟩
theorem EIter.from_ok (e k : Nat) (he : e < 2 ^ 64) : (EIter.from e k).Ok :=
  ⟨he, by simp [EIter.from], by simp [EIter.from]⟩

/-- the window of `Iter::from(elem, k)`: the set bits at positions `≥ k` -/
theorem EIter.window_from (e k : Nat) :
    (EIter.from e k).window = (List.range 64).filter (fun i => decide (k ≤ i) && e.testBit i) := by
  unfold EIter.window EIter.from
  apply List.filter_congr
  intro i hi
  simp only [List.mem_range] at hi
  have a1 : (i : Int) ≤ 63 := by omega
  simp [a1]

/-- the window of `Iter::new(elem)`: all set bits -/
theorem EIter.window_new (e : Nat) :
    (EIter.new e).window = (List.range 64).filter (fun i => e.testBit i) := by
  have := EIter.window_from e 0
  simpa [EIter.from, EIter.new] using this


/-! ### `BitPage::iter` / `iter().rev()` over the element machine -/

theorem flatMap_congr' {α β : Type} (l : List α) (f g : α → List β) (h : ∀ x ∈ l, f x = g x) :
    l.flatMap f = l.flatMap g := by
  induction l with
  | nil => rfl
  | cons a l ih =>
    rw [List.flatMap_cons, List.flatMap_cons, h a (by simp), ih (fun x hx => h x (by simp [hx]))]

theorem flatMap_filter' {α β : Type} (l : List α) (p : α → Bool) (f : α → List β) :
    (l.filter p).flatMap f = l.flatMap (fun x => if p x then f x else []) := by
  induction l with
  | nil => rfl
  | cons a l ih =>
    rw [List.filter_cons]
    by_cases hp : p a = true
    · simp [hp, ih]
    · simp [hp, ih]

theorem zipIdx_flatMap (G : Nat → Nat → List Nat) (es : List Nat) (k : Nat) :
    (es.zipIdx k).flatMap (fun ei => G ei.2 ei.1) =
      (List.range es.length).flatMap (fun i => G (i + k) (es.getD i 0)) := by
  induction es generalizing k with
  | nil => simp
  | cons e es ih =>
    rw [List.zipIdx_cons, List.flatMap_cons, ih, List.length_cons, List.range_succ_eq_map,
      List.flatMap_cons, List.flatMap_map]
    simp only [Nat.zero_add, List.getD_cons_zero]
    congr 1
    apply flatMap_congr'
    intro i _
    have : i + (k + 1) = i.succ + k := by omega
    rw [this]
    simp

/-- one element of `BitPage::iter`: `Iter::new(elem).map(|idx| base + idx)` yields the members of the
word, offset by its base (and nothing for a zero word, so the `filter` changes nothing) -/
theorem elemIter_eq (e i : Nat) (he : e < 2 ^ 64) :
    (EIter.new e).toList.map (fun idx => i * 64 + idx) = elemMembers (i * 64) e := by
  rw [EIter.toList_eq _ (EIter.new_ok e he), EIter.window_new, elemMembers_eq]
  apply List.map_congr_left
  intro a _; omega

theorem elemMembers_zero (b : Nat) : elemMembers b 0 = [] := by simp [elemMembers]

theorem CPage.iterM_eq (p : CPage) (h : CPageOk p) : p.iterM = pageMembers p.abs.bits := by
  unfold CPage.iterM
  rw [flatMap_filter']
  have h1 : p.elems.zipIdx.flatMap (fun ei => if (ei.1 != 0) = true then
        (EIter.new ei.1).toList.map (fun idx => ei.2 * 64 + idx) else []) =
      p.elems.zipIdx.flatMap (fun ei => (fun i e => elemMembers (i * 64) e) ei.2 ei.1) := by
    apply flatMap_congr'
    intro ei hei
    have he := h.2.1 _ (List.fst_mem_of_mem_zipIdx hei)
    by_cases hz : ei.1 = 0
    · simp [hz, elemMembers_zero]
    · rw [if_pos (by simpa using hz)]
      exact elemIter_eq _ _ he
  rw [h1, zipIdx_flatMap (fun i e => elemMembers (i * 64) e) p.elems 0, h.1]
  unfold pageMembers
  apply flatMap_congr'
  intro i _
  show elemMembers ((i + 0) * 64) _ = elemMembers (i * 64) (pack p.elems / 2 ^ (i * 64) % 2 ^ 64)
  rw [pack_elem _ h.2.1, Nat.add_zero]

theorem CPage.iterRevM_eq (p : CPage) (h : CPageOk p) : p.iterRevM = (pageMembers p.abs.bits).reverse := by
  rw [← CPage.iterM_eq p h]
  unfold CPage.iterM CPage.iterRevM
  rw [List.reverse_flatMap]
  apply flatMap_congr'
  intro ei hei
  rw [List.mem_reverse, List.mem_filter] at hei
  have he := h.2.1 _ (List.fst_mem_of_mem_zipIdx hei.1)
  simp only [Function.comp]
  rw [EIter.toListRev_eq _ (EIter.new_ok _ he), EIter.toList_eq _ (EIter.new_ok _ he), List.map_reverse]

/-! ### `BitPage::iter_after(value)` over the element machine -/

theorem mem_elemMembers {b e x : Nat} (h : x ∈ elemMembers b e) : b ≤ x ∧ x < b + 64 := by
  rw [elemMembers_eq] at h
  simp only [List.mem_map, List.mem_filter, List.mem_range] at h
  obtain ⟨a, ⟨ha, _⟩, rfl⟩ := h
  omega

/-- one element of `iter_after`: the start element is iterated by `Iter::from(elem, (value & 63) + 1)`,
the later ones by `Iter::new`; either way the members of the word that are `> value & 511` -/
theorem iterAfterElem_eq (v e i : Nat) (he : e < 2 ^ 64) :
    (iterAfterElem v (elementIndex v) (e, i)).toList.map (fun idx => (i + elementIndex v) * 64 + idx) =
      (elemMembers ((i + elementIndex v) * 64) e).filter (fun x => decide (v % 512 < x)) := by
  unfold iterAfterElem elementIndex
  simp only []
  by_cases hi : i = 0
  · subst hi
    rw [if_pos (by simp), EIter.toList_eq _ (EIter.from_ok e _ he), EIter.window_from, elemMembers_eq,
      List.filter_map, List.filter_filter]
    have hf : (List.range 64).filter (fun i => decide (v % 64 + 1 ≤ i) && e.testBit i) =
        (List.range 64).filter (fun a => ((fun x => decide (v % 512 < x)) ∘
          (fun x => x + (0 + v % 512 / 64) * 64)) a && e.testBit a) := by
      apply List.filter_congr
      intro a _
      simp only [Function.comp]
      congr 1
      apply decide_eq_decide.mpr
      omega
    rw [hf]
    apply List.map_congr_left
    intro a _; omega
  · have hne : (v % 512 / 64 == i + v % 512 / 64) = false := by
      simp; omega
    rw [hne]
    simp only [Bool.false_eq_true, if_false]
    have := elemIter_eq e (i + v % 512 / 64) he
    rw [this]
    symm
    apply List.filter_eq_self.mpr
    intro x hx
    have := mem_elemMembers hx
    simp only [decide_eq_true_eq]
    omega

theorem getD_drop' (es : List Nat) (n i : Nat) : (es.drop n).getD i 0 = es.getD (n + i) 0 := by
  simp [List.getD_eq_getElem?_getD, List.getElem?_drop]

/-- `BitPage::iter_after(value)` collected forwards: the members of the page that are `> value & 511`,
ascending -/
theorem CPage.iterAfterM_eq (p : CPage) (v : Nat) (h : CPageOk p) :
    p.iterAfterM v = (pageMembers p.abs.bits).filter (fun x => decide (v % 512 < x)) := by
  have hst := elementIndex_lt v
  unfold CPage.iterAfterM
  simp only []
  rw [flatMap_filter']
  have h1 : (p.elems.drop (elementIndex v)).zipIdx.flatMap (fun ei => if (ei.1 != 0) = true then
        (iterAfterElem v (elementIndex v) ei).toList.map (fun idx => (ei.2 + elementIndex v) * 64 + idx)
        else []) =
      (p.elems.drop (elementIndex v)).zipIdx.flatMap (fun ei =>
        (fun i e => (elemMembers ((i + elementIndex v) * 64) e).filter (fun x => decide (v % 512 < x)))
          ei.2 ei.1) := by
    apply flatMap_congr'
    intro ei hei
    have he := h.2.1 _ (List.mem_of_mem_drop (List.fst_mem_of_mem_zipIdx hei))
    by_cases hz : ei.1 = 0
    · simp [hz, elemMembers_zero]
    · rw [if_pos (by simpa using hz)]
      exact iterAfterElem_eq v ei.1 ei.2 he
  rw [h1, zipIdx_flatMap (fun i e => (elemMembers ((i + elementIndex v) * 64) e).filter
    (fun x => decide (v % 512 < x))) _ 0, List.length_drop, h.1]
  unfold pageMembers
  rw [List.filter_flatMap]
  have h8 : 8 = elementIndex v + (8 - elementIndex v) := by omega
  conv => rhs; rw [h8, List.range_add, List.flatMap_append, List.flatMap_map]
  have hnil : (List.range (elementIndex v)).flatMap (fun a =>
      (elemMembers (a * 64) (p.abs.bits / 2 ^ (a * 64) % 2 ^ 64)).filter
        (fun x => decide (v % 512 < x))) = [] := by
    rw [List.flatMap_eq_nil_iff]
    intro a ha
    simp only [List.mem_range] at ha
    apply List.filter_eq_nil_iff.mpr
    intro x hx
    have := mem_elemMembers hx
    unfold elementIndex at ha
    simp only [decide_eq_true_eq]
    omega
  rw [hnil, List.nil_append]
  apply flatMap_congr'
  intro i _
  show (elemMembers ((i + 0 + elementIndex v) * 64) _).filter _ =
    (elemMembers ((elementIndex v + i) * 64) (pack p.elems / 2 ^ ((elementIndex v + i) * 64) % 2 ^ 64)).filter _
  rw [pack_elem _ h.2.1, getD_drop', Nat.add_zero, Nat.add_comm i]

theorem CPage.iterAfterRevM_eq (p : CPage) (v : Nat) (h : CPageOk p) :
    p.iterAfterRevM v = ((pageMembers p.abs.bits).filter (fun x => decide (v % 512 < x))).reverse := by
  rw [← CPage.iterAfterM_eq p v h]
  unfold CPage.iterAfterM CPage.iterAfterRevM
  simp only []
  rw [List.reverse_flatMap]
  apply flatMap_congr'
  intro ei hei
  rw [List.mem_reverse, List.mem_filter] at hei
  have he := h.2.1 _ (List.mem_of_mem_drop (List.fst_mem_of_mem_zipIdx hei.1))
  have hok : (iterAfterElem v (elementIndex v) ei).Ok := by
    unfold iterAfterElem
    simp only []
    split
    · exact EIter.from_ok _ _ he
    · exact EIter.new_ok _ he
  simp only [Function.comp]
  rw [EIter.toListRev_eq _ hok, EIter.toList_eq _ hok, List.map_reverse]
end FontVerif.IntSet
