/-
Helper lemmas for C05 (Model/Graph.lean): the Kahn / shortest-distance loops.
-/
import FontVerif.Model.Graph
import FontVerif.Lemmas.GraphSer
set_option linter.unusedVariables false
set_option linter.unusedSimpArgs false
namespace FontVerif.Graph
open FontVerif

/-- `b` is reachable from `a` following links of the objects of `g` -/
inductive Reach (g : Graph) : Nat → Nat → Prop
  | refl (a : Nat) : Reach g a a
  | step {a b : Nat} (l : Link) : Reach g a b → l ∈ (g.obj b).links → Reach g a l.target

theorem mem_insertBy {α : Type} (before : α → α → Bool) (x y : α) (q : List α) :
    y ∈ insertBy before x q ↔ y = x ∨ y ∈ q := by
  induction q with
  | nil => simp [insertBy]
  | cons z rest ih =>
    simp only [insertBy]
    split
    · simp
    · simp only [List.mem_cons, ih]
      constructor
      · rintro (h | h | h) <;> simp [h]
      · rintro (h | h | h) <;> simp [h]

theorem Map.find?_mem {α : Type} (m : Map α) (k : Nat) (v : α) (h : m.find? k = some v) : (k, v) ∈ m := by
  induction m with
  | nil => simp [Map.find?] at h
  | cons kv rest ih =>
    obtain ⟨k', v'⟩ := kv
    simp only [Map.find?] at h
    split at h
    · rename_i heq
      simp only [Option.some.injEq] at h
      subst heq; subst h
      exact List.mem_cons_self
    · exact List.mem_cons_of_mem _ (ih h)

theorem updateParents_objects (g : Graph) : (updateParents g).objects = g.objects := by
  unfold updateParents
  split <;> rfl

theorem updateParents_root (g : Graph) : (updateParents g).root = g.root := by
  unfold updateParents
  split <;> rfl

theorem updateParents_obj (g : Graph) (id : Nat) : (updateParents g).obj id = g.obj id := by
  simp [Graph.obj, updateParents_objects]

/-! ### the shared skeleton of both loops

`removed` counts, per target, the links seen so far from processed objects; a target enters the
queue at the moment its count equals the cached in-degree. -/

/-- invariant (for a set `S` of ids: queue ∪ processed): a target whose count equals its
in-degree is in `S` -/
def FullIn (g : Graph) (removed : Map Nat) (S : Nat → Prop) : Prop :=
  ∀ id c, removed.find? id = some c → c = g.indeg id → S id

def Counted (removed : Map Nat) (id : Nat) : Prop := ∃ c, removed.find? id = some c

theorem counted_insert (removed : Map Nat) (k v id : Nat) (h : Counted removed id) :
    Counted (removed.insert k v) id := by
  obtain ⟨c, hc⟩ := h
  unfold Counted
  rw [Map.find?_insert]
  split
  · exact ⟨v, rfl⟩
  · exact ⟨c, hc⟩

/-! ### Kahn -/

theorem kahnVisit_spec (g : Graph) (acc : List Nat × Map Nat) (l : Link) (S : Nat → Prop)
    (hfull : FullIn g acc.2 (fun x => x ∈ acc.1 ∨ S x)) :
    (∀ x, x ∈ acc.1 → x ∈ (kahnVisitLink g acc l).1) ∧
    (∀ x, Counted acc.2 x → Counted (kahnVisitLink g acc l).2 x) ∧
    Counted (kahnVisitLink g acc l).2 l.target ∧
    FullIn g (kahnVisitLink g acc l).2 (fun x => x ∈ (kahnVisitLink g acc l).1 ∨ S x) := by
  unfold kahnVisitLink
  simp only []
  split
  · rename_i hseen
    refine ⟨?_, ?_, ?_, ?_⟩
    · intro x hx; simp only [mem_insertBy]; right; exact hx
    · intro x hx; exact counted_insert _ _ _ _ hx
    · unfold Counted; rw [Map.find?_insert]; simp
    · intro id c hc hci
      simp only [Map.find?_insert] at hc
      simp only [mem_insertBy]
      split at hc
      · rename_i heq; left; left; exact heq.symm
      · rcases hfull id c hc hci with h | h
        · left; right; exact h
        · right; exact h
  · rename_i hseen
    refine ⟨fun x hx => hx, ?_, ?_, ?_⟩
    · intro x hx; exact counted_insert _ _ _ _ hx
    · unfold Counted; rw [Map.find?_insert]; simp
    · intro id c hc hci
      simp only [Map.find?_insert] at hc
      split at hc
      · rename_i heq
        simp only [Option.some.injEq] at hc
        subst heq
        rw [← hc] at hci
        exact absurd hci hseen
      · exact hfull id c hc hci

theorem kahnFold_spec (g : Graph) (links : List Link) (acc : List Nat × Map Nat) (S : Nat → Prop)
    (hfull : FullIn g acc.2 (fun x => x ∈ acc.1 ∨ S x)) :
    (∀ x, x ∈ acc.1 → x ∈ (links.foldl (kahnVisitLink g) acc).1) ∧
    (∀ x, Counted acc.2 x → Counted (links.foldl (kahnVisitLink g) acc).2 x) ∧
    (∀ l ∈ links, Counted (links.foldl (kahnVisitLink g) acc).2 l.target) ∧
    FullIn g (links.foldl (kahnVisitLink g) acc).2 (fun x => x ∈ (links.foldl (kahnVisitLink g) acc).1 ∨ S x) := by
  induction links generalizing acc with
  | nil => exact ⟨fun x h => h, fun x h => h, by simp, hfull⟩
  | cons l rest ih =>
    simp only [List.foldl_cons]
    obtain ⟨h1, h2, h3, h4⟩ := kahnVisit_spec g acc l S hfull
    obtain ⟨i1, i2, i3, i4⟩ := ih (kahnVisitLink g acc l) h4
    refine ⟨fun x hx => i1 x (h1 x hx), fun x hx => i2 x (h2 x hx), ?_, i4⟩
    intro l' hl'
    rcases List.mem_cons.mp hl' with rfl | hl'
    · exact i2 _ h3
    · exact i3 l' hl'

/-- loop invariant of `sort_kahn` (on the queue, the counts and the processed list) -/
structure KahnInv (g : Graph) (queue : List Nat) (removed : Map Nat) (orderRev : List Nat) : Prop where
  full : FullIn g removed (fun x => x ∈ queue ∨ x ∈ orderRev)
  counted : ∀ id ∈ orderRev, ∀ l ∈ (g.obj id).links, Counted removed l.target

theorem kahnStep_inv (g : Graph) (id : Nat) (rest : List Nat) (removed : Map Nat) (orderRev : List Nat)
    (hinv : KahnInv g (id :: rest) removed orderRev) :
    KahnInv g ((g.obj id).links.foldl (kahnVisitLink g) (rest, removed)).1
      ((g.obj id).links.foldl (kahnVisitLink g) (rest, removed)).2 (id :: orderRev) := by
  have hfull0 : FullIn g (rest, removed).2 (fun x => x ∈ (rest, removed).1 ∨ (x ∈ id :: orderRev)) := by
    intro x c hc hci
    rcases hinv.full x c hc hci with hx | hx
    · rcases List.mem_cons.mp hx with rfl | hx
      · right; exact List.mem_cons_self
      · left; exact hx
    · right; exact List.mem_cons_of_mem _ hx
  obtain ⟨f1, f2, f3, f4⟩ := kahnFold_spec g (g.obj id).links (rest, removed) (fun x => x ∈ id :: orderRev) hfull0
  constructor
  · exact f4
  · intro x hx l hl
    rcases List.mem_cons.mp hx with rfl | hx
    · exact f3 l hl
    · exact f2 _ (hinv.counted x hx l hl)

theorem kahnLoop_inv (g : Graph) (fuel : Nat) (st st' : SortSt) (h : kahnLoop g fuel st = some st')
    (hinv : KahnInv g st.queue st.removed st.orderRev) :
    KahnInv g st'.queue st'.removed st'.orderRev ∧ st'.queue = [] ∧ ∃ more, st'.orderRev = more ++ st.orderRev := by
  induction fuel generalizing st with
  | zero => simp [kahnLoop] at h
  | succ n ih =>
    unfold kahnLoop at h
    split at h
    · rename_i hq
      simp only [Option.some.injEq] at h
      subst h
      exact ⟨hinv, hq, [], rfl⟩
    · rename_i id rest hq
      simp only [] at h
      rw [hq] at hinv
      have hstep := kahnStep_inv g id rest st.removed st.orderRev hinv
      generalize hfold : (g.obj id).links.foldl (kahnVisitLink g) (rest, st.removed) = res at h hstep
      obtain ⟨queue, removed⟩ := res
      simp only [] at h
      obtain ⟨r1, r2, more, r3⟩ := ih _ h hstep
      refine ⟨r1, r2, more ++ [id], ?_⟩
      rw [r3]; simp

theorem cycleCheck_spec (g : Graph) (removed : Map Nat) (h : cycleCheck g removed = true)
    (id c : Nat) (hc : removed.find? id = some c) : c = g.indeg id := by
  unfold cycleCheck at h
  rw [List.all_eq_true] at h
  have := h (id, c) (Map.find?_mem removed id c hc)
  simpa using this

/-- what `sort_kahn` guarantees whenever it returns (more than one node): the objects are untouched,
the order starts with the root and is closed under links. -/
theorem sortKahn_spec (g g' : Graph) (hn : 1 < g.nodes.length) (h : sortKahn g = some g') :
    g'.objects = g.objects ∧ g'.root = g.root ∧
    (∃ tail, g'.order = g.root :: tail) ∧
    (∀ id ∈ g'.order, ∀ l ∈ (g.obj id).links, l.target ∈ g'.order) := by
  unfold sortKahn at h
  rw [if_neg (by omega)] at h
  simp only [] at h
  split at h
  · simp at h
  · rename_i st hloop
    split at h
    · rename_i hcyc
      simp only [Option.some.injEq] at h
      subst h
      have hinv0 : KahnInv (updateParents g) [(updateParents g).root] [] [] := by
        constructor
        · intro id c hc; simp [Map.find?] at hc
        · intro id hid; simp at hid
      obtain ⟨hinv, hq, more, hmore⟩ := kahnLoop_inv _ _ _ _ hloop hinv0
      simp only [List.append_nil] at hmore
      refine ⟨updateParents_objects g, updateParents_root g, ?_, ?_⟩
      · -- the first element: unfold one step of the loop by hand, the root is popped first
        have hfuel : ∃ n, (updateParents g).nodes.length + 2 = n + 1 := ⟨_, rfl⟩
        obtain ⟨n, hn'⟩ := hfuel
        rw [hn'] at hloop
        unfold kahnLoop at hloop
        simp only [] at hloop
        have hstep := kahnStep_inv (updateParents g) (updateParents g).root [] [] [] hinv0
        generalize hfold : ((updateParents g).obj (updateParents g).root).links.foldl (kahnVisitLink (updateParents g)) ([], []) = res at hloop hstep
        obtain ⟨q1, r1⟩ := res
        simp only [] at hloop
        obtain ⟨_, _, more1, hmore1⟩ := kahnLoop_inv _ _ _ _ hloop hstep
        refine ⟨more1.reverse, ?_⟩
        simp only [hmore1, List.reverse_append, List.reverse_cons, List.reverse_nil, List.nil_append,
          List.singleton_append, updateParents_root]
      · intro id hid l hl
        simp only [List.mem_reverse] at hid ⊢
        rw [← updateParents_obj] at hl
        obtain ⟨c, hc⟩ := hinv.counted id hid l hl
        have hci := cycleCheck_spec _ _ hcyc _ _ hc
        rcases hinv.full _ _ hc hci with hx | hx
        · rw [hq] at hx; simp at hx
        · exact hx
    · simp at h

/-- closure under links + contains the root ⇒ contains everything reachable -/
theorem reach_mem (g : Graph) (order : List Nat) (a : Nat) (ha : a ∈ order)
    (hclosed : ∀ id ∈ order, ∀ l ∈ (g.obj id).links, l.target ∈ order) (b : Nat) (h : Reach g a b) :
    b ∈ order := by
  induction h with
  | refl => exact ha
  | step l _ hl ih => exact hclosed _ ih l hl

/-! ### shortest distance -/

def qIds (q : List QEntry) (x : Nat) : Prop := ∃ e ∈ q, e.id = x

theorem shortVisit_spec (g : Graph) (acc : List QEntry × Map Nat × Nat) (l : Link) (S : Nat → Prop)
    (hfull : FullIn g acc.2.1 (fun x => qIds acc.1 x ∨ S x)) :
    (∀ x, qIds acc.1 x → qIds (shortVisitLink g acc l).1 x) ∧
    (∀ x, Counted acc.2.1 x → Counted (shortVisitLink g acc l).2.1 x) ∧
    Counted (shortVisitLink g acc l).2.1 l.target ∧
    FullIn g (shortVisitLink g acc l).2.1 (fun x => qIds (shortVisitLink g acc l).1 x ∨ S x) := by
  unfold shortVisitLink
  simp only []
  split
  · rename_i hseen
    refine ⟨?_, ?_, ?_, ?_⟩
    · rintro x ⟨e, he, hx⟩; exact ⟨e, by simp only [mem_insertBy]; right; exact he, hx⟩
    · intro x hx; exact counted_insert _ _ _ _ hx
    · unfold Counted; rw [Map.find?_insert]; simp
    · intro id c hc hci
      simp only [Map.find?_insert] at hc
      split at hc
      · rename_i heq
        left
        exact ⟨_, by simp only [mem_insertBy]; left; rfl, heq⟩
      · rcases hfull id c hc hci with ⟨e, he, hx⟩ | h
        · left; exact ⟨e, by simp only [mem_insertBy]; right; exact he, hx⟩
        · right; exact h
  · rename_i hseen
    refine ⟨fun x hx => hx, ?_, ?_, ?_⟩
    · intro x hx; exact counted_insert _ _ _ _ hx
    · unfold Counted; rw [Map.find?_insert]; simp
    · intro id c hc hci
      simp only [Map.find?_insert] at hc
      split at hc
      · rename_i heq
        simp only [Option.some.injEq] at hc
        subst heq
        rw [← hc] at hci
        exact absurd hci hseen
      · exact hfull id c hc hci

theorem shortFold_spec (g : Graph) (links : List Link) (acc : List QEntry × Map Nat × Nat) (S : Nat → Prop)
    (hfull : FullIn g acc.2.1 (fun x => qIds acc.1 x ∨ S x)) :
    (∀ x, qIds acc.1 x → qIds (links.foldl (shortVisitLink g) acc).1 x) ∧
    (∀ x, Counted acc.2.1 x → Counted (links.foldl (shortVisitLink g) acc).2.1 x) ∧
    (∀ l ∈ links, Counted (links.foldl (shortVisitLink g) acc).2.1 l.target) ∧
    FullIn g (links.foldl (shortVisitLink g) acc).2.1 (fun x => qIds (links.foldl (shortVisitLink g) acc).1 x ∨ S x) := by
  induction links generalizing acc with
  | nil => exact ⟨fun x h => h, fun x h => h, by simp, hfull⟩
  | cons l rest ih =>
    simp only [List.foldl_cons]
    obtain ⟨h1, h2, h3, h4⟩ := shortVisit_spec g acc l S hfull
    obtain ⟨i1, i2, i3, i4⟩ := ih (shortVisitLink g acc l) h4
    refine ⟨fun x hx => i1 x (h1 x hx), fun x hx => i2 x (h2 x hx), ?_, i4⟩
    intro l' hl'
    rcases List.mem_cons.mp hl' with rfl | hl'
    · exact i2 _ h3
    · exact i3 l' hl'

structure ShortInv (g : Graph) (queue : List QEntry) (removed : Map Nat) (orderRev : List Nat) : Prop where
  full : FullIn g removed (fun x => qIds queue x ∨ x ∈ orderRev)
  counted : ∀ id ∈ orderRev, ∀ l ∈ (g.obj id).links, Counted removed l.target

theorem shortStep_inv (g : Graph) (e : QEntry) (rest : List QEntry) (removed : Map Nat) (orderRev : List Nat)
    (k : Nat) (hinv : ShortInv g (e :: rest) removed orderRev) :
    ShortInv g ((g.obj e.id).links.foldl (shortVisitLink g) (rest, removed, k)).1
      ((g.obj e.id).links.foldl (shortVisitLink g) (rest, removed, k)).2.1 (e.id :: orderRev) := by
  have hfull0 : FullIn g (rest, removed, k).2.1 (fun x => qIds (rest, removed, k).1 x ∨ (x ∈ e.id :: orderRev)) := by
    intro x c hc hci
    rcases hinv.full x c hc hci with ⟨e', he', hx⟩ | hx
    · rcases List.mem_cons.mp he' with rfl | he'
      · right; rw [← hx]; exact List.mem_cons_self
      · left; exact ⟨e', he', hx⟩
    · right; exact List.mem_cons_of_mem _ hx
  obtain ⟨f1, f2, f3, f4⟩ := shortFold_spec g (g.obj e.id).links (rest, removed, k) (fun x => x ∈ e.id :: orderRev) hfull0
  constructor
  · exact f4
  · intro x hx l hl
    rcases List.mem_cons.mp hx with rfl | hx
    · exact f3 l hl
    · exact f2 _ (hinv.counted x hx l hl)

theorem shortLoop_inv (g : Graph) (fuel : Nat) (st st' : ShortSt) (h : shortLoop g fuel st = some st')
    (hinv : ShortInv g st.queue st.removed st.orderRev) :
    ShortInv g st'.queue st'.removed st'.orderRev ∧ st'.queue = [] ∧ ∃ more, st'.orderRev = more ++ st.orderRev := by
  induction fuel generalizing st with
  | zero => simp [shortLoop] at h
  | succ n ih =>
    unfold shortLoop at h
    split at h
    · rename_i hq
      simp only [Option.some.injEq] at h
      subst h
      exact ⟨hinv, hq, [], rfl⟩
    · rename_i e rest hq
      simp only [] at h
      rw [hq] at hinv
      have hstep := shortStep_inv g e rest st.removed st.orderRev st.objOrder hinv
      generalize hfold : (g.obj e.id).links.foldl (shortVisitLink g) (rest, st.removed, st.objOrder) = res at h hstep
      obtain ⟨queue, removed, oo⟩ := res
      simp only [] at h
      obtain ⟨r1, r2, more, r3⟩ := ih _ h hstep
      refine ⟨r1, r2, more ++ [e.id], ?_⟩
      rw [r3]; simp

theorem updateDistances_objects (g g' : Graph) (h : updateDistances g = some g') :
    g'.objects = g.objects ∧ g'.root = g.root := by
  unfold updateDistances at h
  simp only [] at h
  split at h
  · simp at h
  · simp only [Option.some.injEq] at h; subst h; exact ⟨rfl, rfl⟩

theorem assignSpace0_objects (g g' : Graph) (h : assignSpace0 g = some g') :
    g'.objects = g.objects ∧ g'.root = g.root := by
  unfold assignSpace0 at h
  split at h
  · simp at h
  · simp only [Option.some.injEq] at h; subst h; exact ⟨rfl, rfl⟩

theorem obj_congr (g g' : Graph) (h : g'.objects = g.objects) (id : Nat) : g'.obj id = g.obj id := by
  simp [Graph.obj, h]

/-- what `sort_shortest_distance` guarantees whenever it returns: the objects are untouched, the
order starts with the root and is closed under links. -/
theorem sortShortest_spec (g g' : Graph) (h : sortShortest g = some g') :
    g'.objects = g.objects ∧ g'.root = g.root ∧
    (∃ tail, g'.order = g.root :: tail) ∧
    (∀ id ∈ g'.order, ∀ l ∈ (g.obj id).links, l.target ∈ g'.order) := by
  unfold sortShortest at h
  simp only [Option.bind_eq_bind, Option.bind_eq_some_iff] at h
  obtain ⟨g2, hd, g3, hs, st, hloop, h⟩ := h
  split at h
  · rename_i hcyc
    simp only [Option.some.injEq] at h
    subst h
    have ho2 := updateDistances_objects _ _ hd
    have ho3 := assignSpace0_objects _ _ hs
    have hobjs : g3.objects = g.objects := by rw [ho3.1, ho2.1, updateParents_objects]
    have hroot : g3.root = g.root := by rw [ho3.2, ho2.2, updateParents_root]
    have hinv0 : ShortInv g3 [⟨0, 0, 0, g3.root⟩] [] [] := by
      constructor
      · intro id c hc; simp [Map.find?] at hc
      · intro id hid; simp at hid
    obtain ⟨hinv, hq, more, hmore⟩ := shortLoop_inv _ _ _ _ hloop hinv0
    simp only [List.append_nil] at hmore
    refine ⟨hobjs, hroot, ?_, ?_⟩
    · have hfuel : ∃ n, g3.nodes.length + 2 = n + 1 := ⟨_, rfl⟩
      obtain ⟨n, hn'⟩ := hfuel
      rw [hn'] at hloop
      unfold shortLoop at hloop
      simp only [] at hloop
      have hstep := shortStep_inv g3 ⟨0, 0, 0, g3.root⟩ [] [] [] 1 hinv0
      generalize hfold : (g3.obj g3.root).links.foldl (shortVisitLink g3) ([], [], 1) = res at hloop hstep
      obtain ⟨q1, r1, o1⟩ := res
      simp only [] at hloop
      obtain ⟨_, _, more1, hmore1⟩ := shortLoop_inv _ _ _ _ hloop hstep
      refine ⟨more1.reverse, ?_⟩
      simp only [hmore1, List.reverse_append, List.reverse_cons, List.reverse_nil, List.nil_append,
        List.singleton_append, hroot]
    · intro id hid l hl
      simp only [List.mem_reverse] at hid ⊢
      rw [← obj_congr g g3 hobjs] at hl
      obtain ⟨c, hc⟩ := hinv.counted id hid l hl
      have hci := cycleCheck_spec _ _ hcyc _ _ hc
      rcases hinv.full _ _ hc hci with ⟨e, he, _⟩ | hx
      · rw [hq] at he; simp at he
      · exact hx
  · simp at h

end FontVerif.Graph
